(* Proofs about Model/Datagram.v : datagram boundaries and stream isolation (C14). *)
From Coq Require Import NArith ZArith List Lia Bool.
From Coq Require Import ZifyN ZifyNat ZifyBool.
From Cloak Require Import Gen.Consts Model.Datagram.
Import ListNotations.

(* ---------------------------------------------------------------------------------- *)
(* generated obligations: facts about the constants read from the source on every run *)
Lemma max_unit_16401 : max_unit 16401 = mux_maxStreamUnitWrite_16401.
Proof. reflexivity. Qed.
Lemma max_unit_default : max_unit mux_default_MsgOnWireSizeLimit = mux_default_maxStreamUnitWrite.
Proof. reflexivity. Qed.
Lemma max_unit_positive_16401 : (0 < max_unit 16401)%Z.
Proof. reflexivity. Qed.
(* a frame carrying a maximal datagram, with header and maximal padding+tag, fits the limit *)
Lemma max_unit_fits : forall l, (max_unit l + mux_frameHeaderLength + mux_maxExtraLen <= l)%Z.
Proof. intros l. unfold max_unit. lia. Qed.
Lemma buf_limit_val : buf_limit = 2147483647%N.
Proof. reflexivity. Qed.

(* ---------------------------------------------------------------------------------- *)
(* representation: the pipe holds the queue [pend] of whole datagrams *)
Definition rep (d : dg) (pend : list (list N)) : Prop :=
  lens d = map (@length N) pend /\ buf d = concat pend.

Lemma firstn_app_exact {A} (x y : list A) : firstn (length x) (x ++ y) = x.
Proof. induction x as [|a x IH]; cbn; [now destruct y|]. now rewrite IH. Qed.
Lemma skipn_app_exact {A} (x y : list A) : skipn (length x) (x ++ y) = y.
Proof. induction x as [|a x IH]; cbn; [reflexivity|]. exact IH. Qed.

Lemma split_by_rep pend : split_by (map (@length N) pend) (concat pend) = pend.
Proof. induction pend as [|x r IH]; cbn [map concat split_by]; [reflexivity|].
  now rewrite firstn_app_exact, skipn_app_exact, IH. Qed.

Lemma rep_pending d pend : rep d pend -> pending d = pend.
Proof. intros [Hl Hb]. unfold pending. rewrite Hl, Hb. apply split_by_rep. Qed.

Lemma length_concat_sum (pend : list (list N)) :
  length (concat pend) = list_sum (map (@length N) pend).
Proof. induction pend as [|x r IH]; cbn [concat map list_sum]; [reflexivity|].
  now rewrite app_length, IH. Qed.

Lemma rep_inv d pend : rep d pend -> list_sum (lens d) = length (buf d).
Proof. intros [Hl Hb]. rewrite Hl, Hb. symmetry. apply length_concat_sum. Qed.

Lemma rep_init : rep dg_init [].
Proof. split; reflexivity. Qed.

Lemma rep_ext d pend : rep d pend -> d = mkD (map (@length N) pend) (concat pend) (closed d).
Proof. intros [Hl Hb]. destruct d as [l b c]. cbn in *. now subst. Qed.

(* ---- the three operations -------------------------------------------------------- *)
Lemma write_rep d pend c p d' r : rep d pend -> dg_write d c p = (d', r) ->
  match r with
  | WrStored => rep d' (pend ++ [p]) /\ closed d = false /\ closed d' = false /\ c = false
  | WrClosing => rep d' pend /\ closed d = false /\ closed d' = true /\ c = true
  | WrClosedPipe => d' = d /\ closed d = true
  | WrWouldBlock => d' = d /\ closed d = false
  end.
Proof.
  intros [Hl Hb] H. unfold dg_write in H.
  destruct (closed d) eqn:Ec. { injection H as <- <-. now split. }
  destruct (negb _) eqn:El. { injection H as <- <-. now split. }
  destruct c; injection H as <- <-.
  - repeat split; assumption.
  - repeat split; cbn [lens buf closed].
    + rewrite Hl, map_app. reflexivity.
    + rewrite Hb, concat_app. cbn. now rewrite app_nil_r.
Qed.

Lemma write_outcome d c p :
  closed d = false -> (N.of_nat (length (buf d)) <= buf_limit)%N ->
  snd (dg_write d c p) = if c then WrClosing else WrStored.
Proof. intros Hc Hl. unfold dg_write. rewrite Hc.
  destruct (N.leb_spec (N.of_nat (length (buf d))) buf_limit); [|lia]. cbn [negb]. now destruct c. Qed.

Lemma read_rep d pend k :
  rep d pend ->
  match pend with
  | [] => dg_read d k = (d, if closed d then RdEOF else RdEmpty)
  | x :: rest =>
      if Nat.ltb k (length x) then dg_read d k = (d, RdShort)
      else exists d', dg_read d k = (d', RdData x) /\ rep d' rest /\ closed d' = closed d
  end.
Proof.
  intros [Hl Hb]. unfold dg_read. destruct pend as [|x rest]; cbn [map concat] in *.
  - rewrite Hl. reflexivity.
  - rewrite Hl. destruct (Nat.ltb k (length x)); [reflexivity|].
    rewrite Hb, firstn_app_exact, skipn_app_exact.
    eexists. split; [reflexivity|]. repeat split; reflexivity.
Qed.

Lemma close_rep d pend : rep d pend -> rep (dg_close d) pend.
Proof. intros [Hl Hb]. split; assumption. Qed.

(* a short read changes nothing: both directions *)
Lemma read_short_noop d k : snd (dg_read d k) = RdShort -> fst (dg_read d k) = d.
Proof. unfold dg_read. destruct (lens d) as [|n r]; [reflexivity|].
  destruct (Nat.ltb k n); [reflexivity|]. cbn. discriminate. Qed.

Lemma read_short_iff d k n r : lens d = n :: r ->
  (k < n -> dg_read d k = (d, RdShort)) /\ (n <= k -> snd (dg_read d k) <> RdShort).
Proof. intros H. unfold dg_read. rewrite H. split; intros Hk.
  - destruct (Nat.ltb_spec k n); [reflexivity|lia].
  - destruct (Nat.ltb_spec k n); [lia|]. cbn. discriminate. Qed.

(* ---- runs ------------------------------------------------------------------------ *)
(* ghost projections of a run: the datagrams the pipe accepted, the datagrams reads returned *)
Fixpoint accepted (es : list ev) (os : list obs) : list (list N) :=
  match es, os with
  | Wr _ p :: es', OWr WrStored :: os' => p :: accepted es' os'
  | _ :: es', _ :: os' => accepted es' os'
  | _, _ => []
  end.

Fixpoint delivered (os : list obs) : list (list N) :=
  match os with
  | ORd (RdData x) :: t => x :: delivered t
  | _ :: t => delivered t
  | [] => []
  end.

Lemma steps_cons d e es :
  steps d (e :: es) = let '(d1, o) := step d e in let '(d2, os) := steps d1 es in (d2, o :: os).
Proof. reflexivity. Qed.

Lemma steps_app d es1 es2 :
  steps d (es1 ++ es2) =
  let '(d1, os1) := steps d es1 in let '(d2, os2) := steps d1 es2 in (d2, os1 ++ os2).
Proof. revert d. induction es1 as [|e es1 IH]; intros d; cbn [app steps].
  - destruct (steps d es2). reflexivity.
  - destruct (step d e) as [d1 o]. rewrite IH. destruct (steps d1 es1) as [d2 os1].
    destruct (steps d2 es2). reflexivity. Qed.

Lemma steps_length d es : length (snd (steps d es)) = length es.
Proof. revert d; induction es as [|e es IH]; intros d; cbn [steps]; [reflexivity|].
  destruct (step d e) as [d1 o]. specialize (IH d1). destruct (steps d1 es). cbn in *. now rewrite IH. Qed.

Lemma run_inv es : forall d pend d' os, rep d pend -> steps d es = (d', os) ->
  exists pend', rep d' pend' /\ pend ++ accepted es os = delivered os ++ pend'.
Proof.
  induction es as [|e es IH]; intros d pend d' os Hr Hs.
  - cbn in Hs. injection Hs as <- <-. exists pend. split; [assumption|]. cbn. now rewrite app_nil_r.
  - rewrite steps_cons in Hs. destruct (step d e) as [d1 o] eqn:Est.
    destruct (steps d1 es) as [d2 os'] eqn:Ess. injection Hs as <- <-.
    destruct e as [c p|k|]; cbn [step] in Est.
    + destruct (dg_write d c p) as [dw r] eqn:Ew. injection Est as <- <-.
      pose proof (write_rep _ _ _ _ _ _ Hr Ew) as Hw.
      destruct r; cbn [accepted delivered].
      * destruct Hw as (Hr1 & _). destruct (IH _ _ _ _ Hr1 Ess) as (pend' & Hr' & Heq).
        exists pend'. split; [assumption|]. rewrite <- Heq, <- app_assoc. reflexivity.
      * destruct Hw as (Hr1 & _). exact (IH _ _ _ _ Hr1 Ess).
      * destruct Hw as (-> & _). exact (IH _ _ _ _ Hr Ess).
      * destruct Hw as (-> & _). exact (IH _ _ _ _ Hr Ess).
    + destruct (dg_read d k) as [dr r] eqn:Erd. injection Est as <- <-.
      pose proof (read_rep d pend k Hr) as Hrd.
      destruct pend as [|x rest].
      * rewrite Erd in Hrd. injection Hrd as -> ->.
        destruct (closed d); cbn [accepted delivered]; exact (IH _ _ _ _ Hr Ess).
      * destruct (Nat.ltb k (length x)).
        -- rewrite Erd in Hrd. injection Hrd as -> ->. cbn [accepted delivered]. exact (IH _ _ _ _ Hr Ess).
        -- destruct Hrd as (dd & Hdd & Hr1 & _). rewrite Erd in Hdd. injection Hdd as -> ->.
           cbn [accepted delivered]. destruct (IH _ _ _ _ Hr1 Ess) as (pend' & Hr' & Heq).
           exists pend'. split; [assumption|]. cbn [app]. now rewrite Heq.
    + injection Est as <- <-. cbn [accepted delivered].
      exact (IH _ _ _ _ (close_rep _ _ Hr) Ess).
Qed.

Definition reachable (d : dg) : Prop := exists es os, steps dg_init es = (d, os).

Lemma reachable_rep d : reachable d -> rep d (pending d).
Proof. intros (es & os & H). destruct (run_inv es _ _ _ _ rep_init H) as (pend' & Hr & _).
  now rewrite (rep_pending _ _ Hr). Qed.

(* dg_inv *)
Lemma dg_inv_reachable d : reachable d -> list_sum (lens d) = length (buf d).
Proof. intros H. exact (rep_inv _ _ (reachable_rep _ H)). Qed.

Lemma boundaries es d os : steps dg_init es = (d, os) ->
  accepted es os = delivered os ++ pending d
  /\ lens d = map (@length N) (pending d) /\ buf d = concat (pending d).
Proof. intros H. destruct (run_inv es _ _ _ _ rep_init H) as (pend' & Hr & Heq).
  rewrite (rep_pending _ _ Hr). cbn [app] in Heq. split; [exact Heq|exact Hr]. Qed.

(* what any read does in any reachable state *)
Lemma read_outcomes d k : reachable d ->
  match pending d with
  | [] => dg_read d k = (d, if closed d then RdEOF else RdEmpty)
  | x :: rest =>
      if Nat.ltb k (length x) then dg_read d k = (d, RdShort)
      else exists d', dg_read d k = (d', RdData x) /\ pending d' = rest /\ closed d' = closed d
           /\ reachable d'
  end.
Proof.
  intros Hre. pose proof (read_rep d _ k (reachable_rep _ Hre)) as H.
  destruct (pending d) as [|x rest]; [exact H|].
  destruct (Nat.ltb k (length x)); [exact H|].
  destruct H as (d' & Hd & Hr & Hc). exists d'. repeat split; try assumption.
  - exact (rep_pending _ _ Hr).
  - destruct Hre as (es & os & Hs). exists (es ++ [Rd k]), (os ++ [ORd (RdData x)]).
    rewrite steps_app, Hs. cbn [steps step]. rewrite Hd. reflexivity.
Qed.

(* a read with a too-small buffer: error, state unchanged, and the same datagram is still the
   next one - a following read with enough room returns it whole *)
Lemma short_read_noop d k x rest : reachable d -> pending d = x :: rest -> k < length x ->
  dg_read d k = (d, RdShort)
  /\ forall k', length x <= k' -> exists d', dg_read d k' = (d', RdData x) /\ pending d' = rest.
Proof.
  intros Hre Hp Hk. split.
  - pose proof (read_outcomes d k Hre) as H. rewrite Hp in H.
    destruct (Nat.ltb_spec k (length x)); [exact H|lia].
  - intros k' Hk'. pose proof (read_outcomes d k' Hre) as H. rewrite Hp in H.
    destruct (Nat.ltb_spec k' (length x)); [lia|]. destruct H as (d' & H1 & H2 & _). now exists d'.
Qed.

(* draining: reads with enough room return the pending datagrams one by one *)
Lemma drain_rep pend : forall d ks, rep d pend -> Forall2 (fun k x => length x <= k) ks pend ->
  exists d', steps d (map Rd ks) = (d', map (fun x => ORd (RdData x)) pend)
             /\ rep d' [] /\ closed d' = closed d.
Proof.
  induction pend as [|x rest IH]; intros d ks Hr Hf; inversion Hf; subst.
  - exists d. cbn. repeat split; try apply Hr.
  - rename x0 into k. cbn [map]. rewrite steps_cons. cbn [step].
    pose proof (read_rep d _ k Hr) as H. cbn beta iota in H.
    destruct (Nat.ltb_spec k (length x)); [lia|].
    destruct H as (d1 & Hd & Hr1 & Hc). rewrite Hd.
    destruct (IH d1 l Hr1 H3) as (d' & Hs & Hr' & Hc'). exists d'. rewrite Hs.
    repeat split; try apply Hr'. congruence.
Qed.

Lemma drain d ks : reachable d -> Forall2 (fun k x => length x <= k) ks (pending d) ->
  exists d', steps d (map Rd ks) = (d', map (fun x => ORd (RdData x)) (pending d))
             /\ lens d' = [] /\ buf d' = [] /\ closed d' = closed d.
Proof. intros Hre Hf. destruct (drain_rep _ _ _ (reachable_rep _ Hre) Hf) as (d' & Hs & [Hl Hb] & Hc).
  exists d'. auto. Qed.

(* ---- all datagrams are accepted while the pipe is open and below its size limit ---- *)
Fixpoint written (es : list ev) : list (list N) :=
  match es with
  | Wr _ p :: t => p :: written t
  | _ :: t => written t
  | [] => []
  end.
Definition data_only (es : list ev) : Prop :=
  Forall (fun e => match e with Wr c _ => c = false | Rd _ => True | Cl => False end) es.
Definition total_bytes (es : list ev) : nat := list_sum (map (@length N) (written es)).

Lemma skipn_length_le {A} n (l : list A) : length (skipn n l) <= length l.
Proof. rewrite skipn_length. lia. Qed.

Lemma total_bytes_wr c p es : total_bytes (Wr c p :: es) = length p + total_bytes es.
Proof. reflexivity. Qed.
Lemma total_bytes_rd k es : total_bytes (Rd k :: es) = total_bytes es.
Proof. reflexivity. Qed.

Lemma all_accepted es : forall d d' os,
  closed d = false -> data_only es ->
  (N.of_nat (length (buf d) + total_bytes es) <= buf_limit)%N ->
  steps d es = (d', os) ->
  accepted es os = written es /\ closed d' = false.
Proof.
  induction es as [|e es IH]; intros d d' os Hc Hdo Hlim Hs.
  - cbn in Hs. injection Hs as <- <-. now split.
  - rewrite steps_cons in Hs. destruct (step d e) as [d1 o] eqn:Est.
    destruct (steps d1 es) as [d2 os'] eqn:Ess. injection Hs as <- <-.
    inversion Hdo as [|? ? He Hdo']; subst.
    destruct e as [c p|k|]; cbn [step] in Est; [| |destruct He].
    + subst c. rewrite total_bytes_wr in Hlim.
      pose proof (write_outcome d false p Hc ltac:(lia)) as Ho.
      destruct (dg_write d false p) as [dw r] eqn:Ew. cbn in Ho. subst r. injection Est as <- <-.
      cbn [accepted written].
      assert (Hdw : closed dw = false /\ length (buf dw) = length (buf d) + length p).
      { unfold dg_write in Ew. rewrite Hc in Ew.
        destruct (negb _); [discriminate|]. injection Ew as <-. cbn. now rewrite app_length. }
      destruct Hdw as [Hcw Hlw].
      destruct (IH dw d2 os' Hcw Hdo') as [Ha Hc2]; [lia|exact Ess|].
      now rewrite Ha.
    + destruct (dg_read d k) as [dr r] eqn:Erd. injection Est as <- <-.
      assert (Hdr : closed dr = false /\ length (buf dr) <= length (buf d)).
      { unfold dg_read in Erd. destruct (lens d) as [|n rest].
        - injection Erd as <- _. split; [assumption|lia].
        - destruct (Nat.ltb k n); injection Erd as <- _; cbn; split; try assumption; try lia.
          apply skipn_length_le. }
      destruct Hdr as [Hcr Hlr].
      rewrite total_bytes_rd in Hlim.
      destruct (IH dr d2 os' Hcr Hdo') as [Ha Hc2]; [lia|exact Ess|].
      cbn [written]. destruct r; cbn [accepted]; now split.
Qed.

Lemma delivered_app a b : delivered (a ++ b) = delivered a ++ delivered b.
Proof. induction a as [|o a IHa]; cbn [app delivered]; [reflexivity|].
  destruct o as [|r|]; try apply IHa. destruct r; try apply IHa. cbn [app]. now rewrite IHa. Qed.
Lemma delivered_map_data pend : delivered (map (fun x => ORd (RdData x)) pend) = pend.
Proof. induction pend as [|x r IHr]; cbn [map delivered]; [reflexivity|]. now rewrite IHr. Qed.

(* writes d_1..d_m interleaved with arbitrary reads, then reads with enough room: every
   datagram comes out exactly once, whole, in arrival order *)
Lemma exactly_once es ks d os :
  data_only es -> (N.of_nat (total_bytes es) <= buf_limit)%N ->
  steps dg_init es = (d, os) ->
  Forall2 (fun k x => length x <= k) ks (pending d) ->
  exists d' os', steps dg_init (es ++ map Rd ks) = (d', os ++ os')
    /\ delivered (os ++ os') = written es /\ lens d' = [] /\ buf d' = [].
Proof.
  intros Hdo Hlim Hs Hf.
  destruct (all_accepted es dg_init d os eq_refl Hdo) as [Ha _]; [exact Hlim|exact Hs|].
  destruct (boundaries es d os Hs) as (Hb & _).
  assert (Hre : reachable d) by (now exists es, os).
  destruct (drain d ks Hre Hf) as (d' & Hs' & Hl & Hbf & _).
  exists d', (map (fun x => ORd (RdData x)) (pending d)). rewrite steps_app, Hs, Hs'.
  repeat split; try assumption.
  rewrite <- Ha, Hb.
  rewrite delivered_app. f_equal. apply delivered_map_data.
Qed.

(* ---- closing --------------------------------------------------------------------- *)
(* a closing frame keeps the datagrams written before it readable; after them end-of-stream;
   nothing is accepted afterwards *)
Lemma closing_semantics d p ks k : reachable d -> closed d = false ->
  (N.of_nat (length (buf d)) <= buf_limit)%N ->
  Forall2 (fun k x => length x <= k) ks (pending d) ->
  exists d1 d2,
    dg_write d true p = (d1, WrClosing) /\ pending d1 = pending d /\ closed d1 = true
    /\ steps d1 (map Rd ks ++ [Rd k]) = (d2, map (fun x => ORd (RdData x)) (pending d) ++ [ORd RdEOF])
    /\ (forall c q, dg_write d2 c q = (d2, WrClosedPipe))
    /\ (forall c q, dg_write d1 c q = (d1, WrClosedPipe)).
Proof.
  intros Hre Hc Hl Hf.
  pose proof (write_outcome d true p Hc Hl) as Ho.
  destruct (dg_write d true p) as [d1 r] eqn:Ew. cbn in Ho. subst r.
  pose proof (write_rep _ _ _ _ _ _ (reachable_rep _ Hre) Ew) as (Hr1 & _ & Hc1 & _).
  destruct (drain_rep _ d1 ks Hr1 Hf) as (d2 & Hs & Hr2 & Hc2).
  exists d1, d2. split; [reflexivity|]. split; [exact (rep_pending _ _ Hr1)|]. split; [exact Hc1|].
  split.
  - rewrite steps_app, Hs. cbn [steps step].
    pose proof (read_rep d2 [] k Hr2) as Hrd. cbn beta iota in Hrd. rewrite Hrd.
    rewrite Hc2, Hc1. reflexivity.
  - split; intros c q; unfold dg_write; [rewrite Hc2, Hc1|rewrite Hc1]; reflexivity.
Qed.

(* Close() by the local side has the same effect on the reader *)
Lemma local_close_semantics d ks k : reachable d ->
  Forall2 (fun k x => length x <= k) ks (pending d) ->
  exists d2, steps (dg_close d) (map Rd ks ++ [Rd k])
             = (d2, map (fun x => ORd (RdData x)) (pending d) ++ [ORd RdEOF]).
Proof.
  intros Hre Hf. pose proof (close_rep _ _ (reachable_rep _ Hre)) as Hr1.
  destruct (drain_rep _ _ ks Hr1 Hf) as (d2 & Hs & Hr2 & Hc2). exists d2.
  rewrite steps_app, Hs. cbn [steps step].
  pose proof (read_rep d2 [] k Hr2) as Hrd. cbn beta iota in Hrd. rewrite Hrd, Hc2. reflexivity.
Qed.

(* ---- Stream.Write in unordered mode ---------------------------------------------- *)
Lemma oversize_refused maxu inp : (Z.of_nat (length inp) > maxu)%Z -> (0 <= maxu)%Z ->
  usw_write maxu false inp = (0%Z, SwShortBuffer, []).
Proof. intros H H0. unfold usw_write. destruct inp as [|a t]; [cbn in H; lia|].
  destruct (Z.leb_spec (Z.of_nat (length (a :: t))) maxu); [lia|reflexivity]. Qed.

Lemma fitting_one_frame maxu inp : (0 < Z.of_nat (length inp) <= maxu)%Z ->
  usw_write maxu false inp = (Z.of_nat (length inp), SwNil, [inp]).
Proof. intros H. unfold usw_write. destruct inp as [|a t]; [cbn in H; lia|].
  destruct (Z.leb_spec (Z.of_nat (length (a :: t))) maxu); [reflexivity|lia]. Qed.

(* whatever the outcome: the frames put on the wire are either none or exactly the input *)
Lemma usw_never_splits maxu c inp n e fs : usw_write maxu c inp = (n, e, fs) ->
  (fs = [] /\ n = 0%Z) \/ (fs = [inp] /\ n = Z.of_nat (length inp) /\ e = SwNil).
Proof. unfold usw_write. destruct c; [intros [= <- <- <-]; now left|].
  destruct inp as [|a t]; [intros [= <- <- <-]; now left|].
  destruct (Z.leb _ _); intros [= <- <- <-]; [right|left]; auto. Qed.

(* ---- the UDP relays around the Stream interface (design finding F15) ------------------ *)
Lemma firstn_len_min {A} n (l : list A) : length (firstn n l) = Nat.min n (length l).
Proof. apply firstn_length. Qed.

(* uplink, any buffer size: whole up to min(buffer, frame maximum) ... *)
Lemma relay_up_whole bufsize maxu d :
  (0 < N.of_nat (length d) <= bufsize)%N -> (Z.of_nat (length d) <= maxu)%Z ->
  relay_up bufsize maxu d = (Z.of_nat (length d), SwNil, [d]).
Proof. intros Hb Hm. unfold relay_up. rewrite firstn_all2 by lia. apply fitting_one_frame. lia. Qed.

(* ... above a buffer that is not larger than a frame: exactly the first [bufsize] bytes go out as if
   they were the datagram (what the code did before e32244c for 8193..16132 bytes) ... *)
Lemma relay_up_cut bufsize maxu d : (0 < bufsize)%N -> (Z.of_N bufsize <= maxu)%Z ->
  (bufsize < N.of_nat (length d))%N ->
  relay_up bufsize maxu d = (Z.of_N bufsize, SwNil, [firstn (N.to_nat bufsize) d]).
Proof.
  intros H0 Hm Hd. unfold relay_up.
  assert (Hl : length (firstn (N.to_nat bufsize) d) = N.to_nat bufsize) by (rewrite firstn_len_min; lia).
  rewrite fitting_one_frame; rewrite Hl; [f_equal; f_equal; lia|lia].
Qed.

(* ... and with a buffer larger than a frame, a datagram above the frame maximum is refused *)
Lemma relay_up_refuses bufsize maxu d : (0 <= maxu)%Z -> (maxu < Z.of_N bufsize)%Z ->
  (maxu < Z.of_nat (length d))%Z ->
  relay_up bufsize maxu d = (0%Z, SwShortBuffer, []).
Proof.
  intros H0 Hb Hd. unfold relay_up. apply oversize_refused; [|exact H0].
  rewrite firstn_len_min. lia.
Qed.

Lemma max_unit_lt_relay_buf : (0 <= max_unit 16401 < Z.of_N relay_buf)%Z.
Proof. vm_compute. split; [discriminate|reflexivity]. Qed.
Lemma relay_buf_prefix_le_max_unit : (Z.of_N relay_buf_prefix <= max_unit 16401)%Z.
Proof. vm_compute. discriminate. Qed.

(* the property at the client relay, current code: every datagram that fits one frame is forwarded
   whole, a larger one is refused *)
Lemma relay_full d :
  ((0 < Z.of_nat (length d) <= max_unit 16401)%Z ->
     route_udp_up (max_unit 16401) d = (Z.of_nat (length d), SwNil, [d]))
  /\ ((max_unit 16401 < Z.of_nat (length d))%Z ->
     route_udp_up (max_unit 16401) d = (0%Z, SwShortBuffer, [])).
Proof.
  pose proof max_unit_lt_relay_buf as Hm. split; intros Hd.
  - apply relay_up_whole; lia.
  - apply relay_up_refuses; lia.
Qed.

(* the same statement was false of the code before the fix (8192-byte buffer) *)
Definition relay_prefix_full : Prop := forall d,
  (0 < Z.of_nat (length d) <= max_unit 16401)%Z ->
  relay_up relay_buf_prefix (max_unit 16401) d = (Z.of_nat (length d), SwNil, [d]).

Lemma relay_prefix_refuted : ~ relay_prefix_full.
Proof.
  intros H. specialize (H (repeat 7%N (N.to_nat 8193))).
  rewrite repeat_length in H.
  assert (Hl : (0 < Z.of_nat (N.to_nat 8193) <= max_unit 16401)%Z) by (vm_compute; split; [reflexivity|discriminate]).
  specialize (H Hl). vm_compute in H. discriminate H.
Qed.

(* downlink: with room for the pending datagram the relay forwards it whole *)
Lemma relay_down_whole bufsize p x rest : reachable p -> pending p = x :: rest ->
  (N.of_nat (length x) <= bufsize)%N ->
  exists p', relay_down bufsize p = (p', Some x) /\ pending p' = rest.
Proof.
  intros Hre Hp Hx. pose proof (read_outcomes p (N.to_nat bufsize) Hre) as H. rewrite Hp in H.
  destruct (Nat.ltb_spec (N.to_nat bufsize) (length x)); [lia|].
  destruct H as (p' & Hr & Hp' & _). exists p'. unfold relay_down. rewrite Hr. now split.
Qed.

Lemma reachable_steps es : reachable (fst (steps dg_init es)).
Proof. exists es, (snd (steps dg_init es)). now destruct (steps dg_init es). Qed.

(* before the fix: an 8193-byte datagram from the peer (fits a frame) stopped the relay goroutine *)
Lemma relay_down_prefix_refuted : exists p x,
  reachable p /\ pending p = [x] /\ (Z.of_nat (length x) <= max_unit 16401)%Z
  /\ relay_down relay_buf_prefix p = (p, None).
Proof.
  exists (fst (steps dg_init [Wr false (repeat 7%N (N.to_nat 8193))])), (repeat 7%N (N.to_nat 8193)).
  split; [apply reachable_steps|]. split; [vm_compute; reflexivity|].
  split; [rewrite repeat_length; vm_compute; discriminate|]. vm_compute. reflexivity.
Qed.

(* server side: Stream.ReadFrom on the proxy server's UDP socket *)
Definition server_relay_full : Prop := forall d,
  (max_unit 16401 < Z.of_nat (length d))%Z -> stream_read_from_dgram (max_unit 16401) d = [].

Lemma nonnil_match {A} (l : list A) : l <> [] -> match l with [] => [] | a :: r => [a :: r] end = [l].
Proof. destruct l; [contradiction|reflexivity]. Qed.

Lemma server_relay_refuted : ~ server_relay_full.
Proof.
  intros H. specialize (H (repeat 7%N (N.to_nat 16133))). rewrite repeat_length in H.
  assert (Hl : (max_unit 16401 < Z.of_nat (N.to_nat 16133))%Z) by (vm_compute; reflexivity).
  specialize (H Hl). vm_compute in H. discriminate H.
Qed.

Lemma server_relay_partial maxu d : (0 < maxu)%Z ->
  ((0 < Z.of_nat (length d) <= maxu)%Z -> stream_read_from_dgram maxu d = [d])
  /\ ((maxu < Z.of_nat (length d))%Z ->
       stream_read_from_dgram maxu d = [firstn (Z.to_nat maxu) d]
       /\ Z.of_nat (length (firstn (Z.to_nat maxu) d)) = maxu).
Proof.
  intros H0. unfold stream_read_from_dgram. split; intros Hd.
  - rewrite firstn_all2 by lia. apply nonnil_match. intros ->. cbn in Hd. lia.
  - assert (Hl : length (firstn (Z.to_nat maxu) d) = Z.to_nat maxu) by (rewrite firstn_len_min; lia).
    split; [|lia]. apply nonnil_match. intros E. rewrite E in Hl. cbn in Hl. lia.
Qed.

(* ---------------------------------------------------------------------------------- *)
(* Receive side of an unordered session: per-stream isolation *)
Local Open Scope N_scope.

Definition pipe_of (s : N) (st : sess) : dg :=
  match lookup s (table st) with Some e => spipe e | None => dg_init end.
Definition live_of (s : N) (st : sess) : bool :=
  match lookup s (table st) with Some e => live e | None => false end.
Definition spending (s : N) (st : sess) : list (list N) := pending (pipe_of s st).

Lemma lookup_update s' s p lv t :
  lookup s' (update s p lv t) = if s' =? s then Some (mkE s p lv) else lookup s' t.
Proof.
  induction t as [|e r IH]; cbn [update lookup].
  - cbn [sid]. rewrite (N.eqb_sym s s'). destruct (s' =? s); reflexivity.
  - destruct (sid e =? s) eqn:E; cbn [lookup sid].
    + rewrite (N.eqb_sym s s'). destruct (s' =? s) eqn:E'; [reflexivity|].
      assert (sid e =? s' = false) by lia. now rewrite H.
    + destruct (sid e =? s') eqn:E'; [|exact IH].
      assert (s' =? s = false) by lia. now rewrite H.
Qed.

Lemma lookup_close_all s t :
  lookup s (close_all t) =
  option_map (fun e => if live e then mkE (sid e) (dg_close (spipe e)) false else e) (lookup s t).
Proof. induction t as [|e r IH]; cbn [close_all map lookup option_map]; [reflexivity|].
  fold (close_all r). destruct (live e) eqn:El; cbn [sid]; destruct (sid e =? s); cbn [option_map];
    rewrite ?El; auto. Qed.

Lemma pipe_of_update s' s p lv t c c' :
  pipe_of s' (mkS (update s p lv t) c) = if s' =? s then p else pipe_of s' (mkS t c').
Proof. unfold pipe_of. cbn [table]. rewrite lookup_update. destruct (s' =? s); reflexivity. Qed.
Lemma live_of_update s' s p lv t c c' :
  live_of s' (mkS (update s p lv t) c) = if s' =? s then lv else live_of s' (mkS t c').
Proof. unfold live_of. cbn [table]. rewrite lookup_update. destruct (s' =? s); reflexivity. Qed.

Definition wf (st : sess) : Prop :=
  forall s, (exists pend, rep (pipe_of s st) pend)
            /\ (live_of s st = true -> closed (pipe_of s st) = false /\ sess_closed st = false).

Lemma wf_init : wf ss_init.
Proof. intros s. split; [exists []; exact rep_init|]. cbn. discriminate. Qed.

Lemma lookup_opened s ids : match lookup s (table (ss_opened ids)) with
                            | Some e => spipe e = dg_init /\ live e = true
                            | None => True end.
Proof. cbn [ss_opened table]. induction ids as [|i r IH]; cbn [map lookup sid]; [exact I|].
  destruct (i =? s); [now split|exact IH]. Qed.

Lemma wf_opened ids : wf (ss_opened ids).
Proof. intros s. pose proof (lookup_opened s ids) as H. unfold pipe_of, live_of.
  destruct (lookup s (table (ss_opened ids))) as [e|].
  - destruct H as [-> ->]. split; [exists []; exact rep_init|]. now split.
  - split; [exists []; exact rep_init|discriminate]. Qed.

Lemma spending_opened s ids : spending s (ss_opened ids) = [].
Proof. pose proof (lookup_opened s ids) as H. unfold spending, pipe_of.
  destruct (lookup s (table (ss_opened ids))) as [e|]; [destruct H as [-> _]|]; reflexivity. Qed.

(* one-step contributions to the ghost lists of stream s *)
Definition acc1 (s : N) (e : sev) (o : sobs) : list (list N) :=
  match e, o with
  | SRecv f, OSRecv RvStored | SRecv f, OSRecv RvNewStored => if f_sid f =? s then [f_payload f] else []
  | _, _ => []
  end.
Definition del1 (s : N) (e : sev) (o : sobs) : list (list N) :=
  match e, o with
  | SRead s' _, OSRead (Sr (RdData x)) => if s' =? s then [x] else []
  | _, _ => []
  end.
Fixpoint s_accepted (s : N) (es : list sev) (os : list sobs) : list (list N) :=
  match es, os with
  | e :: es', o :: os' => acc1 s e o ++ s_accepted s es' os'
  | _, _ => []
  end.
Fixpoint s_delivered (s : N) (es : list sev) (os : list sobs) : list (list N) :=
  match es, os with
  | e :: es', o :: os' => del1 s e o ++ s_delivered s es' os'
  | _, _ => []
  end.

Lemma spending_rep s st pend : rep (pipe_of s st) pend -> spending s st = pend.
Proof. apply rep_pending. Qed.

Lemma mkS_eta st : st = mkS (table st) (sess_closed st).
Proof. now destruct st. Qed.

(* the frame is handed to the pipe p of stream s0 *)
Lemma recv_into_inv st s0 p isnew f st' r :
  wf st -> sess_closed st = false -> pipe_of s0 st = p -> f_sid f = s0 -> f_closing f <> ClSession ->
  recv_into st s0 p isnew f = (st', r) ->
  wf st' /\ (forall s, s <> s0 -> pipe_of s st' = pipe_of s st /\ live_of s st' = live_of s st)
  /\ sess_closed st' = false
  /\ forall s, spending s st ++ acc1 s (SRecv f) (OSRecv r) = spending s st'.
Proof.
  intros Hwf Hsc Hp Hsid Hncs H. unfold recv_into in H.
  destruct (Hwf s0) as [[pend Hrep] Hlive]. rewrite Hp in Hrep.
  destruct (dg_write p _ (f_payload f)) as [p' w] eqn:Ew.
  pose proof (write_rep _ _ _ _ _ _ Hrep Ew) as Hw.
  assert (Hother : forall p1 lv s, s <> s0 ->
     pipe_of s (mkS (update s0 p1 lv (table st)) false) = pipe_of s st
     /\ live_of s (mkS (update s0 p1 lv (table st)) false) = live_of s st).
  { intros p1 lv s Hs. rewrite (pipe_of_update _ _ _ _ _ _ (sess_closed st)),
      (live_of_update _ _ _ _ _ _ (sess_closed st)), <- mkS_eta.
    destruct (N.eqb_spec s s0); [contradiction|]. now split. }
  assert (Hsame : forall p1 lv, pipe_of s0 (mkS (update s0 p1 lv (table st)) false) = p1
     /\ live_of s0 (mkS (update s0 p1 lv (table st)) false) = lv).
  { intros p1 lv. rewrite (pipe_of_update _ _ _ _ _ _ false), (live_of_update _ _ _ _ _ _ false).
    now rewrite N.eqb_refl. }
  assert (Hwf_upd : forall p1 lv pend1, rep p1 pend1 -> (lv = true -> closed p1 = false) ->
     wf (mkS (update s0 p1 lv (table st)) false)).
  { intros p1 lv pend1 Hr1 Hlv s. destruct (N.eq_dec s s0) as [->|Hs].
    - destruct (Hsame p1 lv) as [-> ->]. split; [now exists pend1|]. intros Hl. split; [auto|reflexivity].
    - destruct (Hother p1 lv s Hs) as [-> ->]. destruct (Hwf s) as [Hr Hl]. split; [exact Hr|].
      intros Hl'. destruct (Hl Hl') as [Hc _]. now split. }
  destruct w.
  - (* stored *)
    destruct Hw as (Hr1 & _ & Hc1 & _).
    assert (Hst : st' = mkS (update s0 p' true (table st)) false /\ (r = RvStored \/ r = RvNewStored)).
    { destruct isnew; injection H as <- <-; auto. }
    destruct Hst as [-> Hr]. split; [exact (Hwf_upd _ _ _ Hr1 (fun _ => Hc1))|].
    split; [intros s Hs; exact (Hother _ _ s Hs)|]. split; [reflexivity|].
    intros s. assert (Hacc : acc1 s (SRecv f) (OSRecv r) = if f_sid f =? s then [f_payload f] else []).
    { destruct Hr as [-> | ->]; reflexivity. }
    rewrite Hacc, Hsid. destruct (N.eq_dec s s0) as [->|Hs].
    + rewrite N.eqb_refl. unfold spending. destruct (Hsame p' true) as [-> _]. rewrite Hp.
      now rewrite (rep_pending _ _ Hrep), (rep_pending _ _ Hr1).
    + destruct (N.eqb_spec s0 s); [congruence|]. rewrite app_nil_r. unfold spending.
      now destruct (Hother p' true s Hs) as [-> _].
  - (* closing frame *)
    destruct Hw as (Hr1 & _ & _ & _).
    assert (Hst : st' = mkS (update s0 (dg_close p') false (table st)) false
                  /\ (r = RvStreamClosed \/ r = RvNewStreamClosed)).
    { destruct isnew; injection H as <- <-; auto. }
    destruct Hst as [-> Hr]. split; [apply (Hwf_upd _ _ _ (close_rep _ _ Hr1)); discriminate|].
    split; [intros s Hs; exact (Hother _ _ s Hs)|]. split; [reflexivity|].
    intros s. assert (Hacc : acc1 s (SRecv f) (OSRecv r) = []) by (destruct Hr as [-> | ->]; reflexivity).
    rewrite Hacc, app_nil_r. unfold spending. destruct (N.eq_dec s s0) as [->|Hs].
    + destruct (Hsame (dg_close p') false) as [-> _]. rewrite Hp.
      now rewrite (rep_pending _ _ Hrep), (rep_pending _ _ (close_rep _ _ Hr1)).
    + now destruct (Hother (dg_close p') false s Hs) as [-> _].
  - injection H as <- <-. split; [assumption|]. split; [intros s _; now split|]. split; [assumption|].
    intros s. cbn [acc1]. now rewrite app_nil_r.
  - injection H as <- <-. split; [assumption|]. split; [intros s _; now split|]. split; [assumption|].
    intros s. cbn [acc1]. now rewrite app_nil_r.
Qed.

Lemma wf_close_all st : wf st -> wf (mkS (close_all (table st)) true)
  /\ forall s, spending s (mkS (close_all (table st)) true) = spending s st.
Proof.
  intros Hwf. assert (H : forall s, (pipe_of s (mkS (close_all (table st)) true) = pipe_of s st
                                  \/ pipe_of s (mkS (close_all (table st)) true) = dg_close (pipe_of s st))
                                 /\ live_of s (mkS (close_all (table st)) true) = false).
  { intros s. unfold pipe_of, live_of. cbn [table]. rewrite lookup_close_all.
    destruct (lookup s (table st)) as [e|]; cbn [option_map]; [|auto].
    destruct (live e) eqn:El; cbn [spipe live]; auto. }
  split.
  - intros s. destruct (H s) as [[-> | ->] ->]; destruct (Hwf s) as [[pend Hr] _].
    + split; [now exists pend|discriminate].
    + split; [exists pend; now apply close_rep|discriminate].
  - intros s. unfold spending. destruct (H s) as [[-> | ->] _]; reflexivity.
Qed.

Lemma sstep_inv st e st' o : wf st -> sstep st e = (st', o) ->
  wf st' /\ forall s, spending s st ++ acc1 s e o = del1 s e o ++ spending s st'.
Proof.
  intros Hwf H. destruct e as [f|s0 k|s0]; cbn [sstep] in H.
  - (* recv *)
    destruct (ss_recv st f) as [st1 r] eqn:Er. injection H as <- <-.
    assert (Hnop : forall r', (r' = RvBroken \/ r' = RvDropped) ->
       wf st /\ forall s, spending s st ++ acc1 s (SRecv f) (OSRecv r') = del1 s (SRecv f) (OSRecv r') ++ spending s st).
    { intros r' [-> | ->]; (split; [assumption|]); intros s; cbn [acc1 del1 app]; now rewrite app_nil_r. }
    unfold ss_recv in Er.
    assert (Hmain : f_closing f <> ClSession -> sess_closed st = false ->
       match lookup (f_sid f) (table st) with
       | Some e => if live e then recv_into st (f_sid f) (spipe e) false f else (st, RvDropped)
       | None => recv_into st (f_sid f) dg_init true f
       end = (st1, r) ->
       wf st1 /\ forall s, spending s st ++ acc1 s (SRecv f) (OSRecv r) = del1 s (SRecv f) (OSRecv r) ++ spending s st1).
    { intros Hncs Hsc Hm.
      destruct (lookup (f_sid f) (table st)) as [e|] eqn:El.
      - destruct (live e) eqn:Elv.
        + assert (Hp : pipe_of (f_sid f) st = spipe e) by (unfold pipe_of; now rewrite El).
          destruct (recv_into_inv _ _ _ _ _ _ _ Hwf Hsc Hp eq_refl Hncs Hm) as (Hw & _ & _ & Heq).
          split; [exact Hw|]. intros s. cbn [del1 app]. apply Heq.
        + injection Hm as <- <-. apply Hnop. now right.
      - assert (Hp : pipe_of (f_sid f) st = dg_init) by (unfold pipe_of; now rewrite El).
        destruct (recv_into_inv _ _ _ _ _ _ _ Hwf Hsc Hp eq_refl Hncs Hm) as (Hw & _ & _ & Heq).
        split; [exact Hw|]. intros s. cbn [del1 app]. apply Heq. }
    destruct (f_closing f) eqn:Ecl.
    + destruct (sess_closed st) eqn:Esc; [injection Er as <- <-; apply Hnop; now left|].
      apply Hmain; [discriminate|reflexivity|exact Er].
    + destruct (sess_closed st) eqn:Esc; [injection Er as <- <-; apply Hnop; now left|].
      apply Hmain; [discriminate|reflexivity|exact Er].
    + destruct (sess_closed st) eqn:Esc; [injection Er as <- <-; apply Hnop; now left|].
      injection Er as <- <-. destruct (wf_close_all st Hwf) as [Hw Hs]. split; [exact Hw|].
      intros s. cbn [acc1 del1 app]. now rewrite app_nil_r, Hs.
  - (* read *)
    destruct (ss_read st s0 k) as [st1 r] eqn:Er. injection H as <- <-.
    unfold ss_read in Er. destruct (lookup s0 (table st)) as [e|] eqn:El.
    2:{ injection Er as <- <-. split; [assumption|]. intros s. cbn [acc1 del1 app]. now rewrite app_nil_r. }
    destruct k as [|k'].
    { injection Er as <- <-. split; [assumption|]. intros s. cbn [acc1 del1 app]. now rewrite app_nil_r. }
    destruct (dg_read (spipe e) (S k')) as [p' rr] eqn:Erd. injection Er as <- <-.
    assert (Hp : pipe_of s0 st = spipe e) by (unfold pipe_of; now rewrite El).
    assert (Hlv : live_of s0 st = live e) by (unfold live_of; now rewrite El).
    destruct (Hwf s0) as [[pend Hrep] Hlive]. rewrite Hp in Hrep.
    pose proof (read_rep _ _ (S k') Hrep) as Hrd.
    assert (Hcases : (p' = spipe e /\ forall x, rr <> RdData x)
                     \/ exists x rest, rr = RdData x /\ pend = x :: rest /\ rep p' rest /\ closed p' = closed (spipe e)).
    { destruct pend as [|x rest].
      - rewrite Erd in Hrd. injection Hrd as -> ->. left. split; [reflexivity|]. destruct (closed (spipe e)); discriminate.
      - destruct (Nat.ltb (S k') (length x)).
        + rewrite Erd in Hrd. injection Hrd as -> ->. left. split; [reflexivity|discriminate].
        + destruct Hrd as (dd & Hdd & Hr1 & Hc1). rewrite Erd in Hdd. injection Hdd as -> ->.
          right. exists x, rest. auto. }
    assert (Hother : forall s, s <> s0 ->
       pipe_of s (mkS (update s0 p' (live e) (table st)) (sess_closed st)) = pipe_of s st
       /\ live_of s (mkS (update s0 p' (live e) (table st)) (sess_closed st)) = live_of s st).
    { intros s Hs. rewrite (pipe_of_update _ _ _ _ _ _ (sess_closed st)),
        (live_of_update _ _ _ _ _ _ (sess_closed st)), <- mkS_eta.
      destruct (N.eqb_spec s s0); [contradiction|]. now split. }
    assert (Hsame : pipe_of s0 (mkS (update s0 p' (live e) (table st)) (sess_closed st)) = p'
       /\ live_of s0 (mkS (update s0 p' (live e) (table st)) (sess_closed st)) = live e).
    { rewrite (pipe_of_update _ _ _ _ _ _ false), (live_of_update _ _ _ _ _ _ false). now rewrite N.eqb_refl. }
    assert (Hwf' : forall pend', rep p' pend' -> closed p' = closed (spipe e) ->
       wf (mkS (update s0 p' (live e) (table st)) (sess_closed st))).
    { intros pend' Hr' Hc' s. destruct (N.eq_dec s s0) as [->|Hs].
      - destruct Hsame as [-> ->]. split; [now exists pend'|]. intros Hl. rewrite Hc'. cbn [sess_closed].
        rewrite <- Hp. apply Hlive. now rewrite Hlv.
      - destruct (Hother s Hs) as [-> ->]. exact (Hwf s). }
    destruct Hcases as [[-> Hnd] | (x & rest & -> & -> & Hr1 & Hc1)].
    + split; [exact (Hwf' pend Hrep eq_refl)|]. intros s.
      assert (Hd : del1 s (SRead s0 (S k')) (OSRead (Sr rr)) = []).
      { cbn [del1]. destruct rr; try reflexivity. now destruct (Hnd x). }
      rewrite Hd. cbn [acc1 app]. rewrite app_nil_r. unfold spending.
      destruct (N.eq_dec s s0) as [->|Hs]; [destruct Hsame as [-> _]; now rewrite Hp|].
      now destruct (Hother s Hs) as [-> _].
    + split; [exact (Hwf' rest Hr1 Hc1)|]. intros s. cbn [acc1 del1]. rewrite app_nil_r. unfold spending.
      destruct (N.eq_dec s s0) as [->|Hs].
      * rewrite N.eqb_refl. destruct Hsame as [-> _]. rewrite Hp.
        now rewrite (rep_pending _ _ Hrep), (rep_pending _ _ Hr1).
      * destruct (N.eqb_spec s0 s); [congruence|]. cbn [app]. now destruct (Hother s Hs) as [-> _].
  - (* local close *)
    injection H as <- <-. unfold ss_close_stream.
    assert (Hnop : wf st /\ forall s, spending s st ++ acc1 s (SClose s0) OSClose = del1 s (SClose s0) OSClose ++ spending s st).
    { split; [assumption|]. intros s. cbn [acc1 del1 app]. now rewrite app_nil_r. }
    destruct (lookup s0 (table st)) as [e|] eqn:El; [|exact Hnop].
    destruct (live e) eqn:Elv; [|exact Hnop].
    assert (Hp : pipe_of s0 st = spipe e) by (unfold pipe_of; now rewrite El).
    destruct (Hwf s0) as [[pend Hrep] _]. rewrite Hp in Hrep.
    assert (Hother : forall s, s <> s0 ->
       pipe_of s (mkS (update s0 (dg_close (spipe e)) false (table st)) (sess_closed st)) = pipe_of s st
       /\ live_of s (mkS (update s0 (dg_close (spipe e)) false (table st)) (sess_closed st)) = live_of s st).
    { intros s Hs. rewrite (pipe_of_update _ _ _ _ _ _ (sess_closed st)),
        (live_of_update _ _ _ _ _ _ (sess_closed st)), <- mkS_eta.
      destruct (N.eqb_spec s s0); [contradiction|]. now split. }
    assert (Hsame : pipe_of s0 (mkS (update s0 (dg_close (spipe e)) false (table st)) (sess_closed st)) = dg_close (spipe e)
       /\ live_of s0 (mkS (update s0 (dg_close (spipe e)) false (table st)) (sess_closed st)) = false).
    { rewrite (pipe_of_update _ _ _ _ _ _ false), (live_of_update _ _ _ _ _ _ false). now rewrite N.eqb_refl. }
    split.
    + intros s. destruct (N.eq_dec s s0) as [->|Hs].
      * destruct Hsame as [-> ->]. split; [exists pend; now apply close_rep|discriminate].
      * destruct (Hother s Hs) as [-> ->]. exact (Hwf s).
    + intros s. cbn [acc1 del1 app]. rewrite app_nil_r. unfold spending.
      destruct (N.eq_dec s s0) as [->|Hs]; [destruct Hsame as [-> _]; now rewrite Hp|].
      now destruct (Hother s Hs) as [-> _].
Qed.

Lemma ssteps_cons st e es :
  ssteps st (e :: es) = let '(s1, o) := sstep st e in let '(s2, os) := ssteps s1 es in (s2, o :: os).
Proof. reflexivity. Qed.

Lemma srun_inv es : forall st st' os, wf st -> ssteps st es = (st', os) ->
  wf st' /\ forall s, spending s st ++ s_accepted s es os = s_delivered s es os ++ spending s st'.
Proof.
  induction es as [|e es IH]; intros st st' os Hwf H.
  - cbn in H. injection H as <- <-. split; [assumption|]. intros s. cbn. now rewrite app_nil_r.
  - rewrite ssteps_cons in H. destruct (sstep st e) as [s1 o] eqn:E1.
    destruct (ssteps s1 es) as [s2 os'] eqn:E2. injection H as <- <-.
    destruct (sstep_inv _ _ _ _ Hwf E1) as [Hwf1 H1]. destruct (IH _ _ _ Hwf1 E2) as [Hwf2 H2].
    split; [assumption|]. intros s. cbn [s_accepted s_delivered].
    rewrite app_assoc, H1, <- app_assoc, H2, app_assoc. reflexivity.
Qed.

Definition sreachable (st : sess) : Prop := exists ids es os, ssteps (ss_opened ids) es = (st, os).

Lemma sreachable_wf st : sreachable st -> wf st.
Proof. intros (ids & es & os & H). exact (proj1 (srun_inv es _ _ _ (wf_opened ids) H)). Qed.

(* per stream: what reads on s returned, followed by what s still holds, is exactly what was
   stored for s - frames of other streams never show up, whatever the interleaving *)
Lemma isolation ids es st os : ssteps (ss_opened ids) es = (st, os) ->
  forall s, s_accepted s es os = s_delivered s es os ++ spending s st.
Proof. intros H s. destruct (srun_inv es _ _ _ (wf_opened ids) H) as [_ Heq]. specialize (Heq s).
  rewrite spending_opened in Heq. exact Heq. Qed.

(* while the session is healthy and the stream open (or new), a data frame is stored in its own
   stream's pipe and no other pipe changes *)
Lemma session_accepts st f : sreachable st -> sess_closed st = false -> f_closing f = ClNothing ->
  (lookup (f_sid f) (table st) = None \/ live_of (f_sid f) st = true) ->
  N.of_nat (length (buf (pipe_of (f_sid f) st))) <= buf_limit ->
  exists st' r, ss_recv st f = (st', r) /\ (r = RvStored \/ r = RvNewStored)
    /\ spending (f_sid f) st' = spending (f_sid f) st ++ [f_payload f]
    /\ forall s, s <> f_sid f -> pipe_of s st' = pipe_of s st /\ live_of s st' = live_of s st.
Proof.
  intros Hre Hsc Hcl Hlk Hlim. pose proof (sreachable_wf _ Hre) as Hwf.
  unfold ss_recv. rewrite Hcl, Hsc.
  assert (Hgo : forall p isnew, pipe_of (f_sid f) st = p -> closed p = false ->
     exists st' r, recv_into st (f_sid f) p isnew f = (st', r) /\ (r = RvStored \/ r = RvNewStored)
       /\ spending (f_sid f) st' = spending (f_sid f) st ++ [f_payload f]
       /\ forall s, s <> f_sid f -> pipe_of s st' = pipe_of s st /\ live_of s st' = live_of s st).
  { intros p isnew Hp Hc. destruct (recv_into st (f_sid f) p isnew f) as [st' r] eqn:Er.
    assert (Hn : f_closing f <> ClSession) by (rewrite Hcl; discriminate).
    destruct (recv_into_inv _ _ _ _ _ _ _ Hwf Hsc Hp eq_refl Hn Er) as (_ & Hoth & _ & Heq).
    exists st', r. split; [reflexivity|].
    assert (Hr : r = RvStored \/ r = RvNewStored).
    { unfold recv_into in Er. rewrite Hcl in Er. rewrite Hp in Hlim.
      pose proof (write_outcome p false (f_payload f) Hc Hlim) as Ho.
      destruct (dg_write p false (f_payload f)) as [p' w]. cbn in Ho. subst w.
      destruct isnew; injection Er as _ <-; auto. }
    split; [exact Hr|]. split; [|exact Hoth].
    specialize (Heq (f_sid f)). rewrite <- Heq.
    destruct Hr as [-> | ->]; cbn [acc1]; now rewrite N.eqb_refl. }
  destruct Hlk as [Hnone | Hlive].
  - rewrite Hnone. apply Hgo; [unfold pipe_of; now rewrite Hnone|reflexivity].
  - unfold live_of in Hlive. destruct (lookup (f_sid f) (table st)) as [e|] eqn:El; [|discriminate].
    rewrite Hlive. apply Hgo; [unfold pipe_of; now rewrite El|].
    destruct (Hwf (f_sid f)) as [_ Hl]. unfold live_of, pipe_of in Hl. rewrite El in Hl. now apply Hl.
Qed.

(* ---- non-vacuity ------------------------------------------------------------------ *)
Example ex_run :
  let es := [Wr false [1;2;3]; Rd 2; Wr false [4]; Wr false []; Rd 3; Rd 0; Rd 5; Rd 1; Wr true [9]; Rd 1; Wr false [7]] in
  snd (steps dg_init es) =
    [OWr WrStored; ORd RdShort; OWr WrStored; OWr WrStored; ORd (RdData [1;2;3]); ORd RdShort;
     ORd (RdData [4]); ORd (RdData []); OWr WrClosing; ORd RdEOF; OWr WrClosedPipe].
Proof. vm_compute. reflexivity. Qed.

Example ex_data_only :
  let es := [Wr false [1;2;3]; Rd 2; Wr false [4]; Rd 9] in
  data_only es /\ (N.of_nat (total_bytes es) <= buf_limit)%N
  /\ pending (fst (steps dg_init es)) = [[4]] /\ Forall2 (fun k x => length x <= k)%nat [1%nat] [[4]].
Proof. repeat split; try (repeat constructor; fail). cbn. unfold buf_limit. vm_compute. discriminate. Qed.

Example ex_session :
  let es := [SRecv (mkF 1 ClNothing [1;2]); SRecv (mkF 2 ClNothing [3]); SRecv (mkF 1 ClNothing [4]);
             SRead 2 8; SRead 1 1; SRead 1 8; SRecv (mkF 1 ClStream [0]); SRecv (mkF 1 ClNothing [5]);
             SRead 1 8; SRead 1 8; SRecv (mkF 9 ClSession [0]); SRead 2 8; SRecv (mkF 2 ClNothing [6])] in
  snd (ssteps ss_init es) =
    [OSRecv RvNewStored; OSRecv RvNewStored; OSRecv RvStored; OSRead (Sr (RdData [3])); OSRead (Sr RdShort);
     OSRead (Sr (RdData [1;2])); OSRecv RvStreamClosed; OSRecv RvDropped; OSRead (Sr (RdData [4]));
     OSRead (Sr RdEOF); OSRecv RvSessionClosed; OSRead (Sr RdEOF); OSRecv RvBroken].
Proof. vm_compute. reflexivity. Qed.
