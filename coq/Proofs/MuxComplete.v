(* C01, "nothing lost": on a healthy session (no connection fails, nobody closes the session,
   the inactivity timer ticks only while streams are open), for each direction of each stream that
   has not been closed, once no frame of it is in flight any more the bytes read plus the bytes
   waiting in the receiver's pipe are exactly the bytes the writes accepted. *)
From Coq Require Import NArith ZArith List Bool Lia Sorting.Permutation.
From Coq Require Import ZifyN ZifyBool.
From Cloak Require Import Model.Reorder Model.Mux Proofs.Reorder Proofs.MuxBase Proofs.MuxSafety
  Proofs.MuxView Proofs.MuxEffect Proofs.MuxPay Proofs.MuxData Proofs.MuxCalm Proofs.MuxCount Proofs.MuxUp Proofs.MuxCov.
Import ListNotations.
Local Open Scope N_scope.

Section Complete.
Variable s : side.
Variable sid : N.
Variable k : nat.

Lemma busy_not_droppy y l : busy_at y l -> droppy l = false.
Proof. destruct l; cbn; intros H; try reflexivity; contradiction. Qed.

Lemma run_complete ls : forall y y' os E Rd,
  run y ls = (y', os) -> WF y -> CIs y -> Healthy k y -> PD s sid y E Rd [] -> COV s sid y E [] ->
  fresh_run y ls -> busy_run k y ls ->
  nE (E ++ run_frames s sid os) + 2 < two64 -> all_data (E ++ run_frames s sid os) ->
  PD s sid y' (E ++ run_frames s sid os) (Rd ++ run_reads s sid ls os) [] /\
  COV s sid y' (E ++ run_frames s sid os) [].
Proof.
  induction ls as [|[l ch] t IH]; intros y y' os E Rd H Hwf Hci Hh Hpd Hcov Hfr Hbusy Hb Had; cbn in H.
  - injection H as <- <-. cbn. rewrite !app_nil_r. auto.
  - destruct (step y l ch) as [y1 o1] eqn:Es. destruct (run y1 t) as [y2 os2] eqn:Er. injection H as <- <-.
    cbn [run_frames run_reads]. rewrite !app_assoc. cbn [run_frames] in Hb, Had. rewrite app_assoc in Hb, Had.
    destruct Hfr as [Hf1 Hf2]. rewrite Es in Hf2. cbn [fst] in Hf2.
    destruct Hbusy as (Hb1 & Hv & Hb2). rewrite Es in Hb2. cbn [fst] in Hb2.
    assert (Hbb : nE (E ++ ev_frames s sid o1) + 2 < two64).
    { pose proof (nE_app_le E (ev_frames s sid o1) (run_frames s sid os2)). rewrite <- app_assoc in Hb. lia. }
    assert (Had1 : all_data (E ++ ev_frames s sid o1)) by (eapply all_data_app_l; exact Had).
    assert (Hopen : se_closed (sess y (other s)) = false) by (destruct (Healthy_sess k y (other s) Hh) as (Hc & _); exact Hc).
    apply (IH y1); [exact Er|eapply step_WF; eauto|eapply step_CIs; eauto|eapply busy_step; eauto| | |exact Hf2|exact Hb2|exact Hb|exact Had].
    + eapply PD_label; eauto.
    + eapply COV_label; eauto. eapply busy_not_droppy; eauto.
Qed.
End Complete.

Theorem nothing_lost s sid k unit toA toB ls :
  (1 <= k)%nat -> 1 <= unit ->
  fresh_run (init k false unit toA toB) ls -> busy_run k (init k false unit toA toB) ls ->
  let os := outputs k false unit toA toB ls in
  let y := reach k false unit toA toB ls in
  nE (run_frames s sid os) + 2 < two64 -> all_data (run_frames s sid os) ->
  inflight s sid y = [] -> ron (rview s sid y) ->
  run_written s sid ls os =
  run_reads s sid ls os ++ match rview s sid y with Some (rb, _) => pipe rb | None => [] end.
Proof.
  intros Hk Hu Hf Hbusy os y Hb Had Hif Hron. unfold os, y, outputs, reach in *.
  destruct (run (init k false unit toA toB) ls) as [y' os'] eqn:Er. cbn [fst snd] in *.
  destruct (run_complete s sid k ls _ _ _ [] [] Er (init_WF _ _ _ _ _) (init_CIs _ _ _ _ _) (init_H k false unit toA toB Hk Hu eq_refl)
              (PD_init s sid _ _ _ _ _)) as [Hpd Hcov]; try assumption.
  { intros _ i Hi. cbn in Hi. lia. }
  cbn [app] in Hpd, Hcov.
  rewrite <- (run_payload s sid ls _ _ _ [] [] Er (init_WF _ _ _ _ _) (PD_init s sid _ _ _ _ _) Hf Hb).
  apply (covered_complete s sid _ _ _ Hpd Hcov Had Hb Hif Hron).
Qed.

(* non-vacuity *)
Example nothing_lost_example :
  let ls := [(LOpen SA, []); (LWrite SA 1 [7; 8; 9], [0]); (LWrite SA 1 [10], [1]); (LDeliver SB 1, []); (LDeliver SB 0, []); (LRead SB 1 2, [])] in
  let y := reach 2 false 331 30000000000 45000000000 ls in
  inflight SA 1 y = [] /\ ron (rview SA 1 y) /\ all_data (run_frames SA 1 (outputs 2 false 331 30000000000 45000000000 ls)).
Proof. vm_compute. split; [reflexivity|split; [exact I|]]. intros fr [<-|[<-|[]]]; reflexivity. Qed.
