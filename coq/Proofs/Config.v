(* Proofs about Model/Config.v (property C20). *)
From Coq Require Import String.
From Coq Require Import ZArith NArith List Bool Lia.
From Coq Require Import ZifyN ZifyNat ZifyBool.
From Cloak Require Import Gen.Consts Model.Config.
Import ListNotations.
Local Open Scope Z_scope.
Ltac Zify.zify_post_hook ::= Z.div_mod_to_equations.

(* ======================================================================================== *)
(* A. ProcessRawConfig against the documented table                                          *)
Lemma str_eqb_spec a : forall b, str_eqb a b = true <-> a = b.
Proof. induction a as [|x a IH]; intros [|y b]; cbn; try (split; congruence).
  rewrite andb_true_iff, N.eqb_eq, IH. split; [intros [-> ->]; reflexivity | intros H; inversion H; auto]. Qed.

Lemma enc_method_doc s : enc_method s = doc_encryption s.
Proof. unfold enc_method, doc_encryption. set (l := to_lower s).
  destruct (str_eqb l kw_plain), (str_eqb l kw_aes_gcm), (str_eqb l kw_aes_256_gcm),
    (str_eqb l kw_aes_128_gcm), (str_eqb l kw_chacha); reflexivity. Qed.

Lemma browser_doc s : browser_of s = doc_browser s.
Proof. unfold browser_of, doc_browser. set (l := to_lower s).
  destruct (str_eqb l kw_firefox) eqn:E1, (str_eqb l kw_safari) eqn:E2; try reflexivity.
  apply str_eqb_spec in E1. apply str_eqb_spec in E2. rewrite E1 in E2. discriminate. Qed.

Lemma wrap64_small z : - two63 <= z < two63 -> wrap64 z = z.
Proof. unfold wrap64, two63, two64. intros H.
  destruct (z mod 18446744073709551616 <? 9223372036854775808) eqn:E; lia. Qed.
Lemma secs_small n : secs_ok n -> secs n = n * second_ns.
Proof. unfold secs_ok, secs, second_ns. intros H. apply wrap64_small. unfold two63. lia. Qed.

Lemma transport_doc r :
  transport_of r =
  if doc_is_cdn (Transport r) then
    mkT kw_cdn (kw_ws ++ join_host_port (if is_empty (CDNOriginHost r) then RemoteHost r else CDNOriginHost r) (RemotePort r)
                ++ (if is_empty (CDNWsUrlPath r) then doc_default_ws_path else CDNWsUrlPath r)) 0
  else mkT kw_direct [] (doc_browser (BrowserSig r)).
Proof. unfold transport_of, doc_is_cdn. destruct (str_eqb (to_lower (Transport r)) kw_cdn).
  - destruct (is_empty (CDNOriginHost r)); reflexivity.
  - now rewrite browser_doc. Qed.

Lemma process_meets_spec r :
  secs_ok (KeepAlive r) -> secs_ok (StreamTimeout r) -> to_option (process r) = spec r.
Proof.
  intros Hk Hs. unfold process, process_gen, spec, doc_complete.
  rewrite enc_method_doc, transport_doc.
  destruct (is_empty (ServerName r)); [reflexivity|].
  destruct (is_empty (ProxyMethod r)); [reflexivity|].
  destruct (is_empty (UID r)); [reflexivity|].
  destruct (is_empty (PublicKey r)) eqn:Ep.
  { destruct (PublicKey r); [reflexivity|discriminate]. }
  destruct (Nat.eqb (length (PublicKey r)) 32); [|reflexivity].
  destruct (doc_encryption (EncryptionMethod r)) as [enc|]; [|reflexivity].
  destruct (is_empty (RemoteHost r)); [reflexivity|].
  destruct (is_empty (RemotePort r)); [reflexivity|].
  destruct (is_empty (LocalHost r)); [reflexivity|].
  destruct (is_empty (LocalPort r)); [reflexivity|].
  cbn [negb andb to_option].
  assert (Hto : (if StreamTimeout r =? 0 then wrap64 (300 * second_ns) else secs (StreamTimeout r))
                = (if StreamTimeout r =? 0 then doc_default_stream_timeout_s else StreamTimeout r) * second_ns).
  { destruct (StreamTimeout r =? 0); [reflexivity|]. now apply secs_small. }
  assert (Hka : (if KeepAlive r <=? 0 then -1 else secs (KeepAlive r))
                = (if 0 <? KeepAlive r then KeepAlive r * second_ns else doc_keepalive_disabled)).
  { destruct (KeepAlive r <=? 0) eqn:E1, (0 <? KeepAlive r) eqn:E2; try lia; [reflexivity|now apply secs_small]. }
  rewrite Hto, Hka. reflexivity.
Qed.

(* F9 (repaired by b378e52): the earlier line yields 0 for every positive KeepAlive *)
Lemma prefix_keepalive_zero r x :
  0 < KeepAlive r -> process_gen false r = ROk x -> r_keepalive (snd (fst x)) = 0.
Proof.
  unfold process_gen. intros Hpos.
  destruct (is_empty (ServerName r)); [discriminate|].
  destruct (is_empty (ProxyMethod r)); [discriminate|].
  destruct (is_empty (UID r)); [discriminate|].
  destruct (is_empty (PublicKey r)); [discriminate|].
  destruct (negb _); [discriminate|].
  destruct (enc_method _); [|discriminate].
  destruct (is_empty (RemoteHost r)); [discriminate|].
  destruct (is_empty (RemotePort r)); [discriminate|].
  destruct (is_empty (LocalHost r)); [discriminate|].
  destruct (is_empty (LocalPort r)); [discriminate|].
  intros H. inversion H; subst. cbn [fst snd r_keepalive].
  destruct (KeepAlive r <=? 0) eqn:E; [lia|reflexivity].
Qed.
Lemma fixed_keepalive r x :
  0 < KeepAlive r -> secs_ok (KeepAlive r) -> process r = ROk x -> r_keepalive (snd (fst x)) = KeepAlive r * second_ns.
Proof.
  intros Hpos Hok H. pose proof (process_meets_spec r) as M.
  unfold process, process_gen in H.
  destruct (is_empty (ServerName r)); [discriminate|].
  destruct (is_empty (ProxyMethod r)); [discriminate|].
  destruct (is_empty (UID r)); [discriminate|].
  destruct (is_empty (PublicKey r)); [discriminate|].
  destruct (negb _); [discriminate|].
  destruct (enc_method _); [|discriminate].
  destruct (is_empty (RemoteHost r)); [discriminate|].
  destruct (is_empty (RemotePort r)); [discriminate|].
  destruct (is_empty (LocalHost r)); [discriminate|].
  destruct (is_empty (LocalPort r)); [discriminate|].
  inversion H; subst. cbn [fst snd r_keepalive].
  destruct (KeepAlive r <=? 0) eqn:E; [lia|now apply secs_small].
Qed.

(* rejection: exactly the incomplete configurations, each with an error value *)
Lemma process_total r : (exists x, process r = ROk x) \/ (exists e, process r = RErr e).
Proof. destruct (process r); eauto. Qed.

Lemma rejects_iff r : (exists e, process r = RErr e) <-> doc_complete r = false.
Proof.
  unfold process, process_gen, doc_complete. rewrite enc_method_doc.
  destruct (is_empty (ServerName r)); [cbn; split; eauto|].
  destruct (is_empty (ProxyMethod r)); [cbn; split; eauto|].
  destruct (is_empty (UID r)); [cbn; split; eauto|].
  destruct (is_empty (PublicKey r)) eqn:Ep.
  { destruct (PublicKey r); [cbn; split; eauto|discriminate]. }
  destruct (Nat.eqb (length (PublicKey r)) 32); [|cbn; split; eauto].
  destruct (doc_encryption (EncryptionMethod r)); [|cbn; split; eauto].
  destruct (is_empty (RemoteHost r)); [cbn; split; eauto|].
  destruct (is_empty (RemotePort r)); [cbn; split; eauto|].
  destruct (is_empty (LocalHost r)); [cbn; split; eauto|].
  destruct (is_empty (LocalPort r)); [cbn; split; eauto|].
  cbn. split; [intros [e H]; discriminate|discriminate].
Qed.

Lemma rejects_each r :
  (ServerName r = [] -> process r = RErr (EEmpty FServerName)) /\
  (ServerName r <> [] -> ProxyMethod r = [] -> process r = RErr (EEmpty FServerName)) /\
  (UID r = [] -> exists e, process r = RErr e) /\
  (length (PublicKey r) <> 32%nat -> exists e, process r = RErr e) /\
  (doc_encryption (EncryptionMethod r) = None -> exists e, process r = RErr e) /\
  (RemoteHost r = [] -> exists e, process r = RErr e) /\
  (RemotePort r = [] -> exists e, process r = RErr e) /\
  (LocalHost r = [] -> exists e, process r = RErr e) /\
  (LocalPort r = [] -> exists e, process r = RErr e).
Proof.
  split. { intros H. unfold process, process_gen. now rewrite H. }
  split. { intros H1 H2. unfold process, process_gen. rewrite H2. destruct (ServerName r); [congruence|reflexivity]. }
  repeat split; intros H; apply rejects_iff; unfold doc_complete; rewrite ?H; cbn [is_empty negb andb];
    rewrite ?andb_false_r; try reflexivity.
  apply Nat.eqb_neq in H. rewrite H. now rewrite ?andb_false_r.
Qed.

(* ======================================================================================== *)
(* B. the option-string front end                                                            *)
Lemma replace2_cons_ne a b r x t : x <> a -> replace2 a b r (x :: t) = x :: replace2 a b r t.
Proof. intros H. destruct t as [|y t]; [reflexivity|]. cbn [replace2].
  destruct (N.eqb x a) eqn:E; [apply N.eqb_eq in E; contradiction|reflexivity]. Qed.
Lemma replace2_cons_ne2 a b r x y t : y <> b -> replace2 a b r (x :: y :: t) = x :: replace2 a b r (y :: t).
Proof. intros H. cbn [replace2].
  destruct (N.eqb y b) eqn:E; [apply N.eqb_eq in E; contradiction|]. now rewrite andb_false_r. Qed.
Lemma replace2_hit a b r t : replace2 a b r (a :: b :: t) = r :: replace2 a b r t.
Proof. cbn [replace2]. now rewrite !N.eqb_refl. Qed.

Inductive item := Plain (c : N) | EscEq.
Definition flat (its : list item) : str :=
  flat_map (fun i => match i with Plain c => [c] | EscEq => [c_bslash; c_eq] end) its.
Definition plainv (its : list item) : str := map (fun i => match i with Plain c => c | EscEq => c_eq end) its.
Definition nobs (its : list item) : Prop :=
  Forall (fun i => match i with Plain c => c <> c_bslash | EscEq => True end) its.

Lemma r1 its : nobs its -> replace2 c_bslash c_bslash c_bslash (flat its) = flat its.
Proof. induction 1 as [|i its Hi _ IH]; [reflexivity|]. destruct i as [c|]; cbn [flat flat_map app].
  - fold (flat its). rewrite replace2_cons_ne by exact Hi. now rewrite IH.
  - fold (flat its). rewrite replace2_cons_ne2 by discriminate. rewrite replace2_cons_ne by discriminate.
    now rewrite IH. Qed.
Lemma r2 its : nobs its -> replace2 c_bslash c_eq c_eq (flat its) = plainv its.
Proof. induction 1 as [|i its Hi _ IH]; [reflexivity|]. destruct i as [c|]; cbn [flat flat_map app plainv map].
  - fold (flat its) (plainv its). rewrite replace2_cons_ne by exact Hi. now rewrite IH.
  - fold (flat its) (plainv its). rewrite replace2_hit. now rewrite IH. Qed.
Lemma r3 s : ~ In c_bslash s -> replace2 c_bslash c_semi c_semi s = s.
Proof. induction s as [|x s IH]; intros H; [reflexivity|]. rewrite replace2_cons_ne.
  - rewrite IH; [reflexivity|]. intros Hin. apply H. now right.
  - intros ->. apply H. now left. Qed.
Lemma plainv_nobs its : nobs its -> ~ In c_bslash (plainv its).
Proof. induction 1 as [|i its Hi _ IH]; [intros []|]. cbn [plainv map]. intros [E|Hin]; [|now apply IH].
  destruct i; [congruence|discriminate]. Qed.
Lemma unescape_flat its : nobs its -> unescape (flat its) = plainv its.
Proof. intros H. unfold unescape. rewrite r1, r2 by exact H. apply r3. now apply plainv_nobs. Qed.

Lemma flat_app a b : flat (a ++ b) = flat a ++ flat b.
Proof. unfold flat. apply flat_map_app. Qed.
Lemma plainv_app a b : plainv (a ++ b) = plainv a ++ plainv b.
Proof. unfold plainv. apply map_app. Qed.
Lemma nobs_app a b : nobs a -> nobs b -> nobs (a ++ b).
Proof. intros. apply Forall_app. now split. Qed.

Definition esc_items (s : str) : list item := map (fun ch => if N.eqb ch c_eq then EscEq else Plain ch) s.
Lemma flat_plain s : flat (map Plain s) = s.
Proof. induction s as [|x s IH]; [reflexivity|]. cbn. unfold flat in IH. now rewrite IH. Qed.
Lemma plainv_plain s : plainv (map Plain s) = s.
Proof. induction s as [|x s IH]; [reflexivity|]. cbn. unfold plainv in IH. now rewrite IH. Qed.
Lemma flat_esc s : flat (esc_items s) = esc_eq s.
Proof. induction s as [|x s IH]; [reflexivity|]. unfold esc_items, esc_eq, flat in *. cbn [map flat_map].
  rewrite IH. now destruct (N.eqb x c_eq). Qed.
Lemma plainv_esc s : plainv (esc_items s) = s.
Proof. induction s as [|x s IH]; [reflexivity|]. unfold esc_items, plainv in *. cbn [map]. rewrite IH.
  destruct (N.eqb x c_eq) eqn:E; [apply N.eqb_eq in E; now subst|reflexivity]. Qed.
Lemma nobs_plain s : ~ In c_bslash s -> nobs (map Plain s).
Proof. intros H. apply Forall_forall. intros i Hi. apply in_map_iff in Hi. destruct Hi as (c & <- & Hc).
  intros ->. contradiction. Qed.
Lemma nobs_esc s : ~ In c_bslash s -> nobs (esc_items s).
Proof. intros H. apply Forall_forall. intros i Hi. apply in_map_iff in Hi. destruct Hi as (c & <- & Hc).
  destruct (N.eqb c c_eq); [exact I|]. intros ->. contradiction. Qed.

(* ---- Split --------------------------------------------------------------------------- *)
Lemma split_on_cons c s : exists seg rest, split_on c s = seg :: rest.
Proof. induction s as [|x s (seg & rest & IH)]; [cbn; eauto|]. cbn [split_on]. rewrite IH.
  destruct (N.eqb x c); eauto. Qed.
Lemma split_on_sep c s rest : ~ In c s -> split_on c (s ++ c :: rest) = s :: split_on c rest.
Proof. induction s as [|x s IH]; intros H.
  - cbn [app split_on]. destruct (split_on_cons c rest) as (seg & r & E). rewrite E. now rewrite N.eqb_refl.
  - cbn [app split_on]. rewrite IH by (intros Hin; apply H; now right).
    destruct (N.eqb x c) eqn:E; [apply N.eqb_eq in E; subst; exfalso; apply H; now left|reflexivity]. Qed.
Lemma split_on_none c s : ~ In c s -> split_on c s = [s].
Proof. induction s as [|x s IH]; intros H; [reflexivity|]. cbn [split_on].
  rewrite IH by (intros Hin; apply H; now right).
  destruct (N.eqb x c) eqn:E; [apply N.eqb_eq in E; subst; exfalso; apply H; now left|reflexivity]. Qed.

Lemma split_segments c segs : (forall s, In s segs -> ~ In c s) ->
  split_on c (concat (map (fun s => s ++ [c]) segs)) = segs ++ [[]].
Proof. induction segs as [|s segs IH]; intros H; [reflexivity|]. cbn [map concat].
  rewrite <- app_assoc. cbn [app]. rewrite split_on_sep by (apply H; now left).
  rewrite IH by (intros s' Hs'; apply H; now right). reflexivity. Qed.

Lemma join_with_cons2 c x y l : join_with c (x :: y :: l) = x ++ c :: join_with c (y :: l).
Proof. reflexivity. Qed.
Lemma split_join c l : l <> [] -> (forall s, In s l -> ~ In c s) -> split_on c (join_with c l) = l.
Proof. induction l as [|x l IH]; intros Hne H; [congruence|]. destruct l as [|y l].
  - cbn [join_with]. apply split_on_none. apply H. now left.
  - rewrite join_with_cons2. rewrite split_on_sep by (apply H; now left). f_equal. apply IH; [discriminate|].
    intros s Hs. apply H. now right. Qed.

Lemma split_first_key c k v : ~ In c k -> split_first c (k ++ c :: v) = Some (k, v).
Proof. induction k as [|x k IH]; intros H; cbn [app split_first].
  - now rewrite N.eqb_refl.
  - destruct (N.eqb x c) eqn:E; [apply N.eqb_eq in E; subst; exfalso; apply H; now left|].
    rewrite IH by (intros Hin; apply H; now right). reflexivity. Qed.

Lemma contains_byte_iff c s : contains_byte c s = true <-> In c s.
Proof. unfold contains_byte. rewrite existsb_exists. split.
  - intros (x & Hin & E). apply N.eqb_eq in E. now subst.
  - intros H. exists c. split; [exact H|apply N.eqb_refl]. Qed.
Lemma contains_byte_false c s : contains_byte c s = false <-> ~ In c s.
Proof. rewrite <- contains_byte_iff. destruct (contains_byte c s); split; congruence. Qed.

(* ---- what the guard gives ------------------------------------------------------------- *)
Lemma ok_str_in s ch : ok_str s = true -> In ch s ->
  ch <> c_semi /\ ch <> c_quote /\ ch <> c_bslash /\ (32 <= ch)%N.
Proof. unfold ok_str. rewrite forallb_forall. intros H Hin. specialize (H _ Hin). unfold ok_char in H.
  rewrite !andb_true_iff, !negb_true_iff, !N.eqb_neq, N.leb_le in H. tauto. Qed.
Lemma ok_str_no c s : ok_str s = true -> (c = c_semi \/ c = c_bslash \/ c = c_quote) -> ~ In c s.
Proof. intros H Hc Hin. destruct (ok_str_in _ _ H Hin) as (A & B & C & _). destruct Hc as [->| [->| ->]]; congruence. Qed.
Lemma ok_str_plain s : ok_str s = true -> json_plain_body s = true.
Proof. unfold ok_str, json_plain_body. rewrite !forallb_forall. intros H ch Hin. specialize (H _ Hin).
  unfold ok_char in H. rewrite !andb_true_iff in *. tauto. Qed.

Lemma in_join c l x : In x (join_with c l) -> x = c \/ exists s, In s l /\ In x s.
Proof. induction l as [|a l IH]; [intros []|]. destruct l as [|b l].
  - cbn. intros H. right. exists a. split; [now left|exact H].
  - rewrite join_with_cons2.
    rewrite in_app_iff. intros [H|[H|H]].
    + right. exists a. split; [now left|exact H].
    + now left.
    + destruct (IH H) as [->|(s & Hs & Hx)]; [now left|]. right. exists s. split; [now right|exact Hx]. Qed.

Lemma unquoted_not_alt k : is_unquoted k = true -> has_prefix kw_AlternativeNames k = false.
Proof. unfold is_unquoted. rewrite !orb_true_iff, !str_eqb_spec. intros [[[->| ->]| ->]| ->]; reflexivity. Qed.

Definition seg_of (o : option_) : str := fst o ++ c_eq :: oval_text (snd o).
Definition items_of_option (o : option_) : list item :=
  map Plain (fst o) ++ [Plain c_eq] ++ esc_items (oval_text (snd o)) ++ [Plain c_semi].

Lemma oval_text_ok o ch : ok_option o = true -> In ch (oval_text (snd o)) -> ch <> c_semi /\ ch <> c_bslash.
Proof. unfold ok_option. destruct o as [k v]. cbn [fst snd]. rewrite andb_true_iff. intros [_ H] Hin.
  destruct v as [s|s|l]; cbn [oval_text] in Hin.
  - rewrite !andb_true_iff in H. destruct H as [[H _] _]. destruct (ok_str_in _ _ H Hin). tauto.
  - rewrite !andb_true_iff in H. destruct H as [H _]. destruct (ok_str_in _ _ H Hin). tauto.
  - rewrite !andb_true_iff in H. destruct H as [_ H]. rewrite forallb_forall in H.
    destruct (in_join _ _ _ Hin) as [->|(s & Hs & Hx)]; [split; discriminate|].
    specialize (H _ Hs). rewrite andb_true_iff in H. destruct H as [H _]. destruct (ok_str_in _ _ H Hx). tauto. Qed.
Lemma key_ok o : ok_option o = true ->
  fst o <> [] /\ ~ In c_eq (fst o) /\ ~ In c_semi (fst o) /\ ~ In c_bslash (fst o).
Proof. unfold ok_option, ok_key. rewrite !andb_true_iff, !negb_true_iff. intros [[[H1 H2] H3] _].
  split; [destruct (fst o); [discriminate|congruence]|]. split; [now apply contains_byte_false|].
  split; apply (ok_str_no _ _ H1); auto. Qed.

Lemma flat_items o : flat (items_of_option o) = render_option o.
Proof. unfold items_of_option, render_option. rewrite !flat_app, flat_plain, flat_esc. reflexivity. Qed.
Lemma plainv_items o : plainv (items_of_option o) = seg_of o ++ [c_semi].
Proof. unfold items_of_option, seg_of. rewrite !plainv_app, plainv_plain, plainv_esc. cbn.
  now rewrite <- app_assoc. Qed.
Lemma nobs_items o : ok_option o = true -> nobs (items_of_option o).
Proof. intros H. destruct (key_ok o H) as (_ & _ & _ & Hk). unfold items_of_option.
  apply nobs_app; [now apply nobs_plain|]. apply nobs_app; [repeat constructor; discriminate|].
  apply nobs_app; [|repeat constructor; discriminate]. apply nobs_esc.
  intros Hin. now destruct (oval_text_ok o _ H Hin). Qed.

Lemma render_as_items c : render_ssv c = flat (concat (map items_of_option c)).
Proof. unfold render_ssv. induction c as [|o c IH]; [reflexivity|]. cbn [map concat].
  now rewrite flat_app, flat_items, IH. Qed.
Lemma plainv_concat c : plainv (concat (map items_of_option c)) = concat (map (fun s => s ++ [c_semi]) (map seg_of c)).
Proof. induction c as [|o c IH]; [reflexivity|]. cbn [map concat]. now rewrite plainv_app, plainv_items, IH. Qed.
Lemma nobs_concat c : forallb ok_option c = true -> nobs (concat (map items_of_option c)).
Proof. induction c as [|o c IH]; cbn [forallb map concat]; [constructor|]. rewrite andb_true_iff. intros [H1 H2].
  apply nobs_app; [now apply nobs_items|now apply IH]. Qed.

Lemma token_of_option o : ok_option o = true -> token_of (fst o) (oval_text (snd o)) = tok_of_option o.
Proof.
  intros H. pose proof H as H0. unfold ok_option in H. rewrite andb_true_iff in H. destruct H as [_ H].
  unfold token_of, tok_of_option. destruct o as [k v]. cbn [fst snd] in *. destruct v as [s|s|l]; cbn [oval_text].
  - rewrite !andb_true_iff, !negb_true_iff in H. destruct H as [[_ H1] H2]. now rewrite H1, H2.
  - rewrite !andb_true_iff in H. destruct H as [_ H2]. now rewrite (unquoted_not_alt _ H2), H2.
  - rewrite !andb_true_iff, negb_true_iff in H. destruct H as [[H1 H2] H3]. rewrite H1.
    rewrite forallb_forall in H3.
    assert (Hnc : forall s, In s l -> ~ In c_comma s).
    { intros s Hs. specialize (H3 _ Hs). rewrite andb_true_iff, negb_true_iff in H3. now apply contains_byte_false. }
    destruct l as [|a [|b l]]; [discriminate| |].
    + cbn [join_with]. assert (E : contains_byte c_comma a = false) by (apply contains_byte_false, Hnc; now left).
      now rewrite E.
    + assert (E : contains_byte c_comma (join_with c_comma (a :: b :: l)) = true).
      { apply contains_byte_iff. rewrite join_with_cons2. apply in_or_app. right. now left. }
      rewrite E. rewrite split_join; [reflexivity|discriminate|exact Hnc].
Qed.

Lemma tokens_of_segs c : forallb ok_option c = true ->
  tokens_of_segments (map seg_of c ++ [[]]) = json_members c.
Proof. induction c as [|o c IH]; cbn [forallb map app tokens_of_segments json_members]; [reflexivity|].
  rewrite andb_true_iff. intros [H1 H2]. destruct (key_ok o H1) as (Hne & Heq & _ & _).
  unfold seg_of at 1 2. destruct (fst o) as [|x k] eqn:Ek; [congruence|]. cbn [app is_empty].
  change (x :: k ++ c_eq :: oval_text (snd o)) with ((x :: k) ++ c_eq :: oval_text (snd o)).
  rewrite <- Ek in *. rewrite split_first_key by exact Heq. rewrite token_of_option by exact H1.
  fold (json_members c). now rewrite <- IH. Qed.

Lemma ssv_equiv c : forallb ok_option c = true -> ssv_tokens (render_ssv c) = json_members c.
Proof.
  intros H. unfold ssv_tokens. rewrite render_as_items, unescape_flat by (now apply nobs_concat).
  rewrite plainv_concat, split_segments; [now apply tokens_of_segs|].
  intros s Hs. apply in_map_iff in Hs. destruct Hs as (o & <- & Ho).
  assert (Hok : ok_option o = true) by (rewrite forallb_forall in H; now apply H).
  destruct (key_ok o Hok) as (_ & _ & Hks & _). unfold seg_of. rewrite in_app_iff. intros [Hin|[Hin|Hin]].
  - contradiction.
  - discriminate.
  - now destruct (oval_text_ok o _ Hok Hin).
Qed.

(* the text the code builds is the member texts between braces *)
Lemma ssv_to_json_text s : ssv_to_json s = json_text (ssv_tokens s).
Proof. reflexivity. Qed.

(* under the guard every string body written between quotes is a plain JSON string literal *)
Lemma guard_gives_plain_bodies o : ok_option o = true ->
  match snd o with
  | VStr s => json_plain_body s = true
  | VLit _ => True
  | VList l => forall n, In n l -> json_plain_body n = true
  end /\ json_plain_body (fst o) = true.
Proof. unfold ok_option, ok_key. rewrite !andb_true_iff. intros [[[Hk _] _] H]. split; [|now apply ok_str_plain].
  destruct (snd o) as [s|s|l].
  - rewrite !andb_true_iff in H. apply ok_str_plain. tauto.
  - exact I.
  - rewrite !andb_true_iff in H. destruct H as [_ H]. rewrite forallb_forall in H. intros n Hn.
    specialize (H _ Hn). rewrite andb_true_iff in H. apply ok_str_plain. tauto. Qed.

Lemma ssv_equiv_full c : forallb ok_option c = true ->
  ssv_tokens (render_ssv c) = json_members c /\
  ssv_to_json (render_ssv c) = json_text (json_members c) /\
  (forall o, In o c ->
     match snd o with
     | VStr s => json_plain_body s = true
     | VLit _ => True
     | VList l => forall n, In n l -> json_plain_body n = true
     end /\ json_plain_body (fst o) = true).
Proof.
  intros H. split; [exact (ssv_equiv c H)|]. split.
  - unfold ssv_to_json. now rewrite (ssv_equiv c H).
  - intros o Ho. apply guard_gives_plain_bodies. rewrite forallb_forall in H. now apply H.
Qed.

(* ---- the guard is the boundary: one counter-example per excluded character ----------------- *)
Definition k_ServerName : str := Eval compute in bytes_of "ServerName".
Definition cx_semicolon : list option_ := [(k_ServerName, VStr [97%N; 59%N; 98%N])].            (* a;b *)
Definition cx_backslash : list option_ := [(k_ServerName, VStr [97%N; 92%N])].                (* a\  *)
Definition cx_two_backslashes : list option_ := [(k_ServerName, VStr [97%N; 92%N; 92%N; 98%N])].  (* a\\b *)
Definition cx_comma : list option_ := [(kw_AlternativeNames, VList [[97%N; 44%N; 98%N]])].      (* one name: a,b *)
Definition cx_empty_list : list option_ := [(kw_AlternativeNames, VList [])].
Definition cx_quote : list option_ := [(k_ServerName, VStr [97%N; 34%N; 98%N])].                (* a, quote, b *)
Definition cx_control : list option_ := [(k_ServerName, VStr [97%N; 10%N; 98%N])].              (* a<LF>b *)

Lemma cx_breaks :
  ssv_tokens (render_ssv cx_semicolon) <> json_members cx_semicolon /\
  ssv_tokens (render_ssv cx_backslash) <> json_members cx_backslash /\
  ssv_tokens (render_ssv cx_two_backslashes) <> json_members cx_two_backslashes /\
  ssv_tokens (render_ssv cx_comma) <> json_members cx_comma /\
  ssv_tokens (render_ssv cx_empty_list) <> json_members cx_empty_list.
Proof. repeat split; vm_compute; discriminate. Qed.

(* a quote or a control character survives to the member list but the text between the quotes
   is then no JSON string literal for it (what encoding/json makes of that text is outside the model) *)
Lemma cx_text_level :
  (ssv_tokens (render_ssv cx_quote) = json_members cx_quote /\ json_plain_body [97%N; 34%N; 98%N] = false) /\
  (ssv_tokens (render_ssv cx_control) = json_members cx_control /\ json_plain_body [97%N; 10%N; 98%N] = false).
Proof. repeat split; vm_compute; reflexivity. Qed.

(* base64 padding: the '=' written as \= by plugin hosts comes back as '=' *)
Definition k_UID : str := Eval compute in bytes_of "UID".
Definition ex_b64 : list option_ :=
  [(k_UID, VStr (bytes_of "iGAO85zysIyR4c09CyZSLQ=="));
   (kw_NumConn, VLit (bytes_of "4"));
   (kw_AlternativeNames, VList [bytes_of "a.com"; []; bytes_of "b.com"])].
Lemma ex_guard : forallb ok_option ex_b64 = true
  /\ render_ssv ex_b64 = bytes_of "UID=iGAO85zysIyR4c09CyZSLQ\=\=;NumConn=4;AlternativeNames=a.com,,b.com;"
  /\ ssv_to_json (render_ssv ex_b64)
     = bytes_of "{""UID"":""iGAO85zysIyR4c09CyZSLQ=="",""NumConn"":4,""AlternativeNames"":[""a.com"","""",""b.com""]}".
Proof. repeat split; vm_compute; reflexivity. Qed.

(* non-vacuity of the processed-configuration theorems *)
Definition ex_raw : raw :=
  mkRaw (bytes_of "www.bing.com") (bytes_of "shadowsocks") (bytes_of "AES-GCM") (bytes_of "0123456789abcdef")
        (bytes_of "0123456789abcdef0123456789abcdef") 4 (bytes_of "127.0.0.1") (bytes_of "1984")
        (bytes_of "1.2.3.4") (bytes_of "443") [bytes_of "a.com"; []] false [] (bytes_of "CDN") [] [] 0 30.
Lemma ex_raw_ok : secs_ok (KeepAlive ex_raw) /\ secs_ok (StreamTimeout ex_raw) /\ doc_complete ex_raw = true
  /\ exists x, process ex_raw = ROk x /\ r_keepalive (snd (fst x)) = 30 * second_ns
     /\ l_timeout (fst (fst x)) = 300 * second_ns /\ r_singleplex (snd (fst x)) = false
     /\ t_wsurl (r_transport (snd (fst x))) = bytes_of "ws://1.2.3.4:443/".
Proof. split; [unfold secs_ok; cbn; lia|]. split; [unfold secs_ok; cbn; lia|]. split; [vm_compute; reflexivity|].
  eexists. split; [vm_compute; reflexivity|]. repeat split; vm_compute; reflexivity. Qed.

(* the boundary of [secs_ok]: beyond about 292 years the multiplication wraps (edge of the
   statement, not a finding) *)
Lemma secs_wraps : secs 9223372037 < 0.
Proof. vm_compute. reflexivity. Qed.
