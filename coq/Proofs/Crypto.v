(* Structural facts about the concrete Gallina ciphers - lengths, xor cancellation and the
   AEAD round trip for ChaCha20-Poly1305 and AES-GCM, for ALL inputs.  None of this looks
   inside the ciphers' arithmetic: it only uses that blocks have a fixed size and tags a
   fixed length.  (Test vectors: Proofs/CryptoVectors.v.) *)
From Coq Require Import NArith List Bool Lia Arith PeanoNat.
From Cloak Require Import Model.Crypto.CBytes Model.Crypto.Salsa20 Model.Crypto.ChaCha20
  Model.Crypto.Poly1305 Model.Crypto.ChaChaPoly Model.Crypto.AES Model.Crypto.GHASH
  Model.Crypto.GCM Model.AEAD Proofs.AEAD.
Import ListNotations.

Lemma words16_bytes_length : forall w, length (words16_bytes w) = 64.
Proof. intros. reflexivity. Qed.

Lemma salsa20_block_length : forall k n c, length (salsa20_block k n c) = 64.
Proof. intros. apply words16_bytes_length. Qed.

Lemma chacha20_block_length : forall k n c, length (chacha20_block k n c) = 64.
Proof. intros. apply words16_bytes_length. Qed.

Lemma salsa20_xor_length : forall k n d, length (salsa20_xor k n d) = length d.
Proof. intros. apply ctr_xor_length; [apply salsa20_block_length | lia]. Qed.

(* XORKeyStream with the same key and nonce twice is the identity *)
Lemma salsa20_xor_involutive : forall k n d, salsa20_xor k n (salsa20_xor k n d) = d.
Proof. intros. apply ctr_xor_involutive; [apply salsa20_block_length | lia]. Qed.

Lemma chacha20_xor_involutive : forall k n c d, chacha20_xor k n c (chacha20_xor k n c d) = d.
Proof. intros. apply ctr_xor_involutive; [apply chacha20_block_length | lia]. Qed.

(* ---- ChaCha20-Poly1305 -------------------------------------------------------------- *)
Lemma chachapoly_stream_covers : forall k n len, len <= length (chachapoly_stream k n len).
Proof. intros. apply ctr_stream_covers; [apply chacha20_block_length | lia]. Qed.

Lemma poly1305_length : forall k m, length (poly1305 k m) = 16.
Proof. intros. apply le_bytes_length. Qed.

Lemma chachapoly_mac_length : forall k n a c, length (chachapoly_mac k n a c) = 16.
Proof. intros. apply poly1305_length. Qed.

Theorem chachapoly_open_seal : forall key nonce p aad,
  chachapoly_open key nonce (chachapoly_seal key nonce p aad) aad = Some p.
Proof.
  intros. apply aead_open_seal; [apply chachapoly_stream_covers | apply chachapoly_mac_length].
Qed.

Lemma chachapoly_seal_length : forall key nonce p aad,
  length (chachapoly_seal key nonce p aad) = length p + 16.
Proof.
  intros. apply aead_seal_length; [apply chachapoly_stream_covers | apply chachapoly_mac_length].
Qed.

Lemma chachapoly_open_length : forall key nonce c aad p,
  chachapoly_open key nonce c aad = Some p -> length p + 16 = length c.
Proof.
  intros key nonce c aad p. exact (aead_open_length _ _ _ chachapoly_stream_covers chachapoly_mac_length key nonce c aad p).
Qed.

(* ---- AES-GCM ------------------------------------------------------------------------- *)
Lemma gcm_ks_block_length : forall rks n c, length (gcm_ks_block rks n c) = 16.
Proof. intros. apply force_length. Qed.

Lemma gcm_stream_covers : forall k n len, len <= length (gcm_stream k n len).
Proof. intros. apply ctr_stream_covers; [apply gcm_ks_block_length | lia]. Qed.

Lemma gcm_mac_length : forall k n a c, length (gcm_mac k n a c) = 16.
Proof. intros. apply force_length. Qed.

Theorem gcm_open_seal : forall key nonce p aad,
  gcm_open key nonce (gcm_seal key nonce p aad) aad = Some p.
Proof. intros. apply aead_open_seal; [apply gcm_stream_covers | apply gcm_mac_length]. Qed.

Lemma gcm_seal_length : forall key nonce p aad,
  length (gcm_seal key nonce p aad) = length p + 16.
Proof. intros. apply aead_seal_length; [apply gcm_stream_covers | apply gcm_mac_length]. Qed.

Lemma gcm_open_length : forall key nonce c aad p,
  gcm_open key nonce c aad = Some p -> length p + 16 = length c.
Proof. intros key nonce c aad p. exact (aead_open_length _ _ _ gcm_stream_covers gcm_mac_length key nonce c aad p). Qed.
