(* The building blocks of Model/Mux.v report only wire events (frames put on the wire,
   connection ends closed); results of application calls (ERet, EPend) are produced by the
   label dispatcher and by resolve only. *)
From Coq Require Import NArith ZArith List Bool Lia.
From Cloak Require Import Model.Reorder Model.Mux Proofs.MuxBase.
Import ListNotations.
Local Open Scope N_scope.

Definition wire_ev (e : ev) : Prop := match e with EFrame _ _ _ | EConnClosed _ _ => True | _ => False end.
Definition wire_only (evs : list ev) : Prop := Forall wire_ev evs.

Lemma wire_nil : wire_only []. Proof. constructor. Qed.
Lemma wire_app a b : wire_only a -> wire_only b -> wire_only (a ++ b).
Proof. intros; apply Forall_app; auto. Qed.
#[export] Hint Resolve wire_nil wire_app : wire.

Lemma close_ends_wire x pool : forall cs, wire_only (snd (close_ends x pool cs)).
Proof.
  induction pool as [|c t IH]; intros cs; cbn; [constructor|].
  destruct (nthN _ cs) as [cn|]; [|apply IH]. destruct (conn_closed_end cn x); [apply IH|].
  specialize (IH (setN (N.to_nat c) (conn_close_end cn x) cs)).
  destruct (close_ends x t _) as [cs' evs]. cbn in *. constructor; [exact I|exact IH].
Qed.
Lemma close_all_wire y x : wire_only (snd (close_all y x)).
Proof. unfold close_all. destruct (se_broken _); [constructor|].
  pose proof (close_ends_wire x (se_pool (sess y x)) (sy_conns y)) as H.
  destruct (close_ends _ _ _) as [cs evs]. exact H. Qed.
Lemma passive_close_wire y x : wire_only (snd (passive_close y x)).
Proof. unfold passive_close. destruct (close_session_core _) as [se ok]. destruct ok; [apply close_all_wire|constructor]. Qed.
Lemma sb_send_wire y x fr p : wire_only (snd (fst (sb_send y x fr p))).
Proof.
  unfold sb_send. destruct (se_broken _); [constructor|]. destruct (se_pool _); [constructor|].
  destruct (nthN _ _) as [cn|]; [|constructor]. destruct (_ || _).
  - pose proof (passive_close_wire y x) as H. destruct (passive_close y x) as [y1 e1]. exact H.
  - repeat constructor.
Qed.
Lemma stream_emit_wire y x sid pay ch : wire_only (snd (fst (stream_emit y x sid pay ch))).
Proof.
  unfold stream_emit. destruct (lookup _ _) as [st|]; [|constructor]. cbv zeta.
  destruct (hd_pick ch) as [c ch0].
  pose proof (sb_send_wire (set_sess y x (upd_objs (sess y x) (update sid (mkS (st_seq st + 1) (st_wcl st) (st_closed st) (st_rb st)) (se_objs (sess y x))))) x (mkW sid (st_seq st) (st_wcl st) pay) c) as H.
  destruct (sb_send _ _ _ c) as [[y2 e2] rc]. cbn in H.
  destruct (rc =? 0); [exact H|]. destruct (rc =? 1); [|exact H].
  pose proof (passive_close_wire y2 x) as H2. destruct (passive_close y2 x) as [y3 e3]. cbn in *. apply wire_app; assumption.
Qed.
Lemma session_close_wire y x ch : wire_only (snd (fst (session_close y x ch))).
Proof.
  unfold session_close. destruct (close_session_core _) as [se ok]. destruct ok; cbn [negb]; [|constructor].
  destruct (hd_pick ch) as [c ch0].
  pose proof (sb_send_wire (set_sess y x se) x (mkW 4294967295 0 2 []) c) as H.
  destruct (sb_send _ _ _ c) as [[y2 e2] rc]. cbn in H.
  pose proof (close_all_wire y2 x) as H2. destruct (close_all y2 x) as [y3 e3]. cbn in H2.
  destruct (rc =? 0); [|destruct (rc =? 1)]; cbn; apply wire_app; assumption.
Qed.
Lemma close_stream_wire y x sid active ch : wire_only (snd (fst (close_stream y x sid active ch))).
Proof.
  unfold close_stream. destruct (lookup _ _) as [st|]; [|constructor]. destruct (st_closed st); [constructor|]. cbv zeta.
  set (y1 := set_sess y x _).
  assert (H2 : wire_only (snd (fst (if active then stream_emit y1 x sid [] ch else (y1, ch, [], true))))).
  { destruct active; [apply stream_emit_wire|constructor]. }
  destruct (if active then stream_emit y1 x sid [] ch else (y1, ch, [], true)) as [[[y2 ch2] evs2] ok]. cbn in H2.
  destruct ok; cbn [negb]; [|exact H2].
  destruct (_ =? 0); [|exact H2].
  destruct (se_singleplex _); [|exact H2].
  pose proof (session_close_wire (set_sess y2 x (upd_count (upd_tab (sess y2 x) (update sid false (se_tab (sess y2 x)))) (decr32 (se_count (sess y2 x))))) x ch2) as H3.
  destruct (session_close _ x ch2) as [[[y4 ch4] evs4] rc4]. cbn in *. apply wire_app; assumption.
Qed.
Lemma recv_frame_wire y x fr ch : wire_only (snd (recv_frame y x fr ch)).
Proof.
  unfold recv_frame. destruct (w_cl fr =? 2).
  { pose proof (passive_close_wire y x) as H. destruct (passive_close y x) as [y1 e1]. exact H. }
  destruct (se_closed _); [constructor|].
  assert (Hd : forall y0, wire_only (snd (match lookup (w_sid fr) (se_objs (sess y0 x)) with
               | None => (y0, ch, [])
               | Some st =>
                   let '(rb', tbc, _) := rb_write (st_rb st) (mkF (w_seq fr) (negb (w_cl fr =? 0)) (w_pay fr)) in
                   let y1 := set_sess y0 x (upd_objs (sess y0 x) (update (w_sid fr) (st_set_rb st rb') (se_objs (sess y0 x)))) in
                   if tbc then let '(y2, ch2, evs2, _) := close_stream y1 x (w_sid fr) false ch in (y2, ch2, evs2)
                   else (y1, ch, [])
               end))).
  { intros y0. destruct (lookup _ _) as [st|]; [|constructor].
    destruct (rb_write _ _) as [[rb' tbc] er]. cbv zeta. destruct tbc; [|constructor].
    pose proof (close_stream_wire (set_sess y0 x (upd_objs (sess y0 x) (update (w_sid fr) (st_set_rb st rb') (se_objs (sess y0 x))))) x (w_sid fr) false ch) as H.
    destruct (close_stream _ x (w_sid fr) false ch) as [[[y2 ch2] evs2] rc]. exact H. }
  destruct (lookup (w_sid fr) (se_tab (sess y x))) as [[|]|]; [apply Hd|constructor|apply Hd].
Qed.
Lemma deplex_error_wire y x c : wire_only (snd (deplex_error y x c)).
Proof.
  unfold deplex_error. pose proof (passive_close_wire y x) as H. destruct (passive_close y x) as [y1 e1]. cbn in H.
  destruct (nthN _ _) as [cn|]; [|exact H]. destruct (conn_closed_end cn x); [exact H|].
  apply wire_app; [exact H|repeat constructor].
Qed.
Lemma write_loop_wire fuel : forall y x sid data n ch, wire_only (snd (fst (fst (write_loop fuel y x sid data n ch)))).
Proof.
  induction fuel as [|fuel IH]; intros; cbn; [constructor|].
  destruct data as [|b d]; [constructor|].
  pose proof (stream_emit_wire y x sid (firstn (N.to_nat (se_unit (sess y x))) (b :: d)) ch) as H1.
  destruct (stream_emit _ _ _ _ _) as [[[y1 ch1] evs1] ok]. cbn in H1. destruct ok; [|exact H1].
  specialize (IH y1 x sid (skipn (N.to_nat (se_unit (sess y x))) (b :: d)) (n + N.of_nat (length (firstn (N.to_nat (se_unit (sess y x))) (b :: d)))) ch1).
  destruct (write_loop fuel y1 x sid _ _ ch1) as [[[[y2 ch2] evs2] n2] rc2]. cbn in *. apply wire_app; assumption.
Qed.
Lemma fire_timers_wire fuel : forall y x ch, wire_only (snd (fire_timers fuel y x ch)).
Proof.
  induction fuel as [|fuel IH]; intros; cbn; [constructor|].
  destruct (se_timers _) as [|t rest]; [constructor|]. destruct (t <=? sy_now y)%Z; [|constructor].
  destruct (_ && _); [|apply IH].
  pose proof (session_close_wire (set_sess y x (upd_timers (sess y x) rest)) x ch) as H1.
  destruct (session_close _ x ch) as [[[y2 ch2] evs2] rc2]. cbn in H1.
  specialize (IH y2 x ch2). destruct (fire_timers fuel y2 x ch2) as [[y3 ch3] evs3]. cbn in *. apply wire_app; assumption.
Qed.
