(* Proofs about Model/Dispatch.v: exactly which first packets become sessions (C07), that every
   other one is handed to the redirect target untouched and un-answered (C09), the window edges,
   and that no index panic can escape. *)
From Coq Require Import NArith ZArith List Bool Arith Lia.
From Coq Require Import ZifyN ZifyNat ZifyBool.
From Cloak Require Import Gen.Consts Model.Hello Model.FirstPacket Model.Dispatch Proofs.Hello Proofs.FirstPacket.
Import ListNotations.
Local Open Scope N_scope.

(* ------------------------------------------------------------------ small facts *)
Lemma bytes_eqb_iff : forall a b, bytes_eqb a b = true <-> a = b.
Proof. intros; split; [apply bytes_eqb_true | intros ->; apply bytes_eqb_refl]. Qed.

Lemma mem_bytes_iff : forall k l, mem_bytes k l = true <-> In k l.
Proof.
  intros k l. unfold mem_bytes. rewrite existsb_exists. split.
  - intros (x & Hin & E). apply bytes_eqb_iff in E. subst. exact Hin.
  - intros Hin. exists k. split; auto. apply bytes_eqb_refl.
Qed.

Lemma psub_ok : forall lo hi p, (lo <= hi)%nat -> (hi <= length p)%nat ->
  psub lo hi p = Ok (firstn (hi - lo) (skipn lo p)).
Proof.
  intros lo hi p H1 H2. unfold psub. apply Nat.leb_le in H1, H2. rewrite H1, H2. reflexivity.
Qed.
Lemma psub_inv : forall lo hi p x, psub lo hi p = Ok x ->
  (hi <= length p)%nat /\ x = firstn (hi - lo) (skipn lo p).
Proof.
  intros lo hi p x H. unfold psub in H.
  destruct ((lo <=? hi)%nat && (hi <=? length p)%nat) eqn:E; [|discriminate].
  apply andb_prop in E as [_ E]. apply Nat.leb_le in E. inversion H. auto.
Qed.
Lemma pidx_ok : forall i p, (i < length p)%nat -> pidx i p = Ok (nth i p 0).
Proof.
  intros i p H. unfold pidx. destruct (nth_error p i) eqn:E.
  - f_equal. symmetry. apply nth_error_nth. exact E.
  - apply nth_error_None in E. lia.
Qed.
Lemma pidx_inv : forall i p x, pidx i p = Ok x -> (i < length p)%nat /\ x = nth i p 0.
Proof.
  intros i p x H. unfold pidx in H. destruct (nth_error p i) eqn:E; [|discriminate].
  inversion H; subst. split.
  - apply nth_error_Some. congruence.
  - symmetry. apply nth_error_nth. exact E.
Qed.

(* ------------------------------------------------------------------ the generated constant *)
Lemma tolerance_180s : tolerance = (180 * ns_per_s)%Z.
Proof. reflexivity. Qed.

(* ------------------------------------------------------------------ the window *)
Lemma client_ns_small : forall ts, (Z.of_N ts < 2 ^ 62)%Z -> client_ns ts = (Z.of_N ts * ns_per_s)%Z.
Proof.
  intros ts H. unfold client_ns, int64_of, wrap64, unixToInternal, two63, two64, ns_per_s.
  change (2 ^ 62)%Z with 4611686018427387904%Z in H.
  assert (0 <= Z.of_N ts)%Z by lia.
  rewrite (Z.mod_small (Z.of_N ts + 9223372036854775808)) by lia.
  replace (Z.of_N ts + 9223372036854775808 - 9223372036854775808)%Z with (Z.of_N ts) by lia.
  rewrite (Z.mod_small (Z.of_N ts + 62135596800 + 9223372036854775808)) by lia.
  lia.
Qed.

Lemma in_window_iff : forall ts now, (Z.of_N ts < 2 ^ 62)%Z ->
  in_window ts now = true <->
  (now - tolerance < Z.of_N ts * ns_per_s /\ Z.of_N ts * ns_per_s < now + tolerance)%Z.
Proof.
  intros ts now H. unfold in_window. rewrite client_ns_small by exact H.
  rewrite andb_true_iff, !Z.ltb_lt. tauto.
Qed.

(* in whole seconds, as the code truncates the client's clock but not the server's *)
Lemma in_window_seconds : forall ts now, (Z.of_N ts < 2 ^ 62)%Z ->
  let sec := (now / ns_per_s)%Z in
  let nsec := (now mod ns_per_s)%Z in
  in_window ts now = true <->
  (sec - 180 < Z.of_N ts /\ (Z.of_N ts < sec + 180 \/ (Z.of_N ts = sec + 180 /\ 0 < nsec)))%Z.
Proof.
  intros ts now H sec nsec. rewrite in_window_iff by exact H. rewrite tolerance_180s.
  subst sec nsec. unfold ns_per_s.
  pose proof (Z.div_mod now 1000000000 ltac:(lia)) as Hdm.
  pose proof (Z.mod_pos_bound now 1000000000 ltac:(lia)) as Hb.
  remember (now / 1000000000)%Z as q. remember (now mod 1000000000)%Z as r. lia.
Qed.

Lemma window_edges : forall sec, (180 <= sec)%Z -> (sec + 181 < 2 ^ 62)%Z ->
  let now := (sec * ns_per_s)%Z in
  in_window (Z.to_N (sec + 180)) now = false /\ in_window (Z.to_N (sec - 180)) now = false /\
  in_window (Z.to_N (sec + 179)) now = true /\ in_window (Z.to_N (sec - 179)) now = true /\
  (forall ns, (0 < ns < ns_per_s)%Z ->
     in_window (Z.to_N (sec + 180)) (now + ns) = true /\ in_window (Z.to_N (sec - 179)) (now + ns) = true /\
     in_window (Z.to_N (sec - 180)) (now + ns) = false /\ in_window (Z.to_N (sec + 181)) (now + ns) = false).
Proof.
  intros sec H1 H2 now. subst now.
  change (2 ^ 62)%Z with 4611686018427387904%Z in H2.
  assert (forall ts nw, (0 <= ts < 2 ^ 62)%Z ->
            in_window (Z.to_N ts) nw = true <->
            (nw - tolerance < ts * ns_per_s /\ ts * ns_per_s < nw + tolerance)%Z) as W.
  { intros ts nw Hts. rewrite in_window_iff; rewrite Z2N.id; try lia; tauto. }
  assert (forall ts nw, (0 <= ts < 2 ^ 62)%Z ->
            ~ (nw - tolerance < ts * ns_per_s /\ ts * ns_per_s < nw + tolerance)%Z ->
            in_window (Z.to_N ts) nw = false) as Wf.
  { intros ts nw Hts Hn. destruct (in_window (Z.to_N ts) nw) eqn:E; auto. apply W in E; auto. contradiction. }
  change (2 ^ 62)%Z with 4611686018427387904%Z in *.
  unfold tolerance, server_timestampTolerance_ns, ns_per_s in *.
  repeat split.
  - apply Wf; lia.
  - apply Wf; lia.
  - apply W; lia.
  - apply W; lia.
  - apply W; lia.
  - apply W; lia.
  - apply Wf; lia.
  - apply Wf; lia.
Qed.

(* ------------------------------------------------------------------ the decision *)
Definition pt_uid (pt : list N) : list N := firstn 16 pt.
Definition pt_method (pt : list N) : list N := trim0 (firstn 12 (skipn 16 pt)).
Definition pt_enc (pt : list N) : N := nth 28 pt 0.
Definition pt_ts (pt : list N) : N := be_val (firstn 8 (skipn 29 pt)).
Definition pt_sid (pt : list N) : N := be_val (firstn 4 (skipn 37 pt)).
Definition pt_unordered (pt : list N) : bool := N.testbit (nth 41 pt 0) 0.
Definition info_of (pt : list N) : client_info :=
  mkCI (pt_uid pt) (pt_sid pt) (pt_method pt) (pt_enc pt) (pt_unordered pt).

Definition is_session (d : decision) : Prop :=
  match d with AdminSession | ProxySession _ _ _ _ _ => True | _ => False end.

Section Decide.
  Variable dh : list N -> list N -> option (list N).
  Variable gcm_open : list N -> list N -> list N -> list N -> option (list N).
  (* the only fact about AES-GCM the absence of panics rests on: opening strips the 16-byte tag *)
  Hypothesis gcm_open_len : forall k n ct aad pt, gcm_open k n ct aad = Some pt -> (length pt + 16 = length ct)%nat.

  Lemma first_packet_shape : forall p pv fr, first_packet dh p pv = Ok fr ->
    length (f_rand fr) = 32%nat /\ length (f_ct fr) = 64%nat /\ length (f_shared fr) = 32%nat /\
    exists sh, dh pv (f_rand fr) = Some sh /\ f_shared fr = copy_into 32 sh.
  Proof. intros [data|h] pv fr H; cbn in H; [eapply tls_fragments_shape | eapply ws_fragments_shape]; eauto. Qed.

  Lemma first_packet_total : forall p pv, first_packet dh p pv <> Panic /\ first_packet dh p pv <> Err EFuel.
  Proof. intros [data|h] pv; cbn; [apply tls_first_packet_total | apply ws_first_packet_total]. Qed.

  (* THE credential: the sealed block of the packet opens, under X25519(static private, ephemeral value of
     the packet) with nonce = the first 12 bytes of that value, to a plaintext whose timestamp is strictly
     inside the window, and the ephemeral value has not been presented before *)
  Definition valid_cloak (p : packet) (st : server_state) (now : Z) (ci : client_info) : Prop :=
    exists fr sh pt,
      first_packet dh p (st_staticPv st) = Ok fr /\
      dh (st_staticPv st) (f_rand fr) = Some sh /\ f_shared fr = copy_into 32 sh /\
      mem_bytes (mask255 (f_rand fr)) (st_usedRandom st) = false /\
      gcm_open (f_shared fr) (firstn 12 (f_rand fr)) (f_ct fr) [] = Some pt /\ length pt = 48%nat /\
      in_window (pt_ts pt) now = true /\
      ci = info_of pt.

  Lemma decrypt_ok_iff : forall fr now ci, length (f_ct fr) = 64%nat ->
    decryptClientInfo gcm_open fr now = DOk ci <->
    exists pt, gcm_open (f_shared fr) (firstn 12 (f_rand fr)) (f_ct fr) [] = Some pt /\ length pt = 48%nat /\
               in_window (pt_ts pt) now = true /\ ci = info_of pt.
  Proof.
    intros fr now ci Hct. unfold decryptClientInfo.
    destruct (gcm_open (f_shared fr) (firstn 12 (f_rand fr)) (f_ct fr) []) as [pt|] eqn:G.
    2:{ split; [discriminate | intros (pt & E & _); discriminate]. }
    pose proof (gcm_open_len _ _ _ _ _ G) as Hlen. rewrite Hct in Hlen.
    assert (length pt = 48%nat) as L by lia.
    rewrite (psub_ok 0 16), (psub_ok 16 28), (pidx_ok 28), (pidx_ok 41), (psub_ok 29 37) by lia.
    cbn [bind].
    rewrite (psub_ok 37 41) by lia.
    change (firstn (16 - 0) (skipn 0 pt)) with (pt_uid pt).
    change (be_val (firstn (37 - 29) (skipn 29 pt))) with (pt_ts pt).
    destruct (in_window (pt_ts pt) now) eqn:W; cbn [negb].
    - split.
      + intros H. inversion H. exists pt. repeat split; auto.
      + intros (pt' & E & _ & _ & ->). inversion E; subst. reflexivity.
    - split; [discriminate|]. intros (pt' & E & _ & W' & _). inversion E; subst. congruence.
  Qed.

  Lemma decrypt_no_panic : forall fr now, length (f_ct fr) = 64%nat -> decryptClientInfo gcm_open fr now <> DPanic.
  Proof.
    intros fr now Hct. unfold decryptClientInfo.
    destruct (gcm_open (f_shared fr) (firstn 12 (f_rand fr)) (f_ct fr) []) as [pt|] eqn:G; [|discriminate].
    pose proof (gcm_open_len _ _ _ _ _ G) as Hlen. rewrite Hct in Hlen.
    rewrite (psub_ok 0 16), (psub_ok 16 28), (pidx_ok 28), (pidx_ok 41), (psub_ok 29 37) by lia.
    cbn [bind]. rewrite (psub_ok 37 41) by lia.
    destruct (negb _); discriminate.
  Qed.

  Lemma auth_ok_iff : forall p st now ci,
    auth_first_packet dh gcm_open p st now = DOk ci <-> valid_cloak p st now ci.
  Proof.
    intros p st now ci. unfold auth_first_packet, valid_cloak.
    destruct (first_packet dh p (st_staticPv st)) as [fr|e|] eqn:F.
    2:{ split; [discriminate | intros (? & ? & ? & E & _); discriminate]. }
    2:{ split; [discriminate | intros (? & ? & ? & E & _); discriminate]. }
    destruct (first_packet_shape _ _ _ F) as (Lr & Lc & Ls & sh & Edh & Esh).
    unfold register_random. cbn [fst].
    destruct (mem_bytes (mask255 (f_rand fr)) (st_usedRandom st)) eqn:U.
    - split; [discriminate|]. intros (fr' & ? & ? & E & _ & _ & U' & _). inversion E; subst. congruence.
    - rewrite decrypt_ok_iff by exact Lc. split.
      + intros (pt & G & L & W & E). exists fr, sh, pt. repeat split; auto.
      + intros (fr' & sh' & pt & E & _ & _ & _ & G & L & W & Eci). inversion E; subst. exists pt. auto.
  Qed.

  Lemma auth_no_panic : forall p st now, auth_first_packet dh gcm_open p st now <> DPanic.
  Proof.
    intros p st now. unfold auth_first_packet.
    destruct (first_packet_total p (st_staticPv st)) as [Hp _].
    destruct (first_packet dh p (st_staticPv st)) as [fr|e|] eqn:F; try discriminate; try congruence.
    destruct (fst _); [discriminate|].
    apply decrypt_no_panic. destruct (first_packet_shape _ _ _ F) as (_ & Lc & _). exact Lc.
  Qed.

  (* no index panic escapes: the decision is never Crash *)
  Lemma decide_no_crash : forall p st now, decide dh gcm_open p st now <> Crash.
  Proof.
    intros p st now. unfold decide.
    pose proof (auth_no_panic p st now) as Hp.
    destruct (auth_first_packet dh gcm_open p st now) as [ci|r|]; try discriminate; try congruence.
    destruct (negb _); [discriminate|]. destruct (is_admin st ci); [discriminate|].
    destruct (negb _); [discriminate|]. destruct (get_user st (ci_uid ci) now); [|discriminate].
    destruct (get_session st a (ci_sid ci) now); discriminate.
  Qed.

  (* -- who is authorised *)
  Definition admin_ok (st : server_state) (ci : client_info) : Prop :=
    st_adminUID st <> [] /\ ci_uid ci = st_adminUID st /\ ci_sid ci = 0.
  Definition user_active (st : server_state) (uid : list N) : Prop :=
    exists a, find_active uid (st_active st) = Some a.
  Definition db_authorises (st : server_state) (uid : list N) (now : Z) : Prop :=
    exists u, db_get uid (st_db st) = Some u /\
      (0 < u_upCredit u /\ 0 < u_downCredit u /\ now_unix now <= u_expiry u)%Z.

  Lemma is_admin_iff : forall st ci, is_admin st ci = true <-> admin_ok st ci.
  Proof.
    intros st ci. unfold is_admin, admin_ok. rewrite !andb_true_iff, negb_true_iff, bytes_eqb_iff, N.eqb_eq.
    rewrite Nat.eqb_neq. split.
    - intros [[H1 H2] H3]. repeat split; auto. intros E. rewrite E in H1. cbn in H1. lia.
    - intros (H1 & H2 & H3). repeat split; auto. destruct (st_adminUID st); cbn; [congruence | lia].
  Qed.

  Lemma authenticate_iff : forall st uid now, authenticate st uid now = true <-> db_authorises st uid now.
  Proof.
    intros st uid now. unfold authenticate, db_authorises.
    destruct (db_get uid (st_db st)) as [u|].
    - rewrite !andb_true_iff, !Z.ltb_lt, Z.leb_le. split.
      + intros [[A B] C]. exists u. auto.
      + intros (u' & E & A & B & C). inversion E; subst. auto.
    - split; [discriminate | intros (u & E & _); discriminate].
  Qed.

  Lemma get_user_some_iff : forall st uid now,
    (exists a, get_user st uid now = Some a) <->
    (user_active st uid \/ In uid (st_bypass st) \/ db_authorises st uid now).
  Proof.
    intros st uid now. unfold get_user, user_active.
    destruct (find_active uid (st_active st)) as [a|] eqn:Fa.
    - split; [intros _; left; eauto | intros _; eauto].
    - destruct (mem_bytes uid (st_bypass st)) eqn:Mb.
      + apply mem_bytes_iff in Mb. split; [intros _; right; left; exact Mb | intros _; eauto].
      + destruct (authenticate st uid now) eqn:Au.
        * apply authenticate_iff in Au. split; [intros _; right; right; exact Au | intros _; eauto].
        * split; [intros (a & E); discriminate|].
          intros [(a & E) | [Hb | Hd]]; [discriminate | | ].
          -- apply mem_bytes_iff in Hb. congruence.
          -- apply authenticate_iff in Hd. congruence.
  Qed.

  (* sessions: exactly the valid credentials of authorised users *)
  Lemma decide_admin_iff : forall p st now,
    decide dh gcm_open p st now = AdminSession <->
    exists ci, valid_cloak p st now ci /\ known_enc (ci_enc ci) = true /\ admin_ok st ci.
  Proof.
    intros p st now. unfold decide.
    destruct (auth_first_packet dh gcm_open p st now) as [ci|r|] eqn:A.
    - apply auth_ok_iff in A.
      assert (forall ci', valid_cloak p st now ci' -> ci' = ci) as Uniq.
      { intros ci' V. apply auth_ok_iff in V. apply auth_ok_iff in A. congruence. }
      destruct (known_enc (ci_enc ci)) eqn:K; cbn [negb].
      + destruct (is_admin st ci) eqn:Ad.
        * apply is_admin_iff in Ad. split; [intros _; exists ci; auto | reflexivity].
        * split.
          -- intros H. exfalso. destruct (negb _); [discriminate|].
             destruct (get_user st (ci_uid ci) now); [|discriminate].
             destruct (get_session st a (ci_sid ci) now); discriminate.
          -- intros (ci' & V & _ & Hadm). rewrite (Uniq _ V) in Hadm. apply is_admin_iff in Hadm. congruence.
      + split; [discriminate|]. intros (ci' & V & K' & _). rewrite (Uniq _ V) in K'. congruence.
    - split; [discriminate|]. intros (ci & V & _). apply auth_ok_iff in V. congruence.
    - split; [discriminate|]. intros (ci & V & _). apply auth_ok_iff in V. congruence.
  Qed.

  Lemma decide_proxy_iff : forall p st now uid sid m enc un,
    decide dh gcm_open p st now = ProxySession uid sid m enc un <->
    exists ci, valid_cloak p st now ci /\ known_enc (ci_enc ci) = true /\ ~ admin_ok st ci /\
      In (ci_method ci) (st_proxyBook st) /\
      (exists a, get_user st (ci_uid ci) now = Some a /\ get_session st a (ci_sid ci) now = true) /\
      uid = ci_uid ci /\ sid = ci_sid ci /\ m = ci_method ci /\ enc = ci_enc ci /\ un = ci_unordered ci.
  Proof.
    intros p st now uid sid m enc un. unfold decide.
    destruct (auth_first_packet dh gcm_open p st now) as [ci|r|] eqn:A.
    - apply auth_ok_iff in A.
      assert (forall ci', valid_cloak p st now ci' -> ci' = ci) as Uniq.
      { intros ci' V. apply auth_ok_iff in V. apply auth_ok_iff in A. congruence. }
      destruct (known_enc (ci_enc ci)) eqn:K; cbn [negb].
      2:{ split; [discriminate|]. intros (ci' & V & K' & _). rewrite (Uniq _ V) in K'. congruence. }
      destruct (is_admin st ci) eqn:Ad.
      { split; [discriminate|]. intros (ci' & V & _ & Hn & _). rewrite (Uniq _ V) in Hn.
        apply is_admin_iff in Ad. contradiction. }
      assert (~ admin_ok st ci) as Hnad. { intros H. apply is_admin_iff in H. congruence. }
      destruct (mem_bytes (ci_method ci) (st_proxyBook st)) eqn:Mb; cbn [negb].
      2:{ split; [discriminate|]. intros (ci' & V & _ & _ & Hin & _). rewrite (Uniq _ V) in Hin.
          apply mem_bytes_iff in Hin. congruence. }
      apply mem_bytes_iff in Mb.
      destruct (get_user st (ci_uid ci) now) as [a|] eqn:Gu.
      2:{ split; [discriminate|]. intros (ci' & V & _ & _ & _ & (a & E & _) & _). rewrite (Uniq _ V) in E. congruence. }
      destruct (get_session st a (ci_sid ci) now) eqn:Gs.
      + split.
        * intros H. inversion H; subst. exists ci. repeat split; auto. exists a. auto.
        * intros (ci' & V & _ & _ & _ & _ & -> & -> & -> & -> & ->). rewrite (Uniq _ V). reflexivity.
      + split; [discriminate|]. intros (ci' & V & _ & _ & _ & (a' & E & S) & _). rewrite (Uniq _ V) in E, S.
        rewrite Gu in E. inversion E; subst. congruence.
    - split; [discriminate|]. intros (ci & V & _). apply auth_ok_iff in V. congruence.
    - split; [discriminate|]. intros (ci & V & _). apply auth_ok_iff in V. congruence.
  Qed.

  (* everything else is ordinary web traffic (or, for an authorised user refused a new session, dropped) *)
  Lemma decide_else : forall p st now,
    ~ is_session (decide dh gcm_open p st now) ->
    (exists r, decide dh gcm_open p st now = Redirect r) \/ decide dh gcm_open p st now = DropConn.
  Proof.
    intros p st now H. pose proof (decide_no_crash p st now) as Hc.
    destruct (decide dh gcm_open p st now); cbn in H; try tauto; eauto; congruence.
  Qed.

  (* ---------------------------------------------------------------------------- the whole connection *)
  Variable http_hidden : list N -> option (list N).

  Lemma dispatch_no_server_byte : forall s e st now,
    let r := rfp s e in
    let o := dispatch_conn dh gcm_open http_hidden s e st now in
    (* the server originates bytes only towards sessions *)
    (server_writes o = true <->
       r_err r = RNone /\ is_session (decide dh gcm_open (packet_of http_hidden r) st now)) /\
    (* every rejection of a complete first packet hands the whole stream to the target *)
    (forall why, r_err r = RNone -> decide dh gcm_open (packet_of http_hidden r) st now = Redirect why ->
       o = OWeb (first_data r) (r_rest r) /\ first_data r ++ r_rest r = s) /\
    (* and so do the over-long / unrecognisable streams; a stream that ends early is closed *)
    (r_err r <> RNone -> (r_redir r = true -> o = OWeb (first_data r) (r_rest r) /\ first_data r ++ r_rest r = s)
                         /\ (r_redir r = false -> o = OClose)) /\
    o <> OCrash.
  Proof.
    intros s e st now r o. subst o. unfold dispatch_conn. fold r.
    pose proof (rfp_cases fps s e fps_ge_5) as (Hwf & _ & _). fold (rfp s e) in Hwf. fold r in Hwf.
    destruct (wf_first_data _ _ _ Hwf) as (_ & _ & _ & Hrelay & _). unfold relay in Hrelay.
    pose proof (decide_no_crash (packet_of http_hidden r) st now) as Hnc.
    assert (first_data r ++ r_rest r = s) as Hall by exact Hrelay.
    clear Hrelay Hwf.
    destruct (r_err r) eqn:Er;
      destruct (decide dh gcm_open (packet_of http_hidden r) st now) eqn:D;
      destruct (r_redir r) eqn:Rd; cbn [server_writes is_session];
      (split; [split; [intros H | intros [H1 H2]] | split; [intros why H1 H2 | split; [intros H1; split; intros H2 |]]]);
      try discriminate; try congruence; try tauto; auto.
  Qed.

  Lemma else_no_server_byte : forall s e st now,
    ~ is_session (decide dh gcm_open (packet_of http_hidden (rfp s e)) st now) ->
    server_writes (dispatch_conn dh gcm_open http_hidden s e st now) = false.
  Proof.
    intros s e st now H.
    destruct (dispatch_no_server_byte s e st now) as ((W & _) & _).
    destruct (server_writes (dispatch_conn dh gcm_open http_hidden s e st now)); auto.
    exfalso. apply H. apply W. reflexivity.
  Qed.
End Decide.

(* per connection at most one of {relayed to the redirect target, answered by the server itself}; which one is decided
   by readFirstPacket and the decision alone *)
Lemma one_outcome : forall dh gcm_open,
  (forall k n ct aad pt, gcm_open k n ct aad = Some pt -> (length pt + 16 = length ct)%nat) ->
  forall http_hidden s e st now,
  let r := rfp s e in
  let o := dispatch_conn dh gcm_open http_hidden s e st now in
  (relays o = true -> server_writes o = false) /\ (server_writes o = true -> relays o = false) /\
  (relays o = true <->
     (r_err r = RNone /\ exists why, decide dh gcm_open (packet_of http_hidden r) st now = Redirect why) \/
     (r_err r <> RNone /\ r_redir r = true)) /\
  (relays o = true -> o = OWeb (first_data r) (r_rest r) /\ first_data r ++ r_rest r = s).
Proof.
  intros dh gcm_open Hlen http_hidden s e st now r o.
  destruct (dispatch_no_server_byte dh gcm_open Hlen http_hidden s e st now) as ((W1 & W2) & Hred & Herr & Hnc).
  fold r in W1, W2, Hred, Herr. fold o in W1, W2, Hred, Herr, Hnc.
  assert (relays o = true <->
     (r_err r = RNone /\ exists why, decide dh gcm_open (packet_of http_hidden r) st now = Redirect why) \/
     (r_err r <> RNone /\ r_redir r = true)) as Hiff.
  { subst o. unfold dispatch_conn. fold r.
    destruct (r_err r) eqn:Er.
    1:{ destruct (decide dh gcm_open (packet_of http_hidden r) st now) eqn:D; cbn [relays]; split;
        try discriminate; try (intros _; left; split; [reflexivity | eexists; reflexivity]); try reflexivity;
        intros [[_ [why H]] | [H _]]; try discriminate; congruence. }
    all: destruct (r_redir r) eqn:Rd; cbn [relays]; split; try discriminate; try reflexivity;
      try (intros _; right; split; [discriminate | reflexivity]);
      intros [[H _] | [_ H]]; discriminate. }
  split; [|split; [|split]].
  - destruct o; cbn; auto; discriminate.
  - destruct o; cbn; auto; discriminate.
  - exact Hiff.
  - intros Hr. apply Hiff in Hr. destruct Hr as [[E [why D]] | [E Rd]].
    + exact (Hred why E D).
    + destruct (Herr E) as [H _]. exact (H Rd).
Qed.

Lemma unknown_method_is_web : forall dh gcm_open,
  (forall k n ct aad pt, gcm_open k n ct aad = Some pt -> (length pt + 16 = length ct)%nat) ->
  forall p st now ci,
  auth_first_packet dh gcm_open p st now = DOk ci -> known_enc (ci_enc ci) = true -> is_admin st ci = false ->
  ~ In (ci_method ci) (st_proxyBook st) ->
  decide dh gcm_open p st now = Redirect RMethod.
Proof.
  intros dh gcm_open _ p st now ci A K Ad Hn. unfold decide. rewrite A, K, Ad. cbn [negb].
  destruct (mem_bytes (ci_method ci) (st_proxyBook st)) eqn:Mb; [|reflexivity].
  apply mem_bytes_iff in Mb. contradiction.
Qed.

(* what the relay hands to either side is only ever the other side's bytes *)
Lemma goweb_bytes : forall data rest e d t,
  let w := goweb data rest e d t in
  (w_peer w = [] \/ w_peer w = t_reply t) /\ (w_target w = [] \/ w_target w = data ++ rest) /\
  (d <> DialOk -> w_peer_closed w = true /\ w_peer w = [] /\ w_target w = []).
Proof.
  intros data rest e d t. destruct d; cbn; repeat split; auto; try congruence.
  destruct (t_after t <=? length (data ++ rest))%nat; auto.
Qed.

(* ------------------------------------------------------------------ the hypotheses are satisfiable *)
Definition toy_dh (pv pub : list N) : option (list N) := Some (repeat 1 32).
Definition toy_gcm (k n ct aad : list N) : option (list N) :=
  if (16 <=? length ct)%nat then Some (firstn (length ct - 16) ct) else None.
Lemma toy_gcm_len : forall k n ct aad pt, toy_gcm k n ct aad = Some pt -> (length pt + 16 = length ct)%nat.
Proof.
  intros k n ct aad pt H. unfold toy_gcm in H. destruct (16 <=? length ct)%nat eqn:E; [|discriminate].
  apply Nat.leb_le in E. inversion H. rewrite firstn_length. lia.
Qed.
(* UID aa..aa, method "ss", AES-256-GCM, timestamp 1700000000, session id 5, ordered *)
Definition ex_pt : list N :=
  repeat 0xaa 16 ++ [115; 115] ++ repeat 0 10 ++ [1] ++ [0; 0; 0; 0; 0x65; 0x53; 0xF1; 0x00] ++ [0; 0; 0; 5] ++ [0] ++ repeat 0 6.
Definition ex_packet : packet := PWS (Some (repeat 7 32 ++ ex_pt ++ repeat 0 16)).
Definition ex_state : server_state :=
  mkSt (repeat 3 32) (repeat 0xbb 16) [repeat 0xaa 16] [[115; 115]] [] [] [].
Definition ex_now : Z := 1700000000 * 1000000000 + 5.
Example ex_session :
  decide toy_dh toy_gcm ex_packet ex_state ex_now = ProxySession (repeat 0xaa 16) 5 [115; 115] 1 false.
Proof. vm_compute. reflexivity. Qed.
Example ex_valid_cloak : valid_cloak toy_dh toy_gcm ex_packet ex_state ex_now (info_of ex_pt).
Proof. apply (auth_ok_iff toy_dh toy_gcm toy_gcm_len). vm_compute. reflexivity. Qed.
Example ex_late_is_web :
  decide toy_dh toy_gcm ex_packet ex_state (ex_now + 180 * 1000000000) = Redirect RWindow.
Proof. vm_compute. reflexivity. Qed.
