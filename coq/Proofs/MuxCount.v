(* C12, counting clause: at every quiescent moment of a live session the count of active streams
   equals the number of open streams.  The invariant CI is preserved by every building block of
   Model/Mux.v, hence by every label and every run. *)
From Coq Require Import NArith ZArith List Bool Lia.
From Coq Require Import ZifyN ZifyBool ZifyNat.
From Cloak Require Import Model.Reorder Model.Mux Proofs.MuxBase Proofs.MuxSafety.
Import ListNotations.
Local Open Scope N_scope.

(* ---- association lists ---- *)
Definition keys {A} (t : list (N * A)) : list N := map fst t.
Definition ntrue (t : list (N * bool)) : nat := length (filter (fun e : N * bool => snd e) t).

Lemma keys_update {A} id (v : A) t k : In k (keys (update id v t)) <-> k = id \/ In k (keys t).
Proof.
  induction t as [|[k' v'] t IH]; cbn; [intuition congruence|].
  destruct (id =? k') eqn:E; cbn.
  - assert (id = k') by lia; subst. intuition congruence.
  - rewrite IH. intuition congruence.
Qed.
Lemma update_update {A} k (v1 v2 : A) l : update k v2 (update k v1 l) = update k v2 l.
Proof.
  induction l as [|[k' v'] t IH]; cbn; [now rewrite N.eqb_refl|].
  destruct (k =? k') eqn:E; cbn; [now rewrite N.eqb_refl|]. now rewrite E, IH.
Qed.
Lemma keys_lookup {A} k (t : list (N * A)) : In k (keys t) <-> lookup k t <> None.
Proof.
  induction t as [|[k' v'] t IH]; cbn; [tauto|].
  destruct (k =? k') eqn:E.
  - assert (k = k') by lia; subst. split; [discriminate|auto].
  - rewrite <- IH. split; [intros [H|H]; [lia|exact H]|auto].
Qed.
Lemma nodup_update {A} id (v : A) t : NoDup (keys t) -> NoDup (keys (update id v t)).
Proof.
  induction t as [|[k' v'] t IH]; cbn; intros H.
  - constructor; [intros []|constructor].
  - inversion H as [|? ? Hn Hd]; subst. destruct (id =? k') eqn:E; cbn.
    + assert (id = k') by lia; subst. constructor; assumption.
    + constructor; [|apply IH; exact Hd]. intros Hin. apply (proj1 (keys_update id v t k')) in Hin.
      destruct Hin as [->|Hin]; [lia|contradiction].
Qed.
Lemma ntrue_update id v t :
  (ntrue (update id v t) + (match lookup id t with Some true => 1 | _ => 0 end) =
   ntrue t + (if v then 1 else 0))%nat.
Proof.
  unfold ntrue. induction t as [|[k' v'] t IH]; cbn.
  - destruct v; reflexivity.
  - destruct (id =? k') eqn:E; cbn.
    + destruct v, v'; cbn; lia.
    + destruct v'; cbn; lia.
Qed.
Lemma In_lookup_nodup {A} k (v : A) t : NoDup (keys t) -> In (k, v) t -> lookup k t = Some v.
Proof.
  induction t as [|[k' v'] t IH]; cbn; intros Hd [].
  - injection H as -> ->. now rewrite N.eqb_refl.
  - inversion Hd as [|? ? Hn Hd']; subst. destruct (k =? k') eqn:E.
    + assert (k = k') by lia; subst. exfalso. apply Hn. change (In (fst (k', v)) (map fst t)). now apply in_map.
    + auto.
Qed.

(* ---- 32-bit counter arithmetic ---- *)
Lemma incr32_spec c n : c = N.of_nat n mod two32 -> incr32 c = N.of_nat (S n) mod two32.
Proof. intros ->. unfold incr32, two32. rewrite Nat2N.inj_succ, <- N.add_1_r. now rewrite N.add_mod_idemp_l. Qed.
Lemma decr32_spec c n : c = N.of_nat (S n) mod two32 -> decr32 c = N.of_nat n mod two32.
Proof.
  intros ->. unfold decr32, two32. rewrite N.add_mod_idemp_l by discriminate.
  rewrite Nat2N.inj_succ, <- N.add_1_r.
  replace (N.of_nat n + 1 + (4294967296 - 1)) with (N.of_nat n + 1 * 4294967296) by lia.
  now rewrite N.mod_add.
Qed.

(* ---- the invariant ---- *)
Definition CI (se : session) : Prop :=
  se_closed se = false ->
  NoDup (keys (se_tab se)) /\
  se_count se = N.of_nat (ntrue (se_tab se)) mod two32 /\
  (forall id, lookup id (se_tab se) = Some true ->
              exists st, lookup id (se_objs se) = Some st /\ st_closed st = false) /\
  (forall id, lookup id (se_tab se) <> None -> lookup id (se_objs se) <> None).

Lemma CI_closed se : se_closed se = true -> CI se.
Proof. intros H Hc. congruence. Qed.

Lemma CI_same se se' :
  se_closed se' = se_closed se -> se_tab se' = se_tab se -> se_objs se' = se_objs se ->
  se_count se' = se_count se -> CI se -> CI se'.
Proof. unfold CI. intros -> -> -> ->. auto. Qed.

(* an object is replaced by one with the same closed flag *)
Lemma CI_obj se se' id st st' :
  se_closed se' = se_closed se -> se_tab se' = se_tab se -> se_count se' = se_count se ->
  se_objs se' = update id st' (se_objs se) ->
  lookup id (se_objs se) = Some st -> st_closed st' = st_closed st -> CI se -> CI se'.
Proof.
  unfold CI. intros -> -> -> -> El Ec H Hop. destruct (H Hop) as (H1 & H2 & H3 & H4).
  split; [exact H1|split; [exact H2|split]].
  - intros i Hi. rewrite lookup_update. destruct (i =? id) eqn:E.
    + assert (i = id) by lia; subst. destruct (H3 _ Hi) as (st0 & E0 & C0). exists st'. split; [reflexivity|congruence].
    + apply H3; exact Hi.
  - intros i Hi. rewrite lookup_update. destruct (i =? id); [discriminate|auto].
Qed.

(* a new stream *)
Lemma CI_add se se' id :
  se_closed se' = se_closed se -> se_tab se' = update id true (se_tab se) ->
  se_objs se' = update id new_stream (se_objs se) -> se_count se' = incr32 (se_count se) ->
  lookup id (se_tab se) = None -> CI se -> CI se'.
Proof.
  unfold CI. intros -> -> -> -> En H Hop. destruct (H Hop) as (H1 & H2 & H3 & H4).
  split; [apply nodup_update; exact H1|split; [|split]].
  - pose proof (ntrue_update id true (se_tab se)) as Hn. rewrite En in Hn.
    replace (ntrue (update id true (se_tab se))) with (S (ntrue (se_tab se))) by lia.
    apply incr32_spec. exact H2.
  - intros i Hi. rewrite lookup_update in Hi. rewrite lookup_update. destruct (i =? id); [exists new_stream; split; reflexivity|apply H3; exact Hi].
  - intros i Hi. rewrite lookup_update in Hi. rewrite lookup_update. destruct (i =? id); [discriminate|auto].
Qed.

(* an open stream is closed and forgotten *)
Lemma CI_close se se' id st' :
  se_closed se' = se_closed se -> se_tab se' = update id false (se_tab se) ->
  se_objs se' = update id st' (se_objs se) -> se_count se' = decr32 (se_count se) ->
  lookup id (se_tab se) = Some true -> CI se -> CI se'.
Proof.
  unfold CI. intros -> -> -> -> Et H Hop. destruct (H Hop) as (H1 & H2 & H3 & H4).
  split; [apply nodup_update; exact H1|split; [|split]].
  - pose proof (ntrue_update id false (se_tab se)) as Hn. rewrite Et in Hn.
    apply decr32_spec. replace (S (ntrue (update id false (se_tab se)))) with (ntrue (se_tab se)) by lia. exact H2.
  - intros i Hi. rewrite lookup_update in Hi. rewrite lookup_update. destruct (i =? id); [discriminate|apply H3; exact Hi].
  - intros i Hi. rewrite lookup_update in Hi. rewrite lookup_update. destruct (i =? id); [discriminate|apply H4; exact Hi].
Qed.

Definition CIs (y : sys) : Prop := forall x, CI (sess y x).

Lemma side_cases x s : x = s \/ x = other s. Proof. destruct x, s; auto. Qed.

Lemma CIs_set_sess y s se : CIs y -> CI se -> CIs (set_sess y s se).
Proof. intros H Hse x. rewrite sess_set. destruct (side_eqb s x); auto. Qed.
Lemma CIs_local y y' s :
  CIs y -> CI (sess y' s) -> sess y' (other s) = sess y (other s) -> CIs y'.
Proof. intros H Hs Ho x. destruct (side_cases x s) as [->| ->]; [exact Hs|rewrite Ho; apply H]. Qed.

(* ---- teardown: the session ends up closed, the other side is untouched ---- *)
Lemma passive_close_CIs y s y' evs : passive_close y s = (y', evs) -> CIs y -> CIs y'.
Proof.
  intros H Hc. eapply CIs_local; [exact Hc| |eapply passive_close_other; eauto].
  apply CI_closed. eapply passive_close_closed; eauto.
Qed.
Lemma deplex_error_CIs y s c y' evs : deplex_error y s c = (y', evs) -> CIs y -> CIs y'.
Proof.
  intros H Hc. eapply CIs_local; [exact Hc| |eapply deplex_error_other; eauto].
  apply CI_closed. eapply deplex_error_closed; eauto.
Qed.

Lemma close_session_core_closed se se' ok : close_session_core se = (se', ok) -> se_closed se' = true \/ se' = se.
Proof.
  unfold close_session_core. destruct (se_closed se) eqn:E; [intros H; injection H as <- <-; auto|].
  destruct (sweep _ _ _) as [[t o] c]. intros H; injection H as <- <-. left. reflexivity.
Qed.

Lemma close_all_CIs y s y' evs : close_all y s = (y', evs) -> CIs y -> CIs y'.
Proof.
  unfold close_all. intros H Hc. destruct (se_broken (sess y s)); [injection H as <- <-; exact Hc|].
  destruct (close_ends _ _ _) as [cs e]. injection H as <- <-. intros x. rewrite sess_set_conns.
  apply CIs_set_sess; [exact Hc|]. exact (Hc s).
Qed.

Lemma sb_send_CIs y s fr p y' evs rc : sb_send y s fr p = (y', evs, rc) -> CIs y -> CIs y'.
Proof.
  unfold sb_send. intros H Hc.
  destruct (se_broken (sess y s)); [injection H as <- <- <-; exact Hc|].
  destruct (se_pool (sess y s)); [injection H as <- <- <-; exact Hc|].
  destruct (nthN _ _) as [cn|]; [|injection H as <- <- <-; exact Hc].
  destruct (_ || _).
  - destruct (passive_close y s) as [y1 e1] eqn:Epc. injection H as <- <- <-. eapply passive_close_CIs; eauto.
  - injection H as <- <- <-. intros x. rewrite sess_set_conns. apply Hc.
Qed.

Lemma session_close_CIs y s ch y' ch' evs rc : session_close y s ch = (y', ch', evs, rc) -> CIs y -> CIs y'.
Proof.
  unfold session_close. intros H Hc. destruct (close_session_core (sess y s)) as [se ok] eqn:Ecs.
  destruct ok; cbn [negb] in H; [|injection H as <- <- <- <-; exact Hc].
  assert (Hc1 : CIs (set_sess y s se)).
  { apply CIs_set_sess; [exact Hc|]. destruct (close_session_core_closed _ _ _ Ecs) as [Hcl| ->]; [now apply CI_closed|apply Hc]. }
  destruct (hd_pick ch) as [c ch0].
  destruct (sb_send (set_sess y s se) s _ c) as [[y2 e2] rc2] eqn:Es.
  pose proof (sb_send_CIs _ _ _ _ _ _ _ Es Hc1) as Hc2.
  destruct (close_all y2 s) as [y3 e3] eqn:Eca. pose proof (close_all_CIs _ _ _ _ Eca Hc2) as Hc3.
  destruct (rc2 =? 0); [|destruct (rc2 =? 1)]; injection H as <- <- <- <-; exact Hc3.
Qed.

(* ---- sending a frame of a stream ---- *)
(* either the frame went out and only the sequence number of that stream moved, or the session is closed *)
Lemma stream_emit_sess y s sid pay ch y' ch' evs ok :
  stream_emit y s sid pay ch = (y', ch', evs, ok) ->
  sess y' (other s) = sess y (other s) /\
  match lookup sid (se_objs (sess y s)) with
  | None => y' = y /\ ok = false
  | Some st =>
      if ok then sess y' s = upd_objs (sess y s) (update sid (mkS (st_seq st + 1) (st_wcl st) (st_closed st) (st_rb st)) (se_objs (sess y s)))
      else se_closed (sess y' s) = true
  end.
Proof.
  unfold stream_emit. intros H.
  destruct (lookup sid (se_objs (sess y s))) as [st|] eqn:El; [|injection H as <- <- <- <-; auto].
  cbv zeta in H. destruct (hd_pick ch) as [c ch0].
  set (y1 := set_sess y s _) in H.
  destruct (sb_send y1 s _ c) as [[y2 e2] rc] eqn:Es.
  pose proof (sb_send_other _ _ _ _ _ _ _ Es) as Ho. unfold y1 in Ho. rewrite sess_set_other in Ho.
  unfold sb_send in Es.
  destruct (rc =? 0) eqn:E0.
  - injection H as <- <- <- <-. split; [exact Ho|].
    destruct (se_broken (sess y1 s)); [injection Es as _ _ <-; discriminate|].
    destruct (se_pool (sess y1 s)); [injection Es as _ _ <-; discriminate|].
    destruct (nthN _ _); [|injection Es as _ _ <-; discriminate].
    destruct (_ || _).
    + destruct (passive_close y1 s) as [y4 e4]. injection Es as _ _ <-. discriminate.
    + injection Es as <- _ _. rewrite sess_set_conns. unfold y1. now rewrite sess_set_same.
  - destruct (rc =? 1) eqn:E1.
    + destruct (passive_close y2 s) as [y3 e3] eqn:Epc. injection H as <- <- <- <-.
      split; [|eapply passive_close_closed; eauto].
      apply passive_close_other in Epc. congruence.
    + injection H as <- <- <- <-. split; [exact Ho|].
      destruct (se_broken (sess y1 s)); [injection Es as _ _ <-; discriminate|].
      destruct (se_pool (sess y1 s)); [injection Es as _ _ <-; discriminate|].
      destruct (nthN _ _); [|injection Es as _ _ <-; discriminate].
      destruct (_ || _).
      * destruct (passive_close y1 s) as [y4 e4] eqn:Epc. injection Es as <- _ _. eapply passive_close_closed; eauto.
      * injection Es as _ _ <-. discriminate.
Qed.

Lemma stream_emit_CIs y s sid pay ch y' ch' evs ok : stream_emit y s sid pay ch = (y', ch', evs, ok) -> CIs y -> CIs y'.
Proof.
  intros H Hc. destruct (stream_emit_sess _ _ _ _ _ _ _ _ _ H) as [Ho Hs].
  eapply CIs_local; [exact Hc| |exact Ho].
  destruct (lookup sid (se_objs (sess y s))) as [st|] eqn:El; [|destruct Hs as [-> _]; apply Hc].
  destruct ok; [|now apply CI_closed].
  rewrite Hs. apply (CI_obj (sess y s) _ sid st (mkS (st_seq st + 1) (st_wcl st) (st_closed st) (st_rb st))); try reflexivity; [exact El|apply Hc].
Qed.

Lemma write_loop_CIs fuel : forall y s sid data n ch y' ch' evs n' rc,
  write_loop fuel y s sid data n ch = (y', ch', evs, n', rc) -> CIs y -> CIs y'.
Proof.
  induction fuel as [|fuel IH]; intros y s sid data n ch y' ch' evs n' rc H Hc; cbn in H.
  - injection H as <- <- <- <- <-. exact Hc.
  - destruct data as [|b data']; [injection H as <- <- <- <- <-; exact Hc|].
    destruct (stream_emit y s sid _ ch) as [[[y1 ch1] evs1] ok] eqn:Ee.
    pose proof (stream_emit_CIs _ _ _ _ _ _ _ _ _ Ee Hc) as Hc1.
    destruct ok.
    + destruct (write_loop fuel y1 s sid _ _ ch1) as [[[[y2 ch2] evs2] n2] rc2] eqn:Ew. injection H as <- <- <- <- <-.
      eapply IH; eauto.
    + injection H as <- <- <- <- <-. exact Hc1.
Qed.
Lemma stream_write_CIs y s sid data ch y' evs : stream_write y s sid data ch = (y', evs) -> CIs y -> CIs y'.
Proof.
  unfold stream_write. intros H Hc. destruct (lookup _ _) as [st|]; [|injection H as <- <-; exact Hc].
  destruct (st_closed st); [injection H as <- <-; exact Hc|].
  destruct (write_loop _ y s sid data 0 ch) as [[[[y1 ch1] evs1] n] rc] eqn:Ew. injection H as <- <-.
  eapply write_loop_CIs; eauto.
Qed.

(* ---- closing a stream ---- *)
Lemma close_stream_CIs y s sid active ch y' ch' evs rc :
  close_stream y s sid active ch = (y', ch', evs, rc) -> WF y -> CIs y -> CIs y'.
Proof.
  unfold close_stream. intros H Hwf Hc.
  destruct (lookup sid (se_objs (sess y s))) as [st|] eqn:El; [|injection H as <- <- <- <-; exact Hc].
  destruct (st_closed st) eqn:Ecl; [injection H as <- <- <- <-; exact Hc|].
  cbv zeta in H.
  set (st1 := mkS _ _ true _) in H. set (y1 := set_sess y s _) in H.
  assert (Ho1 : sess y1 (other s) = sess y (other s)) by (unfold y1; apply sess_set_other).
  assert (Hs1 : sess y1 s = upd_objs (sess y s) (update sid st1 (se_objs (sess y s)))) by (unfold y1; apply sess_set_same).
  (* after the optional closing frame: session s has the closed object, everything else as before *)
  destruct (if active then stream_emit y1 s sid [] ch else (y1, ch, [], true)) as [[[y2 ch2] evs2] ok] eqn:Ee.
  assert (He : sess y2 (other s) = sess y (other s) /\
               if ok then exists st2, sess y2 s = upd_objs (sess y s) (update sid st2 (se_objs (sess y s)))
               else se_closed (sess y2 s) = true).
  { destruct active.
    - destruct (stream_emit_sess _ _ _ _ _ _ _ _ _ Ee) as [Ho Hs]. split; [congruence|].
      rewrite Hs1 in Hs. cbn [se_objs upd_objs] in Hs. rewrite lookup_update_eq in Hs.
      destruct ok; [|exact Hs]. eexists. rewrite Hs. cbn [upd_objs se_objs].
      rewrite update_update. reflexivity.
    - injection Ee as <- <- <- <-. split; [exact Ho1|]. exists st1. exact Hs1. }
  destruct He as [Ho2 Hs2].
  destruct ok; cbn [negb] in H.
  2:{ injection H as <- <- <- <-. apply (CIs_local y y2 s Hc); [apply CI_closed; exact Hs2|exact Ho2]. }
  destruct Hs2 as [st2 Hs2].
  set (se' := upd_count _ _) in H.
  assert (Hci : CI se').
  { destruct (se_closed (sess y s)) eqn:Esc.
    - apply CI_closed. unfold se'. cbn. rewrite Hs2. exact Esc.
    - destruct (WF_sess y s Hwf) as (Hobj & _). destruct (Hobj _ _ El) as (_ & Ht & _).
      eapply (CI_close (sess y s) se' sid st2); unfold se'; cbn; rewrite ?Hs2; try reflexivity; [auto|apply Hc]. }
  assert (Hc3 : CIs (set_sess y2 s se')).
  { intros x. rewrite sess_set. destruct (side_cases x s) as [->| ->].
    - now rewrite side_eqb_refl.
    - destruct (side_eqb s (other s)) eqn:E; [destruct s; discriminate|]. rewrite Ho2. apply Hc. }
  destruct (_ =? 0).
  - destruct (se_singleplex se').
    + destruct (session_close _ s ch2) as [[[y4 ch4] evs4] rc4] eqn:Esc. injection H as <- <- <- <-.
      eapply session_close_CIs; eauto.
    + injection H as <- <- <- <-. apply CIs_set_sess; [exact Hc3|].
      exact Hci.
  - injection H as <- <- <- <-. exact Hc3.
Qed.

(* ---- receiving ---- *)
Lemma store_rb_CIs y0 s sid st rb' :
  CIs y0 -> lookup sid (se_objs (sess y0 s)) = Some st ->
  CIs (set_sess y0 s (upd_objs (sess y0 s) (update sid (st_set_rb st rb') (se_objs (sess y0 s))))).
Proof.
  intros Hc El. apply CIs_set_sess; [exact Hc|].
  apply (CI_obj (sess y0 s) _ sid st (st_set_rb st rb')); try reflexivity; [exact El|apply Hc].
Qed.

Lemma recv_frame_CIs y s fr ch y' ch' evs :
  recv_frame y s fr ch = (y', ch', evs) -> WF y -> CIs y -> CIs y'.
Proof.
  unfold recv_frame. intros H Hwf Hc.
  destruct (w_cl fr =? 2).
  { destruct (passive_close y s) as [y1 e1] eqn:Epc. injection H as <- <- <-. eapply passive_close_CIs; eauto. }
  destruct (se_closed (sess y s)) eqn:Ecl; [injection H as <- <- <-; exact Hc|].
  assert (Hdel : forall y0, WF y0 -> CIs y0 ->
     forall r, match lookup (w_sid fr) (se_objs (sess y0 s)) with
               | None => (y0, ch, [])
               | Some st =>
                   let '(rb', tbc, _) := rb_write (st_rb st) (mkF (w_seq fr) (negb (w_cl fr =? 0)) (w_pay fr)) in
                   let y1 := set_sess y0 s (upd_objs (sess y0 s) (update (w_sid fr) (st_set_rb st rb') (se_objs (sess y0 s)))) in
                   if tbc then let '(y2, ch2, evs2, _) := close_stream y1 s (w_sid fr) false ch in (y2, ch2, evs2)
                   else (y1, ch, [])
               end = r -> CIs (fst (fst r))).
  { intros y0 Hwf0 Hc0 r Hr.
    destruct (lookup (w_sid fr) (se_objs (sess y0 s))) as [st|] eqn:El; [|subst r; exact Hc0].
    pose proof (rb_write_pclosed (st_rb st) (mkF (w_seq fr) (negb (w_cl fr =? 0)) (w_pay fr))) as Hpc.
    destruct (rb_write (st_rb st) _) as [[rb' tbc] er]. cbn in Hpc.
    pose proof (WF_store_rb y0 s (w_sid fr) st rb' Hwf0 El Hpc) as Hwf1.
    pose proof (store_rb_CIs y0 s (w_sid fr) st rb' Hc0 El) as Hc1.
    cbv zeta in Hr. destruct tbc.
    - destruct (close_stream _ s (w_sid fr) false ch) as [[[y2 ch2] evs2] rc] eqn:Ecs. subst r. cbn.
      eapply close_stream_CIs; [exact Ecs|exact Hwf1|exact Hc1].
    - subst r. exact Hc1. }
  destruct (lookup (w_sid fr) (se_tab (sess y s))) as [[|]|] eqn:Et.
  - specialize (Hdel y Hwf Hc _ H). exact Hdel.
  - injection H as <- <- <-. exact Hc.
  - set (se' := upd_count _ _) in H.
    assert (Hwf' : WF (set_sess y s se')).
    { apply WF_set_sess; [exact Hwf| | |].
      - unfold se'. apply WFse_count, WFse_acceptq.
        apply WFse_add_stream; [apply WF_sess; exact Hwf|reflexivity|rewrite Ecl; discriminate].
      - unfold se'. destruct (sess y s); reflexivity.
      - unfold se'. destruct (sess y s); cbn; auto. }
    assert (Hc' : CIs (set_sess y s se')).
    { apply CIs_set_sess; [exact Hc|]. apply (CI_add (sess y s) se' (w_sid fr)); try reflexivity; [exact Et|apply Hc]. }
    specialize (Hdel _ Hwf' Hc' _ H). exact Hdel.
Qed.

(* ---- application calls ---- *)
Definition fresh_open (y : sys) (l : label) : Prop :=
  forall x, l = LOpen x -> lookup (se_nextsid (sess y x)) (se_objs (sess y x)) = None.

Lemma open_stream_CIs y s y' evs :
  open_stream y s = (y', evs) -> lookup (se_nextsid (sess y s)) (se_objs (sess y s)) = None -> CIs y -> CIs y'.
Proof.
  unfold open_stream. intros H Hf Hc.
  destruct (se_closed (sess y s)) eqn:Ecl; [injection H as <- <-; exact Hc|].
  destruct (_ && _); injection H as <- <-; (apply CIs_set_sess; [exact Hc|]).
  - exact (Hc s).
  - apply (CI_add (sess y s) _ (se_nextsid (sess y s))); try reflexivity; [|apply Hc].
    destruct (Hc s Ecl) as (_ & _ & _ & H4).
    destruct (lookup (se_nextsid (sess y s)) (se_tab (sess y s))) eqn:E; [|reflexivity].
    exfalso. apply (H4 (se_nextsid (sess y s))); [rewrite E; discriminate|exact Hf].
Qed.

Lemma try_read_CIs y s sid k y' rc d : try_read y s sid k = Some (y', rc, d) -> CIs y -> CIs y'.
Proof.
  unfold try_read. intros H Hc. destruct (lookup sid (se_objs (sess y s))) as [st|] eqn:El; [|injection H as <- _ _; exact Hc].
  destruct k as [|k]; [injection H as <- _ _; exact Hc|].
  destruct (rb_read (st_rb st) (S k)) as [rb' [dd| |]]; try discriminate; injection H as <- _ _; [|exact Hc].
  apply store_rb_CIs; assumption.
Qed.
Lemma try_accept_CIs y s y' rc id : try_accept y s = Some (y', rc, id) -> CIs y -> CIs y'.
Proof.
  unfold try_accept. intros H Hc. destruct (se_acceptq (sess y s)) as [|i q].
  - destruct (se_closed (sess y s)); [injection H as <- _ _; exact Hc|discriminate].
  - injection H as <- _ _. apply CIs_set_sess; [exact Hc|exact (Hc s)].
Qed.
Lemma resolve_CIs ps : forall y y' ps' evs, resolve ps y = (y', ps', evs) -> CIs y -> CIs y'.
Proof.
  induction ps as [|p t IH]; intros y y' ps' evs H Hc; cbn in H; [injection H as <- _ _; exact Hc|].
  destruct p as [x sid n|x].
  - destruct (try_read y x sid n) as [[[y1 rc] d]|] eqn:Et.
    + destruct (resolve t y1) as [[y2 ps2] evs2] eqn:Er. injection H as <- _ _. eapply IH; [exact Er|]. eapply try_read_CIs; eauto.
    + destruct (resolve t y) as [[y2 ps2] evs2] eqn:Er. injection H as <- _ _. eapply IH; eauto.
  - destruct (try_accept y x) as [[[y1 rc] id]|] eqn:Et.
    + destruct (resolve t y1) as [[y2 ps2] evs2] eqn:Er. injection H as <- _ _. eapply IH; [exact Er|]. eapply try_accept_CIs; eauto.
    + destruct (resolve t y) as [[y2 ps2] evs2] eqn:Er. injection H as <- _ _. eapply IH; eauto.
Qed.

Lemma fire_timers_CIs fuel : forall y s ch y' ch' evs, fire_timers fuel y s ch = (y', ch', evs) -> CIs y -> CIs y'.
Proof.
  induction fuel as [|fuel IH]; intros y s ch y' ch' evs H Hc; cbn in H.
  - injection H as <- <- <-. exact Hc.
  - destruct (se_timers (sess y s)) as [|t rest]; [injection H as <- <- <-; exact Hc|].
    destruct (t <=? sy_now y)%Z; [|injection H as <- <- <-; exact Hc].
    assert (Hc1 : CIs (set_sess y s (upd_timers (sess y s) rest))) by (apply CIs_set_sess; [exact Hc|exact (Hc s)]).
    destruct (_ && _).
    + destruct (session_close _ s ch) as [[[y2 ch2] evs2] rc2] eqn:Esc.
      destruct (fire_timers fuel y2 s ch2) as [[y3 ch3] evs3] eqn:Ef. injection H as <- <- <-.
      eapply IH; [exact Ef|]. eapply session_close_CIs; eauto.
    + eapply IH; eauto.
Qed.

Lemma CIs_set_conns y cs : CIs y -> CIs (set_conns y cs).
Proof. intros H x. rewrite sess_set_conns. apply H. Qed.
Lemma CIs_set_pend y p : CIs y -> CIs (set_pend y p).
Proof. intros H x. rewrite sess_set_pend. apply H. Qed.
Lemma CIs_set_now y t : CIs y -> CIs (set_now y t).
Proof. intros H x. rewrite sess_set_now. apply H. Qed.

Lemma step_core_CIs y l ch y' evs :
  step_core y l ch = (y', evs) -> WF y -> fresh_open y l -> CIs y -> CIs y'.
Proof.
  intros H Hwf Hf Hc. destruct l as [x|x sid data|x sid n|x|x sid|x|x c|c|d|c|x c].
  - rewrite step_core_open in H. eapply open_stream_CIs; eauto.
  - rewrite step_core_write in H. eapply stream_write_CIs; eauto.
  - rewrite step_core_read in H. destruct (has_pending_read _ _ _); [injection H as <- _; exact Hc|].
    destruct (try_read y x sid n) as [[[y1 rc] dd]|] eqn:Et; injection H as <- _; [eapply try_read_CIs; eauto|now apply CIs_set_pend].
  - rewrite step_core_accept in H. destruct (se_closed _); [injection H as <- _; exact Hc|].
    destruct (try_accept y x) as [[[y1 rc] id]|] eqn:Et; [injection H as <- _; eapply try_accept_CIs; eauto|].
    destruct (has_pending_accept _ _); injection H as <- _; [exact Hc|now apply CIs_set_pend].
  - rewrite step_core_close_stream in H. destruct (close_stream y x sid true ch) as [[[y1 ch1] evs1] rc] eqn:Ec.
    injection H as <- _. eapply close_stream_CIs; eauto.
  - rewrite step_core_close_session in H. destruct (session_close y x ch) as [[[y1 ch1] evs1] rc] eqn:Ec.
    injection H as <- _. eapply session_close_CIs; eauto.
  - rewrite step_core_deliver in H. destruct (nthN (N.to_nat c) (sy_conns y)) as [cn|] eqn:En; [|injection H as <- _; exact Hc].
    destruct (_ || _); [injection H as <- _; exact Hc|].
    destruct (conn_q cn x) as [|fr q] eqn:Eq.
    + destruct (conn_closed_end cn (other x)); [|injection H as <- _; exact Hc].
      destruct (deplex_error y x c) as [y1 e1] eqn:Ed. injection H as <- _. eapply deplex_error_CIs; eauto.
    + destruct (recv_frame _ x fr ch) as [[y2 ch2] evs2] eqn:Er. injection H as <- _.
      eapply recv_frame_CIs; [exact Er| |now apply CIs_set_conns].
      apply WF_set_conns; [exact Hwf|].
      destruct (conn_set_q_flags cn x q) as (Ha & Hb & _).
      eapply conns_mono_setN; [exact En|rewrite Ha; auto|rewrite Hb; auto].
  - rewrite step_core_fail in H. destruct (nthN (N.to_nat c) (sy_conns y)) as [cn|] eqn:En; [|injection H as <- _; exact Hc].
    cbv zeta in H. set (y0 := set_conns y _) in H.
    assert (Hc0 : CIs y0) by (now apply CIs_set_conns).
    destruct (if conn_closed_end cn SA || c_failed cn then (y0, []) else deplex_error y0 SA c) as [y1 e1] eqn:E1.
    assert (Hc1 : CIs y1).
    { destruct (_ || _) in E1; [injection E1 as <- _; exact Hc0|eapply deplex_error_CIs; eauto]. }
    destruct (if conn_closed_end cn SB || c_failed cn then (y1, []) else deplex_error y1 SB c) as [y2 e2] eqn:E2.
    injection H as <- _.
    destruct (_ || _) in E2; [injection E2 as <- _; exact Hc1|eapply deplex_error_CIs; eauto].
  - rewrite step_core_tick in H.
    destruct (fire_timers 64 (set_now y (sy_now y + d)%Z) SA ch) as [[y1 ch1] e1] eqn:E1.
    destruct (fire_timers 64 y1 SB ch1) as [[y2 ch2] e2] eqn:E2. injection H as <- _.
    eapply fire_timers_CIs; [exact E2|]. eapply fire_timers_CIs; [exact E1|]. now apply CIs_set_now.
  - rewrite step_core_break in H. destruct (nthN (N.to_nat c) (sy_conns y)) as [cn|]; injection H as <- _; [now apply CIs_set_conns|exact Hc].
  - rewrite step_core_notice in H. destruct (nthN (N.to_nat c) (sy_conns y)) as [cn|]; [|injection H as <- _; exact Hc].
    destruct (_ && _); [|injection H as <- _; exact Hc].
    destruct (deplex_error y x c) as [y1 e1] eqn:Ed. injection H as <- _. eapply deplex_error_CIs; eauto.
Qed.

Lemma step_CIs y l ch y' evs :
  step y l ch = (y', evs) -> WF y -> fresh_open y l -> CIs y -> CIs y'.
Proof.
  unfold step. intros H Hwf Hf Hc. destruct (step_core y l ch) as [y1 evs1] eqn:Es.
  destruct (resolve (sy_pend y1) y1) as [[y2 ps] evs2] eqn:Er. injection H as <- _.
  apply CIs_set_pend. eapply resolve_CIs; [exact Er|]. eapply step_core_CIs; eauto.
Qed.

Fixpoint fresh_opens (y : sys) (ls : list (label * list N)) : Prop :=
  match ls with
  | [] => True
  | (l, ch) :: t => fresh_open y l /\ fresh_opens (fst (step y l ch)) t
  end.

Lemma run_CIs ls : forall y y' os, run y ls = (y', os) -> WF y -> fresh_opens y ls -> CIs y -> CIs y'.
Proof.
  induction ls as [|[l ch] t IH]; intros y y' os H Hwf Hf Hc; cbn in H; [injection H as <- _; exact Hc|].
  destruct (step y l ch) as [y1 o] eqn:Es. destruct (run y1 t) as [y2 os2] eqn:Er. injection H as <- _.
  destruct Hf as [Hf1 Hf2]. rewrite Es in Hf2. cbn [fst] in Hf2.
  eapply IH; [exact Er|eapply step_WF; eauto|exact Hf2|]. eapply step_CIs; eauto.
Qed.

Lemma init_CIs k sp u ta tb : CIs (init k sp u ta tb).
Proof.
  intros x Hop. destruct x; cbn; (split; [apply NoDup_nil|split; [reflexivity|split; intros id H; [discriminate|exfalso; apply H; reflexivity]]]).
Qed.

(* ---- the statement ---- *)
Lemma live_streams_count se :
  NoDup (keys (se_tab se)) ->
  (forall id, lookup id (se_tab se) = Some true ->
              exists st, lookup id (se_objs se) = Some st /\ st_closed st = false) ->
  length (live_streams se) = ntrue (se_tab se).
Proof.
  unfold live_streams, ntrue. rewrite map_length. intros Hd Ho.
  assert (H : forall e, In e (se_tab se) -> snd e && stream_open se (fst e) = snd e).
  { intros [id b] Hin. cbn. destruct b; [|reflexivity]. cbn.
    destruct (Ho id (In_lookup_nodup _ _ _ Hd Hin)) as (st & El & Ecl). unfold stream_open. now rewrite El, Ecl. }
  revert H. generalize (se_tab se). intros t. induction t as [|e t IH]; intros H; [reflexivity|].
  cbn [filter]. rewrite (H e (or_introl eq_refl)). destruct (snd e); cbn [length]; rewrite IH; auto; intros e' He'; apply H; now right.
Qed.

(* C12: at every quiescent moment, on each side whose session is live, the stream counter equals the
   number of open streams (as a 32-bit counter) *)
Theorem count_equals_open_streams k sp u ta tb ls x :
  fresh_opens (init k sp u ta tb) ls ->
  let se := sess (reach k sp u ta tb ls) x in
  se_closed se = false -> se_count se = N.of_nat (length (live_streams se)) mod two32.
Proof.
  intros Hf se Hop. unfold se, reach in *. destruct (run (init k sp u ta tb) ls) as [y os] eqn:Er. cbn [fst] in *.
  pose proof (run_CIs ls _ _ _ Er (init_WF _ _ _ _ _) Hf (init_CIs _ _ _ _ _) x Hop) as (H1 & H2 & H3 & _).
  rewrite live_streams_count; assumption.
Qed.

(* C12: ... and the inactivity check closes a multiplexed session only while it has no open stream *)
Theorem timer_closes_only_without_open_streams k sp u ta tb ls d ch s :
  fresh_opens (init k sp u ta tb) ls ->
  let y := reach k sp u ta tb ls in
  let y' := fst (step y (LTick d) ch) in
  N.of_nat (length (live_streams (sess y s))) < two32 ->
  se_closed (sess y s) = false -> se_closed (sess y' s) = true -> live_streams (sess y s) = [].
Proof.
  intros Hf y y' Hlt Hop Hcl.
  pose proof (timer_only_when_idle k sp u ta tb ls d ch s Hop Hcl) as H0. fold y in H0.
  pose proof (count_equals_open_streams k sp u ta tb ls s Hf Hop) as Hc. fold y in Hc.
  rewrite H0, N.mod_small in Hc by exact Hlt.
  destruct (live_streams (sess y s)); [reflexivity|cbn in Hc; lia].
Qed.
