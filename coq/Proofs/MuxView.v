(* The view of one direction of one stream (sender side s, stream id sid, receiver = other s)
   inside the session-pair model, and how every building block of Model/Mux.v acts on it.
   A building block is either QUIET for the view (it may only close things) or it performs one of
   a few visible actions: emit a frame, hand a frame to the receiver's re-sequencer, read. *)
From Coq Require Import NArith ZArith List Bool Lia Sorting.Permutation.
From Coq Require Import ZifyN ZifyBool.
From Cloak Require Import Model.Reorder Model.Mux Proofs.MuxBase Proofs.MuxSafety.
Import ListNotations.
Local Open Scope N_scope.

Section View.
Variable s : side.
Variable sid : N.
Let o := other s.

(* frames of this stream (not session-closing notices) *)
Definition keep (fr : wframe) : bool := (w_sid fr =? sid) && negb (w_cl fr =? 2).

(* frames of this direction that are in flight towards the receiver *)
Definition inflight (y : sys) : list wframe :=
  flat_map (fun c => filter keep (conn_q c o)) (sy_conns y).

(* the sender's half of the sender's Stream object / the receiver's half of the receiver's *)
Definition sview (y : sys) : option (N * N * bool) :=
  option_map (fun st => (st_seq st, st_wcl st, st_closed st)) (lookup sid (se_objs (sess y s))).
Definition rview (y : sys) : option (rbuf * bool) :=
  option_map (fun st => (st_rb st, st_closed st)) (lookup sid (se_objs (sess y o))).

(* "may only have been closed" *)
Definition sclose (a b : option (N * N * bool)) : Prop :=
  b = a \/ exists q w w', a = Some (q, w, false) /\ b = Some (q, w', true).
Definition rclose (a b : option (rbuf * bool)) : Prop :=
  b = a \/ exists rb, a = Some (rb, false) /\ b = Some (rb_close rb, true).

Definition quiet (y y' : sys) : Prop :=
  Permutation (inflight y) (inflight y') /\ sclose (sview y) (sview y') /\ rclose (rview y) (rview y').

Lemma sclose_refl a : sclose a a. Proof. now left. Qed.
Lemma rclose_refl a : rclose a a. Proof. now left. Qed.
Lemma sclose_trans a b c : sclose a b -> sclose b c -> sclose a c.
Proof.
  intros [->|(q & w & w' & -> & ->)] [->|(q2 & w2 & w2' & H1 & ->)].
  - now left.
  - right. eauto.
  - right. eauto.
  - discriminate.
Qed.
Lemma rclose_trans a b c : rclose a b -> rclose b c -> rclose a c.
Proof.
  intros [->|(rb & -> & ->)] [->|(rb2 & H1 & ->)].
  - now left.
  - right. eauto.
  - right. eauto.
  - discriminate.
Qed.
Lemma quiet_refl y : quiet y y.
Proof. split; [reflexivity|split; [apply sclose_refl|apply rclose_refl]]. Qed.
Lemma quiet_trans a b c : quiet a b -> quiet b c -> quiet a c.
Proof.
  intros (P1 & S1 & R1) (P2 & S2 & R2).
  split; [etransitivity; eauto|split; [eapply sclose_trans; eauto|eapply rclose_trans; eauto]].
Qed.

(* views only look at three things *)
Lemma quiet_same y y' :
  sy_conns y' = sy_conns y -> se_objs (sess y' s) = se_objs (sess y s) ->
  se_objs (sess y' o) = se_objs (sess y o) -> quiet y y'.
Proof.
  intros Hc Hs Ho. unfold quiet, inflight, sview, rview. rewrite Hc, Hs, Ho.
  split; [reflexivity|split; [apply sclose_refl|apply rclose_refl]].
Qed.

Lemma inflight_set_sess y x se : inflight (set_sess y x se) = inflight y.
Proof. unfold inflight. now rewrite conns_set_sess. Qed.
Lemma inflight_set_pend y p : inflight (set_pend y p) = inflight y.
Proof. reflexivity. Qed.
Lemma inflight_set_now y t : inflight (set_now y t) = inflight y.
Proof. reflexivity. Qed.

(* ---- connections ---- *)
Lemma inflight_conns_q y cs :
  map (fun c => conn_q c o) cs = map (fun c => conn_q c o) (sy_conns y) ->
  inflight (set_conns y cs) = inflight y.
Proof.
  unfold inflight. cbn. intros H. rewrite !flat_map_concat_map.
  f_equal. rewrite <- (map_map (fun c => conn_q c o) (filter keep)), <- (map_map (fun c => conn_q c o) (filter keep) (sy_conns y)).
  now rewrite H.
Qed.

Lemma map_setN {A B} (f : A -> B) n v l : map f (setN n v l) = setN n (f v) (map f l).
Proof. revert n; induction l as [|a t IH]; intros [|n]; cbn; auto. now rewrite IH. Qed.
Lemma setN_same {A} n (l : list A) x : nthN n l = Some x -> setN n x l = l.
Proof. revert n; induction l as [|a t IH]; intros [|n]; cbn; try discriminate; auto.
  - intros H; injection H as <-; reflexivity.
  - intros H. now rewrite IH. Qed.

Lemma conn_le_q x a b : conn_le x a b -> conn_q b o = conn_q a o.
Proof. unfold conn_le. intros (H1 & H2 & _). destruct o; cbn; assumption. Qed.

Lemma close_ends_q x pool : forall cs,
  map (fun c => conn_q c o) (fst (close_ends x pool cs)) = map (fun c => conn_q c o) cs.
Proof.
  induction pool as [|c t IH]; intros cs; cbn; [reflexivity|].
  destruct (nthN (N.to_nat c) cs) as [cn|] eqn:E; [|apply IH].
  destruct (conn_closed_end cn x); [apply IH|].
  destruct (close_ends x t (setN (N.to_nat c) (conn_close_end cn x) cs)) as [cs' evs] eqn:E2. cbn.
  specialize (IH (setN (N.to_nat c) (conn_close_end cn x) cs)). rewrite E2 in IH. cbn in IH. rewrite IH.
  rewrite map_setN. apply setN_same.
  assert (Hq : conn_q (conn_close_end cn x) o = conn_q cn o) by (destruct x, o, cn; reflexivity).
  rewrite Hq. clear - E. revert E. generalize (N.to_nat c). intros n. revert n.
  induction cs as [|a t IH]; intros [|n]; cbn; try discriminate.
  - intros H; injection H as <-; reflexivity.
  - apply IH.
Qed.

(* ---- objects: a helper to compute views after an update of some object ---- *)
Lemma sview_set_other y se : sview (set_sess y o se) = sview y.
Proof. unfold sview. unfold o. rewrite sess_set. destruct s; reflexivity. Qed.
Lemma rview_set_other y se : rview (set_sess y s se) = rview y.
Proof. unfold rview. unfold o. rewrite sess_set. destruct s; reflexivity. Qed.


(* ---- the visible actions of one direction of one stream ---- *)
Definition to_frame (fr : wframe) : frame := mkF (w_seq fr) (negb (w_cl fr =? 0)) (w_pay fr).

Inductive act :=
| AQuiet
| AEmit (fr : wframe)        (* data frame numbered and put on the wire; stream stays open *)
| ACloseEmit (fr : wframe)   (* closing frame numbered and put on the wire; stream now closed *)
| ALost                      (* a number was consumed, nothing reached the wire; stream now closed *)
| ADrop (l : list wframe)    (* frames left the wire without being processed (connection reset) *)
| AArrive (fr : wframe)      (* a frame was written into the receiver's re-sequencer *)
| ARead (k : nat) (d : list N)
| ACreateS | ACreateR.

(* [b] = whether frames may leave the wire unprocessed (a connection reset): only [VDrop] needs it *)
Inductive vstep (b : bool) : sys -> act -> sys -> Prop :=
| VQuiet y y' : quiet y y' -> vstep b y AQuiet y'
| VEmit y y' q w pay :
    sview y = Some (q, w, false) -> sview y' = Some (q + 1, w, false) ->
    Permutation (inflight y') (mkW sid q w pay :: inflight y) -> rview y' = rview y ->
    vstep b y (AEmit (mkW sid q w pay)) y'
| VCloseEmit y y' q w :
    sview y = Some (q, w, false) -> sview y' = Some (q + 1, 1, true) ->
    Permutation (inflight y') (mkW sid q 1 [] :: inflight y) -> rclose (rview y) (rview y') ->
    vstep b y (ACloseEmit (mkW sid q 1 [])) y'
| VLost y y' q w w' :
    sview y = Some (q, w, false) -> sview y' = Some (q + 1, w', true) ->
    Permutation (inflight y) (inflight y') -> rclose (rview y) (rview y') ->
    vstep b y ALost y'
| VDrop y y' l :
    b = true -> Permutation (inflight y) (l ++ inflight y') -> sview y' = sview y -> rview y' = rview y ->
    vstep b y (ADrop l) y'
| VArrive y y' fr rb c :
    rview y = Some (rb, c) -> rview y' = Some (fst (fst (rb_write rb (to_frame fr))), c) ->
    inflight y' = inflight y -> sview y' = sview y ->
    vstep b y (AArrive fr) y'
| VRead y y' rb c k d rb' :
    rview y = Some (rb, c) -> rb_read rb k = (rb', RdData d) -> rview y' = Some (rb', c) ->
    inflight y' = inflight y -> sview y' = sview y ->
    vstep b y (ARead k d) y'
| VCreateS y y' :
    sview y = None -> sview y' = Some (0, 0, false) -> inflight y' = inflight y -> rview y' = rview y ->
    vstep b y ACreateS y'
| VCreateR y y' :
    rview y = None -> rview y' = Some (rb_init 0, false) -> inflight y' = inflight y -> sview y' = sview y ->
    vstep b y ACreateR y'.

Inductive vsteps (b : bool) : sys -> list act -> sys -> Prop :=
| VS_nil y : vsteps b y [] y
| VS_cons y a y1 l y2 : vstep b y a y1 -> vsteps b y1 l y2 -> vsteps b y (a :: l) y2.

Lemma vsteps_app b y l1 y1 l2 y2 : vsteps b y l1 y1 -> vsteps b y1 l2 y2 -> vsteps b y (l1 ++ l2) y2.
Proof. induction 1; cbn; [auto|]. intros H2. econstructor; eauto. Qed.
Lemma vsteps_one b y a y' : vstep b y a y' -> vsteps b y [a] y'.
Proof. intros H. econstructor; [exact H|constructor]. Qed.
Lemma vsteps_quiet b y y' : quiet y y' -> vsteps b y [AQuiet] y'.
Proof. intros H. apply vsteps_one. now constructor. Qed.
Lemma vstep_weaken b y a y' : vstep false y a y' -> vstep b y a y'.
Proof. intros H. destruct H; try (econstructor; eassumption). discriminate. Qed.
Lemma vsteps_weaken b y l y' : vsteps false y l y' -> vsteps b y l y'.
Proof. induction 1; econstructor; eauto using vstep_weaken. Qed.

(* what the actions put on the wire / returned to the reader *)
Definition emitted (l : list act) : list wframe :=
  flat_map (fun a => match a with AEmit fr => [fr] | ACloseEmit fr => [fr] | _ => [] end) l.
Definition readout (l : list act) : list N :=
  flat_map (fun a => match a with ARead _ d => d | _ => [] end) l.
Lemma emitted_app a b : emitted (a ++ b) = emitted a ++ emitted b.
Proof. unfold emitted. apply flat_map_app. Qed.
Lemma readout_app a b : readout (a ++ b) = readout a ++ readout b.
Proof. unfold readout. apply flat_map_app. Qed.

(* frames of this direction among a list of events *)
Definition ev_frames (evs : list ev) : list wframe :=
  flat_map (fun e => match e with
                     | EFrame x _ fr => if side_eqb x s && keep fr then [fr] else []
                     | _ => [] end) evs.
Lemma ev_frames_app a b : ev_frames (a ++ b) = ev_frames a ++ ev_frames b.
Proof. unfold ev_frames. apply flat_map_app. Qed.

End View.
