(* The bridge between the independent grammar (Model/HelloGrammar.v) and the model of the server's own
   first-packet parser (Model/Hello.v, worker "front": parseClientHello / parseExtensions / parseKeyShare /
   unmarshalClientHello with Go slice capacities and recover()):
   on every byte string that satisfies wf_client_hello the server's parser succeeds and extracts exactly
   the fields locate_fields returns - so server_process_tls (Model/Auth.v), which uses the locator, is the
   server's processFirstPacket on well-formed hellos, and the agreement theorem holds of that parser. *)
From Coq Require Import NArith ZArith List Bool Arith Lia ZifyN ZifyNat ZifyBool.
From Cloak Require Import Model.Hello Model.HelloGrammar Model.Auth Proofs.HelloGrammar Proofs.Auth.
Import ListNotations.
Local Open Scope N_scope.

Ltac Zify.zify_post_hook ::= Z.div_mod_to_equations.

(* ------------------------------------------------------------------------------ basics *)
Lemma take_app : forall a b, take (length a) (a ++ b) = Ok (a, b).
Proof.
  intros a b. unfold take. rewrite app_length.
  replace (length a <=? length a + length b)%nat with true by (symmetry; apply Nat.leb_le; lia).
  rewrite firstn_app_exact by reflexivity. rewrite skipn_app_exact by reflexivity. reflexivity.
Qed.
Lemma take_app_n : forall n a b, n = length a -> take n (a ++ b) = Ok (a, b).
Proof. intros; subst; apply take_app. Qed.

Lemma copy_into_exact : forall n l, length l = n -> copy_into n l = l.
Proof.
  intros n l H. unfold copy_into. rewrite firstn_app, H, Nat.sub_diag. cbn [firstn]. rewrite app_nil_r.
  rewrite <- H. apply firstn_all.
Qed.

Lemma bytes_eqb_pair : forall a b t1 t0, a < 256 -> b < 256 -> t1 < 256 -> t0 < 256 ->
  bytes_eqb [a; b] [t1; t0] = (a * 256 + b =? t1 * 256 + t0).
Proof.
  intros a b t1 t0 Ha Hb H1 H0. cbn [bytes_eqb]. rewrite andb_true_r.
  destruct (a =? t1) eqn:E1, (b =? t0) eqn:E0; cbn [andb]; lia.
Qed.

Lemma wf_bytes_app : forall a b, wf_bytes (a ++ b) <-> wf_bytes a /\ wf_bytes b.
Proof. intros. unfold wf_bytes. apply Forall_app. Qed.

Lemma parse_tlvs_inv : forall x l es, parse_tlvs (x :: l) = Some es ->
  exists e rest es', parse_tlv (x :: l) = Some (e, rest) /\ parse_tlvs rest = Some es' /\ es = e :: es'.
Proof.
  intros x l es H. unfold parse_tlvs in H. cbn [length parse_tlvs_fuel] in H.
  destruct (parse_tlv (x :: l)) as [[e rest]|] eqn:E; [|discriminate].
  destruct (parse_tlvs_fuel (length l) rest) as [es'|] eqn:E'; [|discriminate]. inversion H; subst.
  exists e, rest, es'. split; [reflexivity|]. split; [|reflexivity].
  unfold parse_tlvs. pose proof (parse_tlv_shrinks _ _ _ E) as Hs.
  rewrite <- E'. apply parse_tlvs_fuel_enough; cbn [length] in Hs; lia.
Qed.

Lemma nodup_assoc_none : forall k es, nodup_b (k :: map fst es) = true -> assoc k es = None.
Proof.
  intros k es H. cbn [nodup_b] in H. apply andb_prop in H. destruct H as [H _]. apply negb_true_iff in H.
  induction es as [|[k' v] es IH]; [reflexivity|].
  cbn [map fst existsb] in H. apply orb_false_elim in H. destruct H as [H1 H2].
  cbn [assoc]. rewrite H1. apply IH. exact H2.
Qed.

(* ------------------------------------------------------------------------------ parseExtensions *)
Definition KS : list N := [0; 0x33].

Lemma pe_step : forall f t1 t0 l1 l0 d rest' acc,
  length d = N.to_nat (l1 * 256 + l0) ->
  pe_loop (S f) ([t1; t0; l1; l0] ++ d ++ rest') acc = pe_loop f rest' (([t1; t0], mkS d rest') :: acc).
Proof.
  intros f t1 t0 l1 l0 d rest' acc Hd. cbn [pe_loop app].
  change (t1 :: t0 :: l1 :: l0 :: d ++ rest') with ([t1; t0] ++ [l1; l0] ++ d ++ rest').
  rewrite (take_app_n 2 [t1; t0]) by reflexivity. cbn [bind].
  rewrite (take_app_n 2 [l1; l0]) by reflexivity. cbn [bind].
  unfold be_val. cbn [fold_left]. replace ((0 * 256 + l1) * 256 + l0) with (l1 * 256 + l0) by lia.
  rewrite (take_app_n _ d) by (symmetry; exact Hd). cbn [bind]. reflexivity.
Qed.

Lemma pe_loop_absent : forall f rest acc es, (length rest < f)%nat -> parse_tlvs rest = Some es -> wf_bytes rest ->
  assoc 51 es = None ->
  exists m, pe_loop f rest acc = Ok m /\ ext_get KS m = ext_get KS acc.
Proof.
  induction f as [|f IH]; intros rest acc es Hf Hp Hw Ha; [lia|].
  destruct rest as [|x l].
  - exists acc. split; reflexivity.
  - destruct (parse_tlvs_inv x l es Hp) as (e & rest' & es' & Et & Ep & Ees). subst es.
    destruct (parse_tlv_inv _ _ _ Et) as (t1 & t0 & l1 & l0 & El & Efst & Elen).
    destruct e as [t d]. cbn [fst snd] in *. cbn [assoc] in Ha.
    destruct (51 =? t) eqn:E51; [discriminate|].
    rewrite El in *. rewrite pe_step by exact Elen.
    apply wf_bytes_app in Hw. destruct Hw as [Hw4 Hw']. apply wf_bytes_app in Hw'. destruct Hw' as [_ Hwr].
    destruct (IH rest' (([t1; t0], mkS d rest') :: acc) es') as (m & Em & Eg); try assumption.
    { rewrite !app_length in Hf. cbn [length] in Hf. lia. }
    exists m. split; [exact Em|]. rewrite Eg. cbn [ext_get]. unfold KS.
    inversion Hw4 as [|? ? B1 Hw3]; subst. inversion Hw3 as [|? ? B0 _]; subst.
    rewrite bytes_eqb_pair by lia. replace (0 * 256 + 51 =? t1 * 256 + t0) with false by lia. reflexivity.
Qed.

Lemma pe_loop_present : forall f rest acc es d, (length rest < f)%nat -> parse_tlvs rest = Some es -> wf_bytes rest ->
  nodup_b (map fst es) = true -> assoc 51 es = Some d ->
  exists m post, pe_loop f rest acc = Ok m /\ ext_get KS m = mkS d post.
Proof.
  induction f as [|f IH]; intros rest acc es d Hf Hp Hw Hn Ha; [lia|].
  destruct rest as [|x l].
  - unfold parse_tlvs in Hp. cbn in Hp. inversion Hp; subst. discriminate.
  - destruct (parse_tlvs_inv x l es Hp) as (e & rest' & es' & Et & Ep & Ees). subst es.
    destruct (parse_tlv_inv _ _ _ Et) as (t1 & t0 & l1 & l0 & El & Efst & Elen).
    destruct e as [t d0]. cbn [fst snd map] in *. cbn [assoc] in Ha.
    rewrite El in *. rewrite pe_step by exact Elen.
    apply wf_bytes_app in Hw. destruct Hw as [Hw4 Hw']. apply wf_bytes_app in Hw'. destruct Hw' as [_ Hwr].
    inversion Hw4 as [|? ? B1 Hw3]; subst. inversion Hw3 as [|? ? B0 _]; subst.
    assert (Hf' : (length rest' < f)%nat) by (rewrite !app_length in Hf; cbn [length] in Hf; lia).
    destruct (51 =? t1 * 256 + t0) eqn:E51.
    + inversion Ha; subst d0. apply N.eqb_eq in E51.
      assert (Hnone : assoc 51 es' = None) by (apply nodup_assoc_none; rewrite E51; exact Hn).
      destruct (pe_loop_absent f rest' (([t1; t0], mkS d rest') :: acc) es' Hf' Ep Hwr Hnone) as (m & Em & Eg).
      exists m, rest'. split; [exact Em|]. rewrite Eg. cbn [ext_get]. unfold KS.
      rewrite bytes_eqb_pair by lia. replace (0 * 256 + 51 =? t1 * 256 + t0) with true by lia. reflexivity.
    + cbn [nodup_b] in Hn. apply andb_prop in Hn. destruct Hn as [_ Hn].
      destruct (IH rest' (([t1; t0], mkS d0 rest') :: acc) es' d Hf' Ep Hwr Hn Ha) as (m & post & Em & Eg).
      exists m, post. split; assumption.
Qed.

(* ------------------------------------------------------------------------------ parseKeyShare *)
Lemma gs_sub_vis : forall s P M Q lo hi, gs_all s = P ++ M ++ Q -> lo = length P -> hi = (lo + length M)%nat ->
  exists ex, gs_sub lo hi s = Ok (mkS M ex).
Proof.
  intros s P M Q lo hi Hall -> ->. unfold gs_sub, gs_cap. rewrite Hall, !app_length.
  replace ((length P <=? length P + length M)%nat && (length P + length M <=? length P + (length M + length Q))%nat)
    with true by lia.
  rewrite skipn_app_exact by reflexivity.
  replace (length P + length M - length P)%nat with (length M) by lia.
  rewrite firstn_app_exact by reflexivity. eexists. reflexivity.
Qed.

Lemma pks_found : forall f bytes ents A B k totalLen input,
  (length bytes < f)%nat -> parse_tlvs bytes = Some ents -> wf_bytes bytes ->
  assoc 29 ents = Some k -> length k = 32%nat ->
  gs_all input = A ++ bytes ++ B -> (length A + length bytes <= totalLen + 2)%nat ->
  pks_loop f totalLen (length A) input = Ok k.
Proof.
  induction f as [|f IH]; intros bytes ents A B k totalLen input Hf Hp Hw Ha Hk Hall Ht; [lia|].
  destruct bytes as [|x l].
  - unfold parse_tlvs in Hp. cbn in Hp. inversion Hp; subst. discriminate.
  - destruct (parse_tlvs_inv x l ents Hp) as (e & rest' & es' & Et & Ep & Ees). subst ents.
    destruct (parse_tlv_inv _ _ _ Et) as (g1 & g0 & l1 & l0 & El & Efst & Elen).
    destruct e as [g d]. cbn [fst snd] in *. cbn [assoc] in Ha.
    rewrite El in *.
    apply wf_bytes_app in Hw. destruct Hw as [Hw4 Hw']. apply wf_bytes_app in Hw'. destruct Hw' as [_ Hwr].
    inversion Hw4 as [|? ? B1 Hw3]; subst. inversion Hw3 as [|? ? B0 Hw2]; subst.
    inversion Hw2 as [|? ? C1 Hw1]; subst. inversion Hw1 as [|? ? C0 _]; subst.
    rewrite !app_length in Ht, Hf. cbn [length] in Ht, Hf.
    cbn [pks_loop].
    replace (length A <? totalLen)%nat with true by (symmetry; apply Nat.ltb_lt; destruct (29 =? g1 * 256 + g0); lia).
    destruct (gs_sub_vis input A [g1; g0] ([l1; l0] ++ d ++ rest' ++ B) (length A) (length A + 2)) as (ex1 & E1);
      [rewrite Hall, <- !app_assoc; reflexivity|reflexivity|reflexivity|].
    rewrite E1. cbn [bind vis].
    destruct (gs_sub_vis input (A ++ [g1; g0]) [l1; l0] (d ++ rest' ++ B) (length A + 2) (length A + 4)) as (ex2 & E2);
      [rewrite Hall, <- !app_assoc; reflexivity|rewrite app_length; reflexivity|cbn [length]; lia|].
    assert (Ebv : N.to_nat (be_val [l1; l0]) = length d).
    { unfold be_val. cbn [fold_left]. replace ((0 * 256 + l1) * 256 + l0) with (l1 * 256 + l0) by lia. lia. }
    destruct (gs_sub_vis input (A ++ [g1; g0; l1; l0]) d (rest' ++ B) (length A + 4) (length A + 4 + length d)) as (ex3 & E3);
      [rewrite Hall, <- !app_assoc; reflexivity|rewrite app_length; reflexivity|lia|].
    rewrite bytes_eqb_pair by lia.
    destruct (29 =? g1 * 256 + g0) eqn:E29.
    + inversion Ha; subst d.
      replace (0 * 256 + 29 =? g1 * 256 + g0) with true by lia.
      rewrite E2. cbn [bind vis]. rewrite Ebv, Hk. cbn [Nat.eqb negb].
      rewrite Hk in E3. rewrite E3. cbn [bind vis]. reflexivity.
    + replace (0 * 256 + 29 =? g1 * 256 + g0) with false by lia.
      rewrite E2. cbn [bind vis]. rewrite Ebv, E3. cbn [bind].
      replace (length A + 4 + length d)%nat with (length (A ++ [g1; g0; l1; l0] ++ d))
        by (rewrite !app_length; cbn [length]; lia).
      apply (IH rest' es' (A ++ [g1; g0; l1; l0] ++ d) B k totalLen input); try assumption.
      * lia.
      * rewrite Hall, <- !app_assoc. reflexivity.
      * rewrite !app_length. cbn [length]. lia.
Qed.

Lemma parseKeyShare_found : forall d post k, x25519_share d = Some k -> wf_bytes d ->
  parseKeyShare (mkS d post) = Ok k.
Proof.
  intros d post k H Hw. unfold x25519_share, key_share_entries in H.
  destruct d as [|k1 [|k0 entries]]; try discriminate.
  destruct (k1 * 256 + k0 =? lenN entries) eqn:El; [|discriminate].
  destruct (parse_tlvs entries) as [ents|] eqn:E; [|discriminate].
  destruct (assoc group_x25519 ents) as [k'|] eqn:Ea; [|discriminate].
  destruct (length k' =? 32)%nat eqn:Ek; [|discriminate]. inversion H; subst k'.
  apply Nat.eqb_eq in Ek. apply N.eqb_eq in El.
  inversion Hw as [|? ? B1 Hw1]; subst. inversion Hw1 as [|? ? B0 Hwe]; subst.
  unfold parseKeyShare, parseKeyShare_raw.
  destruct (gs_sub_vis (mkS (k1 :: k0 :: entries) post) [] [k1; k0] (entries ++ post) 0 2) as (ex & E0);
    [unfold gs_all; cbn [vis extra app]; reflexivity|reflexivity|reflexivity|].
  rewrite E0. cbn [bind vis].
  assert (Ebv : N.to_nat (be_val [k1; k0]) = length entries).
  { unfold be_val. cbn [fold_left]. replace ((0 * 256 + k1) * 256 + k0) with (k1 * 256 + k0) by lia.
    rewrite El. apply to_nat_lenN. }
  rewrite Ebv.
  assert (HP : pks_loop (S (gs_cap (mkS (k1 :: k0 :: entries) post))) (length entries) (length [k1; k0])
                 (mkS (k1 :: k0 :: entries) post) = Ok k).
  { apply (pks_found _ entries ents [k1; k0] post k); try assumption.
    - unfold gs_cap, gs_all. cbn [vis extra]. cbn [length app]. rewrite app_length. lia.
    - unfold gs_all. cbn [vis extra app]. reflexivity.
    - cbn [length]. lia. }
  cbn [length] in HP. rewrite HP. reflexivity.
Qed.

(* ------------------------------------------------------------------------------ parseClientHello *)
Inductive hello_layout (l : list N) (h : hello) : Prop :=
| HL : forall l1 l0 n2 n1 n0 v1 v0 w1 w0 c1 c0 m e1 e0 exts,
    l = [22; w1; w0; l1; l0] ++ [1; n2; n1; n0] ++
        ([v1; v0] ++ h_random h ++ [N.of_nat (length (h_sid h))] ++ h_sid h ++ [c1; c0] ++ h_suites h ++
         [m] ++ h_comps h ++ [e1; e0] ++ exts) ->
    w1 * 256 + w0 = 769 ->
    n2 * 65536 + n1 * 256 + n0 =
      lenN ([v1; v0] ++ h_random h ++ [N.of_nat (length (h_sid h))] ++ h_sid h ++ [c1; c0] ++ h_suites h ++
            [m] ++ h_comps h ++ [e1; e0] ++ exts) ->
    length (h_random h) = 32%nat ->
    length (h_suites h) = N.to_nat (c1 * 256 + c0) ->
    length (h_comps h) = N.to_nat m ->
    parse_tlvs exts = Some (h_exts h) ->
    hello_layout l h.

Lemma parse_hello_body_layout : forall rest h, parse_hello_body rest = Some h ->
  exists v1 v0 c1 c0 m e1 e0 exts,
    rest = [v1; v0] ++ h_random h ++ [N.of_nat (length (h_sid h))] ++ h_sid h ++ [c1; c0] ++ h_suites h ++
           [m] ++ h_comps h ++ [e1; e0] ++ exts /\
    length (h_random h) = 32%nat /\ length (h_suites h) = N.to_nat (c1 * 256 + c0) /\
    length (h_comps h) = N.to_nat m /\ parse_tlvs exts = Some (h_exts h).
Proof.
  intros rest h H. unfold parse_hello_body in H.
  destruct rest as [|v1 [|v0 rest1]]; try discriminate.
  destruct (g_take 32 rest1) as [[random [|sl rest2]]|] eqn:E1; try discriminate.
  destruct (g_take (N.to_nat sl) rest2) as [[sid [|c1 [|c0 rest3]]]|] eqn:E2; try discriminate.
  destruct (g_take (N.to_nat (c1 * 256 + c0)) rest3) as [[suites [|m rest4]]|] eqn:E3; try discriminate.
  destruct (g_take (N.to_nat m) rest4) as [[comps [|e1 [|e0 exts]]]|] eqn:E4; try discriminate.
  destruct (e1 * 256 + e0 =? lenN exts); [|discriminate].
  destruct (parse_tlvs exts) as [es|] eqn:E5; [|discriminate]. inversion H; subst.
  cbn [h_random h_sid h_suites h_comps h_exts].
  apply g_take_spec in E1. apply g_take_spec in E2. apply g_take_spec in E3. apply g_take_spec in E4.
  destruct E1 as [E1 L1], E2 as [E2 L2], E3 as [E3 L3], E4 as [E4 L4]. subst.
  exists v1, v0, c1, c0, m, e1, e0, exts. rewrite L2, N2Nat.id.
  repeat split; assumption.
Qed.

Lemma parse_client_hello_layout : forall l h, parse_client_hello l = Some h -> hello_layout l h.
Proof.
  intros l h H. unfold parse_client_hello in H.
  destruct (parse_record l) as [[r rest]|] eqn:Er; [|discriminate]. destruct rest; [|discriminate].
  unfold hello_of_record in H.
  destruct (r_type r =? 22) eqn:Ety; [|discriminate]. destruct (r_ver r =? 769) eqn:Ever; [|discriminate].
  cbn [andb] in H.
  destruct (r_body r) as [|b0 body'] eqn:Eb; [discriminate|].
  destruct b0 as [|[p|p|]]; try discriminate.
  destruct body' as [|n2 [|n1 [|n0 rest]]]; try discriminate.
  destruct (n2 * 65536 + n1 * 256 + n0 =? lenN rest) eqn:Elen; [|discriminate].
  destruct (parse_hello_body_layout rest h H) as (v1 & v0 & c1 & c0 & m & e1 & e0 & exts & E & L1 & L3 & L4 & P).
  unfold parse_record in Er.
  destruct l as [|t [|w1 [|w0 [|l1 [|l0 tl]]]]]; try discriminate.
  destruct (g_take _ tl) as [[b r']|] eqn:Et; [|discriminate]. inversion Er; subst r r'.
  apply g_take_spec in Et. destruct Et as [Et _]. rewrite app_nil_r in Et. subst tl.
  cbn [r_body r_type r_ver] in *. subst b. apply N.eqb_eq in Ety. apply N.eqb_eq in Ever. apply N.eqb_eq in Elen. subst t.
  rewrite E in Elen.
  exact (HL _ h l1 l0 n2 n1 n0 v1 v0 w1 w0 c1 c0 m e1 e0 exts
           (f_equal (fun x => [22; w1; w0; l1; l0] ++ [1; n2; n1; n0] ++ x) E) Ever Elen L1 L3 L4 P).
Qed.

Lemma take1_cons : forall x r, take1 (x :: r) = Ok (x, r).
Proof. reflexivity. Qed.
Lemma take1_single : forall x r, take1 ([x] ++ r) = Ok (x, r).
Proof. reflexivity. Qed.

(* the server's parser on a well-formed hello *)
Lemma parseClientHello_wf : forall name l h, parse_client_hello l = Some h -> wf_hello name h = true -> wf_bytes l ->
  exists ch d post, parseClientHello l = Ok ch /\ ch_random ch = h_random h /\ ch_sessionId ch = h_sid h /\
                    assoc ext_key_share (h_exts h) = Some d /\ ext_get KS (ch_extensions ch) = mkS d post /\ wf_bytes d.
Proof.
  intros name l h Hp Hwf Hw.
  destruct (parse_client_hello_layout l h Hp) as [l1 l0 n2 n1 n0 v1 v0 w1 w0 c1 c0 m e1 e0 exts Heq Hver Hlen Hr Hs Hc Hpe].
  (* facts from wf_hello *)
  assert (Hnd : nodup_b (map fst (h_exts h)) = true /\ exists k, hello_share h = Some k).
  { unfold wf_hello in Hwf. repeat (apply andb_prop in Hwf; let H' := fresh "W" in destruct Hwf as [Hwf H']).
    split; [assumption|]. destruct (hello_share h) as [k|]; [exists k; reflexivity|discriminate]. }
  destruct Hnd as [Hnd [k Hk]].
  unfold hello_share in Hk. destruct (assoc ext_key_share (h_exts h)) as [d|] eqn:Ea; [|discriminate].
  (* bytes *)
  assert (Hw' := Hw). rewrite Heq in Hw'.
  apply wf_bytes_app in Hw'. destruct Hw' as [Hw5 Hw'].
  assert (Bw1 : w1 < 256) by (apply (proj1 (Forall_forall _ _) Hw5); cbn [In]; auto).
  assert (Bw0 : w0 < 256) by (apply (proj1 (Forall_forall _ _) Hw5); cbn [In]; auto).
  assert (E31 : w1 = 3 /\ w0 = 1) by lia. destruct E31 as [E3 E1]. rewrite E3, E1 in *. clear E3 E1.
  set (body := [v1; v0] ++ h_random h ++ [N.of_nat (length (h_sid h))] ++ h_sid h ++ [c1; c0] ++ h_suites h ++
               [m] ++ h_comps h ++ [e1; e0] ++ exts) in *.
  assert (Hwe : wf_bytes exts).
  { apply wf_bytes_app in Hw'. destruct Hw' as [_ Hb]. unfold body in Hb.
    repeat (apply wf_bytes_app in Hb; destruct Hb as [_ Hb]). exact Hb. }
  destruct (pe_loop_present (S (length exts)) exts [] (h_exts h) d) as (mm & post & Em & Eg); try assumption; [lia|].
  assert (Hwd : wf_bytes d).
  { destruct (parse_tlvs_infix _ _ _ _ Hpe Ea) as (p1 & p2 & Ei). rewrite Ei in Hwe.
    apply wf_bytes_app in Hwe. destruct Hwe as [_ Hwe]. apply wf_bytes_app in Hwe. apply Hwe. }
  exists (mkCH 1 (lenN body) [v1; v0] (h_random h) (N.to_nat (N.of_nat (length (h_sid h)))) (h_sid h)
               (N.to_nat (be_val [c1; c0])) (h_suites h) (N.to_nat m) (h_comps h) (N.to_nat (be_val [e1; e0])) mm), d, post.
  split; [|cbn [ch_random ch_sessionId ch_extensions]; repeat split; assumption].
  unfold parseClientHello, parseClientHello_raw. rewrite Heq.
  change ([22; 3; 1; l1; l0] ++ [1; n2; n1; n0] ++ body) with ([22; 3; 1] ++ [l1; l0] ++ [1; n2; n1; n0] ++ body).
  rewrite (take_app_n 3 [22; 3; 1]) by reflexivity. cbn [bind].
  change (negb (bytes_eqb [22; 3; 1] [22; 3; 1])) with false. cbv iota.
  change ([22; 3; 1] ++ [l1; l0] ++ [1; n2; n1; n0] ++ body) with ([22; 3; 1; l1; l0] ++ [1; n2; n1; n0] ++ body).
  rewrite (take_app_n 5 [22; 3; 1; l1; l0]) by reflexivity. cbn [bind].
  cbn [app]. rewrite take1_cons. cbn [bind]. change (negb (1 =? 1)) with false. cbv iota.
  change (n2 :: n1 :: n0 :: body) with ([n2; n1; n0] ++ body).
  rewrite (take_app_n 3 [n2; n1; n0]) by reflexivity. cbn [bind].
  assert (Ebv3 : be_val [n2; n1; n0] = N.of_nat (length body)).
  { unfold be_val. cbn [fold_left]. fold (lenN body). lia. }
  rewrite Ebv3, N.eqb_refl. cbn [negb]. cbv iota.
  unfold body at 1.
  rewrite (take_app_n 2 [v1; v0]) by reflexivity. cbn [bind].
  rewrite (take_app_n 32 (h_random h)) by (symmetry; exact Hr). cbn [bind].
  rewrite take1_single. cbn [bind].
  rewrite (take_app_n _ (h_sid h)) by lia. cbn [bind].
  rewrite (take_app_n 2 [c1; c0]) by reflexivity. cbn [bind].
  assert (Ebc : N.to_nat (be_val [c1; c0]) = length (h_suites h)).
  { unfold be_val. cbn [fold_left]. replace ((0 * 256 + c1) * 256 + c0) with (c1 * 256 + c0) by lia. lia. }
  rewrite (take_app_n _ (h_suites h)) by exact Ebc. cbn [bind].
  rewrite take1_single. cbn [bind].
  rewrite (take_app_n _ (h_comps h)) by (rewrite Hc; reflexivity). cbn [bind].
  rewrite (take_app_n 2 [e1; e0]) by reflexivity. cbn [bind].
  unfold parseExtensions, parseExtensions_raw. rewrite Em. cbn [recover_as bind].
  fold (lenN body). reflexivity.
Qed.

(* ------------------------------------------------------------------------------ processFirstPacket *)
Section Bridge.
  Variable dh : list N -> list N -> option (list N).

  Theorem front_parser_agrees : forall name l, wf_client_hello name l = true -> wf_bytes l ->
    forall pv, exists r s k,
      locate_fields l = Some (r, s, k) /\
      tls_first_packet dh l pv =
      match dh pv r with
      | None => Err EDH
      | Some ss => Ok (mkFrag (copy_into 32 ss) r (s ++ k))
      end.
  Proof.
    intros name l Hwf Hw pv. unfold wf_client_hello in Hwf.
    destruct (parse_client_hello l) as [h|] eqn:Eh; [|discriminate].
    destruct (wf_hello_inv name h Hwf) as (Lr & Ls & _ & k & Ek).
    destruct (parseClientHello_wf name l h Eh Hwf Hw) as (ch & d & post & Ech & Er & Es & Ea & Eg & Hwd).
    exists (h_random h), (h_sid h), k.
    split; [unfold locate_fields; rewrite Eh, Ek; reflexivity|].
    unfold tls_first_packet. rewrite Ech. cbn [bind]. unfold unmarshalClientHello.
    rewrite Er, Es, (copy_into_exact 32 (h_random h) Lr), Lr. cbn [Nat.eqb negb].
    destruct (dh pv (h_random h)) as [ss|]; [|reflexivity].
    change key_share_ext with KS. rewrite Eg.
    unfold hello_share in Ek. rewrite Ea in Ek.
    rewrite (parseKeyShare_found d post k Ek Hwd). cbn [bind].
    destruct (x25519_share_inv d k Ek) as [Lk _].
    rewrite app_length, Ls, Lk. cbn [Nat.add Nat.eqb negb].
    rewrite (copy_into_exact 64) by (rewrite app_length, Ls, Lk; reflexivity). reflexivity.
  Qed.

  (* hence server_process_tls (which uses the locator) is the server's processFirstPacket + decryptClientInfo
     on every well-formed hello *)
  Theorem server_process_tls_is_front : forall open name l pv now, wf_client_hello name l = true -> wf_bytes l ->
    server_process_tls dh open l pv now =
    match tls_first_packet dh l pv with
    | Ok fr => decrypt_client_info open (f_shared fr) (f_rand fr) (f_ct fr) (firstn 32 (f_ct fr)) now
    | Err EDH => Reject RejDH
    | _ => Reject RejHello
    end.
  Proof.
    intros open name l pv now Hwf Hw.
    destruct (front_parser_agrees name l Hwf Hw pv) as (r & s & k & El & Ef).
    destruct (wf_hello_fields name l Hwf) as (r' & s' & k' & El' & _ & Lr & Ls & Lk & _).
    rewrite El in El'. inversion El'; subst r' s' k'.
    unfold server_process_tls. rewrite El, Ef.
    rewrite (fit_exact 32 r Lr).
    destruct (dh pv r) as [ss|]; [|reflexivity].
    rewrite app_length, Ls, Lk. cbn [Nat.add Nat.eqb negb f_shared f_rand f_ct].
    rewrite (fit_exact 64) by (rewrite app_length, Ls, Lk; reflexivity).
    rewrite firstn_app_exact by exact Ls.
    unfold fit, copy_into, zeros. reflexivity.
  Qed.
End Bridge.

(* ------------------------------------------------------------------------------ agreement, stated on the server's own parser *)
Section AgreementFront.
  Variable dh : list N -> list N -> option (list N).
  Variable pub : list N -> list N.
  Variable seal : list N -> list N -> list N -> list N -> list N.
  Variable open : list N -> list N -> list N -> list N -> option (list N).
  Hypothesis dh_comm : forall a b, dh a (pub b) = dh b (pub a).
  Hypothesis pub_length : forall a, length (pub a) = 32%nat.
  Hypothesis open_seal : forall k n p a, open k n (seal k n p a) a = Some p.
  Hypothesis seal_length : forall k n p a, length (seal k n p a) = (length p + 16)%nat.

  Theorem agreement_tls_front : forall name i ts s_now ephPv staticPv secret hello,
    info_in_domain i -> ts < 2 ^ 64 -> in_window ts s_now = true ->
    dh ephPv (pub staticPv) = Some secret ->
    let shared := fit 32 secret in
    let ct := seal shared (firstn 12 (pub ephPv)) (pack i ts) [] in
    wf_client_hello name hello = true -> wf_bytes hello ->
    locate_fields hello = Some (pub ephPv, sub 0 32 ct, sub 32 64 ct) ->
    tls_first_packet dh hello staticPv = Ok (mkFrag shared (pub ephPv) ct) /\
    decrypt_client_info open shared (pub ephPv) ct (sub 0 32 ct) s_now = Accept i shared (sub 0 32 ct).
  Proof.
    intros name i ts s_now ephPv staticPv secret hello Hd Ht Hw Hdh shared ct Hwf Hb Hloc.
    assert (Hu : length (i_uid i) = 16%nat) by apply Hd.
    destruct (client_payload_ok dh pub seal pub_length seal_length i ts ephPv staticPv secret Hu Hdh) as [_ Lct].
    fold shared in Lct. fold ct in Lct.
    split.
    - destruct (front_parser_agrees dh name hello Hwf Hb staticPv) as (r & s & k & El & Ef).
      rewrite Hloc in El. inversion El; subst r s k.
      rewrite Ef, dh_comm, Hdh. rewrite sub_split_64 by exact Lct. reflexivity.
    - unfold ct. apply decrypt_ok; assumption.
  Qed.
End AgreementFront.
