(* Proofs about Model/Connector.v (client.MakeSession). *)
From Coq Require Import NArith List Bool Lia.
From Cloak Require Import Model.Connector.
Import ListNotations.

Lemma count_ev_app p a b : count_ev p (a ++ b) = count_ev p a + count_ev p b.
Proof. induction a as [|e a IH]; cbn [app count_ev]; [reflexivity|]. rewrite IH. lia. Qed.
Lemma creates_app a b : creates (a ++ b) = creates a ++ creates b.
Proof. induction a as [|e a IH]; cbn [app creates]; [reflexivity|]. destruct e; cbn [app]; rewrite ?IH; reflexivity. Qed.

(* A goroutine whose attempts fail `pre` times (in any way) and then succeed with key k: it ends with
   exactly that key, hands over exactly ONE connection, paused once per failure, dialled once per
   attempt, closed the transport of every failed handshake and of nothing else. *)
Lemma conn_loop_spec : forall pre direct b k rest,
  forallb is_fail pre = true ->
  let '(evs, r) := conn_loop direct b (pre ++ AOk k :: rest) in
  r = Some k /\ count_ev is_deliver evs = 1 /\ count_ev is_sleep evs = length pre /\
  count_ev is_dial evs = S (length pre) /\ count_ev is_close evs = length (filter is_hsfail pre).
Proof.
  induction pre as [|a pre IH]; intros direct b k rest Hf.
  - cbn. repeat split; reflexivity.
  - cbn [forallb] in Hf. apply andb_prop in Hf. destruct Hf as [Ha Hf]. destruct a; try discriminate.
    + cbn [app conn_loop]. specialize (IH direct b k rest Hf). destruct (conn_loop direct b (pre ++ AOk k :: rest)) as [evs r].
      destruct IH as (A & B & C & D & E). cbn. repeat split; auto; lia.
    + cbn [app conn_loop]. specialize (IH direct (fallback direct b) k rest Hf).
      destruct (conn_loop direct (fallback direct b) (pre ++ AOk k :: rest)) as [evs r].
      destruct IH as (A & B & C & D & E). cbn. repeat split; auto; lia.
Qed.

(* while the script holds no success the goroutine is still retrying: nothing handed over *)
Lemma conn_loop_still_retrying : forall s direct b, forallb is_fail s = true ->
  snd (conn_loop direct b s) = None /\ count_ev is_deliver (fst (conn_loop direct b s)) = 0.
Proof.
  induction s as [|a s IH]; intros direct b Hf; [split; reflexivity|].
  cbn [forallb] in Hf. apply andb_prop in Hf. destruct Hf as [Ha Hf]. destruct a; try discriminate; cbn [conn_loop].
  - destruct (IH direct b Hf) as [A B]. destruct (conn_loop direct b s) as [evs r]. cbn [fst snd] in *.
    split; [exact A|]. rewrite count_ev_app. cbn. exact B.
  - destruct (IH direct (fallback direct b) Hf) as [A B]. destruct (conn_loop direct (fallback direct b) s) as [evs r]. cbn [fst snd] in *.
    split; [exact A|]. rewrite count_ev_app. cbn. exact B.
Qed.

(* the signature: the configured one until the first failed handshake, its fallback ever after (chrome ->
   firefox in direct mode only; firefox, safari and the CDN transport never change) *)
Lemma fallback_idem direct b : fallback direct (fallback direct b) = fallback direct b.
Proof. destruct direct, b; reflexivity. Qed.

Lemma conn_loop_signatures : forall s direct b,
  forall b', In b' (creates (fst (conn_loop direct b s))) -> b' = b \/ b' = fallback direct b.
Proof.
  induction s as [|a s IH]; intros direct b b' Hin; [cbn in Hin; contradiction|].
  destruct a; cbn [conn_loop] in Hin.
  - destruct (conn_loop direct b s) as [evs r] eqn:E. cbn [fst] in Hin. rewrite creates_app in Hin. cbn in Hin.
    destruct Hin as [<-|Hin]; [left; reflexivity|]. apply (IH direct b). rewrite E. exact Hin.
  - destruct (conn_loop direct (fallback direct b) s) as [evs r] eqn:E. cbn [fst] in Hin. rewrite creates_app in Hin. cbn in Hin.
    destruct Hin as [<-|Hin]; [left; reflexivity|].
    right. destruct (IH direct (fallback direct b) b') as [H|H]; [rewrite E; exact Hin|exact H|rewrite H; apply fallback_idem].
  - cbn in Hin. destruct Hin as [<-|[]]. left. reflexivity.
Qed.

Definition is_dialfail (a : attempt) := match a with ADialFail => true | _ => false end.
Lemma conn_loop_before_first_hsfail : forall pre direct b s,
  forallb is_dialfail pre = true ->
  firstn (length pre) (creates (fst (conn_loop direct b (pre ++ s)))) = repeat b (length pre).
Proof.
  induction pre as [|a pre IH]; intros direct b s Hf; [reflexivity|].
  cbn [forallb] in Hf. apply andb_prop in Hf. destruct Hf as [Ha Hf]. destruct a; try discriminate; cbn [app conn_loop].
  destruct (conn_loop direct b (pre ++ s)) as [evs r] eqn:E. cbn [fst length repeat creates firstn].
  f_equal. specialize (IH direct b s Hf). rewrite E in IH. exact IH.
Qed.

Lemma conn_loop_after_hsfail : forall direct b s b',
  In b' (creates (fst (conn_loop direct b (AHsFail :: s)))) ->
  b' = b \/ b' = fallback direct b.
Proof. intros. eapply conn_loop_signatures; eassumption. Qed.

(* MakeSession: it returns only when every goroutine has its connection; the session is given exactly
   one connection per goroutine; its key is one of the keys the successful handshakes returned - so when
   the server hands every connection of the session the same key (C06_same_session_same_key), that key *)
Lemma all_some_spec : forall l ks, all_some l = Some ks -> l = map Some ks.
Proof.
  induction l as [|o l IH]; intros ks H; cbn [all_some] in H.
  - injection H as <-. reflexivity.
  - destruct o as [k|]; [|discriminate]. destruct (all_some l) as [ks'|] eqn:E; [|discriminate].
    injection H as <-. cbn [map]. f_equal. apply IH. reflexivity.
Qed.

Lemma make_session_spec : forall direct b scripts order key n,
  make_session direct b scripts order = Some (key, n) ->
  n = length scripts /\
  (forall s, In s scripts -> exists k, snd (conn_loop direct b s) = Some k) /\
  (last order 0 < length scripts -> exists s, In s scripts /\ snd (conn_loop direct b s) = Some key).
Proof.
  intros direct b scripts order key n H. unfold make_session in H.
  destruct (all_some (map (fun s => snd (conn_loop direct b s)) scripts)) as [ks|] eqn:E; [|discriminate].
  apply all_some_spec in E.
  assert (Hlen : length ks = length scripts).
  { apply (f_equal (@length _)) in E. rewrite !map_length in E. symmetry. exact E. }
  destruct order as [|o order]; [discriminate|]. injection H as <- <-.
  repeat split; [exact Hlen| |].
  - intros s Hs. apply (in_map (fun s => snd (conn_loop direct b s))) in Hs. rewrite E in Hs.
    apply in_map_iff in Hs. destruct Hs as (k & Hk & _). exists k. symmetry. exact Hk.
  - intros Hlt.
    assert (Hin : In (nth (last (o :: order) 0) ks 0%N) ks) by (apply nth_In; rewrite Hlen; exact Hlt).
    apply (in_map Some) in Hin. rewrite <- E in Hin. apply in_map_iff in Hin. destruct Hin as (s & Hs & Hi).
    exists s. split; [exact Hi|exact Hs].
Qed.

Lemma make_session_same_key : forall direct b scripts order key n K,
  make_session direct b scripts order = Some (key, n) -> last order 0 < length scripts ->
  (forall s k, In s scripts -> snd (conn_loop direct b s) = Some k -> k = K) -> key = K.
Proof.
  intros direct b scripts order key n K H Hlt Hall.
  destruct (make_session_spec _ _ _ _ _ _ H) as (_ & _ & Hk). destruct (Hk Hlt) as (s & Hin & Hs). exact (Hall s key Hin Hs).
Qed.

(* non-vacuity *)
Example connector_example :
  conn_loop true Chrome [ADialFail; AHsFail; ADialFail; AOk 7%N] =
    ([GCreate Chrome; GDial; GSleep; GCreate Chrome; GDial; GHandshake; GCloseTransport; GSleep;
      GCreate Firefox; GDial; GSleep; GCreate Firefox; GDial; GHandshake; GStore 7%N; GDeliver], Some 7%N) /\
  make_session true Chrome [[AOk 7%N]; [AHsFail; AOk 7%N]; [AOk 7%N]] [2; 0; 1] = Some (7%N, 3) /\
  make_session false Chrome [[AOk 7%N]; [AHsFail]] [0; 1] = None.
Proof. repeat split; reflexivity. Qed.
