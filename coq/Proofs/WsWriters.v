(* Proofs about Model/WsWriters.v: writers of one WebSocketConn serialised by the write mutex deliver
   whole messages, each once, in the order the writes were serialised (C05). *)
From Coq Require Import NArith Arith List Lia Bool.
From Cloak Require Import Model.Record Proofs.Record Model.WsWriters.
Import ListNotations.

(* ---- fragmentation and reassembly ------------------------------------------------------- *)
Lemma chunk_nonempty fuel n m : chunk fuel n m <> [].
Proof. destruct fuel; cbn [chunk]; [discriminate|]. destruct (Nat.leb _ _); discriminate. Qed.

Lemma chunk_concat fuel n : forall m, concat (chunk fuel n m) = m.
Proof.
  induction fuel as [|f IH]; intros m; cbn [chunk].
  - cbn. apply app_nil_r.
  - destruct (Nat.leb (length m) (S n)).
    + cbn. apply app_nil_r.
    + cbn [concat]. rewrite IH. apply firstn_skipn.
Qed.

Lemma reasm_mark_last cs : forall acc rest, cs <> [] ->
  reasm acc (mark_last cs ++ rest) = ((acc ++ concat cs) :: fst (reasm [] rest), snd (reasm [] rest)).
Proof.
  induction cs as [|c r IH]; intros acc rest Hne; [contradiction|].
  destruct r as [|c' r'].
  - cbn [mark_last app reasm wf_fin wf_data concat]. rewrite app_nil_r. destruct (reasm [] rest) as [ms p]. reflexivity.
  - change (mark_last (c :: c' :: r')) with ({| wf_fin := false; wf_data := c |} :: mark_last (c' :: r')).
    cbn [app reasm wf_fin wf_data]. rewrite IH by discriminate. cbn [concat]. now rewrite <- app_assoc.
Qed.

Lemma reasm_frag n m acc rest :
  reasm acc (frag n m ++ rest) = ((acc ++ m) :: fst (reasm [] rest), snd (reasm [] rest)).
Proof. unfold frag. rewrite reasm_mark_last by apply chunk_nonempty. now rewrite chunk_concat. Qed.

Lemma reasm_msgs n ms : forall rest,
  reasm [] (concat (map (frag n) ms) ++ rest) = (ms ++ fst (reasm [] rest), snd (reasm [] rest)).
Proof.
  induction ms as [|m r IH]; intros rest; cbn [map concat app].
  - now destruct (reasm [] rest).
  - rewrite <- app_assoc, reasm_frag, IH. reflexivity.
Qed.

Definition nofin (f : wframe) : Prop := wf_fin f = false.

Lemma mark_last_strict_prefix cs : forall e p, e ++ p = mark_last cs -> p <> [] -> Forall nofin e.
Proof.
  induction cs as [|c r IH]; intros e p H Hp.
  - cbn in H. destruct e; [constructor|discriminate].
  - destruct r as [|c' r'].
    + cbn [mark_last] in H. destruct e as [|f e']; [constructor|].
      injection H as _ H. destruct e'; [|discriminate]. cbn in H. subst p. contradiction.
    + change (mark_last (c :: c' :: r')) with ({| wf_fin := false; wf_data := c |} :: mark_last (c' :: r')) in H.
      destruct e as [|f e']; [constructor|]. injection H as Hf H. constructor.
      * subst f. reflexivity.
      * apply (IH e' p H Hp).
Qed.

Lemma reasm_nofin e : forall acc, Forall nofin e -> fst (reasm acc e) = [].
Proof.
  induction e as [|f r IH]; intros acc H; [reflexivity|]. inversion H as [|? ? Hf Hr]; subst.
  cbn [reasm]. unfold nofin in Hf. rewrite Hf. now apply IH.
Qed.

(* ---- the schedule of the mutex ----------------------------------------------------------- *)
Lemma run_sched_snoc {A} sched : forall (qs : list (list A)) l qf i x qf',
  run_sched qs sched = Some (l, qf) -> pop_nth i qf = Some (x, qf') ->
  run_sched qs (sched ++ [i]) = Some (l ++ [x], qf').
Proof.
  induction sched as [|j t IH]; intros qs l qf i x qf' H Hp; cbn [run_sched app] in *.
  - injection H as <- <-. rewrite Hp. reflexivity.
  - destruct (pop_nth j qs) as [[y qs']|]; [|discriminate].
    destruct (run_sched qs' t) as [[l' qf'']|] eqn:Er; [|discriminate]. injection H as <- <-.
    rewrite (IH _ _ _ _ _ _ Er Hp). reflexivity.
Qed.

Lemma lock_order_app a b : lock_order (a ++ b) = lock_order a ++ lock_order b.
Proof.
  induction a as [|[i x] t IH]; [reflexivity|]. cbn [app lock_order]. destruct x; cbn [app]; now rewrite IH.
Qed.

(* ---- invariant --------------------------------------------------------------------------- *)
Definition WInv (n : nat) (qs : list (list (list N))) (sched : list nat) (st : wstate) : Prop :=
  exists done cur emitted,
    run_sched qs sched = Some (done ++ cur, w_queues st)
    /\ w_wire st = concat (map (frag n) done) ++ emitted
    /\ match w_lock st with
       | None => cur = [] /\ emitted = [] /\ w_pending st = []
       | Some _ => exists m, cur = [m] /\ emitted ++ w_pending st = frag n m
       end.

Lemma WInv_init n qs : WInv n qs [] (w_init qs).
Proof. exists [], [], []. cbn. repeat split. Qed.

Lemma WInv_step n qs sched st i a st' : WInv n qs sched st -> wstep n st (i, a) = Some st' ->
  WInv n qs (sched ++ lock_order [(i, a)]) st'.
Proof.
  intros (done & cur & em & Hr & Hw & Hl) Hs. unfold wstep in Hs. destruct a.
  - (* WLock *)
    destruct (w_lock st) as [j|] eqn:El; [discriminate|]. destruct Hl as (-> & -> & Hp).
    destruct (pop_nth i (w_queues st)) as [[m qs']|] eqn:Ep; [|discriminate]. injection Hs as <-.
    exists done, [m], []. cbn [w_lock w_queues w_pending w_wire lock_order]. rewrite app_nil_r in Hr.
    split; [exact (run_sched_snoc _ _ _ _ _ _ _ Hr Ep)|]. split; [exact Hw|]. exists m. split; reflexivity.
  - (* WEmit *)
    destruct (w_lock st) as [j|] eqn:El; [|discriminate]. destruct (w_pending st) as [|f r] eqn:Epd; [discriminate|].
    destruct (Nat.eqb i j); [|discriminate]. injection Hs as <-. destruct Hl as (m & -> & Hf).
    exists done, [m], (em ++ [f]). cbn [w_lock w_queues w_pending w_wire lock_order]. rewrite app_nil_r.
    split; [exact Hr|]. split; [rewrite Hw; now rewrite app_assoc|]. exists m. split; [reflexivity|].
    rewrite <- app_assoc. exact Hf.
  - (* WUnlock *)
    destruct (w_lock st) as [j|] eqn:El; [|discriminate]. destruct (w_pending st) as [|f r] eqn:Epd; [|discriminate].
    destruct (Nat.eqb i j); [|discriminate]. injection Hs as <-. destruct Hl as (m & -> & Hf).
    rewrite app_nil_r in Hf. subst em.
    exists (done ++ [m]), [], []. cbn [w_lock w_queues w_pending w_wire lock_order]. rewrite !app_nil_r.
    split; [exact Hr|]. split; [|repeat split].
    rewrite Hw, map_app, concat_app. cbn [map concat]. now rewrite app_nil_r.
Qed.

Lemma WInv_run n qs tr : forall sched st st', WInv n qs sched st -> wrun n st tr = Some st' ->
  WInv n qs (sched ++ lock_order tr) st'.
Proof.
  induction tr as [|[i a] t IH]; intros sched st st' HI Hr; cbn [wrun] in Hr.
  - injection Hr as <-. cbn. now rewrite app_nil_r.
  - destruct (wstep n st (i, a)) as [st1|] eqn:Es; [|discriminate].
    pose proof (WInv_step _ _ _ _ _ _ _ HI Es) as H1. pose proof (IH _ _ _ H1 Hr) as H2.
    change ((i, a) :: t) with ([(i, a)] ++ t). rewrite lock_order_app, app_assoc. exact H2.
Qed.

(* ---- the theorem -------------------------------------------------------------------------- *)
(* For every number of writers, every queue of messages per writer, every write-buffer size and
   EVERY interleaving of the writers' steps: the messages that took the mutex, in that order (l),
   are an order-preserving merge of the writers' queues; the peer's message reader gets exactly l
   when no write is in progress, and at any moment a prefix of l missing at most the message being
   written - never a message that nobody wrote, never one twice, never two mixed. *)
Lemma ws_no_interleave n qs tr st : wrun n (w_init qs) tr = Some st ->
  exists l, run_sched qs (lock_order tr) = Some (l, w_queues st)
    /\ (forall i, nth i qs [] = sel i (lock_order tr) l ++ nth i (w_queues st) [])
    /\ (w_lock st = None -> reasm [] (w_wire st) = (l, []))
    /\ exists k, fst (reasm [] (w_wire st)) = firstn k l /\ (length l <= S k)%nat.
Proof.
  intros Hr. destruct (WInv_run _ _ _ _ _ _ (WInv_init n qs) Hr) as (done & cur & em & Hs & Hw & Hl).
  cbn [app] in Hs. exists (done ++ cur). split; [exact Hs|].
  split; [exact (proj2 (proj2 (run_sched_spec _ _ _ _ Hs)))|]. split.
  - intros El. rewrite El in Hl. destruct Hl as (-> & -> & _). rewrite Hw, reasm_msgs. cbn. now rewrite !app_nil_r.
  - destruct (w_lock st) as [j|].
    + destruct Hl as (m & -> & Hf). destruct (w_pending st) as [|f r] eqn:Ep.
      * rewrite app_nil_r in Hf. subst em. exists (length (done ++ [m])). rewrite firstn_all. split; [|lia].
        rewrite Hw. replace (concat (map (frag n) done) ++ frag n m) with (concat (map (frag n) (done ++ [m])) ++ []).
        -- rewrite reasm_msgs. cbn. now rewrite app_nil_r.
        -- rewrite map_app, concat_app. cbn [map concat]. now rewrite !app_nil_r.
      * exists (length done). rewrite firstn_app, firstn_all, Nat.sub_diag. cbn [firstn]. split.
        -- rewrite Hw, reasm_msgs. cbn [fst]. f_equal. apply reasm_nofin.
           apply (mark_last_strict_prefix _ _ (f :: r) Hf). discriminate.
        -- rewrite app_length. cbn. lia.
    + destruct Hl as (-> & -> & _). exists (length done). rewrite !app_nil_r, firstn_all. split; [|lia].
      rewrite Hw, reasm_msgs. cbn. now rewrite app_nil_r.
Qed.

(* the holder of the mutex can always take its next step: nobody waits for ever *)
Lemma ws_holder_moves n st j : w_lock st = Some j ->
  (exists st', wstep n st (j, WEmit) = Some st') \/ (exists st', wstep n st (j, WUnlock) = Some st').
Proof.
  intros El. unfold wstep. rewrite El, Nat.eqb_refl. destruct (w_pending st); [right|left]; eexists; reflexivity.
Qed.

(* and the reader side (C05_ws_whole_or_error) turns each of these messages into one successful Read *)
Lemma ws_reads_whole buflen : forall (l : list (list N)) (pss : list (list piece)),
  Forall2 (fun ps m => all_data ps /\ ws_message ps = m) pss l -> fits buflen l ->
  map (ws_read buflen true) pss = map WsOk l.
Proof.
  intros l pss H. induction H as [|ps m pss' l' (Ha & Hm) _ IH]; intros Hf; [reflexivity|].
  inversion Hf as [|? ? Hm1 Hf1]; subst. cbn [map]. rewrite IH by exact Hf1. f_equal.
  apply (proj1 (proj2 (ws_whole_or_error buflen ps)) Ha). exact Hm1.
Qed.

(* ---- without the mutex --------------------------------------------------------------------- *)
Definition u_init (qs : list (list (list N))) : ustate :=
  {| u_queues := qs; u_pending := map (fun _ => []) qs; u_wire := [] |}.

(* two writers, a 4-byte and a 1-byte message, write buffer of 2 bytes: the second writer's frame
   lands between the two frames of the first; the peer reads [1;2;9] and [3;4] - neither was written *)
Lemma ws_unlocked_interleaves :
  exists tr st, urun 1 (u_init [[[1;2;3;4]]; [[9]]]%N) tr = Some st
    /\ fst (reasm [] (u_wire st)) = [[1;2;9]; [3;4]]%N
    /\ ~ In [1;2;9]%N [[1;2;3;4]; [9]]%N.
Proof.
  exists [(0, WLock); (0, WEmit); (1, WLock); (1, WEmit); (0, WEmit)]%nat. eexists. split; [reflexivity|].
  split; [reflexivity|]. intros [H|[H|[]]]; discriminate.
Qed.

(* the same trace is not a run of the system with the mutex: the second writer is not enabled *)
Lemma ws_locked_refuses_that_trace :
  wrun 1 (w_init [[[1;2;3;4]]; [[9]]]%N) [(0, WLock); (0, WEmit); (1, WLock)]%nat = None.
Proof. reflexivity. Qed.

(* non-vacuity of ws_no_interleave: a run with both writers, fragmentation included *)
Lemma ws_example :
  exists st, wrun 1 (w_init [[[1;2;3;4]; [5]]; [[9]]]%N)
                 [(0, WLock); (0, WEmit); (0, WEmit); (0, WUnlock); (1, WLock); (1, WEmit); (1, WUnlock);
                  (0, WLock); (0, WEmit); (0, WUnlock)]%nat = Some st
    /\ reasm [] (w_wire st) = ([[1;2;3;4]; [9]; [5]]%N, []) /\ w_lock st = None /\ length (w_wire st) = 4%nat.
Proof. eexists. repeat split. Qed.
