(* How each building block of Model/Mux.v acts on the view of one direction of one stream
   (Proofs/MuxView.v): which visible actions it performs, and that the frames it reports
   are exactly the frames those actions put on the wire. *)
From Coq Require Import NArith ZArith List Bool Lia Sorting.Permutation.
From Coq Require Import ZifyN ZifyBool.
From Cloak Require Import Model.Reorder Model.Mux Proofs.MuxBase Proofs.MuxSafety Proofs.MuxView Proofs.MuxWire.
Import ListNotations.
Local Open Scope N_scope.

Section Effect.
Variable s : side.
Variable sid : N.
Let o := other s.

Notation inflight := (inflight s sid).
Notation sview := (sview s sid).
Notation rview := (rview s sid).
Notation quiet := (quiet s sid).
Notation keep := (keep sid).
Notation vstep := (vstep s sid false).
Notation vsteps := (vsteps s sid false).
Notation ev_frames := (ev_frames s sid).

Definition arrivals (l : list act) : list wframe :=
  flat_map (fun a => match a with AArrive fr => [fr] | _ => [] end) l.
Lemma arrivals_app a b : arrivals (a ++ b) = arrivals a ++ arrivals b.
Proof. unfold arrivals. apply flat_map_app. Qed.

Definition sv (st : stream) : N * N * bool := (st_seq st, st_wcl st, st_closed st).
Definition rv (st : stream) : rbuf * bool := (st_rb st, st_closed st).

Lemma side_eqb_eq a b : side_eqb a b = true <-> a = b.
Proof. destruct a, b; cbn; split; intros H; try reflexivity; discriminate. Qed.
Lemma side_eqb_other x : side_eqb x (other x) = false. Proof. now destruct x. Qed.
Lemma side_eqb_other' x : side_eqb (other x) x = false. Proof. now destruct x. Qed.
Lemma side_cases x : x = s \/ x = o. Proof. unfold o. destruct x, s; auto. Qed.
Lemma o_neq_s : o <> s. Proof. unfold o. destruct s; discriminate. Qed.

Lemma sview_set_sess y x se :
  sview (set_sess y x se) = if side_eqb x s then option_map sv (lookup sid (se_objs se)) else sview y.
Proof. unfold MuxView.sview. rewrite sess_set. destruct (side_eqb x s); reflexivity. Qed.
Lemma rview_set_sess y x se :
  rview (set_sess y x se) = if side_eqb x o then option_map rv (lookup sid (se_objs se)) else rview y.
Proof. unfold MuxView.rview. fold o. rewrite sess_set. destruct (side_eqb x o); reflexivity. Qed.
Lemma sview_set_conns y cs : sview (set_conns y cs) = sview y.
Proof. unfold MuxView.sview. now rewrite sess_set_conns. Qed.
Lemma rview_set_conns y cs : rview (set_conns y cs) = rview y.
Proof. unfold MuxView.rview. now rewrite sess_set_conns. Qed.
Lemma sview_def y : sview y = option_map sv (lookup sid (se_objs (sess y s))).
Proof. reflexivity. Qed.
Lemma rview_def y : rview y = option_map rv (lookup sid (se_objs (sess y o))).
Proof. reflexivity. Qed.

(* a session whose objects are unchanged, put back: quiet *)
Lemma quiet_set_sess_same_objs y x se :
  se_objs se = se_objs (sess y x) -> quiet y (set_sess y x se).
Proof.
  intros H. split; [rewrite inflight_set_sess; reflexivity|]. split.
  - left. rewrite sview_set_sess. destruct (side_eqb x s) eqn:E; [|reflexivity].
    apply side_eqb_eq in E. subst x. now rewrite H.
  - left. rewrite rview_set_sess. destruct (side_eqb x o) eqn:E; [|reflexivity].
    apply side_eqb_eq in E. subst x. now rewrite H.
Qed.

Lemma quiet_set_pend y p : quiet y (set_pend y p).
Proof. apply quiet_same; [reflexivity|now rewrite sess_set_pend|fold o; now rewrite sess_set_pend]. Qed.
Lemma quiet_set_now y t : quiet y (set_now y t).
Proof. apply quiet_same; [reflexivity|now rewrite sess_set_now|fold o; now rewrite sess_set_now]. Qed.

(* ---- closeAll ---- *)
Lemma close_all_quiet y x y' evs : close_all y x = (y', evs) -> quiet y y' /\ ev_frames evs = [].
Proof.
  unfold close_all. intros H. destruct (se_broken (sess y x)); [injection H as <- <-; split; [apply quiet_refl|reflexivity]|].
  destruct (close_ends x (se_pool (sess y x)) (sy_conns y)) as [cs e] eqn:Ece. injection H as <- <-.
  split.
  - split; [|split].
    + pose proof (close_ends_q s x (se_pool (sess y x)) (sy_conns y)) as Hq. rewrite Ece in Hq. cbn in Hq.
      rewrite (inflight_conns_q s sid (set_sess y x (upd_broken (sess y x) true)) cs).
      * rewrite inflight_set_sess. reflexivity.
      * rewrite conns_set_sess. exact Hq.
    + left. rewrite sview_set_conns, sview_set_sess. destruct (side_eqb x s) eqn:E; [|reflexivity].
      apply side_eqb_eq in E. subst x. reflexivity.
    + left. rewrite rview_set_conns, rview_set_sess. destruct (side_eqb x o) eqn:E; [|reflexivity].
      apply side_eqb_eq in E. subst x. reflexivity.
  - (* close_ends only reports connection closes *)
    clear - Ece. revert cs e Ece. generalize (sy_conns y). induction (se_pool (sess y x)) as [|c t IH]; intros cs0 cs e H; cbn in H.
    + injection H as <- <-. reflexivity.
    + destruct (nthN (N.to_nat c) cs0) as [cn|]; [|eapply IH; eauto].
      destruct (conn_closed_end cn x); [eapply IH; eauto|].
      destruct (close_ends x t _) as [cs' evs'] eqn:E2. injection H as <- <-. cbn. eapply IH; eauto.
Qed.

(* ---- closeSession ---- *)
Lemma sweep_lookup tab : forall objs cnt id,
  let '(t', o', c') := sweep tab objs cnt in
  match lookup id objs with
  | None => lookup id o' = None
  | Some st => lookup id o' = Some st \/
               (st_closed st = false /\ lookup id o' = Some (mkS (st_seq st) (st_wcl st) true (rb_close (st_rb st))))
  end.
Proof.
  intros objs cnt id. pose proof (sweep_spec tab objs cnt) as H.
  destruct (sweep tab objs cnt) as [[t' o'] c']. destruct H as (S1 & S2 & _).
  destruct (lookup id objs) as [st|] eqn:El.
  - destruct (S2 _ _ El) as (st' & Hl'). destruct (S1 _ _ Hl') as (st0 & Hl0 & Hd).
    rewrite El in Hl0. injection Hl0 as <-. destruct Hd as [->|[Hc ->]]; [left|right]; auto.
  - destruct (lookup id o') as [st'|] eqn:El'; [|reflexivity].
    destruct (S1 _ _ El') as (st0 & Hl0 & _). congruence.
Qed.

Lemma close_session_core_quiet y x se ok :
  close_session_core (sess y x) = (se, ok) -> quiet y (set_sess y x se).
Proof.
  unfold close_session_core. intros H. destruct (se_closed (sess y x)).
  - injection H as <- <-. apply quiet_set_sess_same_objs. reflexivity.
  - pose proof (sweep_lookup (se_tab (sess y x)) (se_objs (sess y x)) (se_count (sess y x)) sid) as Hs.
    destruct (sweep _ _ _) as [[t' o'] c']. injection H as <- <-.
    split; [rewrite inflight_set_sess; reflexivity|]. split.
    + rewrite sview_set_sess. destruct (side_eqb x s) eqn:E; [|apply sclose_refl].
      apply side_eqb_eq in E. subst x. cbn [se_objs upd_count upd_objs]. rewrite sview_def.
      destruct (lookup sid (se_objs (sess y s))) as [st|].
      * destruct Hs as [->|[Hc ->]]; [apply sclose_refl|]. right. exists (st_seq st), (st_wcl st), (st_wcl st).
        cbn. unfold sv. rewrite Hc. split; reflexivity.
      * rewrite Hs. apply sclose_refl.
    + rewrite rview_set_sess. destruct (side_eqb x o) eqn:E; [|apply rclose_refl].
      apply side_eqb_eq in E. subst x. cbn [se_objs upd_count upd_objs]. rewrite rview_def.
      destruct (lookup sid (se_objs (sess y o))) as [st|].
      * destruct Hs as [->|[Hc ->]]; [apply rclose_refl|]. right. exists (st_rb st).
        cbn. unfold rv. rewrite Hc. split; reflexivity.
      * rewrite Hs. apply rclose_refl.
Qed.

Lemma passive_close_quiet y x y' evs : passive_close y x = (y', evs) -> quiet y y' /\ ev_frames evs = [].
Proof.
  unfold passive_close. intros H. destruct (close_session_core (sess y x)) as [se ok] eqn:Ecs.
  pose proof (close_session_core_quiet _ _ _ _ Ecs) as Hq.
  destruct ok; [|injection H as <- <-; split; [apply quiet_refl|reflexivity]].
  destruct (close_all_quiet _ _ _ _ H) as [Hq2 Hf]. split; [eapply quiet_trans; eauto|exact Hf].
Qed.

(* ---- putting a frame on a connection / taking one off ---- *)
Lemma flat_map_setN_app {A B} (f : A -> list B) n v a extra l :
  nthN n l = Some a -> f v = f a ++ extra ->
  Permutation (flat_map f (setN n v l)) (extra ++ flat_map f l).
Proof.
  revert n; induction l as [|x t IH]; intros [|n] Hn Hf; cbn in *; try discriminate.
  - injection Hn as ->. rewrite Hf. rewrite (app_assoc extra).
    apply Permutation_app_tail. apply Permutation_app_comm.
  - rewrite (IH _ Hn Hf). rewrite !app_assoc. apply Permutation_app_tail. apply Permutation_app_comm.
Qed.
Lemma flat_map_setN_same {A B} (f : A -> list B) n v a l :
  nthN n l = Some a -> f v = f a -> flat_map f (setN n v l) = flat_map f l.
Proof.
  revert n; induction l as [|x t IH]; intros [|n] Hn Hf; cbn in *; try discriminate.
  - injection Hn as ->. now rewrite Hf.
  - now rewrite (IH _ Hn Hf).
Qed.
Lemma flat_map_setN_cons {A B} (f : A -> list B) n v a b l :
  nthN n l = Some a -> f a = b :: f v ->
  Permutation (flat_map f l) (b :: flat_map f (setN n v l)).
Proof.
  revert n; induction l as [|x t IH]; intros [|n] Hn Hf; cbn in *; try discriminate.
  - injection Hn as ->. rewrite Hf. reflexivity.
  - rewrite (IH _ Hn Hf). symmetry. apply Permutation_middle.
Qed.

Lemma conn_q_set_q_same cn x q : conn_q (conn_set_q cn x q) x = q.
Proof. destruct x, cn; reflexivity. Qed.
Lemma conn_q_set_q_other cn x q : conn_q (conn_set_q cn x q) (other x) = conn_q cn (other x).
Proof. destruct x, cn; reflexivity. Qed.

(* side x enqueues fr on connection p *)
Lemma inflight_enqueue y x p cn fr :
  nthN p (sy_conns y) = Some cn ->
  Permutation
    (inflight (set_conns y (setN p (conn_set_q cn (other x) (conn_q cn (other x) ++ [fr])) (sy_conns y))))
    ((if side_eqb x s && keep fr then [fr] else []) ++ inflight y).
Proof.
  intros Hn. unfold MuxView.inflight. fold o. cbn [sy_conns set_conns].
  destruct (side_cases x) as [->| ->].
  - fold o. rewrite side_eqb_refl. cbn [andb].
    eapply flat_map_setN_app; [exact Hn|].
    rewrite conn_q_set_q_same, filter_app. cbn [filter]. destruct (keep fr); reflexivity.
  - assert (Hso : side_eqb o s = false) by (unfold o; apply side_eqb_other').
    rewrite Hso. cbn [andb app].
    assert (Hoo : other o = s) by (unfold o; apply other_other). rewrite Hoo.
    rewrite (flat_map_setN_same _ _ _ _ _ Hn); [reflexivity|].
    f_equal. unfold o. apply conn_q_set_q_other.
Qed.

Lemma sb_send_effect y x fr p y' evs rc :
  sb_send y x fr p = (y', evs, rc) ->
  (rc = 0 /\ evs = [EFrame x p fr] /\
   Permutation (inflight y') ((if side_eqb x s && keep fr then [fr] else []) ++ inflight y) /\
   sess y' s = sess y s /\ sess y' o = sess y o)
  \/ (rc <> 0 /\ quiet y y' /\ ev_frames evs = []).
Proof.
  unfold sb_send. intros H.
  destruct (se_broken (sess y x)); [injection H as <- <- <-; right; split; [lia|split; [apply quiet_refl|reflexivity]]|].
  destruct (se_pool (sess y x)); [injection H as <- <- <-; right; split; [lia|split; [apply quiet_refl|reflexivity]]|].
  destruct (nthN (N.to_nat p) (sy_conns y)) as [cn|] eqn:En;
    [|injection H as <- <- <-; right; split; [lia|split; [apply quiet_refl|reflexivity]]].
  destruct (_ || _).
  - destruct (passive_close y x) as [y1 e1] eqn:Epc. injection H as <- <- <-.
    destruct (passive_close_quiet _ _ _ _ Epc) as [Hq Hf]. right. split; [lia|split; assumption].
  - injection H as <- <- <-. left. split; [reflexivity|split; [reflexivity|split]].
    + apply inflight_enqueue. exact En.
    + now rewrite !sess_set_conns.
Qed.

(* frames reported by a successful send *)
Lemma ev_frames_one x p fr : ev_frames [EFrame x p fr] = if side_eqb x s && keep fr then [fr] else [].
Proof. unfold MuxView.ev_frames. cbn. now rewrite app_nil_r. Qed.

(* a send that is not a frame of this direction is quiet *)
Lemma sb_send_quiet y x fr p y' evs rc :
  sb_send y x fr p = (y', evs, rc) -> side_eqb x s && keep fr = false ->
  quiet y y' /\ ev_frames evs = [].
Proof.
  intros H Hk. destruct (sb_send_effect _ _ _ _ _ _ _ H) as [(-> & -> & Hp & Hs & Ho)|(_ & Hq & Hf)]; [|auto].
  rewrite Hk in Hp. cbn in Hp. split.
  - split; [symmetry; exact Hp|]. split; left.
    + unfold MuxView.sview. now rewrite Hs.
    + unfold MuxView.rview. fold o. now rewrite Ho.
  - rewrite ev_frames_one, Hk. reflexivity.
Qed.

(* ---- Session.Close ---- *)
Lemma session_close_quiet y x ch y' ch' evs rc :
  session_close y x ch = (y', ch', evs, rc) -> quiet y y' /\ ev_frames evs = [].
Proof.
  unfold session_close. intros H. destruct (close_session_core (sess y x)) as [se ok] eqn:Ecs.
  pose proof (close_session_core_quiet _ _ _ _ Ecs) as Hq0.
  destruct ok; cbn [negb] in H; [|injection H as <- <- <- <-; split; [apply quiet_refl|reflexivity]].
  destruct (hd_pick ch) as [c ch0].
  destruct (sb_send (set_sess y x se) x _ c) as [[y2 e2] rc2] eqn:Es.
  assert (Hk : side_eqb x s && keep (mkW 4294967295 0 2 []) = false).
  { unfold MuxView.keep. cbn. now rewrite !andb_false_r. }
  destruct (sb_send_quiet _ _ _ _ _ _ _ Es Hk) as [Hq1 Hf1].
  destruct (close_all y2 x) as [y3 e3] eqn:Eca.
  destruct (close_all_quiet _ _ _ _ Eca) as [Hq2 Hf2].
  destruct (rc2 =? 0); [|destruct (rc2 =? 1)]; injection H as <- <- <- <-;
    (split; [eapply quiet_trans; [exact Hq0|]; eapply quiet_trans; eauto|now rewrite ev_frames_app, Hf1, Hf2]).
Qed.

Lemma sb_send_rc2_closed y x fr p y' evs rc :
  sb_send y x fr p = (y', evs, rc) -> rc <> 0 -> rc <> 1 -> se_closed (sess y' x) = true.
Proof.
  unfold sb_send. intros H H0 H1.
  destruct (se_broken (sess y x)); [injection H as <- <- <-; lia|].
  destruct (se_pool (sess y x)); [injection H as <- <- <-; lia|].
  destruct (nthN _ _) as [cn|]; [|injection H as <- <- <-; lia].
  destruct (_ || _).
  - destruct (passive_close y x) as [y1 e1] eqn:Epc. injection H as <- <- <-. eapply passive_close_closed; eauto.
  - injection H as <- <- <-. lia.
Qed.

(* ---- Stream.obfuscateAndSend on the stream of this view ---- *)
Lemma stream_emit_self y pay ch y' ch' evs ok st :
  lookup sid (se_objs (sess y s)) = Some st ->
  stream_emit y s sid pay ch = (y', ch', evs, ok) -> WF y -> st_wcl st <> 2 ->
  let fr := mkW sid (st_seq st) (st_wcl st) pay in
  (ok = true /\ ev_frames evs = [fr] /\ Permutation (inflight y') (fr :: inflight y) /\
     sview y' = Some (st_seq st + 1, st_wcl st, st_closed st) /\ rview y' = rview y)
  \/ (ok = false /\ ev_frames evs = [] /\ Permutation (inflight y) (inflight y') /\
      (exists w', sview y' = Some (st_seq st + 1, w', true)) /\ rclose (rview y) (rview y')).
Proof.
  intros El H Hwf Hw. cbv zeta. pose proof (stream_emit_WF _ _ _ _ _ _ _ _ _ H Hwf) as Hwf'.
  unfold stream_emit in H. rewrite El in H. cbv zeta in H.
  set (fr := mkW sid (st_seq st) (st_wcl st) pay) in *.
  set (st' := mkS (st_seq st + 1) (st_wcl st) (st_closed st) (st_rb st)) in H.
  set (y1 := set_sess y s _) in H.
  assert (Hs1 : sview y1 = Some (sv st')).
  { unfold y1. rewrite sview_set_sess, side_eqb_refl. cbn [se_objs upd_objs]. now rewrite lookup_update_eq. }
  assert (Hr1 : rview y1 = rview y).
  { unfold y1. rewrite rview_set_sess. assert (E : side_eqb s o = false) by (unfold o; apply side_eqb_other). now rewrite E. }
  assert (Hi1 : inflight y1 = inflight y) by (unfold y1; apply inflight_set_sess).
  destruct (hd_pick ch) as [c ch0].
  destruct (sb_send y1 s fr c) as [[y2 e2] rc] eqn:Es.
  assert (Hk : side_eqb s s && keep fr = true).
  { rewrite side_eqb_refl. unfold MuxView.keep, fr. cbn. rewrite N.eqb_refl. cbn. destruct (st_wcl st =? 2) eqn:E; [lia|reflexivity]. }
  destruct (sb_send_effect _ _ _ _ _ _ _ Es) as [(-> & -> & Hp & Hss & Hso)|(Hrc & Hq & Hf)].
  - cbn in H. injection H as <- <- <- <-. left. split; [reflexivity|].
    rewrite Hk in Hp. split; [rewrite ev_frames_one, Hk; reflexivity|].
    split; [rewrite Hp, Hi1; reflexivity|]. split.
    + unfold MuxView.sview. rewrite Hss. exact Hs1.
    + unfold MuxView.rview. fold o. rewrite Hso. exact Hr1.
  - destruct (rc =? 0) eqn:E0; [lia|].
    (* the failure paths: the object ends up closed because the session ends up closed *)
    assert (Hfin : forall y3, quiet y1 y3 -> WF y3 -> se_closed (sess y3 s) = true ->
               Permutation (inflight y) (inflight y3) /\
               (exists w', sview y3 = Some (st_seq st + 1, w', true)) /\ rclose (rview y) (rview y3)).
    { intros y3 (Hp3 & Hs3 & Hr3) Hwf3 Hcl3. rewrite Hi1 in Hp3. rewrite Hr1 in Hr3. split; [exact Hp3|]. split; [|exact Hr3].
      rewrite Hs1 in Hs3. unfold sv, st' in Hs3. cbn in Hs3.
      destruct Hs3 as [Hs3|(q & w & w' & Ha & Hb)].
      - (* unchanged: then it was closed already, or the closed session forces it *)
        rewrite sview_def in Hs3. destruct (lookup sid (se_objs (sess y3 s))) as [st3|] eqn:E3; [|discriminate].
        destruct (WF_sess y3 s Hwf3) as (_ & Hc3 & _). specialize (Hc3 Hcl3 _ _ E3).
        cbn in Hs3. injection Hs3 as H1 H2 H3. exists (st_wcl st). rewrite sview_def, E3. cbn. unfold sv.
        now rewrite H1, H2, Hc3.
      - injection Ha as <- <- Hc. exists w'. exact Hb. }
    destruct (rc =? 1) eqn:E1.
    + destruct (passive_close y2 s) as [y3 e3] eqn:Epc. injection H as <- <- <- <-.
      destruct (passive_close_quiet _ _ _ _ Epc) as [Hq3 Hf3].
      right. split; [reflexivity|]. split; [now rewrite ev_frames_app, Hf, Hf3|].
      apply Hfin; [eapply quiet_trans; eauto|exact Hwf'|eapply passive_close_closed; eauto].
    + injection H as <- <- <- <-. right. split; [reflexivity|]. split; [exact Hf|].
      apply Hfin; [exact Hq|exact Hwf'|]. eapply sb_send_rc2_closed; [exact Es|lia|lia].
Qed.

(* ---- ... on any other stream or by the other side: quiet ---- *)
Lemma stream_emit_other y x sid' pay ch y' ch' evs ok :
  stream_emit y x sid' pay ch = (y', ch', evs, ok) -> side_eqb x s && (sid' =? sid) = false ->
  quiet y y' /\ ev_frames evs = [].
Proof.
  unfold stream_emit. intros H Hne.
  destruct (lookup sid' (se_objs (sess y x))) as [st|] eqn:El; [|injection H as <- <- <- <-; split; [apply quiet_refl|reflexivity]].
  cbv zeta in H. set (y1 := set_sess y x _) in H.
  assert (Hq1 : quiet y y1).
  { unfold y1. split; [rewrite inflight_set_sess; reflexivity|]. split; left.
    - rewrite sview_set_sess. destruct (side_eqb x s) eqn:E; [|reflexivity].
      apply side_eqb_eq in E. subst x. cbn [andb] in Hne. cbn [se_objs upd_objs]. rewrite lookup_update_neq; [reflexivity|lia].
    - rewrite rview_set_sess. destruct (side_eqb x o) eqn:E; [|reflexivity].
      apply side_eqb_eq in E. subst x. cbn [se_objs upd_objs]. rewrite rview_def.
      rewrite lookup_update. destruct (sid =? sid') eqn:E2; [|reflexivity].
      assert (sid = sid') by lia. subst sid'. rewrite El. reflexivity. }
  destruct (hd_pick ch) as [c ch0].
  destruct (sb_send y1 x _ c) as [[y2 e2] rc] eqn:Es.
  assert (Hk : side_eqb x s && keep (mkW sid' (st_seq st) (st_wcl st) pay) = false).
  { unfold MuxView.keep. cbn [w_sid]. destruct (side_eqb x s); [|reflexivity]. cbn [andb] in *. now rewrite Hne. }
  destruct (sb_send_quiet _ _ _ _ _ _ _ Es Hk) as [Hq2 Hf2].
  destruct (rc =? 0); [injection H as <- <- <- <-; split; [eapply quiet_trans; eauto|exact Hf2]|].
  destruct (rc =? 1).
  - destruct (passive_close y2 x) as [y3 e3] eqn:Epc. injection H as <- <- <- <-.
    destruct (passive_close_quiet _ _ _ _ Epc) as [Hq3 Hf3]. split.
    + eapply quiet_trans; [exact Hq1|]. eapply quiet_trans; eauto.
    + now rewrite ev_frames_app, Hf2, Hf3.
  - injection H as <- <- <- <-. split; [eapply quiet_trans; eauto|exact Hf2].
Qed.

(* ---- closeStream ---- *)
(* the bookkeeping after the (optional) closing frame: table entry, counter, timer or Session.Close *)
Lemma close_stream_tail y2 x sid' ch2 evs2 r :
  (let se := sess y2 x in
   let cnt := decr32 (se_count se) in
   let se' := upd_count (upd_tab se (update sid' false (se_tab se))) cnt in
   let y3 := set_sess y2 x se' in
   if cnt =? 0 then
     if se_singleplex se' then
       let '(y4, ch4, evs4, _) := session_close y3 x ch2 in (y4, ch4, evs2 ++ evs4, R_OK)
     else (set_sess y3 x (upd_timers se' (se_timers se' ++ [(sy_now y3 + se_timeout se')%Z])), ch2, evs2, R_OK)
   else (y3, ch2, evs2, R_OK)) = r ->
  quiet y2 (fst (fst (fst r))) /\ ev_frames (snd (fst r)) = ev_frames evs2.
Proof.
  cbv zeta. intros H.
  set (se' := upd_count _ _) in H.
  assert (Hq3 : quiet y2 (set_sess y2 x se')) by (apply quiet_set_sess_same_objs; reflexivity).
  destruct (_ =? 0).
  - destruct (se_singleplex se').
    + destruct (session_close (set_sess y2 x se') x ch2) as [[[y4 ch4] evs4] rc4] eqn:Esc. subst r. cbn [fst snd].
      destruct (session_close_quiet _ _ _ _ _ _ _ Esc) as [Hq4 Hf4]. split; [eapply quiet_trans; eauto|].
      now rewrite ev_frames_app, Hf4, app_nil_r.
    + subst r. cbn [fst snd]. split; [|reflexivity]. eapply quiet_trans; [exact Hq3|].
      apply quiet_set_sess_same_objs. rewrite sess_set_same. reflexivity.
  - subst r. cbn [fst snd]. split; [exact Hq3|reflexivity].
Qed.

(* every closeStream except the sender's own active Close of this very stream is quiet *)
Lemma close_stream_quiet y x sid' active ch y' ch' evs rc :
  close_stream y x sid' active ch = (y', ch', evs, rc) ->
  side_eqb x s && (sid' =? sid) && active = false ->
  quiet y y' /\ ev_frames evs = [].
Proof.
  unfold close_stream. intros H Hne.
  destruct (lookup sid' (se_objs (sess y x))) as [st|] eqn:El; [|injection H as <- <- <- <-; split; [apply quiet_refl|reflexivity]].
  destruct (st_closed st) eqn:Ecl; [injection H as <- <- <- <-; split; [apply quiet_refl|reflexivity]|].
  cbv zeta in H.
  set (st1 := mkS _ _ true _) in H. set (y1 := set_sess y x _) in H.
  assert (Hq1 : quiet y y1).
  { unfold y1. split; [rewrite inflight_set_sess; reflexivity|]. split.
    - rewrite sview_set_sess. destruct (side_eqb x s) eqn:E; [|apply sclose_refl].
      apply side_eqb_eq in E. subst x. cbn [se_objs upd_objs]. rewrite lookup_update.
      destruct (sid =? sid') eqn:E2; [|apply sclose_refl].
      assert (sid = sid') by lia. subst sid'. right. rewrite sview_def, El.
      exists (st_seq st), (st_wcl st), (st_wcl st1). cbn. unfold sv. rewrite Ecl. split; reflexivity.
    - rewrite rview_set_sess. destruct (side_eqb x o) eqn:E; [|apply rclose_refl].
      apply side_eqb_eq in E. subst x. cbn [se_objs upd_objs]. rewrite lookup_update.
      destruct (sid =? sid') eqn:E2; [|apply rclose_refl].
      assert (sid = sid') by lia. subst sid'. right. rewrite rview_def, El.
      exists (st_rb st). cbn. unfold rv. rewrite Ecl. split; reflexivity. }
  destruct (if active then stream_emit y1 x sid' [] ch else (y1, ch, [], true)) as [[[y2 ch2] evs2] ok] eqn:Ee.
  assert (He : quiet y1 y2 /\ ev_frames evs2 = []).
  { destruct active.
    - eapply stream_emit_other; [exact Ee|]. rewrite andb_true_r in Hne. exact Hne.
    - injection Ee as <- <- <- <-. split; [apply quiet_refl|reflexivity]. }
  destruct He as [Hq2 Hf2].
  destruct ok; cbn [negb] in H.
  - apply close_stream_tail in H. cbn [fst snd] in H. destruct H as [Hq3 Hf3]. split.
    + eapply quiet_trans; [exact Hq1|]. eapply quiet_trans; eauto.
    + now rewrite Hf3.
  - injection H as <- <- <- <-. split; [eapply quiet_trans; eauto|exact Hf2].
Qed.

(* the sender's active Close of this stream: number the closing frame, put it on the wire *)
Lemma close_stream_self y ch y' ch' evs rc q w :
  close_stream y s sid true ch = (y', ch', evs, rc) -> WF y -> sview y = Some (q, w, false) ->
  exists acts, vsteps y acts y' /\ emitted acts = ev_frames evs /\ readout acts = [] /\ arrivals acts = [].
Proof.
  unfold close_stream. intros H Hwf Hsv.
  rewrite sview_def in Hsv. destruct (lookup sid (se_objs (sess y s))) as [st|] eqn:El; [|discriminate].
  cbn in Hsv. unfold sv in Hsv. injection Hsv as Hq Hw Hc. rewrite Hc in H. cbv zeta in H.
  set (st1 := mkS _ _ true _) in H. set (y1 := set_sess y s _) in H.
  assert (El1 : lookup sid (se_objs (sess y1 s)) = Some st1).
  { unfold y1. rewrite sess_set_same. cbn [se_objs upd_objs]. apply lookup_update_eq. }
  assert (Hwf1 : WF y1).
  { unfold y1. apply WF_set_sess; [exact Hwf| | |].
    - destruct (WF_sess y s Hwf) as (Ho & _ & _). destruct (Ho _ _ El) as (_ & _ & H3).
      apply WFse_upd_obj; [apply WF_sess; exact Hwf|reflexivity|discriminate|reflexivity|exact H3].
    - reflexivity.
    - cbn; auto. }
  assert (Hi1 : inflight y1 = inflight y) by (unfold y1; apply inflight_set_sess).
  assert (Hr1 : rview y1 = rview y).
  { unfold y1. rewrite rview_set_sess. assert (E : side_eqb s o = false) by (unfold o; apply side_eqb_other). now rewrite E. }
  destruct (stream_emit y1 s sid [] ch) as [[[y2 ch2] evs2] ok] eqn:Ee.
  assert (Hw1 : st_wcl st1 <> 2) by (cbn; lia).
  destruct (stream_emit_self _ _ _ _ _ _ _ _ El1 Ee Hwf1 Hw1) as [(-> & Hf & Hp & Hs2 & Hr2)|(-> & Hf & Hp & (w' & Hs2) & Hr2)];
    cbn [negb] in H; cbn [st_seq st_wcl st_closed st1] in *.
  - apply close_stream_tail in H. cbn [fst snd] in H. destruct H as [Hq3 Hf3].
    exists [ACloseEmit (mkW sid q 1 []); AQuiet]. split; [|split; [|split; reflexivity]].
    + econstructor; [|apply vsteps_quiet; exact Hq3].
      subst q. eapply VCloseEmit.
      * rewrite sview_def, El. cbn. unfold sv. rewrite Hc. reflexivity.
      * exact Hs2.
      * rewrite Hp, Hi1. reflexivity.
      * left. rewrite Hr2. exact Hr1.
    + cbn. rewrite Hf3, Hf. subst q. reflexivity.
  - injection H as <- <- <- <-. exists [ALost]. split; [|split; [|split; reflexivity]].
    + apply vsteps_one. subst q. eapply VLost.
      * rewrite sview_def, El. cbn. unfold sv. rewrite Hc. reflexivity.
      * exact Hs2.
      * rewrite <- Hi1. exact Hp.
      * rewrite <- Hr1. exact Hr2.
    + cbn. now rewrite Hf.
Qed.

(* ---- recvDataFromRemote on a decoded frame ---- *)

(* the "deliver" continuation of recv_frame, from a state in which the object exists or not *)
(* why a frame handed to recvDataFromRemote did not reach the re-sequencer *)
Definition discarded (y : sys) (x : side) (fr : wframe) : Prop :=
  w_cl fr = 2 \/ se_closed (sess y x) = true \/ lookup (w_sid fr) (se_tab (sess y x)) = Some false \/
  (lookup (w_sid fr) (se_tab (sess y x)) = Some true /\ lookup (w_sid fr) (se_objs (sess y x)) = None).

Lemma recv_deliver_effect y0 x fr ch r :
  WF y0 ->
  match lookup (w_sid fr) (se_objs (sess y0 x)) with
  | None => (y0, ch, [])
  | Some st =>
      let '(rb', tbc, _) := rb_write (st_rb st) (mkF (w_seq fr) (negb (w_cl fr =? 0)) (w_pay fr)) in
      let y1 := set_sess y0 x (upd_objs (sess y0 x) (update (w_sid fr) (st_set_rb st rb') (se_objs (sess y0 x)))) in
      if tbc then let '(y2, ch2, evs2, _) := close_stream y1 x (w_sid fr) false ch in (y2, ch2, evs2)
      else (y1, ch, [])
  end = r ->
  exists acts, vsteps y0 acts (fst (fst r)) /\ emitted acts = [] /\ readout acts = [] /\ ev_frames (snd r) = [] /\
    ((arrivals acts = [] /\ (x = o -> w_sid fr = sid -> lookup (w_sid fr) (se_objs (sess y0 x)) = None))
     \/ (x = o /\ w_sid fr = sid /\ arrivals acts = [fr])).
Proof.
  intros Hwf0 Hr.
  destruct (lookup (w_sid fr) (se_objs (sess y0 x))) as [st|] eqn:El.
  2:{ subst r. exists []. cbn [fst snd]. split; [constructor|]. split; [reflexivity|]. split; [reflexivity|]. split; [reflexivity|left; split; reflexivity]. }
  pose proof (rb_write_pclosed (st_rb st) (mkF (w_seq fr) (negb (w_cl fr =? 0)) (w_pay fr))) as Hpc.
  destruct (rb_write (st_rb st) _) as [[rb' tbc] er] eqn:Erw. cbn [fst] in Hpc. cbv zeta in Hr.
  set (y1 := set_sess y0 x _) in Hr.
  (* first step: y0 -> y1 *)
  assert (H1 : exists a1, vsteps y0 a1 y1 /\ emitted a1 = [] /\ readout a1 = [] /\
                 ((arrivals a1 = [] /\ (x = o -> w_sid fr = sid -> @None stream = None -> False))
                  \/ (x = o /\ w_sid fr = sid /\ arrivals a1 = [fr]))).
  { destruct (side_eqb x o && (w_sid fr =? sid)) eqn:Eo.
    - apply andb_prop in Eo as [E1 E2]. apply side_eqb_eq in E1. subst x. assert (Hsid : w_sid fr = sid) by lia.
      exists [AArrive fr]. split; [|split; [reflexivity|split; [reflexivity|right; auto]]].
      apply vsteps_one. eapply (VArrive _ _ _ y0 y1 fr (st_rb st) (st_closed st)).
      + rewrite rview_def. rewrite <- Hsid, El. reflexivity.
      + unfold y1. rewrite rview_set_sess, side_eqb_refl. cbn [se_objs upd_objs]. rewrite <- Hsid, lookup_update_eq.
        cbn. unfold rv, to_frame. cbn. rewrite Erw. reflexivity.
      + unfold y1. apply inflight_set_sess.
      + unfold y1. rewrite sview_set_sess. assert (E : side_eqb o s = false) by (unfold o; apply side_eqb_other'). now rewrite E.
    - exists [AQuiet]. split; [|split; [reflexivity|split; [reflexivity|left; split; [reflexivity|]]]].
      2:{ intros -> Hs _. rewrite side_eqb_refl, Hs, N.eqb_refl in Eo. discriminate. }
      apply vsteps_quiet. unfold y1. split; [rewrite inflight_set_sess; reflexivity|]. split; left.
      + rewrite sview_set_sess. destruct (side_eqb x s) eqn:E; [|reflexivity].
        apply side_eqb_eq in E. subst x. cbn [se_objs upd_objs]. rewrite lookup_update.
        destruct (sid =? w_sid fr) eqn:E2; [|reflexivity].
        assert (sid = w_sid fr) by lia. rewrite sview_def. rewrite H, El. reflexivity.
      + rewrite rview_set_sess. destruct (side_eqb x o) eqn:E; [|reflexivity].
        cbn [andb] in Eo. cbn [se_objs upd_objs]. apply side_eqb_eq in E. subst x.
        rewrite lookup_update_neq; [reflexivity|lia]. }
  destruct H1 as (a1 & Hv1 & He1 & Hr1 & Ha1).
  destruct tbc.
  - destruct (close_stream y1 x (w_sid fr) false ch) as [[[y2 ch2] evs2] rc] eqn:Ecs. subst r. cbn [fst snd].
    assert (Hne : side_eqb x s && (w_sid fr =? sid) && false = false) by apply andb_false_r.
    destruct (close_stream_quiet _ _ _ _ _ _ _ _ _ Ecs Hne) as [Hq2 Hf2].
    exists (a1 ++ [AQuiet]). split; [eapply vsteps_app; [exact Hv1|apply vsteps_quiet; exact Hq2]|].
    rewrite emitted_app, readout_app, arrivals_app, He1, Hr1. cbn. rewrite !app_nil_r.
    split; [reflexivity|split; [reflexivity|split; [exact Hf2|]]].
    destruct Ha1 as [[Ha1 Hx]|Ha1]; [left; split; [exact Ha1|intros A B; exfalso; exact (Hx A B eq_refl)]|right; exact Ha1].
  - subst r. cbn [fst snd]. exists a1. split; [exact Hv1|]. split; [exact He1|split; [exact Hr1|split; [reflexivity|]]].
    destruct Ha1 as [[Ha1 Hx]|Ha1]; [left; split; [exact Ha1|intros A B; exfalso; exact (Hx A B eq_refl)]|right; exact Ha1].
Qed.

Lemma recv_frame_effect y x fr ch y' ch' evs :
  recv_frame y x fr ch = (y', ch', evs) -> WF y ->
  exists acts, vsteps y acts y' /\ emitted acts = [] /\ readout acts = [] /\ ev_frames evs = [] /\
    ((arrivals acts = [] /\ (x = o -> keep fr = true -> discarded y x fr))
     \/ (x = o /\ keep fr = true /\ arrivals acts = [fr])).
Proof.
  unfold recv_frame. intros H Hwf.
  destruct (w_cl fr =? 2) eqn:Ecl2.
  { destruct (passive_close y x) as [y1 e1] eqn:Epc. injection H as <- <- <-.
    destruct (passive_close_quiet _ _ _ _ Epc) as [Hq Hf].
    exists [AQuiet]. split; [apply vsteps_quiet; exact Hq|]. split; [reflexivity|split; [reflexivity|split; [exact Hf|left; split; [reflexivity|]]]].
    intros _ _. left. lia. }
  destruct (se_closed (sess y x)) eqn:Ecl.
  { injection H as <- <- <-. exists []. split; [constructor|]. split; [reflexivity|split; [reflexivity|split; [reflexivity|left; split; [reflexivity|]]]].
    intros _ _. right. left. exact Ecl. }
  assert (Hkeep : forall a, (x = o /\ w_sid fr = sid /\ arrivals a = [fr]) -> (x = o /\ keep fr = true /\ arrivals a = [fr])).
  { intros a (H1 & H2 & H3). split; [exact H1|split; [|exact H3]]. unfold MuxView.keep. rewrite H2, N.eqb_refl, Ecl2. reflexivity. }
  destruct (lookup (w_sid fr) (se_tab (sess y x))) as [[|]|] eqn:Et.
  - destruct (recv_deliver_effect y x fr ch _ Hwf H) as (acts & Hv & He & Hr & Hf & Ha). cbn [fst snd] in *.
    exists acts. split; [exact Hv|split; [exact He|split; [exact Hr|split; [exact Hf|]]]].
    destruct Ha as [[Ha Hx]|Ha]; [left; split; [exact Ha|]|right; apply Hkeep; exact Ha].
    intros Hxo Hk. right. right. right. split; [exact Et|]. apply Hx; [exact Hxo|]. unfold MuxView.keep in Hk. apply andb_prop in Hk as [Hk _]. lia.
  - injection H as <- <- <-. exists []. split; [constructor|]. split; [reflexivity|split; [reflexivity|split; [reflexivity|left; split; [reflexivity|]]]].
    intros _ _. right. right. left. exact Et.
  - set (se' := upd_count _ _) in H. set (y0 := set_sess y x se') in H.
    assert (Hwf0 : WF y0).
    { unfold y0. apply WF_set_sess; [exact Hwf| | |].
      - unfold se'. apply WFse_count, WFse_acceptq.
        apply WFse_add_stream; [apply WF_sess; exact Hwf|reflexivity|rewrite Ecl; discriminate].
      - reflexivity.
      - cbn; auto. }
    assert (Hnone : lookup (w_sid fr) (se_objs (sess y x)) = None).
    { destruct (lookup (w_sid fr) (se_objs (sess y x))) as [st|] eqn:El; [|reflexivity].
      destruct (WF_sess y x Hwf) as (Ho & _ & _). destruct (Ho _ _ El) as (_ & _ & H3). specialize (H3 Ecl). congruence. }
    assert (Hobj : se_objs se' = update (w_sid fr) new_stream (se_objs (sess y x))) by reflexivity.
    (* creation step *)
    assert (H0 : exists a0, vsteps y a0 y0 /\ emitted a0 = [] /\ readout a0 = [] /\ arrivals a0 = []).
    { destruct (w_sid fr =? sid) eqn:Es.
      - assert (Hsid : w_sid fr = sid) by lia.
        destruct (side_cases x) as [->| ->].
        + exists [ACreateS]. split; [|repeat split].
          apply vsteps_one. apply VCreateS.
          * rewrite sview_def, <- Hsid, Hnone. reflexivity.
          * unfold y0. rewrite sview_set_sess, side_eqb_refl, Hobj, <- Hsid, lookup_update_eq. reflexivity.
          * unfold y0. apply inflight_set_sess.
          * unfold y0. rewrite rview_set_sess. assert (E : side_eqb s o = false) by (unfold o; apply side_eqb_other). now rewrite E.
        + exists [ACreateR]. split; [|repeat split].
          apply vsteps_one. apply VCreateR.
          * rewrite rview_def, <- Hsid, Hnone. reflexivity.
          * unfold y0. rewrite rview_set_sess, side_eqb_refl, Hobj, <- Hsid, lookup_update_eq. reflexivity.
          * unfold y0. apply inflight_set_sess.
          * unfold y0. rewrite sview_set_sess. assert (E : side_eqb o s = false) by (unfold o; apply side_eqb_other'). now rewrite E.
      - exists [AQuiet]. split; [|repeat split]. apply vsteps_quiet. unfold y0.
        split; [rewrite inflight_set_sess; reflexivity|]. split; left.
        + rewrite sview_set_sess. destruct (side_eqb x s) eqn:E; [|reflexivity].
          apply side_eqb_eq in E. subst x. rewrite Hobj, lookup_update_neq; [reflexivity|lia].
        + rewrite rview_set_sess. destruct (side_eqb x o) eqn:E; [|reflexivity].
          apply side_eqb_eq in E. subst x. rewrite Hobj, lookup_update_neq; [reflexivity|lia]. }
    destruct H0 as (a0 & Hv0 & He0 & Hr0 & Ha0).
    destruct (recv_deliver_effect y0 x fr ch _ Hwf0 H) as (acts & Hv & He & Hr & Hf & Ha). cbn [fst snd] in *.
    exists (a0 ++ acts). split; [eapply vsteps_app; eauto|].
    rewrite emitted_app, readout_app, arrivals_app, He0, Hr0, Ha0, He, Hr. cbn [app].
    split; [reflexivity|split; [reflexivity|split; [exact Hf|]]].
    destruct Ha as [[Ha Hx]|Ha]; [left; split; [exact Ha|]|right; apply Hkeep; exact Ha].
    (* a stream that has just been created is there *)
    intros Hxo Hk. exfalso. assert (Hs : w_sid fr = sid) by (unfold MuxView.keep in Hk; apply andb_prop in Hk as [Hk _]; lia).
    specialize (Hx Hxo Hs). unfold y0 in Hx. rewrite sess_set_same, Hobj, lookup_update_eq in Hx. discriminate.
Qed.

Lemma deplex_error_quiet y x c y' evs : deplex_error y x c = (y', evs) -> quiet y y' /\ ev_frames evs = [].
Proof.
  unfold deplex_error. intros H. destruct (passive_close y x) as [y1 e1] eqn:Epc.
  destruct (passive_close_quiet _ _ _ _ Epc) as [Hq Hf].
  destruct (nthN (N.to_nat c) (sy_conns y1)) as [cn|] eqn:En; [|injection H as <- <-; split; assumption].
  destruct (conn_closed_end cn x); injection H as <- <-; [split; assumption|].
  split.
  - eapply quiet_trans; [exact Hq|]. split; [|split; left; [apply sview_set_conns|apply rview_set_conns]].
    unfold MuxView.inflight. cbn [sy_conns set_conns]. fold o.
    rewrite (flat_map_setN_same _ _ _ _ _ En); [reflexivity|].
    f_equal. destruct x, o, cn; reflexivity.
  - rewrite ev_frames_app, Hf. reflexivity.
Qed.

(* ---- application calls ---- *)
Lemma open_stream_effect y x y' evs :
  open_stream y x = (y', evs) ->
  lookup (se_nextsid (sess y x)) (se_objs (sess y x)) = None ->
  exists acts, vsteps y acts y' /\ emitted acts = [] /\ readout acts = [] /\ arrivals acts = [] /\ ev_frames evs = [].
Proof.
  unfold open_stream. intros H Hfresh.
  destruct (se_closed (sess y x)).
  { injection H as <- <-. exists []. split; [constructor|repeat split]. }
  cbv zeta in H. set (id := se_nextsid (sess y x)) in *. set (se1 := upd_nextsid _ _) in H.
  destruct (_ && _).
  { injection H as <- <-. exists [AQuiet]. split; [|repeat split].
    apply vsteps_quiet. apply quiet_set_sess_same_objs. reflexivity. }
  injection H as <- <-.
  set (se2 := upd_count _ _).
  assert (Hobj : se_objs se2 = update id new_stream (se_objs (sess y x))) by reflexivity.
  destruct (id =? sid) eqn:Es.
  - assert (Hid : id = sid) by lia.
    destruct (side_cases x) as [->| ->].
    + exists [ACreateS]. split; [|repeat split]. apply vsteps_one. apply VCreateS.
      * rewrite sview_def, <- Hid, Hfresh. reflexivity.
      * rewrite sview_set_sess, side_eqb_refl, Hobj, <- Hid, lookup_update_eq. reflexivity.
      * apply inflight_set_sess.
      * rewrite rview_set_sess. assert (E : side_eqb s o = false) by (unfold o; apply side_eqb_other). now rewrite E.
    + exists [ACreateR]. split; [|repeat split]. apply vsteps_one. apply VCreateR.
      * rewrite rview_def, <- Hid, Hfresh. reflexivity.
      * rewrite rview_set_sess, side_eqb_refl, Hobj, <- Hid, lookup_update_eq. reflexivity.
      * apply inflight_set_sess.
      * rewrite sview_set_sess. assert (E : side_eqb o s = false) by (unfold o; apply side_eqb_other'). now rewrite E.
  - exists [AQuiet]. split; [|repeat split]. apply vsteps_quiet.
    split; [rewrite inflight_set_sess; reflexivity|]. split; left.
    + rewrite sview_set_sess. destruct (side_eqb x s) eqn:E; [|reflexivity].
      apply side_eqb_eq in E. subst x. rewrite Hobj, lookup_update_neq; [reflexivity|lia].
    + rewrite rview_set_sess. destruct (side_eqb x o) eqn:E; [|reflexivity].
      apply side_eqb_eq in E. subst x. rewrite Hobj, lookup_update_neq; [reflexivity|lia].
Qed.

Lemma write_loop_self fuel : forall y data n ch y' ch' evs n' rc q w,
  write_loop fuel y s sid data n ch = (y', ch', evs, n', rc) -> WF y ->
  sview y = Some (q, w, false) -> w <> 2 ->
  exists acts, vsteps y acts y' /\ emitted acts = ev_frames evs /\ readout acts = [] /\ arrivals acts = [].
Proof.
  induction fuel as [|fuel IH]; intros y data n ch y' ch' evs n' rc q w H Hwf Hsv Hw; cbn in H.
  - injection H as <- <- <- <- <-. exists []. split; [constructor|repeat split].
  - destruct data as [|b data']; [injection H as <- <- <- <- <-; exists []; split; [constructor|repeat split]|].
    set (data := b :: data') in *.
    destruct (stream_emit y s sid (firstn (N.to_nat (se_unit (sess y s))) data) ch) as [[[y1 ch1] evs1] ok] eqn:Ee.
    rewrite sview_def in Hsv. destruct (lookup sid (se_objs (sess y s))) as [st|] eqn:El; [|discriminate].
    cbn in Hsv. unfold sv in Hsv. injection Hsv as Hq Hw' Hc.
    assert (Hw2 : st_wcl st <> 2) by (rewrite Hw'; exact Hw).
    pose proof (stream_emit_WF _ _ _ _ _ _ _ _ _ Ee Hwf) as Hwf1.
    destruct (stream_emit_self _ _ _ _ _ _ _ _ El Ee Hwf Hw2) as [(-> & Hf & Hp & Hs1 & Hr1)|(-> & Hf & Hp & (w' & Hs1) & Hr1)].
    + destruct (write_loop fuel y1 s sid _ _ ch1) as [[[[y2 ch2] evs2] n2] rc2] eqn:Ew.
      injection H as <- <- <- <- <-.
      rewrite Hq, Hw', Hc in Hs1.
      destruct (IH _ _ _ _ _ _ _ _ _ _ _ Ew Hwf1 Hs1 Hw) as (acts & Hv & He & Hr & Ha).
      exists (AEmit (mkW sid q w (firstn (N.to_nat (se_unit (sess y s))) data)) :: acts).
      split; [|split; [|split; [exact Hr|exact Ha]]].
      * econstructor; [|exact Hv]. eapply VEmit.
        -- rewrite sview_def, El. cbn. unfold sv. now rewrite Hq, Hw', Hc.
        -- exact Hs1.
        -- rewrite Hp, Hq, Hw'. reflexivity.
        -- exact Hr1.
      * rewrite ev_frames_app, Hf, <- He, Hq, Hw'. reflexivity.
    + injection H as <- <- <- <- <-. exists [ALost]. split; [|split; [|repeat split]].
      * apply vsteps_one. eapply VLost.
        -- rewrite sview_def, El. cbn. unfold sv. now rewrite Hq, Hw', Hc.
        -- rewrite Hq in Hs1. exact Hs1.
        -- exact Hp.
        -- exact Hr1.
      * cbn. now rewrite Hf.
Qed.

Lemma write_loop_other fuel : forall y x sid' data n ch y' ch' evs n' rc,
  write_loop fuel y x sid' data n ch = (y', ch', evs, n', rc) ->
  side_eqb x s && (sid' =? sid) = false -> quiet y y' /\ ev_frames evs = [].
Proof.
  induction fuel as [|fuel IH]; intros y x sid' data n ch y' ch' evs n' rc H Hne; cbn in H.
  - injection H as <- <- <- <- <-. split; [apply quiet_refl|reflexivity].
  - destruct data as [|b data']; [injection H as <- <- <- <- <-; split; [apply quiet_refl|reflexivity]|].
    set (data := b :: data') in *.
    destruct (stream_emit y x sid' (firstn (N.to_nat (se_unit (sess y x))) data) ch) as [[[y1 ch1] evs1] ok] eqn:Ee.
    destruct (stream_emit_other _ _ _ _ _ _ _ _ _ Ee Hne) as [Hq1 Hf1].
    destruct ok; [|injection H as <- <- <- <- <-; split; assumption].
    destruct (write_loop fuel y1 x sid' _ _ ch1) as [[[[y2 ch2] evs2] n2] rc2] eqn:Ew.
    injection H as <- <- <- <- <-. destruct (IH _ _ _ _ _ _ _ _ _ _ _ Ew Hne) as [Hq2 Hf2].
    split; [eapply quiet_trans; eauto|now rewrite ev_frames_app, Hf1, Hf2].
Qed.

Lemma stream_write_effect y x sid' data ch y' evs :
  stream_write y x sid' data ch = (y', evs) -> WF y ->
  (forall q w, sview y = Some (q, w, false) -> w <> 2) ->
  exists acts, vsteps y acts y' /\ emitted acts = ev_frames evs /\ readout acts = [] /\ arrivals acts = [].
Proof.
  unfold stream_write. intros H Hwf Hw2.
  destruct (lookup sid' (se_objs (sess y x))) as [st|] eqn:El;
    [|injection H as <- <-; exists []; split; [constructor|repeat split]].
  destruct (st_closed st) eqn:Ecl; [injection H as <- <-; exists []; split; [constructor|repeat split]|].
  destruct (write_loop _ y x sid' data 0 ch) as [[[[y1 ch1] evs1] n1] rc1] eqn:Ew. injection H as <- <-.
  destruct (side_eqb x s && (sid' =? sid)) eqn:Es.
  - apply andb_prop in Es as [E1 E2]. apply side_eqb_eq in E1. subst x. assert (sid' = sid) by lia. subst sid'.
    assert (Hsv : sview y = Some (st_seq st, st_wcl st, false)).
    { rewrite sview_def, El. cbn. unfold sv. now rewrite Ecl. }
    destruct (write_loop_self _ _ _ _ _ _ _ _ _ _ _ _ Ew Hwf Hsv (Hw2 _ _ Hsv)) as (acts & Hv & He & Hr & Ha).
    exists acts. split; [exact Hv|]. split; [|split; assumption].
    rewrite ev_frames_app, He. cbn. now rewrite app_nil_r.
  - destruct (write_loop_other _ _ _ _ _ _ _ _ _ _ _ _ Ew Es) as [Hq Hf].
    exists [AQuiet]. split; [apply vsteps_quiet; exact Hq|]. split; [|repeat split].
    rewrite ev_frames_app, Hf. reflexivity.
Qed.

Lemma try_read_effect y x sid' k y' rc d :
  try_read y x sid' k = Some (y', rc, d) ->
  exists acts, vsteps y acts y' /\ emitted acts = [] /\ arrivals acts = [] /\
    readout acts = (if side_eqb x o && (sid' =? sid) then d else []).
Proof.
  unfold try_read. intros H.
  assert (Hnil : forall yy, yy = y -> d = [] -> exists acts, vsteps y acts yy /\ emitted acts = [] /\ arrivals acts = [] /\
            readout acts = (if side_eqb x o && (sid' =? sid) then d else [])).
  { intros yy -> ->. exists []. split; [constructor|]. repeat split. destruct (_ && _); reflexivity. }
  destruct (lookup sid' (se_objs (sess y x))) as [st|] eqn:El; [|injection H as <- <- <-; apply Hnil; reflexivity].
  destruct k as [|k]; [injection H as <- <- <-; apply Hnil; reflexivity|].
  destruct (rb_read (st_rb st) (S k)) as [rb' [dd| |]] eqn:Er; try discriminate;
    injection H as <- <- <-; try (apply Hnil; reflexivity).
  destruct (side_eqb x o && (sid' =? sid)) eqn:Es.
  - apply andb_prop in Es as [E1 E2]. apply side_eqb_eq in E1. subst x. assert (sid' = sid) by lia. subst sid'.
    exists [ARead (S k) dd]. split; [|split; [reflexivity|split; [reflexivity|cbn; now rewrite app_nil_r]]].
    apply vsteps_one. eapply (VRead _ _ _ _ _ (st_rb st) (st_closed st) (S k) dd rb').
    + rewrite rview_def, El. reflexivity.
    + exact Er.
    + rewrite rview_set_sess, side_eqb_refl. cbn [se_objs upd_objs]. rewrite lookup_update_eq. reflexivity.
    + apply inflight_set_sess.
    + rewrite sview_set_sess. assert (E : side_eqb o s = false) by (unfold o; apply side_eqb_other'). now rewrite E.
  - exists [AQuiet]. split; [|repeat split]. apply vsteps_quiet.
    split; [rewrite inflight_set_sess; reflexivity|]. split; left.
    + rewrite sview_set_sess. destruct (side_eqb x s) eqn:E; [|reflexivity].
      apply side_eqb_eq in E. subst x. cbn [se_objs upd_objs]. rewrite lookup_update.
      destruct (sid =? sid') eqn:E2; [|reflexivity]. assert (sid = sid') by lia. subst sid'.
      rewrite sview_def, El. reflexivity.
    + rewrite rview_set_sess. destruct (side_eqb x o) eqn:E; [|reflexivity].
      cbn [andb] in Es. apply side_eqb_eq in E. subst x. cbn [se_objs upd_objs].
      rewrite lookup_update_neq; [reflexivity|lia].
Qed.

Lemma try_accept_quiet y x y' rc id : try_accept y x = Some (y', rc, id) -> quiet y y'.
Proof.
  unfold try_accept. intros H. destruct (se_acceptq (sess y x)).
  - destruct (se_closed (sess y x)); [injection H as <- <- <-; apply quiet_refl|discriminate].
  - injection H as <- <- <-. apply quiet_set_sess_same_objs. reflexivity.
Qed.

Lemma fire_timers_quiet fuel : forall y x ch y' ch' evs,
  fire_timers fuel y x ch = (y', ch', evs) -> quiet y y' /\ ev_frames evs = [].
Proof.
  induction fuel as [|fuel IH]; intros y x ch y' ch' evs H; cbn in H.
  - injection H as <- <- <-. split; [apply quiet_refl|reflexivity].
  - destruct (se_timers (sess y x)) as [|t rest]; [injection H as <- <- <-; split; [apply quiet_refl|reflexivity]|].
    destruct (t <=? sy_now y)%Z; [|injection H as <- <- <-; split; [apply quiet_refl|reflexivity]].
    assert (Hq1 : quiet y (set_sess y x (upd_timers (sess y x) rest))) by (apply quiet_set_sess_same_objs; reflexivity).
    destruct (_ && _).
    + destruct (session_close _ x ch) as [[[y2 ch2] evs2] rc2] eqn:Esc.
      destruct (fire_timers fuel y2 x ch2) as [[y3 ch3] evs3] eqn:Ef. injection H as <- <- <-.
      destruct (session_close_quiet _ _ _ _ _ _ _ Esc) as [Hq2 Hf2]. destruct (IH _ _ _ _ _ _ Ef) as [Hq3 Hf3].
      split; [eapply quiet_trans; [exact Hq1|eapply quiet_trans; eauto]|now rewrite ev_frames_app, Hf2, Hf3].
    + destruct (IH _ _ _ _ _ _ H) as [Hq3 Hf3]. split; [eapply quiet_trans; eauto|exact Hf3].
Qed.

(* ---- data handed to the reader of this direction, read off the events ---- *)
Definition ev_pend_reads (evs : list ev) : list N :=
  flat_map (fun e => match e with
                     | EPend (PRead x sid' _) _ _ d => if side_eqb x o && (sid' =? sid) then d else []
                     | _ => [] end) evs.
Definition ret_data (evs : list ev) : list N :=
  flat_map (fun e => match e with ERet _ _ d => d | _ => [] end) evs.
Definition step_reads (l : label) (evs : list ev) : list N :=
  (match l with
   | LRead x sid' _ => if side_eqb x o && (sid' =? sid) then ret_data evs else []
   | _ => []
   end) ++ ev_pend_reads evs.
Lemma ev_pend_reads_app a b : ev_pend_reads (a ++ b) = ev_pend_reads a ++ ev_pend_reads b.
Proof. unfold ev_pend_reads. apply flat_map_app. Qed.
Lemma ret_data_app a b : ret_data (a ++ b) = ret_data a ++ ret_data b.
Proof. unfold ret_data. apply flat_map_app. Qed.

Lemma resolve_effect ps : forall y y' ps' evs,
  resolve ps y = (y', ps', evs) ->
  exists acts, vsteps y acts y' /\ emitted acts = [] /\ arrivals acts = [] /\
    readout acts = ev_pend_reads evs /\ ev_frames evs = [] /\ ret_data evs = [].
Proof.
  induction ps as [|p t IH]; intros y y' ps' evs H; cbn in H.
  - injection H as <- <- <-. exists []. split; [constructor|repeat split].
  - destruct p as [x sid' k|x].
    + destruct (try_read y x sid' k) as [[[y1 rc] d]|] eqn:Et.
      * destruct (resolve t y1) as [[y2 ps2] e2] eqn:Er. injection H as <- <- <-.
        destruct (try_read_effect _ _ _ _ _ _ _ Et) as (a1 & Hv1 & He1 & Ha1 & Hr1).
        destruct (IH _ _ _ _ Er) as (a2 & Hv2 & He2 & Ha2 & Hr2 & Hf2 & Hd2).
        exists (a1 ++ a2). split; [eapply vsteps_app; eauto|].
        rewrite emitted_app, arrivals_app, readout_app, He1, He2, Ha1, Ha2, Hr1, Hr2.
        repeat split; try exact Hf2; try exact Hd2.
      * destruct (resolve t y) as [[y2 ps2] e2] eqn:Er. injection H as <- <- <-. eapply IH; eauto.
    + destruct (try_accept y x) as [[[y1 rc] id]|] eqn:Et.
      * destruct (resolve t y1) as [[y2 ps2] e2] eqn:Er. injection H as <- <- <-.
        pose proof (try_accept_quiet _ _ _ _ _ Et) as Hq.
        destruct (IH _ _ _ _ Er) as (a2 & Hv2 & He2 & Ha2 & Hr2 & Hf2 & Hd2).
        exists (AQuiet :: a2). split; [econstructor; [constructor; exact Hq|exact Hv2]|].
        repeat split; assumption.
      * destruct (resolve t y) as [[y2 ps2] e2] eqn:Er. injection H as <- <- <-. eapply IH; eauto.
Qed.


Lemma wire_no_reads evs : wire_only evs -> ev_pend_reads evs = [] /\ ret_data evs = [].
Proof.
  induction 1 as [|e t He Ht [IH1 IH2]]; [split; reflexivity|].
  destruct e; try contradiction; cbn; split; assumption.
Qed.

(* ---- taking frames off a connection ---- *)
Lemma flat_map_setN_nil {A B} (f : A -> list B) n v a l :
  nthN n l = Some a -> f v = [] -> Permutation (flat_map f l) (f a ++ flat_map f (setN n v l)).
Proof.
  revert n; induction l as [|x t IH]; intros [|n] Hn Hf; cbn in *; try discriminate.
  - injection Hn as ->. rewrite Hf. reflexivity.
  - rewrite (IH _ Hn Hf). rewrite !app_assoc. apply Permutation_app_tail. apply Permutation_app_comm.
Qed.

Lemma inflight_dequeue y x c cn fr q :
  nthN c (sy_conns y) = Some cn -> conn_q cn x = fr :: q ->
  Permutation (inflight y)
    ((if side_eqb x o && keep fr then [fr] else []) ++ inflight (set_conns y (setN c (conn_set_q cn x q) (sy_conns y)))).
Proof.
  intros Hn Hq. unfold MuxView.inflight. fold o. cbn [sy_conns set_conns].
  destruct (side_cases x) as [->| ->].
  - assert (E : side_eqb s o = false) by (unfold o; apply side_eqb_other). rewrite E. cbn [andb app].
    rewrite (flat_map_setN_same _ _ _ _ _ Hn); [reflexivity|].
    f_equal. unfold o. apply conn_q_set_q_other.
  - rewrite side_eqb_refl. cbn [andb]. destruct (keep fr) eqn:Ek.
    + eapply flat_map_setN_cons; [exact Hn|]. rewrite conn_q_set_q_same, Hq. cbn [filter]. now rewrite Ek.
    + cbn [app]. rewrite (flat_map_setN_same _ _ _ _ _ Hn); [reflexivity|].
      rewrite conn_q_set_q_same, Hq. cbn [filter]. now rewrite Ek.
Qed.

Definition core_reads (l : label) (evs : list ev) : list N :=
  match l with LRead x sid' _ => if side_eqb x o && (sid' =? sid) then ret_data evs else [] | _ => [] end.

(* one label: the frame (if any) taken off the wire for the receiver of this direction, then actions *)

(* only a connection reset lets frames leave the wire unprocessed *)
Definition droppy (l : label) : bool := match l with LFail _ | LBreak _ => true | _ => false end.

Lemma step_core_effect y l ch y' evs :
  step_core y l ch = (y', evs) -> WF y ->
  (forall x, l = LOpen x -> lookup (se_nextsid (sess y x)) (se_objs (sess y x)) = None) ->
  (forall q w, sview y = Some (q, w, false) -> w <> 2) ->
  exists y1 pend acts,
    ((pend = None /\ y1 = y) \/
     (exists fr, pend = Some fr /\ keep fr = true /\ Permutation (inflight y) (fr :: inflight y1) /\
                 sview y1 = sview y /\ rview y1 = rview y)) /\
    MuxView.vsteps s sid (droppy l) y1 acts y' /\ emitted acts = ev_frames evs /\ readout acts = core_reads l evs /\
    ev_pend_reads evs = [] /\
    ((arrivals acts = [] /\ (forall fr, pend = Some fr -> discarded y o fr))
     \/ (exists fr, pend = Some fr /\ arrivals acts = [fr])) /\
    (forall fr, pend = Some fr -> exists c cn q, l = LDeliver o c /\ nthN (N.to_nat c) (sy_conns y) = Some cn /\ conn_q cn o = fr :: q).
Proof.
  intros H Hwf Hfresh Hw2.
  (* the common shape "no frame taken off for us, these actions" *)
  assert (Hsimple : forall acts evs0 r, MuxView.vsteps s sid (droppy l) y acts y' -> emitted acts = ev_frames evs0 -> wire_only evs0 ->
            evs = evs0 ++ [r] -> (forall c n d, r = ERet c n d -> d = []) -> (exists c n d, r = ERet c n d) ->
            readout acts = [] -> arrivals acts = [] ->
            exists y1 pend acts,
              ((pend = None /\ y1 = y) \/
               (exists fr, pend = Some fr /\ keep fr = true /\ Permutation (inflight y) (fr :: inflight y1) /\
                 sview y1 = sview y /\ rview y1 = rview y)) /\
              MuxView.vsteps s sid (droppy l) y1 acts y' /\ emitted acts = ev_frames evs /\ readout acts = core_reads l evs /\
              ev_pend_reads evs = [] /\
              ((arrivals acts = [] /\ (forall fr, pend = Some fr -> discarded y o fr))
               \/ (exists fr, pend = Some fr /\ arrivals acts = [fr])) /\
              (forall fr, pend = Some fr -> exists c cn q, l = LDeliver o c /\ nthN (N.to_nat c) (sy_conns y) = Some cn /\ conn_q cn o = fr :: q)).
  { intros acts evs0 r Hv He Hwire -> Hd (c0 & n0 & d0 & ->) Hr Ha.
    destruct (wire_no_reads _ Hwire) as [Hp Hrd]. specialize (Hd _ _ _ eq_refl). subst d0.
    exists y, None, acts. split; [left; auto|]. split; [exact Hv|].
    split; [rewrite ev_frames_app, He; cbn; now rewrite app_nil_r|].
    split; [|split; [rewrite ev_pend_reads_app, Hp; reflexivity|split; [left; split; [exact Ha|intros ? Hx; discriminate Hx]|intros ? Hx; discriminate Hx]]].
    rewrite Hr. unfold core_reads. destruct l; try reflexivity.
    destruct (_ && _); [|reflexivity]. rewrite ret_data_app, Hrd. reflexivity. }
  (* uses of Hsimple: remaining goals are  vsteps / emitted / wire_only / readout / arrivals  in this order *)
  destruct l as [x|x sid' data|x sid' k|x|x sid'|x|x c|c|d|c|x c].
  - (* OpenStream *)
    rewrite step_core_open in H.
    destruct (open_stream_effect _ _ _ _ H (Hfresh x eq_refl)) as (acts & Hv & He & Hr & Ha & Hf).
    unfold open_stream in H. destruct (se_closed (sess y x)).
    + injection H as <- <-.
      eapply (Hsimple acts [] _); [exact Hv|exact He|constructor|reflexivity|intros ? ? ? Hd; now injection Hd|do 3 eexists; reflexivity|exact Hr|exact Ha].
    + cbv zeta in H. destruct (_ && _); injection H as <- <-;
        (eapply (Hsimple acts [] _); [exact Hv|exact He|constructor|reflexivity|intros ? ? ? Hd; now injection Hd|do 3 eexists; reflexivity|exact Hr|exact Ha]).
  - (* Write *)
    rewrite step_core_write in H.
    destruct (stream_write_effect _ _ _ _ _ _ _ H Hwf Hw2) as (acts & Hv & He & Hr & Ha).
    unfold stream_write in H. destruct (lookup sid' (se_objs (sess y x))) as [st|].
    2:{ injection H as <- <-.
        eapply (Hsimple acts [] _); [exact Hv|exact He|constructor|reflexivity|intros ? ? ? Hd; now injection Hd|do 3 eexists; reflexivity|exact Hr|exact Ha]. }
    destruct (st_closed st).
    { injection H as <- <-.
      eapply (Hsimple acts [] _); [exact Hv|exact He|constructor|reflexivity|intros ? ? ? Hd; now injection Hd|do 3 eexists; reflexivity|exact Hr|exact Ha]. }
    pose proof (write_loop_wire (S (length data)) y x sid' data 0 ch) as Hw.
    destruct (write_loop _ y x sid' data 0 ch) as [[[[y1 ch1] evs1] n1] rc1]. cbn in Hw. injection H as <- <-.
    eapply (Hsimple acts evs1 _); [exact Hv| |exact Hw|reflexivity|intros ? ? ? Hd; now injection Hd|do 3 eexists; reflexivity|exact Hr|exact Ha].
    rewrite He, ev_frames_app. cbn. now rewrite app_nil_r.
  - (* Read *)
    rewrite step_core_read in H.
    destruct (has_pending_read _ _ _).
    { injection H as <- <-.
      eapply (Hsimple [] [] _); [constructor|reflexivity|constructor|reflexivity|intros ? ? ? Hd; now injection Hd|do 3 eexists; reflexivity|reflexivity|reflexivity]. }
    destruct (try_read y x sid' k) as [[[y1 rc] dd]|] eqn:Et.
    + injection H as <- <-. destruct (try_read_effect _ _ _ _ _ _ _ Et) as (acts & Hv & He & Ha & Hr).
      exists y, None, acts. split; [left; auto|]. split; [exact Hv|]. split; [exact He|].
      split; [|split; [reflexivity|split; [left; split; [exact Ha|intros ? Hx; discriminate Hx]|intros ? Hx; discriminate Hx]]].
      rewrite Hr. unfold core_reads. destruct (_ && _); [|reflexivity]. cbn. now rewrite app_nil_r.
    + injection H as <- <-. exists y, None, [AQuiet]. split; [left; auto|].
      split; [apply vsteps_quiet; apply quiet_set_pend|]. split; [reflexivity|]. split; [|split; [reflexivity|split; [left; split; [reflexivity|intros ? Hx; discriminate Hx]|intros ? Hx; discriminate Hx]]].
      unfold core_reads. destruct (_ && _); reflexivity.
  - (* Accept *)
    rewrite step_core_accept in H.
    destruct (se_closed (sess y x)).
    { injection H as <- <-.
      eapply (Hsimple [] [] _); [constructor|reflexivity|constructor|reflexivity|intros ? ? ? Hd; now injection Hd|do 3 eexists; reflexivity|reflexivity|reflexivity]. }
    destruct (try_accept y x) as [[[y1 rc] id]|] eqn:Et.
    + injection H as <- <-. pose proof (try_accept_quiet _ _ _ _ _ Et) as Hq.
      eapply (Hsimple [AQuiet] [] _); [apply vsteps_quiet; exact Hq|reflexivity|constructor|reflexivity|intros ? ? ? Hd; now injection Hd|do 3 eexists; reflexivity|reflexivity|reflexivity].
    + destruct (has_pending_accept _ _); injection H as <- <-.
      * eapply (Hsimple [] [] _); [constructor|reflexivity|constructor|reflexivity|intros ? ? ? Hd; now injection Hd|do 3 eexists; reflexivity|reflexivity|reflexivity].
      * eapply (Hsimple [AQuiet] [] _); [apply vsteps_quiet; apply quiet_set_pend|reflexivity|constructor|reflexivity|intros ? ? ? Hd; now injection Hd|do 3 eexists; reflexivity|reflexivity|reflexivity].
  - (* Stream.Close *)
    rewrite step_core_close_stream in H.
    pose proof (close_stream_wire y x sid' true ch) as Hw.
    destruct (close_stream y x sid' true ch) as [[[y1 ch1] e1] rc] eqn:Ec. cbn in Hw. injection H as <- <-.
    destruct (side_eqb x s && (sid' =? sid)) eqn:Es.
    + apply andb_prop in Es as [E1 E2]. apply side_eqb_eq in E1. subst x. assert (sid' = sid) by lia. subst sid'.
      destruct (sview y) as [[[q w] c]|] eqn:Esv.
      * destruct c.
        -- (* already closed: nothing happens *)
           unfold close_stream in Ec. rewrite sview_def in Esv.
           destruct (lookup sid (se_objs (sess y s))) as [st|]; [|discriminate]. cbn in Esv. unfold sv in Esv.
           injection Esv as _ _ Hc. rewrite Hc in Ec. injection Ec as <- <- <- <-.
           eapply (Hsimple [] [] _); [constructor|reflexivity|constructor|reflexivity|intros ? ? ? Hd; now injection Hd|do 3 eexists; reflexivity|reflexivity|reflexivity].
        -- destruct (close_stream_self _ _ _ _ _ _ _ _ Ec Hwf Esv) as (acts & Hv & He & Hr & Ha).
           eapply (Hsimple acts e1 _); [exact Hv|exact He|exact Hw|reflexivity|intros ? ? ? Hd; now injection Hd|do 3 eexists; reflexivity|exact Hr|exact Ha].
      * unfold close_stream in Ec. rewrite sview_def in Esv.
        destruct (lookup sid (se_objs (sess y s))) as [st|]; [discriminate|]. injection Ec as <- <- <- <-.
        eapply (Hsimple [] [] _); [constructor|reflexivity|constructor|reflexivity|intros ? ? ? Hd; now injection Hd|do 3 eexists; reflexivity|reflexivity|reflexivity].
    + assert (Hne : side_eqb x s && (sid' =? sid) && true = false) by (rewrite Es; reflexivity).
      destruct (close_stream_quiet _ _ _ _ _ _ _ _ _ Ec Hne) as [Hq Hf].
      eapply (Hsimple [AQuiet] e1 _); [apply vsteps_quiet; exact Hq|now rewrite Hf|exact Hw|reflexivity|intros ? ? ? Hd; now injection Hd|do 3 eexists; reflexivity|reflexivity|reflexivity].
  - (* Session.Close *)
    rewrite step_core_close_session in H.
    pose proof (session_close_wire y x ch) as Hw.
    destruct (session_close y x ch) as [[[y1 ch1] e1] rc] eqn:Ec. cbn in Hw. injection H as <- <-.
    destruct (session_close_quiet _ _ _ _ _ _ _ Ec) as [Hq Hf].
    eapply (Hsimple [AQuiet] e1 _); [apply vsteps_quiet; exact Hq|now rewrite Hf|exact Hw|reflexivity|intros ? ? ? Hd; now injection Hd|do 3 eexists; reflexivity|reflexivity|reflexivity].
  - (* Deliver *)
    rewrite step_core_deliver in H.
    destruct (nthN (N.to_nat c) (sy_conns y)) as [cn|] eqn:En.
    2:{ injection H as <- <-.
        eapply (Hsimple [] [] _); [constructor|reflexivity|constructor|reflexivity|intros ? ? ? Hd; now injection Hd|do 3 eexists; reflexivity|reflexivity|reflexivity]. }
    destruct (_ || _).
    { injection H as <- <-.
      eapply (Hsimple [] [] _); [constructor|reflexivity|constructor|reflexivity|intros ? ? ? Hd; now injection Hd|do 3 eexists; reflexivity|reflexivity|reflexivity]. }
    destruct (conn_q cn x) as [|fr q] eqn:Eq.
    + destruct (conn_closed_end cn (other x)).
      * pose proof (deplex_error_wire y x c) as Hw.
        destruct (deplex_error y x c) as [y1 e1] eqn:Ed. cbn in Hw. injection H as <- <-.
        destruct (deplex_error_quiet _ _ _ _ _ Ed) as [Hq Hf].
        eapply (Hsimple [AQuiet] e1 _); [apply vsteps_quiet; exact Hq|now rewrite Hf|exact Hw|reflexivity|intros ? ? ? Hd; now injection Hd|do 3 eexists; reflexivity|reflexivity|reflexivity].
      * injection H as <- <-.
        eapply (Hsimple [] [] _); [constructor|reflexivity|constructor|reflexivity|intros ? ? ? Hd; now injection Hd|do 3 eexists; reflexivity|reflexivity|reflexivity].
    + set (y1 := set_conns y (setN (N.to_nat c) (conn_set_q cn x q) (sy_conns y))) in *.
      assert (Hwf1 : WF y1).
      { unfold y1. apply WF_set_conns; [exact Hwf|].
        destruct (conn_set_q_flags cn x q) as (Ha & Hb & _).
        eapply conns_mono_setN; [exact En|rewrite Ha; auto|rewrite Hb; auto]. }
      pose proof (recv_frame_wire y1 x fr ch) as Hw.
      destruct (recv_frame y1 x fr ch) as [[y2 ch2] e2] eqn:Er. cbn in Hw. injection H as <- <-.
      destruct (recv_frame_effect _ _ _ _ _ _ _ Er Hwf1) as (acts & Hv & He & Hr & Hf & Ha).
      pose proof (inflight_dequeue y x (N.to_nat c) cn fr q En Eq) as Hdq. fold y1 in Hdq.
      destruct (wire_no_reads _ Hw) as [Hp Hrd].
      destruct (side_eqb x o && keep fr) eqn:Ek.
      * (* a frame of this direction is handed to the receiving session *)
        apply andb_prop in Ek as [E1 E2]. apply side_eqb_eq in E1. subst x.
        exists y1, (Some fr), acts. split.
        { right. exists fr. split; [reflexivity|]. split; [exact E2|]. split; [exact Hdq|].
          split; [apply sview_set_conns|apply rview_set_conns]. }
        split; [exact Hv|]. split; [rewrite ev_frames_app, He, Hf; reflexivity|].
        split; [rewrite Hr; reflexivity|]. split; [rewrite ev_pend_reads_app, Hp; reflexivity|].
        split; [|intros f0 Hf0; injection Hf0 as <-; exists c, cn, q; auto].
        destruct Ha as [[Ha Hx]|(_ & _ & Ha)]; [left; split; [exact Ha|]|right; exists fr; auto].
        intros f0 Hf0. injection Hf0 as <-. specialize (Hx eq_refl E2).
        unfold discarded in *. unfold y1 in Hx. rewrite !sess_set_conns in Hx. exact Hx.
      * cbn [app] in Hdq.
        exists y, None, (AQuiet :: acts). split; [left; auto|].
        split.
        { econstructor; [|exact Hv]. constructor. split; [exact Hdq|].
          split; left; [apply sview_set_conns|apply rview_set_conns]. }
        split; [change (emitted (AQuiet :: acts)) with (emitted acts); rewrite ev_frames_app, He, Hf; reflexivity|].
        split; [change (readout (AQuiet :: acts)) with (readout acts); rewrite Hr; reflexivity|]. split; [rewrite ev_pend_reads_app, Hp; reflexivity|].
        split; [|intros ? Hx; discriminate Hx].
        left. change (arrivals (AQuiet :: acts)) with (arrivals acts). split; [|intros ? Hx; discriminate Hx].
        destruct Ha as [[Ha _]|(Hx & Hk & _)]; [exact Ha|].
        subst x. rewrite side_eqb_refl, Hk in Ek. discriminate.
  - (* Fail *)
    rewrite step_core_fail in H.
    destruct (nthN (N.to_nat c) (sy_conns y)) as [cn|] eqn:En.
    2:{ injection H as <- <-.
        eapply (Hsimple [] [] _); [constructor|reflexivity|constructor|reflexivity|intros ? ? ? Hd; now injection Hd|do 3 eexists; reflexivity|reflexivity|reflexivity]. }
    cbv zeta in H.
    set (y0 := set_conns y (setN (N.to_nat c) (mkC [] [] (c_clA cn) (c_clB cn) true) (sy_conns y))) in *.
    assert (Hdrop : MuxView.vstep s sid true y (ADrop (filter keep (conn_q cn o))) y0).
    { apply VDrop; [reflexivity| |apply sview_set_conns|apply rview_set_conns].
      unfold MuxView.inflight, y0. fold o. cbn [sy_conns set_conns].
      apply (flat_map_setN_nil (fun c0 : conn => filter keep (conn_q c0 o)) _ _ _ _ En). destruct o; reflexivity. }
    destruct (if conn_closed_end cn SA || c_failed cn then (y0, []) else deplex_error y0 SA c) as [ya ea] eqn:Ea.
    assert (Ha' : quiet y0 ya /\ ev_frames ea = [] /\ wire_only ea).
    { destruct (conn_closed_end cn SA || c_failed cn).
      - injection Ea as <- <-. split; [apply quiet_refl|split; [reflexivity|constructor]].
      - pose proof (deplex_error_wire y0 SA c) as Hw. rewrite Ea in Hw.
        destruct (deplex_error_quiet _ _ _ _ _ Ea) as [Hq Hf]. auto. }
    destruct (if conn_closed_end cn SB || c_failed cn then (ya, []) else deplex_error ya SB c) as [yb eb] eqn:Eb.
    assert (Hb' : quiet ya yb /\ ev_frames eb = [] /\ wire_only eb).
    { destruct (conn_closed_end cn SB || c_failed cn).
      - injection Eb as <- <-. split; [apply quiet_refl|split; [reflexivity|constructor]].
      - pose proof (deplex_error_wire ya SB c) as Hw. rewrite Eb in Hw.
        destruct (deplex_error_quiet _ _ _ _ _ Eb) as [Hq Hf]. auto. }
    injection H as <- <-. destruct Ha' as (Hqa & Hfa & Hwa). destruct Hb' as (Hqb & Hfb & Hwb).
    eapply (Hsimple [ADrop (filter keep (conn_q cn o)); AQuiet] (ea ++ eb) _);
      [econstructor; [exact Hdrop|apply vsteps_quiet; eapply quiet_trans; eauto]
      |rewrite ev_frames_app, Hfa, Hfb; reflexivity
      |apply wire_app; assumption
      |now rewrite app_assoc
      |intros ? ? ? Hd; now injection Hd|do 3 eexists; reflexivity|reflexivity|reflexivity].
  - (* Tick *)
    rewrite step_core_tick in H.
    pose proof (fire_timers_wire 64 (set_now y (sy_now y + d)%Z) SA ch) as Hwa.
    destruct (fire_timers 64 (set_now y (sy_now y + d)%Z) SA ch) as [[ya cha] ea] eqn:Ea. cbn in Hwa.
    pose proof (fire_timers_wire 64 ya SB cha) as Hwb.
    destruct (fire_timers 64 ya SB cha) as [[yb chb] eb] eqn:Eb. cbn in Hwb. injection H as <- <-.
    destruct (fire_timers_quiet _ _ _ _ _ _ _ Ea) as [Hqa Hfa]. destruct (fire_timers_quiet _ _ _ _ _ _ _ Eb) as [Hqb Hfb].
    eapply (Hsimple [AQuiet] (ea ++ eb) _);
      [apply vsteps_quiet; eapply quiet_trans; [apply quiet_set_now|eapply quiet_trans; eauto]
      |rewrite ev_frames_app, Hfa, Hfb; reflexivity
      |apply wire_app; assumption
      |now rewrite app_assoc
      |intros ? ? ? Hd; now injection Hd|do 3 eexists; reflexivity|reflexivity|reflexivity].
  - (* Break *)
    rewrite step_core_break in H.
    destruct (nthN (N.to_nat c) (sy_conns y)) as [cn|] eqn:En.
    2:{ injection H as <- <-.
        eapply (Hsimple [] [] _); [constructor|reflexivity|constructor|reflexivity|intros ? ? ? Hd; now injection Hd|do 3 eexists; reflexivity|reflexivity|reflexivity]. }
    injection H as <- <-.
    assert (Hdrop : MuxView.vstep s sid true y (ADrop (filter keep (conn_q cn o)))
                          (set_conns y (setN (N.to_nat c) (mkC [] [] (c_clA cn) (c_clB cn) true) (sy_conns y)))).
    { apply VDrop; [reflexivity| |apply sview_set_conns|apply rview_set_conns].
      unfold MuxView.inflight. fold o. cbn [sy_conns set_conns].
      apply (flat_map_setN_nil (fun c0 : conn => filter keep (conn_q c0 o)) _ _ _ _ En). destruct o; reflexivity. }
    eapply (Hsimple [ADrop (filter keep (conn_q cn o))] [] _);
      [apply vsteps_one; exact Hdrop|reflexivity|constructor|reflexivity
      |intros ? ? ? Hd; now injection Hd|do 3 eexists; reflexivity|reflexivity|reflexivity].
  - (* Notice *)
    rewrite step_core_notice in H.
    destruct (nthN (N.to_nat c) (sy_conns y)) as [cn|] eqn:En.
    2:{ injection H as <- <-.
        eapply (Hsimple [] [] _); [constructor|reflexivity|constructor|reflexivity|intros ? ? ? Hd; now injection Hd|do 3 eexists; reflexivity|reflexivity|reflexivity]. }
    destruct (_ && _).
    2:{ injection H as <- <-.
        eapply (Hsimple [] [] _); [constructor|reflexivity|constructor|reflexivity|intros ? ? ? Hd; now injection Hd|do 3 eexists; reflexivity|reflexivity|reflexivity]. }
    pose proof (deplex_error_wire y x c) as Hw.
    destruct (deplex_error y x c) as [y1 e1] eqn:Ed. cbn in Hw. injection H as <- <-.
    destruct (deplex_error_quiet _ _ _ _ _ Ed) as [Hq Hf].
    eapply (Hsimple [AQuiet] e1 _); [apply vsteps_quiet; exact Hq|now rewrite Hf|exact Hw|reflexivity|intros ? ? ? Hd; now injection Hd|do 3 eexists; reflexivity|reflexivity|reflexivity].
Qed.
End Effect.
