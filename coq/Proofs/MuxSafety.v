(* Safety invariants of the session-pair model that hold after EVERY label sequence
   (faults, closes and timers included): consistency of closed flags and pipes, teardown
   completeness, connection closing, nothing left blocked.  (C12) *)
From Coq Require Import NArith ZArith List Bool Lia.
From Coq Require Import ZifyN ZifyBool.
From Cloak Require Import Model.Reorder Model.Mux Proofs.MuxBase.
Import ListNotations.
Local Open Scope N_scope.

(* ---------- per-session well-formedness ---------- *)
Definition obj_ok (se : session) : Prop :=
  forall id st, lookup id (se_objs se) = Some st ->
    st_closed st = pclosed (st_rb st) /\
    (st_closed st = false -> lookup id (se_tab se) = Some true) /\
    (se_closed se = false -> lookup id (se_tab se) <> None).
Definition closed_ok (se : session) : Prop :=
  se_closed se = true -> forall id st, lookup id (se_objs se) = Some st -> st_closed st = true.
Definition broken_ok (se : session) : Prop := se_broken se = true -> se_closed se = true.
Definition WFse (se : session) : Prop := obj_ok se /\ closed_ok se /\ broken_ok se.

Definition ends_ok (y : sys) (s : side) : Prop :=
  se_broken (sess y s) = true ->
  forall c cn, In c (se_pool (sess y s)) -> nthN (N.to_nat c) (sy_conns y) = Some cn ->
               conn_closed_end cn s = true.
Definition WF (y : sys) : Prop :=
  WFse (sess y SA) /\ WFse (sess y SB) /\ ends_ok y SA /\ ends_ok y SB.

Lemma WF_sess y s : WF y -> WFse (sess y s).
Proof. intros (Ha & Hb & _). destruct s; assumption. Qed.
Lemma WF_ends y s : WF y -> ends_ok y s.
Proof. intros (_ & _ & Ha & Hb). destruct s; assumption. Qed.

(* ---------- the re-sequencer never touches the closed flag of its pipe ---------- *)
Lemma rb_write_pclosed b f : pclosed (fst (fst (rb_write b f))) = pclosed b.
Proof.
  unfold rb_write. destruct (is_nil (heap b) && (seq f =? next b)).
  - destruct (closing f); reflexivity.
  - destruct (seq f <? next b); [reflexivity|].
    destruct (drain (pclosed b) (insert f (heap b)) (next b) (pipe b)) as [[[h nx] p] c]. reflexivity.
Qed.
Lemma rb_read_pclosed b k : pclosed (fst (rb_read b k)) = pclosed b.
Proof. unfold rb_read. destruct (pipe b); reflexivity. Qed.

(* ---------- elementary updates ---------- *)
Lemma WFse_upd_obj se id st' :
  WFse se ->
  st_closed st' = pclosed (st_rb st') ->
  (st_closed st' = false -> lookup id (se_tab se) = Some true) ->
  (se_closed se = true -> st_closed st' = true) ->
  (se_closed se = false -> lookup id (se_tab se) <> None) ->
  WFse (upd_objs se (update id st' (se_objs se))).
Proof.
  intros (Ho & Hc & Hb) H1 H2 H3 H4. destruct se; cbn in *. split; [|split].
  - intros id0 st Hl. cbn in Hl. rewrite lookup_update in Hl. destruct (id0 =? id) eqn:E.
    + injection Hl as <-. assert (id0 = id) by lia; subst. split; [exact H1|split; [exact H2|exact H4]].
    + apply (Ho _ _ Hl).
  - intros Hcl id0 st Hl. cbn in Hl. rewrite lookup_update in Hl. destruct (id0 =? id).
    + injection Hl as <-. auto.
    + eapply Hc; eauto.
  - exact Hb.
Qed.

Lemma WFse_tab_true se id : WFse se -> WFse (upd_tab se (update id true (se_tab se))).
Proof.
  intros (Ho & Hc & Hb). destruct se; cbn in *. split; [|split]; try assumption.
  intros id0 st Hl. cbn in Hl. destruct (Ho _ _ Hl) as (H1 & H2 & H3). split; [exact H1|split].
  - intros Hop. cbn. rewrite lookup_update. destruct (id0 =? id); [reflexivity|]. apply (H2 Hop).
  - intros Hcl. cbn. rewrite lookup_update. destruct (id0 =? id); [discriminate|]. apply (H3 Hcl).
Qed.

Lemma WFse_tab_false se id :
  WFse se -> (forall st, lookup id (se_objs se) = Some st -> st_closed st = true) ->
  WFse (upd_tab se (update id false (se_tab se))).
Proof.
  intros (Ho & Hc & Hb) Hcl. destruct se; cbn in *. split; [|split]; try assumption.
  intros id0 st Hl. cbn in Hl. destruct (Ho _ _ Hl) as (H1 & H2 & H3). split; [exact H1|split].
  - intros Hop. cbn. rewrite lookup_update. destruct (id0 =? id) eqn:E.
    + assert (id0 = id) by lia; subst. rewrite (Hcl _ Hl) in Hop. discriminate.
    + apply (H2 Hop).
  - intros Hc'. cbn. rewrite lookup_update. destruct (id0 =? id); [discriminate|]. apply (H3 Hc').
Qed.

Lemma WFse_count se n : WFse se -> WFse (upd_count se n).
Proof. destruct se; exact (fun H => H). Qed.
Lemma WFse_timers se t : WFse se -> WFse (upd_timers se t).
Proof. destruct se; exact (fun H => H). Qed.
Lemma WFse_acceptq se q : WFse se -> WFse (upd_acceptq se q).
Proof. destruct se; exact (fun H => H). Qed.
Lemma WFse_nextsid se n : WFse se -> WFse (upd_nextsid se n).
Proof. destruct se; exact (fun H => H). Qed.
Lemma WFse_broken se : WFse se -> se_closed se = true -> WFse (upd_broken se true).
Proof. intros (Ho & Hc & Hb) H. destruct se; cbn in *. split; [exact Ho|split; [exact Hc|intros _; exact H]]. Qed.

(* ---------- closeSession ---------- *)
Lemma sweep_spec tab : forall objs cnt,
  let '(t', o', c') := sweep tab objs cnt in
  (forall id st', lookup id o' = Some st' ->
     exists st, lookup id objs = Some st /\
       (st' = st \/ (st_closed st = false /\ st' = mkS (st_seq st) (st_wcl st) true (rb_close (st_rb st))))) /\
  (forall id st, lookup id objs = Some st -> exists st', lookup id o' = Some st') /\
  (forall id st, In (id, true) tab -> lookup id objs = Some st ->
     exists st', lookup id o' = Some st' /\ st_closed st' = true).
Proof.
  induction tab as [|[id live] t IH]; intros objs cnt; cbn.
  - split; [|split]; [intros id st' H; exists st'; auto|intros id st H; eauto|intros id st []].
  - specialize (IH objs cnt). destruct (sweep t objs cnt) as [[t' o'] c']. destruct IH as (I1 & I2 & I3).
    destruct live.
    + destruct (lookup id o') as [st0|] eqn:E0.
      * destruct (st_closed st0) eqn:Ecl.
        -- split; [|split]; [exact I1|exact I2|].
           intros id1 st1 [Heq|Hin] Hl; [|eapply I3; eauto].
           injection Heq as <-. exists st0. split; [exact E0|exact Ecl].
        -- split; [|split].
           ++ intros id1 st' Hl. rewrite lookup_update in Hl. destruct (id1 =? id) eqn:E.
              ** assert (id1 = id) by lia; subst. injection Hl as <-.
                 destruct (I1 _ _ E0) as (st & Hs & [-> | [_ ->]]); exists st; split; auto; cbn in Ecl; discriminate.
              ** apply I1; exact Hl.
           ++ intros id1 st Hl. rewrite lookup_update. destruct (id1 =? id); eauto.
           ++ intros id1 st1 [Heq|Hin] Hl.
              ** injection Heq as <-. eexists. rewrite lookup_update_eq. split; reflexivity.
              ** rewrite lookup_update. destruct (id1 =? id); [eexists; split; reflexivity|]. eapply I3; eauto.
      * split; [|split]; [exact I1|exact I2|].
        intros id1 st1 [Heq|Hin] Hl; [|eapply I3; eauto].
        injection Heq as <-. destruct (I2 _ _ Hl) as (st' & Hs). congruence.
    + split; [|split]; [exact I1|exact I2|].
      intros id1 st1 [Heq|Hin] Hl; [discriminate|eapply I3; eauto].
Qed.

Lemma lookup_In {A} k (v : A) l : lookup k l = Some v -> In (k, v) l.
Proof. induction l as [|[k' v'] t IH]; cbn; [discriminate|].
  destruct (k =? k') eqn:E; [intros H; injection H as <-; left; f_equal; lia|auto]. Qed.

Lemma close_session_core_WF se :
  WFse se -> WFse (fst (close_session_core se)) /\ se_closed (fst (close_session_core se)) = true.
Proof.
  intros (Ho & Hc & Hb). unfold close_session_core. destruct (se_closed se) eqn:Ecl.
  - cbn. split; [split; [exact Ho|split; [exact Hc|exact Hb]]|exact Ecl].
  - pose proof (sweep_spec (se_tab se) (se_objs se) (se_count se)) as Hs.
    destruct (sweep (se_tab se) (se_objs se) (se_count se)) as [[t' o'] c']. destruct Hs as (S1 & S2 & S3).
    cbn. split; [|reflexivity].
    assert (Hall : forall id st', lookup id o' = Some st' -> st_closed st' = true /\ st_closed st' = pclosed (st_rb st')).
    { intros id st' Hl. destruct (S1 _ _ Hl) as (st & Hst & [-> | [_ ->]]).
      - destruct (Ho _ _ Hst) as (H1 & H2 & _). destruct (st_closed st) eqn:E; [auto|].
        specialize (H2 eq_refl). apply lookup_In in H2.
        destruct (S3 _ _ H2 Hst) as (st2 & Hl2 & Hc2). rewrite Hl in Hl2. injection Hl2 as <-. congruence.
      - cbn. auto. }
    split; [|split].
    + intros id st Hl. cbn in Hl. destruct (Hall _ _ Hl) as [Hx Hy]. split; [exact Hy|split; [intros Hop; congruence|intros Hf; discriminate Hf]].
    + intros _ id st Hl. cbn in Hl. apply (Hall _ _ Hl).
    + intros _. reflexivity.
Qed.

Lemma close_session_core_other_fields se :
  let se' := fst (close_session_core se) in
  se_pool se' = se_pool se /\ se_broken se' = se_broken se /\ se_singleplex se' = se_singleplex se.
Proof. unfold close_session_core. destruct (se_closed se); [cbn; auto|].
  destruct (sweep _ _ _) as [[t o] c]. destruct se; cbn. auto. Qed.

(* ---------- connections only ever get closed ---------- *)
Definition conns_mono (cs cs' : list conn) : Prop :=
  length cs' = length cs /\
  forall n a, nthN n cs = Some a -> exists b, nthN n cs' = Some b /\
    (c_clA a = true -> c_clA b = true) /\ (c_clB a = true -> c_clB b = true).
Lemma conns_mono_refl cs : conns_mono cs cs.
Proof. split; [reflexivity|]. intros n a H. exists a. auto. Qed.
Lemma conns_mono_trans a b c : conns_mono a b -> conns_mono b c -> conns_mono a c.
Proof. intros [L1 H1] [L2 H2]. split; [congruence|]. intros n x Hx.
  destruct (H1 _ _ Hx) as (y & Hy & Ha & Hb). destruct (H2 _ _ Hy) as (z & Hz & Ha' & Hb').
  exists z. auto. Qed.
Lemma conns_mono_setN cs n a b :
  nthN n cs = Some a -> (c_clA a = true -> c_clA b = true) -> (c_clB a = true -> c_clB b = true) ->
  conns_mono cs (setN n b cs).
Proof. intros Hn Ha Hb. split; [apply length_setN|]. intros m x Hx.
  destruct (Nat.eq_dec m n) as [->|Hne].
  - rewrite Hn in Hx. injection Hx as <-. exists b. split; [eapply nthN_setN_eq; eauto|auto].
  - exists x. rewrite nthN_setN_neq; auto. Qed.

Lemma conn_le_mono s a b : conn_le s a b ->
  (c_clA a = true -> c_clA b = true) /\ (c_clB a = true -> c_clB b = true).
Proof. destruct s; unfold conn_le; cbn; intros (_ & _ & _ & H1 & H2); split; intros H; try (apply H2; exact H); congruence. Qed.

Lemma close_ends_mono s pool cs : conns_mono cs (fst (close_ends s pool cs)).
Proof. split; [apply close_ends_length|]. intros n a Hn.
  destruct (close_ends_spec s pool cs) as [H1 _]. destruct (H1 _ _ Hn) as (b & Hb & Hle).
  exists b. split; [exact Hb|]. apply (conn_le_mono _ _ _ Hle). Qed.

(* the generic way to re-establish WF after a step of one side *)
Lemma ends_ok_mono y y' s :
  ends_ok y s -> conns_mono (sy_conns y) (sy_conns y') ->
  se_pool (sess y' s) = se_pool (sess y s) ->
  (se_broken (sess y' s) = true -> se_broken (sess y s) = true) ->
  ends_ok y' s.
Proof.
  intros He [Hlen Hm] Hp Hb Hbr c cn Hin Hn. rewrite Hp in Hin.
  assert (exists a, nthN (N.to_nat c) (sy_conns y) = Some a) as [a Ha].
  { apply nthN_lt_Some. rewrite <- Hlen. eapply nthN_Some_lt; eauto. }
  destruct (Hm _ _ Ha) as (b & Hb' & HA & HB). rewrite Hn in Hb'. injection Hb' as <-.
  specialize (He (Hb Hbr) c a Hin Ha). destruct s; cbn in *; auto.
Qed.

(* ---------- closeAll / passiveClose ---------- *)
Lemma close_all_WF y s y' evs :
  close_all y s = (y', evs) -> WF y -> se_closed (sess y s) = true -> WF y'.
Proof.
  unfold close_all. intros H Hwf Hcl. destruct (se_broken (sess y s)) eqn:Eb.
  - injection H as <- <-. exact Hwf.
  - destruct (close_ends s (se_pool (sess y s)) (sy_conns y)) as [cs evs0] eqn:Ece.
    injection H as <- <-.
    pose proof (close_ends_mono s (se_pool (sess y s)) (sy_conns y)) as Hmono. rewrite Ece in Hmono. cbn in Hmono.
    pose proof (close_ends_spec s (se_pool (sess y s)) (sy_conns y)) as [_ Hcl2]. rewrite Ece in Hcl2. cbn in Hcl2.
    assert (Hs : WFse (upd_broken (sess y s) true)) by (apply WFse_broken; [apply WF_sess; exact Hwf|exact Hcl]).
    assert (He_s : ends_ok (set_conns (set_sess y s (upd_broken (sess y s) true)) cs) s).
    { intros _ c cn Hin Hn. rewrite sess_set_conns, sess_set_same in Hin.
      assert (Hin' : In c (se_pool (sess y s))) by (destruct (sess y s); exact Hin).
      cbn in Hn.
      assert (exists a, nthN (N.to_nat c) (sy_conns y) = Some a) as [a Ha].
      { apply nthN_lt_Some. destruct Hmono as [Hl _]. rewrite <- Hl. eapply nthN_Some_lt; eauto. }
      destruct (Hcl2 _ _ Hin' Ha) as (b & Hb & Hc). rewrite Hn in Hb. injection Hb as <-. exact Hc. }
    assert (He_o : ends_ok (set_conns (set_sess y s (upd_broken (sess y s) true)) cs) (other s)).
    { eapply (ends_ok_mono y); [apply WF_ends; exact Hwf|cbn; exact Hmono| |].
      - rewrite sess_set_conns, sess_set_other. reflexivity.
      - rewrite sess_set_conns, sess_set_other. auto. }
    destruct s; cbn in *; (split; [|split; [|split]]); try assumption;
      try (apply (WF_sess y SA Hwf)); try (apply (WF_sess y SB Hwf)).
Qed.

Lemma passive_close_WF y s y' evs : passive_close y s = (y', evs) -> WF y -> WF y'.
Proof.
  unfold passive_close. intros H Hwf.
  destruct (close_session_core (sess y s)) as [se ok] eqn:Ecs.
  destruct ok; [|injection H as <- <-; exact Hwf].
  pose proof (close_session_core_WF (sess y s) (WF_sess y s Hwf)) as [Hse Hcl]. rewrite Ecs in Hse, Hcl. cbn in Hse, Hcl.
  pose proof (close_session_core_other_fields (sess y s)) as (Hp & Hb & _). rewrite Ecs in Hp, Hb. cbn in Hp, Hb.
  eapply close_all_WF; [exact H| |rewrite sess_set_same; exact Hcl].
  assert (He : forall s', ends_ok (set_sess y s se) s').
  { intros s'. eapply (ends_ok_mono y); [apply WF_ends; exact Hwf|rewrite conns_set_sess; apply conns_mono_refl| |].
    - rewrite sess_set. destruct (side_eqb s s') eqn:E; [|reflexivity]. destruct s, s'; try discriminate; exact Hp.
    - rewrite sess_set. destruct (side_eqb s s') eqn:E; [|auto]. destruct s, s'; try discriminate; rewrite Hb; auto. }
  destruct s; cbn; (split; [|split; [|split]]); try exact Hse;
    try (apply (WF_sess y SA Hwf)); try (apply (WF_sess y SB Hwf)); try apply (He SA); try apply (He SB).
Qed.

Lemma passive_close_closed y s y' evs :
  passive_close y s = (y', evs) -> se_closed (sess y' s) = true.
Proof.
  unfold passive_close. intros H.
  destruct (close_session_core (sess y s)) as [se ok] eqn:Ecs.
  pose proof Ecs as Ecs'. unfold close_session_core in Ecs'.
  destruct (se_closed (sess y s)) eqn:Ecl.
  - injection Ecs' as <- <-. injection H as <- <-. exact Ecl.
  - destruct (sweep _ _ _) as [[t o] c]. injection Ecs' as <- <-.
    unfold close_all in H. rewrite sess_set_same in H.
    destruct (se_broken _); [injection H as <- <-; rewrite sess_set_same; reflexivity|].
    destruct (close_ends _ _ _) as [cs e]. injection H as <- <-.
    rewrite sess_set_conns, sess_set_same. reflexivity.
Qed.

(* ---------- generic re-establishment ---------- *)
Lemma WF_update y y' s :
  WF y -> WFse (sess y' s) -> sess y' (other s) = sess y (other s) ->
  conns_mono (sy_conns y) (sy_conns y') ->
  se_pool (sess y' s) = se_pool (sess y s) ->
  (se_broken (sess y' s) = true -> se_broken (sess y s) = true) ->
  WF y'.
Proof.
  intros Hwf Hs Ho Hm Hp Hb.
  assert (He1 : ends_ok y' s) by (eapply (ends_ok_mono y); eauto; apply WF_ends; exact Hwf).
  assert (He2 : ends_ok y' (other s)).
  { eapply (ends_ok_mono y); [apply WF_ends; exact Hwf|exact Hm|rewrite Ho; reflexivity|rewrite Ho; auto]. }
  assert (Ho' : WFse (sess y' (other s))) by (rewrite Ho; apply WF_sess; exact Hwf).
  destruct s; cbn in *; (split; [|split; [|split]]); assumption.
Qed.

Lemma WF_set_sess y s se :
  WF y -> WFse se -> se_pool se = se_pool (sess y s) ->
  (se_broken se = true -> se_broken (sess y s) = true) -> WF (set_sess y s se).
Proof.
  intros Hwf Hse Hp Hb. apply (WF_update y _ s Hwf).
  - now rewrite sess_set_same.
  - now rewrite sess_set_other.
  - rewrite conns_set_sess. apply conns_mono_refl.
  - now rewrite sess_set_same.
  - now rewrite sess_set_same.
Qed.

Lemma WF_set_conns y cs : WF y -> conns_mono (sy_conns y) cs -> WF (set_conns y cs).
Proof.
  intros Hwf Hm. apply (WF_update y _ SA Hwf); cbn; auto. apply (WF_sess y SA Hwf).
Qed.
Lemma WF_set_pend y p : WF y -> WF (set_pend y p).
Proof. intros H. exact H. Qed.
Lemma WF_set_now y t : WF y -> WF (set_now y t).
Proof. intros H. exact H. Qed.

(* ---------- sending ---------- *)
Lemma conn_set_q_flags cn s q :
  c_clA (conn_set_q cn s q) = c_clA cn /\ c_clB (conn_set_q cn s q) = c_clB cn /\
  c_failed (conn_set_q cn s q) = c_failed cn.
Proof. destruct s, cn; cbn; auto. Qed.

Lemma sb_send_WF y s fr p y' evs rc : sb_send y s fr p = (y', evs, rc) -> WF y -> WF y'.
Proof.
  unfold sb_send. intros H Hwf.
  destruct (se_broken (sess y s)); [injection H as <- <- <-; exact Hwf|].
  destruct (se_pool (sess y s)); [injection H as <- <- <-; exact Hwf|].
  destruct (nthN (N.to_nat p) (sy_conns y)) as [cn|] eqn:En; [|injection H as <- <- <-; exact Hwf].
  destruct (conn_closed_end cn s || c_failed cn).
  - destruct (passive_close y s) as [y1 e1] eqn:Epc. injection H as <- <- <-.
    eapply passive_close_WF; eauto.
  - injection H as <- <- <-. apply WF_set_conns; [exact Hwf|].
    destruct (conn_set_q_flags cn (other s) (conn_q cn (other s) ++ [fr])) as (Ha & Hb & _).
    eapply conns_mono_setN; [exact En|rewrite Ha; auto|rewrite Hb; auto].
Qed.

Lemma stream_emit_WF y s sid pay ch y' ch' evs ok :
  stream_emit y s sid pay ch = (y', ch', evs, ok) -> WF y -> WF y'.
Proof.
  unfold stream_emit. intros H Hwf.
  destruct (lookup sid (se_objs (sess y s))) as [st|] eqn:El; [|injection H as <- <- <- <-; exact Hwf].
  set (y1 := set_sess y s _) in H.
  assert (Hwf1 : WF y1).
  { unfold y1. pose proof (WF_sess y s Hwf) as Hse. destruct Hse as (Ho & Hc & Hb).
    destruct (Ho _ _ El) as (H1 & H2 & H3).
    apply WF_set_sess; [exact Hwf| | |].
    - apply WFse_upd_obj; [split; [exact Ho|split; [exact Hc|exact Hb]]|exact H1|exact H2| |exact H3].
      intros Hcl. cbn. eapply Hc; eauto.
    - destruct (sess y s); reflexivity.
    - destruct (sess y s); cbn; auto. }
  destruct (hd_pick ch) as [c ch0].
  destruct (sb_send y1 s _ c) as [[y2 e2] rc] eqn:Es.
  pose proof (sb_send_WF _ _ _ _ _ _ _ Es Hwf1) as Hwf2.
  destruct (rc =? 0); [injection H as <- <- <- <-; exact Hwf2|].
  destruct (rc =? 1).
  - destruct (passive_close y2 s) as [y3 e3] eqn:Epc. injection H as <- <- <- <-.
    eapply passive_close_WF; eauto.
  - injection H as <- <- <- <-. exact Hwf2.
Qed.

Lemma session_close_WF y s ch y' ch' evs rc :
  session_close y s ch = (y', ch', evs, rc) -> WF y -> WF y'.
Proof.
  unfold session_close. intros H Hwf.
  destruct (close_session_core (sess y s)) as [se ok] eqn:Ecs.
  destruct ok; cbn [negb] in H; [|injection H as <- <- <- <-; exact Hwf].
  pose proof (close_session_core_WF (sess y s) (WF_sess y s Hwf)) as [Hse Hcl]. rewrite Ecs in Hse, Hcl. cbn in Hse, Hcl.
  pose proof (close_session_core_other_fields (sess y s)) as (Hp & Hb & _). rewrite Ecs in Hp, Hb. cbn in Hp, Hb.
  assert (Hwf1 : WF (set_sess y s se)) by (apply WF_set_sess; auto; rewrite Hb; auto).
  destruct (hd_pick ch) as [c ch0].
  destruct (sb_send (set_sess y s se) s _ c) as [[y2 e2] rc2] eqn:Es.
  pose proof (sb_send_WF _ _ _ _ _ _ _ Es Hwf1) as Hwf2.
  destruct (close_all y2 s) as [y3 e3] eqn:Eca.
  assert (Hwf3 : WF y3).
  { eapply close_all_WF; [exact Eca|exact Hwf2|].
    (* the session is still closed after the send *)
    unfold sb_send in Es. rewrite sess_set_same in Es.
    destruct (se_broken se); [injection Es as <- <- <-; rewrite sess_set_same; exact Hcl|].
    destruct (se_pool se); [injection Es as <- <- <-; rewrite sess_set_same; exact Hcl|].
    destruct (nthN _ _) as [cn|]; [|injection Es as <- <- <-; rewrite sess_set_same; exact Hcl].
    destruct (_ || _).
    + destruct (passive_close _ s) as [y4 e4] eqn:Epc. injection Es as <- <- <-.
      eapply passive_close_closed; eauto.
    + injection Es as <- <- <-. rewrite sess_set_conns, sess_set_same. exact Hcl. }
  destruct (rc2 =? 0); [|destruct (rc2 =? 1)]; injection H as <- <- <- <-; exact Hwf3.
Qed.

(* a closed session stays closed through the building blocks *)
Lemma sb_send_closed_mono y s fr p y' evs rc s' :
  sb_send y s fr p = (y', evs, rc) -> se_closed (sess y s') = true -> se_closed (sess y' s') = true.
Proof.
  unfold sb_send. intros H Hc.
  destruct (se_broken (sess y s)); [injection H as <- <- <-; exact Hc|].
  destruct (se_pool (sess y s)); [injection H as <- <- <-; exact Hc|].
  destruct (nthN _ _) as [cn|]; [|injection H as <- <- <-; exact Hc].
  destruct (_ || _).
  - destruct (passive_close y s) as [y1 e1] eqn:Epc. injection H as <- <- <-.
    unfold passive_close in Epc. destruct (close_session_core (sess y s)) as [se ok] eqn:Ecs.
    destruct ok; [|injection Epc as <- <-; exact Hc].
    assert (Hse : se_closed se = true).
    { unfold close_session_core in Ecs. destruct (se_closed (sess y s)); [discriminate Ecs|].
      destruct (sweep _ _ _) as [[t o] c]. injection Ecs as <-. reflexivity. }
    unfold close_all in Epc. rewrite sess_set_same in Epc.
    assert (Hc1 : se_closed (sess (set_sess y s se) s') = true).
    { rewrite sess_set. destruct (side_eqb s s'); [exact Hse|exact Hc]. }
    destruct (se_broken se); [injection Epc as <- <-; exact Hc1|].
    destruct (close_ends _ _ _) as [cs e]. injection Epc as <- <-.
    rewrite sess_set_conns, sess_set. destruct (side_eqb s s') eqn:E.
    + destruct se; exact Hse.
    + rewrite sess_set, E. exact Hc.
  - injection H as <- <- <-. rewrite sess_set_conns. exact Hc.
Qed.

(* ---------- closeStream ---------- *)
Lemma close_stream_WF y s sid active ch y' ch' evs rc :
  close_stream y s sid active ch = (y', ch', evs, rc) -> WF y -> WF y'.
Proof.
  unfold close_stream. intros H Hwf.
  destruct (lookup sid (se_objs (sess y s))) as [st|] eqn:El; [|injection H as <- <- <- <-; exact Hwf].
  destruct (st_closed st) eqn:Ecl; [injection H as <- <- <- <-; exact Hwf|].
  set (st1 := mkS _ _ true _) in H.
  set (y1 := set_sess y s _) in H.
  assert (Hl1 : lookup sid (se_objs (sess y1 s)) = Some st1).
  { unfold y1. rewrite sess_set_same. destruct (sess y s); cbn. apply lookup_update_eq. }
  assert (Hwf1 : WF y1).
  { unfold y1. apply WF_set_sess; [exact Hwf| | |].
    - apply WFse_upd_obj; [apply WF_sess; exact Hwf|reflexivity|discriminate|reflexivity|].
      destruct (WF_sess y s Hwf) as (Ho & _ & _). destruct (Ho _ _ El) as (_ & _ & H3). exact H3.
    - destruct (sess y s); reflexivity.
    - destruct (sess y s); cbn; auto. }
  destruct (if active then stream_emit y1 s sid [] ch else (y1, ch, [], true)) as [[[y2 ch2] evs2] ok] eqn:Ee.
  assert (Hwf2 : WF y2).
  { destruct active; [eapply stream_emit_WF; eauto|injection Ee as <- <- <- <-; exact Hwf1]. }
  destruct ok; cbn [negb] in H; [|injection H as <- <- <- <-; exact Hwf2].
  (* the object is still closed in y2 *)
  assert (Hcl2 : forall st2, lookup sid (se_objs (sess y2 s)) = Some st2 -> st_closed st2 = true).
  { destruct (WF_sess y2 s Hwf2) as (Ho2 & Hc2 & _).
    destruct active; [|injection Ee as <- <- <-; intros st2 Hl2; rewrite Hl1 in Hl2; injection Hl2 as <-; reflexivity].
    unfold stream_emit in Ee. rewrite Hl1 in Ee.
    set (y1' := set_sess y1 s _) in Ee.
    destruct (hd_pick ch) as [c ch0]. destruct (sb_send y1' s _ c) as [[y3 e3] rc3] eqn:Es.
    assert (Hl1' : exists st', lookup sid (se_objs (sess y1' s)) = Some st' /\ st_closed st' = true).
    { unfold y1'. rewrite sess_set_same. eexists. destruct (sess y1 s); cbn. rewrite lookup_update_eq. split; reflexivity. }
    (* sb_send and passive_close change objects only by closing them: use closed_ok / lookup through the send *)
    intros st2 Hl2.
    (* case analysis on how y2 was produced *)
    destruct (rc3 =? 0) eqn:E0.
    - injection Ee as <- <- <-.
      unfold sb_send in Es. destruct (se_broken (sess y1' s)); [injection Es as <- <- <-; lia|].
      destruct (se_pool (sess y1' s)); [injection Es as <- <- <-; lia|].
      destruct (nthN _ _); [|injection Es as <- <- <-; lia].
      destruct (_ || _).
      + destruct (passive_close y1' s) as [y4 e4]. injection Es as <- <- <-. lia.
      + injection Es as <- <- <-. rewrite sess_set_conns in Hl2.
        destruct Hl1' as (st' & Hs' & Hc'). rewrite Hs' in Hl2. injection Hl2 as <-. exact Hc'.
    - destruct (rc3 =? 1).
      + destruct (passive_close y3 s) as [y4 e4]. discriminate Ee.
      + discriminate Ee. }
  set (se := sess y2 s) in *.
  set (se' := upd_count (upd_tab se (update sid false (se_tab se))) (decr32 (se_count se))) in H.
  assert (Hse' : WFse se').
  { unfold se'. apply WFse_count. apply WFse_tab_false; [apply WF_sess; exact Hwf2|exact Hcl2]. }
  assert (Hwf3 : WF (set_sess y2 s se')).
  { apply WF_set_sess; [exact Hwf2|exact Hse'| |]; unfold se', se; destruct (sess y2 s); cbn; auto. }
  destruct (decr32 (se_count se) =? 0).
  - destruct (se_singleplex se').
    + destruct (session_close (set_sess y2 s se') s ch2) as [[[y4 ch4] evs4] rc4] eqn:Esc.
      injection H as <- <- <- <-. eapply session_close_WF; eauto.
    + injection H as <- <- <- <-. apply WF_set_sess; [exact Hwf3| | |]; rewrite ?sess_set_same.
      * apply WFse_timers. exact Hse'.
      * destruct se'; reflexivity.
      * destruct se'; cbn; auto.
  - injection H as <- <- <- <-. exact Hwf3.
Qed.

(* ---------- receiving ---------- *)
Lemma WFse_add_stream se id st' :
  WFse se -> st_closed st' = pclosed (st_rb st') ->
  (se_closed se = true -> st_closed st' = true) ->
  WFse (upd_tab (upd_objs se (update id st' (se_objs se))) (update id true (se_tab se))).
Proof.
  intros (Ho & Hc & Hb) H1 H3. split; [|split].
  - intros id0 st Hl. cbn in Hl. rewrite lookup_update in Hl. cbn. rewrite lookup_update.
    destruct (id0 =? id) eqn:E.
    + injection Hl as <-. split; [exact H1|split; [reflexivity|discriminate]].
    + destruct (Ho _ _ Hl) as (Ha & Hb' & Hc'). split; [exact Ha|split; [exact Hb'|exact Hc']].
  - intros Hcl id0 st Hl. cbn in Hl, Hcl. rewrite lookup_update in Hl. destruct (id0 =? id).
    + injection Hl as <-. auto.
    + eapply Hc; eauto.
  - exact Hb.
Qed.

Lemma WF_store_rb y0 s sid st rb' :
  WF y0 -> lookup sid (se_objs (sess y0 s)) = Some st -> pclosed rb' = pclosed (st_rb st) ->
  WF (set_sess y0 s (upd_objs (sess y0 s) (update sid (st_set_rb st rb') (se_objs (sess y0 s))))).
Proof.
  intros Hwf0 El Hpc. destruct (WF_sess y0 s Hwf0) as (Ho & Hc & Hb). destruct (Ho _ _ El) as (H1 & H2 & H3).
  apply WF_set_sess; [exact Hwf0| | |].
  - apply WFse_upd_obj; [split; [exact Ho|split; [exact Hc|exact Hb]]| | | |exact H3].
    + cbn. rewrite Hpc. exact H1.
    + exact H2.
    + intros Hcl. cbn. eapply Hc; eauto.
  - destruct (sess y0 s); reflexivity.
  - destruct (sess y0 s); cbn; auto.
Qed.

Lemma recv_frame_WF y s fr ch y' ch' evs :
  recv_frame y s fr ch = (y', ch', evs) -> WF y -> WF y'.
Proof.
  unfold recv_frame. intros H Hwf.
  destruct (w_cl fr =? 2).
  { destruct (passive_close y s) as [y1 e1] eqn:Epc. injection H as <- <- <-. eapply passive_close_WF; eauto. }
  destruct (se_closed (sess y s)) eqn:Ecl; [injection H as <- <- <-; exact Hwf|].
  assert (Hdel : forall y0, WF y0 ->
     forall r, match lookup (w_sid fr) (se_objs (sess y0 s)) with
               | None => (y0, ch, [])
               | Some st =>
                   let '(rb', tbc, _) := rb_write (st_rb st) (mkF (w_seq fr) (negb (w_cl fr =? 0)) (w_pay fr)) in
                   let y1 := set_sess y0 s (upd_objs (sess y0 s) (update (w_sid fr) (st_set_rb st rb') (se_objs (sess y0 s)))) in
                   if tbc then let '(y2, ch2, evs2, _) := close_stream y1 s (w_sid fr) false ch in (y2, ch2, evs2)
                   else (y1, ch, [])
               end = r -> WF (fst (fst r))).
  { intros y0 Hwf0 r Hr.
    destruct (lookup (w_sid fr) (se_objs (sess y0 s))) as [st|] eqn:El; [|subst r; exact Hwf0].
    pose proof (rb_write_pclosed (st_rb st) (mkF (w_seq fr) (negb (w_cl fr =? 0)) (w_pay fr))) as Hpc.
    destruct (rb_write (st_rb st) _) as [[rb' tbc] er]. cbn in Hpc.
    pose proof (WF_store_rb y0 s (w_sid fr) st rb' Hwf0 El Hpc) as Hwf1.
    cbv zeta in Hr. destruct tbc.
    - destruct (close_stream _ s (w_sid fr) false ch) as [[[y2 ch2] evs2] rc] eqn:Ecs. subst r. cbn.
      eapply close_stream_WF; [exact Ecs|exact Hwf1].
    - subst r. exact Hwf1. }
  destruct (lookup (w_sid fr) (se_tab (sess y s))) as [[|]|] eqn:Et.
  - specialize (Hdel y Hwf _ H). exact Hdel.
  - injection H as <- <- <-. exact Hwf.
  - set (se' := upd_count _ _) in H.
    assert (Hwf' : WF (set_sess y s se')).
    { apply WF_set_sess; [exact Hwf| | |].
      - unfold se'. apply WFse_count, WFse_acceptq.
        apply WFse_add_stream; [apply WF_sess; exact Hwf|reflexivity|rewrite Ecl; discriminate].
      - unfold se'. destruct (sess y s); reflexivity.
      - unfold se'. destruct (sess y s); cbn; auto. }
    specialize (Hdel _ Hwf' _ H). exact Hdel.
Qed.

Lemma deplex_error_WF y s c y' evs : deplex_error y s c = (y', evs) -> WF y -> WF y'.
Proof.
  unfold deplex_error. intros H Hwf.
  destruct (passive_close y s) as [y1 e1] eqn:Epc.
  pose proof (passive_close_WF _ _ _ _ Epc Hwf) as Hwf1.
  destruct (nthN (N.to_nat c) (sy_conns y1)) as [cn|] eqn:En; [|injection H as <- <-; exact Hwf1].
  destruct (conn_closed_end cn s); injection H as <- <-; [exact Hwf1|].
  apply WF_set_conns; [exact Hwf1|].
  pose proof (conn_le_mono s cn (conn_close_end cn s) (conn_le_close s cn)) as [Ha Hb].
  eapply conns_mono_setN; eauto.
Qed.

(* ---------- application calls ---------- *)
Lemma open_stream_WF y s y' evs : open_stream y s = (y', evs) -> WF y -> WF y'.
Proof.
  unfold open_stream. intros H Hwf.
  destruct (se_closed (sess y s)) eqn:Ecl; [injection H as <- <-; exact Hwf|].
  set (se1 := upd_nextsid _ _) in H.
  assert (Hse1 : WFse se1) by (apply WFse_nextsid, WF_sess; exact Hwf).
  assert (Hcl1 : se_closed se1 = false) by exact Ecl.
  destruct (_ && _).
  - injection H as <- <-. apply WF_set_sess; [exact Hwf|exact Hse1|reflexivity|cbn; auto].
  - injection H as <- <-. apply WF_set_sess; [exact Hwf| | |].
    + apply WFse_count. apply (WFse_add_stream se1); [exact Hse1|reflexivity|rewrite Hcl1; discriminate].
    + reflexivity.
    + cbn; auto.
Qed.

Lemma write_loop_WF fuel : forall y s sid data n ch y' ch' evs n' rc,
  write_loop fuel y s sid data n ch = (y', ch', evs, n', rc) -> WF y -> WF y'.
Proof.
  induction fuel as [|fuel IH]; intros y s sid data n ch y' ch' evs n' rc H Hwf; cbn in H.
  - injection H as <- <- <- <- <-. exact Hwf.
  - destruct data as [|b data']; [injection H as <- <- <- <- <-; exact Hwf|].
    set (data := b :: data') in *.
    destruct (stream_emit y s sid (firstn (N.to_nat (se_unit (sess y s))) data) ch) as [[[y1 ch1] evs1] ok] eqn:Ee.
    pose proof (stream_emit_WF _ _ _ _ _ _ _ _ _ Ee Hwf) as Hwf1.
    destruct ok; [|injection H as <- <- <- <- <-; exact Hwf1].
    destruct (write_loop fuel y1 s sid _ _ ch1) as [[[[y2 ch2] evs2] n2] rc2] eqn:Ew.
    injection H as <- <- <- <- <-. eapply IH; eauto.
Qed.

Lemma stream_write_WF y s sid data ch y' evs : stream_write y s sid data ch = (y', evs) -> WF y -> WF y'.
Proof.
  unfold stream_write. intros H Hwf.
  destruct (lookup sid (se_objs (sess y s))) as [st|]; [|injection H as <- <-; exact Hwf].
  destruct (st_closed st); [injection H as <- <-; exact Hwf|].
  destruct (write_loop _ y s sid data 0 ch) as [[[[y1 ch1] evs1] n1] rc1] eqn:Ew.
  injection H as <- <-. eapply write_loop_WF; eauto.
Qed.

Lemma try_read_WF y s sid k y' rc d : try_read y s sid k = Some (y', rc, d) -> WF y -> WF y'.
Proof.
  unfold try_read. intros H Hwf.
  destruct (lookup sid (se_objs (sess y s))) as [st|] eqn:El; [|injection H as <- <- <-; exact Hwf].
  destruct k as [|k]; [injection H as <- <- <-; exact Hwf|].
  pose proof (rb_read_pclosed (st_rb st) (S k)) as Hpc.
  destruct (rb_read (st_rb st) (S k)) as [rb' [dd| |]]; cbn in Hpc; try discriminate;
    injection H as <- <- <-; try exact Hwf.
  destruct (WF_sess y s Hwf) as (Ho & Hc & Hb). destruct (Ho _ _ El) as (H1 & H2 & H3).
  apply WF_set_sess; [exact Hwf| | |].
  - apply WFse_upd_obj; [split; [exact Ho|split; [exact Hc|exact Hb]]| | | |exact H3].
    + cbn. rewrite Hpc. exact H1.
    + exact H2.
    + intros Hcl. cbn. eapply Hc; eauto.
  - destruct (sess y s); reflexivity.
  - destruct (sess y s); cbn; auto.
Qed.

Lemma try_accept_WF y s y' rc id : try_accept y s = Some (y', rc, id) -> WF y -> WF y'.
Proof.
  unfold try_accept. intros H Hwf.
  destruct (se_acceptq (sess y s)) as [|a q].
  - destruct (se_closed (sess y s)); [injection H as <- <- <-; exact Hwf|discriminate].
  - injection H as <- <- <-. apply WF_set_sess; [exact Hwf|apply WFse_acceptq, WF_sess; exact Hwf| |];
      destruct (sess y s); cbn; auto.
Qed.

Lemma resolve_WF ps : forall y y' ps' evs, resolve ps y = (y', ps', evs) -> WF y -> WF y'.
Proof.
  induction ps as [|p t IH]; intros y y' ps' evs H Hwf; cbn in H.
  - injection H as <- <- <-. exact Hwf.
  - destruct p as [s sid k|s].
    + destruct (try_read y s sid k) as [[[y1 rc] d]|] eqn:Et.
      * destruct (resolve t y1) as [[y2 ps2] e2] eqn:Er. injection H as <- <- <-.
        eapply IH; [exact Er|]. eapply try_read_WF; eauto.
      * destruct (resolve t y) as [[y2 ps2] e2] eqn:Er. injection H as <- <- <-. eapply IH; eauto.
    + destruct (try_accept y s) as [[[y1 rc] id]|] eqn:Et.
      * destruct (resolve t y1) as [[y2 ps2] e2] eqn:Er. injection H as <- <- <-.
        eapply IH; [exact Er|]. eapply try_accept_WF; eauto.
      * destruct (resolve t y) as [[y2 ps2] e2] eqn:Er. injection H as <- <- <-. eapply IH; eauto.
Qed.

Lemma fire_timers_WF fuel : forall y s ch y' ch' evs,
  fire_timers fuel y s ch = (y', ch', evs) -> WF y -> WF y'.
Proof.
  induction fuel as [|fuel IH]; intros y s ch y' ch' evs H Hwf; cbn in H.
  - injection H as <- <- <-. exact Hwf.
  - destruct (se_timers (sess y s)) as [|t rest] eqn:Et; [injection H as <- <- <-; exact Hwf|].
    destruct (t <=? sy_now y)%Z; [|injection H as <- <- <-; exact Hwf].
    set (y1 := set_sess y s _) in H.
    assert (Hwf1 : WF y1).
    { unfold y1. apply WF_set_sess; [exact Hwf|apply WFse_timers, WF_sess; exact Hwf| |]; destruct (sess y s); cbn; auto. }
    destruct (_ && _).
    + destruct (session_close y1 s ch) as [[[y2 ch2] evs2] rc2] eqn:Esc.
      destruct (fire_timers fuel y2 s ch2) as [[y3 ch3] evs3] eqn:Ef. injection H as <- <- <-.
      eapply IH; [exact Ef|]. eapply session_close_WF; eauto.
    + eapply IH; eauto.
Qed.

(* ---------- one label, a whole run ---------- *)
Lemma step_core_WF y l ch y' evs : step_core y l ch = (y', evs) -> WF y -> WF y'.
Proof.
  intros H Hwf. destruct l as [s|s sid data|s sid k|s|s sid|s|s c|c|d|c|s c].
  - rewrite step_core_open in H. eapply open_stream_WF; eauto.
  - rewrite step_core_write in H. eapply stream_write_WF; eauto.
  - rewrite step_core_read in H.
    destruct (has_pending_read _ _ _); [injection H as <- <-; exact Hwf|].
    destruct (try_read y s sid k) as [[[y1 rc] dd]|] eqn:Et; injection H as <- <-; [eapply try_read_WF; eauto|exact Hwf].
  - rewrite step_core_accept in H.
    destruct (se_closed (sess y s)); [injection H as <- <-; exact Hwf|].
    destruct (try_accept y s) as [[[y1 rc] id]|] eqn:Et; [injection H as <- <-; eapply try_accept_WF; eauto|].
    destruct (has_pending_accept _ _); injection H as <- <-; exact Hwf.
  - rewrite step_core_close_stream in H.
    destruct (close_stream y s sid true ch) as [[[y1 ch1] e1] rc] eqn:Ec. injection H as <- <-. eapply close_stream_WF; eauto.
  - rewrite step_core_close_session in H.
    destruct (session_close y s ch) as [[[y1 ch1] e1] rc] eqn:Ec. injection H as <- <-. eapply session_close_WF; eauto.
  - rewrite step_core_deliver in H.
    destruct (nthN (N.to_nat c) (sy_conns y)) as [cn|] eqn:En; [|injection H as <- <-; exact Hwf].
    destruct (_ || _); [injection H as <- <-; exact Hwf|].
    destruct (conn_q cn s) as [|fr q] eqn:Eq.
    + destruct (conn_closed_end cn (other s)); [|injection H as <- <-; exact Hwf].
      destruct (deplex_error y s c) as [y1 e1] eqn:Ed. injection H as <- <-. eapply deplex_error_WF; eauto.
    + destruct (recv_frame _ s fr ch) as [[y2 ch2] e2] eqn:Er. injection H as <- <-.
      eapply recv_frame_WF; [exact Er|]. apply WF_set_conns; [exact Hwf|].
      destruct (conn_set_q_flags cn s q) as (Ha & Hb & _).
      eapply conns_mono_setN; [exact En|rewrite Ha; auto|rewrite Hb; auto].
  - rewrite step_core_fail in H.
    destruct (nthN (N.to_nat c) (sy_conns y)) as [cn|] eqn:En; [|injection H as <- <-; exact Hwf].
    cbv zeta in H.
    assert (Hwf0 : WF (set_conns y (setN (N.to_nat c) (mkC [] [] (c_clA cn) (c_clB cn) true) (sy_conns y)))).
    { apply WF_set_conns; [exact Hwf|]. eapply conns_mono_setN; [exact En|cbn; auto|cbn; auto]. }
    destruct (if conn_closed_end cn SA || c_failed cn then _ else _) as [y1 e1] eqn:E1.
    assert (Hwf1 : WF y1).
    { destruct (conn_closed_end cn SA || c_failed cn); [injection E1 as <- <-; exact Hwf0|eapply deplex_error_WF; eauto]. }
    destruct (if conn_closed_end cn SB || c_failed cn then _ else _) as [y2 e2] eqn:E2.
    injection H as <- <-.
    destruct (conn_closed_end cn SB || c_failed cn); [injection E2 as <- <-; exact Hwf1|eapply deplex_error_WF; eauto].
  - rewrite step_core_tick in H.
    destruct (fire_timers 64 (set_now y (sy_now y + d)%Z) SA ch) as [[y1 ch1] e1] eqn:E1.
    destruct (fire_timers 64 y1 SB ch1) as [[y2 ch2] e2] eqn:E2. injection H as <- <-.
    eapply fire_timers_WF; [exact E2|]. eapply fire_timers_WF; [exact E1|]. exact Hwf.
  - rewrite step_core_break in H.
    destruct (nthN (N.to_nat c) (sy_conns y)) as [cn|] eqn:En; injection H as <- <-; [|exact Hwf].
    apply WF_set_conns; [exact Hwf|]. eapply conns_mono_setN; [exact En|cbn; auto|cbn; auto].
  - rewrite step_core_notice in H.
    destruct (nthN (N.to_nat c) (sy_conns y)) as [cn|] eqn:En; [|injection H as <- <-; exact Hwf].
    destruct (_ && _); [|injection H as <- <-; exact Hwf].
    destruct (deplex_error y s c) as [y1 e1] eqn:Ed. injection H as <- <-. eapply deplex_error_WF; eauto.
Qed.

Lemma step_WF y l ch y' evs : step y l ch = (y', evs) -> WF y -> WF y'.
Proof.
  unfold step. intros H Hwf. destruct (step_core y l ch) as [y1 e1] eqn:Ec.
  destruct (resolve (sy_pend y1) y1) as [[y2 ps] e2] eqn:Er. injection H as <- <-.
  apply WF_set_pend. eapply resolve_WF; [exact Er|]. eapply step_core_WF; eauto.
Qed.

Lemma run_WF ls : forall y y' os, run y ls = (y', os) -> WF y -> WF y'.
Proof.
  induction ls as [|[l ch] t IH]; intros y y' os H Hwf; cbn in H.
  - injection H as <- <-. exact Hwf.
  - destruct (step y l ch) as [y1 o] eqn:Es. destruct (run y1 t) as [y2 os2] eqn:Er. injection H as <- <-.
    eapply IH; [exact Er|]. eapply step_WF; eauto.
Qed.

Lemma WFse_mk k sp u t : WFse (mk_session k sp u t).
Proof. split; [|split]; [intros id st H; discriminate H|intros H; discriminate H|intros H; discriminate H]. Qed.

Lemma init_WF k sp u ta tb : WF (init k sp u ta tb).
Proof.
  split; [apply WFse_mk|split; [apply WFse_mk|split]]; intros H; discriminate H.
Qed.

(* ---------- blocked calls ---------- *)
Lemma try_read_closed y s sid k y' rc d s' :
  try_read y s sid k = Some (y', rc, d) -> se_closed (sess y' s') = se_closed (sess y s').
Proof.
  unfold try_read. intros H.
  destruct (lookup sid (se_objs (sess y s))) as [st|]; [|injection H as <- <- <-; reflexivity].
  destruct k; [injection H as <- <- <-; reflexivity|].
  destruct (rb_read (st_rb st) (S k)) as [rb' [dd| |]]; try discriminate; injection H as <- <- <-; try reflexivity.
  rewrite sess_set. destruct (side_eqb s s') eqn:E; [|reflexivity].
  destruct s, s'; try discriminate; destruct (sess y _); reflexivity.
Qed.
Lemma try_accept_closed y s y' rc id s' :
  try_accept y s = Some (y', rc, id) -> se_closed (sess y' s') = se_closed (sess y s').
Proof.
  unfold try_accept. intros H. destruct (se_acceptq (sess y s)) as [|a q].
  - destruct (se_closed (sess y s)); [injection H as <- <- <-; reflexivity|discriminate].
  - injection H as <- <- <-. rewrite sess_set. destruct (side_eqb s s') eqn:E; [|reflexivity].
    destruct s, s'; try discriminate; destruct (sess y _); reflexivity.
Qed.

Definition pend_side (p : pending) : side := match p with PRead s _ _ => s | PAccept s => s end.

Lemma try_read_None_open y s sid k :
  WF y -> try_read y s sid k = None -> se_closed (sess y s) = false.
Proof.
  unfold try_read. intros Hwf H.
  destruct (lookup sid (se_objs (sess y s))) as [st|] eqn:El; [|discriminate].
  destruct k; [discriminate|].
  destruct (WF_sess y s Hwf) as (Ho & Hc & _). destruct (Ho _ _ El) as (H1 & _ & _).
  unfold rb_read in H. destruct (pipe (st_rb st)); [|discriminate].
  destruct (pclosed (st_rb st)) eqn:Ep; [discriminate|].
  destruct (se_closed (sess y s)) eqn:Ecl; [|reflexivity].
  specialize (Hc Ecl _ _ El). congruence.
Qed.
Lemma try_accept_None_open y s : try_accept y s = None -> se_closed (sess y s) = false.
Proof. unfold try_accept. destruct (se_acceptq _); [|discriminate]. destruct (se_closed _); [discriminate|reflexivity]. Qed.

Lemma resolve_kept_open ps : forall y y' ps' evs,
  resolve ps y = (y', ps', evs) -> WF y ->
  (forall s, se_closed (sess y' s) = se_closed (sess y s)) /\
  (forall p, In p ps' -> se_closed (sess y' (pend_side p)) = false).
Proof.
  induction ps as [|p t IH]; intros y y' ps' evs H Hwf; cbn in H.
  - injection H as <- <- <-. split; [reflexivity|intros p []].
  - destruct p as [s sid k|s].
    + destruct (try_read y s sid k) as [[[y1 rc] d]|] eqn:Et.
      * destruct (resolve t y1) as [[y2 ps2] e2] eqn:Er. injection H as <- <- <-.
        destruct (IH _ _ _ _ Er (try_read_WF _ _ _ _ _ _ _ Et Hwf)) as [I1 I2]. split; [|exact I2].
        intros s'. rewrite I1. eapply try_read_closed; eauto.
      * destruct (resolve t y) as [[y2 ps2] e2] eqn:Er. injection H as <- <- <-.
        destruct (IH _ _ _ _ Er Hwf) as [I1 I2]. split; [exact I1|].
        intros p [<-|Hin]; [|apply I2; exact Hin]. cbn. rewrite I1. eapply try_read_None_open; eauto.
    + destruct (try_accept y s) as [[[y1 rc] id]|] eqn:Et.
      * destruct (resolve t y1) as [[y2 ps2] e2] eqn:Er. injection H as <- <- <-.
        destruct (IH _ _ _ _ Er (try_accept_WF _ _ _ _ _ Et Hwf)) as [I1 I2]. split; [|exact I2].
        intros s'. rewrite I1. eapply try_accept_closed; eauto.
      * destruct (resolve t y) as [[y2 ps2] e2] eqn:Er. injection H as <- <- <-.
        destruct (IH _ _ _ _ Er Hwf) as [I1 I2]. split; [exact I1|].
        intros p [<-|Hin]; [|apply I2; exact Hin]. cbn. rewrite I1. apply try_accept_None_open. exact Et.
Qed.

(* after every label: a call that is still blocked belongs to a session that is not closed *)
Lemma step_nothing_left_blocked y l ch y' evs :
  step y l ch = (y', evs) -> WF y ->
  forall p, In p (sy_pend y') -> se_closed (sess y' (pend_side p)) = false.
Proof.
  unfold step. intros H Hwf. destruct (step_core y l ch) as [y1 e1] eqn:Ec.
  destruct (resolve (sy_pend y1) y1) as [[y2 ps] e2] eqn:Er. injection H as <- <-.
  destruct (resolve_kept_open _ _ _ _ _ Er (step_core_WF _ _ _ _ _ Ec Hwf)) as [_ I2].
  intros p Hin. cbn in Hin. rewrite sess_set_pend. apply I2. exact Hin.
Qed.

(* ---------- teardown facts read off WF ---------- *)
Lemma closed_session_streams y s :
  WF y -> se_closed (sess y s) = true ->
  forall sid st, lookup sid (se_objs (sess y s)) = Some st ->
    st_closed st = true /\ pclosed (st_rb st) = true.
Proof.
  intros Hwf Hcl sid st El. destruct (WF_sess y s Hwf) as (Ho & Hc & _).
  specialize (Hc Hcl _ _ El). destruct (Ho _ _ El) as (H1 & _ & _). split; [exact Hc|congruence].
Qed.

Lemma closed_session_read_never_blocks y s sid k :
  WF y -> se_closed (sess y s) = true -> try_read y s sid k <> None.
Proof.
  intros Hwf Hcl H. pose proof (try_read_None_open _ _ _ _ Hwf H). congruence.
Qed.

Lemma closed_session_refuses_open y s :
  se_closed (sess y s) = true -> open_stream y s = (y, [ERet R_BROKEN_SESSION 0 []]).
Proof. intros H. unfold open_stream. now rewrite H. Qed.

Lemma closed_session_write_refused y s sid data ch :
  WF y -> se_closed (sess y s) = true ->
  exists rc, stream_write y s sid data ch = (y, [ERet rc 0 []]) /\ rc <> R_OK.
Proof.
  intros Hwf Hcl. unfold stream_write. destruct (lookup sid (se_objs (sess y s))) as [st|] eqn:El.
  - destruct (closed_session_streams y s Hwf Hcl _ _ El) as [Hc _]. rewrite Hc.
    exists R_BROKEN_STREAM. split; [reflexivity|discriminate].
  - exists R_NOSTREAM. split; [reflexivity|discriminate].
Qed.

Lemma broken_all_conns_closed y s :
  WF y -> se_broken (sess y s) = true ->
  forall c cn, In c (se_pool (sess y s)) -> nthN (N.to_nat c) (sy_conns y) = Some cn ->
    conn_closed_end cn s = true.
Proof. intros Hwf. exact (WF_ends y s Hwf). Qed.

(* ---------- what one side's teardown does to the other side: nothing ---------- *)
Lemma close_all_other y s y' evs : close_all y s = (y', evs) -> sess y' (other s) = sess y (other s).
Proof.
  unfold close_all. intros H. destruct (se_broken (sess y s)); [injection H as <- <-; reflexivity|].
  destruct (close_ends _ _ _) as [cs e]. injection H as <- <-.
  now rewrite sess_set_conns, sess_set_other.
Qed.
Lemma passive_close_other y s y' evs : passive_close y s = (y', evs) -> sess y' (other s) = sess y (other s).
Proof.
  unfold passive_close. intros H. destruct (close_session_core (sess y s)) as [se ok].
  destruct ok; [|injection H as <- <-; reflexivity].
  apply close_all_other in H. now rewrite H, sess_set_other.
Qed.
Lemma sb_send_other y s fr p y' evs rc : sb_send y s fr p = (y', evs, rc) -> sess y' (other s) = sess y (other s).
Proof.
  unfold sb_send. intros H.
  destruct (se_broken (sess y s)); [injection H as <- <- <-; reflexivity|].
  destruct (se_pool (sess y s)); [injection H as <- <- <-; reflexivity|].
  destruct (nthN _ _) as [cn|]; [|injection H as <- <- <-; reflexivity].
  destruct (_ || _).
  - destruct (passive_close y s) as [y1 e1] eqn:Epc. injection H as <- <- <-. eapply passive_close_other; eauto.
  - injection H as <- <- <-. now rewrite sess_set_conns.
Qed.
Lemma session_close_other y s ch y' ch' evs rc :
  session_close y s ch = (y', ch', evs, rc) -> sess y' (other s) = sess y (other s).
Proof.
  unfold session_close. intros H. destruct (close_session_core (sess y s)) as [se ok].
  destruct ok; cbn [negb] in H; [|injection H as <- <- <- <-; reflexivity].
  destruct (hd_pick ch) as [c ch0].
  destruct (sb_send (set_sess y s se) s _ c) as [[y2 e2] rc2] eqn:Es.
  apply sb_send_other in Es. rewrite sess_set_other in Es.
  destruct (close_all y2 s) as [y3 e3] eqn:Eca. apply close_all_other in Eca.
  destruct (rc2 =? 0); [|destruct (rc2 =? 1)]; injection H as <- <- <- <-; congruence.
Qed.
Lemma fire_timers_other fuel : forall y s ch y' ch' evs,
  fire_timers fuel y s ch = (y', ch', evs) -> sess y' (other s) = sess y (other s).
Proof.
  induction fuel as [|fuel IH]; intros y s ch y' ch' evs H; cbn in H.
  - injection H as <- <- <-. reflexivity.
  - destruct (se_timers (sess y s)) as [|t rest]; [injection H as <- <- <-; reflexivity|].
    destruct (t <=? sy_now y)%Z; [|injection H as <- <- <-; reflexivity].
    destruct (_ && _).
    + destruct (session_close _ s ch) as [[[y2 ch2] evs2] rc2] eqn:Esc.
      destruct (fire_timers fuel y2 s ch2) as [[y3 ch3] evs3] eqn:Ef. injection H as <- <- <-.
      apply IH in Ef. apply session_close_other in Esc. rewrite sess_set_other in Esc. congruence.
    + apply IH in H. now rewrite sess_set_other in H.
Qed.

(* the inactivity check closes a session only when its stream count is zero *)
Lemma fire_timers_idle fuel : forall y s ch y' ch' evs,
  fire_timers fuel y s ch = (y', ch', evs) ->
  se_closed (sess y s) = false -> se_closed (sess y' s) = true -> se_count (sess y s) = 0.
Proof.
  induction fuel as [|fuel IH]; intros y s ch y' ch' evs H Hop Hcl; cbn in H.
  - injection H as <- <- <-. congruence.
  - destruct (se_timers (sess y s)) as [|t rest] eqn:Et; [injection H as <- <- <-; congruence|].
    destruct (t <=? sy_now y)%Z; [|injection H as <- <- <-; congruence].
    set (y1 := set_sess y s _) in H.
    assert (Hc1 : se_count (sess y1 s) = se_count (sess y s)) by (unfold y1; rewrite sess_set_same; reflexivity).
    assert (Ho1 : se_closed (sess y1 s) = se_closed (sess y s)) by (unfold y1; rewrite sess_set_same; reflexivity).
    destruct ((se_count (sess y1 s) =? 0) && negb (se_closed (sess y1 s))) eqn:Eb.
    + apply andb_prop in Eb as [E0 _]. lia.
    + rewrite <- Hc1. eapply IH; [exact H|congruence|exact Hcl].
Qed.

Lemma deplex_error_closed y s c y' evs : deplex_error y s c = (y', evs) -> se_closed (sess y' s) = true.
Proof.
  unfold deplex_error. intros H. destruct (passive_close y s) as [y1 e1] eqn:Epc.
  pose proof (passive_close_closed _ _ _ _ Epc) as Hc.
  destruct (nthN _ _) as [cn|]; [|injection H as <- <-; exact Hc].
  destruct (conn_closed_end cn s); injection H as <- <-; [exact Hc|]. now rewrite sess_set_conns.
Qed.
Lemma deplex_error_other y s c y' evs : deplex_error y s c = (y', evs) -> sess y' (other s) = sess y (other s).
Proof.
  unfold deplex_error. intros H. destruct (passive_close y s) as [y1 e1] eqn:Epc.
  apply passive_close_other in Epc.
  destruct (nthN _ _) as [cn|]; [|injection H as <- <-; exact Epc].
  destruct (conn_closed_end cn s); injection H as <- <-; [exact Epc|]. now rewrite sess_set_conns.
Qed.

(* a reset seen by both ends closes both sessions (each side whose end was still open) *)
Lemma fail_closes_both y c ch y' evs cn :
  step y (LFail c) ch = (y', evs) -> WF y ->
  nthN (N.to_nat c) (sy_conns y) = Some cn -> c_failed cn = false ->
  forall s, conn_closed_end cn s = false -> se_closed (sess y' s) = true.
Proof.
  unfold step. intros H Hwf En Hnf s Hopen.
  destruct (step_core y (LFail c) ch) as [y1 e1] eqn:Ec.
  destruct (resolve (sy_pend y1) y1) as [[y2 ps] e2] eqn:Er. injection H as <- <-.
  rewrite sess_set_pend.
  destruct (resolve_kept_open _ _ _ _ _ Er (step_core_WF _ _ _ _ _ Ec Hwf)) as [I1 _]. rewrite I1.
  rewrite step_core_fail in Ec. rewrite En, Hnf in Ec. rewrite !orb_false_r in Ec. cbv zeta in Ec.
  destruct (if conn_closed_end cn SA then _ else _) as [ya ea] eqn:Ea.
  destruct (if conn_closed_end cn SB then _ else _) as [yb eb] eqn:Eb.
  injection Ec as <- <-.
  destruct s.
  - rewrite Hopen in Ea. pose proof (deplex_error_closed _ _ _ _ _ Ea) as Hca.
    destruct (conn_closed_end cn SB); [injection Eb as <- <-; exact Hca|].
    apply deplex_error_other in Eb. cbn [other] in Eb. rewrite Eb. exact Hca.
  - rewrite Hopen in Eb. eapply deplex_error_closed; eauto.
Qed.

Lemma run_pending_open ls : forall y y' os,
  run y ls = (y', os) -> WF y ->
  (forall p, In p (sy_pend y) -> se_closed (sess y (pend_side p)) = false) ->
  forall p, In p (sy_pend y') -> se_closed (sess y' (pend_side p)) = false.
Proof.
  induction ls as [|[l ch] t IH]; intros y y' os H Hwf Hp; cbn in H.
  - injection H as <- <-. exact Hp.
  - destruct (step y l ch) as [y1 o] eqn:Es. destruct (run y1 t) as [y2 os2] eqn:Er. injection H as <- <-.
    eapply IH; [exact Er|eapply step_WF; eauto|]. eapply step_nothing_left_blocked; eauto.
Qed.

(* ---------- the statements over every label sequence ---------- *)
Definition reach (k : nat) (sp : bool) (u : N) (ta tb : Z) (ls : list (label * list N)) : sys :=
  fst (run (init k sp u ta tb) ls).

Lemma reach_WF k sp u ta tb ls : WF (reach k sp u ta tb ls).
Proof. unfold reach. destruct (run _ ls) as [y os] eqn:Er. eapply run_WF; [exact Er|apply init_WF]. Qed.

Theorem teardown_complete k sp u ta tb ls s :
  let y := reach k sp u ta tb ls in
  se_closed (sess y s) = true ->
  (forall sid st, lookup sid (se_objs (sess y s)) = Some st -> st_closed st = true /\ pclosed (st_rb st) = true) /\
  (forall sid n, try_read y s sid n <> None) /\
  open_stream y s = (y, [ERet R_BROKEN_SESSION 0 []]) /\
  (forall sid data ch, exists rc, stream_write y s sid data ch = (y, [ERet rc 0 []]) /\ rc <> R_OK).
Proof.
  intros y Hcl. pose proof (reach_WF k sp u ta tb ls) as Hwf. fold y in Hwf.
  split; [apply closed_session_streams; assumption|].
  split; [intros; apply closed_session_read_never_blocks; assumption|].
  split; [apply closed_session_refuses_open; assumption|].
  intros. apply closed_session_write_refused; assumption.
Qed.

Theorem nothing_left_blocked k sp u ta tb ls :
  let y := reach k sp u ta tb ls in
  forall p, In p (sy_pend y) -> se_closed (sess y (pend_side p)) = false.
Proof.
  intros y. unfold y, reach. destruct (run _ ls) as [y' os] eqn:Er. cbn.
  eapply run_pending_open; [exact Er|apply init_WF|intros p []].
Qed.

Theorem broken_closes_all_connections k sp u ta tb ls s :
  let y := reach k sp u ta tb ls in
  se_broken (sess y s) = true ->
  se_closed (sess y s) = true /\
  forall c cn, In c (se_pool (sess y s)) -> nthN (N.to_nat c) (sy_conns y) = Some cn -> conn_closed_end cn s = true.
Proof.
  intros y Hb. pose proof (reach_WF k sp u ta tb ls) as Hwf. fold y in Hwf.
  split; [destruct (WF_sess y s Hwf) as (_ & _ & H); apply H; exact Hb|apply broken_all_conns_closed; assumption].
Qed.

Theorem fault_closes_sessions k sp u ta tb ls c ch cn :
  let y := reach k sp u ta tb ls in
  nthN (N.to_nat c) (sy_conns y) = Some cn -> c_failed cn = false ->
  forall s, conn_closed_end cn s = false -> se_closed (sess (fst (step y (LFail c) ch)) s) = true.
Proof.
  intros y En Hnf s Ho. destruct (step y (LFail c) ch) as [y' evs] eqn:Es. cbn.
  eapply fail_closes_both; eauto. apply reach_WF.
Qed.

Theorem timer_only_when_idle k sp u ta tb ls d ch s :
  let y := reach k sp u ta tb ls in
  let y' := fst (step y (LTick d) ch) in
  se_closed (sess y s) = false -> se_closed (sess y' s) = true -> se_count (sess y s) = 0.
Proof.
  intros y y' Hop Hcl. unfold y', step in Hcl.
  destruct (step_core y (LTick d) ch) as [y1 e1] eqn:Ec.
  destruct (resolve (sy_pend y1) y1) as [[y2 ps] e2] eqn:Er. cbn in Hcl. rewrite sess_set_pend in Hcl.
  pose proof (reach_WF k sp u ta tb ls) as Hwf. fold y in Hwf.
  destruct (resolve_kept_open _ _ _ _ _ Er (step_core_WF _ _ _ _ _ Ec Hwf)) as [I1 _]. rewrite I1 in Hcl.
  rewrite step_core_tick in Ec.
  destruct (fire_timers 64 (set_now y (sy_now y + d)%Z) SA ch) as [[ya cha] ea] eqn:Ea.
  destruct (fire_timers 64 ya SB cha) as [[yb chb] eb] eqn:Eb. injection Ec as <- <-.
  destruct s.
  - pose proof (fire_timers_other _ _ _ _ _ _ _ Eb) as Hoth. cbn [other] in Hoth. rewrite Hoth in Hcl.
    pose proof (fire_timers_idle _ _ _ _ _ _ _ Ea) as Hidle. rewrite !sess_set_now in Hidle. apply Hidle; assumption.
  - pose proof (fire_timers_other _ _ _ _ _ _ _ Ea) as Hoth. cbn [other] in Hoth. rewrite sess_set_now in Hoth.
    pose proof (fire_timers_idle _ _ _ _ _ _ _ Eb) as Hidle. rewrite Hoth in Hidle. apply Hidle; assumption.
Qed.

(* non-vacuity: a concrete run in which a connection fails while a read is blocked *)
Example teardown_example :
  let y := reach 2 false 331 30000000000 45000000000
             [(LOpen SA, []); (LWrite SA 1 [7; 8; 9], [1]); (LDeliver SB 1, []); (LRead SB 1 2, []);
              (LRead SB 1 5, []); (LRead SB 1 5, []); (LFail 0, [])] in
  se_closed (sess y SA) = true /\ se_closed (sess y SB) = true /\ sy_pend y = [] /\
  map c_clA (sy_conns y) = [true; true] /\ map c_clB (sy_conns y) = [true; true].
Proof. vm_compute. repeat split. Qed.
