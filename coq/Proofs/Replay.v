(* Proofs about the replay memory model (Model/Replay.v) - property C08. *)
From Coq Require Import ZArith NArith List Bool Lia.
From Coq Require Import ZifyN ZifyNat ZifyBool.
From Cloak Require Import Gen.Consts Model.Replay.
Import ListNotations.
Local Open Scope Z_scope.

(* ------------------------------------------------------------ generated obligations *)
(* facts about the constants the Go compiler printed into Gen/Consts.v *)
Lemma tolerance_value : tolerance = 180 * ns_per_s.
Proof. reflexivity. Qed.
Lemma tolerance_whole_seconds : tolerance mod ns_per_s = 0 /\ 0 < tolerance.
Proof. split; reflexivity. Qed.
Lemma clean_period_pos : 0 < clean_period.
Proof. reflexivity. Qed.
(* the cleaner's period is irrelevant to soundness but must exceed the retention span for
   the cache to stay bounded by the traffic of one period plus 6 minutes *)
Lemma clean_period_exceeds_retention : 2 * tolerance < clean_period.
Proof. reflexivity. Qed.

Ltac unf := unfold tolerance, ns_per_s, server_timestampTolerance_ns in *.

(* ------------------------------------------------------------ keys and the map *)
Lemma bytes_eqb_eq : forall a b, bytes_eqb a b = true <-> a = b.
Proof.
  induction a as [|x a IH]; destruct b as [|y b]; cbn [bytes_eqb]; split; intro H;
    try reflexivity; try discriminate.
  - apply andb_true_iff in H as [H1 H2]. apply N.eqb_eq in H1. apply IH in H2. now subst.
  - injection H as -> ->. apply andb_true_iff. split; [apply N.eqb_refl | now apply IH].
Qed.

Lemma bytes_eqb_refl : forall a, bytes_eqb a a = true.
Proof. intro a. now apply bytes_eqb_eq. Qed.

Lemma bytes_eqb_neq : forall a b, a <> b -> bytes_eqb a b = false.
Proof. intros a b H. destruct (bytes_eqb a b) eqn:E; [apply bytes_eqb_eq in E; contradiction | reflexivity]. Qed.

Lemma lookup_store_same : forall k v c, lookup k (store k v c) = Some v.
Proof.
  induction c as [|[k' v'] c IH]; cbn [store lookup].
  - now rewrite bytes_eqb_refl.
  - destruct (bytes_eqb k k') eqn:E; cbn [lookup]; [now rewrite bytes_eqb_refl | now rewrite E].
Qed.

Lemma lookup_store_other : forall k k' v c, k <> k' -> lookup k (store k' v c) = lookup k c.
Proof.
  intros k k' v c Hne. induction c as [|[k2 v2] c IH]; cbn [store lookup].
  - now rewrite (bytes_eqb_neq _ _ Hne).
  - destruct (bytes_eqb k' k2) eqn:E; cbn [lookup].
    + apply bytes_eqb_eq in E. subst k2. now rewrite (bytes_eqb_neq _ _ Hne).
    + now rewrite IH.
Qed.

Lemma lookup_clean_keep : forall rule k s c now,
  lookup k c = Some s -> rule s now = false -> lookup k (clean rule c now) = Some s.
Proof.
  intros rule k s c now. induction c as [|[k' v'] c IH]; cbn [lookup clean filter snd]; intros Hl Hr.
  - discriminate.
  - destruct (bytes_eqb k k') eqn:E.
    + injection Hl as ->. rewrite Hr. cbn [negb lookup]. now rewrite E.
    + destruct (negb (rule v' now)); cbn [lookup]; [rewrite E|]; now apply IH.
Qed.

(* ------------------------------------------------------------ run: structure *)
Lemma run_app : forall rule keyfn a b c,
  run rule keyfn c (a ++ b) =
  let (c1, o1) := run rule keyfn c a in
  let (c2, o2) := run rule keyfn c1 b in (c2, o1 ++ o2).
Proof.
  induction a as [|e a IH]; intros b c; cbn [run app].
  - now destruct (run rule keyfn c b).
  - destruct (step rule keyfn c e) as [c' o]. rewrite IH.
    destruct (run rule keyfn c' a) as [c1 o1]. now destruct (run rule keyfn c1 b).
Qed.

Lemma run_length : forall rule keyfn h c, length (snd (run rule keyfn c h)) = length h.
Proof.
  induction h as [|e h IH]; intro c; cbn [run]; [reflexivity|].
  destruct (step rule keyfn c e) as [c' o]. specialize (IH c').
  destruct (run rule keyfn c' h). cbn [snd length] in *. now rewrite IH.
Qed.

Lemma ordered_app : forall a b lb, ordered lb (a ++ b) = true ->
  ordered lb a = true /\ ordered (fold_left (fun _ e => ev_time e) a lb) b = true.
Proof.
  induction a as [|e a IH]; intros b lb H; cbn [app ordered fold_left] in *.
  - now split.
  - apply andb_true_iff in H as [H1 H2]. apply IH in H2 as [H2 H3].
    split; [|exact H3]. now rewrite H1, H2.
Qed.

Definition last_time (lb : Z) (h : list event) : Z := fold_left (fun _ e => ev_time e) h lb.

Lemma last_time_ge : forall h lb, ordered lb h = true -> lb <= last_time lb h.
Proof.
  unfold last_time. induction h as [|e h IH]; intros lb H; cbn [ordered fold_left] in *; [lia|].
  apply andb_true_iff in H as [H1 H2]. apply andb_true_iff in H1 as [H1 _].
  apply IH in H2. lia.
Qed.

(* ------------------------------------------------------------ the invariant *)
(* [covered c lb k ts]: every time from lb on at which a packet with cache key k and timestamp
   ts could still be inside the window finds the key in the cache.  Either an entry is there
   whose stored second s is recent enough (the window of ts closes no later than second
   s + 360, and the fixed rule keeps s until then), or the window is closed for good. *)
Definition covered (c : cache) (lb : Z) (k : list N) (ts : Z) : Prop :=
  (exists s, lookup k c = Some s /\ ts <= s + 180 /\ s * ns_per_s <= lb)
  \/ ts * ns_per_s + tolerance <= lb.

Lemma covered_clean : forall c lb k ts t,
  covered c lb k ts -> lb <= t -> covered (clean rule_fixed c t) t k ts.
Proof.
  intros c lb k ts t [(s & Hl & Hts & Hs) | Hc] Hle.
  - destruct (rule_fixed s t) eqn:R.
    + right. unfold rule_fixed in R. unf. lia.
    + left. exists s. split; [now apply lookup_clean_keep | split; [exact Hts | lia]].
  - right. lia.
Qed.

Lemma covered_register : forall keyfn c lb k ts r t,
  covered c lb k ts -> lb <= t -> covered (fst (register keyfn c r t)) t k ts.
Proof.
  intros keyfn c lb k ts r t Hc Hle. unfold register. cbn [fst].
  destruct Hc as [(s & Hl & Hts & Hs) | Hc]; [|right; lia].
  left. destruct (list_eq_dec N.eq_dec k (keyfn r)) as [->|Hne].
  - exists (t / ns_per_s). rewrite lookup_store_same. split; [reflexivity|]. unf. lia.
  - exists s. rewrite (lookup_store_other _ _ _ _ Hne). split; [exact Hl | split; [exact Hts | lia]].
Qed.

Lemma present_cache : forall keyfn c p t1 t2,
  fst (present keyfn c p t1 t2) = if p_parses p then fst (register keyfn c (p_random p) t1) else c.
Proof.
  intros. unfold present. destruct (p_parses p); cbn [negb]; [|reflexivity].
  destruct (register keyfn c (p_random p) t1) as [c' used]. cbn [fst].
  destruct used; [reflexivity|]. destruct (p_auth p) as [ts|]; [destruct (in_window ts t2)|]; reflexivity.
Qed.

Lemma covered_step : forall keyfn c lb k ts e,
  covered c lb k ts -> lb <= ev_time e ->
  covered (fst (step rule_fixed keyfn c e)) (ev_time e) k ts.
Proof.
  intros keyfn c lb k ts [p t1 t2 | t] Hc Hle; cbn [step ev_time] in *.
  - pose proof (present_cache keyfn c p t1 t2) as E.
    destruct (present keyfn c p t1 t2) as [c' o]. cbn [fst] in *. rewrite E.
    destruct (p_parses p); [now apply covered_register with (lb := lb)|].
    destruct Hc as [(s & Hl & Hts & Hs) | Hc]; [left; exists s; repeat split; try assumption; lia | right; lia].
  - now apply covered_clean with (lb := lb).
Qed.

Lemma covered_run : forall keyfn h c lb k ts,
  covered c lb k ts -> ordered lb h = true ->
  covered (fst (run rule_fixed keyfn c h)) (last_time lb h) k ts.
Proof.
  unfold last_time. induction h as [|e h IH]; intros c lb k ts Hc Ho; cbn [run fold_left ordered] in *.
  - exact Hc.
  - apply andb_true_iff in Ho as [Ho1 Ho2]. apply andb_true_iff in Ho1 as [Ho1 _].
    pose proof (covered_step keyfn c lb k ts e Hc ltac:(lia)) as Hs.
    destruct (step rule_fixed keyfn c e) as [c' o]. cbn [fst] in Hs.
    specialize (IH c' (ev_time e) k ts Hs Ho2).
    destruct (run rule_fixed keyfn c' h) as [c'' os]. exact IH.
Qed.

(* acceptance establishes the invariant.  The stored second is t1/10^9; the window was judged at
   t2 in the same second, so ts <= s + 180 (ts is a whole second and ts*10^9 < t2 + 180 s). *)
Lemma accept_covered : forall keyfn c p t1 t2 c',
  present keyfn c p t1 t2 = (c', OAccept) ->
  t1 / ns_per_s = t2 / ns_per_s ->
  exists ts, p_auth p = Some ts /\ in_window ts t2 = true /\ covered c' t1 (keyfn (p_random p)) ts.
Proof.
  intros keyfn c p t1 t2 c' H Hsec. unfold present in H.
  destruct (p_parses p); cbn [negb] in H; [|discriminate].
  unfold register in H.
  destruct (lookup (keyfn (p_random p)) c); [discriminate|].
  destruct (p_auth p) as [ts|]; [|discriminate].
  destruct (in_window ts t2) eqn:W; [|discriminate].
  injection H as <-. exists ts. split; [reflexivity|]. split; [exact W|].
  left. exists (t1 / ns_per_s). rewrite lookup_store_same. split; [reflexivity|].
  unfold in_window in W. unf. lia.
Qed.

(* a covered packet presented while its timestamp is inside the window hits the cache *)
Lemma covered_hit : forall keyfn c lb ts q t1 t2,
  covered c lb (keyfn (p_random q)) ts -> p_parses q = true ->
  lb <= t1 -> t1 <= t2 -> in_window ts t2 = true ->
  snd (present keyfn c q t1 t2) = OReplay.
Proof.
  intros keyfn c lb ts q t1 t2 Hc Hp H1 H2 W. unfold present, register. rewrite Hp. cbn [negb].
  destruct Hc as [(s & Hl & _ & _) | Hc].
  - rewrite Hl. reflexivity.
  - unfold in_window in W. unf. lia.
Qed.

(* ------------------------------------------------------------ C08_cache_sound *)
Lemma nth_error_app_len : forall {A} (a b : list A) x, nth_error (a ++ x :: b) (length a) = Some x.
Proof. intros A a b x. rewrite nth_error_app2 by lia. now rewrite Nat.sub_diag. Qed.

Theorem cache_sound :
  forall keyfn lb0 h1 h2 h3 p t1 t1' q t2 t2' ts,
  let h := h1 ++ Present p t1 t1' :: h2 ++ Present q t2 t2' :: h3 in
  ordered lb0 h = true ->
  t1 / ns_per_s = t1' / ns_per_s ->
  nth_error (outcomes rule_fixed keyfn h) (length h1) = Some (Some OAccept) ->
  p_auth p = Some ts ->
  keyfn (p_random q) = keyfn (p_random p) -> p_parses q = true ->
  in_window ts t2' = true ->
  nth_error (outcomes rule_fixed keyfn h) (length h1 + 1 + length h2) = Some (Some OReplay).
Proof.
  intros keyfn lb0 h1 h2 h3 p t1 t1' q t2 t2' ts h Hord Hsec Hacc Hauth Hkey Hparse Hwin.
  subst h. unfold outcomes in *.
  (* split the run at the first presentation *)
  rewrite run_app in Hacc |- *.
  pose proof (run_length rule_fixed keyfn h1 []) as L1.
  destruct (run rule_fixed keyfn [] h1) as [c1 o1]. cbn [snd] in L1.
  apply ordered_app in Hord as [_ Hord]. fold (last_time lb0 h1) in Hord.
  cbn [run step] in Hacc |- *. cbn [ordered ev_time] in Hord.
  apply andb_true_iff in Hord as [Hord Hord2]. apply andb_true_iff in Hord as [Hlb1 Ht1].
  destruct (present keyfn c1 p t1 t1') as [c2 op] eqn:Ep.
  (* and at the second one *)
  rewrite run_app in Hacc |- *.
  pose proof (run_length rule_fixed keyfn h2 c2) as L2.
  pose proof (fun k ts Hc => covered_run keyfn h2 c2 t1 k ts Hc) as Hrun.
  apply ordered_app in Hord2 as [Hord2 Hord3]. fold (last_time t1 h2) in Hord3.
  pose proof (last_time_ge h2 t1 Hord2) as Hge.
  destruct (run rule_fixed keyfn c2 h2) as [c3 o2]. cbn [snd fst] in L2, Hrun.
  cbn [run step] in Hacc |- *. cbn [ordered ev_time] in Hord3.
  apply andb_true_iff in Hord3 as [Hord3 _]. apply andb_true_iff in Hord3 as [Hlb2 Ht2].
  pose proof (covered_hit keyfn c3 (last_time t1 h2) ts q t2 t2') as Hhit.
  destruct (present keyfn c3 q t2 t2') as [c4 oq]. cbn [snd] in Hhit.
  destruct (run rule_fixed keyfn c4 h3) as [c5 o3].
  cbn [snd] in Hacc |- *.
  (* the first outcome is the acceptance *)
  rewrite <- L1 in Hacc. rewrite nth_error_app_len in Hacc. injection Hacc as ->.
  apply accept_covered in Ep as (ts' & Hauth' & _ & Hcov); [|exact Hsec].
  rewrite Hauth in Hauth'. injection Hauth' as <-.
  specialize (Hrun _ _ Hcov Hord2).
  rewrite <- Hkey in Hrun.
  rewrite Hhit; [| exact Hrun | exact Hparse | lia | lia | exact Hwin].
  (* index arithmetic *)
  replace (length h1 + 1 + length h2)%nat with (length o1 + S (length o2))%nat by lia.
  rewrite nth_error_app2 by lia.
  replace (length o1 + S (length o2) - length o1)%nat with (S (length o2)) by lia.
  cbn [nth_error]. apply nth_error_app_len.
Qed.

(* the same packet (same cache key, same timestamp) is accepted at most once *)
Corollary cache_at_most_one :
  forall keyfn lb0 h1 h2 h3 p t1 t1' q t2 t2',
  let h := h1 ++ Present p t1 t1' :: h2 ++ Present q t2 t2' :: h3 in
  ordered lb0 h = true ->
  t1 / ns_per_s = t1' / ns_per_s ->
  keyfn (p_random q) = keyfn (p_random p) -> p_auth q = p_auth p ->
  nth_error (outcomes rule_fixed keyfn h) (length h1) = Some (Some OAccept) ->
  nth_error (outcomes rule_fixed keyfn h) (length h1 + 1 + length h2) <> Some (Some OAccept).
Proof.
  intros keyfn lb0 h1 h2 h3 p t1 t1' q t2 t2' h Hord Hsec Hkey Hauth Hacc1 Hacc2.
  (* read off what the second acceptance means *)
  assert (Hq : exists ts, p_auth q = Some ts /\ in_window ts t2' = true /\ p_parses q = true).
  { subst h. unfold outcomes in Hacc2. rewrite run_app in Hacc2.
    pose proof (run_length rule_fixed keyfn h1 []) as L1.
    destruct (run rule_fixed keyfn [] h1) as [c1 o1]. cbn [snd] in L1.
    cbn [run step] in Hacc2. destruct (present keyfn c1 p t1 t1') as [c2 op].
    rewrite run_app in Hacc2.
    pose proof (run_length rule_fixed keyfn h2 c2) as L2.
    destruct (run rule_fixed keyfn c2 h2) as [c3 o2]. cbn [snd] in L2.
    cbn [run step] in Hacc2.
    destruct (present keyfn c3 q t2 t2') as [c4 oq] eqn:Eq.
    destruct (run rule_fixed keyfn c4 h3) as [c5 o3]. cbn [snd] in Hacc2.
    replace (length h1 + 1 + length h2)%nat with (length o1 + S (length o2))%nat in Hacc2 by lia.
    rewrite nth_error_app2 in Hacc2 by lia.
    replace (length o1 + S (length o2) - length o1)%nat with (S (length o2)) in Hacc2 by lia.
    cbn [nth_error] in Hacc2. rewrite nth_error_app_len in Hacc2. injection Hacc2 as ->.
    unfold present in Eq. destruct (p_parses q); cbn [negb] in Eq; [|discriminate].
    destruct (register keyfn c3 (p_random q) t2) as [c' used]. destruct used; [discriminate|].
    destruct (p_auth q) as [ts|]; [|discriminate].
    destruct (in_window ts t2') eqn:W; [|discriminate]. now exists ts. }
  destruct Hq as (ts & Hq & W & Hp). rewrite Hauth in Hq.
  pose proof (cache_sound keyfn lb0 h1 h2 h3 p t1 t1' q t2 t2' ts Hord Hsec Hacc1 Hq Hkey Hp W) as R.
  fold h in R. rewrite R in Hacc2. discriminate.
Qed.

(* ------------------------------------------------------------ the rule is the weakest sound one *)
Definition pk (ts : Z) : packet := mkP true (repeat 7%N 32) (Some ts).

(* tolerance-only retention: accepted at second 1000 with ts = 1179 (client clock 179 s ahead);
   a clean-up 181 s later drops the entry; the replay 1 s after that is inside the window *)
Definition history_one : list event :=
  [Present (pk 1179) (1000 * ns_per_s) (1000 * ns_per_s);
   Clean (1181 * ns_per_s);
   Present (pk 1179) (1182 * ns_per_s) (1182 * ns_per_s)].

Lemma rule_one_unsound :
  ordered 0 history_one = true /\
  outcomes rule_one mask255 history_one = [Some OAccept; None; Some OAccept].
Proof. split; vm_compute; reflexivity. Qed.

Lemma rule_fixed_on_history_one :
  outcomes rule_fixed mask255 history_one = [Some OAccept; None; Some OReplay].
Proof. vm_compute. reflexivity. Qed.

(* F1, the pre-fix cleaner: Present p t; Clean (t + 1 s); Present p (t + 2 s) *)
Definition history_F1 (t : Z) : list event :=
  [Present (pk (t / ns_per_s)) t t; Clean (t + ns_per_s); Present (pk (t / ns_per_s)) (t + 2 * ns_per_s) (t + 2 * ns_per_s)].

Lemma prefix_cleaner_unsound : forall t, 0 <= t ->
  ordered 0 (history_F1 t) = true /\
  outcomes rule_prefix mask255 (history_F1 t) = [Some OAccept; None; Some OAccept].
Proof.
  intros t Ht. split.
  - unfold history_F1. cbn [ordered ev_time]. unf. lia.
  - unfold history_F1, outcomes. cbn [run step present register p_parses pk p_random p_auth negb lookup store].
    assert (W1 : in_window (t / ns_per_s) t = true) by (unfold in_window; unf; lia).
    assert (W2 : in_window (t / ns_per_s) (t + 2 * ns_per_s) = true) by (unfold in_window; unf; lia).
    rewrite W1. cbn [clean filter snd].
    assert (R : rule_prefix (t / ns_per_s) (t + ns_per_s) = true) by (unfold rule_prefix; unf; lia).
    rewrite R. cbn [negb lookup]. rewrite W2. reflexivity.
Qed.

Lemma fixed_cleaner_on_F1 : forall t, 0 <= t ->
  outcomes rule_fixed mask255 (history_F1 t) = [Some OAccept; None; Some OReplay].
Proof.
  intros t Ht.
  unfold history_F1, outcomes. cbn [run step present register p_parses pk p_random p_auth negb lookup store].
  assert (W1 : in_window (t / ns_per_s) t = true) by (unfold in_window; unf; lia).
  rewrite W1. cbn [clean filter snd].
  assert (R : rule_fixed (t / ns_per_s) (t + ns_per_s) = false) by (unfold rule_fixed; unf; lia).
  rewrite R. cbn [negb lookup]. rewrite bytes_eqb_refl. reflexivity.
Qed.

(* the two clock reads of AuthFirstPacket: if they straddle a second boundary the stored second
   is one less than the one the window was judged in, and the theorem's same-second premise is
   needed: accepted at 999.9999999 / 1000.000000001 with ts = 1180; clean-up just after
   second 1359 + 1 ns ... the entry (second 999) is older than 360 s, the window (until 1360) is open *)
Definition history_two_reads : list event :=
  [Present (pk 1180) (1000 * ns_per_s - 1) (1000 * ns_per_s + 1);
   Clean (1359 * ns_per_s + 1);
   Present (pk 1180) (1359 * ns_per_s + 2) (1359 * ns_per_s + 2)].

Lemma two_reads_gap :
  ordered 0 history_two_reads = true /\
  outcomes rule_fixed mask255 history_two_reads = [Some OAccept; None; Some OAccept].
Proof. split; vm_compute; reflexivity. Qed.

(* ------------------------------------------------------------ the cache key (F2) *)
Lemma land_flip : forall b, N.land (N.lxor b 128) 127 = N.land b 127.
Proof.
  intro b. apply N.bits_inj. intro n. rewrite !N.land_spec, N.lxor_spec.
  change 128%N with (2 ^ 7)%N. change 127%N with (N.ones 7). rewrite N.pow2_bits_eqb.
  destruct (N.lt_ge_cases n 7) as [H|H].
  - rewrite N.ones_spec_low by exact H. replace (7 =? n)%N with false by (symmetry; apply N.eqb_neq; lia).
    now rewrite xorb_false_r.
  - rewrite N.ones_spec_high by exact H. now rewrite !andb_false_r.
Qed.

Lemma mask_flip : forall r, mask255 (flip255 r) = mask255 r.
Proof.
  intro r. unfold mask255, flip255, upd31.
  destruct (skipn 31 r) as [|b t] eqn:E.
  - assert (L : (length r <= 31)%nat).
    { destruct (Nat.le_gt_cases (length r) 31) as [H|H]; [exact H|].
      apply (f_equal (@length N)) in E. rewrite skipn_length in E. cbn in E. lia. }
    rewrite !app_nil_r, !(firstn_all2 r L), E. cbv iota. now rewrite app_nil_r.
  - assert (L : length (firstn 31 r) = 31%nat).
    { rewrite firstn_length. apply (f_equal (@length N)) in E. rewrite skipn_length in E. cbn in E. lia. }
    rewrite firstn_app, L, Nat.sub_diag, firstn_O, app_nil_r.
    rewrite (firstn_all2 (firstn 31 r)) by lia.
    rewrite skipn_app, L, Nat.sub_diag, skipn_O.
    rewrite (skipn_all2 (firstn 31 r)) by lia. cbn [app]. now rewrite land_flip.
Qed.

(* flip255 really changes a well-formed 32-byte value, so the raw key misses *)
Lemma flip_changes : forall r, length r = 32%nat -> flip255 r <> r.
Proof.
  intros r L E. unfold flip255, upd31 in E.
  rewrite <- (firstn_skipn 31 r) in E at 3.
  apply app_inv_head in E.
  destruct (skipn 31 r) as [|b t] eqn:S.
  - apply (f_equal (@length N)) in S. rewrite skipn_length in S. cbn in S. lia.
  - injection E as E. apply (f_equal (fun x => N.testbit x 7)) in E.
    rewrite N.lxor_spec in E. change (N.testbit 128 7) with true in E. destruct (N.testbit b 7); discriminate.
Qed.

Definition rnd0 : list N := repeat 9%N 32.
Definition history_F2 : list event :=
  [Present (mkP true rnd0 (Some 1000)) (1000 * ns_per_s) (1000 * ns_per_s);
   Present (mkP true (flip255 rnd0) (Some 1000)) (1001 * ns_per_s) (1001 * ns_per_s)].

Lemma rawkey_unsound :
  outcomes rule_fixed rawkey history_F2 = [Some OAccept; Some OAccept]
  /\ outcomes rule_fixed mask255 history_F2 = [Some OAccept; Some OReplay].
Proof. split; vm_compute; reflexivity. Qed.

(* ------------------------------------------------------------ N simultaneous presentations *)
Lemma set_nth_length : forall {A} i (x : A) l, length (set_nth i x l) = length l.
Proof. induction i; destruct l; cbn; auto. Qed.

Lemma misses_set_nth : forall i st st' ts,
  nth_error ts i = Some st ->
  (misses (set_nth i st' ts) + (if missed st then 1 else 0) = misses ts + (if missed st' then 1 else 0))%nat.
Proof.
  unfold misses. induction i as [|i IH]; intros st st' [|x ts] H; cbn [nth_error] in H; try discriminate.
  - injection H as ->. cbn [set_nth filter]. destruct (missed st), (missed st'); cbn [length]; lia.
  - cbn [set_nth filter]. specialize (IH st st' ts H). destruct (missed x); cbn [length]; lia.
Qed.

Definition all_start (ts : list tstate) : Prop := Forall (fun st => st = TStart) ts.
Definition no_looked (ts : list tstate) : Prop := Forall (fun st => forall u, st <> TLooked u) ts.

Lemma Forall_set_nth : forall {A} (P : A -> Prop) i x l, Forall P l -> P x -> Forall P (set_nth i x l).
Proof.
  induction i; intros x [|y l] H Hx; cbn [set_nth]; try constructor; inversion H; subst; auto.
Qed.

Lemma all_start_misses : forall ts, all_start ts -> misses ts = 0%nat.
Proof. unfold misses. induction 1 as [|x l Hx _ IH]; cbn [filter]; [reflexivity|]. now subst. Qed.

(* the invariant: nobody has touched the cache yet, or exactly one thread was told "new" *)
Definition conc_inv (k : list N) (c : cache) (ts : list tstate) : Prop :=
  no_looked ts /\
  ((lookup k c = None /\ all_start ts) \/ (lookup k c <> None /\ misses ts = 1%nat)).

Lemma conc_step : forall keyfn p c ts i t st,
  conc_inv (keyfn (p_random p)) c ts -> nth_error ts i = Some st ->
  let (c', st') := tstep true keyfn p c st t in
  conc_inv (keyfn (p_random p)) c' (set_nth i st' ts).
Proof.
  intros keyfn p c ts i t st [Hnl Hinv] Hn.
  assert (Hst : forall u, st <> TLooked u).
  { unfold no_looked in Hnl. rewrite Forall_forall in Hnl. apply Hnl. eapply nth_error_In; eauto. }
  destruct st as [|u|u|o]; cbn [tstep].
  - (* registerRandom *)
    unfold register.
    pose proof (misses_set_nth i TStart
      (TRegistered match lookup (keyfn (p_random p)) c with Some _ => true | None => false end) ts Hn) as M.
    split; [apply Forall_set_nth; [exact Hnl | intros u; discriminate]|].
    right. rewrite lookup_store_same. split; [discriminate|].
    destruct Hinv as [[Hl Hall] | [Hl Hm]].
    + rewrite Hl in M |- *. cbn [missed negb] in M. rewrite (all_start_misses ts Hall) in M. lia.
    + destruct (lookup (keyfn (p_random p)) c); [|contradiction]. cbn [missed negb] in M. lia.
  - exfalso. now apply (Hst u).
  - (* decryptClientInfo: no shared state *)
    pose proof (misses_set_nth i (TRegistered u) (TDone (finish_auth p u t)) ts Hn) as M.
    split; [apply Forall_set_nth; [exact Hnl | intros u'; discriminate]|].
    destruct Hinv as [[Hl Hall] | [Hl Hm]].
    + exfalso. unfold all_start in Hall. rewrite Forall_forall in Hall.
      specialize (Hall _ (nth_error_In _ _ Hn)). discriminate.
    + right. split; [exact Hl|].
      assert (E : missed (TDone (finish_auth p u t)) = missed (TRegistered u)).
      { unfold finish_auth. destruct u; cbn [missed negb]; [reflexivity|].
        destruct (p_auth p) as [z|]; [destruct (in_window z t)|]; reflexivity. }
      rewrite E in M. destruct (missed (TRegistered u)); lia.
  - pose proof (misses_set_nth i (TDone o) (TDone o) ts Hn) as M.
    split; [apply Forall_set_nth; [exact Hnl | intros u'; discriminate]|].
    destruct Hinv as [[Hl Hall] | [Hl Hm]].
    + exfalso. unfold all_start in Hall. rewrite Forall_forall in Hall.
      specialize (Hall _ (nth_error_In _ _ Hn)). discriminate.
    + right. split; [exact Hl|]. destruct (missed (TDone o)); lia.
Qed.

Lemma conc_run : forall keyfn p sched c ts,
  conc_inv (keyfn (p_random p)) c ts ->
  let (c', ts') := run_sched true keyfn p c ts sched in
  conc_inv (keyfn (p_random p)) c' ts'.
Proof.
  induction sched as [|[i t] sched IH]; intros c ts Hinv; cbn [run_sched]; [exact Hinv|].
  destruct (nth_error ts i) as [st|] eqn:Hn; [|now apply IH].
  pose proof (conc_step keyfn p c ts i t st Hinv Hn) as Hs.
  destruct (tstep true keyfn p c st t) as [c' st']. now apply IH.
Qed.

Lemma conc_init : forall k c n, lookup k c = None -> conc_inv k c (repeat TStart n).
Proof.
  intros k c n Hl. split.
  - apply Forall_forall. intros st Hin. apply repeat_spec in Hin. subst. intros u; discriminate.
  - left. split; [exact Hl|]. apply Forall_forall. intros st Hin. now apply repeat_spec in Hin.
Qed.

(* progress: a thread scheduled at least twice has finished *)
Definition progress (st : tstate) : nat :=
  match st with TStart => 0 | TLooked _ => 0 | TRegistered _ => 1 | TDone _ => 2 end.

Lemma nth_error_set_nth_same : forall {A} i (x : A) l y, nth_error l i = Some y -> nth_error (set_nth i x l) i = Some x.
Proof. induction i; intros x [|z l] y H; cbn in *; try discriminate; eauto. Qed.

Lemma nth_error_set_nth_other : forall {A} i j (x : A) l, i <> j -> nth_error (set_nth i x l) j = nth_error l j.
Proof.
  induction i; intros [|j] x [|z l] H; cbn; try reflexivity; try contradiction.
  apply IHi. congruence.
Qed.

Lemma progress_run : forall keyfn p sched c ts j st,
  nth_error ts j = Some st ->
  exists st', nth_error (snd (run_sched true keyfn p c ts sched)) j = Some st'
    /\ (Nat.min 2 (progress st + count_occ Nat.eq_dec (map fst sched) j) <= progress st')%nat.
Proof.
  induction sched as [|[i t] sched IH]; intros c ts j st Hj; cbn [run_sched map fst count_occ snd].
  - exists st. split; [exact Hj|]. lia.
  - destruct (nth_error ts i) as [sti|] eqn:Hi.
    + destruct (tstep true keyfn p c sti t) as [c' sti'] eqn:Et.
      destruct (Nat.eq_dec i j) as [->|Hne].
      * rewrite Hj in Hi. injection Hi as <-.
        destruct (IH c' (set_nth j sti' ts) j sti' (nth_error_set_nth_same _ _ _ _ Hj)) as (st' & Hn & Hp).
        exists st'. split; [exact Hn|].
        assert (progress sti' >= Nat.min 2 (S (progress st)))%nat.
        { destruct st; cbn [tstep] in Et.
          - destruct (register keyfn c (p_random p) t). injection Et as _ <-. cbn. lia.
          - injection Et as _ <-. cbn. lia.
          - injection Et as _ <-. cbn. lia.
          - injection Et as _ <-. cbn. lia. }
        lia.
      * destruct (IH c' (set_nth i sti' ts) j st) as (st' & Hn & Hp).
        { rewrite nth_error_set_nth_other by exact Hne. exact Hj. }
        exists st'. split; [exact Hn | exact Hp].
    + destruct (Nat.eq_dec i j) as [->|Hne]; [congruence|]. now apply IH.
Qed.

Definition is_done (st : tstate) : Prop := exists o, st = TDone o.

Lemma done_count : forall ts, Forall is_done ts ->
  (length (filter (fun st => match st with TDone OReplay => true | _ => false end) ts) + misses ts = length ts)%nat.
Proof.
  unfold misses. induction 1 as [|st ts Hx _ IH]; [reflexivity|].
  destruct Hx as [o ->]. cbn [filter missed]. destruct o; cbn [length]; lia.
Qed.

Theorem concurrent_exactly_one :
  forall keyfn p n c sched,
  lookup (keyfn (p_random p)) c = None ->
  let (c', ts') := run_sched true keyfn p c (repeat TStart n) sched in
  (* at every moment at most one thread has been told "new" ... *)
  (misses ts' <= 1)%nat /\
  (* ... and once every thread has run to completion exactly one has, the others got ErrReplay *)
  ((forall i, (i < n)%nat -> (2 <= count_occ Nat.eq_dec (map fst sched) i)%nat) -> (1 <= n)%nat ->
     Forall is_done ts' /\ misses ts' = 1%nat /\
     length (filter (fun st => match st with TDone OReplay => true | _ => false end) ts') = (n - 1)%nat).
Proof.
  intros keyfn p n c sched Hl.
  pose proof (conc_run keyfn p sched c (repeat TStart n) (conc_init _ c n Hl)) as Hinv.
  pose proof (fun j st => progress_run keyfn p sched c (repeat TStart n) j st) as Hprog.
  destruct (run_sched true keyfn p c (repeat TStart n) sched) as [c' ts'] eqn:Er. cbn [snd] in Hprog.
  destruct Hinv as [Hnl Hinv].
  split.
  - destruct Hinv as [[_ Hall] | [_ Hm]]; [rewrite (all_start_misses _ Hall)|]; lia.
  - intros Hall Hn.
    assert (Hlen : length ts' = n).
    { clear - Er. revert c Er. generalize (repeat_length TStart n). generalize (repeat TStart n) as ts.
      induction sched as [|[i t] sched IH]; intros ts L c Er; cbn [run_sched] in Er.
      - now injection Er as _ <-.
      - destruct (nth_error ts i) as [st|]; [|eauto].
        destruct (tstep true keyfn p c st t) as [c1 st1]. eapply IH; [|exact Er]. now rewrite set_nth_length. }
    assert (Hdone : Forall is_done ts').
    { apply Forall_forall. intros st Hin. apply In_nth_error in Hin as [j Hj].
      assert (Hjn : (j < n)%nat) by (rewrite <- Hlen; apply nth_error_Some; congruence).
      destruct (Hprog j TStart) as (st' & Hn' & Hp).
      { rewrite nth_error_repeat by exact Hjn. reflexivity. }
      rewrite Hj in Hn'. injection Hn' as <-. specialize (Hall j Hjn). cbn [progress] in Hp.
      destruct st; cbn [progress] in Hp; try lia. now exists o. }
    assert (Hm : misses ts' = 1%nat).
    { destruct Hinv as [[_ Hs] | [_ Hm]]; [|exact Hm]. exfalso.
      destruct ts' as [|st ts']; [cbn in Hlen; lia|].
      unfold all_start in Hs. apply Forall_inv in Hs. apply Forall_inv in Hdone. destruct Hdone as [o Ho]. congruence. }
    split; [exact Hdone|]. split; [exact Hm|].
    pose proof (done_count ts' Hdone). lia.
Qed.

(* without the lock (lookup and store as two steps) two threads can both be told "new" *)
Lemma unlocked_two_misses :
  let p := pk 1000 in let t := 1000 * ns_per_s in
  snd (run_sched false mask255 p [] [TStart; TStart] [(0, t); (1, t); (0, t); (1, t); (0, t); (1, t)]%nat)
  = [TDone OAccept; TDone OAccept].
Proof. vm_compute. reflexivity. Qed.

(* ------------------------------------------------------------ the harness-driven server *)
Lemma run_chunks_concat : forall rule keyfn chs c,
  concat (map fst (run_chunks rule keyfn c chs)) = snd (run rule keyfn c (concat chs)).
Proof.
  induction chs as [|ch chs IH]; intro c; cbn [run_chunks concat map]; [reflexivity|].
  rewrite run_app. destruct (run rule keyfn c ch) as [c' os]. cbn [concat map fst]. rewrite IH.
  now destruct (run rule keyfn c' (concat chs)).
Qed.

(* the observations [serve] prints are a regrouping of the outcomes of the server's history *)
Lemma serve_outcomes : forall rule keyfn start ops,
  concat (map fst (run_chunks rule keyfn [] (chunks start (start + clean_period) ops)))
  = outcomes rule keyfn (server_history start ops).
Proof. intros. apply run_chunks_concat. Qed.

Lemma cleans_upto_spec : forall fuel next upto now,
  now < next -> upto < next + Z.of_nat fuel * clean_period ->
  let (cl, nx) := cleans_upto fuel next upto in
  ordered now cl = true /\ Z.max upto now < nx /\ last_time now cl <= Z.max upto now.
Proof.
  pose proof clean_period_pos as Hp.
  induction fuel as [|f IH]; intros next upto now Hn Hu; cbn [cleans_upto].
  - cbn [ordered last_time fold_left]. unfold last_time. cbn. lia.
  - destruct (next <=? upto) eqn:E.
    + specialize (IH (next + clean_period) upto next ltac:(lia) ltac:(lia)).
      destruct (cleans_upto f (next + clean_period) upto) as [l nx].
      destruct IH as (I1 & I2 & I3). unfold last_time in *. cbn [ordered ev_time fold_left].
      rewrite I1. split; [lia|]. lia.
    + unfold last_time. cbn. lia.
Qed.

Fixpoint sleeps_nonneg (ops : list op) : bool :=
  match ops with
  | [] => true
  | OpSleep d :: r => (0 <=? d) && sleeps_nonneg r
  | _ :: r => sleeps_nonneg r
  end.

Lemma ordered_repeat : forall p t n lb, lb <= t -> ordered lb (repeat (Present p t t) n) = true.
Proof. induction n; intros lb H; cbn [repeat ordered ev_time]; [reflexivity|]. rewrite IHn by lia. lia. Qed.

Lemma last_time_repeat : forall p t n lb, lb <= t -> last_time lb (repeat (Present p t t) n) <= t.
Proof. unfold last_time. induction n; intros lb H; cbn [repeat fold_left ev_time]; [lia|]. apply IHn. lia. Qed.

Lemma ordered_app_intro : forall a b lb, ordered lb a = true -> ordered (last_time lb a) b = true -> ordered lb (a ++ b) = true.
Proof.
  unfold last_time. induction a as [|e a IH]; intros b lb Ha Hb; cbn [app ordered fold_left] in *; [exact Hb|].
  apply andb_true_iff in Ha as [H1 H2]. rewrite H1. cbn [andb]. now apply IH.
Qed.

Lemma ordered_weaken : forall h lb lb', lb' <= lb -> ordered lb h = true -> ordered lb' h = true.
Proof. destruct h as [|e h]; intros lb lb' H Ho; cbn [ordered] in *; [reflexivity|]. lia. Qed.

(* every history the harness can drive is an ordered history: the theorems apply to it *)
Lemma chunks_ordered : forall ops now next,
  sleeps_nonneg ops = true -> now < next ->
  ordered now (concat (chunks now next ops)) = true.
Proof.
  pose proof clean_period_pos as Hp.
  induction ops as [|o ops IH]; intros now next Hs Hn; cbn [chunks concat]; [reflexivity|].
  destruct o as [d | p | p n]; cbn [sleeps_nonneg] in Hs.
  - apply andb_true_iff in Hs as [Hd Hs].
    pose proof (cleans_upto_spec (S (Z.to_nat (d / clean_period))) next (now + d) now Hn) as C.
    assert (now + d < next + Z.of_nat (S (Z.to_nat (d / clean_period))) * clean_period) as Hf.
    { rewrite Nat2Z.inj_succ, Z2Nat.id by (apply Z.div_pos; lia).
      pose proof (Z.mod_pos_bound d clean_period Hp). pose proof (Z.div_mod d clean_period ltac:(lia)). nia. }
    specialize (C Hf).
    destruct (cleans_upto (S (Z.to_nat (d / clean_period))) next (now + d)) as [cl nx].
    destruct C as (C1 & C2 & C3). cbn [concat].
    apply ordered_app_intro; [exact C1|].
    apply ordered_weaken with (lb := now + d); [lia|]. apply IH; [exact Hs | lia].
  - cbn [concat app ordered ev_time]. rewrite (IH now next Hs Hn). lia.
  - cbn [concat]. apply ordered_app_intro; [apply ordered_repeat; lia|].
    apply ordered_weaken with (lb := now); [apply last_time_repeat; lia | now apply IH].
Qed.

Lemma server_history_ordered : forall start ops,
  sleeps_nonneg ops = true -> ordered start (server_history start ops) = true.
Proof.
  intros. unfold server_history. apply chunks_ordered; [assumption|]. pose proof clean_period_pos. lia.
Qed.

(* in a harness-driven history the two clock reads of a presentation coincide *)
Lemma server_history_same_read : forall ops now next p t1 t2,
  In (Present p t1 t2) (concat (chunks now next ops)) -> t1 = t2.
Proof.
  induction ops as [|o ops IH]; intros now next p t1 t2 Hin; cbn [chunks concat] in Hin; [contradiction|].
  destruct o as [d | q | q n].
  - destruct (cleans_upto (S (Z.to_nat (d / clean_period))) next (now + d)) as [cl nx] eqn:E.
    cbn [concat] in Hin. apply in_app_or in Hin as [Hin|Hin]; [|eauto].
    exfalso. clear - E Hin. revert next cl nx E Hin. generalize (S (Z.to_nat (d / clean_period))) as f.
    induction f as [|f IHf]; intros next cl nx E Hin; cbn [cleans_upto] in E.
    + injection E as <- _. contradiction.
    + destruct (next <=? now + d).
      * destruct (cleans_upto f (next + clean_period) (now + d)) as [l n2] eqn:E2.
        injection E as <- _. destruct Hin as [Hin|Hin]; [discriminate|]. eapply IHf; eauto.
      * injection E as <- _. contradiction.
  - cbn [concat app] in Hin. destruct Hin as [Hin|Hin]; [injection Hin; congruence | eauto].
  - cbn [concat] in Hin. apply in_app_or in Hin as [Hin|Hin]; [|eauto].
    apply repeat_spec in Hin. injection Hin; congruence.
Qed.

(* ------------------------------------------------------------ from cache keys to sealed blocks *)
Lemma outcome_at : forall rule keyfn h1 e h2,
  nth_error (outcomes rule keyfn (h1 ++ e :: h2)) (length h1)
  = Some (snd (step rule keyfn (fst (run rule keyfn [] h1)) e)).
Proof.
  intros. unfold outcomes. rewrite run_app.
  pose proof (run_length rule keyfn h1 []) as L.
  destruct (run rule keyfn [] h1) as [c1 o1]. cbn [snd fst] in *. cbn [run].
  destruct (step rule keyfn c1 e) as [c2 o]. destruct (run rule keyfn c2 h2) as [c3 o2]. cbn [snd].
  rewrite <- L. apply nth_error_app_len.
Qed.

Lemma accept_inv : forall rule keyfn h1 p t1 t2 h2,
  nth_error (outcomes rule keyfn (h1 ++ Present p t1 t2 :: h2)) (length h1) = Some (Some OAccept) ->
  p_parses p = true /\ exists ts, p_auth p = Some ts /\ in_window ts t2 = true.
Proof.
  intros rule keyfn h1 p t1 t2 h2 H. rewrite outcome_at in H. cbn [step] in H.
  destruct (present keyfn (fst (run rule keyfn [] h1)) p t1 t2) as [c o] eqn:E. cbn [snd] in H.
  injection H as ->. unfold present in E.
  destruct (p_parses p); cbn [negb] in E; [|discriminate]. split; [reflexivity|].
  destruct (register keyfn (fst (run rule keyfn [] h1)) (p_random p) t1) as [c' used].
  destruct used; [discriminate|]. destruct (p_auth p) as [ts|]; [|discriminate].
  destruct (in_window ts t2) eqn:W; [|discriminate]. now exists ts.
Qed.

(* a first packet on the wire: the 32 bytes that carry the ephemeral public value and the
   64-byte sealed identity block (session id ++ key share) *)
Record wire := mkW { w_parses : bool; w_random : list N; w_block : list N }.
Inductive wevent := WPresent (w : wire) (t1 t2 : Z) | WClean (t : Z).

Section Sealed.
  (* [opens r b] = Some ts when block b opens under the key X25519(server key, r) with nonce
     r[0..11] and carries timestamp ts.  Not modelled: an abstract function. *)
  Variable opens : list N -> list N -> option Z.
  (* one sealed block opens under at most one ephemeral value up to X25519's input masking *)
  Hypothesis sealed_block_binds : forall r1 r2 b ts1 ts2,
    opens r1 b = Some ts1 -> opens r2 b = Some ts2 -> mask255 r1 = mask255 r2 /\ ts1 = ts2.

  Definition abstract (w : wire) : packet := mkP (w_parses w) (w_random w) (opens (w_random w) (w_block w)).
  Definition abs_event (e : wevent) : event :=
    match e with WPresent w t1 t2 => Present (abstract w) t1 t2 | WClean t => Clean t end.

  Theorem at_most_once :
    forall lb0 h1 h2 h3 w t1 t1' w' t2 t2',
    let h := map abs_event (h1 ++ WPresent w t1 t1' :: h2 ++ WPresent w' t2 t2' :: h3) in
    ordered lb0 h = true ->
    t1 / ns_per_s = t1' / ns_per_s ->
    w_block w' = w_block w ->
    nth_error (outcomes rule_fixed mask255 h) (length h1) = Some (Some OAccept) ->
    nth_error (outcomes rule_fixed mask255 h) (length h1 + 1 + length h2) <> Some (Some OAccept).
  Proof.
    intros lb0 h1 h2 h3 w t1 t1' w' t2 t2' h Hord Hsec Hblk Hacc1 Hacc2.
    subst h. rewrite map_app in *. cbn [map abs_event] in *. rewrite map_app in *. cbn [map abs_event] in *.
    rewrite <- (map_length abs_event h1) in Hacc1, Hacc2.
    rewrite <- (map_length abs_event h2) in Hacc2.
    pose proof (accept_inv _ _ _ _ _ _ _ Hacc1) as (_ & ts & Ha & _).
    assert (Hacc2' := Hacc2).
    rewrite app_comm_cons, app_assoc in Hacc2'.
    replace (length (map abs_event h1) + 1 + length (map abs_event h2))%nat
      with (length (map abs_event h1 ++ Present (abstract w) t1 t1' :: map abs_event h2)) in Hacc2'
      by (rewrite app_length; cbn [length]; lia).
    pose proof (accept_inv _ _ _ _ _ _ _ Hacc2') as (_ & ts' & Ha' & _).
    cbn [abstract p_auth] in Ha, Ha'. rewrite Hblk in Ha'.
    destruct (sealed_block_binds _ _ _ _ _ Ha Ha') as [Hk Hts]. subst ts'.
    refine (cache_at_most_one mask255 lb0 _ _ _ _ t1 t1' _ t2 t2' Hord Hsec _ _ Hacc1 Hacc2).
    - cbn [abstract p_random]. now symmetry.
    - cbn [abstract p_auth]. rewrite Hblk. congruence.
  Qed.
End Sealed.

(* the hypothesis is satisfiable: a toy scheme whose block spells out the (masked) ephemeral value
   and the timestamp (offset so that it is a byte) *)
Definition toy_opens (r b : list N) : option Z :=
  match b with
  | tsb :: k => if bytes_eqb k (mask255 r) then Some (Z.of_N tsb) else None
  | [] => None
  end.

Lemma toy_binds : forall r1 r2 b ts1 ts2,
  toy_opens r1 b = Some ts1 -> toy_opens r2 b = Some ts2 -> mask255 r1 = mask255 r2 /\ ts1 = ts2.
Proof.
  intros r1 r2 [|tsb k] ts1 ts2 H1 H2; cbn [toy_opens] in *; [discriminate|].
  destruct (bytes_eqb k (mask255 r1)) eqn:E1; [|discriminate].
  destruct (bytes_eqb k (mask255 r2)) eqn:E2; [|discriminate].
  apply bytes_eqb_eq in E1, E2. split; congruence.
Qed.

Example toy_accepts_once :
  let w := mkW true rnd0 (100%N :: mask255 rnd0) in
  let w' := mkW true (flip255 rnd0) (100%N :: mask255 rnd0) in
  outcomes rule_fixed mask255 (map (abs_event toy_opens)
     [WPresent w (100 * ns_per_s) (100 * ns_per_s); WClean (101 * ns_per_s); WPresent w' (102 * ns_per_s) (102 * ns_per_s)])
  = [Some OAccept; None; Some OReplay].
Proof. vm_compute. reflexivity. Qed.
