(* C10: what Cloak writes in direct mode, read with the independent grammar of Model/HelloGrammar.v.
     - the server's hand-composed flight (Model/Auth.v compose_reply) parses as ServerHello + CCS + one
       application-data record, session id echoed;
     - every TLSConn.Write is one well-formed application-data record, frames fit the limits;
     - the concatenation of everything one side writes parses as a record stream;
     - a well-formed ClientHello carries random, session id and key share where the composer puts them. *)
From Coq Require Import NArith ZArith List Bool Arith Lia ZifyN ZifyNat ZifyBool.
From Cloak Require Import Gen.Consts Model.HelloGrammar Model.Auth Proofs.HelloGrammar Proofs.Auth.
Import ListNotations.
Local Open Scope N_scope.

Ltac Zify.zify_post_hook ::= Z.div_mod_to_equations.

(* ------------------------------------------------------------------------------ server flight *)
Lemma add_record_layer_enc : forall input typ, lenN input < 65536 ->
  add_record_layer input typ [3; 3] = enc_record (mkRec typ 0x0303 input).
Proof.
  intros input typ H. rewrite add_record_layer_eq by exact H.
  unfold enc_record, u16. cbn [r_type r_ver r_body app].
  change (771 / 256 mod 256) with 3. change (771 mod 256) with 3.
  replace ((lenN input / 256) mod 256) with (lenN input / 256) by lia. reflexivity.
Qed.

Lemma server_exts_parse : forall S, length S = 32%nat ->
  parse_tlvs (0 :: 0x33 :: 0 :: 0x24 :: 0 :: 0x1d :: 0 :: 0x20 :: S ++ [0; 0x2b; 0; 2; 3; 4])
  = Some [(51, 0 :: 29 :: 0 :: 32 :: S); (43, [3; 4])].
Proof.
  intros S HS.
  assert (LS : lenN S = 32) by (unfold lenN; rewrite HS; reflexivity).
  replace (0 :: 0x33 :: 0 :: 0x24 :: 0 :: 0x1d :: 0 :: 0x20 :: S ++ [0; 0x2b; 0; 2; 3; 4])
    with (enc_tlvs [(51, 0 :: 29 :: 0 :: 32 :: S); (43, [3; 4])]).
  - apply parse_tlvs_enc. cbn [forallb]. unfold tlv_fits. cbn [fst snd]. rewrite !lenN_cons, LS. reflexivity.
  - unfold enc_tlvs, enc_tlv, u16. cbn [flat_map fst snd]. rewrite !lenN_cons, LS.
    cbn -[N.div N.modulo]. reflexivity.
Qed.

Lemma parse_server_hello_ok : forall R sid S, length R = 32%nat -> length sid = 32%nat -> length S = 32%nat ->
  parse_server_hello (2 :: 0 :: 0 :: 0x76 :: 3 :: 3 :: R ++ 32 :: sid ++
                      0x13 :: 0x02 :: 0 :: 0 :: 0x2e :: 0 :: 0x33 :: 0 :: 0x24 :: 0 :: 0x1d :: 0 :: 0x20 :: S ++ [0; 0x2b; 0; 2; 3; 4])
  = Some (R, sid, S).
Proof.
  intros R sid S HR Hsid HS. unfold parse_server_hello.
  set (exts := 0 :: 0x33 :: 0 :: 0x24 :: 0 :: 0x1d :: 0 :: 0x20 :: S ++ [0; 0x2b; 0; 2; 3; 4]).
  set (rest := 3 :: 3 :: R ++ 32 :: sid ++ 0x13 :: 0x02 :: 0 :: 0 :: 0x2e :: exts).
  assert (Lexts : lenN exts = 46).
  { unfold exts, lenN. cbn [length]. rewrite app_length, HS. reflexivity. }
  assert (Lrest : lenN rest = 118).
  { unfold rest, lenN. cbn [length]. rewrite app_length. cbn [length]. rewrite app_length. cbn [length].
    fold (lenN exts). unfold lenN in Lexts. rewrite HR, Hsid. lia. }
  rewrite Lrest. change (negb (0 * 65536 + 0 * 256 + 118 =? 118)) with false. change (negb (118 =? 118)) with false.
  cbv iota. unfold rest.
  rewrite (g_take_app_n 32 R) by (symmetry; exact HR).
  rewrite (g_take_app_n 32 sid) by (symmetry; exact Hsid).
  rewrite Lexts. change (0 * 256 + 46 =? 46) with true. cbv iota.
  unfold exts. rewrite server_exts_parse by exact HS.
  cbn [length Nat.eqb map fst nodup_b existsb negb andb orb N.eqb Pos.eqb assoc ext_key_share ext_supported_versions].
  rewrite HS. reflexivity.
Qed.

Lemma server_flight_parses : forall sid nonce encKey filler cert,
  length sid = 32%nat -> 0 < lenN cert -> lenN cert <= 16384 ->
  parse_server_flight (compose_reply sid nonce encKey filler cert)
  = Some (mkSF (sh_random nonce encKey) sid (sh_share encKey filler) cert).
Proof.
  intros sid nonce encKey filler cert Hsid Hc0 Hc1.
  unfold compose_reply.
  set (sh := compose_server_hello sid nonce encKey filler).
  assert (Lsh : lenN sh = 122) by (unfold lenN, sh; rewrite compose_server_hello_length by exact Hsid; reflexivity).
  rewrite (add_record_layer_enc sh) by lia.
  rewrite (add_record_layer_enc [1]) by (cbn; lia).
  rewrite (add_record_layer_enc cert) by lia.
  unfold parse_server_flight.
  replace (enc_record (mkRec 22 771 sh) ++ enc_record (mkRec 20 771 [1]) ++ enc_record (mkRec 23 771 cert))
    with (concat (map enc_record [mkRec 22 771 sh; mkRec 20 771 [1]; mkRec 23 771 cert]))
    by (cbn [map concat]; rewrite app_nil_r; reflexivity).
  rewrite parse_records_concat.
  2:{ repeat constructor; cbn [r_ver r_body]; try lia. }
  unfold flight_of, wf_appdata. cbn [r_type r_ver r_body].
  change ((22 =? 22) && (771 =? 771) && (20 =? 20) && (771 =? 771) && g_bytes_eqb [1] [1]) with true.
  change ((23 =? 23) && (771 =? 771)) with true.
  replace (0 <? lenN cert) with true by lia. replace (lenN cert <=? max_record_len) with true by (unfold max_record_len; lia).
  cbn [andb]. unfold sh. rewrite compose_server_hello_layout. cbn [app].
  rewrite parse_server_hello_ok; [reflexivity|apply sh_random_length|exact Hsid|apply sh_share_length].
Qed.

(* ------------------------------------------------------------------------------ application data *)
(* generated obligations about the constants *)
Lemma limits_chain :
  (server_appDataMaxLength = client_appDataMaxLength /\
   server_appDataMaxLength <= common_tlsconn_write_limit /\
   common_tlsconn_write_limit = 2 ^ 14 + 256 /\
   mux_maxStreamUnitWrite_16401 = server_appDataMaxLength - mux_frameHeaderLength - mux_maxExtraLen /\
   256 <= mux_maxStreamUnitWrite_16401 /\
   common_ApplicationData = 23 /\ common_VersionTLS13 = 771 /\ common_recordLayerLength = 5)%Z.
Proof. repeat split; vm_compute; congruence. Qed.

Lemma tls_write_limit_is_max_record_len : tls_write_limit = max_record_len.
Proof. reflexivity. Qed.

(* |msg| = 14 + payload + extra; a frame whose payload respects the session's maxStreamUnitWrite fits
   MsgOnWireSizeLimit (both ends: 16401), hence the record limit; it is never empty *)
Lemma frame_fits : forall payload extra limit : Z,
  (1 <= payload <= limit - mux_frameHeaderLength - mux_maxExtraLen)%Z -> (0 <= extra <= mux_maxExtraLen)%Z ->
  (0 < mux_frameHeaderLength + payload + extra <= limit)%Z.
Proof. intros payload extra limit. unfold mux_frameHeaderLength, mux_maxExtraLen. lia. Qed.

Lemma frame_fits_record : forall payload extra : Z,
  (1 <= payload <= mux_maxStreamUnitWrite_16401)%Z -> (0 <= extra <= mux_maxExtraLen)%Z ->
  (0 < mux_frameHeaderLength + payload + extra <= server_appDataMaxLength /\
   mux_frameHeaderLength + payload + extra <= common_tlsconn_write_limit)%Z.
Proof.
  intros payload extra. unfold mux_maxStreamUnitWrite_16401, mux_frameHeaderLength, mux_maxExtraLen,
    server_appDataMaxLength, common_tlsconn_write_limit. lia.
Qed.

(* closing notices are ordinary frames with 1..256 random payload bytes *)
Lemma closing_frame_fits_record : forall payload extra : Z,
  (1 <= payload <= 256)%Z -> (0 <= extra <= mux_maxExtraLen)%Z ->
  (0 < mux_frameHeaderLength + payload + extra <= server_appDataMaxLength)%Z.
Proof.
  intros payload extra. unfold mux_frameHeaderLength, mux_maxExtraLen, server_appDataMaxLength. lia.
Qed.

Definition msg_ok (m : list N) : Prop := 0 < lenN m /\ lenN m <= tls_write_limit.

(* TLSConn.Write: one record [23;3;3;hi;lo] ++ msg, or nothing at all *)
Lemma tlsconn_write_record : forall msg, msg_ok msg ->
  tlsconn_write msg = Some ([23; 3; 3; lenN msg / 256; lenN msg mod 256] ++ msg) /\
  [23; 3; 3; lenN msg / 256; lenN msg mod 256] ++ msg = enc_record (mkRec 23 0x0303 msg) /\
  wf_appdata (mkRec 23 0x0303 msg) = true.
Proof.
  intros msg [H0 H1]. unfold tls_write_limit in H1. change (Z.to_N common_tlsconn_write_limit) with 16640 in H1.
  repeat split.
  - unfold tlsconn_write, tls_write_limit. change (Z.to_N common_tlsconn_write_limit) with 16640.
    replace (16640 <? lenN msg) with false by lia. reflexivity.
  - unfold enc_record, u16. cbn [r_type r_ver r_body app].
    change (771 / 256 mod 256) with 3. change (771 mod 256) with 3.
    replace ((lenN msg / 256) mod 256) with (lenN msg / 256) by lia. reflexivity.
  - unfold wf_appdata, max_record_len. cbn [r_type r_ver r_body].
    change ((23 =? 23) && (771 =? 771)) with true.
    replace (0 <? lenN msg) with true by lia. replace (lenN msg <=? 16640) with true by lia. reflexivity.
Qed.

Lemma tlsconn_write_refuses : forall msg, tls_write_limit < lenN msg -> tlsconn_write msg = None.
Proof. intros msg H. unfold tlsconn_write. replace (tls_write_limit <? lenN msg) with true by lia. reflexivity. Qed.

(* what a sequence of Write calls puts on the wire (a refused write puts nothing) *)
Definition wire_of (msgs : list (list N)) : list N :=
  concat (map (fun m => match tlsconn_write m with Some w => w | None => [] end) msgs).

Lemma wire_of_ok : forall msgs, Forall msg_ok msgs ->
  wire_of msgs = concat (map enc_record (map (mkRec 23 0x0303) msgs)).
Proof.
  induction msgs as [|m msgs IH]; intros H; [reflexivity|].
  inversion H as [|? ? Hm Hrest]; subst. unfold wire_of in *. cbn [map concat].
  destruct (tlsconn_write_record m Hm) as (E1 & E2 & _). rewrite E1, E2, IH by exact Hrest. reflexivity.
Qed.

Lemma appdata_records_wf : forall msgs, Forall msg_ok msgs ->
  Forall (fun r => r_ver r < 65536 /\ lenN (r_body r) < 65536) (map (mkRec 23 0x0303) msgs) /\
  forallb wf_appdata (map (mkRec 23 0x0303) msgs) = true.
Proof.
  induction msgs as [|m msgs IH]; intros H; [split; [constructor|reflexivity]|].
  inversion H as [|? ? Hm Hrest]; subst. destruct (IH Hrest) as [I1 I2].
  destruct (tlsconn_write_record m Hm) as (_ & _ & E3).
  destruct Hm as [H0 H1]. unfold tls_write_limit in H1. change (Z.to_N common_tlsconn_write_limit) with 16640 in H1.
  cbn [map forallb]. split.
  - constructor; [cbn [r_ver r_body]; lia|exact I1].
  - rewrite E3, I2. reflexivity.
Qed.

Lemma map_body_mkrec : forall msgs, map r_body (map (mkRec 23 0x0303) msgs) = msgs.
Proof. induction msgs; cbn [map r_body]; [reflexivity|]. rewrite IHmsgs. reflexivity. Qed.

(* everything written after the handshake is a sequence of well-formed application-data records *)
Lemma stream_parses : forall msgs, Forall msg_ok msgs -> parse_appdata_stream (wire_of msgs) = Some msgs.
Proof.
  intros msgs H. rewrite wire_of_ok by exact H. unfold parse_appdata_stream.
  destruct (appdata_records_wf msgs H) as [W1 W2].
  rewrite parse_records_concat by exact W1. rewrite W2, map_body_mkrec. reflexivity.
Qed.

(* the whole server-to-client byte stream of one connection *)
Lemma server_stream_parses : forall sid nonce encKey filler cert msgs,
  length sid = 32%nat -> 0 < lenN cert -> lenN cert <= 16384 -> Forall msg_ok msgs ->
  parse_server_stream (compose_reply sid nonce encKey filler cert ++ wire_of msgs)
  = Some (mkSF (sh_random nonce encKey) sid (sh_share encKey filler) cert, msgs).
Proof.
  intros sid nonce encKey filler cert msgs Hsid Hc0 Hc1 Hm.
  pose proof (server_flight_parses sid nonce encKey filler cert Hsid Hc0 Hc1) as HF.
  unfold parse_server_flight in HF.
  unfold compose_reply in *.
  set (sh := compose_server_hello sid nonce encKey filler) in *.
  assert (Lsh : lenN sh = 122) by (unfold lenN, sh; rewrite compose_server_hello_length by exact Hsid; reflexivity).
  rewrite (add_record_layer_enc sh) in * by lia.
  rewrite (add_record_layer_enc [1]) in * by (cbn; lia).
  rewrite (add_record_layer_enc cert) in * by lia.
  rewrite wire_of_ok by exact Hm.
  destruct (appdata_records_wf msgs Hm) as [W1 W2].
  unfold parse_server_stream.
  replace ((enc_record (mkRec 22 771 sh) ++ enc_record (mkRec 20 771 [1]) ++ enc_record (mkRec 23 771 cert)) ++
           concat (map enc_record (map (mkRec 23 771) msgs)))
    with (concat (map enc_record (mkRec 22 771 sh :: mkRec 20 771 [1] :: mkRec 23 771 cert :: map (mkRec 23 771) msgs)))
    by (cbn [map concat]; rewrite <- !app_assoc; reflexivity).
  rewrite parse_records_concat.
  2:{ apply Forall_cons; [cbn [r_ver r_body]; lia|]. apply Forall_cons; [split; reflexivity|].
      apply Forall_cons; [cbn [r_ver r_body]; lia|]. exact W1. }
  replace (enc_record (mkRec 22 771 sh) ++ enc_record (mkRec 20 771 [1]) ++ enc_record (mkRec 23 771 cert))
    with (concat (map enc_record [mkRec 22 771 sh; mkRec 20 771 [1]; mkRec 23 771 cert])) in HF
    by (cbn [map concat]; rewrite app_nil_r; reflexivity).
  rewrite parse_records_concat in HF.
  2:{ repeat constructor; cbn [r_ver r_body]; try lia. }
  rewrite HF, W2, map_body_mkrec. reflexivity.
Qed.

(* the whole client-to-server byte stream: one ClientHello record, then application data *)
Lemma client_stream_parses : forall name hello msgs,
  wf_client_hello name hello = true -> Forall msg_ok msgs ->
  exists h, parse_client_hello hello = Some h /\
            parse_client_stream name (hello ++ wire_of msgs) = Some (h, msgs).
Proof.
  intros name hello msgs Hwf Hm. unfold wf_client_hello in Hwf.
  destruct (parse_client_hello hello) as [h|] eqn:Eh; [|discriminate]. exists h. split; [reflexivity|].
  unfold parse_client_hello in Eh.
  destruct (parse_record hello) as [[r rest]|] eqn:Er; [|discriminate].
  destruct rest; [|discriminate].
  unfold parse_client_stream.
  assert (Er' : parse_record (hello ++ wire_of msgs) = Some (r, wire_of msgs)).
  { unfold parse_record in *.
    destruct hello as [|t [|v1 [|v0 [|l1 [|l0 tl]]]]]; try discriminate.
    destruct (g_take _ tl) as [[b r']|] eqn:E; [|discriminate]. inversion Er; subst.
    apply g_take_spec in E. destruct E as [E1 E2]. rewrite app_nil_r in E1. subst tl.
    cbn [app]. rewrite (g_take_app_n _ b) by (symmetry; exact E2). reflexivity. }
  rewrite (parse_records_step _ _ _ Er').
  rewrite wire_of_ok by exact Hm.
  destruct (appdata_records_wf msgs Hm) as [W1 W2].
  rewrite parse_records_concat by exact W1.
  rewrite Eh, Hwf, W2, map_body_mkrec. reflexivity.
Qed.
