(* Generated obligations: the atomic steps of the record-layer model (Model/Record.v, C05, C10),
   checked against what tools/lockscan extracts from internal/common and internal/multiplex on
   every run.  rec_write hands ONE slice to a SINGLE underlying Conn.Write, and concurrent
   writers never interleave inside a record / a WebSocket message: that needs the write lock of
   WebSocketConn around WriteMessage, and a pooled record buffer that nobody touches after it
   went back to the pool. *)
From Coq Require Import String List Bool Arith.
From Cloak Require Import Gen.Atomicity Proofs.AtomLib.
Import ListNotations.
Local Open Scope string_scope.

Lemma wire_scan_complete : atomicity_errors = [].
Proof. vm_compute. reflexivity. Qed.

(* gorilla/websocket allows one writer at a time: every WriteMessage is under writeM ... *)
Lemma WebSocketConn_Write_under_write_lock :
  one_step "common.WebSocketConn.Write" "WebSocketConn.writeM" [is_call "WebSocketConn.WriteMessage"] [] = true.
Proof. vm_compute. reflexivity. Qed.
(* ... and so is closing the connection *)
Lemma WebSocketConn_Close_under_write_lock :
  one_step "common.WebSocketConn.Close" "WebSocketConn.writeM" [is_call "WebSocketConn.Conn.Close"] [] = true.
Proof. vm_compute. reflexivity. Qed.

(* one record = one call of the underlying connection's Write (one call site) *)
Lemma TLSConn_Write_single_underlying_write :
  count (is_call "TLSConn.Conn.Write") (events_of "common.TLSConn.Write") = 1.
Proof. vm_compute. reflexivity. Qed.

(* if the record buffer comes from a pool, it is not mentioned again once it has been Put back
   (a rewrite that allocates the record per call has no Put and satisfies this) *)
Lemma TLSConn_Write_no_use_after_put : put_is_last_use "common.TLSConn.Write" = true.
Proof. vm_compute. reflexivity. Qed.

(* the same for every sync.Pool of the four packages (frame buffers, receive frames, PRNGs): no
   object is mentioned after its Put, and every call of a .Put(..) is a recognised sync.Pool.Put *)
Lemma no_pooled_object_used_after_put : no_use_after_put_anywhere = true.
Proof. vm_compute. reflexivity. Qed.
