(* C11: what deobfuscate authenticates.  (1) concrete counter-examples with the real ciphers:
   header bytes 12 (closing) and 13 (extra length) are outside the AEAD (nonce = header[:12]);
   (2) under an idealised AEAD (Section hypotheses) nothing else escapes; (3) a rejected
   message leaves the session state untouched. *)
From Coq Require Import NArith ZArith List Bool Lia Arith PeanoNat ZifyN ZifyNat ZifyBool.
From Cloak Require Import Gen.Consts Model.Crypto.CBytes Model.Crypto.Salsa20 Model.Crypto.AES
  Model.AEAD Model.Codec Proofs.AEAD Proofs.Crypto Proofs.Codec.
Import ListNotations.
Local Open Scope Z_scope.

(* ---- the property as stated, and its refutation ----------------------------------------- *)
(* "any change to its stream id, sequence number, closing flag, length fields, payload or tag
   causes it to be dropped": every single-bit modification of an honest message is rejected *)
Definition C11_full_statement : Prop :=
  forall (m : method) (key : list N) (f : frame) (padLen : N) (rnd msg : list N) (i : nat) (b : N),
    m <> Plain ->
    (f_sid f < 2 ^ 32)%N -> (f_seq f < 2 ^ 64)%N -> (f_closing f < 256)%N ->
    Z.of_N padLen <= mux_maxExtraLen - method_tag_len m ->
    encode m key f padLen rnd = Some msg ->
    (i < length msg)%nat -> (b < 8)%N ->
    forall f', decode m key (flip_bit msg i b) <> Ok f'.

Definition honest (m : method) : list N :=
  match encode m ex_key ex_frame 3%N (ex_rnd m) with Some x => x | None => [] end.

(* flipping bit 0 of byte 12 of an honest message: accepted, same stream and sequence number,
   same payload, closing flag changed from 1 to 0 - for each of the three AEAD methods *)
Lemma closing_flip_accepted : forall m, m <> Plain ->
  decode m ex_key (flip_bit (honest m) 12 0) = Ok (mkFrame (f_sid ex_frame) (f_seq ex_frame) 0 (f_payload ex_frame)).
Proof. intros [] H; try congruence; vm_compute; reflexivity. Qed.

(* flipping bits of byte 13 (extra length 19 = 3 padding + 16 tag): bit 0 -> 18: the payload
   grows by one padding byte; bit 2 -> 23: the payload shrinks to one byte; bit 4 -> 3:
   the payload is followed by the padding and 13 bytes of the tag *)
Lemma extralen_flip_accepted :
  decode ChaCha20Poly1305 ex_key (flip_bit (honest ChaCha20Poly1305) 13 0) =
    Ok (mkFrame (f_sid ex_frame) (f_seq ex_frame) 1 (f_payload ex_frame ++ [200%N])) /\
  decode ChaCha20Poly1305 ex_key (flip_bit (honest ChaCha20Poly1305) 13 2) =
    Ok (mkFrame (f_sid ex_frame) (f_seq ex_frame) 1 [104%N]) /\
  (exists p, decode AES128GCM ex_key (flip_bit (honest AES128GCM) 13 4) =
    Ok (mkFrame (f_sid ex_frame) (f_seq ex_frame) 1 p) /\ length p = 21%nat /\
    firstn 8 p = f_payload ex_frame ++ [200; 201; 202]%N).
Proof.
  split; [vm_compute; reflexivity|]. split; [vm_compute; reflexivity|].
  eexists. split; [vm_compute; reflexivity|]. split; reflexivity.
Qed.

(* every other header position, and the body, is protected in this instance: all other
   single-bit flips of the honest ChaCha20-Poly1305 message are rejected *)
Fixpoint count_accepted_flips (m : method) (msg : list N) (positions : list nat) : list (nat * N) :=
  match positions with
  | [] => []
  | i :: rest =>
      filter (fun ib => match decode m ex_key (flip_bit msg (fst ib) (snd ib)) with Ok _ => true | _ => false end)
             (map (fun b => (i, b)) [0;1;2;3;4;5;6;7]%N) ++ count_accepted_flips m msg rest
  end.
Lemma accepted_flips_of_instance :
  count_accepted_flips ChaCha20Poly1305 (honest ChaCha20Poly1305) (seq 0 38) =
  map (fun b => (12%nat, b)) [0;1;2;3;4;5;6;7]%N ++ map (fun b => (13%nat, b)) [0;1;2;4]%N.
Proof. vm_compute. reflexivity. Qed.

Theorem full_refuted : ~ C11_full_statement.
Proof.
  intros H.
  assert (E : encode ChaCha20Poly1305 ex_key ex_frame 3%N (ex_rnd ChaCha20Poly1305) = Some (honest ChaCha20Poly1305))
    by (vm_compute; reflexivity).
  eapply (H ChaCha20Poly1305 ex_key ex_frame 3%N _ _ 12%nat 0%N); try exact E.
  - discriminate.
  - vm_compute; reflexivity.
  - vm_compute; reflexivity.
  - vm_compute; reflexivity.
  - vm_compute; discriminate.
  - vm_compute; lia.
  - vm_compute; reflexivity.
  - apply closing_flip_accepted. discriminate.
Qed.

(* ---- what an accepted message looks like (inversion of deobfuscate, AEAD case) ---------- *)
Lemma zslice_some : forall lo hi l r, zslice lo hi l = Some r ->
  r = firstn (Z.to_nat (hi - lo)) (skipn (Z.to_nat lo) l) /\ 0 <= lo /\ lo <= hi /\ hi <= zlen l.
Proof.
  intros lo hi l r. unfold zslice.
  destruct (Z.leb_spec 0 lo); [|discriminate]. destruct (Z.leb_spec lo hi); [|discriminate].
  destruct (Z.leb_spec hi (zlen l)); [|discriminate]. cbn [andb].
  intros Heq. injection Heq as <-. repeat split; assumption.
Qed.

Lemma zindex_some : forall i l v, zindex i l = Some v -> nth_error l (Z.to_nat i) = Some v.
Proof.
  intros i l v. unfold zindex. destruct ((0 <=? i) && (i <? zlen l)); [trivial | discriminate].
Qed.

Lemma decode_with_aead_inv : forall a key msg f',
  decode_with (Some a) key msg = Ok f' ->
  let body := skipn 14 msg in
  let h := salsa20_xor key (skipn (length msg - 8) msg) (firstn 14 msg) in
  22 <= zlen msg /\
  exists pt k,
    a_open a (firstn (a_nonce_size a) h) body = Some pt /\
    (a_nonce_size a <= 14)%nat /\
    f_sid f' = be_num (firstn 4 h) /\ f_seq f' = be_num (firstn 8 (skipn 4 h)) /\
    nth_error h 12 = Some (f_closing f') /\
    f_payload f' = firstn k (pt ++ skipn (length pt) body).
Proof.
  intros a key msg f'. unfold decode_with.
  unfold mux_frameHeaderLength, mux_salsa20NonceSize.
  destruct (Z.ltb_spec (zlen msg) (14 + 8)) as [Hs|Hl]; [discriminate|].
  destruct (zslice 0 14 msg) as [header|] eqn:E1; [|discriminate].
  destruct (zslice 14 (zlen msg) msg) as [pld|] eqn:E2; [|discriminate].
  destruct (zslice (zlen msg - 8) (zlen msg) msg) as [nonce|] eqn:E3; [|discriminate].
  apply zslice_some in E1. destruct E1 as [E1 _].
  apply zslice_some in E2. destruct E2 as [E2 _].
  apply zslice_some in E3. destruct E3 as [E3 _].
  rewrite Z.sub_0_r in E1. change (Z.to_nat 14) with 14%nat in *. change (Z.to_nat 0) with 0%nat in E1.
  cbn [skipn] in E1.
  assert (Hpld : pld = skipn 14 msg).
  { rewrite E2. unfold zlen. replace (Z.to_nat (Z.of_nat (length msg) - 14)) with (length (skipn 14 msg)).
    - apply firstn_all.
    - rewrite skipn_length. lia. }
  assert (Hnonce : nonce = skipn (length msg - 8) msg).
  { rewrite E3. unfold zlen in *. replace (Z.to_nat (Z.of_nat (length msg) - 8)) with (length msg - 8)%nat by lia.
    replace (Z.to_nat (Z.of_nat (length msg) - (Z.of_nat (length msg) - 8))) with (length (skipn (length msg - 8) msg)).
    - apply firstn_all.
    - rewrite skipn_length. lia. }
  clear E2 E3. subst header pld nonce.
  set (h := salsa20_xor key (skipn (length msg - 8) msg) (firstn 14 msg)).
  destruct (zslice 0 4 h) as [sidb|] eqn:F1; [|discriminate].
  destruct (zslice 4 12 h) as [seqb|] eqn:F2; [|discriminate].
  destruct (zindex 12 h) as [closing|] eqn:F3; [|discriminate].
  destruct (zindex 13 h) as [extra|] eqn:F4; [|discriminate].
  destruct ((zlen (skipn 14 msg) - Z.of_N extra <? 0) || (zlen (skipn 14 msg) - Z.of_N extra >? zlen (skipn 14 msg)));
    [discriminate|].
  destruct (zslice 0 (Z.of_nat (a_nonce_size a)) h) as [n|] eqn:G1; [|discriminate].
  destruct (a_open a n (skipn 14 msg)) as [pt|] eqn:G2; [|discriminate].
  destruct (zslice 0 (zlen (skipn 14 msg) - Z.of_N extra) (pt ++ skipn (length pt) (skipn 14 msg))) as [p|] eqn:G3;
    [|discriminate].
  intros Hok. injection Hok as <-. cbn [f_sid f_seq f_closing f_payload].
  split; [lia|].
  apply zslice_some in F1. destruct F1 as [F1 _].
  apply zslice_some in F2. destruct F2 as [F2 _].
  apply zindex_some in F3.
  apply zslice_some in G1. destruct G1 as [G1 [_ [_ G1b]]].
  apply zslice_some in G3. destruct G3 as [G3 _].
  assert (Hh : length h = 14%nat).
  { unfold h. rewrite salsa20_xor_length, firstn_length. unfold zlen in Hl. lia. }
  exists pt. eexists. repeat split.
  - rewrite <- G2. f_equal. rewrite G1. rewrite Z.sub_0_r, Nat2Z.id. reflexivity.
  - unfold zlen in G1b. lia.
  - rewrite F1. reflexivity.
  - rewrite F2. reflexivity.
  - exact F3.
  - rewrite G3. cbn [Z.to_nat skipn]. reflexivity.
Qed.

(* ---- Salsa20 on the header is a bytewise xor with a key stream that depends only on the
        key and the nonce (both 14-byte inputs need exactly one block) ------------------- *)
Lemma firstn_xorl : forall k a b, firstn k (xorl a b) = xorl (firstn k a) (firstn k b).
Proof.
  induction k as [|k IH]; intros [|x a] [|y b]; cbn [firstn xorl]; try reflexivity.
  now rewrite IH.
Qed.

Lemma salsa20_xor_header : forall key nonce d, length d = 14%nat ->
  salsa20_xor key nonce d = xorl d (salsa20_block key nonce 0).
Proof.
  intros key nonce d Hd. unfold salsa20_xor, ctr_xor. rewrite Hd.
  change (blocks_for 64 14) with 1%nat. cbn [stream_blocks]. now rewrite app_nil_r.
Qed.

Lemma app_inj_length : forall (A : Type) (a a' b b' : list A),
  length b = length b' -> a ++ b = a' ++ b' -> a = a' /\ b = b'.
Proof.
  intros A a. induction a as [|x a IH]; intros [|x' a'] b b' Hl He; cbn [app] in *.
  - now split.
  - exfalso. subst b. cbn [length] in Hl. rewrite app_length in Hl. lia.
  - exfalso. subst b'. cbn [length] in Hl. rewrite app_length in Hl. lia.
  - injection He as -> He. destruct (IH a' b b' Hl He) as [-> ->]. now split.
Qed.

Lemma prefix_extract : forall (A R : list N) a n, length A = a ->
  firstn a (firstn (a + n) (A ++ R)) = A.
Proof.
  intros A R a n <-. rewrite firstn_firstn. replace (Nat.min (length A) (length A + n)) with (length A) by lia.
  rewrite firstn_app, Nat.sub_diag, firstn_all, firstn_O. apply app_nil_r.
Qed.

Lemma mid_extract : forall (A B C : list N) a b, length A = a -> length B = b ->
  skipn a (firstn (a + b) (A ++ B ++ C)) = B.
Proof.
  intros A B C a b <- <-. rewrite firstn_app.
  rewrite (firstn_all2 (n := length A + length B)) by lia.
  replace (length A + length B - length A)%nat with (length B) by lia.
  rewrite firstn_app, Nat.sub_diag, firstn_all, firstn_O, app_nil_r.
  rewrite skipn_app, skipn_all, Nat.sub_diag. reflexivity.
Qed.

(* ---- under an ideal AEAD exactly header bytes 12-13 escape authentication ---------------- *)
Section IdealAEAD.
  Variable a : aead.
  Hypothesis a_ok : aead_ok a.
  Hypothesis a_nonce12 : a_nonce_size a = 12%nat.
  (* whatever opens under a nonce is literally the output of Seal under that nonce ... *)
  Hypothesis ideal_aead : forall n c p, length n = 12%nat -> a_open a n c = Some p -> c = a_seal a n p.
  (* ... and Seal outputs determine nonce and plaintext *)
  Hypothesis ideal_binding : forall n n' p p', length n = 12%nat -> length n' = 12%nat ->
    a_seal a n p = a_seal a n' p' -> n = n' /\ p = p'.

  (* every accepted message carries a body sealed under the nonce that spells the decoded
     stream id and sequence number *)
  Theorem accepted_is_sealed : forall key msg f',
    decode_with (Some a) key msg = Ok f' ->
    exists n pt, length n = 12%nat /\ skipn 14 msg = a_seal a n pt /\
      f_sid f' = be_num (firstn 4 n) /\ f_seq f' = be_num (skipn 4 n).
  Proof.
    clear ideal_binding.
    intros key msg f' Hd. apply decode_with_aead_inv in Hd.
    destruct Hd as [Hl [pt [k [Hopen [_ [Hsid [Hseq _]]]]]]].
    set (h := salsa20_xor key (skipn (length msg - 8) msg) (firstn 14 msg)) in *.
    assert (Hh : length h = 14%nat).
    { unfold h. rewrite salsa20_xor_length, firstn_length. unfold zlen in Hl. lia. }
    rewrite a_nonce12 in Hopen.
    exists (firstn 12 h), pt. split; [rewrite firstn_length; lia|]. split.
    - apply ideal_aead; [rewrite firstn_length; lia | exact Hopen].
    - split.
      + rewrite Hsid. f_equal. rewrite firstn_firstn. reflexivity.
      + rewrite Hseq. f_equal.
        apply (firstn_skipn_comm 8 4 h).
  Qed.

  (* an honest message whose header bytes were tampered with (body untouched): if it is still
     accepted, then stream id and sequence number are the honest ones, the first 12 message
     bytes are unchanged, and the payload is a prefix of payload ++ padding ++ tag *)
  Theorem header_tamper : forall key f padLen rnd msg msg' f',
    (f_sid f < 2 ^ 32)%N -> (f_seq f < 2 ^ 64)%N ->
    encode_with (Some a) key f padLen rnd = Some msg ->
    length msg' = length msg -> skipn 14 msg' = skipn 14 msg ->
    decode_with (Some a) key msg' = Ok f' ->
    f_sid f' = f_sid f /\ f_seq f' = f_seq f /\ firstn 12 msg' = firstn 12 msg /\
    exists k, f_payload f' =
      firstn k (f_payload f ++ firstn (N.to_nat padLen) rnd ++
                skipn (length (f_payload f) + N.to_nat padLen) (skipn 14 msg)).
  Proof.
    intros key f padLen rnd msg msg' f' Hsid Hseq Henc Hlen Hbody Hdec.
    destruct (encode_with_some_inv _ _ _ _ _ _ Henc) as [Hne Hrnd].
    rewrite encode_with_layout in Henc by assumption. injection Henc as Hmsg.
    unfold v2_message in Hmsg. cbn [tag_len_of v2_body] in Hmsg.
    set (pad := firstn (N.to_nat padLen) rnd) in *.
    set (header := header_bytes (f_sid f) (f_seq f) (f_closing f) (zlen pad + Z.of_nat (a_overhead a))) in *.
    set (body := a_seal a (firstn (a_nonce_size a) header) (f_payload f ++ pad)) in *.
    assert (Hhl : length header = 14%nat) by apply header_bytes_length.
    assert (HH : length (salsa20_xor key (last8 body) header) = 14%nat) by now rewrite salsa20_xor_length.
    assert (Hb : skipn 14 msg = body).
    { rewrite <- Hmsg. rewrite skipn_app, HH, Nat.sub_diag. rewrite skipn_all2 by lia. reflexivity. }
    destruct a_ok as [Hopen [Hslen [_ Hov]]]. unfold mux_salsa20NonceSize in Hov.
    assert (Hbl : (8 <= length body)%nat).
    { unfold body. rewrite Hslen. lia. }
    assert (Hml : length msg = (14 + length body)%nat).
    { rewrite <- Hmsg, app_length, HH. reflexivity. }
    (* both messages end in the same 8 bytes: same Salsa20 nonce *)
    assert (Hn : skipn (length msg' - 8) msg' = last8 body).
    { rewrite <- (firstn_skipn 14 msg'), Hbody, Hb.
      rewrite app_length, firstn_length, skipn_app, firstn_length.
      rewrite Hlen, Hml. replace (Nat.min 14 (14 + length body)) with 14%nat by lia.
      rewrite skipn_all2 by (rewrite firstn_length; lia). cbn [app]. unfold last8. f_equal; lia. }
    apply decode_with_aead_inv in Hdec.
    destruct Hdec as [_ [pt [k [Hop [_ [Hs [Hq [_ Hp]]]]]]]].
    rewrite Hn, Hbody, Hb, a_nonce12 in *.
    set (h := salsa20_xor key (last8 body) (firstn 14 msg')) in *.
    assert (Hh : length h = 14%nat).
    { unfold h. rewrite salsa20_xor_length, firstn_length. lia. }
    apply ideal_aead in Hop; [|rewrite firstn_length; lia].
    unfold body in Hop at 1.
    apply ideal_binding in Hop; try (rewrite firstn_length; lia).
    destruct Hop as [Hnn Hpt]. subst pt. rewrite a_nonce12 in Hnn.
    (* the first 12 bytes of the decrypted header are those of the honest header *)
    assert (Hsid' : firstn 4 h = be_bytes 4 (f_sid f)).
    { replace (firstn 4 h) with (firstn 4 (firstn 12 h)) by (rewrite firstn_firstn; reflexivity).
      rewrite <- Hnn. unfold header, header_bytes.
      apply (prefix_extract _ _ 4%nat 8%nat). apply be_bytes_length. }
    assert (Hseq' : firstn 8 (skipn 4 h) = be_bytes 8 (f_seq f)).
    { assert (E : firstn 8 (skipn 4 h) = skipn 4 (firstn 12 h)) by apply (firstn_skipn_comm 8 4 h).
      rewrite E, <- Hnn. unfold header, header_bytes.
      apply (mid_extract _ _ _ 4%nat 8%nat); apply be_bytes_length. }
    split; [rewrite Hs, Hsid'; now apply be_num_be_bytes|].
    split; [rewrite Hq, Hseq'; now apply be_num_be_bytes|].
    split.
    - (* firstn 12 msg' = firstn 12 msg: undo the bytewise xor *)
      assert (Hx : firstn 14 msg' = salsa20_xor key (last8 body) h).
      { unfold h. now rewrite salsa20_xor_involutive. }
      replace (firstn 12 msg') with (firstn 12 (firstn 14 msg')) by (rewrite firstn_firstn; reflexivity).
      replace (firstn 12 msg) with (firstn 12 (salsa20_xor key (last8 body) header))
        by (rewrite <- Hmsg, firstn_app, HH; cbn [Nat.sub firstn]; now rewrite app_nil_r).
      rewrite Hx, !salsa20_xor_header by assumption.
      rewrite !firstn_xorl. now rewrite Hnn.
    - exists k. rewrite Hp. f_equal. rewrite <- app_assoc. do 2 f_equal.
      rewrite app_length. unfold pad. f_equal.
      rewrite firstn_length. unfold zlen in Hrnd. cbn [tag_len_of] in Hrnd. lia.
  Qed.
End IdealAEAD.

(* the hypotheses of the section are satisfiable: the toy scheme of Model/Codec.v *)
Lemma toy_tag_length : forall n, length (firstn 12 (n ++ zeros 12) ++ zeros 4) = 16%nat.
Proof. intros. rewrite app_length, force_length, zeros_length. reflexivity. Qed.

Lemma toy_open_inv : forall n c p, a_open toy_aead n c = Some p ->
  c = p ++ firstn 12 (n ++ zeros 12) ++ zeros 4.
Proof.
  intros n c p. cbn [a_open toy_aead].
  destruct (Nat.ltb_spec (length c) 16); [discriminate|].
  destruct (bytes_eqb _ _) eqn:E; [|discriminate].
  intros Hs. injection Hs as <-. apply bytes_eqb_eq in E. rewrite <- E. now rewrite firstn_skipn.
Qed.

Example ideal_section_inhabited :
  aead_ok toy_aead /\ a_nonce_size toy_aead = 12%nat /\
  (forall n c p, length n = 12%nat -> a_open toy_aead n c = Some p -> c = a_seal toy_aead n p) /\
  (forall n n' p p', length n = 12%nat -> length n' = 12%nat ->
     a_seal toy_aead n p = a_seal toy_aead n' p' -> n = n' /\ p = p').
Proof.
  split; [|split; [reflexivity|split]].
  - split; [|split; [|split]].
    + intros n p. cbn [a_open a_seal toy_aead].
      rewrite app_length, toy_tag_length.
      destruct (Nat.ltb_spec (length p + 16) 16); [lia|].
      replace (length p + 16 - 16)%nat with (length p) by lia.
      rewrite skipn_app, Nat.sub_diag, skipn_all. cbn [skipn app]. rewrite bytes_eqb_refl.
      rewrite firstn_app, Nat.sub_diag, firstn_all, firstn_O, app_nil_r. reflexivity.
    + intros n p. cbn [a_seal a_overhead toy_aead]. now rewrite app_length, toy_tag_length.
    + vm_compute. discriminate.
    + vm_compute. discriminate.
  - intros n c p _ H. now apply toy_open_inv.
  - intros n n' p p' Hn Hn' H. cbn [a_seal toy_aead] in H.
    apply app_inj_length in H; [|now rewrite !toy_tag_length].
    destruct H as [-> H]. split; [|reflexivity].
    apply app_inj_length in H; [|reflexivity]. destruct H as [H _].
    rewrite !firstn_app, Hn, Hn', Nat.sub_diag, !firstn_O, !app_nil_r in H.
    rewrite <- Hn in H at 1. rewrite <- Hn' in H. now rewrite !firstn_all in H.
Qed.

(* ---- dropped messages have no effect ------------------------------------------------------ *)
Lemma recv_rejected : forall (S O : Type) (handle : S -> frame -> S * O) c key st data,
  match c with Some a => Z.of_nat (a_nonce_size a) <= mux_frameHeaderLength | None => True end ->
  accepted c key data = false ->
  exists e, recv_data_from_remote handle c key st data = (st, RecvErr e).
Proof.
  intros S O handle c key st data Hns Hacc. unfold recv_data_from_remote, accepted in *.
  pose proof (decode_with_no_panic c key data Hns) as Hnp.
  destruct (decode_with c key data) as [f|e|]; [discriminate | now exists e | congruence].
Qed.

(* feeding a list of received messages: the rejected ones can be deleted from the list without
   changing the resulting session state; and the loop never crashes in the decoder *)
Theorem drop_no_effect : forall (S O : Type) (handle : S -> frame -> S * O) c key datas st,
  match c with Some a => Z.of_nat (a_nonce_size a) <= mux_frameHeaderLength | None => True end ->
  recv_all handle c key st datas = recv_all handle c key st (filter (accepted c key) datas) /\
  recv_all handle c key st datas <> None.
Proof.
  intros S O handle c key datas. induction datas as [|d rest IH]; intros st Hns.
  - split; [reflexivity | discriminate].
  - cbn [filter]. destruct (accepted c key d) eqn:Ha.
    + cbn [recv_all]. unfold recv_data_from_remote. unfold accepted in Ha.
      destruct (decode_with c key d) as [f| |]; try discriminate.
      destruct (handle st f) as [st' o]. apply IH, Hns.
    + cbn [recv_all]. destruct (recv_rejected S O handle c key st d Hns Ha) as [e ->]. apply IH, Hns.
Qed.

Theorem drop_no_effect_methods : forall (S O : Type) (handle : S -> frame -> S * O) m key datas st,
  recv_all handle (payload_cipher m key) key st datas =
    recv_all handle (payload_cipher m key) key st (filter (accepted (payload_cipher m key) key) datas) /\
  recv_all handle (payload_cipher m key) key st datas <> None.
Proof.
  intros. apply drop_no_effect.
  pose proof (payload_cipher_ok m key) as H. destruct (payload_cipher m key); [apply H | exact I].
Qed.
