(* Payload accounting: only Stream.Write puts payload-carrying frames on the wire; the frames of
   one Write carry exactly the bytes it reports as accepted. *)
From Coq Require Import NArith ZArith List Bool Lia.
From Coq Require Import ZifyN ZifyBool.
From Cloak Require Import Model.Reorder Model.Mux Proofs.MuxBase Proofs.MuxSafety Proofs.MuxView Proofs.MuxWire Proofs.MuxEffect.
Import ListNotations.
Local Open Scope N_scope.

Definition nopay_ev (e : ev) : Prop := match e with EFrame _ _ fr => w_pay fr = [] | _ => True end.
Definition nopay (evs : list ev) : Prop := Forall nopay_ev evs.
Lemma nopay_app a b : nopay a -> nopay b -> nopay (a ++ b).
Proof. intros; apply Forall_app; auto. Qed.

Lemma close_ends_nopay x pool : forall cs, nopay (snd (close_ends x pool cs)).
Proof.
  induction pool as [|c t IH]; intros cs; cbn; [constructor|].
  destruct (nthN _ cs) as [cn|]; [|apply IH]. destruct (conn_closed_end cn x); [apply IH|].
  specialize (IH (setN (N.to_nat c) (conn_close_end cn x) cs)).
  destruct (close_ends x t _) as [cs' evs]. cbn in *. constructor; [exact I|exact IH].
Qed.
Lemma close_all_nopay y x : nopay (snd (close_all y x)).
Proof. unfold close_all. destruct (se_broken _); [constructor|].
  pose proof (close_ends_nopay x (se_pool (sess y x)) (sy_conns y)) as H.
  destruct (close_ends _ _ _) as [cs evs]. exact H. Qed.
Lemma passive_close_nopay y x : nopay (snd (passive_close y x)).
Proof. unfold passive_close. destruct (close_session_core _) as [se ok]. destruct ok; [apply close_all_nopay|constructor]. Qed.
Lemma sb_send_nopay y x fr p : w_pay fr = [] -> nopay (snd (fst (sb_send y x fr p))).
Proof.
  intros Hp. unfold sb_send. destruct (se_broken _); [constructor|]. destruct (se_pool _); [constructor|].
  destruct (nthN _ _) as [cn|]; [|constructor]. destruct (_ || _).
  - pose proof (passive_close_nopay y x) as H. destruct (passive_close y x) as [y1 e1]. exact H.
  - repeat constructor. exact Hp.
Qed.
Lemma stream_emit_nopay y x sid ch : nopay (snd (fst (stream_emit y x sid [] ch))).
Proof.
  unfold stream_emit. destruct (lookup _ _) as [st|]; [|constructor]. cbv zeta.
  destruct (hd_pick ch) as [c ch0].
  pose proof (sb_send_nopay (set_sess y x (upd_objs (sess y x) (update sid (mkS (st_seq st + 1) (st_wcl st) (st_closed st) (st_rb st)) (se_objs (sess y x))))) x (mkW sid (st_seq st) (st_wcl st) []) c eq_refl) as H.
  destruct (sb_send _ _ _ c) as [[y2 e2] rc]. cbn in H.
  destruct (rc =? 0); [exact H|]. destruct (rc =? 1); [|exact H].
  pose proof (passive_close_nopay y2 x) as H2. destruct (passive_close y2 x) as [y3 e3]. cbn in *. apply nopay_app; assumption.
Qed.
Lemma session_close_nopay y x ch : nopay (snd (fst (session_close y x ch))).
Proof.
  unfold session_close. destruct (close_session_core _) as [se ok]. destruct ok; cbn [negb]; [|constructor].
  destruct (hd_pick ch) as [c ch0].
  pose proof (sb_send_nopay (set_sess y x se) x (mkW 4294967295 0 2 []) c eq_refl) as H.
  destruct (sb_send _ _ _ c) as [[y2 e2] rc]. cbn in H.
  pose proof (close_all_nopay y2 x) as H2. destruct (close_all y2 x) as [y3 e3]. cbn in H2.
  destruct (rc =? 0); [|destruct (rc =? 1)]; cbn; apply nopay_app; assumption.
Qed.
Lemma close_stream_nopay y x sid active ch : nopay (snd (fst (close_stream y x sid active ch))).
Proof.
  unfold close_stream. destruct (lookup _ _) as [st|]; [|constructor]. destruct (st_closed st); [constructor|]. cbv zeta.
  set (y1 := set_sess y x _).
  assert (H2 : nopay (snd (fst (if active then stream_emit y1 x sid [] ch else (y1, ch, [], true))))).
  { destruct active; [apply stream_emit_nopay|constructor]. }
  destruct (if active then stream_emit y1 x sid [] ch else (y1, ch, [], true)) as [[[y2 ch2] evs2] ok]. cbn in H2.
  destruct ok; cbn [negb]; [|exact H2].
  destruct (_ =? 0); [|exact H2].
  destruct (se_singleplex _); [|exact H2].
  pose proof (session_close_nopay (set_sess y2 x (upd_count (upd_tab (sess y2 x) (update sid false (se_tab (sess y2 x)))) (decr32 (se_count (sess y2 x))))) x ch2) as H3.
  destruct (session_close _ x ch2) as [[[y4 ch4] evs4] rc4]. cbn in *. apply nopay_app; assumption.
Qed.
Lemma recv_frame_nopay y x fr ch : nopay (snd (recv_frame y x fr ch)).
Proof.
  unfold recv_frame. destruct (w_cl fr =? 2).
  { pose proof (passive_close_nopay y x) as H. destruct (passive_close y x) as [y1 e1]. exact H. }
  destruct (se_closed _); [constructor|].
  assert (Hd : forall y0, nopay (snd (match lookup (w_sid fr) (se_objs (sess y0 x)) with
               | None => (y0, ch, [])
               | Some st =>
                   let '(rb', tbc, _) := rb_write (st_rb st) (mkF (w_seq fr) (negb (w_cl fr =? 0)) (w_pay fr)) in
                   let y1 := set_sess y0 x (upd_objs (sess y0 x) (update (w_sid fr) (st_set_rb st rb') (se_objs (sess y0 x)))) in
                   if tbc then let '(y2, ch2, evs2, _) := close_stream y1 x (w_sid fr) false ch in (y2, ch2, evs2)
                   else (y1, ch, [])
               end))).
  { intros y0. destruct (lookup _ _) as [st|]; [|constructor].
    destruct (rb_write _ _) as [[rb' tbc] er]. cbv zeta. destruct tbc; [|constructor].
    pose proof (close_stream_nopay (set_sess y0 x (upd_objs (sess y0 x) (update (w_sid fr) (st_set_rb st rb') (se_objs (sess y0 x))))) x (w_sid fr) false ch) as H.
    destruct (close_stream _ x (w_sid fr) false ch) as [[[y2 ch2] evs2] rc]. exact H. }
  destruct (lookup (w_sid fr) (se_tab (sess y x))) as [[|]|]; [apply Hd|constructor|apply Hd].
Qed.
Lemma deplex_error_nopay y x c : nopay (snd (deplex_error y x c)).
Proof.
  unfold deplex_error. pose proof (passive_close_nopay y x) as H. destruct (passive_close y x) as [y1 e1]. cbn in H.
  destruct (nthN _ _) as [cn|]; [|exact H]. destruct (conn_closed_end cn x); [exact H|].
  apply nopay_app; [exact H|repeat constructor].
Qed.
Lemma fire_timers_nopay fuel : forall y x ch, nopay (snd (fire_timers fuel y x ch)).
Proof.
  induction fuel as [|fuel IH]; intros; cbn; [constructor|].
  destruct (se_timers _) as [|t rest]; [constructor|]. destruct (t <=? sy_now y)%Z; [|constructor].
  destruct (_ && _); [|apply IH].
  pose proof (session_close_nopay (set_sess y x (upd_timers (sess y x) rest)) x ch) as H1.
  destruct (session_close _ x ch) as [[[y2 ch2] evs2] rc2]. cbn in H1.
  specialize (IH y2 x ch2). destruct (fire_timers fuel y2 x ch2) as [[y3 ch3] evs3]. cbn in *. apply nopay_app; assumption.
Qed.
Lemma resolve_nopay ps : forall y, nopay (snd (resolve ps y)).
Proof.
  induction ps as [|p t IH]; intros y; cbn; [constructor|]. destruct p as [x sid k|x].
  - destruct (try_read y x sid k) as [[[y1 rc] d]|].
    + specialize (IH y1). destruct (resolve t y1) as [[y2 ps2] e2]. cbn in *. constructor; [exact I|exact IH].
    + specialize (IH y). destruct (resolve t y) as [[y2 ps2] e2]. exact IH.
  - destruct (try_accept y x) as [[[y1 rc] id]|].
    + specialize (IH y1). destruct (resolve t y1) as [[y2 ps2] e2]. cbn in *. constructor; [exact I|exact IH].
    + specialize (IH y). destruct (resolve t y) as [[y2 ps2] e2]. exact IH.
Qed.

Section Pay.
Variable s : side.
Variable sid : N.
Notation ev_frames := (ev_frames s sid).

Lemma nopay_frames evs : nopay evs -> flat_map w_pay (ev_frames evs) = [].
Proof.
  induction 1 as [|e t He Ht IH]; [reflexivity|].
  unfold MuxView.ev_frames in *. cbn [flat_map]. rewrite flat_map_app, IH, app_nil_r.
  destruct e as [x c fr| | |]; try reflexivity. destruct (_ && _); [|reflexivity]. cbn. now rewrite He.
Qed.

(* count reported by the call of the label (the first ERet) *)
Definition ret_n (evs : list ev) : N :=
  fold_right (fun e acc => match e with ERet _ n _ => n | _ => acc end) 0 evs.
Lemma ret_n_wire evs rc n d t : wire_only evs -> ret_n (evs ++ ERet rc n d :: t) = n.
Proof. induction 1 as [|e l He Hl IH]; [reflexivity|]. cbn. destruct e; try contradiction; exact IH. Qed.

Lemma firstn_add {A} (l : list A) a b : firstn (a + b) l = firstn a l ++ firstn b (skipn a l).
Proof. revert l; induction a as [|a IH]; intros l; [reflexivity|]. destruct l; cbn; [now rewrite firstn_nil|]. now rewrite IH. Qed.

Lemma write_loop_n_mono fuel : forall y x sid' data n ch y' ch' evs n' rc,
  write_loop fuel y x sid' data n ch = (y', ch', evs, n', rc) -> n <= n'.
Proof.
  induction fuel as [|fuel IH]; intros y x sid' data n ch y' ch' evs n' rc H; cbn in H.
  - injection H as <- <- <- <- <-. lia.
  - destruct data as [|b data']; [injection H as <- <- <- <- <-; lia|].
    destruct (stream_emit _ _ _ _ _) as [[[y1 ch1] evs1] ok].
    destruct ok; [|injection H as <- <- <- <- <-; lia].
    destruct (write_loop fuel y1 x sid' _ _ ch1) as [[[[y2 ch2] evs2] n2] rc2] eqn:Ew. injection H as <- <- <- <- <-.
    apply IH in Ew. lia.
Qed.

Lemma firstn_chunks {A} (data : list A) : forall u m,
  firstn u data ++ firstn m (skipn u data) = firstn (length (firstn u data) + m) data.
Proof.
  induction data as [|x t IH]; intros u m.
  - now rewrite firstn_nil, skipn_nil, !firstn_nil.
  - destruct u as [|u]; [reflexivity|]. cbn. now rewrite IH.
Qed.

Lemma write_loop_payload_self fuel : forall y data n ch y' ch' evs n' rc q,
  write_loop fuel y s sid data n ch = (y', ch', evs, n', rc) -> WF y ->
  MuxView.sview s sid y = Some (q, 0, false) ->
  flat_map w_pay (ev_frames evs) = firstn (N.to_nat (n' - n)) data.
Proof.
  induction fuel as [|fuel IH]; intros y data n ch y' ch' evs n' rc q H Hwf Hsv; cbn in H.
  - injection H as <- <- <- <- <-. now rewrite N.sub_diag.
  - destruct data as [|b data']; [injection H as <- <- <- <- <-; now rewrite firstn_nil|].
    set (data := b :: data') in *. set (u := N.to_nat (se_unit (sess y s))) in *.
    destruct (stream_emit y s sid (firstn u data) ch) as [[[y1 ch1] evs1] ok] eqn:Ee.
    rewrite (sview_def s sid) in Hsv. destruct (lookup sid (se_objs (sess y s))) as [st|] eqn:El; [|discriminate].
    cbn in Hsv. unfold sv in Hsv. injection Hsv as Hq Hw Hc.
    assert (Hw2 : st_wcl st <> 2) by lia.
    pose proof (stream_emit_WF _ _ _ _ _ _ _ _ _ Ee Hwf) as Hwf1.
    destruct (stream_emit_self s sid _ _ _ _ _ _ _ _ El Ee Hwf Hw2) as [(-> & Hf & Hp & Hs1 & Hr1)|(-> & Hf & Hp & Hs1 & Hr1)].
    + destruct (write_loop fuel y1 s sid _ _ ch1) as [[[[y2 ch2] evs2] n2] rc2] eqn:Ew. injection H as <- <- <- <- <-.
      rewrite Hw, Hc in Hs1.
      pose proof (write_loop_n_mono _ _ _ _ _ _ _ _ _ _ _ _ Ew) as Hmono.
      rewrite (ev_frames_app s sid), flat_map_app, Hf, (IH _ _ _ _ _ _ _ _ _ _ Ew Hwf1 Hs1). cbn [flat_map w_pay]. rewrite app_nil_r.
      rewrite firstn_chunks. f_equal. lia.
    + injection H as <- <- <- <- <-. rewrite Hf, N.sub_diag. reflexivity.
Qed.

Definition step_written (l : label) (evs : list ev) : list N :=
  match l with
  | LWrite x sid' data => if side_eqb x s && (sid' =? sid) then firstn (N.to_nat (ret_n evs)) data else []
  | _ => []
  end.

Lemma nopay_one e : nopay_ev e -> nopay [e].
Proof. intros H. constructor; [exact H|constructor]. Qed.

Lemma step_core_nopay y l ch :
  (forall x sid' data, l <> LWrite x sid' data) -> nopay (snd (step_core y l ch)).
Proof.
  intros Hnw. destruct l as [x|x sid' data|x sid' k|x|x sid'|x|x c|c|d|c|x c].
  - rewrite step_core_open. unfold open_stream. destruct (se_closed _); [apply nopay_one; exact I|].
    cbv zeta. destruct (_ && _); apply nopay_one; exact I.
  - exfalso. eapply Hnw; reflexivity.
  - rewrite step_core_read. destruct (has_pending_read _ _ _); [apply nopay_one; exact I|].
    destruct (try_read _ _ _ _) as [[[y1 rc] dd]|]; apply nopay_one; exact I.
  - rewrite step_core_accept. destruct (se_closed _); [apply nopay_one; exact I|].
    destruct (try_accept _ _) as [[[y1 rc] id]|]; [apply nopay_one; exact I|].
    destruct (has_pending_accept _ _); apply nopay_one; exact I.
  - rewrite step_core_close_stream. pose proof (close_stream_nopay y x sid' true ch) as H.
    destruct (close_stream _ _ _ _ _) as [[[y1 ch1] e1] rc]. cbn in *. apply nopay_app; [exact H|apply nopay_one; exact I].
  - rewrite step_core_close_session. pose proof (session_close_nopay y x ch) as H.
    destruct (session_close _ _ _) as [[[y1 ch1] e1] rc]. cbn in *. apply nopay_app; [exact H|apply nopay_one; exact I].
  - rewrite step_core_deliver. destruct (nthN _ _) as [cn|]; [|apply nopay_one; exact I].
    destruct (_ || _); [apply nopay_one; exact I|]. destruct (conn_q cn x) as [|fr q].
    + destruct (conn_closed_end cn (other x)); [|apply nopay_one; exact I].
      pose proof (deplex_error_nopay y x c) as H. destruct (deplex_error y x c) as [y1 e1]. cbn in *.
      apply nopay_app; [exact H|apply nopay_one; exact I].
    + pose proof (recv_frame_nopay (set_conns y (setN (N.to_nat c) (conn_set_q cn x q) (sy_conns y))) x fr ch) as H.
      destruct (recv_frame _ x fr ch) as [[y2 ch2] e2]. cbn in *. apply nopay_app; [exact H|apply nopay_one; exact I].
  - rewrite step_core_fail. destruct (nthN _ _) as [cn|]; [|apply nopay_one; exact I]. cbv zeta.
    set (y0 := set_conns y _).
    assert (Ha : nopay (snd (if conn_closed_end cn SA || c_failed cn then (y0, []) else deplex_error y0 SA c))).
    { destruct (_ || _); [constructor|apply deplex_error_nopay]. }
    destruct (if conn_closed_end cn SA || c_failed cn then (y0, []) else deplex_error y0 SA c) as [ya ea].
    assert (Hb : nopay (snd (if conn_closed_end cn SB || c_failed cn then (ya, []) else deplex_error ya SB c))).
    { destruct (_ || _); [constructor|apply deplex_error_nopay]. }
    destruct (if conn_closed_end cn SB || c_failed cn then (ya, []) else deplex_error ya SB c) as [yb eb]. cbn in *.
    apply nopay_app; [exact Ha|apply nopay_app; [exact Hb|apply nopay_one; exact I]].
  - rewrite step_core_tick.
    pose proof (fire_timers_nopay 64 (set_now y (sy_now y + d)%Z) SA ch) as Ha.
    destruct (fire_timers 64 _ SA ch) as [[ya cha] ea]. cbn in Ha.
    pose proof (fire_timers_nopay 64 ya SB cha) as Hb.
    destruct (fire_timers 64 ya SB cha) as [[yb chb] eb]. cbn in *.
    apply nopay_app; [exact Ha|apply nopay_app; [exact Hb|apply nopay_one; exact I]].
  - rewrite step_core_break. destruct (nthN _ _) as [cn|]; apply nopay_one; exact I.
  - rewrite step_core_notice. destruct (nthN _ _) as [cn|]; [|apply nopay_one; exact I].
    destruct (_ && _); [|apply nopay_one; exact I].
    pose proof (deplex_error_nopay y x c) as H. destruct (deplex_error y x c) as [y1 e1]. cbn in *.
    apply nopay_app; [exact H|apply nopay_one; exact I].
Qed.

(* one label: the payload put on the wire for this direction is what the Write reports as accepted *)
Lemma step_payload y l ch y' evs :
  step y l ch = (y', evs) -> WF y ->
  (forall q w, MuxView.sview s sid y = Some (q, w, false) -> w = 0) ->
  flat_map w_pay (ev_frames evs) = step_written l evs.
Proof.
  unfold step. intros H Hwf Hw0.
  destruct (step_core y l ch) as [yc ec] eqn:Ec.
  pose proof (resolve_nopay (sy_pend yc) yc) as Hnr.
  destruct (resolve (sy_pend yc) yc) as [[yr ps] er]. cbn in Hnr. injection H as <- <-.
  rewrite (ev_frames_app s sid), flat_map_app, (nopay_frames er Hnr), app_nil_r.
  assert (Hcases : (exists x sid' data, l = LWrite x sid' data) \/ (forall x sid' data, l <> LWrite x sid' data)).
  { destruct l; try (right; intros ? ? ? Hx; discriminate Hx). left. eauto. }
  destruct Hcases as [(x & sid' & data & ->)|Hnw].
  2:{ pose proof (step_core_nopay y l ch Hnw) as Hn. rewrite Ec in Hn. cbn [snd] in Hn.
      rewrite (nopay_frames ec Hn). destruct l; try reflexivity. exfalso. eapply Hnw; reflexivity. }
  rewrite step_core_write in Ec. unfold stream_write in Ec. cbn [step_written].
  destruct (lookup sid' (se_objs (sess y x))) as [st|] eqn:El.
  2:{ injection Ec as <- <-. cbn. destruct (_ && _); reflexivity. }
  destruct (st_closed st) eqn:Ecl.
  { injection Ec as <- <-. cbn. destruct (_ && _); reflexivity. }
  pose proof (write_loop_wire (S (length data)) y x sid' data 0 ch) as Hwire.
  destruct (write_loop _ y x sid' data 0 ch) as [[[[y1 ch1] evs1] n1] rc1] eqn:Ew. cbn in Hwire. injection Ec as <- <-.
  rewrite <- app_assoc. cbn [app]. rewrite (ret_n_wire _ _ _ _ _ Hwire).
  rewrite (ev_frames_app s sid), flat_map_app. cbn [MuxView.ev_frames flat_map app]. rewrite app_nil_r.
  destruct (side_eqb x s && (sid' =? sid)) eqn:Es.
  - apply andb_prop in Es as [E1 E2]. apply side_eqb_eq in E1. subst x. assert (sid' = sid) by lia. subst sid'.
    assert (Hsv : MuxView.sview s sid y = Some (st_seq st, 0, false)).
    { rewrite (sview_def s sid), El. cbn. unfold sv. rewrite Ecl.
      assert (Hsv0 : MuxView.sview s sid y = Some (st_seq st, st_wcl st, false)) by (rewrite (sview_def s sid), El; cbn; unfold sv; now rewrite Ecl).
      now rewrite (Hw0 _ _ Hsv0). }
    rewrite (write_loop_payload_self _ _ _ _ _ _ _ _ _ _ _ Ew Hwf Hsv). now rewrite N.sub_0_r.
  - destruct (write_loop_other s sid _ _ _ _ _ _ _ _ _ _ _ _ Ew Es) as [_ Hf]. now rewrite Hf.
Qed.

(* a whole run *)
Fixpoint run_written (ls : list (label * list N)) (os : list (list ev)) : list N :=
  match ls, os with
  | (l, _) :: lt, evs :: ot => step_written l evs ++ run_written lt ot
  | _, _ => []
  end.
End Pay.
