(* Proofs about Model/SessionLimit.v: whatever on-wire limit a Session is configured with,
   every message it sends (Stream.Write, Stream.ReadFrom, the closing notices) is at most that
   many bytes; for every limit that leaves room for a payload byte a Write is accepted whole,
   split into frames of at most maxStreamUnitWrite bytes that decode to exactly what was
   written, numbered consecutively; and what the code does for limits that leave no room. *)
From Coq Require Import NArith ZArith List Bool Lia Arith PeanoNat ZifyN ZifyNat ZifyBool.
From Cloak Require Import Gen.Consts Model.Crypto.CBytes Model.Crypto.Salsa20 Model.Crypto.AES
  Model.Codec Model.SessionLimit Proofs.Codec.
Import ListNotations.
Local Open Scope Z_scope.

(* ---- MakeSession -------------------------------------------------------------------------- *)
Lemma make_session_fields : forall L,
  ss_limit (make_session L) = limit_in_force L /\
  ss_sendbuf (make_session L) = limit_in_force L /\
  ss_unit (make_session L) = limit_in_force L - mux_frameHeaderLength - mux_maxExtraLen /\
  ss_recvbuf (make_session L) = mux_connReceiveBufferSize.
Proof. intros L. unfold make_session, limit_in_force, max_stream_unit_write. cbn. auto. Qed.

Lemma limit_in_force_pos : forall L, 0 < limit_in_force L.
Proof.
  intros L. unfold limit_in_force. destruct (Z.leb_spec L 0); [vm_compute; reflexivity | lia].
Qed.

Lemma limit_in_force_configured : forall L, 0 < L -> limit_in_force L = L.
Proof. intros L H. unfold limit_in_force. destruct (Z.leb_spec L 0); lia. Qed.

Lemma limit_in_force_default : forall L, L <= 0 -> limit_in_force L = mux_defaultMaxOnWireSize.
Proof. intros L H. unfold limit_in_force. destruct (Z.leb_spec L 0); lia. Qed.

(* generated obligations: the sizes the Go compiler / a real MakeSession reported for the limit
   the commands configure and for the default are the ones the model derives *)
Lemma make_session_generated :
  make_session client_appDataMaxLength =
    mkSizes client_appDataMaxLength mux_maxStreamUnitWrite_16401 mux_streamSendBufferSize_16401
            mux_connReceiveBufferSize /\
  make_session server_appDataMaxLength = make_session client_appDataMaxLength /\
  make_session 0 =
    mkSizes mux_default_MsgOnWireSizeLimit mux_default_maxStreamUnitWrite mux_defaultMaxOnWireSize
            mux_connReceiveBufferSize /\
  (* both limits leave room for the largest closing notice and fit the peer's receive buffer
     and one TLS record *)
  mux_frameHeaderLength + 256 + mux_maxExtraLen <= client_appDataMaxLength /\
  client_appDataMaxLength <= mux_connReceiveBufferSize /\
  mux_defaultMaxOnWireSize <= mux_connReceiveBufferSize /\
  client_appDataMaxLength <= common_tlsconn_write_limit /\
  mux_defaultMaxOnWireSize <= common_tlsconn_write_limit /\
  (* shape of the constants the arithmetic below relies on *)
  0 < mux_frameHeaderLength /\ 0 < mux_maxExtraLen /\
  closing_nothing = 0%N /\ (closing_stream < 256)%N /\ (closing_session < 256)%N.
Proof. vm_compute. repeat split; discriminate. Qed.

(* ---- one obfuscate call --------------------------------------------------------------------- *)
Lemma encode_in_buf_inv : forall c key f padLen rnd buflen msg,
  encode_in_buf c key f padLen rnd buflen = Some msg ->
  encode_with c key f padLen rnd = Some msg /\
  mux_frameHeaderLength + zlen (f_payload f) + Z.of_N padLen + tag_len_of c <= buflen.
Proof.
  intros c key f padLen rnd buflen msg. unfold encode_in_buf.
  destruct (Nat.eqb (length (f_payload f)) 0); [discriminate|].
  destruct (Z.ltb_spec buflen (mux_frameHeaderLength + zlen (f_payload f) + Z.of_N padLen + tag_len_of c))
    as [Hlt|Hge]; [discriminate|].
  intros Henc. split; [assumption | lia].
Qed.

Lemma encode_in_buf_fits : forall c key f padLen rnd buflen,
  f_payload f <> [] ->
  mux_frameHeaderLength + zlen (f_payload f) + Z.of_N padLen + tag_len_of c <= buflen ->
  encode_in_buf c key f padLen rnd buflen = encode_with c key f padLen rnd.
Proof.
  intros c key f padLen rnd buflen Hne Hfit. unfold encode_in_buf.
  destruct (f_payload f) as [|p0 pl] eqn:Hp; [congruence|]. cbn [length Nat.eqb]. rewrite <- Hp in Hfit |- *.
  destruct (Z.ltb_spec buflen (mux_frameHeaderLength + zlen (f_payload f) + Z.of_N padLen + tag_len_of c));
    [lia | reflexivity].
Qed.

(* the structural reason for the size clause: obfuscate refuses to write past the buffer it is
   given, and the session's buffers are exactly the limit long *)
Lemma sess_obfuscate_le_sendbuf : forall ss c key f r msg,
  cipher_ok c -> sess_obfuscate ss c key f r = Some msg -> zlen msg <= ss_sendbuf ss.
Proof.
  intros ss c key f r msg Hok H. unfold sess_obfuscate in H.
  destruct (encode_in_buf_inv _ _ _ _ _ _ _ H) as [He Hfit].
  rewrite (encode_with_length _ _ _ _ _ _ Hok He). exact Hfit.
Qed.

Definition within (lim : Z) (wire : list (list N)) : Prop := Forall (fun msg => zlen msg <= lim) wire.

(* ---- every message on the wire is within the send buffer = the limit ---------------------- *)
Lemma write_loop_within : forall c, cipher_ok c ->
  forall fuel ss unordered key sid seq rest k rand,
  within (ss_sendbuf ss) (r_wire (write_loop fuel ss unordered c key sid seq rest k rand)).
Proof.
  intros c Hok. induction fuel as [|fuel IH]; intros ss unordered key sid seq rest k rand;
    destruct rest as [|b0 rest']; cbn [write_loop r_wire]; try (constructor; fail).
  remember (b0 :: rest') as rest eqn:Erest.
  assert (Hlen_rest : length rest = S (length rest')) by (subst rest; reflexivity).
  destruct (zlen rest <=? ss_unit ss).
  - destruct (sess_obfuscate ss c key (mkFrame sid seq closing_nothing rest) (rand k)) as [msg|] eqn:E;
      cbn [r_wire]; [|constructor].
    constructor; [|constructor]. eapply sess_obfuscate_le_sendbuf; eassumption.
  - destruct unordered; [cbn [r_wire]; constructor|].
    destruct (zslice 0 (ss_unit ss) rest) as [chunk|]; [|cbn [r_wire]; constructor].
    destruct (sess_obfuscate ss c key (mkFrame sid seq closing_nothing chunk) (rand k)) as [msg|] eqn:E;
      cbn [r_wire]; [|constructor].
    constructor; [eapply sess_obfuscate_le_sendbuf; eassumption | apply IH].
Qed.

Lemma read_from_loop_within : forall c, cipher_ok c ->
  forall sizes ss key sid seq data k rand,
  within (ss_sendbuf ss) (r_wire (read_from_loop ss c key sid seq data sizes k rand)).
Proof.
  intros c Hok. induction sizes as [|sz sizes IH]; intros ss key sid seq data k rand;
    cbn [read_from_loop];
    destruct ((ss_unit ss <? 0) || (mux_frameHeaderLength + ss_unit ss >? ss_sendbuf ss));
    cbn [r_wire]; try (constructor; fail).
  destruct data as [|d0 data']; cbn [r_wire]; [constructor|].
  remember (d0 :: data') as data eqn:Edata.
  assert (Hlen_data : length data = S (length data')) by (subst data; reflexivity).
  destruct (sess_obfuscate ss c key _ (rand k)) as [msg|] eqn:E; cbn [r_wire]; [|constructor].
  constructor; [eapply sess_obfuscate_le_sendbuf; eassumption | apply IH].
Qed.

Lemma closing_notice_within : forall c, cipher_ok c ->
  forall ss key sid seq closing b filler r,
  within (ss_sendbuf ss) (r_wire (closing_notice ss c key sid seq closing b filler r)).
Proof.
  intros c Hok ss key sid seq closing b filler r. unfold closing_notice.
  destruct ((ss_sendbuf ss <? 1) || (Z.of_N (byte_of b) + 1 + mux_frameHeaderLength >? ss_sendbuf ss));
    cbn [r_wire]; [constructor|].
  destruct (sess_obfuscate ss c key _ r) as [msg|] eqn:E; cbn [r_wire]; [|constructor].
  constructor; [eapply sess_obfuscate_le_sendbuf; eassumption | constructor].
Qed.

(* THE SIZE CLAUSE, for every configured limit (any Go int: <= 0 means the default), both
   modes, every method, key, stream id, sequence number, input and all randomness *)
Theorem session_write_within_limit : forall (L : Z) (unordered : bool) m key sid seq input rand,
  within (limit_in_force L)
    (r_wire (stream_write (make_session L) unordered (payload_cipher m key) key sid seq input rand)).
Proof.
  intros. destruct (make_session_fields L) as [_ [Hs _]]. rewrite <- Hs.
  apply write_loop_within, payload_cipher_ok.
Qed.

Theorem session_read_from_within_limit : forall (L : Z) m key sid seq data sizes rand,
  within (limit_in_force L)
    (r_wire (stream_read_from (make_session L) (payload_cipher m key) key sid seq data sizes rand)).
Proof.
  intros. destruct (make_session_fields L) as [_ [Hs _]]. rewrite <- Hs.
  apply read_from_loop_within, payload_cipher_ok.
Qed.

Theorem session_closing_within_limit : forall (L : Z) m key sid seq closing b filler r,
  within (limit_in_force L)
    (r_wire (closing_notice (make_session L) (payload_cipher m key) key sid seq closing b filler r)).
Proof.
  intros. destruct (make_session_fields L) as [_ [Hs _]]. rewrite <- Hs.
  apply closing_notice_within, payload_cipher_ok.
Qed.

(* whatever the peer's own configuration, its deplex buffer holds any message of a session whose
   limit is at most connReceiveBufferSize (the limits in use are: make_session_generated) *)
Theorem session_message_fits_peer_buffer : forall (L Lpeer : Z) unordered m key sid seq input rand,
  limit_in_force L <= mux_connReceiveBufferSize ->
  within (ss_recvbuf (make_session Lpeer))
    (r_wire (stream_write (make_session L) unordered (payload_cipher m key) key sid seq input rand)).
Proof.
  intros L Lpeer unordered m key sid seq input rand HL.
  destruct (make_session_fields Lpeer) as [_ [_ [_ Hr]]]. rewrite Hr.
  eapply Forall_impl; [|apply session_write_within_limit].
  cbn beta. intros msg Hm. lia.
Qed.

(* ---- sequence numbers ----------------------------------------------------------------------- *)
Lemma next_seq_lt : forall s, (next_seq s < 2 ^ 64)%N.
Proof. intros s. unfold next_seq. apply N.mod_lt. discriminate. Qed.

Fixpoint seq_at (seq : N) (k : nat) : N :=
  match k with O => seq | S k' => seq_at (next_seq seq) k' end.

Lemma seq_at_S : forall seq k, seq_at (next_seq seq) k = seq_at seq (S k).
Proof. reflexivity. Qed.

Lemma seq_at_lt : forall k seq, (seq < 2 ^ 64)%N -> (seq_at seq k < 2 ^ 64)%N.
Proof.
  induction k as [|k IH]; intros seq H; [exact H|]. cbn [seq_at]. apply IH, next_seq_lt.
Qed.

(* the j-th obfuscate call of an operation that starts at sequence number seq with call index k
   gets a RandInt result below the bound and as many random bytes as obfuscate asks for *)
Definition admissible (m : method) (key : list N) (seq : N) (k : nat) (rand : draws) : Prop :=
  forall j : nat,
    Z.of_N (fst (rand (k + j)%nat)) < rand_bound (payload_cipher m key) /\
    zlen (snd (rand (k + j)%nat)) =
      Z.of_N (pad_len (seq_at seq j) (fst (rand (k + j)%nat))) + method_tag_len m.

Lemma admissible_next : forall m key seq k rand,
  admissible m key seq k rand -> admissible m key (next_seq seq) (S k) rand.
Proof.
  intros m key seq k rand H j. specialize (H (S j)).
  replace (k + S j)%nat with (S k + j)%nat in H by lia. rewrite seq_at_S. exact H.
Qed.

(* one frame within the maximum: accepted, decodes to itself, within the limit *)
Lemma sess_obfuscate_ok : forall L m key f r,
  (f_sid f < 2 ^ 32)%N -> (f_seq f < 2 ^ 64)%N -> (f_closing f < 256)%N ->
  (1 <= length (f_payload f))%nat -> zlen (f_payload f) <= ss_unit (make_session L) ->
  Z.of_N (fst r) < rand_bound (payload_cipher m key) ->
  zlen (snd r) = Z.of_N (pad_len (f_seq f) (fst r)) + method_tag_len m ->
  exists msg, sess_obfuscate (make_session L) (payload_cipher m key) key f r = Some msg /\
    decode m key msg = Ok f /\ zlen msg <= limit_in_force L.
Proof.
  intros L m key f r Hsid Hseq Hcl Hp Hu Hd Hr.
  destruct (make_session_fields L) as [_ [Hsb [Hun _]]].
  assert (Hu' : zlen (f_payload f) <= max_stream_unit_write (limit_in_force L)).
  { unfold max_stream_unit_write. lia. }
  destruct (obfuscate_roundtrip m key f (fst r) (snd r) (limit_in_force L) Hsid Hseq Hcl Hp Hu' Hd Hr)
    as [msg [He [Hdec Hle]]].
  exists msg. split; [|split; assumption].
  unfold sess_obfuscate. unfold obfuscate, encode in He.
  rewrite encode_in_buf_fits; [exact He | |].
  - destruct (f_payload f); [cbn [length] in Hp; lia | discriminate].
  - rewrite Hsb. rewrite <- (encode_with_length _ _ _ _ _ _ (payload_cipher_ok m key) He). exact Hle.
Qed.

(* ---- Stream.Write, ordered: the pure splitting the loop performs ---------------------------- *)
Fixpoint chunks (fuel unit : nat) (l : list N) : list (list N) :=
  match l with
  | [] => []
  | _ :: _ =>
      match fuel with
      | O => []
      | S fuel' => if Nat.leb (length l) unit then [l]
                   else firstn unit l :: chunks fuel' unit (skipn unit l)
      end
  end.
Definition chunks_of (unit : Z) (l : list N) : list (list N) := chunks (S (length l)) (Z.to_nat unit) l.

Fixpoint frames_from (sid seq : N) (chs : list (list N)) : list frame :=
  match chs with
  | [] => []
  | ch :: t => mkFrame sid seq closing_nothing ch :: frames_from sid (next_seq seq) t
  end.

Lemma chunks_concat : forall fuel unit l, (1 <= unit)%nat -> (length l < fuel)%nat ->
  concat (chunks fuel unit l) = l /\
  Forall (fun ch => (1 <= length ch <= unit)%nat) (chunks fuel unit l).
Proof.
  induction fuel as [|fuel IH]; intros unit l Hu Hl; [lia|].
  destruct l as [|b0 l']; [cbn; split; [reflexivity | constructor]|].
  cbn [chunks]. remember (b0 :: l') as l eqn:El.
  assert (Hlen_l : length l = S (length l')) by (subst l; reflexivity).
  destruct (Nat.leb_spec (length l) unit) as [Hle|Hgt].
  - cbn [concat]. rewrite app_nil_r. split; [reflexivity|]. constructor; [|constructor].
    subst l. cbn [length] in *. lia.
  - assert (Hsk : (length (skipn unit l) < fuel)%nat) by (rewrite skipn_length; subst l; cbn [length] in *; lia).
    destruct (IH unit (skipn unit l) Hu Hsk) as [Hc Hf].
    cbn [concat]. rewrite Hc. split; [apply firstn_skipn|].
    constructor; [rewrite firstn_length; lia | exact Hf].
Qed.

Lemma chunks_fuel : forall fuel1 fuel2 unit l, (1 <= unit)%nat ->
  (length l < fuel1)%nat -> (length l < fuel2)%nat -> chunks fuel1 unit l = chunks fuel2 unit l.
Proof.
  induction fuel1 as [|fuel1 IH]; intros fuel2 unit l Hu H1 H2; [lia|].
  destruct fuel2 as [|fuel2]; [lia|].
  destruct l as [|b0 l']; [reflexivity|]. cbn [chunks]. remember (b0 :: l') as l eqn:El.
  assert (Hlen_l : length l = S (length l')) by (subst l; reflexivity).
  destruct (Nat.leb (length l) unit) eqn:E; [reflexivity|].
  apply Nat.leb_gt in E. f_equal. apply IH; try assumption; rewrite skipn_length; lia.
Qed.

Lemma write_loop_complete : forall L m key sid,
  (sid < 2 ^ 32)%N -> 1 <= ss_unit (make_session L) ->
  forall fuel seq rest k rand,
  (length rest < fuel)%nat -> (seq < 2 ^ 64)%N -> admissible m key seq k rand ->
  let r := write_loop fuel (make_session L) false (payload_cipher m key) key sid seq rest k rand in
  let chs := chunks fuel (Z.to_nat (ss_unit (make_session L))) rest in
  r_end r = EndOk /\ r_n r = zlen rest /\
  map (decode m key) (r_wire r) = map Ok (frames_from sid seq chs) /\
  r_seq r = seq_at seq (length chs).
Proof.
  intros L m key sid Hsid Hunit. set (ss := make_session L) in *. set (c := payload_cipher m key).
  destruct make_session_generated as [_ [_ [_ [_ [_ [_ [_ [_ [_ [_ [Hcn _]]]]]]]]]]].
  induction fuel as [|fuel IH]; intros seq rest k rand Hfuel Hseq Hadm; [lia|].
  destruct rest as [|b0 rest']; [cbn; auto|].
  cbn [write_loop chunks]. remember (b0 :: rest') as rest eqn:Erest.
  assert (Hlen_rest : length rest = S (length rest')) by (subst rest; reflexivity).
  assert (Hlen : zlen rest = Z.of_nat (length rest)) by reflexivity.
  destruct (Hadm 0%nat) as [Hd0 Hr0]. rewrite Nat.add_0_r in Hd0, Hr0. cbn [seq_at] in Hr0.
  destruct (Z.leb_spec (zlen rest) (ss_unit ss)) as [Hfit|Hsplit].
  - (* last frame *)
    destruct (Nat.leb_spec (length rest) (Z.to_nat (ss_unit ss))) as [_|Hc]; [|lia].
    destruct (sess_obfuscate_ok L m key (mkFrame sid seq closing_nothing rest) (rand k)) as [msg [He [Hdec _]]];
      cbn [f_sid f_seq f_closing f_payload]; try assumption.
    + rewrite Hcn. reflexivity.
    + lia.
    + fold ss c in He. rewrite He. cbn [r_end r_n r_wire r_seq map frames_from length seq_at].
      rewrite Hdec. auto.
  - destruct (Nat.leb_spec (length rest) (Z.to_nat (ss_unit ss))) as [Hc|_]; [lia|].
    rewrite zslice_ok by lia. rewrite Z.sub_0_r. cbn [Z.to_nat skipn].
    set (chunk := firstn (Z.to_nat (ss_unit ss)) rest).
    assert (Hcl : length chunk = Z.to_nat (ss_unit ss)) by (unfold chunk; rewrite firstn_length; lia).
    destruct (sess_obfuscate_ok L m key (mkFrame sid seq closing_nothing chunk) (rand k)) as [msg [He [Hdec _]]];
      cbn [f_sid f_seq f_closing f_payload]; try assumption.
    + rewrite Hcn. reflexivity.
    + lia.
    + unfold zlen. fold ss. lia.
    + fold ss c in He. rewrite He.
      assert (Hsk : (length (skipn (Z.to_nat (ss_unit ss)) rest) < fuel)%nat) by (rewrite skipn_length; lia).
      specialize (IH (next_seq seq) (skipn (Z.to_nat (ss_unit ss)) rest) (S k) rand Hsk (next_seq_lt seq)
                     (admissible_next _ _ _ _ _ Hadm)).
      cbn zeta in IH. destruct IH as [I1 [I2 [I3 I4]]].
      cbn [r_end r_n r_wire r_seq map frames_from length].
      rewrite I1, I2, I3, I4, Hdec. rewrite seq_at_S.
      repeat split; try reflexivity.
      unfold zlen. rewrite Hcl, skipn_length. lia.
Qed.

(* A Write on an ordered session whose limit leaves room for at least one payload byte: the
   whole input is accepted, every message decodes (under the session key) to the next chunk of
   at most maxStreamUnitWrite bytes with the next sequence number, the chunks concatenate to
   the input, none is empty, and every message is within the limit *)
Theorem session_write_complete : forall (L : Z) m key sid seq input rand,
  mux_frameHeaderLength + mux_maxExtraLen < limit_in_force L ->
  (sid < 2 ^ 32)%N -> (seq < 2 ^ 64)%N -> admissible m key seq 0 rand ->
  let ss := make_session L in
  let r := stream_write ss false (payload_cipher m key) key sid seq input rand in
  let chs := chunks_of (ss_unit ss) input in
  r_end r = EndOk /\ r_n r = zlen input /\
  map (decode m key) (r_wire r) = map Ok (frames_from sid seq chs) /\
  r_seq r = seq_at seq (length chs) /\
  concat chs = input /\
  Forall (fun ch => 1 <= zlen ch <= ss_unit ss) chs /\
  within (limit_in_force L) (r_wire r).
Proof.
  intros L m key sid seq input rand HL Hsid Hseq Hadm ss r chs.
  destruct (make_session_fields L) as [_ [_ [Hun _]]]. fold ss in Hun.
  assert (Hunit : 1 <= ss_unit ss) by lia.
  destruct (write_loop_complete L m key sid Hsid Hunit (S (length input)) seq input 0%nat rand
              ltac:(lia) Hseq Hadm) as [H1 [H2 [H3 H4]]].
  destruct (chunks_concat (S (length input)) (Z.to_nat (ss_unit ss)) input ltac:(lia) ltac:(lia)) as [H5 H6].
  repeat split; try assumption.
  - eapply Forall_impl; [|exact H6]. cbn beta. intros ch Hch. unfold zlen. lia.
  - apply session_write_within_limit.
Qed.

(* ---- Stream.Write, unordered ------------------------------------------------------------------ *)
Theorem session_write_unordered : forall (L : Z) m key sid seq input rand,
  (sid < 2 ^ 32)%N -> (seq < 2 ^ 64)%N -> admissible m key seq 0 rand -> input <> [] ->
  let ss := make_session L in
  let r := stream_write ss true (payload_cipher m key) key sid seq input rand in
  (zlen input <= ss_unit ss ->
     exists msg, r = mkRes [msg] (zlen input) (next_seq seq) EndOk /\
       decode m key msg = Ok (mkFrame sid seq closing_nothing input) /\ zlen msg <= limit_in_force L) /\
  (ss_unit ss < zlen input -> r = mkRes [] 0 seq EndShortBuffer).
Proof.
  intros L m key sid seq input rand Hsid Hseq Hadm Hne ss r.
  destruct make_session_generated as [_ [_ [_ [_ [_ [_ [_ [_ [_ [_ [Hcn _]]]]]]]]]]].
  unfold r, stream_write. destruct input as [|b0 input']; [congruence|].
  cbn [write_loop]. remember (b0 :: input') as input eqn:Einput.
  assert (Hlen_input : length input = S (length input')) by (subst input; reflexivity).
  destruct (Hadm 0%nat) as [Hd0 Hr0]. cbn [Nat.add seq_at] in Hd0, Hr0.
  split; intros H; destruct (Z.leb_spec (zlen input) (ss_unit ss)); try lia; [|reflexivity].
  destruct (sess_obfuscate_ok L m key (mkFrame sid seq closing_nothing input) (rand 0%nat)) as [msg [He [Hdec Hle]]];
    cbn [f_sid f_seq f_closing f_payload]; try assumption.
  - rewrite Hcn. reflexivity.
  - lia.
  - fold ss in He. rewrite He. exists msg. auto.
Qed.

(* ---- limits that leave no room for a payload byte ------------------------------------------------ *)
(* 0 < L < 14 + 255: maxStreamUnitWrite is negative; an ordered Write of anything panics in
   in[n : maxStreamUnitWrite+n], ReadFrom panics in its buffer slice; nothing reaches the wire *)
Theorem session_limit_below_overhead : forall (L : Z) m key sid seq input data sizes rand,
  0 < L -> L < mux_frameHeaderLength + mux_maxExtraLen -> input <> [] ->
  stream_write (make_session L) false (payload_cipher m key) key sid seq input rand = mkRes [] 0 seq EndPanic /\
  stream_write (make_session L) true (payload_cipher m key) key sid seq input rand = mkRes [] 0 seq EndShortBuffer /\
  stream_read_from (make_session L) (payload_cipher m key) key sid seq data sizes rand = mkRes [] 0 seq EndPanic.
Proof.
  intros L m key sid seq input data sizes rand H0 H1 Hne.
  destruct (make_session_fields L) as [_ [_ [Hun _]]]. rewrite (limit_in_force_configured L H0) in Hun.
  assert (Hneg : ss_unit (make_session L) < 0) by lia.
  destruct input as [|b0 input']; [congruence|].
  unfold stream_write, stream_read_from. cbn [write_loop].
  remember (b0 :: input') as input eqn:Einput.
  assert (Hlen_input : length input = S (length input')) by (subst input; reflexivity).
  assert (Hz : 1 <= zlen input) by (unfold zlen; lia).
  destruct (Z.leb_spec (zlen input) (ss_unit (make_session L))); [lia|].
  split; [|split; [reflexivity|]].
  - unfold zslice. destruct (Z.leb_spec 0 (ss_unit (make_session L))); [lia|]. reflexivity.
  - destruct sizes; cbn [read_from_loop];
      destruct (Z.ltb_spec (ss_unit (make_session L)) 0); try lia; reflexivity.
Qed.

(* L = 14 + 255: maxStreamUnitWrite is 0; an ordered Write cuts an empty frame, obfuscate refuses
   it ("payload cannot be empty") and the sequence counter stays where it was *)
Theorem session_limit_equal_overhead : forall (L : Z) m key sid seq input rand,
  L = mux_frameHeaderLength + mux_maxExtraLen -> input <> [] ->
  stream_write (make_session L) false (payload_cipher m key) key sid seq input rand
    = mkRes [] 0 seq EndObfsError /\
  stream_write (make_session L) true (payload_cipher m key) key sid seq input rand
    = mkRes [] 0 seq EndShortBuffer.
Proof.
  intros L m key sid seq input rand HL Hne.
  assert (H0 : 0 < L) by (subst L; vm_compute; reflexivity).
  destruct (make_session_fields L) as [_ [_ [Hun _]]]. rewrite (limit_in_force_configured L H0) in Hun.
  assert (Hzero : ss_unit (make_session L) = 0) by lia.
  destruct input as [|b0 input']; [congruence|].
  unfold stream_write. cbn [write_loop].
  remember (b0 :: input') as input eqn:Einput.
  assert (Hlen_input : length input = S (length input')) by (subst input; reflexivity).
  assert (Hz : 1 <= zlen input) by (unfold zlen; lia).
  rewrite Hzero.
  destruct (Z.leb_spec (zlen input) 0); [lia|]. split; [|reflexivity].
  rewrite zslice_ok by lia. cbn [Z.sub Z.to_nat firstn].
  unfold sess_obfuscate, encode_in_buf. cbn [f_payload length Nat.eqb]. reflexivity.
Qed.

(* ---- closing notices --------------------------------------------------------------------------- *)
(* a limit of at least 14 + 256 + 255 carries every closing notice (both limits in use do) *)
Theorem session_closing_notice_sent : forall (L : Z) m key sid seq closing b filler r,
  mux_frameHeaderLength + 256 + mux_maxExtraLen <= limit_in_force L ->
  (sid < 2 ^ 32)%N -> (seq < 2 ^ 64)%N -> (closing < 256)%N ->
  Z.of_N (byte_of b) + 1 <= zlen filler ->
  Z.of_N (fst r) < rand_bound (payload_cipher m key) ->
  zlen (snd r) = Z.of_N (pad_len seq (fst r)) + method_tag_len m ->
  let payload := firstn (Z.to_nat (Z.of_N (byte_of b) + 1)) filler in
  exists msg,
    closing_notice (make_session L) (payload_cipher m key) key sid seq closing b filler r
      = mkRes [msg] 0 (next_seq seq) EndOk /\
    decode m key msg = Ok (mkFrame sid seq closing payload) /\ zlen msg <= limit_in_force L.
Proof.
  intros L m key sid seq closing b filler r HL Hsid Hseq Hcl Hfill Hd Hr payload.
  destruct (make_session_fields L) as [_ [Hsb _]].
  assert (Hb : (byte_of b < 256)%N).
  { unfold byte_of. change 255%N with (N.ones 8). rewrite N.land_ones. apply N.mod_lt. discriminate. }
  assert (Hpl : length payload = Z.to_nat (Z.of_N (byte_of b) + 1)).
  { unfold payload. rewrite firstn_length. unfold zlen in Hfill. lia. }
  destruct (extra_len_fits_byte m key (fst r) Hd) as [_ Hdraw].
  assert (Hpad : Z.of_N (pad_len seq (fst r)) <= mux_maxExtraLen - method_tag_len m).
  { unfold pad_len. destruct (Z.of_N seq <? mux_padFirstNFrames); [assumption|].
    destruct m; vm_compute; discriminate. }
  destruct (roundtrip m key (mkFrame sid seq closing payload) (pad_len seq (fst r)) (snd r))
    as [msg [He [Hdec Hlen]]]; cbn [f_sid f_seq f_closing f_payload]; try assumption; [lia|].
  cbn [f_payload] in Hlen.
  assert (Hzl : zlen payload = Z.of_N (byte_of b) + 1) by (unfold zlen; lia).
  assert (Hmsg : zlen msg <= limit_in_force L).
  { rewrite Hlen, Hzl. unfold mux_frameHeaderLength, mux_maxExtraLen in *. lia. }
  exists msg. unfold closing_notice. rewrite Hsb.
  destruct (Z.ltb_spec (limit_in_force L) 1); [unfold mux_frameHeaderLength, mux_maxExtraLen in *; lia|].
  destruct (Z.gtb_spec (Z.of_N (byte_of b) + 1 + mux_frameHeaderLength) (limit_in_force L));
    [unfold mux_frameHeaderLength, mux_maxExtraLen in *; lia|].
  cbn [orb]. fold payload. unfold sess_obfuscate. cbn [f_seq].
  rewrite encode_in_buf_fits.
  - unfold encode in He. rewrite He. auto.
  - cbn [f_payload]. destruct payload; [cbn [length] in Hpl; lia | discriminate].
  - cbn [f_payload]. rewrite Hsb, tag_len_of_method. rewrite <- Hlen. exact Hmsg.
Qed.

(* below that the notice may be refused or the payload slice may panic, depending on the draw *)
Theorem session_closing_notice_small : forall (L : Z) m key sid seq closing b filler r,
  let res := closing_notice (make_session L) (payload_cipher m key) key sid seq closing b filler r in
  (limit_in_force L < Z.of_N (byte_of b) + 1 + mux_frameHeaderLength -> res = mkRes [] 0 seq EndPanic) /\
  (r_end res = EndPanic -> limit_in_force L < Z.of_N (byte_of b) + 1 + mux_frameHeaderLength) /\
  (r_end res = EndOk -> exists msg, r_wire res = [msg] /\ zlen msg <= limit_in_force L).
Proof.
  intros L m key sid seq closing b filler r res.
  destruct (make_session_fields L) as [_ [Hsb _]]. pose proof (limit_in_force_pos L) as Hpos.
  unfold res, closing_notice. rewrite Hsb.
  destruct (Z.ltb_spec (limit_in_force L) 1); [lia|].
  destruct (Z.gtb_spec (Z.of_N (byte_of b) + 1 + mux_frameHeaderLength) (limit_in_force L)); cbn [orb].
  - repeat split; try reflexivity; cbn [r_end]; try discriminate. intros _. lia.
  - split; [lia|].
    destruct (sess_obfuscate (make_session L) (payload_cipher m key) key _ r) as [msg|] eqn:E;
      cbn [r_end r_wire]; split; try discriminate.
    intros _. exists msg. split; [reflexivity|]. rewrite <- Hsb.
    eapply sess_obfuscate_le_sendbuf; [apply payload_cipher_ok | exact E].
Qed.

(* ---- the length-only plans run by the correspondence driver agree with the model ------------------ *)
Definition len_draws (rand : draws) : nat -> N * Z := fun j => (fst (rand j), zlen (snd (rand j))).

Lemma encode_with_some : forall c key f padLen rnd, cipher_ok c ->
  f_payload f <> [] -> zlen rnd = Z.of_N padLen + tag_len_of c ->
  exists msg, encode_with c key f padLen rnd = Some msg.
Proof. intros. eexists. apply encode_with_layout; assumption. Qed.

Lemma obfuscate_len_spec : forall ss c key f r, cipher_ok c ->
  option_map zlen (sess_obfuscate ss c key f r) =
  obfuscate_len ss (tag_len_of c) (f_seq f) (zlen (f_payload f)) (fst r, zlen (snd r)).
Proof.
  intros ss c key f r Hok. unfold sess_obfuscate, obfuscate_len, encode_in_buf. cbn [fst snd].
  set (padLen := pad_len (f_seq f) (fst r)).
  destruct (f_payload f) as [|p0 pl] eqn:Hp.
  - reflexivity.
  - cbn [length Nat.eqb]. rewrite <- Hp.
    assert (Hz : zlen (f_payload f) =? 0 = false).
    { rewrite Hp. unfold zlen. cbn [length]. lia. }
    rewrite Hz.
    destruct (ss_sendbuf ss <? mux_frameHeaderLength + zlen (f_payload f) + Z.of_N padLen + tag_len_of c);
      [reflexivity|].
    destruct (Z.eqb_spec (zlen (snd r)) (Z.of_N padLen + tag_len_of c)) as [He|Hn]; cbn [negb].
    + destruct (encode_with_some c key f padLen (snd r) Hok) as [msg Hm]; [rewrite Hp; discriminate | exact He |].
      rewrite Hm. cbn [option_map]. f_equal. eapply encode_with_length; eassumption.
    + unfold encode_with. rewrite Hp. cbn [length Nat.eqb]. rewrite <- Hp.
      fold padLen. apply Z.eqb_neq in Hn. rewrite Hn. reflexivity.
Qed.

Definition plan_agrees (r : send_result) (p : plan) : Prop :=
  map zlen (r_wire r) = map snd (p_msgs p) /\ r_n r = p_n p /\ r_seq r = p_seq p /\ r_end r = p_end p.

Lemma write_plan_spec : forall c, cipher_ok c ->
  forall fuel ss unordered key sid seq rest k rand,
  plan_agrees (write_loop fuel ss unordered c key sid seq rest k rand)
              (write_plan fuel ss unordered (tag_len_of c) seq (zlen rest) k (len_draws rand)).
Proof.
  intros c Hok. induction fuel as [|fuel IH]; intros ss unordered key sid seq rest k rand.
  - destruct rest as [|b0 rest']; cbn [write_loop write_plan].
    + unfold plan_agrees. cbn. auto.
    + assert (Hz : zlen (b0 :: rest') <=? 0 = false) by (unfold zlen; cbn [length]; lia).
      rewrite Hz. unfold plan_agrees. cbn. auto.
  - destruct rest as [|b0 rest']; cbn [write_loop write_plan].
    + unfold plan_agrees. cbn. auto.
    + remember (b0 :: rest') as rest eqn:Erest.
      assert (Hlen_rest : length rest = S (length rest')) by (subst rest; reflexivity).
      assert (Hz : zlen rest <=? 0 = false) by (unfold zlen; lia).
      rewrite Hz.
      destruct (Z.leb_spec (zlen rest) (ss_unit ss)) as [Hfit|Hsplit].
      * pose proof (obfuscate_len_spec ss c key (mkFrame sid seq closing_nothing rest) (rand k) Hok) as Hs.
        cbn [f_seq f_payload] in Hs. unfold len_draws at 1. rewrite <- Hs.
        destruct (sess_obfuscate ss c key (mkFrame sid seq closing_nothing rest) (rand k));
          unfold plan_agrees; cbn; auto.
      * destruct unordered; [unfold plan_agrees; cbn; auto|].
        destruct (Z.ltb_spec (ss_unit ss) 0) as [Hneg|Hnn].
        { unfold zslice. destruct (Z.leb_spec 0 (ss_unit ss)); [lia|]. unfold plan_agrees. cbn. auto. }
        rewrite zslice_ok by lia. rewrite Z.sub_0_r. cbn [Z.to_nat skipn].
        set (chunk := firstn (Z.to_nat (ss_unit ss)) rest).
        assert (Hcl : zlen chunk = ss_unit ss).
        { unfold chunk, zlen in *. rewrite firstn_length. lia. }
        pose proof (obfuscate_len_spec ss c key (mkFrame sid seq closing_nothing chunk) (rand k) Hok) as Hs.
        cbn [f_seq f_payload] in Hs. rewrite Hcl in Hs. unfold len_draws at 1. rewrite <- Hs.
        destruct (sess_obfuscate ss c key (mkFrame sid seq closing_nothing chunk) (rand k)) as [msg|];
          [|unfold plan_agrees; cbn; auto].
        specialize (IH ss false key sid (next_seq seq) (skipn (Z.to_nat (ss_unit ss)) rest) (S k) rand).
        assert (Hsk : zlen (skipn (Z.to_nat (ss_unit ss)) rest) = zlen rest - ss_unit ss).
        { unfold zlen in *. rewrite skipn_length. lia. }
        rewrite Hsk in IH. destruct IH as [I1 [I2 [I3 I4]]].
        unfold plan_agrees. cbn [option_map r_wire r_n r_seq r_end p_msgs p_n p_seq p_end map snd].
        rewrite I1, I2, I3, I4, Hcl. auto.
Qed.

Theorem stream_write_plan_spec : forall ss unordered m key sid seq input rand,
  plan_agrees (stream_write ss unordered (payload_cipher m key) key sid seq input rand)
              (stream_write_plan ss unordered (method_tag_len m) seq (zlen input) (len_draws rand)).
Proof.
  intros. unfold stream_write, stream_write_plan. rewrite <- (tag_len_of_method m key).
  replace (Z.to_nat (zlen input)) with (length input) by (unfold zlen; lia).
  apply write_plan_spec, payload_cipher_ok.
Qed.

Lemma read_from_plan_spec : forall c, cipher_ok c ->
  forall sizes ss key sid seq data k rand,
  plan_agrees (read_from_loop ss c key sid seq data sizes k rand)
              (read_from_plan ss (tag_len_of c) seq (zlen data) sizes k (len_draws rand)).
Proof.
  intros c Hok. induction sizes as [|sz sizes IH]; intros ss key sid seq data k rand;
    cbn [read_from_loop read_from_plan];
    destruct ((ss_unit ss <? 0) || (mux_frameHeaderLength + ss_unit ss >? ss_sendbuf ss)) eqn:Hp;
    try (unfold plan_agrees; cbn; auto; fail).
  - destruct data as [|d0 data'].
    + unfold plan_agrees. cbn. auto.
    + remember (d0 :: data') as data eqn:Edata.
      assert (Hlen_data : length data = S (length data')) by (subst data; reflexivity).
      assert (Hz : zlen data <=? 0 = false) by (unfold zlen; lia).
      rewrite Hz.
      set (n := Z.max 0 (zmin3 sz (ss_unit ss) (zlen data))).
      set (chunk := firstn (Z.to_nat n) data).
      assert (Hn : 0 <= n <= zlen data) by (unfold n, zmin3; lia).
      assert (Hcl : zlen chunk = n).
      { unfold chunk, zlen in *. rewrite firstn_length. lia. }
      pose proof (obfuscate_len_spec ss c key (mkFrame sid seq closing_nothing chunk) (rand k) Hok) as Hs.
      cbn [f_seq f_payload] in Hs. rewrite Hcl in Hs. unfold len_draws at 1. rewrite <- Hs.
      destruct (sess_obfuscate ss c key (mkFrame sid seq closing_nothing chunk) (rand k)) as [msg|];
        [|unfold plan_agrees; cbn; auto].
      specialize (IH ss key sid (next_seq seq) (skipn (Z.to_nat n) data) (S k) rand).
      assert (Hsk : zlen (skipn (Z.to_nat n) data) = zlen data - n).
      { unfold zlen in *. rewrite skipn_length. lia. }
      rewrite Hsk in IH. destruct IH as [I1 [I2 [I3 I4]]].
      unfold plan_agrees. cbn [option_map r_wire r_n r_seq r_end p_msgs p_n p_seq p_end map snd].
      rewrite I1, I2, I3, I4, Hcl. auto.
Qed.

Theorem stream_read_from_plan_spec : forall ss m key sid seq data sizes rand,
  plan_agrees (stream_read_from ss (payload_cipher m key) key sid seq data sizes rand)
              (read_from_plan ss (method_tag_len m) seq (zlen data) sizes 0 (len_draws rand)).
Proof.
  intros. unfold stream_read_from. rewrite <- (tag_len_of_method m key).
  apply read_from_plan_spec, payload_cipher_ok.
Qed.

Theorem closing_notice_plan_spec : forall ss m key sid seq closing b filler r,
  Z.of_N (byte_of b) + 1 <= zlen filler ->
  plan_agrees (closing_notice ss (payload_cipher m key) key sid seq closing b filler r)
              (closing_notice_plan ss (method_tag_len m) seq b (fst r, zlen (snd r))).
Proof.
  intros ss m key sid seq closing b filler r Hfill. unfold closing_notice, closing_notice_plan.
  destruct ((ss_sendbuf ss <? 1) || (Z.of_N (byte_of b) + 1 + mux_frameHeaderLength >? ss_sendbuf ss));
    [unfold plan_agrees; cbn; auto|].
  set (payload := firstn (Z.to_nat (Z.of_N (byte_of b) + 1)) filler).
  assert (Hpl : zlen payload = Z.of_N (byte_of b) + 1).
  { unfold payload, zlen in *. rewrite firstn_length. lia. }
  pose proof (obfuscate_len_spec ss (payload_cipher m key) key (mkFrame sid seq closing payload) r
                (payload_cipher_ok m key)) as Hs.
  cbn [f_seq f_payload] in Hs. rewrite Hpl, tag_len_of_method in Hs. rewrite <- Hs.
  destruct (sess_obfuscate ss (payload_cipher m key) key (mkFrame sid seq closing payload) r);
    unfold plan_agrees; cbn; auto.
Qed.

(* ---- the hypotheses are met: concrete sessions evaluated inside Coq with a real cipher ------------ *)
(* a RandInt result of 0 with exactly tagLen random bytes is admissible at every sequence number *)
Definition ex_draws0 : draws := fun _ => (0%N, nrange 7 16).
(* 3 bytes of padding on the frames that are padded (seq < 5), none afterwards *)
Definition ex_draws3 : draws := fun k => if Nat.ltb k 5 then (3%N, nrange 7 (3 + 16)) else (3%N, nrange 7 16).

Example admissible_example : forall seq, admissible ChaCha20Poly1305 ex_key seq 0 ex_draws0.
Proof.
  intros seq j. split; [vm_compute; reflexivity|].
  unfold pad_len, ex_draws0. cbn [fst snd]. destruct (_ <? _); reflexivity.
Qed.

(* limit 300: maxStreamUnitWrite = 31; 70 bytes make frames of 31, 31 and 8 bytes, i.e. messages of
   61, 61 and 38 bytes from sequence number 5 on and of 64, 64 and 41 bytes with 3 bytes of padding
   from sequence number 0; all decode to what was written *)
Example session_300_chacha :
  let ss := make_session 300 in
  let c := payload_cipher ChaCha20Poly1305 ex_key in
  let r := stream_write ss false c ex_key 1 5 (nrange 0 70) ex_draws0 in
  let r' := stream_write ss false c ex_key 1 0 (nrange 0 70) ex_draws3 in
  ss = mkSizes 300 31 300 mux_connReceiveBufferSize /\
  r_end r = EndOk /\ r_n r = 70 /\ map zlen (r_wire r) = [61; 61; 38] /\ r_seq r = 8%N /\
  map (decode ChaCha20Poly1305 ex_key) (r_wire r) =
    map Ok (frames_from 1 5 [nrange 0 31; nrange 31 31; nrange 62 8]) /\
  r_end r' = EndOk /\ map zlen (r_wire r') = [64; 64; 41] /\
  map (decode ChaCha20Poly1305 ex_key) (r_wire r') =
    map Ok (frames_from 1 0 [nrange 0 31; nrange 31 31; nrange 62 8]).
Proof. vm_compute. repeat split. Qed.

(* the small limits: 268 panics, 269 refuses an empty frame, 270 carries one byte per frame *)
Example session_small_limits :
  let c := payload_cipher Plain ex_key in
  let rnd : draws := fun _ => (0%N, nrange 7 8) in
  stream_write (make_session 268) false c ex_key 1 5 [1; 2]%N rnd = mkRes [] 0 5%N EndPanic /\
  stream_write (make_session 269) false c ex_key 1 5 [1; 2]%N rnd = mkRes [] 0 5%N EndObfsError /\
  map zlen (r_wire (stream_write (make_session 270) false c ex_key 1 5 [1; 2]%N rnd)) = [23; 23] /\
  r_end (stream_write (make_session 270) true c ex_key 1 5 [1; 2]%N rnd) = EndShortBuffer /\
  (* a closing notice of 200 filler bytes does not fit a 200-byte buffer: the payload slice panics;
     with limit 300 the same notice is refused when 100 bytes of padding are drawn on top *)
  r_end (closing_notice (make_session 200) c ex_key 1 0 1 199 (nrange 0 256) (0%N, nrange 7 8)) = EndPanic /\
  r_end (closing_notice (make_session 300) c ex_key 1 0 1 199 (nrange 0 256) (100%N, nrange 7 108)) = EndObfsError /\
  map zlen (r_wire (closing_notice (make_session 300) c ex_key 1 0 1 199 (nrange 0 256) (60%N, nrange 7 68))) = [282].
Proof. vm_compute. repeat split. Qed.
