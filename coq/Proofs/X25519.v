(* Facts about Model/Crypto/X25519.v: RFC 7748 test vectors (by computation) and the
   masking of bit 255 of the u-coordinate.  Commutativity of the Diffie-Hellman function is
   NOT proved anywhere: it is the Section hypothesis [dh_comm] of the C06 theorems. *)
From Coq Require Import ZArith NArith List Lia.
From Cloak Require Import Model.Crypto.X25519.
Import ListNotations.
Local Open Scope Z_scope.

Lemma le_decode_app : forall a b,
  le_decode (a ++ b) = le_decode a + 256 ^ Z.of_nat (length a) * le_decode b.
Proof.
  induction a as [|x a IH]; intros b.
  - cbn [app length le_decode]. change (256 ^ Z.of_nat 0) with 1. lia.
  - cbn [app le_decode]. rewrite IH.
    replace (Z.of_nat (length (x :: a))) with (Z.succ (Z.of_nat (length a))) by (cbn [length]; lia).
    rewrite Z.pow_succ_r by lia. ring.
Qed.

(* Two u-coordinates that differ only in bit 255 (bit 7 of byte 31) are the same input. *)
Lemma mask_u_bit255 : forall pre b,
  length pre = 31%nat ->
  mask_u (le_decode (pre ++ [b + 128]%N)) = mask_u (le_decode (pre ++ [b])).
Proof.
  intros pre b Hlen. unfold mask_u. rewrite !le_decode_app, Hlen.
  cbn [le_decode].
  replace (Z.of_N (b + 128)) with (Z.of_N b + 128) by lia.
  change (256 ^ Z.of_nat 31) with (2 ^ 248).
  replace (le_decode pre + 2 ^ 248 * (Z.of_N b + 128 + 256 * 0))
    with (le_decode pre + 2 ^ 248 * (Z.of_N b + 256 * 0) + 1 * 2 ^ 255).
  - apply Z.mod_add. discriminate.
  - change (2 ^ 255) with (2 ^ 248 * 128). ring.
Qed.

Lemma x25519_ignores_bit255 : forall scalar pre b,
  length pre = 31%nat ->
  x25519 scalar (pre ++ [b + 128]%N) = x25519 scalar (pre ++ [b]).
Proof.
  intros scalar pre b Hlen. unfold x25519, x25519_z.
  rewrite (mask_u_bit255 pre b Hlen). reflexivity.
Qed.


(* The specialised reduction is reduction modulo p = 2^255 - 19. *)
Lemma fold255_spec : forall x, 0 <= x -> fold255 x = x mod 2 ^ 255 + 19 * (x / 2 ^ 255).
Proof.
  intros x Hx. unfold fold255, mask255.
  change (2 ^ 255 - 1) with (Z.ones 255). rewrite Z.land_ones by lia.
  rewrite Z.shiftr_div_pow2 by lia. reflexivity.
Qed.

Lemma freduce_spec : forall x, 0 <= x < 2 ^ 512 -> freduce x = x mod p25519.
Proof.
  intros x Hx. unfold freduce.
  assert (H1 : 0 <= fold255 x < 2 ^ 262).
  { rewrite fold255_spec by lia.
    assert (Ha : 0 <= x mod 2 ^ 255 < 2 ^ 255) by (apply Z.mod_pos_bound; reflexivity).
    assert (Hb : 0 <= x / 2 ^ 255 < 2 ^ 257).
    { split. apply Z.div_pos; lia. apply Z.div_lt_upper_bound. reflexivity.
      change (2 ^ 255 * 2 ^ 257) with (2 ^ 512). lia. }
    change (2 ^ 262) with (128 * 2 ^ 255). change (2 ^ 257) with (4 * 2 ^ 255) in Hb.
    set (P := 2 ^ 255) in *. clearbody P. lia. }
  assert (E1 : fold255 x mod p25519 = x mod p25519).
  { rewrite fold255_spec by lia.
    rewrite (Z.div_mod x (2 ^ 255)) at 3 by discriminate.
    replace (2 ^ 255 * (x / 2 ^ 255) + x mod 2 ^ 255)
      with (x mod 2 ^ 255 + 19 * (x / 2 ^ 255) + (x / 2 ^ 255) * p25519) by (unfold p25519; ring).
    rewrite Z.mod_add by discriminate. reflexivity. }
  set (y := fold255 x) in *.
  assert (H2 : 0 <= fold255 y < 2 ^ 255 + 19 * 128).
  { rewrite fold255_spec by lia.
    assert (0 <= y mod 2 ^ 255 < 2 ^ 255) by (apply Z.mod_pos_bound; reflexivity).
    assert (0 <= y / 2 ^ 255 < 128).
    { split. apply Z.div_pos; lia. apply Z.div_lt_upper_bound. reflexivity.
      change (2 ^ 255 * 128) with (2 ^ 262). lia. }
    lia. }
  assert (E2 : fold255 y mod p25519 = x mod p25519).
  { rewrite <- E1. rewrite fold255_spec by lia.
    rewrite (Z.div_mod y (2 ^ 255)) at 3 by discriminate.
    replace (2 ^ 255 * (y / 2 ^ 255) + y mod 2 ^ 255)
      with (y mod 2 ^ 255 + 19 * (y / 2 ^ 255) + (y / 2 ^ 255) * p25519) by (unfold p25519; ring).
    rewrite Z.mod_add by discriminate. reflexivity. }
  set (r := fold255 y) in *. rewrite <- E2.
  assert (Hp : p25519 = 2 ^ 255 - 19) by reflexivity.
  destruct (r >=? p25519) eqn:E.
  - symmetry. replace r with ((r - p25519) + 1 * p25519) at 1 by ring.
    rewrite Z.mod_add by discriminate. apply Z.mod_small. lia.
  - symmetry. apply Z.mod_small. lia.
Qed.

Lemma fmul_spec : forall a b, 0 <= a < p25519 -> 0 <= b < p25519 -> fmul a b = (a * b) mod p25519.
Proof.
  intros a b Ha Hb. unfold fmul. apply freduce_spec.
  assert (Hp : p25519 < 2 ^ 256) by reflexivity.
  split. nia. change (2 ^ 512) with (2 ^ 256 * 2 ^ 256). nia.
Qed.
Lemma fadd_spec : forall a b, 0 <= a < p25519 -> 0 <= b < p25519 -> fadd a b = (a + b) mod p25519.
Proof.
  intros a b Ha Hb. unfold fadd. cbv zeta. destruct (a + b >=? p25519) eqn:E.
  - symmetry. replace (a + b) with ((a + b - p25519) + 1 * p25519) at 1 by ring.
    rewrite Z.mod_add by discriminate. apply Z.mod_small. lia.
  - symmetry. apply Z.mod_small. lia.
Qed.
Lemma fsub_spec : forall a b, 0 <= a < p25519 -> 0 <= b < p25519 -> fsub a b = (a - b) mod p25519.
Proof.
  intros a b Ha Hb. unfold fsub. cbv zeta. destruct (a - b <? 0) eqn:E.
  - symmetry. replace (a - b) with ((a - b + p25519) + (-1) * p25519) at 1 by ring.
    rewrite Z.mod_add by discriminate. apply Z.mod_small. lia.
  - symmetry. apply Z.mod_small. lia.
Qed.

(* Only the clamped scalar matters. *)
Lemma clamp_scalar_idem : forall k, clamp_scalar (clamp_scalar k) = clamp_scalar k.
Proof.
  intros k. unfold clamp_scalar.
  apply Z.bits_inj'. intros n Hn.
  assert (Hm : forall z, Z.testbit (z mod 2 ^ 255) n = if n <? 255 then Z.testbit z n else false).
  { intros z. destruct (n <? 255) eqn:E.
    - apply Z.mod_pow2_bits_low. lia.
    - apply Z.mod_pow2_bits_high. lia. }
  rewrite !Z.lor_spec, !Z.land_spec, !Hm, Z.lor_spec, Z.land_spec, Hm.
  destruct (n <? 255) eqn:E.
  - destruct (Z.testbit (2 ^ 254) n) eqn:E2.
    + rewrite !Bool.orb_true_r. reflexivity.
    + rewrite !Bool.orb_false_r. rewrite <- Bool.andb_assoc, Bool.andb_diag. reflexivity.
  - assert (Z.testbit (2 ^ 254) n = false) as ->.
    { rewrite Z.pow2_bits_eqb by lia. apply Z.eqb_neq. lia. }
    reflexivity.
Qed.

(* RFC 7748 section 5.2, first and second test vector; section 6.1 (Alice/Bob) *)

Example rfc7748_vector1 :
  x25519
    [0xa5;0x46;0xe3;0x6b;0xf0;0x52;0x7c;0x9d;0x3b;0x16;0x15;0x4b;0x82;0x46;0x5e;0xdd;
     0x62;0x14;0x4c;0x0a;0xc1;0xfc;0x5a;0x18;0x50;0x6a;0x22;0x44;0xba;0x44;0x9a;0xc4]%N
    [0xe6;0xdb;0x68;0x67;0x58;0x30;0x30;0xdb;0x35;0x94;0xc1;0xa4;0x24;0xb1;0x5f;0x7c;
     0x72;0x66;0x24;0xec;0x26;0xb3;0x35;0x3b;0x10;0xa9;0x03;0xa6;0xd0;0xab;0x1c;0x4c]%N
  = [0xc3;0xda;0x55;0x37;0x9d;0xe9;0xc6;0x90;0x8e;0x94;0xea;0x4d;0xf2;0x8d;0x08;0x4f;
     0x32;0xec;0xcf;0x03;0x49;0x1c;0x71;0xf7;0x54;0xb4;0x07;0x55;0x77;0xa2;0x85;0x52]%N.
Proof. vm_compute. reflexivity. Qed.

(* second vector: the u-coordinate has bit 255 set (0x93 as last byte), exercising the mask *)
Example rfc7748_vector2 :
  x25519
    [0x4b;0x66;0xe9;0xd4;0xd1;0xb4;0x67;0x3c;0x5a;0xd2;0x26;0x91;0x95;0x7d;0x6a;0xf5;
     0xc1;0x1b;0x64;0x21;0xe0;0xea;0x01;0xd4;0x2c;0xa4;0x16;0x9e;0x79;0x18;0xba;0x0d]%N
    [0xe5;0x21;0x0f;0x12;0x78;0x68;0x11;0xd3;0xf4;0xb7;0x95;0x9d;0x05;0x38;0xae;0x2c;
     0x31;0xdb;0xe7;0x10;0x6f;0xc0;0x3c;0x3e;0xfc;0x4c;0xd5;0x49;0xc7;0x15;0xa4;0x93]%N
  = [0x95;0xcb;0xde;0x94;0x76;0xe8;0x90;0x7d;0x7a;0xad;0xe4;0x5c;0xb4;0xb8;0x73;0xf8;
     0x8b;0x59;0x5a;0x68;0x79;0x9f;0xa1;0x52;0xe6;0xf8;0xf7;0x64;0x7a;0xac;0x79;0x57]%N.
Proof. vm_compute. reflexivity. Qed.

Definition alice_sk : list N :=
  [0x77;0x07;0x6d;0x0a;0x73;0x18;0xa5;0x7d;0x3c;0x16;0xc1;0x72;0x51;0xb2;0x66;0x45;
   0xdf;0x4c;0x2f;0x87;0xeb;0xc0;0x99;0x2a;0xb1;0x77;0xfb;0xa5;0x1d;0xb9;0x2c;0x2a]%N.
Definition bob_sk : list N :=
  [0x5d;0xab;0x08;0x7e;0x62;0x4a;0x8a;0x4b;0x79;0xe1;0x7f;0x8b;0x83;0x80;0x0e;0xe6;
   0x6f;0x3b;0xb1;0x29;0x26;0x18;0xb6;0xfd;0x1c;0x2f;0x8b;0x27;0xff;0x88;0xe0;0xeb]%N.
Definition alice_bob_shared : list N :=
  [0x4a;0x5d;0x9d;0x5b;0xa4;0xce;0x2d;0xe1;0x72;0x8e;0x3b;0xf4;0x80;0x35;0x0f;0x25;
   0xe0;0x7e;0x21;0xc9;0x47;0xd1;0x9e;0x33;0x76;0xf0;0x9b;0x3c;0x1e;0x16;0x17;0x42]%N.

(* one instance of commutativity (the general statement is the hypothesis dh_comm) *)
Example rfc7748_dh_both_sides :
  x25519 alice_sk (x25519_base bob_sk) = alice_bob_shared /\
  x25519 bob_sk (x25519_base alice_sk) = alice_bob_shared.
Proof. split; vm_compute; reflexivity. Qed.
