(* Generated obligations about the lock discipline of internal/multiplex, over the terms
   coq/Gen/Guards.v and coq/Gen/LockGraph.v that tools/lockscan extracts from /repo on every run. *)
From Coq Require Import String List Bool.
From Cloak Require Import Gen.Guards Gen.LockGraph.
Import ListNotations.
Local Open Scope string_scope.

(* every access of variable v recorded by lockscan happens with mutex m held *)
Definition guarded_by (v m : string) : bool :=
  forallb (fun e : string * string * list string =>
             let '(v', _, locks) := e in negb (String.eqb v v') || existsb (String.eqb m) locks) guards.
Definition accessed (v : string) : bool :=
  existsb (fun e : string * string * list string => let '(v', _, _) := e in String.eqb v v') guards.

Lemma seq_guarded : guarded_by "Stream.writingFrame.Seq" "Stream.writingM" = true /\ accessed "Stream.writingFrame.Seq" = true.
Proof. split; vm_compute; reflexivity. Qed.
Lemma writing_frame_guarded : guarded_by "Stream.writingFrame" "Stream.writingM" = true /\ accessed "Stream.writingFrame" = true.
Proof. split; vm_compute; reflexivity. Qed.
Lemma streams_guarded : guarded_by "Session.streams" "Session.streamsM" = true /\ accessed "Session.streams" = true.
Proof. split; vm_compute; reflexivity. Qed.
Lemma lockscan_understood_everything : lockscan_errors = [].
Proof. reflexivity. Qed.

(* the lock-acquisition graph of internal/multiplex is acyclic: no mutex reaches itself *)
Fixpoint reach_from (fuel : nat) (edges : list (string * string)) (frontier : list string) : list string :=
  match fuel with
  | O => frontier
  | S fuel =>
      let next := flat_map (fun a => map snd (filter (fun e => String.eqb (fst e) a) edges)) frontier in
      frontier ++ reach_from fuel edges next
  end.
Definition acyclic (mutexes : list string) (edges : list (string * string)) : bool :=
  forallb (fun m =>
             let succ := map snd (filter (fun e => String.eqb (fst e) m) edges) in
             negb (existsb (String.eqb m) (reach_from (length mutexes) edges succ))) mutexes.
Lemma multiplex_lock_graph_acyclic : acyclic multiplex_mutexes multiplex_lock_edges = true.
Proof. vm_compute. reflexivity. Qed.
