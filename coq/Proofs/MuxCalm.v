(* "A healthy session keeps working" (C01, last sentence): along label sequences without
   faults, session closes and timer ticks, with at least one connection and in multiplexed mode,
   no session is ever closed, no connection is ever closed, every send succeeds and every Write on
   an open stream is accepted whole. *)
From Coq Require Import NArith ZArith List Bool Lia.
From Coq Require Import ZifyN ZifyBool.
From Cloak Require Import Model.Reorder Model.Mux Proofs.MuxBase Proofs.MuxSafety.
Import ListNotations.
Local Open Scope N_scope.

Section Calm.
Variable k : nat.

Definition valid_picks (ch : list N) : Prop := Forall (fun c => (N.to_nat c < k)%nat) ch.

Definition calm_label (l : label) : Prop :=
  match l with
  | LOpen _ | LWrite _ _ _ | LRead _ _ _ | LAccept _ | LCloseStream _ _ | LDeliver _ _ => True
  | LCloseSession _ | LFail _ | LTick _ | LBreak _ | LNotice _ _ => False
  end.

Definition pool_ok (se : session) : Prop := se_pool se <> [] /\ 1 <= se_unit se.
Definition sess_healthy (se : session) : Prop :=
  se_closed se = false /\ se_broken se = false /\ se_singleplex se = false /\ pool_ok se /\
  (forall id st, lookup id (se_objs se) = Some st -> st_wcl st <= 1).

Ltac hsolve := repeat split; first [assumption | match goal with H : pool_ok _ |- _ => apply H end].

Definition conn_healthy (cn : conn) : Prop :=
  c_clA cn = false /\ c_clB cn = false /\ c_failed cn = false /\
  (forall fr, In fr (c_toA cn) -> w_cl fr <> 2) /\ (forall fr, In fr (c_toB cn) -> w_cl fr <> 2).

Definition Healthy (y : sys) : Prop :=
  (1 <= k)%nat /\ length (sy_conns y) = k /\
  (forall n cn, nthN n (sy_conns y) = Some cn -> conn_healthy cn) /\
  sess_healthy (sess y SA) /\ sess_healthy (sess y SB).

Lemma Healthy_sess y x : Healthy y -> sess_healthy (sess y x).
Proof. intros (_ & _ & _ & Ha & Hb). destruct x; assumption. Qed.

Lemma Healthy_set_sess y x se : Healthy y -> sess_healthy se -> Healthy (set_sess y x se).
Proof.
  intros (Hk & Hl & Hc & Ha & Hb) Hse. unfold Healthy. rewrite conns_set_sess.
  split; [exact Hk|split; [exact Hl|split; [exact Hc|]]]. destruct x; cbn; auto.
Qed.
Lemma Healthy_set_pend y p : Healthy y -> Healthy (set_pend y p).
Proof. exact (fun H => H). Qed.

Lemma sess_healthy_objs se objs' :
  sess_healthy se -> (forall id st, lookup id objs' = Some st -> st_wcl st <= 1) ->
  sess_healthy (upd_objs se objs').
Proof. intros (H1 & H2 & H3 & H4 & _) Hw. hsolve. Qed.
Lemma sess_healthy_tab se t : sess_healthy se -> sess_healthy (upd_tab se t).
Proof. exact (fun H => H). Qed.
Lemma sess_healthy_count se n : sess_healthy se -> sess_healthy (upd_count se n).
Proof. exact (fun H => H). Qed.
Lemma sess_healthy_acceptq se q : sess_healthy se -> sess_healthy (upd_acceptq se q).
Proof. exact (fun H => H). Qed.
Lemma sess_healthy_nextsid se n : sess_healthy se -> sess_healthy (upd_nextsid se n).
Proof. exact (fun H => H). Qed.
Lemma sess_healthy_timers se t : sess_healthy se -> sess_healthy (upd_timers se t).
Proof. exact (fun H => H). Qed.

Lemma wcl_update objs id st' :
  (forall i st, lookup i objs = Some st -> st_wcl st <= 1) -> st_wcl st' <= 1 ->
  forall i st, lookup i (update id st' objs) = Some st -> st_wcl st <= 1.
Proof.
  intros Hw H1 i st Hl. rewrite lookup_update in Hl. destruct (i =? id); [injection Hl as <-; exact H1|eauto].
Qed.

(* ---- sending on a healthy system always succeeds ---- *)
Lemma sb_send_H y x fr p :
  Healthy y -> (N.to_nat p < k)%nat -> w_cl fr <> 2 ->
  exists y', sb_send y x fr p = (y', [EFrame x p fr], 0) /\ Healthy y' /\
             sess y' SA = sess y SA /\ sess y' SB = sess y SB.
Proof.
  intros Hh Hp Hcl. pose proof Hh as (Hk & Hl & Hc & Ha & Hb).
  destruct (Healthy_sess y x Hh) as (H1 & H2 & H3 & H4 & H5).
  unfold sb_send. rewrite H2. destruct (se_pool (sess y x)) as [|c0 t] eqn:Ep; [exfalso; apply (proj1 H4); exact Ep|].
  destruct (nthN_lt_Some (N.to_nat p) (sy_conns y)) as (cn & En); [lia|].
  rewrite En. destruct (Hc _ _ En) as (C1 & C2 & C3 & C4 & C5).
  assert (Hce : conn_closed_end cn x || c_failed cn = false) by (destruct x; cbn; rewrite ?C1, ?C2, C3; reflexivity).
  rewrite Hce. eexists. split; [reflexivity|]. split; [|split; now rewrite sess_set_conns].
  unfold Healthy. cbn [sy_conns set_conns]. rewrite length_setN, !sess_set_conns.
  split; [exact Hk|split; [exact Hl|split; [|split; assumption]]].
  intros n cn' Hn. destruct (Nat.eq_dec n (N.to_nat p)) as [->|Hne].
  - rewrite (nthN_setN_eq _ _ _ _ En) in Hn. injection Hn as <-.
    destruct x, cn; cbn in *; (split; [exact C1|split; [exact C2|split; [exact C3|split]]]); try assumption;
      intros f Hf; apply in_app_or in Hf as [Hf|[<-|[]]]; auto.
  - rewrite nthN_setN_neq in Hn by exact Hne. eauto.
Qed.

Lemma hd_pick_valid ch : valid_picks ch -> (1 <= k)%nat ->
  (N.to_nat (fst (hd_pick ch)) < k)%nat /\ valid_picks (snd (hd_pick ch)).
Proof.
  intros Hv Hk. destruct ch as [|c t]; cbn; [split; [lia|constructor]|]. inversion Hv; subst. auto.
Qed.

Lemma stream_emit_H y x sid pay ch y' ch' evs ok :
  stream_emit y x sid pay ch = (y', ch', evs, ok) -> Healthy y -> valid_picks ch ->
  Healthy y' /\ valid_picks ch' /\ (lookup sid (se_objs (sess y x)) <> None -> ok = true) /\
  (forall i, lookup i (se_objs (sess y' x)) = None <-> lookup i (se_objs (sess y x)) = None) /\
  sess y' (other x) = sess y (other x).
Proof.
  unfold stream_emit. intros H Hh Hv.
  destruct (lookup sid (se_objs (sess y x))) as [st|] eqn:El.
  2:{ injection H as <- <- <- <-. split; [exact Hh|split; [exact Hv|split; [intros Hx; exfalso; apply Hx; reflexivity|split; [tauto|reflexivity]]]]. }
  cbv zeta in H.
  destruct (Healthy_sess y x Hh) as (H1 & H2 & H3 & H4 & H5).
  set (st' := mkS (st_seq st + 1) (st_wcl st) (st_closed st) (st_rb st)) in H.
  set (y1 := set_sess y x _) in H.
  assert (Hh1 : Healthy y1).
  { unfold y1. apply Healthy_set_sess; [exact Hh|]. apply sess_healthy_objs; [hsolve|].
    apply wcl_update; [exact H5|cbn; eauto]. }
  pose proof Hh as (Hk & _).
  destruct (hd_pick_valid ch Hv Hk) as [Hp Hv'].
  destruct (hd_pick ch) as [c ch0]. cbn [fst snd] in *.
  assert (Hcl : w_cl (mkW sid (st_seq st) (st_wcl st) pay) <> 2) by (cbn; specialize (H5 _ _ El); lia).
  destruct (sb_send_H y1 x _ c Hh1 Hp Hcl) as (y2 & Es & Hh2 & Hsa & Hsb).
  rewrite Es in H. cbn in H. injection H as <- <- <- <-.
  split; [exact Hh2|split; [exact Hv'|split; [reflexivity|split]]].
  - intros i. assert (Hs : sess y2 x = sess y1 x) by (destruct x; assumption). rewrite Hs. unfold y1. rewrite sess_set_same.
    cbn [se_objs upd_objs]. rewrite lookup_update. destruct (i =? sid) eqn:E; [|tauto].
    assert (i = sid) by lia. subst i. rewrite El. split; discriminate.
  - assert (Hs : sess y2 (other x) = sess y1 (other x)) by (destruct x; assumption). rewrite Hs. unfold y1. apply sess_set_other.
Qed.

Lemma close_stream_H y x sid active ch y' ch' evs rc :
  close_stream y x sid active ch = (y', ch', evs, rc) -> Healthy y -> valid_picks ch ->
  Healthy y' /\ valid_picks ch' /\ sess y' (other x) = sess y (other x).
Proof.
  unfold close_stream. intros H Hh Hv.
  destruct (lookup sid (se_objs (sess y x))) as [st|] eqn:El; [|injection H as <- <- <- <-; auto].
  destruct (st_closed st) eqn:Ecl; [injection H as <- <- <- <-; auto|].
  cbv zeta in H.
  destruct (Healthy_sess y x Hh) as (H1 & H2 & H3 & H4 & H5).
  set (st1 := mkS _ _ true _) in H. set (y1 := set_sess y x _) in H.
  assert (Hh1 : Healthy y1).
  { unfold y1. apply Healthy_set_sess; [exact Hh|]. apply sess_healthy_objs; [hsolve|].
    apply wcl_update; [exact H5|]. cbn. destruct active; [lia|eauto]. }
  assert (Hl1 : lookup sid (se_objs (sess y1 x)) <> None).
  { unfold y1. rewrite sess_set_same. cbn [se_objs upd_objs]. rewrite lookup_update_eq. discriminate. }
  assert (Ho1 : sess y1 (other x) = sess y (other x)) by (unfold y1; apply sess_set_other).
  destruct (if active then stream_emit y1 x sid [] ch else (y1, ch, [], true)) as [[[y2 ch2] evs2] ok] eqn:Ee.
  assert (He : Healthy y2 /\ valid_picks ch2 /\ ok = true /\ sess y2 (other x) = sess y (other x)).
  { destruct active.
    - destruct (stream_emit_H _ _ _ _ _ _ _ _ _ Ee Hh1 Hv) as (Ha & Hb & Hc & _ & Hd).
      split; [exact Ha|split; [exact Hb|split; [apply Hc; exact Hl1|congruence]]].
    - injection Ee as <- <- <- <-. auto. }
  destruct He as (Hh2 & Hv2 & -> & Ho2). cbn [negb] in H.
  destruct (Healthy_sess y2 x Hh2) as (K1 & K2 & K3 & K4 & K5).
  set (se' := upd_count _ _) in H.
  assert (Hse' : sess_healthy se') by (unfold se'; apply sess_healthy_count, sess_healthy_tab; hsolve).
  assert (Hh3 : Healthy (set_sess y2 x se')) by (apply Healthy_set_sess; assumption).
  assert (Ho3 : sess (set_sess y2 x se') (other x) = sess y (other x)) by (rewrite sess_set_other; exact Ho2).
  destruct (_ =? 0).
  - assert (Hsp : se_singleplex se' = false) by exact K3. rewrite Hsp in H.
    injection H as <- <- <- <-. split; [|split; [exact Hv2|rewrite sess_set_other; exact Ho3]].
    apply Healthy_set_sess; [exact Hh3|]. apply sess_healthy_timers. rewrite ?sess_set_same. first [exact Hse'|apply (Healthy_sess _ x Hh3)].
  - injection H as <- <- <- <-. auto.
Qed.

Lemma rb_store_healthy y x sid st rb' :
  Healthy y -> lookup sid (se_objs (sess y x)) = Some st ->
  Healthy (set_sess y x (upd_objs (sess y x) (update sid (st_set_rb st rb') (se_objs (sess y x))))).
Proof.
  intros Hh El. destruct (Healthy_sess y x Hh) as (H1 & H2 & H3 & H4 & H5).
  apply Healthy_set_sess; [exact Hh|]. apply sess_healthy_objs; [hsolve|].
  apply wcl_update; [exact H5|cbn; eauto].
Qed.

Lemma recv_frame_H y x fr ch y' ch' evs :
  recv_frame y x fr ch = (y', ch', evs) -> Healthy y -> valid_picks ch -> w_cl fr <> 2 ->
  Healthy y' /\ sess y' (other x) = sess y (other x).
Proof.
  unfold recv_frame. intros H Hh Hv Hcl.
  replace (w_cl fr =? 2) with false in H by lia.
  destruct (Healthy_sess y x Hh) as (H1 & H2 & H3 & H4 & H5). rewrite H1 in H.
  assert (Hdel : forall y0, Healthy y0 -> sess y0 (other x) = sess y (other x) ->
     forall r, match lookup (w_sid fr) (se_objs (sess y0 x)) with
               | None => (y0, ch, [])
               | Some st =>
                   let '(rb', tbc, _) := rb_write (st_rb st) (mkF (w_seq fr) (negb (w_cl fr =? 0)) (w_pay fr)) in
                   let y1 := set_sess y0 x (upd_objs (sess y0 x) (update (w_sid fr) (st_set_rb st rb') (se_objs (sess y0 x)))) in
                   if tbc then let '(y2, ch2, evs2, _) := close_stream y1 x (w_sid fr) false ch in (y2, ch2, evs2)
                   else (y1, ch, [])
               end = r -> Healthy (fst (fst r)) /\ sess (fst (fst r)) (other x) = sess y (other x)).
  { intros y0 Hh0 Ho0 r Hr.
    destruct (lookup (w_sid fr) (se_objs (sess y0 x))) as [st|] eqn:El; [|subst r; auto].
    destruct (rb_write (st_rb st) _) as [[rb' tbc] er]. cbv zeta in Hr.
    pose proof (rb_store_healthy y0 x (w_sid fr) st rb' Hh0 El) as Hh1.
    destruct tbc.
    - destruct (close_stream _ x (w_sid fr) false ch) as [[[y2 ch2] evs2] rc] eqn:Ecs. subst r. cbn [fst].
      destruct (close_stream_H _ _ _ _ _ _ _ _ _ Ecs Hh1 Hv) as (Ha & _ & Hb). split; [exact Ha|].
      rewrite Hb, sess_set_other. exact Ho0.
    - subst r. cbn [fst]. split; [exact Hh1|]. rewrite sess_set_other. exact Ho0. }
  destruct (lookup (w_sid fr) (se_tab (sess y x))) as [[|]|].
  - specialize (Hdel y Hh eq_refl _ H). exact Hdel.
  - injection H as <- <- <-. auto.
  - set (se' := upd_count _ _) in H.
    assert (Hh' : Healthy (set_sess y x se')).
    { apply Healthy_set_sess; [exact Hh|]. unfold se'. apply sess_healthy_count, sess_healthy_acceptq, sess_healthy_tab.
      apply sess_healthy_objs; [hsolve|]. apply wcl_update; [exact H5|cbn; lia]. }
    specialize (Hdel _ Hh' (sess_set_other _ _ _) _ H). exact Hdel.
Qed.

Lemma write_loop_H fuel : forall y x sid data n ch y' ch' evs n' rc,
  write_loop fuel y x sid data n ch = (y', ch', evs, n', rc) -> Healthy y -> valid_picks ch ->
  Healthy y' /\ sess y' (other x) = sess y (other x) /\
  (lookup sid (se_objs (sess y x)) <> None -> 1 <= se_unit (sess y x) -> (length data < fuel)%nat ->
   rc = R_OK /\ n' = n + N.of_nat (length data)).
Proof.
  induction fuel as [|fuel IH]; intros y x sid data n ch y' ch' evs n' rc H Hh Hv; cbn in H.
  - injection H as <- <- <- <- <-. split; [exact Hh|split; [reflexivity|]]. intros _ _ Hl. lia.
  - destruct data as [|b data'].
    { injection H as <- <- <- <- <-. split; [exact Hh|split; [reflexivity|]]. intros _ _ _. split; [reflexivity|cbn; lia]. }
    set (data := b :: data') in *. set (u := N.to_nat (se_unit (sess y x))) in *.
    destruct (stream_emit y x sid (firstn u data) ch) as [[[y1 ch1] evs1] ok] eqn:Ee.
    destruct (stream_emit_H _ _ _ _ _ _ _ _ _ Ee Hh Hv) as (Hh1 & Hv1 & Hok & Hdom & Ho1).
    destruct ok.
    + destruct (write_loop fuel y1 x sid _ _ ch1) as [[[[y2 ch2] evs2] n2] rc2] eqn:Ew. injection H as <- <- <- <- <-.
      destruct (IH _ _ _ _ _ _ _ _ _ _ _ Ew Hh1 Hv1) as (Hh2 & Ho2 & Hres).
      split; [exact Hh2|split; [congruence|]]. intros Hex Hu Hlen.
      assert (Hex1 : lookup sid (se_objs (sess y1 x)) <> None) by (intros Hn; apply Hex; apply Hdom; exact Hn).
      assert (Hunit : se_unit (sess y1 x) = se_unit (sess y x)).
      { unfold stream_emit in Ee. destruct (lookup sid (se_objs (sess y x))) as [st|] eqn:El; [|congruence].
        cbv zeta in Ee. destruct (hd_pick ch) as [c ch0].
        destruct (Healthy_sess y x Hh) as (_ & _ & _ & _ & H5).
        assert (Hh1' : Healthy (set_sess y x (upd_objs (sess y x) (update sid (mkS (st_seq st + 1) (st_wcl st) (st_closed st) (st_rb st)) (se_objs (sess y x)))))).
        { apply Healthy_set_sess; [exact Hh|]. destruct (Healthy_sess y x Hh) as (K1 & K2 & K3 & K4 & K5).
          apply sess_healthy_objs; [hsolve|]. apply wcl_update; [exact K5|cbn; eauto]. }
        pose proof Hh as (Hk & _). destruct (hd_pick_valid ch Hv Hk) as [Hp _].
        unfold hd_pick in Hp. 
        destruct (sb_send _ x _ c) as [[y2' e2] rc'] eqn:Es.
        destruct (rc' =? 0) eqn:E0.
        - injection Ee as <- _ _.
          unfold sb_send in Es. rewrite sess_set_same in Es.
          destruct (se_broken _); [injection Es as <- _ _; rewrite sess_set_same; reflexivity|].
          destruct (se_pool _); [injection Es as <- _ _; rewrite sess_set_same; reflexivity|].
          destruct (nthN _ _); [|injection Es as <- _ _; rewrite sess_set_same; reflexivity].
          destruct (_ || _).
          + destruct (passive_close _ x) as [y4 e4]. injection Es as _ _ <-. discriminate.
          + injection Es as <- _ _. rewrite sess_set_conns, sess_set_same. reflexivity.
        - destruct (rc' =? 1); [destruct (passive_close y2' x) as [y3 e3]|]; discriminate Ee. }
      assert (Hlen' : (length (skipn u data) < fuel)%nat).
      { rewrite skipn_length. unfold data in *. cbn [length] in *. lia. }
      destruct (Hres Hex1 (eq_ind_r (fun z => 1 <= z) Hu Hunit) Hlen') as [-> ->].
      split; [reflexivity|]. rewrite firstn_length, skipn_length. lia.
    + injection H as <- <- <- <- <-. split; [exact Hh1|split; [exact Ho1|]]. intros Hex _ _.
      specialize (Hok Hex). discriminate.
Qed.

Lemma try_read_H y x sid n y' rc d : try_read y x sid n = Some (y', rc, d) -> Healthy y -> Healthy y'.
Proof.
  unfold try_read. intros H Hh. destruct (lookup sid (se_objs (sess y x))) as [st|] eqn:El; [|injection H as <- _ _; exact Hh].
  destruct n as [|n]; [injection H as <- _ _; exact Hh|].
  destruct (rb_read (st_rb st) (S n)) as [rb' [dd| |]]; try discriminate; injection H as <- _ _; [|exact Hh].
  apply rb_store_healthy; assumption.
Qed.
Lemma try_accept_H y x y' rc id : try_accept y x = Some (y', rc, id) -> Healthy y -> Healthy y'.
Proof.
  unfold try_accept. intros H Hh. destruct (se_acceptq (sess y x)) as [|i q].
  - destruct (se_closed (sess y x)); [injection H as <- _ _; exact Hh|discriminate].
  - injection H as <- _ _. apply Healthy_set_sess; [exact Hh|]. apply sess_healthy_acceptq, Healthy_sess, Hh.
Qed.
Lemma resolve_H ps : forall y y' ps' evs, resolve ps y = (y', ps', evs) -> Healthy y -> Healthy y'.
Proof.
  induction ps as [|p t IH]; intros y y' ps' evs H Hh; cbn in H; [injection H as <- _ _; exact Hh|].
  destruct p as [x sid n|x].
  - destruct (try_read y x sid n) as [[[y1 rc] d]|] eqn:Et.
    + destruct (resolve t y1) as [[y2 ps2] evs2] eqn:Er. injection H as <- _ _. eapply IH; [exact Er|]. eapply try_read_H; eauto.
    + destruct (resolve t y) as [[y2 ps2] evs2] eqn:Er. injection H as <- _ _. eapply IH; eauto.
  - destruct (try_accept y x) as [[[y1 rc] id]|] eqn:Et.
    + destruct (resolve t y1) as [[y2 ps2] evs2] eqn:Er. injection H as <- _ _. eapply IH; [exact Er|]. eapply try_accept_H; eauto.
    + destruct (resolve t y) as [[y2 ps2] evs2] eqn:Er. injection H as <- _ _. eapply IH; eauto.
Qed.

Lemma open_stream_H y x y' evs : open_stream y x = (y', evs) -> Healthy y -> Healthy y'.
Proof.
  unfold open_stream. intros H Hh. destruct (Healthy_sess y x Hh) as (H1 & H2 & H3 & H4 & H5).
  rewrite H1, H3 in H. cbn [andb] in H. injection H as <- _.
  apply Healthy_set_sess; [exact Hh|]. apply sess_healthy_count, sess_healthy_tab.
  apply sess_healthy_objs; [apply sess_healthy_nextsid; hsolve|].
  apply wcl_update; [exact H5|cbn; lia].
Qed.

Lemma stream_write_H y x sid data ch y' evs :
  stream_write y x sid data ch = (y', evs) -> Healthy y -> valid_picks ch ->
  Healthy y' /\
  (forall st, lookup sid (se_objs (sess y x)) = Some st -> st_closed st = false -> 1 <= se_unit (sess y x) ->
     exists evs0, evs = evs0 ++ [ERet R_OK (N.of_nat (length data)) []]).
Proof.
  unfold stream_write. intros H Hh Hv.
  destruct (lookup sid (se_objs (sess y x))) as [st|] eqn:El; [|injection H as <- <-; split; [exact Hh|discriminate]].
  destruct (st_closed st) eqn:Ec; [injection H as <- <-; split; [exact Hh|intros st0 E; injection E as <-; congruence]|].
  destruct (write_loop (S (length data)) y x sid data 0 ch) as [[[[y1 ch1] evs1] n] rc] eqn:Ew.
  injection H as <- <-.
  destruct (write_loop_H _ _ _ _ _ _ _ _ _ _ _ _ Ew Hh Hv) as (Hh1 & _ & Hres).
  split; [exact Hh1|]. intros st0 _ _ Hu.
  destruct Hres as [-> ->]; [rewrite El; discriminate|exact Hu|lia|]. eexists. reflexivity.
Qed.

Lemma deliver_pop_H y c cn x fr q :
  Healthy y -> nthN (N.to_nat c) (sy_conns y) = Some cn -> conn_q cn x = fr :: q ->
  Healthy (set_conns y (setN (N.to_nat c) (conn_set_q cn x q) (sy_conns y))) /\ w_cl fr <> 2.
Proof.
  intros (Hk & Hl & Hc & Ha & Hb) En Eq. destruct (Hc _ _ En) as (C1 & C2 & C3 & C4 & C5).
  split.
  - unfold Healthy. cbn [sy_conns set_conns]. rewrite length_setN, !sess_set_conns.
    split; [exact Hk|split; [exact Hl|split; [|split; assumption]]].
    intros n cn' Hn. destruct (Nat.eq_dec n (N.to_nat c)) as [->|Hne].
    + rewrite (nthN_setN_eq _ _ _ _ En) in Hn. injection Hn as <-.
      destruct x, cn; cbn in *; rewrite Eq in *; (split; [exact C1|split; [exact C2|split; [exact C3|split]]]); try assumption;
        intros f Hf; solve [apply C4; right; exact Hf|apply C5; right; exact Hf].
    + rewrite nthN_setN_neq in Hn by exact Hne. eauto.
  - destruct x, cn; cbn in *; rewrite Eq in *; solve [apply C4; left; reflexivity|apply C5; left; reflexivity].
Qed.

Lemma step_core_H y l ch y' evs :
  step_core y l ch = (y', evs) -> calm_label l -> Healthy y -> valid_picks ch -> Healthy y'.
Proof.
  intros H Hc Hh Hv. destruct l as [x|x sid data|x sid n|x|x sid|x|x c|c|d|c|x c]; try contradiction.
  - rewrite step_core_open in H. eapply open_stream_H; eauto.
  - rewrite step_core_write in H. eapply stream_write_H; eauto.
  - rewrite step_core_read in H. destruct (has_pending_read _ _ _); [injection H as <- _; exact Hh|].
    destruct (try_read y x sid n) as [[[y1 rc] dd]|] eqn:Et; injection H as <- _; [eapply try_read_H; eauto|exact Hh].
  - rewrite step_core_accept in H. destruct (se_closed _); [injection H as <- _; exact Hh|].
    destruct (try_accept y x) as [[[y1 rc] id]|] eqn:Et; [injection H as <- _; eapply try_accept_H; eauto|].
    destruct (has_pending_accept _ _); injection H as <- _; exact Hh.
  - rewrite step_core_close_stream in H. destruct (close_stream y x sid true ch) as [[[y1 ch1] evs1] rc] eqn:Ec.
    injection H as <- _. eapply close_stream_H; eauto.
  - rewrite step_core_deliver in H. destruct (nthN (N.to_nat c) (sy_conns y)) as [cn|] eqn:En; [|injection H as <- _; exact Hh].
    destruct (_ || _); [injection H as <- _; exact Hh|].
    destruct (conn_q cn x) as [|fr q] eqn:Eq.
    + pose proof Hh as (_ & _ & Hcs & _). destruct (Hcs _ _ En) as (C1 & C2 & _).
      assert (Hoe : conn_closed_end cn (other x) = false) by (destruct x; cbn; assumption).
      rewrite Hoe in H. injection H as <- _; exact Hh.
    + destruct (deliver_pop_H y c cn x fr q Hh En Eq) as [Hh1 Hcl].
      destruct (recv_frame _ x fr ch) as [[y2 ch2] evs2] eqn:Er. injection H as <- _.
      eapply recv_frame_H; eauto.
Qed.

Lemma step_H y l ch y' evs :
  step y l ch = (y', evs) -> calm_label l -> Healthy y -> valid_picks ch -> Healthy y'.
Proof.
  unfold step. intros H Hc Hh Hv. destruct (step_core y l ch) as [y1 evs1] eqn:Es.
  destruct (resolve (sy_pend y1) y1) as [[y2 ps] evs2] eqn:Er. injection H as <- _.
  apply Healthy_set_pend. eapply resolve_H; [exact Er|]. eapply step_core_H; eauto.
Qed.

Definition calm_run (ls : list (label * list N)) : Prop :=
  Forall (fun lc => calm_label (fst lc) /\ valid_picks (snd lc)) ls.

Lemma run_H ls : forall y y' outs, run y ls = (y', outs) -> calm_run ls -> Healthy y -> Healthy y'.
Proof.
  induction ls as [|[l ch] t IH]; intros y y' outs H Hc Hh; cbn in H; [injection H as <- _; exact Hh|].
  destruct (step y l ch) as [y1 o] eqn:Es. destruct (run y1 t) as [y2 os] eqn:Er. injection H as <- _.
  inversion Hc as [|? ? [Hl Hv] Ht]; subst. cbn in Hl, Hv.
  eapply IH; [exact Er|exact Ht|]. eapply step_H; eauto.
Qed.

Lemma init_H singleplex unit toA toB :
  (1 <= k)%nat -> 1 <= unit -> singleplex = false -> Healthy (init k singleplex unit toA toB).
Proof.
  intros Hk Hu ->. unfold Healthy, init. cbn [sy_conns sess sy_a sy_b].
  split; [exact Hk|split; [apply repeat_length|split]].
  - intros n cn Hn. assert (Hin : In cn (repeat (mkC [] [] false false false) k)).
    { clear - Hn. revert n Hn. generalize (repeat (mkC [] [] false false false) k). intros l.
      induction l as [|a t IH]; intros [|n] Hn; cbn in Hn; try discriminate; [injection Hn as <-; now left|right; eauto]. }
    apply repeat_spec in Hin. subst cn. repeat split; intros f [].
  - assert (Hs : forall to, sess_healthy (mk_session k false unit to)).
    { intros to. unfold sess_healthy, pool_ok, mk_session. cbn. repeat split; try discriminate; try exact Hu.
      destruct k; [lia|cbn; discriminate]. }
    split; apply Hs.
Qed.
End Calm.

(* ---- the statements used by Properties/C01.v ---- *)
Definition all_up (y : sys) : Prop :=
  (forall x, se_closed (sess y x) = false /\ se_broken (sess y x) = false) /\
  (forall n cn, nthN n (sy_conns y) = Some cn -> c_clA cn = false /\ c_clB cn = false /\ c_failed cn = false).

Lemma Healthy_all_up k y : Healthy k y -> all_up y.
Proof.
  intros Hh. split.
  - intros x. destruct (Healthy_sess k y x Hh) as (H1 & H2 & _). auto.
  - intros n cn Hn. destruct Hh as (_ & _ & Hc & _). destruct (Hc _ _ Hn) as (C1 & C2 & C3 & _). auto.
Qed.

(* while no connection is failed, no side closes the session, and no timer tick is taken, a
   multiplexed session over k >= 1 connections stays up after any sequence of opens, writes,
   reads, accepts, stream closes and deliveries, in any order and with any connection picks *)
Theorem healthy_session_stays_up k unit toA toB ls y outs :
  (1 <= k)%nat -> 1 <= unit -> calm_run k ls -> run (init k false unit toA toB) ls = (y, outs) -> all_up y.
Proof.
  intros Hk Hu Hc Hr. eapply Healthy_all_up, run_H; [exact Hr|exact Hc|]. now apply init_H.
Qed.

(* ... and on it every Write to a stream that is open at the writer is accepted whole *)
Theorem healthy_write_accepted k unit toA toB ls y outs x sid data ch st y' evs :
  (1 <= k)%nat -> 1 <= unit -> calm_run k ls -> run (init k false unit toA toB) ls = (y, outs) ->
  valid_picks k ch -> lookup sid (se_objs (sess y x)) = Some st -> st_closed st = false ->
  step y (LWrite x sid data) ch = (y', evs) ->
  exists e0 e1, evs = e0 ++ ERet R_OK (N.of_nat (length data)) [] :: e1.
Proof.
  intros Hk Hu Hc Hr Hv El Ecl Hs.
  assert (Hh : Healthy k y) by (eapply run_H; [exact Hr|exact Hc|now apply init_H]).
  assert (Hunit : 1 <= se_unit (sess y x)) by (destruct (Healthy_sess k y x Hh) as (_ & _ & _ & [_ Hun] & _); exact Hun).
  unfold step in Hs. rewrite step_core_write in Hs.
  destruct (stream_write y x sid data ch) as [y1 evs1] eqn:Ew.
  destruct (resolve (sy_pend y1) y1) as [[y2 ps] evs2]. injection Hs as _ <-.
  destruct (stream_write_H k _ _ _ _ _ _ _ Ew Hh Hv) as (_ & Hres).
  destruct (Hres st El Ecl Hunit) as (e0 & ->).
  exists e0, evs2. now rewrite <- app_assoc.
Qed.

Example stays_up_nonvacuous :
  calm_run 2 [(LOpen SA, []); (LWrite SA 1 [7; 8; 9], [0]); (LDeliver SB 0, []); (LRead SB 1 3, [])].
Proof. repeat constructor. Qed.
