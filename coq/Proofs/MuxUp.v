(* C01, last clause, with timers: while every connection stays healthy and neither side closes
   the session, a session keeps working through any sequence of opens, writes, reads, accepts,
   stream closes, deliveries AND inactivity-timer ticks, provided that at each tick both sides
   have an open stream.  Combines the "healthy" invariant (MuxCalm) with the counting invariant
   (MuxCount): the timer looks at the stream counter, which equals the number of open streams. *)
From Coq Require Import NArith ZArith List Bool Lia.
From Coq Require Import ZifyN ZifyBool ZifyNat.
From Cloak Require Import Model.Reorder Model.Mux Proofs.MuxBase Proofs.MuxSafety Proofs.MuxCalm Proofs.MuxCount.
Import ListNotations.
Local Open Scope N_scope.

Definition has_open (se : session) : Prop :=
  live_streams se <> [] /\ N.of_nat (length (live_streams se)) < two32.

Definition busy_at (y : sys) (l : label) : Prop :=
  match l with
  | LTick _ => forall x, has_open (sess y x)
  | LCloseSession _ | LFail _ | LBreak _ | LNotice _ _ => False
  | _ => True
  end.

Fixpoint busy_run (k : nat) (y : sys) (ls : list (label * list N)) : Prop :=
  match ls with
  | [] => True
  | (l, ch) :: t => busy_at y l /\ valid_picks k ch /\ busy_run k (fst (step y l ch)) t
  end.

Lemma fire_timers_busy fuel : forall y s ch y' ch' evs,
  fire_timers fuel y s ch = (y', ch', evs) -> se_count (sess y s) <> 0 ->
  exists ts, y' = set_sess y s (upd_timers (sess y s) ts) \/ y' = y.
Proof.
  induction fuel as [|fuel IH]; intros y s ch y' ch' evs H Hn; cbn in H.
  - injection H as <- _ _. exists []. now right.
  - destruct (se_timers (sess y s)) as [|t rest]; [injection H as <- _ _; exists []; now right|].
    destruct (t <=? sy_now y)%Z; [|injection H as <- _ _; exists []; now right].
    rewrite sess_set_same in H. cbn [se_count upd_timers] in H.
    replace (se_count (sess y s) =? 0) with false in H by lia. cbn [andb] in H.
    apply IH in H; [|rewrite sess_set_same; exact Hn].
    destruct H as (ts & [->| ->]).
    + exists ts. left. rewrite sess_set_same. destruct s, y; reflexivity.
    + exists rest. now left.
Qed.

Lemma count_nonzero se : CI se -> se_closed se = false -> has_open se -> se_count se <> 0.
Proof.
  intros Hci Hop [Hne Hlt]. destruct (Hci Hop) as (H1 & H2 & H3 & _).
  rewrite H2, <- (live_streams_count se H1 H3). rewrite N.mod_small by exact Hlt.
  destruct (live_streams se); [congruence|cbn; lia].
Qed.

Lemma tick_H k y d ch y' evs :
  step_core y (LTick d) ch = (y', evs) -> Healthy k y -> CIs y -> (forall x, has_open (sess y x)) -> Healthy k y'.
Proof.
  intros H Hh Hc Hb. rewrite step_core_tick in H.
  destruct (fire_timers 64 (set_now y (sy_now y + d)%Z) SA ch) as [[y1 ch1] e1] eqn:E1.
  destruct (fire_timers 64 y1 SB ch1) as [[y2 ch2] e2] eqn:E2. injection H as <- _.
  assert (Hcnt : forall x, se_count (sess y x) <> 0).
  { intros x. apply count_nonzero; [apply Hc| |apply Hb]. destruct (Healthy_sess k y x Hh) as (Hcl & _). exact Hcl. }
  assert (Hh0 : Healthy k (set_now y (sy_now y + d)%Z)) by exact Hh.
  apply fire_timers_busy in E1; [|rewrite sess_set_now; apply Hcnt].
  assert (Hh1 : Healthy k y1 /\ se_count (sess y1 SB) = se_count (sess y SB)).
  { destruct E1 as (ts & [->| ->]).
    - split; [|reflexivity]. apply Healthy_set_sess; [exact Hh0|]. apply sess_healthy_timers. apply (Healthy_sess k _ SA Hh0).
    - split; [exact Hh0|reflexivity]. }
  destruct Hh1 as [Hh1 Hc1].
  apply fire_timers_busy in E2; [|rewrite Hc1; apply Hcnt].
  destruct E2 as (ts & [->| ->]); [|exact Hh1].
  apply Healthy_set_sess; [exact Hh1|]. apply sess_healthy_timers. apply (Healthy_sess k _ SB Hh1).
Qed.

Lemma busy_step k y l ch y' evs :
  step y l ch = (y', evs) -> busy_at y l -> valid_picks k ch -> Healthy k y -> CIs y -> Healthy k y'.
Proof.
  intros H Hb Hv Hh Hc. destruct l; try (eapply step_H; eauto; exact I); try contradiction.
  unfold step in H. destruct (step_core y (LTick d) ch) as [y1 evs1] eqn:Es.
  destruct (resolve (sy_pend y1) y1) as [[y2 ps] evs2] eqn:Er. injection H as <- _.
  apply Healthy_set_pend. eapply resolve_H; [exact Er|]. eapply tick_H; eauto.
Qed.

Lemma busy_run_H k ls : forall y y' os,
  run y ls = (y', os) -> busy_run k y ls -> fresh_opens y ls -> WF y -> CIs y -> Healthy k y -> Healthy k y'.
Proof.
  induction ls as [|[l ch] t IH]; intros y y' os H Hb Hf Hwf Hc Hh; cbn in H; [injection H as <- _; exact Hh|].
  destruct (step y l ch) as [y1 o] eqn:Es. destruct (run y1 t) as [y2 os2] eqn:Er. injection H as <- _.
  destruct Hb as (Hb1 & Hv & Hb2). destruct Hf as [Hf1 Hf2]. rewrite Es in Hb2, Hf2. cbn [fst] in Hb2, Hf2.
  eapply IH; [exact Er|exact Hb2|exact Hf2|eapply step_WF; eauto|eapply step_CIs; eauto|eapply busy_step; eauto].
Qed.

Theorem session_with_open_streams_stays_up k unit toA toB ls :
  (1 <= k)%nat -> 1 <= unit ->
  fresh_opens (init k false unit toA toB) ls -> busy_run k (init k false unit toA toB) ls ->
  all_up (reach k false unit toA toB ls).
Proof.
  intros Hk Hu Hf Hb. unfold reach. destruct (run (init k false unit toA toB) ls) as [y os] eqn:Er. cbn [fst].
  eapply Healthy_all_up, busy_run_H; [exact Er|exact Hb|exact Hf|apply init_WF|apply init_CIs|now apply init_H].
Qed.

(* non-vacuity: a tick far beyond the inactivity timeout while a stream is open on both sides *)
Definition busy_example_run : list (label * list N) :=
  [(LOpen SA, []); (LWrite SA 1 [7; 8; 9], [0]); (LDeliver SB 0, []); (LTick 99000000000, [])].
Example busy_example :
  busy_run 2 (init 2 false 331 30000000000 45000000000) busy_example_run /\
  fresh_opens (init 2 false 331 30000000000 45000000000) busy_example_run.
Proof.
  unfold busy_example_run. cbn [busy_run busy_at fresh_opens]. split.
  - split; [exact I|split; [constructor|]].
    split; [exact I|split; [repeat constructor|]].
    split; [exact I|split; [constructor|]].
    split; [|split; [constructor|exact I]].
    intros x. unfold has_open. destruct x; vm_compute; split; congruence.
  - split; [intros x E; injection E as <-; reflexivity|].
    split; [intros x E; discriminate|]. split; [intros x E; discriminate|]. split; [intros x E; discriminate|exact I].
Qed.
