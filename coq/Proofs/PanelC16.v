(* C16: usage is charged exactly once.  The ledger invariant of the panel model. *)
From Coq Require Import ZArith NArith List Bool Lia Arith.
From Cloak Require Import Model.Panel Proofs.PanelLocks Proofs.PanelWF Proofs.PanelOwn.
Import ListNotations.
Local Open Scope Z_scope.

(* one direction of a pair: true = up (rx, UpCredit), false = down (tx, DownCredit) *)
Definition dsel (b : bool) (p : ZZ) : Z := if b then fst p else snd p.
Lemma dsel_padd : forall b x y, dsel b (padd x y) = dsel b x + dsel b y.
Proof. intros [] [? ?] [? ?]; reflexivity. Qed.
Lemma dsel_psub : forall b x y, dsel b (psub x y) = dsel b x - dsel b y.
Proof. intros [] [? ?] [? ?]; reflexivity. Qed.
Lemma dsel_pzero : forall b, dsel b pzero = 0.
Proof. intros []; reflexivity. Qed.

Fixpoint sumz (n : nat) (f : nat -> Z) : Z :=
  match n with O => 0 | S m => sumz m f + f m end.

Lemma sumz_ext : forall n f g, (forall i, (i < n)%nat -> f i = g i) -> sumz n f = sumz n g.
Proof.
  induction n as [|n IH]; cbn; intros f g H; auto.
  rewrite (IH f g), H; auto.
Qed.

Lemma sumz_change : forall n f g i, (i < n)%nat -> (forall j, j <> i -> g j = f j) ->
  sumz n g = sumz n f - f i + g i.
Proof.
  induction n as [|n IH]; cbn; intros f g i Hi H; [lia|].
  destruct (Nat.eq_dec i n) as [->|ne].
  - rewrite (sumz_ext n g f); [lia|]. intros j Hj. apply H. lia.
  - rewrite (IH f g i); [|lia|assumption]. rewrite (H n); [lia|auto].
Qed.

(* ------------------------------------------------------------------ the terms of the ledger *)
Definition vterm (b : bool) (u : N) (x : arec) : Z :=
  if N.eqb (r_uid x) u then dsel b (r_valve x) else 0.
Definition vsum (b : bool) (s : state) (u : N) : Z :=
  sumz (nrec s) (fun r => vterm b u (recs s r)).

(* usage a terminating thread has swapped out of the valve and not yet put into the queue *)
Definition lterm (b : bool) (u : N) (rs : nat -> arec) (p : pc) : Z :=
  match p with
  | TN1 r v _ _ | TN2 r v _ _ => if N.eqb (r_uid (rs r)) u then dsel b v else 0
  | _ => 0
  end.
Definition lsum (b : bool) (s : state) (u : N) : Z :=
  sumz (nthr s) (fun t => lterm b u (recs s) (thr s t)).

(* usage taken out of the queue by a commitUpdate that has not called UploadStatus yet *)
Definition iterm (b : bool) (u : N) (p : pc) : Z :=
  match p with M8 st => dsel b (qsum u st) | _ => 0 end.
Definition isum (b : bool) (s : state) (u : N) : Z :=
  sumz (nthr s) (fun t => iterm b u (thr s t)).

Definition ledger (b : bool) (s : state) (u : N) : Z :=
  dsel b (g_chg s u) + dsel b (g_nou s u) + dsel b (qsum u (queue s))
  + vsum b s u + lsum b s u + isum b s u.

(* ------------------------------------------------------------------ queue, upload *)
Lemma qsum_qadd : forall b u u' v q,
  dsel b (qsum u (qadd u' v q)) = dsel b (qsum u q) + (if N.eqb u u' then dsel b v else 0).
Proof.
  induction q as [|[x w] q IH]; cbn.
  - destruct (N.eqb u u'); rewrite ?dsel_padd, ?dsel_pzero; lia.
  - destruct (N.eqb_spec u' x) as [->|ne]; cbn.
    + destruct (N.eqb u x); rewrite ?dsel_padd; lia.
    + destruct (N.eqb u x); rewrite ?dsel_padd, IH; lia.
Qed.

Lemma upload_ledger : forall b u nw st d chg nou,
  let '(d', rs, chg', nou') := upload nw d chg nou st in
  dsel b (chg' u) + dsel b (nou' u) = dsel b (chg u) + dsel b (nou u) + dsel b (qsum u st).
Proof.
  induction st as [|[x us] st IH]; intros d chg nou; cbn.
  - rewrite dsel_pzero; lia.
  - destruct (d x) as [r|].
    + specialize (IH (updN d x (Some (mkDb (d_cap r) (wrap64 (fst (d_credit r) - fst us), wrap64 (snd (d_credit r) - snd us)) (d_exp r))))
                     (updN chg x (padd (chg x) us)) nou).
      destruct (upload _ _ _ _ st) as [[[d' rs] chg'] nou']. rewrite IH.
      unfold updN. cbn [qsum]. destruct (N.eqb_spec u x) as [->|ne]; rewrite ?dsel_padd; lia.
    + specialize (IH d chg (updN nou x (padd (nou x) us))).
      destruct (upload _ _ _ _ st) as [[[d' rs] chg'] nou']. rewrite IH.
      unfold updN. cbn [qsum]. destruct (N.eqb_spec u x) as [->|ne]; rewrite ?dsel_padd; lia.
Qed.

(* the loop of updateUsageQueue moves usage from the valves into the queue *)
Lemma nullify_all_ledger : forall b u n tb rs q,
  let '(rs', q') := nullify_all n tb rs q in
  sumz n (fun r => vterm b u (rs' r)) + dsel b (qsum u q')
  = sumz n (fun r => vterm b u (rs r)) + dsel b (qsum u q)
  /\ (forall r, (n <= r)%nat -> rs' r = rs r).
Proof.
  induction n as [|n IH]; intros tb rs q; cbn; [split; auto|].
  specialize (IH tb rs q). destruct (nullify_all n tb rs q) as [rs1 q1]. destruct IH as [IH Hout].
  assert (Hn : rs1 n = rs n) by (apply Hout; lia).
  destruct (tb (r_uid (rs1 n))) as [r'|].
  - destruct (Nat.eqb r' n && negb (r_bypass (rs1 n))) eqn:E.
    + split.
      * rewrite (sumz_ext n _ (fun r => vterm b u (rs1 r))).
        2:{ intros i Hi. rewrite upd_other by lia. reflexivity. }
        rewrite upd_same, qsum_qadd. unfold vterm at 2. cbn [r_uid r_valve].
        rewrite <- Hn. unfold vterm at 3. rewrite (N.eqb_sym u).
        destruct (N.eqb (r_uid (rs1 n)) u); rewrite ?dsel_pzero; lia.
      * intros r Hr. rewrite upd_other by lia. apply Hout. lia.
    + split; [rewrite Hn; lia | intros r Hr; apply Hout; lia].
  - split; [rewrite Hn; lia | intros r Hr; apply Hout; lia].
Qed.

(* ------------------------------------------------------------------ moving one thread *)
Lemma lterm_stable : forall b u rs rs' p n,
  (forall r, pc_rid p = Some r -> (r < n)%nat) ->
  (forall r, (r < n)%nat -> r_uid (rs' r) = r_uid (rs r)) ->
  lterm b u rs' p = lterm b u rs p.
Proof.
  intros b u rs rs' p n Hp Hu. destruct p; cbn; auto; rewrite Hu; auto; apply Hp; reflexivity.
Qed.

Lemma ledger_move : forall b u s s' t p',
  (t < nthr s)%nat -> nthr s' = nthr s -> thr s' = upd (thr s) t p' ->
  (forall t0 r, pc_rid (thr s t0) = Some r -> (r < nrec s)%nat) ->
  (forall r, (r < nrec s)%nat -> r_uid (recs s' r) = r_uid (recs s r)) ->
  ledger b s' u =
    dsel b (g_chg s' u) + dsel b (g_nou s' u) + dsel b (qsum u (queue s')) + vsum b s' u
    + (lsum b s u - lterm b u (recs s) (thr s t) + lterm b u (recs s') p')
    + (isum b s u - iterm b u (thr s t) + iterm b u p').
Proof.
  intros b u s s' t p' Ht EN ET Hpc Hu. unfold ledger, lsum, isum. rewrite EN, ET.
  assert (E1 : sumz (nthr s) (fun t0 => lterm b u (recs s') (upd (thr s) t p' t0))
               = sumz (nthr s) (fun t0 => lterm b u (recs s) (thr s t0))
                 - lterm b u (recs s) (thr s t) + lterm b u (recs s') p').
  { rewrite (sumz_change (nthr s) (fun t0 => lterm b u (recs s) (thr s t0))
                         (fun t0 => lterm b u (recs s') (upd (thr s) t p' t0)) t Ht).
    - now rewrite upd_same.
    - intros j Hj. rewrite upd_other by assumption. eapply lterm_stable; eauto. }
  assert (E2 : sumz (nthr s) (fun t0 => iterm b u (upd (thr s) t p' t0))
               = sumz (nthr s) (fun t0 => iterm b u (thr s t0)) - iterm b u (thr s t) + iterm b u p').
  { rewrite (sumz_change (nthr s) (fun t0 => iterm b u (thr s t0))
                         (fun t0 => iterm b u (upd (thr s) t p' t0)) t Ht).
    - now rewrite upd_same.
    - intros j Hj. now rewrite upd_other. }
  rewrite E1, E2. lia.
Qed.

Lemma vsum_frame : forall b u s s',
  nrec s' = nrec s ->
  (forall r, (r < nrec s)%nat -> r_uid (recs s' r) = r_uid (recs s r) /\ r_valve (recs s' r) = r_valve (recs s r)) ->
  vsum b s' u = vsum b s u.
Proof.
  intros b u s s' EN H. unfold vsum. rewrite EN. apply sumz_ext. intros i Hi.
  unfold vterm. destruct (H i Hi) as [-> ->]. reflexivity.
Qed.

Lemma vsum_upd : forall b u s s' r x,
  nrec s' = nrec s -> recs s' = upd (recs s) r x -> (r < nrec s)%nat ->
  vsum b s' u = vsum b s u - vterm b u (recs s r) + vterm b u x.
Proof.
  intros b u s s' r x EN ER Hr. unfold vsum. rewrite EN, ER.
  rewrite (sumz_change (nrec s) (fun r0 => vterm b u (recs s r0)) _ r Hr).
  - cbv beta. now rewrite upd_same.
  - intros j Hj. cbv beta. now rewrite upd_other.
Qed.

Lemma vsum_new : forall b u s s' x,
  nrec s' = S (nrec s) -> recs s' = upd (recs s) (nrec s) x ->
  vsum b s' u = vsum b s u + vterm b u x.
Proof.
  intros b u s s' x EN ER. unfold vsum. rewrite EN, ER. cbn [sumz]. rewrite upd_same.
  f_equal. apply sumz_ext. intros i Hi. rewrite upd_other by lia. reflexivity.
Qed.

(* ------------------------------------------------------------------ the invariant *)
Definition skip_of (p : pc) : list N :=
  match p with
  | M1 _ sk | M2 _ _ sk | M3 _ _ _ sk | M4 _ _ _ sk | M5 _ _ sk | M6 _ _ sk => sk
  | _ => []
  end.
Definition tn_of (p : pc) : option nat :=
  match p with TN1 r _ _ _ | TN2 r _ _ _ => Some r | _ => None end.

Record CInv (c : cfg) (s : state) : Prop := {
  c_q : forall u v, In (u, v) (queue s) -> is_bypass c u = false;
  c_skip : forall t u, In u (skip_of (thr s t)) -> is_bypass c u = true;
  c_tn : forall t r, tn_of (thr s t) = Some r -> r_bypass (recs s r) = false;
  c_ledger : forall b u, ledger b s u = dsel b (g_cnt s u)
}.

Lemma CInv_init : forall c d nw, CInv c (init d nw).
Proof.
  intros; constructor; cbn; intros; try contradiction; try discriminate.
  unfold ledger, vsum, lsum, isum; cbn. destruct b; reflexivity.
Qed.

Lemma qadd_in : forall u w u' v q, In (u, w) (qadd u' v q) -> u = u' \/ exists w', In (u, w') q.
Proof.
  induction q as [|[x y] q IH]; cbn; intros H.
  - destruct H as [H|[]]. injection H as -> _. now left.
  - destruct (N.eqb_spec u' x) as [->|ne]; cbn in H.
    + destruct H as [H|H]; [injection H as -> _; now left | right; eauto].
    + destruct H as [H|H]; [injection H as -> ->; right; eauto|].
      destruct (IH H) as [E|[w' Hw]]; [now left | right; eauto].
Qed.

Lemma nullify_all_queue : forall n tb rs q u w,
  In (u, w) (snd (nullify_all n tb rs q)) ->
  (exists w', In (u, w') q) \/ (exists r, (r < n)%nat /\ r_uid (rs r) = u /\ r_bypass (rs r) = false).
Proof.
  induction n as [|n IH]; cbn; intros tb rs q u w H; [left; eauto|].
  pose proof (nullify_all_ledger true u n tb rs q) as L.
  specialize (IH tb rs q u). destruct (nullify_all n tb rs q) as [rs1 q1]. destruct L as [_ Hout].
  assert (Hn : rs1 n = rs n) by (apply Hout; lia). cbn [snd] in IH.
  assert (Hstep : forall w0, In (u, w0) q1 ->
            (exists w', In (u, w') q) \/ (exists r, (r < S n)%nat /\ r_uid (rs r) = u /\ r_bypass (rs r) = false)).
  { intros w0 H0. destruct (IH w0 H0) as [?|(r&?&?&?)]; [now left | right; exists r; repeat split; auto; lia]. }
  destruct (tb (r_uid (rs1 n))) as [r'|]; [|eapply Hstep; eauto].
  destruct (Nat.eqb r' n && negb (r_bypass (rs1 n))) eqn:E; cbn [snd] in H; [|eapply Hstep; eauto].
  apply qadd_in in H. destruct H as [->|[w' H]]; [|eapply Hstep; eauto].
  right. exists n. rewrite <- Hn. apply andb_prop in E. destruct E as [_ E]. apply negb_true_iff in E.
  repeat split; auto.
Qed.

Ltac uid_stable :=
  let r0 := fresh "r0" in let L := fresh "L" in
  intros r0 L; sim; try nullify_norm; upd_cases; try subst; simr; try reflexivity; try congruence; try lia.

(* bring the goal  ledger b S' u = dsel b (g_cnt S' u)  into the normal form of ledger_move *)
Ltac ledger_norm Ht wp :=
  match goal with
  | |- ledger ?b ?S' ?u = _ =>
      let T := eval cbn [thr set_table set_nrec set_recs set_nses set_sess set_queue set_db set_now set_lkQ set_lkA
                         set_lkS set_nthr set_thr set_g_cnt set_g_chg set_g_nou set_g_adm set_g_log goto set_rec set_lkS1]
               in (thr S') in
      match T with
      | upd (thr ?s) ?t ?P' =>
          rewrite (ledger_move b u s S' t P' Ht eq_refl eq_refl wp); [| uid_stable]
      end
  end.

Lemma skip_seq_pc : forall rest r k, skip_of (seq_pc rest r k) = [].
Proof. intros rest r k. destruct rest as [|[] ?]; cbn; auto. destruct k; auto. Qed.
Lemma skip_m9 : forall k, skip_of (m9 k) = [].
Proof. destruct k; auto. Qed.
Lemma tn_seq_pc : forall rest r k, tn_of (seq_pc rest r k) = None.
Proof. intros rest r k. destruct rest as [|[] ?]; cbn; auto. destruct k; auto. Qed.
Lemma tn_m9 : forall k, tn_of (m9 k) = None.
Proof. destruct k; auto. Qed.
Lemma lterm_seq_pc : forall b u rs rest r k, lterm b u rs (seq_pc rest r k) = 0.
Proof. intros. destruct rest as [|[] ?]; cbn; auto. destruct k; auto. Qed.
Lemma lterm_m9 : forall b u rs k, lterm b u rs (m9 k) = 0.
Proof. intros. destruct k; auto. Qed.
Lemma iterm_seq_pc : forall b u rest r k, iterm b u (seq_pc rest r k) = 0.
Proof. intros. destruct rest as [|[] ?]; cbn; auto. destruct k; auto. Qed.
Lemma iterm_m9 : forall b u k, iterm b u (m9 k) = 0.
Proof. intros. destruct k; auto. Qed.

Ltac pc_zero :=
  unfold term_enter in *;
  rewrite ?skip_seq_pc, ?skip_m9, ?tn_seq_pc, ?tn_m9, ?lterm_seq_pc, ?lterm_m9, ?iterm_seq_pc, ?iterm_m9 in *.

Ltac skip_goal :=
  let t0 := fresh "t0" in let u0 := fresh "u0" in let Hin := fresh "Hin" in
  intros t0 u0 Hin;
  match goal with
  | Hin : In _ (skip_of (upd (thr _) ?t _ t0)) |- _ =>
      destruct (Nat.eq_dec t0 t) as [->|ne];
      [ rewrite upd_same in Hin; pc_zero; cbn [skip_of In] in Hin;
        try contradiction;
        try (destruct Hin as [Hin|Hin]; [subst|]);
        eauto; try congruence
      | rewrite upd_other in Hin by assumption; eauto ]
  end.

Ltac tn_goal :=
  let t0 := fresh "t0" in let r0 := fresh "r0" in let Hr := fresh "Hr" in
  intros t0 r0 Hr; try nullify_norm;
  match goal with
  | Hr : tn_of (upd (thr _) ?t _ t0) = Some _, ct : (forall t r, tn_of (thr _ t) = Some r -> _) |- _ =>
      destruct (Nat.eq_dec t0 t) as [->|ne];
      [ rewrite upd_same in Hr; pc_zero; cbn [tn_of] in Hr; try discriminate Hr;
        injection Hr as <-; upd_cases; try subst; simr; eauto; try congruence
      | rewrite upd_other in Hr by assumption; apply ct in Hr; upd_cases; try subst; simr; eauto; try congruence ]
  end.

Ltac vsum_norm s :=
  match goal with
  | |- context [vsum ?b ?S' ?u] =>
      first [ rewrite (vsum_upd b u s S' _ _ eq_refl eq_refl) by assumption
            | rewrite (vsum_new b u s S' _ eq_refl eq_refl)
            | rewrite (vsum_frame b u s S' eq_refl) by (intros; sim; split; reflexivity) ]
  end.

Ltac arith_fin :=
  sim; unfold vterm; cbn [lterm iterm]; simr;
  repeat match goal with H : thr _ _ = _ |- _ => rewrite H in * end;
  pc_zero; cbn [lterm iterm] in *;
  rewrite ?upd_same in *; simr;
  rewrite ?dsel_padd, ?dsel_pzero, ?qsum_qadd in *; cbn [qsum] in *; rewrite ?dsel_pzero in *;
  repeat match goal with
  | |- context [N.eqb ?a ?b] => destruct (N.eqb_spec a b); try subst
  | H : context [N.eqb ?a ?b] |- _ => destruct (N.eqb_spec a b); try subst
  end;
  unfold updN in *;
  repeat match goal with
  | |- context [N.eqb ?a ?b] => destruct (N.eqb_spec a b); try subst
  end;
  rewrite ?dsel_padd, ?dsel_pzero in *;
  try lia; try congruence;
  try (match goal with b : bool |- _ => destruct b end; cbn [dsel fst snd] in *; lia).

Lemma tn_rid : forall p r, tn_of p = Some r -> pc_rid p = Some r.
Proof. destruct p; cbn; intros; try discriminate; congruence. Qed.
Lemma memN_in : forall u l, memN u l = true -> In u l.
Proof.
  induction l as [|x l IH]; cbn; [discriminate|]. destruct (N.eqb_spec u x); [subst; auto | auto].
Qed.
Lemma filter_all : forall A (f : A -> bool) l, (forall x, In x l -> f x = true) -> filter f l = l.
Proof.
  induction l as [|x l IH]; cbn; intros H; auto. rewrite (H x) by auto. f_equal. apply IH. auto.
Qed.

Ltac ledger_start :=
  let b := fresh "b" in let u0 := fresh "u0" in
  intros b u0;
  match goal with
  | Ht : (?t < nthr ?s)%nat, wp : (forall t r, pc_rid (thr ?s t) = Some r -> _),
    cl : (forall b u, ledger b ?s u = _) |- _ =>
      ledger_norm Ht wp; pose proof (cl b u0) as CL; unfold ledger in CL
  end.

(* U2: the loop moves usage from the valves into the queue *)
Ltac u2_ledger :=
  ledger_start;
  match goal with
  | Hn : nullify_all ?n ?tb ?rs ?q = _, CL : _ = dsel ?b (g_cnt _ ?u0), Hpc : thr _ _ = _ |- _ =>
      pose proof (nullify_all_ledger b u0 n tb rs q) as NL; rewrite Hn in NL; destruct NL as [NL _];
      unfold vsum in *; sim; rewrite Hpc in *; cbn [lterm iterm] in *; lia
  end.

(* M1 []: the statuses are the whole queue (nothing is skipped: the queue holds limited uids only) *)
Ltac m1_ledger :=
  ledger_start;
  match goal with
  | Hf : filter ?f (queue ?s) = _, Hpc : thr ?s _ = M1 [] ?skip,
    CS : (forall u, In u ?skip -> _), cq : (forall u v, In (u, v) (queue ?s) -> _) |- _ =>
      vsum_norm s;
      assert (Hall : filter f (queue s) = queue s);
      [ apply filter_all; intros [x w] Hx; cbn; apply negb_true_iff;
        destruct (memN x skip) eqn:E;
        [apply memN_in in E; pose proof (CS _ E); pose proof (cq _ _ Hx); congruence | reflexivity]
      | rewrite Hall in Hf; rewrite Hf in *;
        sim; rewrite Hpc in *; cbn [lterm iterm qsum] in *; rewrite ?dsel_pzero in *; lia ]
  end.

(* M8: UploadStatus books every status either as charged or as reported for a missing user *)
Ltac m8_ledger :=
  ledger_start;
  match goal with
  | Hu : upload ?nw ?d ?chg ?nou ?st = _, CL : _ = dsel ?b (g_cnt ?s ?u0), Hpc : thr ?s _ = _ |- _ =>
      vsum_norm s;
      pose proof (upload_ledger b u0 nw st d chg nou) as UL; rewrite Hu in UL;
      sim; rewrite Hpc in *; pc_zero; cbn [lterm iterm] in *; lia
  end.

Section Step.
Variable c : cfg.

Lemma tstep_CInv : forall s t ch s', (t < nthr s)%nat -> WF c s -> CInv c s -> tstep c s t ch = Some s' -> CInv c s'.
Proof.
  intros s t ch s' Ht HW HC H.
  destruct HW as [wt wp wu ws wm wn wl wb wg].
  destruct HC as [cq cs ct cl].
  pose proof (cs t) as CS. pose proof (ct t) as CT.
  tstep_cases H c s t.
  all: cbn [skip_of tn_of] in CS, CT.
  all: own_facts.
  all: constructor; sim; try assumption.
  all: try solve [skip_goal].
  all: try solve [tn_goal].
  all: try solve [intros b u0; ledger_norm Ht wp; pose proof (cl b u0) as CL; unfold ledger in CL;
                  vsum_norm s; arith_fin].
  all: try solve [intros; contradiction].
  (* D1: tn conjunct - a record named by a terminating thread is an old one *)
  all: try solve [
    intros t0 r0 Hr; destruct (Nat.eq_dec t0 t) as [->|ne];
    [ rewrite upd_same in Hr; discriminate Hr
    | rewrite upd_other in Hr by assumption;
      pose proof (wp _ _ (tn_rid _ _ Hr)); apply ct in Hr; rewrite upd_other by lia; exact Hr ] ].
  (* TN2: the uid put into the queue belongs to a limited record *)
  all: try solve [
    intros u0 v0 Hin; apply qadd_in in Hin; destruct Hin as [->|[w' Hin]]; [|eauto];
    match goal with Wp : (?r < nrec _)%nat |- _ =>
      rewrite <- (wb r Wp); apply (ct t); rewrite Hpc; reflexivity end ].
  (* U2: queue entries *)
  all: try solve [
    intros u0 v0 Hin;
    match goal with Hn : nullify_all ?n ?tb ?rs ?q = (_, ?l) |- _ =>
      replace l with (snd (nullify_all n tb rs q)) in Hin by (rewrite Hn; reflexivity) end;
    apply nullify_all_queue in Hin; destruct Hin as [[w' Hin]|(r0&L&<-&Hb)]; [eauto|];
    rewrite <- (wb r0 L); exact Hb ].
  (* M2: the skipped uid is a bypass uid *)
  all: try solve [
    intros t0 u0 Hin; destruct (Nat.eq_dec t0 t) as [->|ne];
    [ rewrite upd_same in Hin; cbn [skip_of In] in Hin; destruct Hin as [<-|Hin]; [|eauto];
      match goal with Hb : r_bypass (recs _ ?n) = true, L : (?n < nrec _)%nat, E : r_uid (recs _ ?n) = _ |- _ =>
        rewrite <- E, <- (wb n L); exact Hb end
    | rewrite upd_other in Hin by assumption; eauto ] ].
  all: try solve [u2_ledger].
  all: try solve [m1_ledger].
  all: try solve [m8_ledger].
Qed.

Lemma sumz_zero_tail : forall n f x, sumz (S n) (upd f n x) = sumz n f + x.
Proof.
  intros. cbn. rewrite upd_same. f_equal. apply sumz_ext. intros i Hi. now rewrite upd_other by lia.
Qed.

Lemma step_CInv : forall s l s', WF c s -> CInv c s -> step c s l = Some s' -> CInv c s'.
Proof.
  intros s l s' HW HC H. destruct l; cbn [step] in H.
  - (* Spawn *)
    destruct (start_pc s o) eqn:E; [|discriminate]. injection H as <-.
    assert (Hp : skip_of p = [] /\ tn_of p = None /\ (forall b u rs, lterm b u rs p = 0) /\ (forall b u, iterm b u p = 0)).
    { destruct o; cbn [start_pc] in E; try (injection E as <-; repeat split; reflexivity).
      destruct (Nat.ltb r (nrec s)); [|discriminate E]. injection E as <-. repeat split; reflexivity. }
    destruct Hp as (P1&P2&P3&P4). destruct HC as [cq cs ct cl]. constructor; sim; auto.
    + intros t u Hin. destruct (Nat.eq_dec t (nthr s)) as [->|ne];
        [rewrite upd_same, P1 in Hin; contradiction | rewrite upd_other in Hin by assumption; eauto].
    + intros t r Hr. destruct (Nat.eq_dec t (nthr s)) as [->|ne];
        [rewrite upd_same, P2 in Hr; discriminate | rewrite upd_other in Hr by assumption; eauto].
    + intros b u. rewrite <- (cl b u). unfold ledger, lsum, isum, vsum. sim. cbn [sumz].
      rewrite !upd_same, P3, P4.
      rewrite (sumz_ext (nthr s) (fun t0 => lterm b u (recs s) (upd (thr s) (nthr s) p t0))
                        (fun t0 => lterm b u (recs s) (thr s t0))) by (intros i Hi; now rewrite upd_other by lia).
      rewrite (sumz_ext (nthr s) (fun t0 => iterm b u (upd (thr s) (nthr s) p t0))
                        (fun t0 => iterm b u (thr s t0))) by (intros i Hi; now rewrite upd_other by lia).
      lia.
  - destruct (Nat.ltb_spec t (nthr s)); [|discriminate]. eapply tstep_CInv; eauto.
  - (* Traffic *)
    destruct (Nat.ltb_spec k (nses s)) as [Hk|]; cbn [andb] in H; [|discriminate].
    destruct (negb _ && _ && _); [|discriminate].
    destruct (r_bypass _) eqn:Eb; injection H as <-; [assumption|].
    pose proof (w_ses _ _ HW k Hk) as Hr.
    destruct HC as [cq cs ct cl]. constructor; sim; auto.
    + intros t r Hrr. apply ct in Hrr. destruct (Nat.eq_dec r (s_owner (sess s k))) as [e|e];
        [rewrite e in *; rewrite upd_same; simr; auto | rewrite upd_other by assumption; auto].
    + intros b u. pose proof (cl b u) as CL. unfold ledger in *.
      match goal with |- context [vsum b ?S' u] =>
        rewrite (vsum_upd b u s S' (s_owner (sess s k)) _ eq_refl eq_refl Hr) end.
      unfold lsum, isum in *. sim.
      rewrite (sumz_ext (nthr s) (fun t0 => lterm b u (upd (recs s) (s_owner (sess s k)) _) (thr s t0))
                        (fun t0 => lterm b u (recs s) (thr s t0))).
      2:{ intros i Hi. apply lterm_stable with (n := nrec s); [apply (w_pc _ _ HW)|].
          intros r Lr. destruct (Nat.eq_dec r (s_owner (sess s k))) as [e|e];
            [rewrite e; rewrite upd_same; reflexivity | rewrite upd_other by assumption; reflexivity]. }
      unfold vterm, updN; simr. rewrite (N.eqb_sym u).
      destruct (N.eqb_spec (r_uid (recs s (s_owner (sess s k)))) u) as [e|e]; [rewrite e in *|]; rewrite ?dsel_padd; lia.
  - destruct (Nat.ltb k (nses s)); [|discriminate]. injection H as <-. destruct HC; constructor; sim; auto.
  - destruct a; injection H as <-; destruct HC; constructor; sim; auto.
  - destruct (0 <=? d)%Z; [|discriminate]. injection H as <-. destruct HC; constructor; sim; auto.
Qed.
End Step.

Lemma reachable_CInv : forall c d nw s, reachable c d nw s -> WF c s /\ CInv c s.
Proof.
  intros c d nw s [ls H].
  eapply (run_inv (fun s => WF c s /\ CInv c s)); eauto using WF_init, CInv_init.
  intros s0 l s1 [HW HC] Hs. split; [eapply step_WF; eauto | eapply step_CInv; eauto].
Qed.

(* C16_conservation: every byte the valves of user u ever counted is in exactly one place *)
Theorem conservation : forall c d nw s b u, reachable c d nw s ->
  dsel b (g_chg s u) + dsel b (g_nou s u) + dsel b (qsum u (queue s))
  + vsum b s u + lsum b s u + isum b s u = dsel b (g_cnt s u).
Proof. intros c d nw s b u HR. apply reachable_CInv in HR. destruct HR as [_ HC]. apply (c_ledger _ _ HC). Qed.

(* at quiescence no usage is in flight in any thread *)
Lemma quiescent_sums : forall s b u, quiescent s -> lsum b s u = 0 /\ isum b s u = 0.
Proof.
  intros s b u HQ. unfold lsum, isum.
  assert (H : forall n f, (forall i, (i < n)%nat -> f i = 0) -> sumz n f = 0).
  { induction n as [|n IH]; cbn; intros f Hf; auto. rewrite IH, Hf; auto. }
  split; apply H; intros i Hi; rewrite (HQ i Hi); reflexivity.
Qed.

Lemma vsum_zero : forall b s u,
  (forall r, (r < nrec s)%nat -> r_uid (recs s r) = u -> r_valve (recs s r) = pzero) -> vsum b s u = 0.
Proof.
  intros b s u H. unfold vsum.
  assert (G : forall n f, (forall i, (i < n)%nat -> f i = 0) -> sumz n f = 0).
  { induction n as [|n IH]; cbn; intros f Hf; auto. rewrite IH, Hf; auto. }
  apply G. intros i Hi. unfold vterm. destruct (N.eqb_spec (r_uid (recs s i)) u); auto.
  rewrite (H i Hi e). apply dsel_pzero.
Qed.

(* once traffic has stopped and an upload has completed: what was counted has been reported *)
Theorem exact_when_collected : forall c d nw s b u, reachable c d nw s -> quiescent s ->
  qsum u (queue s) = pzero ->
  (forall r, (r < nrec s)%nat -> r_uid (recs s r) = u -> r_valve (recs s r) = pzero) ->
  dsel b (g_chg s u) + dsel b (g_nou s u) = dsel b (g_cnt s u).
Proof.
  intros c d nw s b u HR HQ Hq Hv. pose proof (conservation c d nw s b u HR) as C.
  destruct (quiescent_sums s b u HQ) as [E1 E2]. rewrite E1, E2, (vsum_zero b s u Hv), Hq, dsel_pzero in C. lia.
Qed.

(* the collection step empties the valve of every record activeUsers holds (limited users) *)
Lemma nullify_all_zeroes : forall n tb rs q r,
  (r < n)%nat -> tb (r_uid (rs r)) = Some r -> r_bypass (rs r) = false ->
  r_valve (fst (nullify_all n tb rs q) r) = pzero.
Proof.
  induction n as [|n IH]; intros tb rs q r Hr Ht Hb; [lia|]. cbn.
  pose proof (nullify_all_ledger true 0%N n tb rs q) as L.
  specialize (IH tb rs q r). destruct (nullify_all n tb rs q) as [rs1 q1]. destruct L as [_ Hout]. cbn [fst] in IH.
  assert (Hn : rs1 n = rs n) by (apply Hout; lia).
  destruct (Nat.eq_dec r n) as [->|ne].
  - rewrite Hn, Ht, Nat.eqb_refl, Hb. cbn. now rewrite upd_same.
  - assert (Hlt : (r < n)%nat) by lia.
    destruct (tb (r_uid (rs1 n))) as [r'|]; [|cbn; auto].
    destruct (_ && _); cbn; [rewrite upd_other by assumption|]; auto.
Qed.

Theorem update_zeroes_active : forall c s t ch s' cm r,
  thr s t = U2 cm -> tstep c s t ch = Some s' ->
  (r < nrec s)%nat -> table s (r_uid (recs s r)) = Some r -> r_bypass (recs s r) = false ->
  r_valve (recs s' r) = pzero.
Proof.
  intros c s t ch s' cm r Hpc H Hr Ht Hb. unfold tstep in H. rewrite Hpc in H.
  pose proof (nullify_all_zeroes (nrec s) (table s) (recs s) (queue s) r Hr Ht Hb) as Z.
  destruct (nullify_all _ _ _ _) as [rs' q']. injection H as <-. exact Z.
Qed.

(* ------------------------------------------------------------------ the database side *)
Lemma wrap64_mod : forall z, (wrap64 z - z) mod two64 = 0.
Proof.
  intros z. unfold wrap64.
  replace ((z + two63) mod two64 - two63 - z) with ((z + two63) mod two64 - (z + two63)) by lia.
  rewrite Zminus_mod, Z.mod_mod by (unfold two64; lia). rewrite Z.sub_diag. reflexivity.
Qed.

Definition eqm (a b : Z) : Prop := (a - b) mod two64 = 0.
Lemma eqm_refl : forall a, eqm a a.
Proof. intros; unfold eqm; now rewrite Z.sub_diag. Qed.
Lemma eqm_trans : forall a b c, eqm a b -> eqm b c -> eqm a c.
Proof.
  unfold eqm; intros a b c H1 H2. replace (a - c) with ((a - b) + (b - c)) by lia.
  rewrite Zplus_mod, H1, H2. reflexivity.
Qed.
Lemma eqm_add : forall a b k, eqm a b -> eqm (a + k) (b + k).
Proof. unfold eqm; intros. now replace (a + k - (b + k)) with (a - b) by lia. Qed.

(* UploadStatus: what a bucket loses is what is booked as charged (modulo 2^64: Go's int64) *)
Lemma upload_db : forall b u nw st d chg nou,
  let '(d', rs, chg', nou') := upload nw d chg nou st in
  eqm (dsel b (db_credit d' u) + dsel b (chg' u)) (dsel b (db_credit d u) + dsel b (chg u))
  /\ (d u = None -> d' u = None).
Proof.
  induction st as [|[x us] st IH]; intros d chg nou; cbn.
  - split; [apply eqm_refl | auto].
  - destruct (d x) as [r|] eqn:Ex.
    + specialize (IH (updN d x (Some (mkDb (d_cap r) (wrap64 (fst (d_credit r) - fst us), wrap64 (snd (d_credit r) - snd us)) (d_exp r))))
                     (updN chg x (padd (chg x) us)) nou).
      destruct (upload _ _ _ _ st) as [[[d' rs] chg'] nou']. destruct IH as [IH1 IH2]. split.
      * eapply eqm_trans; [exact IH1|]. unfold db_credit, updN.
        destruct (N.eqb_spec u x) as [->|ne]; [|apply eqm_refl].
        rewrite Ex. cbn [d_credit]. rewrite dsel_padd.
        destruct b; cbn [dsel fst snd]; unfold eqm.
        -- pose proof (wrap64_mod (fst (d_credit r) - fst us)) as W.
           replace (wrap64 (fst (d_credit r) - fst us) + (fst (chg x) + fst us) - (fst (d_credit r) + fst (chg x)))
             with (wrap64 (fst (d_credit r) - fst us) - (fst (d_credit r) - fst us)) by lia. exact W.
        -- pose proof (wrap64_mod (snd (d_credit r) - snd us)) as W.
           replace (wrap64 (snd (d_credit r) - snd us) + (snd (chg x) + snd us) - (snd (d_credit r) + snd (chg x)))
             with (wrap64 (snd (d_credit r) - snd us) - (snd (d_credit r) - snd us)) by lia. exact W.
      * intros Hn. apply IH2. unfold updN. destruct (N.eqb_spec u x); [congruence | assumption].
    + specialize (IH d chg (updN nou x (padd (nou x) us))).
      destruct (upload _ _ _ _ st) as [[[d' rs] chg'] nou']. exact IH.
Qed.

Section DB.
Variables (c : cfg) (d0 : dbmap).

Definition DInv (s : state) : Prop :=
  forall b u, eqm (dsel b (db_credit (db s) u) + dsel b (g_chg s u))
                  (dsel b (db_credit d0 u) + dsel b (g_adm s u)).

Lemma tstep_DInv : forall s t ch s', DInv s -> tstep c s t ch = Some s' -> DInv s'.
Proof.
  intros s t ch s' HD H. tstep_cases H c s t; unfold DInv in *; sim; try assumption.
  intros b u. pose proof (upload_db b u (now s) st (db s) (g_chg s) (g_nou s)) as U.
  match goal with Hu : upload _ _ _ _ _ = _ |- _ => rewrite Hu in U end.
  destruct U as [U _]. eapply eqm_trans; [exact U | apply HD].
Qed.

Lemma step_DInv : forall s l s', DInv s -> step c s l = Some s' -> DInv s'.
Proof.
  intros s l s' HD H. destruct l; cbn [step] in H.
  - destruct (start_pc s o); [|discriminate]. injection H as <-. exact HD.
  - destruct (Nat.ltb t (nthr s)); [|discriminate]. eapply tstep_DInv; eauto.
  - destruct (_ && _); [|discriminate]. destruct (r_bypass _); injection H as <-; exact HD.
  - destruct (Nat.ltb k (nses s)); [|discriminate]. injection H as <-. exact HD.
  - destruct a; injection H as <-; intros b u0; sim; specialize (HD b u0); unfold updN;
      destruct (N.eqb_spec u0 u) as [->|ne]; try exact HD.
    + rewrite dsel_padd, dsel_psub. unfold eqm in *.
      match goal with |- (?a - ?bb) mod _ = 0 =>
        replace (a - bb) with (dsel b (db_credit (db s) u) + dsel b (g_chg s u) - (dsel b (db_credit d0 u) + dsel b (g_adm s u))) by lia end.
      exact HD.
    + unfold db_credit, db_write, updN in *. destruct (N.eqb_spec u0 u); [congruence|]. exact HD.
    + rewrite dsel_psub. unfold db_credit at 1. unfold updN. rewrite N.eqb_refl. rewrite dsel_pzero.
      unfold eqm in *.
      match goal with |- (?a - ?bb) mod _ = 0 =>
        replace (a - bb) with (dsel b (db_credit (db s) u) + dsel b (g_chg s u) - (dsel b (db_credit d0 u) + dsel b (g_adm s u))) by lia end.
      exact HD.
    + unfold db_credit, updN in *. destruct (N.eqb_spec u0 u); [congruence|]. exact HD.
  - destruct (0 <=? d)%Z; [|discriminate]. injection H as <-. exact HD.
Qed.

Theorem stored_credit : forall nw s b u, reachable c d0 nw s ->
  eqm (dsel b (db_credit (db s) u)) (dsel b (db_credit d0 u) + dsel b (g_adm s u) - dsel b (g_chg s u)).
Proof.
  intros nw s b u [ls H].
  assert (HD : DInv s).
  { eapply (run_inv DInv); eauto using step_DInv. intros b0 u0. cbn. rewrite !dsel_pzero. apply eqm_refl. }
  specialize (HD b u). unfold eqm in *.
  match goal with |- (?a - ?bb) mod _ = 0 =>
    replace (a - bb) with (dsel b (db_credit (db s) u) + dsel b (g_chg s u) - (dsel b (db_credit d0 u) + dsel b (g_adm s u))) by lia end.
  exact HD.
Qed.
End DB.

(* ------------------------------------------------------------------ cut-off *)
(* the closeAllSessions step of TerminateActiveUser r closes every session record r created *)
Theorem terminate_closes_all : forall c d nw s t ch s' r rest k k',
  reachable c d nw s -> thr s t = TC1 r rest k -> tstep c s t ch = Some s' ->
  (k' < nses s)%nat -> s_owner (sess s k') = r -> s_closed (sess s' k') = true /\ r_sess (recs s' r) = [].
Proof.
  intros c d nw s t ch s' r rest k k' HR Hpc H Hk Ho. apply reachable_WF in HR.
  unfold tstep in H. rewrite Hpc in H. injection H as <-. sim. rewrite upd_same. simr. split; [|reflexivity].
  destruct (s_closed (sess s k')) eqn:E; [now apply close_all_mono|].
  pose proof (w_live _ _ HR k' Hk E) as L. rewrite Ho in L. apply slook_in in L.
  eapply close_all_in; eauto.
Qed.

(* which users UploadStatus asks to terminate: for one status, exactly the property's cases *)
Lemma upload_verdict : forall nw d chg nou u us,
  let '(_, rs, _, _) := upload nw d chg nou [(u, us)] in
  (In u rs <->
   match d u with
   | None => True                                                   (* deleted *)
   | Some r => wrap64 (fst (d_credit r) - fst us) <= 0              (* upload credit used up *)
               \/ wrap64 (snd (d_credit r) - snd us) <= 0           (* download credit used up *)
               \/ d_exp r < nw                                       (* expired *)
   end).
Proof.
  intros nw d chg nou u us. cbn. destruct (d u) as [r|]; cbn; [|tauto].
  destruct (Z.leb_spec (wrap64 (fst (d_credit r) - fst us)) 0);
  destruct (Z.leb_spec (wrap64 (snd (d_credit r) - snd us)) 0);
  destruct (Z.ltb_spec (d_exp r) nw); cbn; intuition lia.
Qed.

(* only users that were reported are ever terminated by a commit *)
Lemma upload_resp_sound : forall nw st d chg nou u,
  let '(_, rs, _, _) := upload nw d chg nou st in In u rs -> In u (map fst st).
Proof.
  induction st as [|[x us] st IH]; intros d chg nou u; cbn; [tauto|].
  destruct (d x) as [r|].
  - specialize (IH (updN d x (Some (mkDb (d_cap r) (wrap64 (fst (d_credit r) - fst us), wrap64 (snd (d_credit r) - snd us)) (d_exp r))))
                   (updN chg x (padd (chg x) us)) nou u).
    destruct (upload _ _ _ _ st) as [[[d' rs] chg'] nou']. intros H. apply in_app_or in H.
    destruct H as [H|H]; [|right; auto].
    left. repeat (apply in_app_or in H; destruct H as [H|H]);
      repeat match goal with H : In _ (if ?b then _ else _) |- _ => destruct b end;
      cbn in *; intuition.
  - specialize (IH d chg (updN nou x (padd (nou x) us)) u).
    destruct (upload _ _ _ _ st) as [[[d' rs] chg'] nou']. intros [H|H]; auto.
Qed.

(* commitUpdate acts on every TERMINATE answer: the thread looks the user up and, if there is an
   active record, enters TerminateActiveUser for it *)
Lemma commit_acts_on_verdict : forall c s t ch s' u k r,
  thr s t = M10 u k -> table s u = Some r -> tstep c s t ch = Some s' ->
  thr s' t = term_enter c r k.
Proof.
  intros c s t ch s' u k r Hpc Ht H. unfold tstep in H. rewrite Hpc, Ht in H. injection H as <-.
  sim. now rewrite upd_same.
Qed.

(* ------------------------------------------------------------------ nothing is negative *)
Definition nonneg (v : ZZ) : Prop := 0 <= fst v /\ 0 <= snd v.
Lemma nonneg_padd : forall a b, nonneg a -> nonneg b -> nonneg (padd a b).
Proof. intros [? ?] [? ?] [? ?] [? ?]; split; cbn in *; lia. Qed.
Lemma nonneg_pzero : nonneg pzero.
Proof. split; cbn; lia. Qed.
Lemma nonneg_dsel : forall b v, nonneg v -> 0 <= dsel b v.
Proof. intros [] v [? ?]; cbn; auto. Qed.

Definition thr_nonneg (p : pc) : Prop :=
  match p with
  | TN1 _ v _ _ | TN2 _ v _ _ => nonneg v
  | M8 st => forall u v, In (u, v) st -> nonneg v
  | _ => True
  end.

Record NInv (s : state) : Prop := {
  n_valve : forall r, nonneg (r_valve (recs s r));
  n_queue : forall u v, In (u, v) (queue s) -> nonneg v;
  n_thr : forall t, thr_nonneg (thr s t)
}.

Lemma qadd_nonneg : forall u v q, nonneg v -> (forall x w, In (x, w) q -> nonneg w) ->
  forall x w, In (x, w) (qadd u v q) -> nonneg w.
Proof.
  induction q as [|[y z] q IH]; cbn; intros Hv Hq x w H.
  - destruct H as [H|[]]. injection H as _ <-. exact Hv.
  - destruct (N.eqb u y); cbn in H; destruct H as [H|H].
    + injection H as _ <-. apply nonneg_padd; eauto.
    + eauto.
    + injection H as _ <-. eauto.
    + eapply IH; eauto.
Qed.

Lemma nullify_all_nonneg : forall n tb rs q,
  (forall r, nonneg (r_valve (rs r))) -> (forall x w, In (x, w) q -> nonneg w) ->
  (forall r, nonneg (r_valve (fst (nullify_all n tb rs q) r)))
  /\ (forall x w, In (x, w) (snd (nullify_all n tb rs q)) -> nonneg w).
Proof.
  induction n as [|n IH]; intros tb rs q Hv Hq; cbn; [split; auto|].
  specialize (IH tb rs q Hv Hq). destruct (nullify_all n tb rs q) as [rs1 q1]. cbn [fst snd] in IH.
  destruct IH as [I1 I2]. destruct (tb (r_uid (rs1 n))); [|split; auto].
  destruct (_ && _); cbn [fst snd]; [|split; auto]. split.
  - intros r. unfold upd. destruct (Nat.eqb r n); [cbn; apply nonneg_pzero | apply I1].
  - apply qadd_nonneg; auto.
Qed.

Lemma close_all_cost_nonneg : forall ctx l f, (forall k, 0 <= ctx k) -> 0 <= close_all_cost ctx l f.
Proof.
  induction l as [|[x k] l IH]; cbn; intros f H; [lia|].
  specialize (IH (upd f k (mkSes (s_owner (f k)) (s_sid (f k)) true)) H).
  destruct (s_closed (f k)); [lia|]. specialize (H k). lia.
Qed.

Section NonNeg.
Variable c : cfg.
Hypothesis Hctx : forall k, 0 <= close_tx c k.

Lemma tstep_NInv : forall s t ch s', NInv s -> tstep c s t ch = Some s' -> NInv s'.
Proof.
  intros s t ch s' HN H. destruct HN as [nv nq nt]. pose proof (nt t) as NT.
  tstep_cases H c s t.
  all: cbn [thr_nonneg] in NT.
  all: constructor; sim; try assumption.
  (* threads *)
  all: try solve [
    intros t0; destruct (Nat.eq_dec t0 t) as [->|ne];
    [ rewrite upd_same; unfold term_enter;
      try match goal with |- thr_nonneg (seq_pc ?a ?b ?d) => destruct a as [|[] ?]; cbn; auto; destruct d; cbn; auto end;
      try match goal with |- thr_nonneg (m9 ?d) => destruct d; cbn; auto end;
      cbn [thr_nonneg]; auto
    | rewrite upd_other by assumption; auto ] ].
  (* valves *)
  all: try solve [
    intros r0; try nullify_norm;
    match goal with |- context [upd (recs _) ?a _ r0] =>
      destruct (Nat.eq_dec r0 a) as [->|ne]; [rewrite upd_same; simr | rewrite upd_other by assumption; auto] end;
    auto using nonneg_pzero;
    apply nonneg_padd; auto;
    repeat match goal with |- context [if ?b then _ else _] => destruct b end;
    auto using nonneg_pzero; split; cbn; try lia; auto using close_all_cost_nonneg ].
  all: try solve [intros; contradiction].
  all: try solve [apply qadd_nonneg; auto].
  all: try solve [
    match goal with Hn : nullify_all ?n ?tb ?rs ?q = (?a, ?l) |- _ =>
      destruct (nullify_all_nonneg n tb rs q nv nq) as [N1 N2]; rewrite Hn in N1, N2; cbn [fst snd] in N1, N2; auto end ].
  (* M1 []: the statuses are entries of the queue *)
  intros t0; destruct (Nat.eq_dec t0 t) as [->|ne]; [rewrite upd_same | rewrite upd_other by assumption; auto].
  cbn [thr_nonneg]. intros u v Hin.
  match goal with Hf : filter _ (queue s) = _ |- _ => rewrite <- Hf in Hin end.
  apply filter_In in Hin. destruct Hin as [Hin _]. eauto.
Qed.

Lemma step_NInv : forall s l s', NInv s -> step c s l = Some s' -> NInv s'.
Proof.
  intros s l s' HN H. destruct l; cbn [step] in H.
  - destruct (start_pc s o) eqn:E; [|discriminate]. injection H as <-.
    destruct HN as [nv nq nt]. constructor; sim; auto.
    intros t. destruct (Nat.eq_dec t (nthr s)) as [->|ne]; [rewrite upd_same | rewrite upd_other by assumption; auto].
    destruct o; cbn [start_pc] in E; try (injection E as <-; exact I).
    destruct (Nat.ltb r (nrec s)); [|discriminate E]. injection E as <-. exact I.
  - destruct (Nat.ltb t (nthr s)); [|discriminate]. eapply tstep_NInv; eauto.
  - destruct (Nat.ltb k (nses s)); cbn [andb] in H; [|discriminate].
    destruct (negb _); cbn [andb] in H; [|discriminate].
    destruct (Z.leb_spec 0 (fst v)); cbn [andb] in H; [|discriminate].
    destruct (Z.leb_spec 0 (snd v)); [|discriminate].
    destruct (r_bypass _); injection H as <-; [assumption|].
    destruct HN as [nv nq nt]. constructor; sim; auto.
    intros r. destruct (Nat.eq_dec r (s_owner (sess s k))) as [e|e];
      [rewrite e, upd_same; simr; apply nonneg_padd; [apply nv | split; assumption] | rewrite upd_other by assumption; auto].
  - destruct (Nat.ltb k (nses s)); [|discriminate]. injection H as <-. destruct HN; constructor; sim; auto.
  - destruct a; injection H as <-; destruct HN; constructor; sim; auto.
  - destruct (0 <=? d)%Z; [|discriminate]. injection H as <-. destruct HN; constructor; sim; auto.
Qed.

Lemma reachable_NInv : forall d nw s, reachable c d nw s -> NInv s.
Proof.
  intros d nw s [ls H]. eapply (run_inv NInv); eauto using step_NInv.
  constructor; cbn; intros; try contradiction; auto using nonneg_pzero.
Qed.

Lemma sumz_nonneg : forall n f, (forall i, 0 <= f i) -> 0 <= sumz n f.
Proof. induction n as [|n IH]; cbn; intros f H; [lia|]. specialize (IH f H). specialize (H n). lia. Qed.
Lemma qsum_nonneg : forall u q, (forall x w, In (x, w) q -> nonneg w) -> nonneg (qsum u q).
Proof.
  induction q as [|[y z] q IH]; cbn; intros H; [apply nonneg_pzero|].
  destruct (N.eqb u y); [apply nonneg_padd|]; eauto.
Qed.

(* never more than once: what has been reported (charged to an existing bucket, or reported for a
   deleted user) never exceeds what the user's valves counted *)
Theorem at_most_once : forall d nw s b u, reachable c d nw s ->
  dsel b (g_chg s u) + dsel b (g_nou s u) <= dsel b (g_cnt s u).
Proof.
  intros d nw s b u HR. pose proof (conservation c d nw s b u HR) as C.
  apply reachable_NInv in HR. destruct HR as [nv nq nt].
  assert (0 <= dsel b (qsum u (queue s))) by (apply nonneg_dsel, qsum_nonneg; eauto).
  assert (0 <= vsum b s u).
  { apply sumz_nonneg. intros i. unfold vterm. destruct (N.eqb _ _); [apply nonneg_dsel, nv | lia]. }
  assert (0 <= lsum b s u).
  { apply sumz_nonneg. intros i. specialize (nt i). unfold lterm. destruct (thr s i); try lia;
      cbn [thr_nonneg] in nt; destruct (N.eqb _ _); try lia; now apply nonneg_dsel. }
  assert (0 <= isum b s u).
  { apply sumz_nonneg. intros i. specialize (nt i). unfold iterm. destruct (thr s i); try lia.
    cbn [thr_nonneg] in nt. apply nonneg_dsel, qsum_nonneg. exact nt. }
  lia.
Qed.

Lemma upload_mono : forall b u nw st d chg nou,
  (forall x w, In (x, w) st -> nonneg w) ->
  let '(_, _, chg', nou') := upload nw d chg nou st in
  dsel b (chg u) <= dsel b (chg' u) /\ dsel b (nou u) <= dsel b (nou' u).
Proof.
  induction st as [|[x us] st IH]; intros d chg nou H; cbn; [lia|].
  assert (Hus : 0 <= dsel b us) by (apply nonneg_dsel; eapply H; left; reflexivity).
  assert (H' : forall x w, In (x, w) st -> nonneg w) by (intros; eapply H; right; eauto).
  destruct (d x) as [r|].
  - specialize (IH (updN d x (Some (mkDb (d_cap r) (wrap64 (fst (d_credit r) - fst us), wrap64 (snd (d_credit r) - snd us)) (d_exp r))))
                   (updN chg x (padd (chg x) us)) nou H').
    destruct (upload _ _ _ _ st) as [[[d' rs] chg'] nou']. destruct IH as [I1 I2]. split; auto.
    unfold updN in I1. destruct (N.eqb_spec u x) as [->|]; [rewrite dsel_padd in I1|]; lia.
  - specialize (IH d chg (updN nou x (padd (nou x) us)) H').
    destruct (upload _ _ _ _ st) as [[[d' rs] chg'] nou']. destruct IH as [I1 I2]. split; auto.
    unfold updN in I2. destruct (N.eqb_spec u x) as [->|]; [rewrite dsel_padd in I2|]; lia.
Qed.

Definition GInv (s : state) : Prop := forall b u, 0 <= dsel b (g_chg s u) /\ 0 <= dsel b (g_nou s u).

Lemma step_GInv : forall s l s', NInv s -> GInv s -> step c s l = Some s' -> GInv s'.
Proof.
  intros s l s' HN HG H. destruct l; cbn [step] in H.
  - destruct (start_pc s o); [|discriminate]. injection H as <-. exact HG.
  - destruct (Nat.ltb t (nthr s)); [|discriminate].
    pose proof (n_thr _ HN t) as NT.
    tstep_cases H c s t; unfold GInv in *; sim; try assumption.
    intros b u. cbn [thr_nonneg] in NT.
    pose proof (upload_mono b u (now s) st (db s) (g_chg s) (g_nou s) NT) as U.
    match goal with Hu : upload _ _ _ _ _ = _ |- _ => rewrite Hu in U end.
    destruct (HG b u). lia.
  - destruct (_ && _); [|discriminate]. destruct (r_bypass _); injection H as <-; exact HG.
  - destruct (Nat.ltb k (nses s)); [|discriminate]. injection H as <-. exact HG.
  - destruct a; injection H as <-; exact HG.
  - destruct (0 <=? d)%Z; [|discriminate]. injection H as <-. exact HG.
Qed.

Lemma reachable_GInv : forall d nw s, reachable c d nw s -> GInv s.
Proof.
  intros d nw s [ls H].
  assert (G : NInv s /\ GInv s).
  { eapply (run_inv (fun s => NInv s /\ GInv s)); eauto.
    - intros s0 l s1 [HN HG] Hs. split; [eapply step_NInv; eauto | eapply step_GInv; eauto].
    - split; [constructor; cbn; intros; try contradiction; auto using nonneg_pzero|].
      intros b u. cbn. rewrite dsel_pzero. lia. }
  tauto.
Qed.

(* never from another user: a user whose sessions carried nothing is never charged, whatever the
   other users do *)
Theorem per_user : forall d nw s b u, reachable c d nw s ->
  dsel b (g_cnt s u) = 0 -> dsel b (g_chg s u) = 0 /\ dsel b (g_nou s u) = 0.
Proof.
  intros d nw s b u HR Hc. pose proof (at_most_once d nw s b u HR) as A.
  destruct (reachable_GInv d nw s HR b u). lia.
Qed.
End NonNeg.
