(* The Gallina AES-GCM satisfies the one hypothesis the no-panic theorem makes about the cipher. *)
From Coq Require Import NArith ZArith List.
From Cloak Require Import Model.Hello Model.FirstPacket Model.Dispatch Model.DispatchInst Model.Crypto.GCM
  Proofs.Crypto Proofs.Dispatch.
Import ListNotations.

Lemma decide_gcm_no_crash : forall dh p st now, decide_gcm dh p st now <> Crash.
Proof.
  intros dh p st now. unfold decide_gcm. apply decide_no_crash.
  intros k n ct aad pt H. apply gcm_open_length in H. exact H.
Qed.
