(* Generated obligations: the atomic steps of the session-pair model (Model/Mux.v), of the
   re-sequencer (Model/Reorder.v) and of the datagram pipe (Model/Datagram.v), checked against
   what tools/lockscan extracts from internal/multiplex on every run (coq/Gen/Atomicity.v).
   The models test-and-set the closed flags in one step, count streams with single atomic
   additions, and treat streamBuffer.Write / the pipe operations / "fill writingFrame, number it,
   send it" as one step each. *)
From Coq Require Import String List Bool.
From Cloak Require Import Gen.Atomicity Proofs.AtomLib.
Import ListNotations.
Local Open Scope string_scope.

Lemma mux_scan_complete : atomicity_errors = [].
Proof. vm_compute. reflexivity. Qed.

Definition mx := "multiplex.".

(* ---- one-shot flags: whoever closes, closes once (st_closed, se_closed, se_broken) *)
Lemma stream_closed_is_one_shot : one_shot_flag mx "Stream.closed" = true.
Proof. vm_compute. reflexivity. Qed.
Lemma session_closed_is_one_shot : one_shot_flag mx "Session.closed" = true.
Proof. vm_compute. reflexivity. Qed.
Lemma switchboard_broken_is_one_shot : one_shot_flag mx "switchboard.broken" = true.
Proof. vm_compute. reflexivity. Qed.

(* ---- counters: se_count moves by single atomic additions, stream ids are drawn atomically *)
Lemma stream_count_only_added_to : only_ops mx "Session.activeStreamCount" ["Add"; "Load"] = true.
Proof. vm_compute. reflexivity. Qed.
Lemma next_stream_id_only_added_to : only_ops mx "Session.nextStreamID" ["Add"] = true.
Proof. vm_compute. reflexivity. Qed.

(* ---- the re-sequencer: Reorder.write is one step.  The sequence test, the hand-over of
   the payload to the byte pipe, the advance of nextRecvSeq and the heap operations all
   happen inside one critical section of recvM *)
Lemma streamBuffer_Write_one_step :
  one_step "multiplex.streamBuffer.Write" "streamBuffer.recvM"
    [is_read "streamBuffer.nextRecvSeq"; is_write "streamBuffer.nextRecvSeq";
     is_access "streamBuffer.sh"; is_read "streamBuffer.buf"; is_call "streamBufferedPipe.Write"] [] = true.
Proof. vm_compute. reflexivity. Qed.
Lemma streamBuffer_Close_one_step :
  one_step "multiplex.streamBuffer.Close" "streamBuffer.recvM"
    [is_read "streamBuffer.buf"; is_call "streamBufferedPipe.Close"] [] = true.
Proof. vm_compute. reflexivity. Qed.

(* ---- the pipes (pipe_write / drain in Reorder.v, dg_write / dg_read / dg_close in
   Datagram.v are single steps): every operation touches the buffer, the length queue and
   the closed flag inside one critical section of the condition variable's mutex *)
Definition sp := "streamBufferedPipe.rwCond.L".
Definition dp := "datagramBufferedPipe.rwCond.L".
Lemma stream_pipe_operations_one_step :
  one_step_with_wait "multiplex.streamBufferedPipe.Write" sp
    [is_read "streamBufferedPipe.closed"; is_read "streamBufferedPipe.buf"; is_call "streamBufferedPipe.buf.Write"] [] = true
  /\ one_step_with_wait "multiplex.streamBufferedPipe.Read" sp
    [is_read "streamBufferedPipe.closed"; is_read "streamBufferedPipe.buf"; is_call "streamBufferedPipe.buf.Read"] [] = true
  /\ one_step "multiplex.streamBufferedPipe.Close" sp [is_write "streamBufferedPipe.closed"] [] = true.
Proof. repeat split; vm_compute; reflexivity. Qed.
Lemma datagram_pipe_operations_one_step :
  one_step_with_wait "multiplex.datagramBufferedPipe.Write" dp
    [is_access "datagramBufferedPipe.closed"; is_access "datagramBufferedPipe.pLens";
     is_read "datagramBufferedPipe.buf"; is_call "datagramBufferedPipe.buf.Write"] [] = true
  /\ one_step_with_wait "multiplex.datagramBufferedPipe.Read" dp
    [is_read "datagramBufferedPipe.closed"; is_access "datagramBufferedPipe.pLens";
     is_read "datagramBufferedPipe.buf"; is_call "datagramBufferedPipe.buf.Read"] [] = true
  /\ one_step "multiplex.datagramBufferedPipe.Close" dp [is_write "datagramBufferedPipe.closed"] [] = true.
Proof. repeat split; vm_compute; reflexivity. Qed.

(* ---- the sender: "set the payload, number the frame, put it on the wire" is one step
   per frame under writingM (C13: numbering = emission order) *)
Definition wm := "Stream.writingM".
Lemma Stream_Write_frame_one_step :
  one_step "multiplex.Stream.Write" wm
    [is_call "Stream.isClosed"; is_write "Stream.writingFrame"; is_call "Stream.obfuscateAndSend"] [] = true.
Proof. vm_compute. reflexivity. Qed.
Lemma Stream_ReadFrom_frame_one_step :
  one_step "multiplex.Stream.ReadFrom" wm
    [is_write "Stream.writingFrame"; is_call "Stream.obfuscateAndSend"] [] = true.
Proof. vm_compute. reflexivity. Qed.
Lemma Stream_Close_one_step :
  one_step "multiplex.Stream.Close" wm [is_call "Session.closeStream"] [] = true.
Proof. vm_compute. reflexivity. Qed.
(* the helpers that touch writingFrame are only ever entered with writingM held *)
Lemma sender_helpers_entered_locked :
  entry_holds "multiplex.Stream.obfuscateAndSend" wm = true
  /\ entry_holds "multiplex.Session.closeStream[active=true]" wm = true.
Proof. split; vm_compute; reflexivity. Qed.

(* ---- the stream table: registration and the session-wide sweep are single steps *)
Definition sm := "Session.streamsM".
Lemma OpenStream_register_one_step :
  one_step "multiplex.Session.OpenStream" sm
    [is_call "Session.streamCountIncr"; is_write "Session.streams"] [is_call "Session.IsClosed"] = true.
Proof. vm_compute. reflexivity. Qed.
Lemma recvDataFromRemote_register_one_step :
  one_step "multiplex.Session.recvDataFromRemote" sm
    [is_read "Session.streams"; is_call "Session.streamCountIncr"; is_write "Session.streams";
     is_access "Session.acceptCh"] [is_call "Session.IsClosed"] = true.
Proof. vm_compute. reflexivity. Qed.
Lemma closeSession_sweep_one_step :
  one_step "multiplex.Session.closeSession" sm
    [is_write "Session.acceptCh"; is_read "Session.streams"; is_atomic "Stream.closed";
     is_write "Session.streams"; is_call "Session.streamCountDecr"] [] = true.
Proof. vm_compute. reflexivity. Qed.
Lemma closeStream_table_update_locked :
  always_under "multiplex.Session.closeStream" sm (is_access "Session.streams") = true.
Proof. vm_compute. reflexivity. Qed.

(* ---- addConn: a connection id is published only after the connection is stored under it *)
Lemma addConn_store_and_publish_one_step :
  one_step "multiplex.switchboard.addConn" "switchboard.addConnM"
    [is_atomic "switchboard.connsCount"; is_call "switchboard.conns.Store"] [] = true.
Proof. vm_compute. reflexivity. Qed.

(* ---- pooled frame buffers, receive frames and PRNGs are not touched after Put (a second
   writer may already own them) *)
Lemma mux_pools_no_use_after_put :
  put_is_last_use "multiplex.Stream.Write" = true /\ put_is_last_use "multiplex.Stream.ReadFrom" = true
  /\ put_is_last_use "multiplex.Session.closeStream" = true
  /\ put_is_last_use "multiplex.Session.recvDataFromRemote" = true
  /\ put_is_last_use "multiplex.switchboard.pickRandConn" = true.
Proof. repeat split; vm_compute; reflexivity. Qed.

(* ... in whatever function the Put is written (a helper that hands out a view of the buffer it has
   already put back - a deferred Put followed by `return buf` - is a use after the Put) *)
Lemma mux_no_pooled_object_used_after_put_anywhere : no_use_after_put_anywhere = true.
Proof. vm_compute. reflexivity. Qed.

(* ---- a blocked writer must not be able to stop the receive loop.  Writers hold writingM
   across the blocking send (Stream.Write / ReadFrom / Close -> obfuscateAndSend ->
   switchboard.send -> conn.Write); the send of one side completes only when the other side's
   receive loop (switchboard.deplex) reads again.  If anything on the receive path waited for a
   mutex held across a send, both sides' loops could wait for their own writers for ever - a
   deadlock without any lock-order cycle.  The model's deliver / read labels are always
   enabled, i.e. it assumes the discipline: no mutex that may be held across the send is
   acquired by (or held on entry to) a function reachable from deplex.  Computed here from the
   call graph of the scanner (bool specialisations: closeStream[active=false] is what the
   receive path reaches) *)
Definition conn_write := "net.Conn.Write".
Lemma writingM_is_held_across_the_send :
  mem_s "multiplex.switchboard.send" (sinks mx conn_write) = true
  /\ mem_s "Stream.writingM" (held_across mx conn_write) = true.
Proof. split; vm_compute; reflexivity. Qed.
(* not vacuous: the receive path does get to the passive close of a stream and to the re-sequencer *)
Lemma receive_path_reaches_stream_close :
  let r := reachable_from ["multiplex.switchboard.deplex"] in
  mem_s "multiplex.Session.closeStream[active=false]" r = true
  /\ mem_s "multiplex.streamBuffer.Write" r = true.
Proof. split; vm_compute; reflexivity. Qed.
Lemma receive_path_takes_no_lock_held_across_send :
  path_avoids_send_locks mx conn_write "multiplex.switchboard.deplex" = true.
Proof. vm_compute. reflexivity. Qed.

(* ---- entries of the stream table: closeStream overwrites its entry with nil (the id stays
   known), only the sweep of closeSession deletes (se_tab) *)
Lemma stream_table_entries_deleted_only_by_closeSession :
  removed_only_in mx "Session.streams" ["multiplex.Session.closeSession"] = true
  /\ never_aliased mx "Session.streams" = true /\ deletes_are_on_fields mx = true.
Proof. repeat split; vm_compute; reflexivity. Qed.

(* ---- Session.Close: the one-shot transition (closeSession: compare-and-swap on the closed flag) comes
   BEFORE the closing notice is built and sent, so of several overlapping Close calls only the winner
   puts a session-closing frame - stream id 0xffffffff, sequence number 0, i.e. one fixed nonce - on the
   wire (C13: no two messages of an endpoint share a (stream id, sequence number) pair). *)
Fixpoint index_of (p : ev -> bool) (l : list ev) : option nat :=
  match l with
  | [] => None
  | e :: t => if p e then Some O else match index_of p t with Some n => Some (S n) | None => None end
  end.
Definition happens_before (f : string) (a b : ev -> bool) : bool :=
  match index_of a (events_of f), index_of b (events_of f) with
  | Some i, Some j => Nat.ltb i j
  | _, _ => false
  end.
Lemma Session_Close_wins_the_flag_before_it_sends :
  happens_before "multiplex.Session.Close" (is_call "Session.closeSession") (is_call "Session.obfuscate") = true
  /\ happens_before "multiplex.Session.Close" (is_call "Session.closeSession") (is_call "switchboard.send") = true.
Proof. split; vm_compute; reflexivity. Qed.

(* ---- the pipes wake EVERY waiter (sync.Cond.Broadcast), never just one (Signal): a write may have to
   release a reader and a parked deadline watcher alike, and a close must release every goroutine parked in
   Read on that buffer (C12: every blocked read returns; Model/Mux.v resolves ALL pending reads of a closed
   stream) *)
Definition calls_in (f c : string) : bool := existsb (is_call c) (events_of f).
Definition no_signal_in_package (pkg : string) : bool :=
  forallb (fun fe : string * list ev =>
             negb (prefix pkg (fst fe)) || negb (existsb (fun e : ev => seqb (fst e) "call" && ends_with ".Signal" (snd e)) (snd fe))) fn_events.
Lemma pipes_wake_every_waiter :
  calls_in "multiplex.streamBufferedPipe.Write" "streamBufferedPipe.rwCond.Broadcast" = true
  /\ calls_in "multiplex.streamBufferedPipe.Close" "streamBufferedPipe.rwCond.Broadcast" = true
  /\ calls_in "multiplex.datagramBufferedPipe.Write" "datagramBufferedPipe.rwCond.Broadcast" = true
  /\ calls_in "multiplex.datagramBufferedPipe.Close" "datagramBufferedPipe.rwCond.Broadcast" = true
  /\ no_signal_in_package "multiplex." = true.
Proof. repeat split; vm_compute; reflexivity. Qed.
