(* Facts about Model/LowOrder.v and the Gallina X25519 (Model/Crypto/X25519.v):
     - the 14 listed strings are exactly the numbers below 2^256 that decode to a small-order x-coordinate;
     - for EVERY private key the Montgomery ladder maps a small-order input to 0, hence the key agreement as the
       server performs it (DispatchInst.dh_real: all-zero output is the error of crypto/ecdh) rejects it.
   The second fact is proved for all 2^256 scalars by an invariant over the ladder: the projective pair
   ([m]P, [m+1]P) stays, up to scaling, in a table of eight classes indexed by m mod 8; the table is checked by
   computation (polynomial identities evaluated mod p), the scaling argument is the homogeneity of the ladder
   formulas, proved symbolically. *)
From Coq Require Import ZArith NArith List Bool Lia Znumtheory Morphisms Setoid RelationClasses.
From Cloak Require Import Model.Crypto.X25519 Proofs.X25519 Model.Hello Model.FirstPacket Model.Dispatch Model.DispatchInst.
From Cloak Require Import Model.LowOrder.
Import ListNotations.
Local Open Scope Z_scope.

(* ------------------------------------------------------------------ canonical field elements *)
Definition canon (x : Z) : Prop := 0 <= x < p25519.

Lemma mod_canon : forall x, canon (x mod p25519).
Proof. intros x. apply Z.mod_pos_bound. reflexivity. Qed.
Lemma fmul_canon : forall a b, canon a -> canon b -> canon (fmul a b).
Proof. intros a b Ha Hb. rewrite fmul_spec by assumption. apply mod_canon. Qed.
Lemma fadd_canon : forall a b, canon a -> canon b -> canon (fadd a b).
Proof. intros a b Ha Hb. rewrite fadd_spec by assumption. apply mod_canon. Qed.
Lemma fsub_canon : forall a b, canon a -> canon b -> canon (fsub a b).
Proof. intros a b Ha Hb. rewrite fsub_spec by assumption. apply mod_canon. Qed.
Lemma canon_121665 : canon 121665.
Proof. unfold canon. split; [discriminate | reflexivity]. Qed.

Ltac canon_tac :=
  repeat first [ assumption | apply mod_canon | apply canon_121665 | apply fmul_canon | apply fadd_canon | apply fsub_canon ].
Ltac to_mod :=
  repeat first [ rewrite fmul_spec by canon_tac | rewrite fadd_spec by canon_tac | rewrite fsub_spec by canon_tac ].
(* congruence mod p as a setoid: inner reductions can be dropped at any depth *)
Definition eqp (a b : Z) : Prop := a mod p25519 = b mod p25519.
#[local] Instance eqp_equiv : Equivalence eqp.
Proof. unfold eqp. split; [intros x; reflexivity | intros x y H; symmetry; exact H | intros x y z H1 H2; congruence]. Qed.
#[local] Instance add_eqp : Proper (eqp ==> eqp ==> eqp) Z.add.
Proof. unfold eqp. intros a a' Ha b b' Hb. rewrite Z.add_mod, Ha, Hb, <- Z.add_mod by discriminate. reflexivity. Qed.
#[local] Instance sub_eqp : Proper (eqp ==> eqp ==> eqp) Z.sub.
Proof. unfold eqp. intros a a' Ha b b' Hb. rewrite Zminus_mod, Ha, Hb, <- Zminus_mod. reflexivity. Qed.
#[local] Instance mul_eqp : Proper (eqp ==> eqp ==> eqp) Z.mul.
Proof. unfold eqp. intros a a' Ha b b' Hb. rewrite Z.mul_mod, Ha, Hb, <- Z.mul_mod by discriminate. reflexivity. Qed.
Lemma mod_eqp : forall a, eqp (a mod p25519) a.
Proof. intros a. unfold eqp. apply Z.mod_mod. discriminate. Qed.
Ltac pull_mod :=
  match goal with |- ?X mod p25519 = ?Y mod p25519 => change (eqp X Y) end;
  repeat match goal with |- context [?a mod p25519] => rewrite (mod_eqp a) end; unfold eqp.

(* ------------------------------------------------------------------ one ladder step, named *)
Definition dblx (x z : Z) : Z :=
  let A := fadd x z in let AA := fmul A A in let B := fsub x z in let BB := fmul B B in fmul AA BB.
Definition dblz (x z : Z) : Z :=
  let A := fadd x z in let AA := fmul A A in let B := fsub x z in let BB := fmul B B in
  let E := fsub AA BB in fmul E (fadd AA (fmul 121665 E)).
Definition daddx (x2 z2 x3 z3 : Z) : Z :=
  let A := fadd x2 z2 in let B := fsub x2 z2 in let C := fadd x3 z3 in let D := fsub x3 z3 in
  let DA := fmul D A in let CB := fmul C B in let s := fadd DA CB in fmul s s.
Definition daddz (u x2 z2 x3 z3 : Z) : Z :=
  let A := fadd x2 z2 in let B := fsub x2 z2 in let C := fadd x3 z3 in let D := fsub x3 z3 in
  let DA := fmul D A in let CB := fmul C B in let s := fsub DA CB in fmul u (fmul s s).

Lemma ladder_S : forall t k u x2 z2 x3 z3 swap,
  ladder (S t) k u x2 z2 x3 z3 swap =
  let kt := Z.testbit k (Z.of_nat t) in
  let sw := xorb swap kt in
  let a2 := if sw then x3 else x2 in let a3 := if sw then x2 else x3 in
  let b2 := if sw then z3 else z2 in let b3 := if sw then z2 else z3 in
  ladder t k u (dblx a2 b2) (dblz a2 b2) (daddx a2 b2 a3 b3) (daddz u a2 b2 a3 b3) kt.
Proof.
  intros. cbn [ladder]. unfold dblx, dblz, daddx, daddz, cswap.
  destruct (xorb swap (Z.testbit k (Z.of_nat t))); cbv beta iota zeta; reflexivity.
Qed.

Lemma ladder_O : forall k u x2 z2 x3 z3 swap,
  ladder O k u x2 z2 x3 z3 swap = fmul (if swap then x3 else x2) (finv (if swap then z3 else z2)).
Proof. intros. cbn [ladder]. unfold cswap. destruct swap; reflexivity. Qed.

(* ------------------------------------------------------------------ the same formulas as polynomials over Z *)
Definition Xd (a b : Z) : Z := (a + b) ^ 2 * (a - b) ^ 2.
Definition Zd (a b : Z) : Z := ((a + b) ^ 2 - (a - b) ^ 2) * ((a + b) ^ 2 + 121665 * ((a + b) ^ 2 - (a - b) ^ 2)).
Definition Xa (a2 b2 a3 b3 : Z) : Z := ((a3 - b3) * (a2 + b2) + (a3 + b3) * (a2 - b2)) ^ 2.
Definition Za (u a2 b2 a3 b3 : Z) : Z := u * ((a3 - b3) * (a2 + b2) - (a3 + b3) * (a2 - b2)) ^ 2.

(* homogeneity: scaling the projective inputs scales the outputs *)
Lemma dblx_hom : forall l a b,
  dblx ((l * a) mod p25519) ((l * b) mod p25519) = (l ^ 4 * Xd a b) mod p25519.
Proof. intros. unfold dblx. cbv zeta. to_mod. pull_mod. f_equal. unfold Xd. ring. Qed.
Lemma dblz_hom : forall l a b,
  dblz ((l * a) mod p25519) ((l * b) mod p25519) = (l ^ 4 * Zd a b) mod p25519.
Proof. intros. unfold dblz. cbv zeta. to_mod. pull_mod. f_equal. unfold Zd. ring. Qed.
Lemma daddx_hom : forall l2 l3 a2 b2 a3 b3,
  daddx ((l2 * a2) mod p25519) ((l2 * b2) mod p25519) ((l3 * a3) mod p25519) ((l3 * b3) mod p25519)
  = ((l2 * l3) ^ 2 * Xa a2 b2 a3 b3) mod p25519.
Proof. intros. unfold daddx. cbv zeta. to_mod. pull_mod. f_equal. unfold Xa. ring. Qed.
Lemma daddz_hom : forall u l2 l3 a2 b2 a3 b3, canon u ->
  daddz u ((l2 * a2) mod p25519) ((l2 * b2) mod p25519) ((l3 * a3) mod p25519) ((l3 * b3) mod p25519)
  = ((l2 * l3) ^ 2 * Za u a2 b2 a3 b3) mod p25519.
Proof. intros u l2 l3 a2 b2 a3 b3 Hu. unfold daddz. cbv zeta. to_mod. pull_mod. f_equal. unfold Za. ring. Qed.

(* ------------------------------------------------------------------ projective classes and the checked table *)
(* (x : z) is, up to a scalar (possibly 0), the representative r *)
Definition in_cls (r : Z * Z) (x z : Z) : Prop :=
  exists l, x = (l * fst r) mod p25519 /\ z = (l * snd r) mod p25519.

Definition pick_mu (r' : Z * Z) (X Zv : Z) : Z := if snd r' =? 0 then X else Zv.
Definition dbl_ok (r r' : Z * Z) : bool :=
  let X := Xd (fst r) (snd r) mod p25519 in
  let Zv := Zd (fst r) (snd r) mod p25519 in
  let mu := pick_mu r' X Zv in
  (X =? (mu * fst r') mod p25519) && (Zv =? (mu * snd r') mod p25519).
Definition dadd_ok (u : Z) (r2 r3 r' : Z * Z) : bool :=
  let X := Xa (fst r2) (snd r2) (fst r3) (snd r3) mod p25519 in
  let Zv := Za u (fst r2) (snd r2) (fst r3) (snd r3) mod p25519 in
  let mu := pick_mu r' X Zv in
  (X =? (mu * fst r') mod p25519) && (Zv =? (mu * snd r') mod p25519).

Lemma dbl_sound : forall r r' x z, dbl_ok r r' = true -> in_cls r x z -> in_cls r' (dblx x z) (dblz x z).
Proof.
  intros r r' x z H (l & -> & ->). unfold dbl_ok in H. cbv zeta in H.
  apply andb_prop in H as [H1 H2]. apply Z.eqb_eq in H1, H2.
  set (mu := pick_mu r' (Xd (fst r) (snd r) mod p25519) (Zd (fst r) (snd r) mod p25519)) in *.
  exists (l ^ 4 * mu). rewrite dblx_hom, dblz_hom. split.
  - rewrite <- Zmult_mod_idemp_r, H1, Zmult_mod_idemp_r. f_equal. ring.
  - rewrite <- Zmult_mod_idemp_r, H2, Zmult_mod_idemp_r. f_equal. ring.
Qed.

Lemma dadd_sound : forall u r2 r3 r' x2 z2 x3 z3, canon u -> dadd_ok u r2 r3 r' = true ->
  in_cls r2 x2 z2 -> in_cls r3 x3 z3 -> in_cls r' (daddx x2 z2 x3 z3) (daddz u x2 z2 x3 z3).
Proof.
  intros u r2 r3 r' x2 z2 x3 z3 Hu H (l2 & -> & ->) (l3 & -> & ->). unfold dadd_ok in H. cbv zeta in H.
  apply andb_prop in H as [H1 H2]. apply Z.eqb_eq in H1, H2.
  set (mu := pick_mu r' (Xa (fst r2) (snd r2) (fst r3) (snd r3) mod p25519)
                        (Za u (fst r2) (snd r2) (fst r3) (snd r3) mod p25519)) in *.
  exists ((l2 * l3) ^ 2 * mu). rewrite daddx_hom, daddz_hom by exact Hu. split.
  - rewrite <- Zmult_mod_idemp_r, H1, Zmult_mod_idemp_r. f_equal. ring.
  - rewrite <- Zmult_mod_idemp_r, H2, Zmult_mod_idemp_r. f_equal. ring.
Qed.

(* x-coordinate class of [m]P for m = 0..7, P the point with x-coordinate u *)
Definition tbl (u : Z) : list (Z * Z) :=
  if u =? 0 then [(1, 0); (0, 1); (1, 0); (0, 1); (1, 0); (0, 1); (1, 0); (0, 1)]
  else if u =? 1 then [(1, 0); (1, 1); (0, 1); (1, 1); (1, 0); (1, 1); (0, 1); (1, 1)]
  else if u =? p25519 - 1 then
    [(1, 0); (p25519 - 1, 1); (0, 1); (p25519 - 1, 1); (1, 0); (p25519 - 1, 1); (0, 1); (p25519 - 1, 1)]
  else if u =? order8a then
    [(1, 0); (order8a, 1); (1, 1); (order8b, 1); (0, 1); (order8b, 1); (1, 1); (order8a, 1)]
  else [(1, 0); (order8b, 1); (1, 1); (order8a, 1); (0, 1); (order8a, 1); (1, 1); (order8b, 1)].
Definition rep (u m : Z) : Z * Z := nth (Z.to_nat (m mod 8)) (tbl u) (1, 0).

Definition step_ok (u m : Z) : bool :=
  dbl_ok (rep u m) (rep u (2 * m)) && dbl_ok (rep u (m + 1)) (rep u (2 * m + 2)) &&
  dadd_ok u (rep u m) (rep u (m + 1)) (rep u (2 * m + 1)) && dadd_ok u (rep u (m + 1)) (rep u m) (rep u (2 * m + 1)).
Definition pair_eqb (a b : Z * Z) : bool := (fst a =? fst b) && (snd a =? snd b).
Definition table_ok (u : Z) : bool :=
  forallb (step_ok u) [0; 1; 2; 3; 4; 5; 6; 7] && pair_eqb (rep u 0) (1, 0) && pair_eqb (rep u 1) (u, 1).

Lemma low_order_table : forall u, low_order_x u = true -> table_ok u = true.
Proof.
  intros u H. unfold low_order_x in H.
  repeat (apply orb_prop in H as [H|H]); apply Z.eqb_eq in H; subst u; vm_compute; reflexivity.
Qed.

Lemma low_order_x_canon : forall u, low_order_x u = true -> canon u.
Proof.
  intros u H. unfold low_order_x in H.
  repeat (apply orb_prop in H as [H|H]); apply Z.eqb_eq in H; subst u; unfold canon; split; (discriminate || reflexivity).
Qed.

Lemma rep_mod : forall u m m', m mod 8 = m' mod 8 -> rep u m = rep u m'.
Proof. intros u m m' H. unfold rep. rewrite H. reflexivity. Qed.

Lemma step_ok_any : forall u M, table_ok u = true ->
  dbl_ok (rep u M) (rep u (2 * M)) = true /\ dbl_ok (rep u (M + 1)) (rep u (2 * M + 2)) = true /\
  dadd_ok u (rep u M) (rep u (M + 1)) (rep u (2 * M + 1)) = true /\
  dadd_ok u (rep u (M + 1)) (rep u M) (rep u (2 * M + 1)) = true.
Proof.
  intros u M H. unfold table_ok in H. apply andb_prop in H as [H _]. apply andb_prop in H as [H _].
  rewrite forallb_forall in H.
  pose proof (Z.mod_pos_bound M 8 ltac:(lia)) as Hb.
  assert (In (M mod 8) [0; 1; 2; 3; 4; 5; 6; 7]) as Hin.
  { cbn [In]. lia. }
  specialize (H _ Hin). unfold step_ok in H.
  apply andb_prop in H as [H H4]. apply andb_prop in H as [H H3]. apply andb_prop in H as [H1 H2].
  rewrite (rep_mod u (M mod 8) M) in * by (apply Z.mod_mod; lia).
  rewrite (rep_mod u (2 * (M mod 8)) (2 * M)) in * by (rewrite Z.mul_mod_idemp_r by lia; reflexivity).
  rewrite (rep_mod u (M mod 8 + 1) (M + 1)) in * by (rewrite Z.add_mod_idemp_l by lia; reflexivity).
  rewrite (rep_mod u (2 * (M mod 8) + 2) (2 * M + 2)) in *
    by (rewrite <- Z.add_mod_idemp_l, Z.mul_mod_idemp_r, Z.add_mod_idemp_l by lia; reflexivity).
  rewrite (rep_mod u (2 * (M mod 8) + 1) (2 * M + 1)) in *
    by (rewrite <- Z.add_mod_idemp_l, Z.mul_mod_idemp_r, Z.add_mod_idemp_l by lia; reflexivity).
  auto.
Qed.

(* ------------------------------------------------------------------ bits of the scalar *)
Lemma div_pow2_step : forall K t, 0 <= K -> 0 <= t ->
  K / 2 ^ t = 2 * (K / 2 ^ (t + 1)) + Z.b2z (Z.testbit K t).
Proof.
  intros K t HK Ht. rewrite Z.testbit_spec' by assumption.
  rewrite Z.pow_add_r by lia. change (2 ^ 1) with 2.
  rewrite <- Z.div_div by lia.
  pose proof (Z.div_mod (K / 2 ^ t) 2 ltac:(lia)). lia.
Qed.

Lemma clamp_mod8 : forall s, clamp_scalar s mod 8 = 0.
Proof.
  intros s. change 8 with (2 ^ 3). apply Z.bits_inj'. intros i Hi. rewrite Z.bits_0.
  destruct (Z.lt_ge_cases i 3) as [Hlt|Hge].
  - rewrite Z.mod_pow2_bits_low by lia. unfold clamp_scalar.
    rewrite Z.lor_spec, Z.land_spec.
    assert (i = 0 \/ i = 1 \/ i = 2) as [-> | [-> | ->]] by lia;
      rewrite andb_false_r; reflexivity.
  - apply Z.mod_pow2_bits_high. lia.
Qed.

(* ------------------------------------------------------------------ the ladder on a small-order point *)
Lemma finv_0 : finv 0 = 0.
Proof. vm_compute. reflexivity. Qed.
Lemma fmul_0_r : forall a, fmul a 0 = 0.
Proof. intros a. unfold fmul. rewrite Z.mul_0_r. reflexivity. Qed.

Lemma ladder_low_order : forall u k, canon u -> table_ok u = true ->
  forall (n : nat) (x2 z2 x3 z3 : Z) (swap : bool), (n <= 255)%nat ->
  let K := k mod 2 ^ 255 in
  let M := K / 2 ^ Z.of_nat n in
  in_cls (rep u M) (if swap then x3 else x2) (if swap then z3 else z2) ->
  in_cls (rep u (M + 1)) (if swap then x2 else x3) (if swap then z2 else z3) ->
  K mod 8 = 0 ->
  ladder n k u x2 z2 x3 z3 swap = 0.
Proof.
  intros u k Hu Ht n. induction n as [|t IH]; intros x2 z2 x3 z3 swap Hn K M H2 H3 H8.
  - rewrite ladder_O. subst M. change (2 ^ Z.of_nat 0) with 1 in H2. rewrite Z.div_1_r in H2.
    rewrite (rep_mod u K 0) in H2 by (rewrite H8; reflexivity).
    unfold table_ok in Ht. apply andb_prop in Ht as [Ht _]. apply andb_prop in Ht as [_ Ht].
    unfold pair_eqb in Ht. apply andb_prop in Ht as [Ha Hb]. apply Z.eqb_eq in Ha, Hb. cbn [fst snd] in Ha, Hb.
    destruct H2 as (l & _ & Hz). rewrite Hb, Z.mul_0_r in Hz. change (0 mod p25519) with 0 in Hz.
    rewrite Hz, finv_0. apply fmul_0_r.
  - rewrite ladder_S. cbv zeta.
    assert (0 <= K) as HK by (apply Z.mod_pos_bound; reflexivity).
    assert (Z.testbit k (Z.of_nat t) = Z.testbit K (Z.of_nat t)) as Hbit.
    { subst K. symmetry. apply Z.mod_pow2_bits_low. lia. }
    pose proof (div_pow2_step K (Z.of_nat t) HK ltac:(lia)) as Hstep.
    replace (Z.of_nat t + 1) with (Z.of_nat (S t)) in Hstep by lia. fold M in Hstep.
    destruct (step_ok_any u M Ht) as (D2 & D3 & A23 & A32).
    rewrite Hbit. clear Hbit.
    destruct (Z.testbit K (Z.of_nat t)) eqn:B; cbn [Z.b2z] in Hstep.
    + (* bit 1: the slot to double holds [M+1]P *)
      rewrite xorb_true_r.
      apply IH; [lia | | | exact H8]; fold K; rewrite Hstep.
      * (* logical Q2' = slot 3 = dadd *) cbn [negb].
        replace (2 * M + 1) with (2 * M + 1) by lia.
        destruct swap; cbn [negb]; apply (dadd_sound u _ _ _ _ _ _ _ Hu A32); assumption.
      * replace (2 * M + 1 + 1) with (2 * M + 2) by lia.
        destruct swap; cbn [negb]; apply (dbl_sound _ _ _ _ D3); assumption.
    + rewrite xorb_false_r.
      apply IH; [lia | | | exact H8]; fold K; rewrite Hstep; rewrite Z.add_0_r.
      * destruct swap; apply (dbl_sound _ _ _ _ D2); assumption.
      * destruct swap; apply (dadd_sound u _ _ _ _ _ _ _ Hu A23); assumption.
Qed.

Lemma x25519_z_low_order : forall s v, low_order_x (freduce (mask_u v)) = true -> x25519_z s v = 0.
Proof.
  intros s v H. unfold x25519_z. cbv zeta.
  set (u := freduce (mask_u v)) in *.
  pose proof (low_order_x_canon u H) as Hu. pose proof (low_order_table u H) as Ht.
  assert (rep u 0 = (1, 0) /\ rep u 1 = (u, 1)) as [R0 R1].
  { unfold table_ok in Ht. apply andb_prop in Ht as [Ht Hb]. apply andb_prop in Ht as [_ Ha].
    unfold pair_eqb in Ha, Hb. apply andb_prop in Ha as [Ha1 Ha2]. apply andb_prop in Hb as [Hb1 Hb2].
    apply Z.eqb_eq in Ha1, Ha2, Hb1, Hb2. cbn [fst snd] in *.
    split; [destruct (rep u 0) | destruct (rep u 1)]; cbn [fst snd] in *; congruence. }
  apply (ladder_low_order u (clamp_scalar s) Hu Ht 255 1 0 u 1 false (le_n _)); cbv zeta.
  - rewrite Z.div_small by (change (Z.of_nat 255) with 255; apply Z.mod_pos_bound; reflexivity).
    rewrite R0. exists 1. cbn [fst snd]. split; reflexivity.
  - rewrite Z.div_small by (change (Z.of_nat 255) with 255; apply Z.mod_pos_bound; reflexivity).
    change (0 + 1) with 1. rewrite R1. exists 1. cbn [fst snd]. split.
    + rewrite Z.mul_1_l. symmetry. apply Z.mod_small. exact Hu.
    + reflexivity.
  - change (2 ^ 255) with (8 * 2 ^ 252). rewrite Z.mul_comm.
    rewrite <- (Zmod_div_mod 8 (2 ^ 252 * 8)); [apply clamp_mod8 | lia | lia | exists (2 ^ 252); reflexivity].
Qed.

(* the key agreement of the model refuses every small-order ephemeral value, whatever the private key *)
Theorem dh_real_rejects_low_order : forall pv u, low_order u = true -> dh_real pv u = None.
Proof.
  intros pv u H. unfold dh_real, x25519. unfold low_order, decode_u in H.
  rewrite (x25519_z_low_order (le_decode pv) (le_decode u) H). reflexivity.
Qed.

(* conversely dh_real never hands out the all-zero string, and what it hands out has 32 bytes *)
Lemma le_encode_length : forall n z, length (le_encode n z) = n.
Proof. induction n; intros; cbn; auto. Qed.

Lemma forallb_zero_repeat : forall l, forallb (N.eqb 0) l = true -> l = repeat 0%N (length l).
Proof.
  induction l as [|a l IH]; intros H; [reflexivity|]. cbn [forallb] in H. apply andb_prop in H as [Ha Hl].
  apply N.eqb_eq in Ha. subst a. cbn. f_equal. apply IH. exact Hl.
Qed.

Theorem dh_real_nonzero : forall pv u s, dh_real pv u = Some s -> length s = 32%nat /\ s <> repeat 0%N 32.
Proof.
  intros pv u s H. unfold dh_real in H. cbv zeta in H.
  destruct (forallb (N.eqb 0) (x25519 pv u)) eqn:E; [discriminate|]. inversion H; subst s. split.
  - unfold x25519. apply le_encode_length.
  - intros Hz. rewrite Hz in E. vm_compute in E. discriminate.
Qed.

(* ------------------------------------------------------------------ the list is complete *)
Lemma low_order_values_sound : forallb (fun v => low_order_x (freduce (mask_u v))) low_order_values = true.
Proof. vm_compute. reflexivity. Qed.

Lemma low_order_points_low : forallb low_order low_order_points = true.
Proof. vm_compute. reflexivity. Qed.

Lemma low_order_values_complete : forall v, 0 <= v < 2 ^ 256 ->
  low_order_x (freduce (mask_u v)) = true -> In v low_order_values.
Proof.
  intros v Hv H. unfold mask_u in H.
  assert (0 <= v mod 2 ^ 255 < 2 ^ 255) as Hw by (apply Z.mod_pos_bound; reflexivity).
  rewrite freduce_spec in H by (split; [lia | eapply Z.lt_trans; [apply Hw | reflexivity]]).
  pose proof (Z.div_mod v (2 ^ 255) ltac:(discriminate)) as Hdm.
  assert (v / 2 ^ 255 = 0 \/ v / 2 ^ 255 = 1) as Hq.
  { assert (0 <= v / 2 ^ 255 < 2).
    { split; [apply Z.div_pos; lia | apply Z.div_lt_upper_bound; [reflexivity | change (2 ^ 255 * 2) with (2 ^ 256); lia]]. }
    lia. }
  set (w := v mod 2 ^ 255) in *.
  pose proof (Z.div_mod w p25519 ltac:(discriminate)) as Hdp.
  pose proof (Z.mod_pos_bound w p25519 ltac:(reflexivity)) as Hmp.
  assert (w / p25519 = 0 \/ w / p25519 = 1) as Hqp.
  { assert (0 <= w / p25519 < 2).
    { split; [apply Z.div_pos; [lia | reflexivity] | apply Z.div_lt_upper_bound; [reflexivity|]].
      eapply Z.lt_trans; [apply Hw | reflexivity]. }
    lia. }
  unfold low_order_x in H.
  unfold low_order_values. cbv zeta. cbn [map app In].
  change (2 ^ 255) with 57896044618658097711785492504343953926634992332820282019728792003956564819968 in *.
  unfold p25519, order8a, order8b in *.
  change (2 ^ 255) with 57896044618658097711785492504343953926634992332820282019728792003956564819968 in *.
  repeat (apply orb_prop in H as [H|H]); apply Z.eqb_eq in H; lia.
Qed.

(* ------------------------------------------------------------------ what opens was sealed (AES-GCM, as a function) *)
From Cloak Require Import Model.AEAD Model.Crypto.GCM Proofs.AEAD Proofs.Crypto Proofs.Hello Proofs.FirstPacket Proofs.Dispatch.

Lemma aead_open_inv : forall (stream : list N -> list N -> nat -> list N) (mac : list N -> list N -> list N -> list N -> list N)
  (tag_len : nat),
  (forall k n len, (len <= length (stream k n len))%nat) ->
  forall k n c a p, aead_open stream mac tag_len k n c a = Some p -> c = aead_seal stream mac k n p a.
Proof.
  intros stream mac tl Hcov k n c a p. unfold aead_open.
  destruct (Nat.ltb (length c) tl); [discriminate|].
  destruct (CBytes.bytes_eqb (skipn (length c - tl) c) (mac k n a (firstn (length c - tl) c))) eqn:E; [|discriminate].
  intros H. inversion H; subst p. clear H. apply bytes_eqb_eq in E.
  unfold aead_seal. cbv zeta. rewrite (aead_enc_involutive stream Hcov). rewrite <- E.
  symmetry. apply firstn_skipn.
Qed.

Lemma gcm_open_inv : forall k n c a p, gcm_open k n c a = Some p -> c = gcm_seal k n p a.
Proof. intros k n c a p. apply aead_open_inv. apply gcm_stream_covers. Qed.

(* ------------------------------------------------------------------ C07: who is accepted, in terms of the key *)
Local Open Scope N_scope.

Lemma copy_into_id : forall (n : nat) (l : list N), length l = n -> copy_into n l = l.
Proof.
  intros n l H. unfold copy_into. rewrite firstn_app, H, Nat.sub_diag. cbn [firstn]. rewrite app_nil_r.
  rewrite <- H. apply firstn_all.
Qed.

Section KeyHolder.
  Variable dh : list N -> list N -> option (list N).
  Variable gcm_open' : list N -> list N -> list N -> list N -> option (list N).
  Hypothesis gcm_open_len : forall k n ct aad pt, gcm_open' k n ct aad = Some pt -> (length pt + 16 = length ct)%nat.

  (* every accepted packet went through a successful key agreement on its own ephemeral value *)
  Lemma accepted_has_secret : forall p st now ci,
    auth_first_packet dh gcm_open' p st now = DOk ci ->
    exists fr sh pt,
      first_packet dh p (st_staticPv st) = Ok fr /\ dh (st_staticPv st) (f_rand fr) = Some sh /\
      f_shared fr = copy_into 32 sh /\
      gcm_open' (f_shared fr) (firstn 12 (f_rand fr)) (f_ct fr) [] = Some pt /\ length pt = 48%nat /\ ci = info_of pt.
  Proof.
    intros p st now ci H. apply (auth_ok_iff dh gcm_open' gcm_open_len) in H.
    destruct H as (fr & sh & pt & F & D & S & _ & G & L & _ & E). exists fr, sh, pt. repeat split; assumption.
  Qed.

  Section LowOrder.
    (* crypto/ecdh: X25519 on a small-order input is the error "bad X25519 remote ECDH input: low order point" *)
    Hypothesis dh_rejects_low_order : forall pv u, low_order u = true -> dh pv u = None.

    Lemma accepted_not_low_order : forall p st now ci,
      auth_first_packet dh gcm_open' p st now = DOk ci ->
      exists fr, first_packet dh p (st_staticPv st) = Ok fr /\ low_order (f_rand fr) = false.
    Proof.
      intros p st now ci H. destruct (accepted_has_secret _ _ _ _ H) as (fr & sh & pt & F & D & _).
      exists fr. split; [exact F|]. destruct (low_order (f_rand fr)) eqn:L; [|reflexivity].
      rewrite (dh_rejects_low_order _ _ L) in D. discriminate.
    Qed.

    Lemma session_not_low_order : forall p st now,
      is_session (decide dh gcm_open' p st now) ->
      exists fr, first_packet dh p (st_staticPv st) = Ok fr /\ low_order (f_rand fr) = false.
    Proof.
      intros p st now H. unfold decide in H.
      destruct (auth_first_packet dh gcm_open' p st now) as [ci|r|] eqn:A; cbn in H; try contradiction.
      eapply accepted_not_low_order. exact A.
    Qed.

    (* and positively: such a hello is a parse error at the key agreement, i.e. web traffic, whatever its block,
       the server state and the clock *)
    Lemma low_order_tls_is_web : forall data ch st now,
      parseClientHello data = Ok ch -> low_order (copy_into 32 (ch_random ch)) = true ->
      auth_first_packet dh gcm_open' (PTLS data) st now = DFail (RParse EDH) /\
      decide dh gcm_open' (PTLS data) st now = Redirect (RParse EDH).
    Proof.
      intros data ch st now P L.
      assert (auth_first_packet dh gcm_open' (PTLS data) st now = DFail (RParse EDH)) as A.
      { unfold auth_first_packet, first_packet, tls_first_packet. rewrite P. cbn [bind].
        unfold unmarshalClientHello. cbv zeta.
        assert (length (copy_into 32 (ch_random ch)) = 32%nat) as L32.
        { unfold copy_into. rewrite firstn_length, app_length, repeat_length. lia. }
        rewrite L32. cbn [Nat.eqb negb]. rewrite (dh_rejects_low_order _ _ L). reflexivity. }
      split; [exact A|]. unfold decide. rewrite A. reflexivity.
    Qed.

    Lemma low_order_ws_is_web : forall h st now,
      (96 <= length h)%nat -> low_order (copy_into 32 (firstn 32 h)) = true ->
      auth_first_packet dh gcm_open' (PWS (Some h)) st now = DFail (RParse EDH) /\
      decide dh gcm_open' (PWS (Some h)) st now = Redirect (RParse EDH).
    Proof.
      intros h st now Hl L.
      assert (auth_first_packet dh gcm_open' (PWS (Some h)) st now = DFail (RParse EDH)) as A.
      { unfold auth_first_packet, first_packet, ws_first_packet, unmarshalHidden.
        destruct (Nat.ltb_spec (length h) 96) as [Hlt|_]; [lia|].
        unfold take. destruct (Nat.leb_spec 32 (length h)) as [_|Hgt]; [|lia]. cbn [bind]. cbv zeta.
        assert (length (copy_into 32 (firstn 32 h)) = 32%nat) as L32.
        { unfold copy_into. rewrite firstn_length, app_length, repeat_length. lia. }
        rewrite L32. cbn [Nat.eqb negb]. rewrite (dh_rejects_low_order _ _ L). reflexivity. }
      split; [exact A|]. unfold decide. rewrite A. reflexivity.
    Qed.
  End LowOrder.

  Section NonZero.
    (* crypto/ecdh: the shared secret is 32 bytes and never all-zero (that IS the error) *)
    Hypothesis dh_nonzero : forall pv u s, dh pv u = Some s -> length s = 32%nat /\ s <> repeat 0 32.

    Lemma accepted_key_nonzero : forall p st now ci,
      auth_first_packet dh gcm_open' p st now = DOk ci ->
      exists fr pt, first_packet dh p (st_staticPv st) = Ok fr /\
        dh (st_staticPv st) (f_rand fr) = Some (f_shared fr) /\ f_shared fr <> repeat 0 32 /\
        gcm_open' (f_shared fr) (firstn 12 (f_rand fr)) (f_ct fr) [] = Some pt /\ ci = info_of pt.
    Proof.
      intros p st now ci H. destruct (accepted_has_secret _ _ _ _ H) as (fr & sh & pt & F & D & S & G & _ & E).
      destruct (dh_nonzero _ _ _ D) as [L32 Hnz]. rewrite (copy_into_id 32 sh L32) in S.
      exists fr, pt. rewrite S. rewrite S in G. repeat split; assumption.
    Qed.
  End NonZero.

  Section Sealed.
    Variable gcm_seal' : list N -> list N -> list N -> list N -> list N.
    (* AES-GCM as a function: the only string that opens to p under (k, n) is the sealing of p under (k, n) *)
    Hypothesis open_is_seal : forall k n c p, gcm_open' k n c [] = Some p -> c = gcm_seal' k n p [].

    Lemma accepted_is_sealed_to_server : forall p st now ci,
      auth_first_packet dh gcm_open' p st now = DOk ci ->
      exists fr sh pt, first_packet dh p (st_staticPv st) = Ok fr /\
        dh (st_staticPv st) (f_rand fr) = Some sh /\
        f_ct fr = gcm_seal' (copy_into 32 sh) (firstn 12 (f_rand fr)) pt [] /\
        length pt = 48%nat /\ in_window (pt_ts pt) now = true /\ ci = info_of pt.
    Proof.
      intros p st now ci H. apply (auth_ok_iff dh gcm_open' gcm_open_len) in H.
      destruct H as (fr & sh & pt & F & D & S & _ & G & L & W & E).
      exists fr, sh, pt. rewrite <- S. repeat split; auto.
    Qed.
  End Sealed.
End KeyHolder.

(* the instantiation the correspondence runs: Gallina X25519 with crypto/ecdh's zero check, Gallina AES-GCM *)
Lemma gcm_len_hyp : forall k n ct aad pt, gcm_open k n ct aad = Some pt -> (length pt + 16 = length ct)%nat.
Proof. intros k n ct aad pt H. apply gcm_open_length in H. exact H. Qed.

Theorem real_accepted_not_low_order : forall p st now ci,
  auth_first_packet dh_real gcm_open p st now = DOk ci ->
  exists fr, first_packet dh_real p (st_staticPv st) = Ok fr /\ low_order (f_rand fr) = false.
Proof. exact (accepted_not_low_order dh_real gcm_open gcm_len_hyp dh_real_rejects_low_order). Qed.

Theorem real_accepted_key_nonzero : forall p st now ci,
  auth_first_packet dh_real gcm_open p st now = DOk ci ->
  exists fr pt, first_packet dh_real p (st_staticPv st) = Ok fr /\
    dh_real (st_staticPv st) (f_rand fr) = Some (f_shared fr) /\ f_shared fr <> repeat 0 32 /\
    gcm_open (f_shared fr) (firstn 12 (f_rand fr)) (f_ct fr) [] = Some pt /\ ci = info_of pt.
Proof. exact (accepted_key_nonzero dh_real gcm_open gcm_len_hyp dh_real_nonzero). Qed.

Theorem real_accepted_is_sealed : forall p st now ci,
  auth_first_packet dh_real gcm_open p st now = DOk ci ->
  exists fr sh pt, first_packet dh_real p (st_staticPv st) = Ok fr /\
    dh_real (st_staticPv st) (f_rand fr) = Some sh /\
    f_ct fr = gcm_seal (copy_into 32 sh) (firstn 12 (f_rand fr)) pt [] /\
    length pt = 48%nat /\ in_window (pt_ts pt) now = true /\ ci = info_of pt.
Proof.
  exact (accepted_is_sealed_to_server dh_real gcm_open gcm_len_hyp gcm_seal (fun k n c p H => gcm_open_inv k n c [] p H)).
Qed.
