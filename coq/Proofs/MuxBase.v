(* Basic facts about Model/Mux.v: association lists, record projections, and how the
   building blocks (close_all, close_session_core, passive_close, sb_send, ...) act on the
   two sessions and the connections.  Used by MuxSafety.v (C12), MuxSeq.v (C13), MuxData.v
   (C01, C03). *)
From Coq Require Import NArith ZArith List Bool Lia.
From Coq Require Import ZifyN ZifyBool.
From Cloak Require Import Model.Reorder Model.Mux.
Import ListNotations.
Local Open Scope N_scope.

Lemma lookup_update_eq {A} k (v : A) l : lookup k (update k v l) = Some v.
Proof. induction l as [|[k' v'] t IH]; cbn; [now rewrite N.eqb_refl|].
  destruct (k =? k') eqn:E; cbn; rewrite ?N.eqb_refl, ?E; auto. Qed.
Lemma lookup_update_neq {A} k k' (v : A) l : k <> k' -> lookup k (update k' v l) = lookup k l.
Proof. intros Hne. induction l as [|[k2 v2] t IH]; cbn.
  - destruct (k =? k') eqn:E; [lia|reflexivity].
  - destruct (k' =? k2) eqn:E2; cbn.
    + assert (k' = k2) by lia; subst. destruct (k =? k2) eqn:E; [lia|reflexivity].
    + destruct (k =? k2); auto. Qed.
Lemma lookup_update {A} k k' (v : A) l :
  lookup k (update k' v l) = if k =? k' then Some v else lookup k l.
Proof. destruct (k =? k') eqn:E.
  - assert (k = k') by lia; subst. apply lookup_update_eq.
  - apply lookup_update_neq. lia. Qed.

Lemma side_eqb_refl s : side_eqb s s = true. Proof. now destruct s. Qed.
Lemma other_other s : other (other s) = s. Proof. now destruct s. Qed.
Lemma other_neq s : other s <> s. Proof. now destruct s. Qed.

Lemma sess_set_same y s se : sess (set_sess y s se) s = se.
Proof. now destruct s. Qed.
Lemma sess_set_other y s se : sess (set_sess y s se) (other s) = sess y (other s).
Proof. now destruct s. Qed.
Lemma sess_set y s s' se : sess (set_sess y s se) s' = if side_eqb s s' then se else sess y s'.
Proof. now destruct s, s'. Qed.
Lemma sess_set_conns y cs s : sess (set_conns y cs) s = sess y s. Proof. now destruct s. Qed.
Lemma sess_set_pend y p s : sess (set_pend y p) s = sess y s. Proof. now destruct s. Qed.
Lemma sess_set_now y t s : sess (set_now y t) s = sess y s. Proof. now destruct s. Qed.
Lemma conns_set_sess y s se : sy_conns (set_sess y s se) = sy_conns y. Proof. now destruct s. Qed.
Lemma pend_set_sess y s se : sy_pend (set_sess y s se) = sy_pend y. Proof. now destruct s. Qed.
Lemma now_set_sess y s se : sy_now (set_sess y s se) = sy_now y. Proof. now destruct s. Qed.

Lemma nthN_setN_eq {A} n (v : A) l x : nthN n l = Some x -> nthN n (setN n v l) = Some v.
Proof. revert n; induction l as [|a t IH]; intros [|n]; cbn; try discriminate; auto. Qed.
Lemma nthN_setN_neq {A} n m (v : A) l : n <> m -> nthN n (setN m v l) = nthN n l.
Proof. revert n m; induction l as [|a t IH]; intros [|n] [|m] H; cbn; auto; try congruence. Qed.
Lemma length_setN {A} n (v : A) l : length (setN n v l) = length l.
Proof. revert n; induction l as [|a t IH]; intros [|n]; cbn; auto. Qed.
Lemma nthN_Some_lt {A} n (l : list A) x : nthN n l = Some x -> (n < length l)%nat.
Proof. revert n; induction l as [|a t IH]; intros [|n]; cbn; try discriminate; try lia.
  intros H. apply IH in H. lia. Qed.
Lemma nthN_lt_Some {A} n (l : list A) : (n < length l)%nat -> exists x, nthN n l = Some x.
Proof. revert n; induction l as [|a t IH]; intros [|n]; cbn; try lia; eauto.
  intros H. apply IH. lia. Qed.

(* ---- what the connection-closing loop does ---- *)
Lemma close_ends_length s pool cs : length (fst (close_ends s pool cs)) = length cs.
Proof. revert cs; induction pool as [|c t IH]; intros cs; cbn; [reflexivity|].
  destruct (nthN (N.to_nat c) cs) as [cn|] eqn:E; [|apply IH].
  destruct (conn_closed_end cn s); [apply IH|].
  destruct (close_ends s t (setN (N.to_nat c) (conn_close_end cn s) cs)) as [cs' evs] eqn:E2. cbn.
  specialize (IH (setN (N.to_nat c) (conn_close_end cn s) cs)). rewrite E2 in IH. cbn in IH.
  now rewrite IH, length_setN. Qed.

(* every connection keeps its queues and its other end; ends of side s only ever get closed *)
Definition conn_le (s : side) (a b : conn) : Prop :=
  c_toA b = c_toA a /\ c_toB b = c_toB a /\ c_failed b = c_failed a /\
  conn_closed_end b (other s) = conn_closed_end a (other s) /\
  (conn_closed_end a s = true -> conn_closed_end b s = true).
Lemma conn_le_refl s a : conn_le s a a. Proof. unfold conn_le; tauto. Qed.
Lemma conn_le_trans s a b c : conn_le s a b -> conn_le s b c -> conn_le s a c.
Proof. unfold conn_le; intuition congruence. Qed.
Lemma conn_le_close s a : conn_le s a (conn_close_end a s).
Proof. destruct s, a; unfold conn_le; cbn; tauto. Qed.
Lemma conn_close_end_closed s a : conn_closed_end (conn_close_end a s) s = true.
Proof. now destruct s, a. Qed.

Lemma close_ends_spec s pool : forall cs,
  let cs' := fst (close_ends s pool cs) in
  (forall n a, nthN n cs = Some a -> exists b, nthN n cs' = Some b /\ conn_le s a b) /\
  (forall c a, In c pool -> nthN (N.to_nat c) cs = Some a ->
     exists b, nthN (N.to_nat c) cs' = Some b /\ conn_closed_end b s = true).
Proof.
  induction pool as [|c t IH]; intros cs; cbn.
  - split; [intros n a H; exists a; split; [exact H|apply conn_le_refl]|intros c a []].
  - destruct (nthN (N.to_nat c) cs) as [cn|] eqn:E.
    + destruct (conn_closed_end cn s) eqn:Ecl.
      * destruct (IH cs) as [H1 H2]. split; [exact H1|].
        intros c' a [<-|Hin] Hn; [|eapply H2; eauto].
        rewrite E in Hn. injection Hn as <-. destruct (H1 _ _ E) as (b & Hb & Hle).
        exists b. split; [exact Hb|]. apply Hle. exact Ecl.
      * destruct (close_ends s t (setN (N.to_nat c) (conn_close_end cn s) cs)) as [cs' evs] eqn:E2. cbn.
        destruct (IH (setN (N.to_nat c) (conn_close_end cn s) cs)) as [H1 H2]. rewrite E2 in H1, H2. cbn in H1, H2.
        split.
        -- intros n a Hn. destruct (Nat.eq_dec n (N.to_nat c)) as [->|Hne].
           ++ rewrite E in Hn. injection Hn as <-.
              destruct (H1 (N.to_nat c) (conn_close_end cn s)) as (b & Hb & Hle); [eapply nthN_setN_eq; eauto|].
              exists b. split; [exact Hb|]. eapply conn_le_trans; [apply conn_le_close|exact Hle].
           ++ apply H1. rewrite nthN_setN_neq; auto.
        -- intros c' a [<-|Hin] Hn.
           ++ destruct (H1 (N.to_nat c) (conn_close_end cn s)) as (b & Hb & Hle); [eapply nthN_setN_eq; eauto|].
              exists b. split; [exact Hb|]. apply Hle. apply conn_close_end_closed.
           ++ destruct (Nat.eq_dec (N.to_nat c') (N.to_nat c)) as [Heq|Hne].
              ** destruct (H1 (N.to_nat c) (conn_close_end cn s)) as (b & Hb & Hle); [eapply nthN_setN_eq; eauto|].
                 rewrite Heq. exists b. split; [exact Hb|]. apply Hle. apply conn_close_end_closed.
              ** eapply H2; [exact Hin|]. rewrite nthN_setN_neq; eauto.
    + destruct (IH cs) as [H1 H2]. split; [exact H1|].
      intros c' a [<-|Hin] Hn; [congruence|eapply H2; eauto].
Qed.

(* ---- step_core, one equation per label (so that proofs never unfold the fuelled loops) ---- *)
Lemma step_core_open y s ch : step_core y (LOpen s) ch = open_stream y s.
Proof. reflexivity. Qed.
Lemma step_core_write y s sid data ch : step_core y (LWrite s sid data) ch = stream_write y s sid data ch.
Proof. reflexivity. Qed.
Lemma step_core_read y s sid k ch : step_core y (LRead s sid k) ch =
  if has_pending_read (sy_pend y) s sid then (y, [ERet R_ERR 9 []])
  else match try_read y s sid k with
       | Some (y1, rc, d) => (y1, [ERet rc (N.of_nat (length d)) d])
       | None => (set_pend y (sy_pend y ++ [PRead s sid 1]), [ERet R_BLOCKED 0 []])
       end.
Proof. reflexivity. Qed.
Lemma step_core_accept y s ch : step_core y (LAccept s) ch =
  if se_closed (sess y s) then (y, [ERet R_BROKEN_SESSION 0 []])
  else match try_accept y s with
       | Some (y1, rc, id) => (y1, [ERet rc id []])
       | None => if has_pending_accept (sy_pend y) s then (y, [ERet R_ERR 9 []])
                 else (set_pend y (sy_pend y ++ [PAccept s]), [ERet R_BLOCKED 0 []])
       end.
Proof. reflexivity. Qed.
Lemma step_core_close_stream y s sid ch : step_core y (LCloseStream s sid) ch =
  let '(y1, _, evs, rc) := close_stream y s sid true ch in (y1, evs ++ [ERet rc 0 []]).
Proof. reflexivity. Qed.
Lemma step_core_close_session y s ch : step_core y (LCloseSession s) ch =
  let '(y1, _, evs, rc) := session_close y s ch in (y1, evs ++ [ERet rc 0 []]).
Proof. reflexivity. Qed.
Lemma step_core_deliver y s c ch : step_core y (LDeliver s c) ch =
  match nthN (N.to_nat c) (sy_conns y) with
  | None => (y, [ERet R_ERR 0 []])
  | Some cn =>
      if conn_closed_end cn s || c_failed cn then (y, [ERet R_ERR 1 []])
      else match conn_q cn s with
      | fr :: q =>
          let '(y2, _, evs) := recv_frame (set_conns y (setN (N.to_nat c) (conn_set_q cn s q) (sy_conns y))) s fr ch in
          (y2, evs ++ [ERet R_OK 0 []])
      | [] =>
          if conn_closed_end cn (other s) then
            let '(y1, evs) := deplex_error y s c in (y1, evs ++ [ERet R_OK 1 []])
          else (y, [ERet R_ERR 2 []])
      end
  end.
Proof. reflexivity. Qed.
Lemma step_core_fail y c ch : step_core y (LFail c) ch =
  match nthN (N.to_nat c) (sy_conns y) with
  | None => (y, [ERet R_ERR 0 []])
  | Some cn =>
      let y0 := set_conns y (setN (N.to_nat c) (mkC [] [] (c_clA cn) (c_clB cn) true) (sy_conns y)) in
      let '(y1, e1) := if conn_closed_end cn SA || c_failed cn then (y0, []) else deplex_error y0 SA c in
      let '(y2, e2) := if conn_closed_end cn SB || c_failed cn then (y1, []) else deplex_error y1 SB c in
      (y2, e1 ++ e2 ++ [ERet R_OK 0 []])
  end.
Proof. reflexivity. Qed.
Lemma step_core_tick y d ch : step_core y (LTick d) ch =
  let '(y1, ch1, e1) := fire_timers 64 (set_now y (sy_now y + d)%Z) SA ch in
  let '(y2, _, e2) := fire_timers 64 y1 SB ch1 in
  (y2, e1 ++ e2 ++ [ERet R_OK 0 []]).
Proof. reflexivity. Qed.
Lemma step_core_break y c ch : step_core y (LBreak c) ch =
  match nthN (N.to_nat c) (sy_conns y) with
  | None => (y, [ERet R_ERR 0 []])
  | Some cn => (set_conns y (setN (N.to_nat c) (mkC [] [] (c_clA cn) (c_clB cn) true) (sy_conns y)), [ERet R_OK 0 []])
  end.
Proof. reflexivity. Qed.
Lemma step_core_notice y s c ch : step_core y (LNotice s c) ch =
  match nthN (N.to_nat c) (sy_conns y) with
  | None => (y, [ERet R_ERR 0 []])
  | Some cn =>
      if c_failed cn && negb (conn_closed_end cn s) then
        let '(y1, evs) := deplex_error y s c in (y1, evs ++ [ERet R_OK 0 []])
      else (y, [ERet R_ERR 1 []])
  end.
Proof. reflexivity. Qed.
Global Opaque step_core.
