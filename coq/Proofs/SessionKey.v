(* Agreement on the session key for EVERY connection of a session, not only the first (C06). *)
From Coq Require Import NArith ZArith List Bool Arith Lia.
From Cloak Require Import Gen.Consts Model.HelloGrammar Model.Auth Proofs.Auth.
From Cloak Require Import Model.SessionKey.
Import ListNotations.
Local Open Scope N_scope.

Lemma join_key_is_table_key : forall t sid fresh,
  tbl_get sid (snd (join_session t sid fresh)) = Some (fst (join_session t sid fresh)).
Proof.
  intros t sid fresh. unfold join_session. destruct (tbl_get sid t) eqn:E; cbn [fst snd]; [exact E|].
  cbn [tbl_get]. rewrite N.eqb_refl. reflexivity.
Qed.

Lemma join_keeps_others : forall t sid fresh sid', tbl_get sid' t <> None ->
  tbl_get sid' (snd (join_session t sid fresh)) = tbl_get sid' t.
Proof.
  intros t sid fresh sid' H. unfold join_session. destruct (tbl_get sid t) eqn:E; cbn [snd]; [reflexivity|].
  cbn [tbl_get]. destruct (sid =? sid') eqn:Es; [|reflexivity]. apply N.eqb_eq in Es. subst. congruence.
Qed.

(* once a session id is in the table, every later connection presenting it gets exactly that key and the entry stays *)
Lemma serve_keys_existing : forall conns t sid k, tbl_get sid t = Some k ->
  forall j fresh, nth_error conns j = Some (sid, fresh) -> nth_error (serve_keys t conns) j = Some k.
Proof.
  induction conns as [|[s f] rest IH]; intros t sid k Ht j fresh Hj; [destruct j; discriminate|].
  cbn [serve_keys]. destruct (join_session t s f) as [k0 t'] eqn:Ej.
  assert (tbl_get sid t' = Some k) as Ht'.
  { replace t' with (snd (join_session t s f)) by (rewrite Ej; reflexivity).
    rewrite join_keeps_others by congruence. exact Ht. }
  destruct j as [|j]; cbn [nth_error] in *.
  - inversion Hj; subst s f. unfold join_session in Ej. rewrite Ht in Ej. inversion Ej. reflexivity.
  - eapply IH; eauto.
Qed.

(* THE session-key theorem: two connections presenting the same session id carry the same key, whatever fresh keys
   they drew and whatever happened in between - the key the session holds *)
Theorem same_session_same_key : forall conns t i j sid f1 f2, (i <= j)%nat ->
  nth_error conns i = Some (sid, f1) -> nth_error conns j = Some (sid, f2) ->
  nth_error (serve_keys t conns) i = nth_error (serve_keys t conns) j /\
  exists k, nth_error (serve_keys t conns) j = Some k /\ tbl_get sid (table_after t conns) = Some k.
Proof.
  induction conns as [|[s f] rest IH]; intros t i j sid f1 f2 Hij Hi Hj; [destruct i; discriminate|].
  cbn [serve_keys table_after]. destruct (join_session t s f) as [k0 t'] eqn:Ej. cbn [snd].
  assert (forall m fr, nth_error rest m = Some (sid, fr) -> tbl_get sid t' <> None ->
            exists k, tbl_get sid t' = Some k /\ nth_error (serve_keys t' rest) m = Some k /\
                      tbl_get sid (table_after t' rest) = Some k) as Later.
  { intros m fr Hm Hne. destruct (tbl_get sid t') as [k|] eqn:Et; [|congruence]. exists k. split; [reflexivity|]. split.
    - eapply serve_keys_existing; eauto.
    - clear - Et. revert t' Et. induction rest as [|[s' f'] r IHr]; intros t' Et; cbn [table_after]; [exact Et|].
      apply IHr. rewrite join_keeps_others by congruence. exact Et. }
  destruct i as [|i]; destruct j as [|j]; cbn [nth_error] in *; try lia.
  - (* both are this connection *)
    inversion Hi; subst s f. split; [reflexivity|]. exists k0. split; [reflexivity|].
    assert (tbl_get sid t' = Some k0) as Et.
    { pose proof (join_key_is_table_key t sid f1) as J. rewrite Ej in J. exact J. }
    clear - Et. revert t' Et. induction rest as [|[s' f'] r IHr]; intros t' Et; cbn [table_after]; [exact Et|].
    apply IHr. rewrite join_keeps_others by congruence. exact Et.
  - (* the first is this connection, the second a later one *)
    inversion Hi; subst s f.
    assert (tbl_get sid t' = Some k0) as Et.
    { pose proof (join_key_is_table_key t sid f1) as J. rewrite Ej in J. exact J. }
    destruct (Later j f2 Hj ltac:(congruence)) as (k & E1 & E2 & E3). rewrite Et in E1. inversion E1; subst k.
    split; [symmetry; exact E2 | exists k0; split; assumption].
  - (* both later *)
    apply (IH t' i j sid f1 f2); [lia | exact Hi | exact Hj].
Qed.

(* a NEW session id gets the fresh key its first connection drew *)
Theorem new_session_fresh_key : forall t sid fresh rest, tbl_get sid t = None ->
  nth_error (serve_keys t ((sid, fresh) :: rest)) 0 = Some fresh.
Proof. intros t sid fresh rest H. cbn [serve_keys]. unfold join_session. rewrite H. reflexivity. Qed.

Lemma serve_keys_length32 : forall conns t, (forall s k, tbl_get s t = Some k -> length k = 32%nat) ->
  Forall (fun c => length (snd c) = 32%nat) conns -> Forall (fun k => length k = 32%nat) (serve_keys t conns).
Proof.
  induction conns as [|[s f] rest IH]; intros t Ht Hc; cbn [serve_keys]; [constructor|].
  inversion Hc as [|? ? Hf Hr]; subst. cbn [snd] in Hf.
  unfold join_session. destruct (tbl_get s t) as [k|] eqn:E.
  - constructor; [eapply Ht; eauto | apply IH; auto].
  - constructor; [exact Hf|]. apply IH; [|exact Hr].
    intros s' k'. cbn [tbl_get]. destruct (s =? s'); [intros H; inversion H; subst; exact Hf | apply Ht].
Qed.

Section AgreementPerConnection.
  Variable dh : list N -> list N -> option (list N).
  Variable pub : list N -> list N.
  Variable seal : list N -> list N -> list N -> list N -> list N.
  Variable open : list N -> list N -> list N -> list N -> option (list N).
  Hypothesis dh_comm : forall a b, dh a (pub b) = dh b (pub a).
  Hypothesis pub_length : forall a, length (pub a) = 32%nat.
  Hypothesis open_seal : forall k n p a, open k n (seal k n p a) a = Some p.
  Hypothesis seal_length : forall k n p a, length (seal k n p a) = (length p + 16)%nat.

  (* everything one connection brings along *)
  Record conn := mkConn {
    c_sk : skeleton; c_info : info; c_cnow : Z; c_snow : Z; c_ephPv : list N;
    c_fresh : list N; c_nonce : list N; c_filler : list N; c_cert : list N }.
  Definition conn_ok (staticPv : list N) (c : conn) : Prop :=
    wf_skeleton (c_sk c) = true /\ info_in_domain (c_info c) /\ in_window (client_ts (c_cnow c)) (c_snow c) = true /\
    (exists secret, dh (c_ephPv c) (pub staticPv) = Some secret) /\
    length (c_fresh c) = 32%nat /\ length (c_nonce c) = 12%nat /\ (length (c_cert c) <= 1024)%nat.

  (* Agreement for EVERY connection of EVERY session of one user: the j-th connection's client ends up with the key of
     the session it joined - the key the server's session table holds for its session id after all of them - be it the
     first connection of that session or a later one *)
  Theorem agreement_every_connection_tls : forall staticPv (conns : list conn),
    Forall (conn_ok staticPv) conns ->
    let keys := serve_keys [] (map (fun c => (i_sid (c_info c), c_fresh c)) conns) in
    let table := table_after [] (map (fun c => (i_sid (c_info c), c_fresh c)) conns) in
    forall j c, nth_error conns j = Some c ->
    exists key hello shared sid,
      nth_error keys j = Some key /\ tbl_get (i_sid (c_info c)) table = Some key /\
      client_first_packet_tls dh pub seal (c_sk c) (c_info c) (client_ts (c_cnow c)) (c_ephPv c) (pub staticPv) = Some (hello, shared) /\
      server_process_tls dh open hello staticPv (c_snow c) = Accept (c_info c) shared sid /\
      client_finish_tls open shared (server_reply_tls seal shared sid key (c_nonce c) (c_filler c) (c_cert c)) = Some key.
  Proof.
    intros staticPv conns Hall keys table j c Hj.
    set (pairs := map (fun c => (i_sid (c_info c), c_fresh c)) conns) in *.
    assert (nth_error pairs j = Some (i_sid (c_info c), c_fresh c)) as Hp.
    { subst pairs. rewrite nth_error_map, Hj. reflexivity. }
    destruct (same_session_same_key pairs [] j j _ _ _ (le_n j) Hp Hp) as (_ & key & Hk & Ht).
    assert (length key = 32%nat) as Lk.
    { assert (Forall (fun k => length k = 32%nat) (serve_keys [] pairs)) as F.
      { apply serve_keys_length32; [intros s k H; discriminate|]. subst pairs. rewrite Forall_map.
        eapply Forall_impl; [|exact Hall]. intros a (_ & _ & _ & _ & L & _). exact L. }
      rewrite Forall_forall in F. apply F. eapply nth_error_In. exact Hk. }
    rewrite Forall_forall in Hall. destruct (Hall c (nth_error_In _ _ Hj)) as (Hsk & Hd & Hw & (secret & Hdh) & _ & Ln & Lc).
    destruct (agreement_tls dh pub seal open dh_comm pub_length open_seal seal_length
                (c_sk c) (c_info c) (c_cnow c) (c_snow c) (c_ephPv c) staticPv secret key (c_nonce c) (c_filler c) (c_cert c)
                Hsk Hd Hw Hdh Lk Ln Lc) as (hello & shared & sid & A & B & C).
    exists key, hello, shared, sid. repeat split; assumption.
  Qed.

  (* hence two connections of one session agree with each other *)
  Corollary connections_of_a_session_share_the_key : forall (conns : list conn) i j ci cj, (i <= j)%nat ->
    nth_error conns i = Some ci -> nth_error conns j = Some cj -> i_sid (c_info ci) = i_sid (c_info cj) ->
    let keys := serve_keys [] (map (fun c => (i_sid (c_info c), c_fresh c)) conns) in
    nth_error keys i = nth_error keys j.
  Proof.
    intros conns i j ci cj Hij Hi Hj Hs keys.
    apply (same_session_same_key _ [] i j (i_sid (c_info ci)) (c_fresh ci) (c_fresh cj) Hij).
    - rewrite nth_error_map, Hi. reflexivity.
    - rewrite nth_error_map, Hj, Hs. reflexivity.
  Qed.
End AgreementPerConnection.
