(* Generated obligations of the front door (server handshake and first-packet code: C06 C07 C09 C10).
   The models (Model/Hello.v, Model/FirstPacket.v, Model/Dispatch.v, Model/Auth.v) treat every connection's
   first packet, parsed hello and composed reply as values of that connection alone: a function of the
   bytes received and the server state.  That is only true of the code if no byte buffer is shared
   between the goroutines serving different connections - no buffer at package level, no pooled object
   touched after it has gone back to its pool, no goroutine sharing a buffer with its spawner.  These
   are statements about the terms tools/lockscan generates from /repo on every run. *)
From Coq Require Import String List Bool.
From Cloak Require Import Gen.Atomicity Proofs.AtomLib.
Import ListNotations.
Local Open Scope string_scope.

Lemma front_scan_complete : atomicity_errors = [].
Proof. vm_compute. reflexivity. Qed.

(* Reviewed exceptions: three function values of unknown static type (binary.BigEndian.Uint16/Uint32,
   base64's EncodeToString) and a read-only table of strings. *)
Lemma front_no_buffer_at_package_level :
  no_package_level_buffers ["server.b64"; "server.u16"; "server.u32"; "client.topLevelDomains"] = true.
Proof. vm_compute. reflexivity. Qed.

Lemma front_no_pooled_object_used_after_put : no_use_after_put_anywhere = true.
Proof. vm_compute. reflexivity. Qed.

Lemma front_goroutines_own_their_buffers : goroutines_own_their_buffers = true.
Proof. vm_compute. reflexivity. Qed.

(* not vacuous: the server does spawn one goroutine per connection *)
Lemma front_serve_spawns : spawns "server.Serve" = true.
Proof. vm_compute. reflexivity. Qed.

(* The server's State (redirect host and port, proxy book, bypass set, admin UID, panel, dialers, clock) is
   configuration: written by InitState, read by the goroutines of all connections.  Model/Dispatch.v and
   Model/FirstPacket.v take it as a constant `st` that one connection cannot change for the next - so no
   function of package server other than InitState may write a field of State (the replay cache
   State.UsedRandom is the one mutable field; who writes it is AtomReplay's business). *)
Definition writes_state_field (e : ev) : bool :=
  (seqb (fst e) "w" || seqb (fst e) "set" || seqb (fst e) "del" || seqb (fst e) "addr")
  && prefix "State." (snd e) && negb (seqb (snd e) "State.UsedRandom").
Definition state_written_only_by (allowed : list string) : bool :=
  forallb (fun fe : string * list ev =>
             negb (prefix "server." (fst fe)) || mem_s (fst fe) allowed || negb (existsb writes_state_field (snd fe))) fn_events.
Lemma server_configuration_is_written_by_InitState_only : state_written_only_by ["server.InitState"] = true.
Proof. vm_compute. reflexivity. Qed.
(* not vacuous: InitState does write it *)
Lemma InitState_writes_the_configuration : existsb writes_state_field (events_of "server.InitState") = true.
Proof. vm_compute. reflexivity. Qed.
