(* Generated obligations of the front door (server handshake and first-packet code: C06 C07 C09 C10).
   The models (Model/Hello.v, Model/FirstPacket.v, Model/Dispatch.v, Model/Auth.v) treat every connection's
   first packet, parsed hello and composed reply as values of that connection alone: a function of the
   bytes received and the server state.  That is only true of the code if no byte buffer is shared
   between the goroutines serving different connections - no buffer at package level, no pooled object
   touched after it has gone back to its pool, no goroutine sharing a buffer with its spawner.  These
   are statements about the terms tools/lockscan generates from /repo on every run. *)
From Coq Require Import String List Bool.
From Cloak Require Import Gen.Atomicity Proofs.AtomLib.
Import ListNotations.
Local Open Scope string_scope.

Lemma front_scan_complete : atomicity_errors = [].
Proof. vm_compute. reflexivity. Qed.

(* Reviewed exceptions: three function values of unknown static type (binary.BigEndian.Uint16/Uint32,
   base64's EncodeToString) and a read-only table of strings. *)
Lemma front_no_buffer_at_package_level :
  no_package_level_buffers ["server.b64"; "server.u16"; "server.u32"; "client.topLevelDomains"] = true.
Proof. vm_compute. reflexivity. Qed.

Lemma front_no_pooled_object_used_after_put : no_use_after_put_anywhere = true.
Proof. vm_compute. reflexivity. Qed.

Lemma front_goroutines_own_their_buffers : goroutines_own_their_buffers = true.
Proof. vm_compute. reflexivity. Qed.

(* not vacuous: the server does spawn one goroutine per connection *)
Lemma front_serve_spawns : spawns "server.Serve" = true.
Proof. vm_compute. reflexivity. Qed.
