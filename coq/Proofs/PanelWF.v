(* Structural invariants of the panel model that hold for every parameter setting (pre-fix or
   fixed lock order, with or without the proposed repair), in every reachable state of every
   interleaving.  C15, C16 and C17's ownership part are built on them. *)
From Coq Require Import ZArith NArith List Bool Lia Arith.
From Cloak Require Import Model.Panel Proofs.PanelLocks.
Import ListNotations.

Ltac simr := cbn [r_uid r_bypass r_sess r_valve r_term s_owner s_sid s_closed
                  a_uid a_sid a_rec a_ses a_existing fst snd] in *.

Lemma updN_same : forall A (f : N -> A) i x, updN f i x i = x.
Proof. intros; unfold updN; now rewrite N.eqb_refl. Qed.
Lemma updN_other : forall A (f : N -> A) i x j, j <> i -> updN f i x j = f j.
Proof. intros; unfold updN; destruct (N.eqb_spec j i); congruence. Qed.

Lemma upd_eq : forall A (f : nat -> A) i x j, j = i -> upd f i x j = x.
Proof. intros; subst; apply upd_same. Qed.
Lemma updN_eq : forall A (f : N -> A) i x j, j = i -> updN f i x j = x.
Proof. intros; subst; apply updN_same. Qed.

Ltac upd_cases :=
  repeat match goal with
  | |- context [upd ?f ?a ?x ?b] =>
      let e := fresh "e" in
      destruct (Nat.eq_dec b a) as [e|e];
      [ progress (rewrite ?(upd_eq _ f a x b e) in * ) | progress (rewrite ?(upd_other _ f a x b e) in * ) ]
  | H : context [upd ?f ?a ?x ?b] |- _ =>
      let e := fresh "e" in
      destruct (Nat.eq_dec b a) as [e|e];
      [ progress (rewrite ?(upd_eq _ f a x b e) in * ) | progress (rewrite ?(upd_other _ f a x b e) in * ) ]
  | |- context [updN ?f ?a ?x ?b] =>
      let e := fresh "e" in
      destruct (N.eq_dec b a) as [e|e];
      [ progress (rewrite ?(updN_eq _ f a x b e) in * ) | progress (rewrite ?(updN_other _ f a x b e) in * ) ]
  | H : context [updN ?f ?a ?x ?b] |- _ =>
      let e := fresh "e" in
      destruct (N.eq_dec b a) as [e|e];
      [ progress (rewrite ?(updN_eq _ f a x b e) in * ) | progress (rewrite ?(updN_other _ f a x b e) in * ) ]
  end.

(* ------------------------------------------------------------------ lists *)
Lemma slook_in : forall sd l k, slook sd l = Some k -> In (sd, k) l.
Proof.
  induction l as [|[x k'] l IH]; cbn; intros k H; [discriminate|].
  destruct (N.eqb_spec sd x); [injection H as <-; subst; auto | auto].
Qed.
Lemma slook_none : forall sd l, slook sd l = None -> ~ In sd (map fst l).
Proof.
  induction l as [|[x k'] l IH]; cbn; intros H; [tauto|].
  destruct (N.eqb_spec sd x); [discriminate|]. intros [E|E]; [congruence | now apply IH].
Qed.
Lemma in_slook : forall sd k l, NoDup (map fst l) -> In (sd, k) l -> slook sd l = Some k.
Proof.
  induction l as [|[x k'] l IH]; cbn; intros ND H; [contradiction|].
  inversion ND as [|? ? Hn ND']; subst.
  destruct H as [H|H].
  - injection H as -> ->. now rewrite N.eqb_refl.
  - destruct (N.eqb_spec sd x); [subst; exfalso; apply Hn; now apply (in_map fst) in H | auto].
Qed.
Lemma sdel_in : forall sd e l, In e (sdel sd l) -> In e l /\ fst e <> sd.
Proof.
  unfold sdel; intros sd e l H. apply filter_In in H. destruct H as [H1 H2]. split; auto.
  destruct (N.eqb_spec sd (fst e)); [discriminate | congruence].
Qed.
Lemma slook_sdel_other : forall sd sd' l, sd' <> sd -> slook sd' (sdel sd l) = slook sd' l.
Proof.
  induction l as [|[x k] l IH]; cbn; intros Hne; auto.
  destruct (N.eqb_spec sd x); cbn.
  - subst. destruct (N.eqb_spec sd' x); [congruence | auto].
  - destruct (N.eqb_spec sd' x); auto.
Qed.
Lemma sdel_keys_sub : forall sd l x, In x (map fst (sdel sd l)) -> In x (map fst l).
Proof.
  intros sd l x H. apply in_map_iff in H. destruct H as [e [<- H]]. apply sdel_in in H. apply in_map. tauto.
Qed.
Lemma sdel_nodup : forall sd l, NoDup (map fst l) -> NoDup (map fst (sdel sd l)).
Proof.
  induction l as [|[x k] l IH]; cbn; intros ND; auto. inversion ND; subst.
  destruct (N.eqb sd x); cbn; auto. constructor; auto. intro H. apply sdel_keys_sub in H. auto.
Qed.
Lemma sdel_length : forall sd l, length (sdel sd l) <= length l.
Proof. intros; unfold sdel. induction l; cbn; auto. destruct (negb _); cbn; lia. Qed.

(* ------------------------------------------------------------------ close_all, nullify_all *)
Lemma close_all_owner : forall l f k,
  s_owner (close_all l f k) = s_owner (f k) /\ s_sid (close_all l f k) = s_sid (f k).
Proof.
  induction l as [|[x k'] l IH]; cbn; intros f k; auto.
  destruct (IH (upd f k' (mkSes (s_owner (f k')) (s_sid (f k')) true)) k) as [-> ->].
  unfold upd. destruct (Nat.eqb_spec k k'); subst; auto.
Qed.
Lemma close_all_mono : forall l f k, s_closed (f k) = true -> s_closed (close_all l f k) = true.
Proof.
  induction l as [|[x k'] l IH]; cbn; intros f k H; auto.
  apply IH. unfold upd. destruct (Nat.eqb_spec k k'); subst; auto.
Qed.
Lemma close_all_in : forall l f sd k, In (sd, k) l -> s_closed (close_all l f k) = true.
Proof.
  induction l as [|[x k'] l IH]; cbn; intros f sd k H; [contradiction|].
  destruct H as [H|H]; [injection H as -> ->; apply close_all_mono; now rewrite upd_same | eauto].
Qed.
Lemma close_all_open : forall l f k, s_closed (close_all l f k) = false -> s_closed (f k) = false.
Proof.
  intros l f k H. destruct (s_closed (f k)) eqn:E; auto. apply (close_all_mono l) in E. congruence.
Qed.

Lemma nullify_all_fields : forall n tb rs q i,
  let rs' := fst (nullify_all n tb rs q) in
  r_uid (rs' i) = r_uid (rs i) /\ r_bypass (rs' i) = r_bypass (rs i)
  /\ r_sess (rs' i) = r_sess (rs i) /\ r_term (rs' i) = r_term (rs i).
Proof.
  induction n as [|n IH]; cbn; intros tb rs q i; auto.
  specialize (IH tb rs q). destruct (nullify_all n tb rs q) as [rs1 q1]. cbn in IH.
  destruct (tb (r_uid (rs1 n))); [|apply IH].
  destruct (_ && _); cbn; [|apply IH].
  unfold upd. destruct (Nat.eqb_spec i n); [subst; cbn; apply IH | apply IH].
Qed.

(* ------------------------------------------------------------------ the invariant *)
Definition pc_rid (p : pc) : option nat :=
  match p with
  | D2 _ _ r | D3 _ _ r | C0 r _ | C1 r _ | TN0 r _ _ | TN1 r _ _ _ | TN2 r _ _ _
  | TC0 r _ _ | TC1 r _ _ | TD0 r _ _ | TD1 r _ _ | M3 _ r _ _ | M4 _ r _ _ => Some r
  | _ => None
  end.
Definition pc_du (p : pc) : option (N * nat) :=
  match p with D2 u _ r | D3 u _ r => Some (u, r) | _ => None end.

Record WF (c : cfg) (s : state) : Prop := {
  w_table : forall u r, table s u = Some r -> r < nrec s /\ r_uid (recs s r) = u;
  w_pc : forall t r, pc_rid (thr s t) = Some r -> r < nrec s;
  w_pcu : forall t u r, pc_du (thr s t) = Some (u, r) -> r_uid (recs s r) = u;
  w_ses : forall k, k < nses s -> s_owner (sess s k) < nrec s;
  w_map : forall r sd k, r < nrec s -> In (sd, k) (r_sess (recs s r)) ->
            k < nses s /\ s_owner (sess s k) = r /\ s_sid (sess s k) = sd;
  w_nodup : forall r, r < nrec s -> NoDup (map fst (r_sess (recs s r)));
  w_live : forall k, k < nses s -> s_closed (sess s k) = false ->
            slook (s_sid (sess s k)) (r_sess (recs s (s_owner (sess s k)))) = Some k;
  w_bypass : forall r, r < nrec s -> r_bypass (recs s r) = is_bypass c (r_uid (recs s r));
  w_log : forall a, In a (g_log s) ->
            a_rec a < nrec s /\ a_ses a < nses s /\ s_owner (sess s (a_ses a)) = a_rec a
            /\ s_sid (sess s (a_ses a)) = a_sid a /\ r_uid (recs s (a_rec a)) = a_uid a
}.

Lemma WF_init : forall c d nw, WF c (init d nw).
Proof. intros; constructor; cbn; intros; try discriminate; try lia; try contradiction. Qed.

Lemma seq_pc_rid : forall rest r k r', pc_rid (seq_pc rest r k) = Some r' -> r' = r.
Proof. intros rest r k r'. destruct rest as [|[] ?]; cbn; try congruence. destruct k; cbn; discriminate. Qed.
Lemma seq_pc_du : forall rest r k, pc_du (seq_pc rest r k) = None.
Proof. intros rest r k. destruct rest as [|[] ?]; cbn; auto. destruct k; auto. Qed.
Lemma m9_rid : forall k, pc_rid (m9 k) = None.
Proof. destruct k; auto. Qed.
Lemma m9_du : forall k, pc_du (m9 k) = None.
Proof. destruct k; auto. Qed.

(* case split of one thread step (lock conditions are irrelevant here) *)
Ltac tstep_cases H c s t :=
  unfold tstep in H;
  destruct (thr s t) eqn:Hpc; try discriminate;
  repeat match type of H with
  | context [match ?l with [] => _ | _ :: _ => _ end] => destruct l eqn:?
  | context [if rw_can_w ?l then _ else _] => destruct (rw_can_w l); [|discriminate]
  | context [if rw_can_r ?l then _ else _] => destruct (rw_can_r l); [|discriminate]
  | context [match lkQ s with _ => _ end] => destruct (lkQ s); [discriminate|]
  | context [if prefix_order c then _ else _] => destruct (prefix_order c) eqn:?
  | context [match table s ?u with _ => _ end] => destruct (table s u) eqn:?
  | context [if ?b then _ else _] => destruct b eqn:?
  | context [match authenticate ?a ?b ?d with _ => _ end] => destruct (authenticate a b d) eqn:?
  | context [match slook ?a ?b with _ => _ end] => destruct (slook a b) eqn:?
  | context [match authorise ?a ?b ?d ?e with _ => _ end] => destruct (authorise a b d e) eqn:?
  | context [let '(_, _) := ?x in _] => destruct x eqn:?
  end;
  try discriminate;
  try (injection H as H; subst).

Ltac learn H := let P := type of H in lazymatch goal with | _ : P |- _ => fail | _ => pose proof H end.

(* facts about the stepping thread's own program counter and about table look-ups *)
Ltac own_facts :=
  match goal with
  | Hpc : thr ?s ?t = _, wp : (forall t r, pc_rid (thr ?s t) = Some r -> _),
    wu : (forall t u r, pc_du (thr ?s t) = Some (u, r) -> _) |- _ =>
      let Wp := fresh "Wp" in let Wu := fresh "Wu" in
      pose proof (wp t) as Wp; rewrite Hpc in Wp; cbn [pc_rid] in Wp;
      first [specialize (Wp _ eq_refl) | clear Wp];
      pose proof (wu t) as Wu; rewrite Hpc in Wu; cbn [pc_du] in Wu;
      first [specialize (Wu _ _ eq_refl) | clear Wu]
  end;
  repeat match goal with
  | H : table ?s ?u = Some ?r, wt : (forall u r, table ?s u = Some r -> _) |- _ =>
      first [learn (proj1 (wt _ _ H)) | learn (proj2 (wt _ _ H))]
  end.

Lemma nullify_uid : forall n tb rs q i, r_uid (fst (nullify_all n tb rs q) i) = r_uid (rs i).
Proof. intros; apply nullify_all_fields. Qed.
Lemma nullify_bypass : forall n tb rs q i, r_bypass (fst (nullify_all n tb rs q) i) = r_bypass (rs i).
Proof. intros; apply nullify_all_fields. Qed.
Lemma nullify_sess : forall n tb rs q i, r_sess (fst (nullify_all n tb rs q) i) = r_sess (rs i).
Proof. intros; apply nullify_all_fields. Qed.
Lemma nullify_term : forall n tb rs q i, r_term (fst (nullify_all n tb rs q) i) = r_term (rs i).
Proof. intros; apply nullify_all_fields. Qed.

Ltac nullify_norm :=
  match goal with
  | H : nullify_all ?n ?tb ?rs ?q = (?a, ?l) |- _ =>
      replace a with (fst (nullify_all n tb rs q)) in * by (rewrite H; reflexivity);
      repeat (rewrite ?nullify_uid, ?nullify_bypass, ?nullify_sess, ?nullify_term in * )
  end.

Lemma pc_du_rid : forall p u r, pc_du p = Some (u, r) -> pc_rid p = Some r.
Proof. destruct p; cbn; intros; try discriminate; congruence. Qed.

Ltac pc_goal :=
  intros; try nullify_norm;
  repeat match goal with
  | H : context [upd (thr _) ?t _ ?t0] |- _ =>
      destruct (Nat.eq_dec t0 t); [subst t0; rewrite upd_same in H | rewrite upd_other in H by assumption]
  end;
  repeat match goal with
  | H : pc_rid (seq_pc _ _ _) = Some _ |- _ => apply seq_pc_rid in H; subst
  | H : pc_rid (term_enter _ _ _) = Some _ |- _ => apply seq_pc_rid in H; subst
  | H : pc_rid (m9 _) = Some _ |- _ => rewrite m9_rid in H; discriminate H
  | H : pc_du (seq_pc _ _ _) = Some _ |- _ => rewrite seq_pc_du in H; discriminate H
  | H : pc_du (term_enter _ _ _) = Some _ |- _ => unfold term_enter in H; rewrite seq_pc_du in H; discriminate H
  | H : pc_du (m9 _) = Some _ |- _ => rewrite m9_du in H; discriminate H
  end;
  cbn [pc_rid pc_du] in *; try discriminate;
  repeat match goal with
  | H : Some _ = Some _ |- _ => injection H; clear H; intros; subst
  end;
  repeat match goal with
  | H : pc_du (thr _ _) = Some _, wp : (forall t r, pc_rid (thr _ t) = Some r -> _) |- _ =>
      learn (wp _ _ (pc_du_rid _ _ _ H))
  end;
  repeat match goal with
  | H : pc_rid (thr _ _) = Some _, wp : (forall t r, pc_rid (thr _ t) = Some r -> _) |- _ => apply wp in H
  | H : pc_du (thr _ _) = Some _, wu : (forall t u r, pc_du (thr _ t) = Some (u, r) -> _) |- _ => apply wu in H
  end;
  upd_cases; simr; try lia; try congruence; try assumption.

Ltac close_norm :=
  repeat match goal with
  | |- context [s_owner (close_all ?l ?f ?k)] => rewrite (proj1 (close_all_owner l f k)) in *
  | |- context [s_sid (close_all ?l ?f ?k)] => rewrite (proj2 (close_all_owner l f k)) in *
  | H : context [s_owner (close_all ?l ?f ?k)] |- _ => rewrite (proj1 (close_all_owner l f k)) in *
  | H : context [s_sid (close_all ?l ?f ?k)] |- _ => rewrite (proj2 (close_all_owner l f k)) in *
  end.

Ltac sat_wf :=
  repeat match goal with
  | H : table ?s ?u = Some ?r, wt : (forall u r, table ?s u = Some r -> _) |- _ =>
      first [learn (proj1 (wt _ _ H)) | learn (proj2 (wt _ _ H))]
  | H : In ?a (g_log ?s), wg : (forall a, In a (g_log ?s) -> _) |- _ =>
      learn (wg _ H)
  | H : ?k < nses ?s, ws : (forall k, k < nses ?s -> s_owner _ < _) |- _ => learn (ws _ H)
  | H : In (?sd, ?k) (r_sess (recs ?s ?r)), L : ?r < nrec ?s,
    wm : (forall r sd k, r < nrec ?s -> In (sd, k) (r_sess (recs ?s r)) -> _) |- _ => learn (wm _ _ _ L H)
  end;
  repeat match goal with H : _ /\ _ |- _ => destruct H end.

Ltac data_goal :=
  intros; try nullify_norm; close_norm; upd_cases; simr; cbn [In map] in *; try contradiction;
  sat_wf; subst;
  repeat split; simr; try lia; try congruence; eauto 3; try (constructor; fail).

Ltac d1_goal :=
  intros; upd_cases; simr; cbn [In map] in *; try contradiction; try (constructor; fail);
  try match goal with H : ?r < S (nrec ?s), e : ?r <> nrec ?s |- _ => assert (r < nrec s) by lia end;
  eauto; try congruence.

(* the new log entry of an admission to an existing session *)
Ltac log_existing :=
  intros a Ha; destruct Ha as [Ha|Ha]; [subst a|eauto]; simr;
  match goal with
  | H : slook ?sd (r_sess (recs ?s ?r)) = Some ?n, L : ?r < nrec ?s,
    wm : (forall r sd k, r < nrec ?s -> In (sd, k) (r_sess (recs ?s r)) -> _) |- _ =>
      destruct (wm _ _ _ L (slook_in _ _ _ H)) as (?&?&?)
  end; auto.

Ltac d3_create :=
  intros;
  repeat match goal with
  | H : In ?a (_ :: g_log _) |- _ => destruct H as [H|H]; [subst a|]
  end;
  upd_cases; simr; cbn [In map slook] in *; rewrite ?N.eqb_refl;
  repeat match goal with
  | H : (_, _) = (_, _) \/ _ |- _ => destruct H as [H|H]; [injection H; clear H; intros; subst|]
  end;
  sat_wf; subst; try lia; try congruence; auto;
  try match goal with
  | H : slook ?sd ?l = None |- NoDup (?sd :: map fst ?l) => constructor; [now apply slook_none | eauto]
  end;
  repeat split; simr; try lia; try congruence; eauto 3.

Ltac d3_ses :=
  intros k Hk; upd_cases; simr; [assumption | match goal with ws : (forall k, _ -> s_owner _ < _) |- _ => apply ws; lia end].

Ltac d3_live :=
  intros k Hk Hc;
  match goal with
  | wl : (forall k, k < nses ?s -> s_closed (sess ?s k) = false -> _),
    Hn : slook ?sd (r_sess (recs ?s ?r)) = None |- _ =>
      destruct (Nat.eq_dec k (nses s)) as [->|ne];
      [ repeat (rewrite ?upd_same in *; simr); cbn [slook]; now rewrite N.eqb_refl
      | rewrite !upd_other in * by assumption;
        assert (Hk' : k < nses s) by lia; pose proof (wl _ Hk' Hc) as W;
        destruct (Nat.eq_dec (s_owner (sess s k)) r) as [e|ne2];
        [ rewrite e in *; rewrite ?upd_same; simr; cbn [slook];
          destruct (N.eqb_spec (s_sid (sess s k)) sd) as [e2|]; [rewrite e2 in W; congruence | exact W]
        | rewrite ?upd_other by assumption; exact W ] ]
  end.

Ltac c1_live :=
  intros k Hk Hc;
  match goal with
  | wl : (forall k, k < nses ?s -> s_closed (sess ?s k) = false -> _),
    Hf : slook ?sd (r_sess (recs ?s ?r)) = Some ?n,
    Hl : sdel ?sd (r_sess (recs ?s ?r)) = _ |- _ =>
      destruct (Nat.eq_dec k n) as [->|ne]; [rewrite upd_same in Hc; discriminate Hc|];
      rewrite !upd_other in * by assumption; pose proof (wl _ Hk Hc) as W;
      destruct (Nat.eq_dec (s_owner (sess s k)) r) as [e|ne2];
      [ rewrite e in *; rewrite upd_same; simr;
        assert (X : slook (s_sid (sess s k)) (sdel sd (r_sess (recs s r))) = Some k)
          by (rewrite slook_sdel_other; [exact W | let E2 := fresh "E2" in intro E2; rewrite E2 in W; congruence]);
        rewrite Hl in X; exact X
      | rewrite upd_other by assumption; exact W ]
  end.

Ltac c1_map :=
  intros r0 sd0 k L Hin;
  match goal with
  | wm : (forall r sd k, r < nrec ?s -> In (sd, k) (r_sess (recs ?s r)) -> _),
    Hf : slook ?sd (r_sess (recs ?s ?r)) = Some ?n,
    Hl : sdel ?sd (r_sess (recs ?s ?r)) = _ |- _ =>
      assert (Hold : In (sd0, k) (r_sess (recs s r0)));
      [ destruct (Nat.eq_dec r0 r) as [->|ne];
        [ rewrite upd_same in Hin; simr; rewrite <- Hl in Hin; apply sdel_in in Hin; tauto
        | rewrite upd_other in Hin by assumption; exact Hin ]
      | destruct (wm _ _ _ L Hold) as (?&?&?);
        destruct (Nat.eq_dec k n) as [->|nek];
        [ rewrite !upd_same; simr; auto | rewrite !upd_other by assumption; auto ] ]
  end.

Ltac c1_nodup :=
  intros r0 L;
  match goal with
  | wn : (forall r, r < nrec ?s -> NoDup _), Hl : sdel ?sd (r_sess (recs ?s ?r)) = _ |- _ =>
      destruct (Nat.eq_dec r0 r) as [->|ne];
      [ rewrite upd_same; simr; rewrite <- Hl; apply sdel_nodup; auto
      | rewrite upd_other by assumption; auto ]
  end.

Ltac tc1_live :=
  intros k0 Hk Hc; close_norm;
  match goal with
  | wl : (forall k, k < nses ?s -> s_closed (sess ?s k) = false -> _) |- context [upd (recs ?s) ?r _ _] =>
      pose proof (wl _ Hk (close_all_open _ _ _ Hc)) as W;
      destruct (Nat.eq_dec (s_owner (sess s k0)) r) as [e|ne];
      [ exfalso; rewrite e in W; apply slook_in in W;
        apply (close_all_in _ (sess s)) in W; congruence
      | rewrite upd_other by assumption; exact W ]
  end.

Lemma tstep_WF : forall c s t ch s', WF c s -> tstep c s t ch = Some s' -> WF c s'.
Proof.
  intros c s t ch s' HW H.
  destruct HW as [wt wp wu ws wm wn wl wb wg].
  tstep_cases H c s t.
  all: own_facts.
  all: constructor; sim; try assumption.
  all: try solve [pc_goal].
  all: try solve [data_goal].
  all: try solve [d1_goal].
  all: try solve [log_existing].
  all: try solve [d3_create].
  all: try solve [d3_ses].
  all: try solve [d3_live].
  all: try solve [c1_live].
  all: try solve [c1_map].
  all: try solve [c1_nodup].
  all: try solve [tc1_live].
  all: d3_live.
Qed.

Lemma step_WF : forall c s l s', WF c s -> step c s l = Some s' -> WF c s'.
Proof.
  intros c s l s' HW H. destruct l; cbn [step] in H.
  - (* Spawn *)
    destruct (start_pc s o) eqn:E; [|discriminate]. injection H as <-.
    destruct HW as [wt wp wu ws wm wn wl wb wg]. constructor; sim; auto.
    + intros t r Hr. destruct (Nat.eq_dec t (nthr s)) as [->|ne];
        [rewrite upd_same in Hr | rewrite upd_other in Hr by assumption; eauto].
      destruct o; cbn [start_pc] in E;
        try (injection E as <-; discriminate Hr).
      destruct (Nat.ltb_spec r0 (nrec s)) as [L|L]; [|discriminate E].
      injection E as <-. cbn in Hr. congruence.
    + intros t u r Hr. destruct (Nat.eq_dec t (nthr s)) as [->|ne];
        [rewrite upd_same in Hr | rewrite upd_other in Hr by assumption; eauto].
      destruct o; cbn [start_pc] in E;
        try (injection E as <-; discriminate Hr).
      destruct (Nat.ltb r0 (nrec s)); [|discriminate E]. injection E as <-. discriminate Hr.
  - destruct (Nat.ltb t (nthr s)); [|discriminate]. eapply tstep_WF; eauto.
  - (* Traffic *)
    destruct (_ && _); [|discriminate]. destruct (r_bypass _) eqn:Eb; injection H as <-; [assumption|].
    destruct HW as [wt wp wu ws wm wn wl wb wg]. constructor; sim; auto; try solve [data_goal].
    + intros r sd k0 L Hin. apply (wm r sd k0 L).
      destruct (Nat.eq_dec r (s_owner (sess s k))) as [e|ne];
        [rewrite e in *; rewrite upd_same in Hin; exact Hin | rewrite upd_other in Hin by assumption; exact Hin].
    + intros k0 Hk Hc. pose proof (wl _ Hk Hc) as W.
      destruct (Nat.eq_dec (s_owner (sess s k0)) (s_owner (sess s k))) as [e|ne];
        [rewrite e in *; rewrite upd_same; exact W | rewrite upd_other by assumption; exact W].
  - (* Break *)
    destruct (Nat.ltb k (nses s)); [|discriminate]. injection H as <-.
    destruct HW as [wt wp wu ws wm wn wl wb wg]. constructor; sim; auto; try solve [data_goal].
  - destruct a; injection H as <-; destruct HW; constructor; sim; auto.
  - destruct (0 <=? d)%Z; [|discriminate]. injection H as <-. destruct HW; constructor; sim; auto.
Qed.

Lemma reachable_WF : forall c d nw s, reachable c d nw s -> WF c s.
Proof.
  intros c d nw s [ls H]. eapply (run_inv (WF c)); eauto using step_WF, WF_init.
Qed.
