(* Proofs about Model/RelayPair.v: the two relay goroutines of one stream, over every schedule. *)
From Coq Require Import NArith List Bool Lia.
From Cloak Require Import Model.RelayPair.
Import ListNotations.

Lemma run_inv (early : bool) (Inv : rstate -> Prop) :
  (forall r t r', Inv r -> step early r t = Some r' -> Inv r') ->
  forall sched r, Inv r -> Inv (run early r sched).
Proof.
  intros Hstep. induction sched as [|t sched IH]; intros r Hr; cbn [run]; [exact Hr|].
  destruct (step early r t) as [r'|] eqn:E; [apply IH; exact (Hstep r t r' Hr E)|apply IH; exact Hr].
Qed.

Ltac inv E := first [discriminate E | injection E as <-].
Ltac step_cases H :=
  match type of H with step ?e ?r ?t = Some ?r' =>
    destruct r as [si se sc so li le lc lo pd pu]; destruct t;
    unfold step, stream_is_closed, set_down, set_up, close_stream, close_local in H;
    cbn [pc_down pc_up s_in s_end s_closed s_out l_in l_eof l_closed l_out] in H
  end.

(* ------------------------------------------------------------------------------------------------
   Safety in EVERY environment and for every schedule: the bytes written to the local connection are
   a prefix of what the stream delivered, and the frames sent up the stream are, in order, an initial
   segment of what the local connection's reads returned. *)
Definition SafeInv (chunks lin : list (list N)) (r : rstate) : Prop :=
  (exists tail, concat chunks = l_out r ++ tail) /\
  (pc_down r = Run -> concat chunks = l_out r ++ concat (s_in r)) /\
  (exists rest, lin = s_out r ++ rest) /\
  (pc_up r = Run -> lin = s_out r ++ l_in r).

Lemma safe_step chunks lin : forall r t r', SafeInv chunks lin r -> step false r t = Some r' -> SafeInv chunks lin r'.
Proof.
  intros r t r' (H1 & H2 & H3 & H4) E. step_cases E; unfold SafeInv;
    cbn [pc_down pc_up s_in s_end s_closed s_out l_in l_eof l_closed l_out] in *.
  - (* Down *)
    destruct pd.
    + specialize (H2 eq_refl). destruct si as [|c rest].
      * destruct (sc || se); inv E; cbn; repeat split; auto; discriminate.
      * destruct lc; inv E; cbn [pc_down pc_up s_in s_out l_in l_out].
        -- repeat split; auto; discriminate.
        -- cbn [concat] in H2. repeat split; auto.
           ++ exists (concat rest). rewrite H2, app_assoc. reflexivity.
           ++ intros _. rewrite H2, app_assoc. reflexivity.
    + inv E; cbn; repeat split; auto; discriminate.
    + inv E; cbn; repeat split; auto; discriminate.
    + discriminate.
  - (* Up *)
    destruct pu.
    + specialize (H4 eq_refl). cbn [andb] in E. destruct lc.
      * inv E; cbn; repeat split; auto; discriminate.
      * destruct li as [|c rest].
        -- destruct le; inv E; cbn; repeat split; auto; discriminate.
        -- destruct (sc || se); inv E; cbn [pc_down pc_up s_in s_out l_in l_out].
           ++ repeat split; auto; discriminate.
           ++ repeat split; auto.
              ** exists rest. rewrite H4, <- app_assoc. reflexivity.
              ** intros _. rewrite H4, <- app_assoc. reflexivity.
    + inv E; cbn; repeat split; auto; discriminate.
    + inv E; cbn; repeat split; auto; discriminate.
    + discriminate.
Qed.

Lemma relay_pair_safe : forall chunks send lin leof sched,
  let r := run false (init chunks send lin leof) sched in
  (exists tail, concat chunks = l_out r ++ tail) /\ (exists rest, lin = s_out r ++ rest).
Proof.
  intros chunks send lin leof sched r.
  assert (H : SafeInv chunks lin r).
  { apply run_inv; [apply safe_step|]. unfold SafeInv, init; cbn. repeat split; eauto. }
  destruct H as (H1 & _ & H3 & _). split; assumption.
Qed.

(* ------------------------------------------------------------------------------------------------
   The peer wrote B and closed; the local peer (the proxy server, or the proxy client) sends nothing
   and keeps its connection open.  Then, for every schedule: the local connection is closed by the
   relay only after ALL of B has been written to it; nothing is sent up the stream; and the pair never
   gets stuck before both goroutines have finished. *)
Definition QuietInv (chunks : list (list N)) (r : rstate) : Prop :=
  s_end r = true /\ l_in r = [] /\ l_eof r = false /\ s_out r = [] /\
  concat chunks = l_out r ++ concat (s_in r) /\
  (pc_down r = Run -> l_closed r = false /\ pc_up r = Run) /\
  (pc_down r <> Run -> s_in r = []) /\
  (l_closed r = true -> s_in r = []) /\
  (pc_down r = Done -> l_closed r = true) /\
  (pc_up r = CloseDst \/ pc_up r = Done -> l_closed r = true).

Ltac qs :=
  repeat match goal with
  | |- _ /\ _ => split
  | |- _ -> _ => intro
  | H : _ \/ _ |- _ => destruct H
  | H : _ /\ _ |- _ => destruct H
  end; try discriminate; try congruence; auto;
  try match goal with H : ?p = Run, Q : ?p = Run -> _ /\ _ |- _ => destruct (Q H); try discriminate; try congruence end.

Lemma quiet_step chunks : forall r t r', QuietInv chunks r -> step false r t = Some r' -> QuietInv chunks r'.
Proof.
  intros r t r' (Q1 & Q2 & Q3 & Q4 & Q5 & Q6 & Q7 & Q8 & Q9 & Q10) E. step_cases E; unfold QuietInv;
    cbn [pc_down pc_up s_in s_end s_closed s_out l_in l_eof l_closed l_out] in *; subst se li le so.
  - destruct pd.
    + destruct (Q6 eq_refl) as [Hlc Hpu]. subst lc pu. destruct si as [|c rest].
      * rewrite orb_true_r in E. inv E. cbn [pc_down pc_up s_in s_end s_closed s_out l_in l_eof l_closed l_out]. qs.
      * inv E. cbn [pc_down pc_up s_in s_end s_closed s_out l_in l_eof l_closed l_out].
        cbn [concat] in Q5. qs. rewrite Q5, app_assoc. reflexivity.
    + assert (si = []) by (apply Q7; discriminate). subst si.
      inv E. cbn [pc_down pc_up s_in s_end s_closed s_out l_in l_eof l_closed l_out]. qs.
    + assert (si = []) by (apply Q7; discriminate). subst si.
      inv E. cbn [pc_down pc_up s_in s_end s_closed s_out l_in l_eof l_closed l_out]. qs.
    + discriminate.
  - destruct pu.
    + cbn [andb] in E. destruct lc.
      * assert (si = []) by (apply Q8; reflexivity). subst si.
        inv E. cbn [pc_down pc_up s_in s_end s_closed s_out l_in l_eof l_closed l_out]. qs.
      * discriminate.
    + assert (Hsi : pd <> Run) by (intros Hd; destruct (Q6 Hd) as [_ ?]; discriminate).
      inv E. cbn [pc_down pc_up s_in s_end s_closed s_out l_in l_eof l_closed l_out]. qs.
    + assert (Hsi : pd <> Run) by (intros Hd; destruct (Q6 Hd) as [_ ?]; discriminate).
      inv E. cbn [pc_down pc_up s_in s_end s_closed s_out l_in l_eof l_closed l_out]. qs.
    + discriminate.
Qed.

Lemma quiet_init chunks : QuietInv chunks (init chunks true [] false).
Proof.
  unfold QuietInv, init; cbn. qs.
Qed.

Lemma relay_pair_delivers_all_before_closing : forall chunks sched,
  let r := run false (init chunks true [] false) sched in
  (l_closed r = true -> l_out r = concat chunks) /\
  (exists tail, concat chunks = l_out r ++ tail) /\
  s_out r = [] /\
  (finished r = true \/ exists t r', step false r t = Some r').
Proof.
  intros chunks sched r.
  assert (H : QuietInv chunks r) by (apply run_inv; [apply quiet_step|apply quiet_init]).
  destruct H as (Q1 & Q2 & Q3 & Q4 & Q5 & Q6 & Q7 & Q8 & Q9 & Q10).
  repeat split.
  - intros Hc. rewrite (Q8 Hc) in Q5. cbn in Q5. rewrite app_nil_r in Q5. symmetry. exact Q5.
  - eexists. exact Q5.
  - exact Q4.
  - destruct r as [si se sc so li le lc lo pd pu]. cbn [pc_down pc_up s_in s_end s_closed s_out l_in l_eof l_closed l_out] in *.
    subst se li le so. unfold finished, step, stream_is_closed; cbn [pc_down pc_up s_in s_end s_closed s_out l_in l_eof l_closed l_out].
    destruct pd.
    + right. exists Down. destruct si as [|c rest]; [rewrite orb_true_r; eauto|]. destruct lc; eauto.
    + right. exists Down. eauto.
    + right. exists Down. eauto.
    + rewrite (Q9 eq_refl). destruct pu; [right; exists Up; cbn; eauto|right; exists Up; eauto|right; exists Up; eauto|left; reflexivity].
Qed.

(* and both goroutines can always be run to their end: with the down goroutine scheduled until it is done and
   then the up goroutine, everything is closed *)
Fixpoint repeat_tid (t : tid) (n : nat) : list tid := match n with O => [] | S k => t :: repeat_tid t k end.

Lemma run_app e r a b : run e r (a ++ b) = run e (run e r a) b.
Proof. revert r; induction a as [|t a IH]; intros r; cbn [app run]; [reflexivity|]. destruct (step e r t); apply IH. Qed.

Lemma down_drains : forall si so lo pu,
  run false (mkR si true false so [] false false lo Run pu) (repeat_tid Down (length si)) =
  mkR [] true false so [] false false (lo ++ concat si) Run pu.
Proof.
  induction si as [|c rest IH]; intros so lo pu; cbn [length repeat_tid run concat].
  - rewrite app_nil_r. reflexivity.
  - unfold step at 1. cbn [pc_down s_in l_closed]. rewrite IH, app_assoc. reflexivity.
Qed.

Lemma relay_pair_can_finish : forall chunks,
  let r := run false (init chunks true [] false) (repeat_tid Down (length chunks + 3) ++ repeat_tid Up 3) in
  finished r = true /\ l_closed r = true /\ s_closed r = true /\ l_out r = concat chunks.
Proof.
  intros chunks r. subst r. unfold init.
  replace (length chunks + 3) with (length chunks + 3)%nat by reflexivity.
  assert (Hsplit : repeat_tid Down (length chunks + 3) = repeat_tid Down (length chunks) ++ repeat_tid Down 3).
  { induction (length chunks) as [|n IH]; cbn [Nat.add repeat_tid app]; [reflexivity|]. f_equal. exact IH. }
  rewrite Hsplit, <- app_assoc, run_app, down_drains. cbn. repeat split; reflexivity.
Qed.

(* ------------------------------------------------------------------------------------------------
   What a closed-stream test in front of ReadFrom's read would cost: with `early` the up goroutine
   leaves at once when the peer has already closed, and its deferred closes shut the local connection
   while the down goroutine still holds undelivered bytes. *)
Lemma relay_pair_early_check_refuted :
  exists chunks sched, let r := run true (init chunks true [] false) sched in
    finished r = true /\ l_closed r = true /\ l_out r <> concat chunks.
Proof.
  exists [[1%N; 2%N]], [Up; Up; Up; Down; Down; Down]. cbn. repeat split; discriminate.
Qed.

(* non-vacuity: a schedule that interleaves the two goroutines and still meets the statement *)
Example relay_pair_example :
  let r := run false (init [[1%N]; [2%N; 3%N]] true [] false) [Up; Down; Up; Down; Down; Up; Down; Down; Up; Up; Up] in
  finished r = true /\ l_out r = [1%N; 2%N; 3%N] /\ l_closed r = true /\ s_closed r = true.
Proof. cbn. repeat split; reflexivity. Qed.
