(* Generated obligations: the atomic steps of the replay-cache model (Model/Replay.v), checked
   against the critical sections tools/lockscan extracts from internal/server/state.go on every
   run.  [register] is ONE function from cache to (cache, used): the membership test and the
   insertion of registerRandom must be one exclusive critical section of usedRandomM, otherwise
   two simultaneous presentations of one first packet can both read "not used"
   (C08_concurrent is a theorem about the atomic step only). *)
From Coq Require Import String List Bool.
From Cloak Require Import Gen.Atomicity Proofs.AtomLib.
Import ListNotations.
Local Open Scope string_scope.

Lemma replay_scan_complete : atomicity_errors = [].
Proof. vm_compute. reflexivity. Qed.

Lemma registerRandom_test_and_set_one_step :
  one_step "server.State.registerRandom" "State.usedRandomM"
    [is_read "State.UsedRandom"; is_write "State.UsedRandom"] [] = true.
Proof. vm_compute. reflexivity. Qed.

(* the cleaner's sweep (test every entry, delete the old ones) is one critical section *)
Lemma cleaner_sweep_one_step :
  one_step "server.State.UsedRandomCleaner" "State.usedRandomM"
    [is_read "State.UsedRandom"; is_write "State.UsedRandom"] [] = true.
Proof. vm_compute. reflexivity. Qed.

(* The model's cache loses entries ONLY through the cleaner's rule (sighting older than twice
   the tolerance: C08_cache_sound needs every entry whose packet is still acceptable to be
   there).  In the source: whatever deletes from UsedRandom, assigns the map anew or takes its
   address is UsedRandomCleaner; the map is never handed on as a value (no alias through which
   a helper could evict); every delete of the package is on a struct field; and registerRandom
   only looks up and stores. *)
Lemma replay_entries_leave_only_through_the_cleaner :
  removed_only_in "server." "State.UsedRandom" ["server.State.UsedRandomCleaner"] = true
  /\ never_aliased "server." "State.UsedRandom" = true
  /\ deletes_are_on_fields "server." = true.
Proof. repeat split; vm_compute; reflexivity. Qed.
Lemma registerRandom_only_inserts : only_inserts "server.State.registerRandom" "State.UsedRandom" = true.
Proof. vm_compute. reflexivity. Qed.
