(* Generated obligations: the atomic steps of the replay-cache model (Model/Replay.v), checked
   against the critical sections tools/lockscan extracts from internal/server/state.go on every
   run.  [register] is ONE function from cache to (cache, used): the membership test and the
   insertion of registerRandom must be one exclusive critical section of usedRandomM, otherwise
   two simultaneous presentations of one first packet can both read "not used"
   (C08_concurrent is a theorem about the atomic step only). *)
From Coq Require Import String List Bool.
From Cloak Require Import Gen.Atomicity Proofs.AtomLib.
Import ListNotations.
Local Open Scope string_scope.

Lemma replay_scan_complete : atomicity_errors = [].
Proof. vm_compute. reflexivity. Qed.

Lemma registerRandom_test_and_set_one_step :
  one_step "server.State.registerRandom" "State.usedRandomM"
    [is_read "State.UsedRandom"; is_write "State.UsedRandom"] [] = true.
Proof. vm_compute. reflexivity. Qed.

(* the cleaner's sweep (test every entry, delete the old ones) is one critical section *)
Lemma cleaner_sweep_one_step :
  one_step "server.State.UsedRandomCleaner" "State.usedRandomM"
    [is_read "State.UsedRandom"; is_write "State.UsedRandom"] [] = true.
Proof. vm_compute. reflexivity. Qed.

(* The model's cache loses entries ONLY through the cleaner's rule (sighting older than twice
   the tolerance: C08_cache_sound needs every entry whose packet is still acceptable to be
   there).  In the source: whatever deletes from UsedRandom, assigns the map anew or takes its
   address is UsedRandomCleaner; the map is never handed on as a value (no alias through which
   a helper could evict); every delete of the package is on a struct field; and registerRandom
   only looks up and stores. *)
Lemma replay_entries_leave_only_through_the_cleaner :
  removed_only_in "server." "State.UsedRandom" ["server.State.UsedRandomCleaner"] = true
  /\ never_aliased "server." "State.UsedRandom" = true
  /\ deletes_are_on_fields "server." = true.
Proof. repeat split; vm_compute; reflexivity. Qed.
Lemma registerRandom_only_inserts : only_inserts "server.State.registerRandom" "State.UsedRandom" = true.
Proof. vm_compute. reflexivity. Qed.

(* ---- where the replay decision is taken.  Model/Replay.v and Model/Dispatch.v decide "seen before?" by the
   one atomic test-and-set (register) and do so BEFORE anything else is done with the packet: in
   AuthFirstPacket the call of registerRandom precedes decryptClientInfo, and nobody else looks into the
   cache (a separate read-only "is it there?" followed by a later insertion is a window for simultaneous
   presentations of one packet, however atomic each half is). *)
Fixpoint index_of_ev (p : ev -> bool) (l : list ev) : option nat :=
  match l with
  | [] => None
  | e :: t => if p e then Some O else match index_of_ev p t with Some n => Some (S n) | None => None end
  end.
Definition before_in (f : string) (a b : ev -> bool) : bool :=
  match index_of_ev a (events_of f), index_of_ev b (events_of f) with
  | Some i, Some j => Nat.ltb i j
  | _, _ => false
  end.
Definition accessed_only_in (pkg v : string) (allowed : list string) : bool :=
  forallb (fun fe : string * list ev =>
             negb (prefix pkg (fst fe)) || mem_s (fst fe) allowed || negb (existsb (fun e : ev => seqb (snd e) v) (snd fe))) fn_events.
Lemma replay_decided_by_the_test_and_set_before_decryption :
  before_in "server.AuthFirstPacket" (is_call "State.registerRandom") (is_call "decryptClientInfo") = true
  /\ accessed_only_in "server." "State.UsedRandom" ["server.State.registerRandom"; "server.State.UsedRandomCleaner"; "server.InitState"] = true.
Proof. split; vm_compute; reflexivity. Qed.
