(* Proofs about Model/Reorder.v : reassembly is independent of arrival order (C02). *)
From Coq Require Import NArith List Lia Bool Sorting.Permutation.
From Coq Require Import ZifyN ZifyBool.
From Cloak Require Import Model.Reorder.
Import ListNotations.
Local Open Scope N_scope.

Fixpoint range (b : N) (n : nat) : list N :=
  match n with O => [] | S n => b :: range (b + 1) n end.

Lemma range_app b n m : range b (n + m) = range b n ++ range (b + N.of_nat n) m.
Proof. revert b; induction n as [|n IH]; intros b; cbn [range Nat.add app].
  - f_equal; lia.
  - f_equal. rewrite IH. f_equal. f_equal. lia. Qed.
Lemma range_in b n x : In x (range b n) <-> b <= x < b + N.of_nat n.
Proof. revert b; induction n as [|n IH]; intros b; cbn [range In]; [lia|]. rewrite IH. lia. Qed.
Lemma range_nodup b n : NoDup (range b n).
Proof. revert b. induction n as [|n IH]; intros b; cbn; constructor.
  - rewrite range_in. lia.
  - apply IH. Qed.
Lemma range_length b n : length (range b n) = n.
Proof. revert b; induction n as [|n IH]; intros b; cbn; [reflexivity|]. now rewrite IH. Qed.

Lemma succ64_small x : x + 1 < two64 -> succ64 x = x + 1.
Proof. intros H. unfold succ64. apply N.mod_small. exact H. Qed.

Section Frames.
(* The frames of one stream: frame number i is [F i]; exactly the frame numbered [cl]
   is a closing frame (take [cl] outside the delivered set for a stream that is never
   closed).  Payloads are arbitrary. *)
Variable F : N -> frame.
Variable cl : N.
Hypothesis F_seq : forall i, seq (F i) = i.
Hypothesis F_closing : forall i, closing (F i) = (i =? cl).

Definition P (i : N) : list N := payload (F i).
Definition cat (b : N) (n : nat) : list N := flat_map P (range b n).

Lemma cat_snoc b n : cat b (S n) = cat b n ++ P (b + N.of_nat n).
Proof. unfold cat. replace (S n) with (n + 1)%nat by lia.
  rewrite range_app, flat_map_app. cbn. now rewrite app_nil_r. Qed.
Lemma cat_app b n m : cat b (n + m) = cat b n ++ cat (b + N.of_nat n) m.
Proof. unfold cat. now rewrite range_app, flat_map_app. Qed.

(* strictly increasing frames of this stream, all at or above a bound, none at 2^64-1 *)
Fixpoint sorted_above (lo : N) (h : list frame) : Prop :=
  match h with
  | [] => True
  | f :: t => lo <= seq f /\ seq f + 1 < two64 /\ f = F (seq f) /\ sorted_above (seq f + 1) t
  end.

Lemma sorted_above_weaken lo lo' h : lo' <= lo -> sorted_above lo h -> sorted_above lo' h.
Proof. destruct h; cbn; intuition lia. Qed.

Lemma sorted_above_in lo h x : sorted_above lo h -> In x h -> lo <= seq x.
Proof. revert lo; induction h as [|y h IH]; intros lo Hs Hin; [destruct Hin|].
  cbn in Hs. destruct Hs as (H1 & _ & _ & H2). destruct Hin as [<-|Hin]; [exact H1|].
  specialize (IH _ H2 Hin). lia. Qed.

Lemma insert_sorted lo f h : sorted_above lo h -> lo <= seq f -> seq f + 1 < two64 ->
  f = F (seq f) -> (forall g, In g h -> seq g <> seq f) -> sorted_above lo (insert f h).
Proof.
  revert lo; induction h as [|g t IH]; intros lo Hs Hlo Hb Hf Hne; cbn [insert].
  - cbn; intuition lia.
  - cbn in Hs. destruct Hs as (Hg & Hgb & Hgd & Ht).
    destruct (seq f <=? seq g) eqn:E.
    + cbn. repeat split; try assumption; try lia.
      assert (seq g <> seq f) by (apply Hne; now left). lia.
    + cbn. repeat split; try assumption. apply IH; try assumption; try lia.
      intros g' Hg'. apply Hne. now right.
Qed.

Lemma insert_in f h g : In g (insert f h) <-> g = f \/ In g h.
Proof. induction h as [|x t IH]; cbn [insert]. { cbn; intuition. }
  destruct (seq f <=? seq x); cbn [In]; [intuition|]. rewrite IH. intuition. Qed.

(* The popping loop on a sorted heap: it hands over the maximal run of consecutive data
   frames starting at nx and stops either at a gap (c = false) or exactly at the closing
   frame (c = true), which it removes. *)
Lemma drain_spec h : forall nx p, sorted_above nx h ->
  exists k h' c, drain false h nx p = (h', nx + N.of_nat k, p ++ cat nx k, c)
    /\ (forall i, In i (range nx k) -> i <> cl)
    /\ sorted_above (nx + N.of_nat k + 1) h'
    /\ (c = true -> nx + N.of_nat k = cl)
    /\ (forall g, In g h <->
          (In (seq g) (range nx k) /\ g = F (seq g)) \/ (c = true /\ g = F cl) \/ In g h').
Proof.
  induction h as [|f t IH]; intros nx p Hs.
  - exists 0%nat, [], false. cbn. rewrite app_nil_r, N.add_0_r.
    repeat split; try tauto; try discriminate. intuition discriminate.
  - cbn in Hs. destruct Hs as (Hlo & Hb & Hd & Ht). cbn [drain].
    destruct (seq f =? nx) eqn:E.
    + assert (Hnx : seq f = nx) by lia.
      destruct (closing f) eqn:Hc.
      * (* the closing frame is next in line *)
        assert (Hcl : seq f = cl).
        { rewrite Hd in Hc. rewrite F_closing in Hc. lia. }
        exists 0%nat, t, true. cbn [range cat flat_map N.of_nat]. rewrite app_nil_r, N.add_0_r.
        split; [reflexivity|]. split; [intros i []|]. split.
        { eapply sorted_above_weaken; [|exact Ht]. lia. }
        split; [intros _; lia|].
        intros g. cbn [In]. split.
        -- intros [<-|Hg]; [right; left; split; [reflexivity|rewrite <- Hcl; exact Hd]|right; right; exact Hg].
        -- intros [[[] _]|[[_ ->]|Hg]]; [left; rewrite <- Hcl; exact Hd|right; exact Hg].
      * assert (Hp : payload f = P (seq f)) by (unfold P; rewrite <- Hd; reflexivity).
        assert (Hncl : seq f <> cl).
        { rewrite Hd in Hc. rewrite F_closing in Hc. lia. }
        subst nx. rewrite (succ64_small _ Hb). unfold pipe_write.
        destruct (IH (seq f + 1) (p ++ payload f) Ht) as (k & h' & c & Hdr & Hnc & Hs' & Hcc & Hin).
        exists (S k), h', c. rewrite Hdr. split; [|split; [|split; [|split]]].
        -- replace (seq f + N.of_nat (S k)) with (seq f + 1 + N.of_nat k) by lia.
           replace (p ++ cat (seq f) (S k)) with ((p ++ payload f) ++ cat (seq f + 1) k); [reflexivity|].
           rewrite <- app_assoc. f_equal. rewrite Hp. unfold cat. cbn [range flat_map]. reflexivity.
        -- intros i. cbn [range In]. intros [<-|Hi]; [exact Hncl|apply Hnc; exact Hi].
        -- eapply sorted_above_weaken; [|exact Hs']. lia.
        -- intros Hct. specialize (Hcc Hct). lia.
        -- intros g. cbn [In range]. rewrite Hin. split.
           ++ intros [<-|[[H1 H2]|[H3|H3]]].
              ** left; split; [now left|exact Hd].
              ** left; split; [now right|exact H2].
              ** right; left; exact H3.
              ** right; right; exact H3.
           ++ intros [[[H1|H1] H2]|[H3|H3]].
              ** left. rewrite H2, <- H1. exact Hd.
              ** right; left; now split.
              ** right; right; left; exact H3.
              ** right; right; right; exact H3.
    + exists 0%nat, (f :: t), false. cbn [range cat flat_map N.of_nat]. rewrite app_nil_r, N.add_0_r.
      split; [reflexivity|]. split; [intros i []|]. split.
      { cbn. repeat split; try assumption. lia. }
      split; [discriminate|].
      intros g. split.
      * intros Hg; right; right; exact Hg.
      * intros [[[] _]|[[Hf _]|Hg]]; [discriminate|exact Hg].
Qed.

(* The invariant of a run in which no closing has been reported yet.
   b = first sequence number of the stream, A = sequence numbers that have arrived. *)
Definition Inv (b : N) (A : list N) (st : rbuf) (out : list N) : Prop :=
  exists k : nat,
    next st = b + N.of_nat k /\
    pclosed st = false /\
    sorted_above (next st + 1) (heap st) /\
    out ++ pipe st = cat b k /\
    (forall i, b <= i < next st -> i <> cl) /\
    (forall i, In i A <-> (b <= i < next st) \/ exists g, In g (heap st) /\ seq g = i).

Lemma Inv_next_not_arrived b A st out : Inv b A st out -> ~ In (next st) A.
Proof.
  intros (k & Hn & Hpc & Hs & Ho & Hncl & HA) Hin.
  apply HA in Hin as [Hlt|(g & Hg & Hsg)]; [lia|].
  pose proof (sorted_above_in _ _ _ Hs Hg). lia.
Qed.

Lemma Inv_next_le_cl b A st out : b <= cl -> Inv b A st out -> b <= next st <= cl.
Proof.
  intros Hb (k & Hn & Hpc & Hs & Ho & Hncl & HA). split; [lia|].
  destruct (N.leb_spec (next st) cl) as [H|H]; [exact H|].
  exfalso. apply (Hncl cl); lia.
Qed.

Lemma write_pres b A st out i :
  Inv b A st out -> ~ In i A -> b <= i -> i + 1 < two64 ->
  exists st' c, rb_write st (F i) = (st', c, false) /\
    (c = false -> Inv b (i :: A) st' out) /\
    (c = true -> (forall j, b <= j <= cl -> In j (i :: A)) /\
                 exists k, cl = b + N.of_nat k /\ out ++ pipe st' = cat b k).
Proof.
  intros (k & Hn & Hpc & Hs & Ho & Hncl & HA) Hni Hbi Hi64.
  assert (Hge : next st <= i).
  { destruct (N.ltb_spec i (next st)) as [Hlt|]; [|assumption]. exfalso. apply Hni, HA. left; lia. }
  unfold rb_write. rewrite F_seq.
  destruct (is_nil (heap st) && (i =? next st)) eqn:Efast.
  - apply andb_prop in Efast as [Hnil Heq]. assert (i = next st) by lia. subst i.
    destruct (heap st) as [|? ?] eqn:Hh; [|discriminate].
    rewrite F_closing. destruct (next st =? cl) eqn:Ecl.
    + (* closing frame arrives in order with nothing parked *)
      exists st, true. split; [reflexivity|]. split; [discriminate|]. intros _.
      assert (Hcl : next st = cl) by lia. split.
      * intros j Hj. destruct (N.eq_dec j (next st)) as [->|Hne]; [now left|].
        right. apply HA. left. lia.
      * exists k. split; [lia|exact Ho].
    + exists (mkB (succ64 (next st)) [] (pipe_write (pclosed st) (pipe st) (payload (F (next st)))) (pclosed st)), false.
      split; [reflexivity|]. split; [|discriminate]. intros _.
      exists (S k). cbn [next heap pipe pclosed]. rewrite (succ64_small _ Hi64), Hpc. unfold pipe_write.
      repeat split.
      * lia.
      * rewrite app_assoc, Ho, cat_snoc. unfold P. now rewrite Hn.
      * intros j Hj. destruct (N.eq_dec j (next st)) as [->|Hne]; [lia|]. apply Hncl. lia.
      * cbn [In]. intros [<-|Hi]; [left; lia|]. apply HA in Hi as [Hi|(g & [] & _)]. left; lia.
      * intros [Hi|(g & [] & _)]. destruct (N.eq_dec i (next st)) as [->|]; [now left|].
        right. apply HA. left; lia.
  - destruct (N.ltb_spec i (next st)) as [Hlt|_]; [lia|].
    assert (Hsi : sorted_above (next st) (insert (F i) (heap st))).
    { apply insert_sorted; rewrite ?F_seq; try reflexivity; try lia.
      - eapply sorted_above_weaken; [|exact Hs]. lia.
      - intros g Hg Heq. apply Hni, HA. right. exists g; split; [assumption|]. exact Heq. }
    rewrite Hpc.
    destruct (drain_spec _ (next st) (pipe st) Hsi) as (j & h' & c & Hdr & Hnc & Hs' & Hcc & Hin).
    rewrite Hdr. eexists; exists c; split; [reflexivity|].
    (* membership facts shared by both outcomes *)
    assert (Hmem1 : forall x, In x (i :: A) ->
              (b <= x < next st + N.of_nat j) \/ (c = true /\ x = cl) \/ exists g, In g h' /\ seq g = x).
    { intros x Hx. assert (Hx' : x = i \/ In x A) by (destruct Hx; [left; congruence|now right]).
      clear Hx. destruct Hx' as [->|Hx].
      - destruct (proj1 (Hin (F i))) as [[Hr _]|[[Hc1 Hc2]|Hh]].
        + apply insert_in. now left.
        + rewrite F_seq in Hr. apply range_in in Hr. left; lia.
        + right; left. split; [exact Hc1|]. apply (f_equal seq) in Hc2. now rewrite !F_seq in Hc2.
        + right; right. exists (F i). split; [assumption|apply F_seq].
      - apply HA in Hx as [Hx|(g & Hg & Hsg)]; [left; lia|].
        destruct (proj1 (Hin g)) as [[Hr _]|[[Hc1 Hc2]|Hh]].
        + apply insert_in. now right.
        + apply range_in in Hr. left; lia.
        + right; left. split; [exact Hc1|]. rewrite <- Hsg, Hc2. apply F_seq.
        + right; right. exists g. split; assumption. }
    assert (Hmem2 : forall x, (b <= x < next st + N.of_nat j) -> In x (i :: A)).
    { intros x Hx. destruct (N.ltb_spec x (next st)) as [Hlt|Hgeq].
      - right. apply HA. left; lia.
      - assert (Hr : In x (range (next st) j)) by (apply range_in; lia).
        assert (Hx' : In (F x) (insert (F i) (heap st))).
        { apply Hin. left. rewrite F_seq. split; [exact Hr|reflexivity]. }
        apply insert_in in Hx' as [Hx'|Hx'].
        + left. apply (f_equal seq) in Hx'. rewrite !F_seq in Hx'. congruence.
        + right. apply HA. right. exists (F x). split; [assumption|apply F_seq]. }
    split.
    + intros ->. exists (k + j)%nat. cbn [next heap pipe pclosed]. repeat split.
      * lia.
      * exact Hs'.
      * rewrite app_assoc, Ho, cat_app. now rewrite Hn.
      * intros x Hx. destruct (N.ltb_spec x (next st)) as [Hlt|Hgeq]; [apply Hncl; lia|].
        apply Hnc. apply range_in. lia.
      * intros Hx. destruct (Hmem1 _ Hx) as [H1|[[H2 _]|H3]]; [left; exact H1|discriminate|right; exact H3].
      * intros [Hx|(g & Hg & Hsg)]; [apply Hmem2; exact Hx|].
        assert (Hx' : In g (insert (F i) (heap st))) by (apply Hin; right; right; exact Hg).
        apply insert_in in Hx' as [->|Hx'].
        -- left. rewrite F_seq in Hsg. congruence.
        -- right. apply HA. right. exists g. split; assumption.
    + intros ->. specialize (Hcc eq_refl). split.
      * intros x Hx. destruct (N.eq_dec x cl) as [->|Hne].
        -- assert (Hx' : In (F cl) (insert (F i) (heap st))).
           { apply Hin. right; left. split; reflexivity. }
           apply insert_in in Hx' as [Hx'|Hx'].
           ++ left. apply (f_equal seq) in Hx'. rewrite !F_seq in Hx'. congruence.
           ++ right. apply HA. right. exists (F cl). split; [assumption|apply F_seq].
        -- apply Hmem2. lia.
      * exists (k + j)%nat. split; [lia|]. cbn [pipe].
        rewrite app_assoc, Ho, cat_app. now rewrite Hn.
Qed.

Lemma read_pres b A st out k :
  Inv b A st out ->
  match rb_read st k with
  | (st', RdData d) => Inv b A st' (out ++ d)
  | (st', _) => Inv b A st' out
  end.
Proof.
  intros (j & Hn & Hpc & Hs & Ho & Hncl & HA). unfold rb_read.
  destruct (pipe st) as [|x p] eqn:Hp.
  - rewrite Hpc. exists j. rewrite Hp. repeat split; try assumption; apply HA.
  - exists j. cbn [next heap pipe pclosed]. repeat split; try assumption; try apply HA.
    rewrite <- app_assoc, firstn_skipn. exact Ho.
Qed.

Definition no_close (es : list ev) : Prop := forall e, In e es -> e <> Cl.

(* Every run over distinct frames of the stream, in any order and with reads anywhere:
   no error; closing is reported iff every frame up to and including the closing frame
   has arrived, and at that moment exactly the data below it has been handed over;
   otherwise the state satisfies the invariant. *)
Lemma run_general b : b <= cl -> forall es l A st out,
  no_close es ->
  writes es = map F l -> NoDup l ->
  (forall i, In i l -> ~ In i A /\ b <= i /\ i + 1 < two64) ->
  Inv b A st out ->
  exists st' out' c, run es st out = (st', out', c, false) /\
    (c = false -> Inv b (rev l ++ A) st' out') /\
    (c = true -> (forall j, b <= j <= cl -> In j (l ++ A)) /\
                 exists k, cl = b + N.of_nat k /\ out' ++ pipe st' = cat b k).
Proof.
  intros Hbcl.
  induction es as [|e es IH]; intros l A st out Hnc Hw Hnd Hl HI.
  - destruct l; [|discriminate]. exists st, out, false. split; [reflexivity|].
    split; [intros _; exact HI|discriminate].
  - assert (Hnc' : no_close es) by (intros x Hx; apply Hnc; now right).
    destruct e as [f|k|].
    + destruct l as [|i l]; [discriminate|]. cbn [writes flat_map app map] in Hw.
      injection Hw as Hf Hw. subst f.
      destruct (Hl i (or_introl eq_refl)) as (Hni & Hbi & Hi64).
      destruct (write_pres b A st out i HI Hni Hbi Hi64) as (st1 & c & Hwr & HcF & HcT).
      cbn [run]. rewrite Hwr.
      destruct c.
      * exists st1, out, true. split; [reflexivity|]. split; [discriminate|]. intros _.
        destruct (HcT eq_refl) as (Hall & Hk). split; [|exact Hk].
        intros j Hj. specialize (Hall j Hj). cbn [app In] in *.
        destruct Hall as [->|Hall]; [now left|]. right. apply in_or_app. now right.
      * inversion Hnd as [|? ? Hnotin Hnd']; subst.
        destruct (IH l (i :: A) st1 out Hnc' Hw Hnd') as (st' & out' & c & Hrun & HF & HT);
          [|exact (HcF eq_refl)|].
        -- intros j Hj. destruct (Hl j (or_intror Hj)) as (H1 & H2 & H3). repeat split; try assumption.
           intros [<-|HjA]; contradiction.
        -- exists st', out', c. split; [exact Hrun|]. split.
           ++ intros Hc. cbn [rev]. rewrite <- app_assoc. exact (HF Hc).
           ++ intros Hc. destruct (HT Hc) as (Hall & Hk). split; [|exact Hk].
              intros j Hj. specialize (Hall j Hj). apply in_app_or in Hall. cbn [app In].
              destruct Hall as [H1|[H1|H1]].
              ** right. apply in_or_app. now left.
              ** now left.
              ** right. apply in_or_app. now right.
    + cbn [run]. pose proof (read_pres b A st out k HI) as HI1.
      destruct (rb_read st k) as [st1 [d| |]]; apply (IH l A); assumption.
    + exfalso. apply (Hnc Cl); [now left|reflexivity].
Qed.

Lemma Inv_init b : Inv b [] (rb_init b) [].
Proof.
  exists 0%nat. cbn. repeat split; try lia; try tauto.
  intros [?|(g & [] & _)]. lia.
Qed.

End Frames.

(* ------------------------------------------------------------------------------- *)
(* C02, first sentence: n data frames numbered b..b+n-1, each delivered exactly once in
   any order, reads of any size in between: no write reports an error or a close, and
   what was read plus what is still in the pipe is the concatenation in sequence order. *)
Theorem reassembly (pl : N -> list N) (b : N) (n : nat) (es : list ev) (l : list N) :
  b + N.of_nat n < two64 ->
  no_close es ->
  writes es = map (fun i => mkF i false (pl i)) l ->
  Permutation l (range b n) ->
  exists st out, run es (rb_init b) [] = (st, out, false, false)
    /\ out ++ pipe st = flat_map pl (range b n) /\ heap st = [] /\ next st = b + N.of_nat n.
Proof.
  intros Hb Hnc Hw Hp.
  set (cl := b + N.of_nat n).
  set (F := fun i => mkF i (i =? cl) (pl i)).
  assert (F_seq : forall i, seq (F i) = i) by reflexivity.
  assert (F_closing : forall i, closing (F i) = (i =? cl)) by reflexivity.
  assert (Hrange : forall i, In i l <-> b <= i < cl).
  { intros i. unfold cl. rewrite <- range_in. split; apply Permutation_in; [exact Hp|symmetry; exact Hp]. }
  assert (Hw' : writes es = map F l).
  { rewrite Hw. apply map_ext_in. intros i Hi. unfold F. apply Hrange in Hi.
    replace (i =? cl) with false by lia. reflexivity. }
  assert (Hnd : NoDup l).
  { eapply Permutation_NoDup; [symmetry; exact Hp|]. apply range_nodup. }
  assert (Hl : forall i, In i l -> ~ In i [] /\ b <= i /\ i + 1 < two64).
  { intros i Hi. split; [intros []|]. apply Hrange in Hi. unfold cl in Hi. lia. }
  assert (Hbcl : b <= cl) by (unfold cl; lia).
  destruct (run_general F cl F_seq F_closing b Hbcl es l [] _ _ Hnc Hw' Hnd Hl (Inv_init F cl F_seq F_closing b))
    as (st & out & c & Hrun & HF & HT).
  destruct c.
  - exfalso. destruct (HT eq_refl) as (Hall & _). specialize (Hall cl). rewrite app_nil_r in Hall.
    assert (In cl l) by (apply Hall; lia). apply Hrange in H. lia.
  - specialize (HF eq_refl). pose proof (Inv_next_not_arrived F cl F_seq F_closing b _ _ _ HF) as Hna.
    destruct HF as (k & Hn & Hpc & Hs & Ho & Hncl & HA).
    exists st, out. split; [exact Hrun|].
    rewrite app_nil_r in HA, Hna.
    assert (HinA : forall i, In i (rev l) <-> b <= i < cl) by (intros i; rewrite <- in_rev; apply Hrange).
    assert (Hnext : next st = cl).
    { destruct (N.lt_trichotomy (next st) cl) as [Hlt|[Heq|Hgt]]; [|exact Heq|].
      - exfalso. apply Hna. apply HinA. lia.
      - exfalso. assert (In cl (rev l)) by (apply HA; left; lia). apply HinA in H. lia. }
    assert (Hheap : heap st = []).
    { destruct (heap st) as [|g t] eqn:Hh; [reflexivity|]. exfalso.
      cbn in Hs. destruct Hs as (Hg & _).
      assert (In (seq g) (rev l)) by (apply HA; right; exists g; split; [now left|reflexivity]).
      apply HinA in H. lia. }
    repeat split; try assumption.
    rewrite Ho. unfold cat, P, F. cbn [payload]. f_equal. f_equal. unfold cl in Hnext. lia.
Qed.

(* C02, second sentence: frames b..b+c-1 carry data, frame b+c is the closing frame;
   further (later-numbered) frames may or may not be around.  In any arrival order and
   with reads anywhere, the run reports "to be closed" iff every frame up to the closing
   one has arrived - hence (apply this to every prefix of the event list) exactly at the
   write that completes that set, never earlier - never reports an error, and when it
   does report it, what was read plus what is in the pipe is exactly the data below it. *)
Theorem close_in_order (pl : N -> list N) (b : N) (c : nat) (es : list ev) (l : list N) :
  let cl := b + N.of_nat c in
  no_close es ->
  writes es = map (fun i => mkF i (i =? cl) (pl i)) l ->
  NoDup l -> (forall i, In i l -> b <= i /\ i + 1 < two64) ->
  exists st out r, run es (rb_init b) [] = (st, out, r, false)
    /\ (r = true <-> (forall j, b <= j <= cl -> In j l))
    /\ (r = true -> out ++ pipe st = flat_map pl (range b c)).
Proof.
  intros cl Hnc Hw Hnd Hl.
  set (F := fun i => mkF i (i =? cl) (pl i)).
  assert (F_seq : forall i, seq (F i) = i) by reflexivity.
  assert (F_closing : forall i, closing (F i) = (i =? cl)) by reflexivity.
  assert (Hbcl : b <= cl) by (unfold cl; lia).
  assert (Hl' : forall i, In i l -> ~ In i [] /\ b <= i /\ i + 1 < two64).
  { intros i Hi. split; [intros []|apply Hl; exact Hi]. }
  destruct (run_general F cl F_seq F_closing b Hbcl es l [] _ _ Hnc Hw Hnd Hl' (Inv_init F cl F_seq F_closing b))
    as (st & out & r & Hrun & HF & HT).
  exists st, out, r. split; [exact Hrun|]. split; [split|].
  - intros Hr. destruct (HT Hr) as (Hall & _). intros j Hj. specialize (Hall j Hj).
    now rewrite app_nil_r in Hall.
  - intros Hall. destruct r; [reflexivity|]. exfalso.
    specialize (HF eq_refl).
    pose proof (Inv_next_not_arrived F cl F_seq F_closing b _ _ _ HF) as Hna.
    pose proof (Inv_next_le_cl F cl F_seq F_closing b _ _ _ Hbcl HF) as Hle.
    apply Hna. rewrite app_nil_r, <- in_rev. apply Hall. exact Hle.
  - intros Hr. destruct (HT Hr) as (_ & k & Hk & Ho). rewrite Ho.
    assert (k = c) by (unfold cl in Hk; lia). subst k. reflexivity.
Qed.

(* The boundary of the theorem: numbering that runs across 2^64 is not supported by the
   implementation's comparison "seq < nextRecvSeq" (frame 0 arriving before frame 2^64-1
   is rejected).  Recorded as the edge of the statement (the property numbers 0..n-1). *)
Example wrap_guard :
  snd (rb_write (rb_init (two64 - 1)) (mkF 0 false [1])) = true.
Proof. vm_compute. reflexivity. Qed.

(* non-vacuity: a concrete out-of-order run meets the hypotheses and gives the data *)
Example reassembly_example :
  run [Wr (mkF 2 false [3]); Rd 1; Wr (mkF 0 false [1]); Rd 5; Wr (mkF 1 false [2; 2])]
      (rb_init 0) []
  = (mkB 3 [] [2; 2; 3] false, [1], false, false).
Proof. vm_compute. reflexivity. Qed.
