(* Proofs about Model/Record.v : record framing survives segmentation and concurrent writers (C05). *)
From Coq Require Import NArith ZArith List Lia Bool.
From Coq Require Import ZifyN ZifyNat ZifyBool.
From Cloak Require Import Gen.Consts Model.Record.
Import ListNotations.
Local Open Scope N_scope.

Ltac Zify.zify_post_hook ::= Z.div_mod_to_equations.

(* ---- generated obligations ---------------------------------------------------------- *)
Lemma write_limit_val : write_limit = 16640.
Proof. reflexivity. Qed.
(* the two length bytes can carry every length Write accepts *)
Lemma write_limit_fits_u16 : write_limit < 65536.
Proof. reflexivity. Qed.
Lemma hdr_len_val : hdr_len = 5.
Proof. reflexivity. Qed.
Lemma app_data_val : app_data = 23 /\ tls13 = 771.
Proof. split; reflexivity. Qed.
(* the multiplexer's default frame limit is exactly what one record can carry *)
Lemma frame_fits_record : Z.to_N mux_defaultMaxOnWireSize <= write_limit.
Proof. vm_compute. discriminate. Qed.

(* ---- lists -------------------------------------------------------------------------- *)
Lemma nlen_app a b : nlen (a ++ b) = nlen a + nlen b.
Proof. unfold nlen. rewrite app_length. lia. Qed.
Lemma nlen_nil : nlen [] = 0.
Proof. reflexivity. Qed.

Lemma firstn_app_le {A} n (a b : list A) : (n <= length a)%nat -> firstn n (a ++ b) = firstn n a.
Proof. intros H. rewrite firstn_app. replace (n - length a)%nat with 0%nat by lia. cbn. apply app_nil_r. Qed.
Lemma skipn_app_le {A} n (a b : list A) : (n <= length a)%nat -> skipn n (a ++ b) = skipn n a ++ b.
Proof. intros H. rewrite skipn_app. replace (n - length a)%nat with 0%nat by lia. reflexivity. Qed.
Lemma firstn_app_ge {A} n (a b : list A) : (length a <= n)%nat ->
  firstn n (a ++ b) = a ++ firstn (n - length a) b.
Proof. intros H. rewrite firstn_app. now rewrite firstn_all2 by lia. Qed.
Lemma skipn_app_ge {A} n (a b : list A) : (length a <= n)%nat ->
  skipn n (a ++ b) = skipn (n - length a) b.
Proof. intros H. rewrite skipn_app. now rewrite skipn_all2 by lia. Qed.

(* ---- io.ReadFull depends only on the byte stream, not on its segmentation ------------ *)
Definition rf_flat (k : N) (s acc : list N) : rf_result * list N :=
  if k <=? nlen s then (RfOk (acc ++ firstn (N.to_nat k) s), skipn (N.to_nat k) s)
  else (match acc ++ s with [] => RfEOF | _ => RfUnexpectedEOF (acc ++ s) end, []).

Lemma read_full_acc_flat cs : forall k acc,
  fst (read_full_acc k cs acc) = fst (rf_flat k (concat cs) acc)
  /\ concat (snd (read_full_acc k cs acc)) = snd (rf_flat k (concat cs) acc).
Proof.
  induction cs as [|c rest IH]; intros k acc; cbn [read_full_acc concat].
  - unfold rf_flat. cbn [nlen length N.of_nat]. destruct (N.eqb_spec k 0) as [->|Hk].
    + cbn. now rewrite app_nil_r.
    + destruct (N.leb_spec k 0); [lia|]. rewrite app_nil_r. cbn. now destruct acc.
  - destruct (N.eqb_spec k 0) as [->|Hk].
    + unfold rf_flat. destruct (N.leb_spec 0 (nlen (c ++ concat rest))); [|lia].
      cbn. now rewrite app_nil_r.
    + destruct (N.leb_spec (nlen c) k) as [Hle|Hgt].
      * destruct (IH (k - nlen c) (acc ++ c)) as [H1 H2]. rewrite H1, H2. clear IH H1 H2.
        unfold rf_flat. rewrite nlen_app.
        assert (Hc : (length c <= N.to_nat k)%nat) by (unfold nlen in Hle; lia).
        assert (Hk' : N.to_nat (k - nlen c) = (N.to_nat k - length c)%nat) by (unfold nlen; lia).
        destruct (N.leb_spec (k - nlen c) (nlen (concat rest))) as [Ha|Ha];
          destruct (N.leb_spec k (nlen c + nlen (concat rest))) as [Hb|Hb]; try lia.
        -- cbn [fst snd]. rewrite Hk', firstn_app_ge, skipn_app_ge by exact Hc.
           now rewrite <- app_assoc.
        -- cbn [fst snd]. now rewrite <- app_assoc.
      * unfold rf_flat. rewrite nlen_app.
        assert (Hc : (N.to_nat k <= length c)%nat) by (unfold nlen in Hgt; lia).
        destruct (N.leb_spec k (nlen c + nlen (concat rest))); [|lia].
        cbn [fst snd concat]. now rewrite firstn_app_le, skipn_app_le by exact Hc.
Qed.

Lemma read_full_flat k cs :
  fst (read_full k cs) = fst (rf_flat k (concat cs) [])
  /\ concat (snd (read_full k cs)) = snd (rf_flat k (concat cs) []).
Proof. apply read_full_acc_flat. Qed.

(* TLSConn.Read on the flat stream *)
Definition tls_read_flat (buflen : N) (s : list N) : tr_result * list N :=
  if buflen <? hdr_len then (TrShortBuffer, s)
  else match rf_flat hdr_len s [] with
       | (RfEOF, s1) => (TrEOF, s1)
       | (RfUnexpectedEOF _, s1) => (TrUnexpectedEOF 0, s1)
       | (RfOk h, s1) =>
           let dl := 256 * nth 3 h 0 + nth 4 h 0 in
           if buflen <? dl then (TrShortBuffer, s1)
           else match rf_flat dl s1 [] with
                | (RfOk d, s2) => (TrData d, s2)
                | (RfEOF, s2) => (TrEOF, s2)
                | (RfUnexpectedEOF d, s2) => (TrUnexpectedEOF (nlen d), s2)
                end
       end.

Lemma tls_read_chunks buflen cs :
  fst (tls_read buflen cs) = fst (tls_read_flat buflen (concat cs))
  /\ concat (snd (tls_read buflen cs)) = snd (tls_read_flat buflen (concat cs)).
Proof.
  unfold tls_read, tls_read_flat. destruct (buflen <? hdr_len); [now split|].
  destruct (read_full_flat hdr_len cs) as [H1 H2].
  destruct (read_full hdr_len cs) as [r cs1]. destruct (rf_flat hdr_len (concat cs) []) as [r' s1].
  cbn [fst snd] in H1, H2. subst r' s1. destruct r as [h| |d]; [|now split|now split].
  destruct (buflen <? _); [now split|].
  destruct (read_full_flat (256 * nth 3 h 0 + nth 4 h 0) cs1) as [H1 H2].
  destruct (read_full _ cs1) as [r2 cs2]. destruct (rf_flat _ (concat cs1) []) as [r2' s2].
  cbn [fst snd] in H1, H2. subst r2' s2. destruct r2; now split.
Qed.

Fixpoint tls_reads_flat (fuel : nat) (buflen : N) (s : list N) : list tr_result :=
  match fuel with
  | O => []
  | S f => match tls_read_flat buflen s with
           | (TrData d, s') => TrData d :: tls_reads_flat f buflen s'
           | (r, _) => [r]
           end
  end.

Lemma tls_reads_chunks fuel buflen : forall cs,
  tls_reads fuel buflen cs = tls_reads_flat fuel buflen (concat cs).
Proof.
  induction fuel as [|f IH]; intros cs; cbn [tls_reads tls_reads_flat]; [reflexivity|].
  destruct (tls_read_chunks buflen cs) as [H1 H2].
  destruct (tls_read buflen cs) as [r cs']. destruct (tls_read_flat buflen (concat cs)) as [r' s'].
  cbn [fst snd] in H1, H2. subst r' s'. destruct r; try reflexivity. now rewrite IH.
Qed.

(* C05_segmentation_irrelevant *)
Lemma segmentation_irrelevant fuel buflen cs cs' : concat cs = concat cs' ->
  tls_reads fuel buflen cs = tls_reads fuel buflen cs'.
Proof. intros H. now rewrite !tls_reads_chunks, H. Qed.

(* a single read as well: same result, same remaining byte stream *)
Lemma segmentation_irrelevant_one buflen cs cs' : concat cs = concat cs' ->
  fst (tls_read buflen cs) = fst (tls_read buflen cs')
  /\ concat (snd (tls_read buflen cs)) = concat (snd (tls_read buflen cs')).
Proof. intros H. destruct (tls_read_chunks buflen cs) as [-> ->].
  destruct (tls_read_chunks buflen cs') as [-> ->]. now rewrite H. Qed.

(* ---- one record ----------------------------------------------------------------------- *)
Definition frame (m : list N) : list N := header app_data tls13 (nlen m) ++ m.

Lemma rec_write_frame m : nlen m <= write_limit -> rec_write m = Some (frame m).
Proof. intros H. unfold rec_write. destruct (N.ltb_spec write_limit (nlen m)); [lia|reflexivity]. Qed.
Lemma rec_write_refuses m : write_limit < nlen m -> rec_write m = None.
Proof. intros H. unfold rec_write. destruct (N.ltb_spec write_limit (nlen m)); [reflexivity|lia]. Qed.

Lemma header_len t v l : nlen (header t v l) = 5.
Proof. reflexivity. Qed.

Lemma rf_flat_prefix (a rest : list N) : rf_flat (nlen a) (a ++ rest) [] = (RfOk a, rest).
Proof. unfold rf_flat. rewrite nlen_app. destruct (N.leb_spec (nlen a) (nlen a + nlen rest)); [|lia].
  cbn [app]. unfold nlen. rewrite Nat2N.id.
  rewrite firstn_app_le, skipn_app_le by lia. now rewrite firstn_all, skipn_all. Qed.

Lemma len_bytes_decode l : l < 65536 -> 256 * ((l / 256) mod 256) + l mod 256 = l.
Proof. intros H. lia. Qed.

Lemma read_one_record buflen m rest : hdr_len <= buflen -> nlen m <= buflen -> nlen m < 65536 ->
  tls_read_flat buflen (frame m ++ rest) = (TrData m, rest).
Proof.
  intros Hb Hm Hl. unfold tls_read_flat. destruct (N.ltb_spec buflen hdr_len); [lia|].
  unfold frame. rewrite <- app_assoc.
  change hdr_len with (nlen (header app_data tls13 (nlen m))). rewrite rf_flat_prefix.
  cbn [header nth]. rewrite len_bytes_decode by exact Hl.
  destruct (N.ltb_spec buflen (nlen m)); [lia|]. now rewrite rf_flat_prefix.
Qed.

(* a record longer than the reader's buffer: error; the header is gone, the body is still in the
   stream; nothing is handed to the caller as data *)
Lemma oversize_flat buflen m rest : hdr_len <= buflen -> buflen < nlen m -> nlen m < 65536 ->
  tls_read_flat buflen (frame m ++ rest) = (TrShortBuffer, m ++ rest).
Proof.
  intros Hb Hm Hl. unfold tls_read_flat. destruct (N.ltb_spec buflen hdr_len); [lia|].
  unfold frame. rewrite <- app_assoc.
  change hdr_len with (nlen (header app_data tls13 (nlen m))). rewrite rf_flat_prefix.
  cbn [header nth]. rewrite len_bytes_decode by exact Hl.
  destruct (N.ltb_spec buflen (nlen m)); [reflexivity|lia].
Qed.

Lemma oversize_is_error buflen m rest cs : hdr_len <= buflen -> buflen < nlen m -> nlen m <= write_limit ->
  concat cs = frame m ++ rest ->
  fst (tls_read buflen cs) = TrShortBuffer /\ concat (snd (tls_read buflen cs)) = m ++ rest
  /\ forall fuel, tls_reads (S fuel) buflen cs = [TrShortBuffer].
Proof.
  intros Hb Hm Hl Hc. pose proof write_limit_fits_u16 as Hw.
  destruct (tls_read_chunks buflen cs) as [H1 H2]. rewrite Hc, oversize_flat in H1, H2 by lia.
  split; [exact H1|]. split; [exact H2|]. intros fuel. cbn [tls_reads].
  destruct (tls_read buflen cs) as [r cs']. cbn [fst] in H1. now subst r.
Qed.

(* a buffer shorter than a header is refused before anything is read *)
Lemma tiny_buffer buflen cs : buflen < hdr_len -> tls_read buflen cs = (TrShortBuffer, cs).
Proof. intros H. unfold tls_read. destruct (N.ltb_spec buflen hdr_len); [reflexivity|lia]. Qed.

(* ---- C05_one_write_one_read --------------------------------------------------------- *)
Definition fits (bound : N) (ms : list (list N)) : Prop := Forall (fun m => nlen m <= bound) ms.

Lemma wire_of_cons m ms : nlen m <= write_limit -> wire_of (m :: ms) = frame m ++ wire_of ms.
Proof. intros H. unfold wire_of. cbn [map concat]. now rewrite (rec_write_frame m H). Qed.

Lemma wire_of_frames ms : fits write_limit ms -> wire_of ms = concat (map frame ms).
Proof. induction 1 as [|m ms Hm _ IH]; [reflexivity|]. rewrite wire_of_cons by exact Hm. cbn. now rewrite IH. Qed.

Lemma reads_flat_wire ms : forall fuel buflen, fits write_limit ms -> fits buflen ms -> hdr_len <= buflen ->
  (length ms < fuel)%nat ->
  tls_reads_flat fuel buflen (wire_of ms) = map TrData ms ++ [TrEOF].
Proof.
  pose proof write_limit_fits_u16 as Hw.
  induction ms as [|m ms IH]; intros fuel buflen Hl Hb Hh Hf.
  - destruct fuel as [|f]; [cbn in Hf; lia|]. cbn [tls_reads_flat map app wire_of concat].
    unfold tls_read_flat. destruct (N.ltb_spec buflen hdr_len); [lia|]. reflexivity.
  - destruct fuel as [|f]; [cbn in Hf; lia|]. inversion Hl; inversion Hb; subst.
    cbn [tls_reads_flat]. rewrite wire_of_cons by assumption.
    rewrite read_one_record by (try assumption; lia).
    cbn [map app]. f_equal. apply IH; try assumption. cbn in Hf. lia.
Qed.

Lemma one_write_one_read ms cs buflen fuel :
  fits write_limit ms -> fits buflen ms -> hdr_len <= buflen -> (length ms < fuel)%nat ->
  concat cs = wire_of ms ->
  tls_reads fuel buflen cs = map TrData ms ++ [TrEOF].
Proof. intros Hl Hb Hh Hf Hc. rewrite tls_reads_chunks, Hc. now apply reads_flat_wire. Qed.

(* Write refuses what does not fit the length field's budget, and puts nothing on the wire *)
Lemma wire_of_refused m ms : write_limit < nlen m -> wire_of (m :: ms) = wire_of ms.
Proof. intros H. unfold wire_of. cbn [map concat]. now rewrite (rec_write_refuses m H). Qed.

(* the chunkings the drivers use are chunkings *)
Lemma cut_at_concat cuts : forall pos s, concat (cut_at pos cuts s) = s.
Proof. induction cuts as [|c r IH]; intros pos s; cbn [cut_at concat]; [apply app_nil_r|].
  destruct (c <=? pos); [apply IH|]. cbn [concat]. rewrite IH. apply firstn_skipn. Qed.

(* ---- several writers ------------------------------------------------------------------ *)
(* the messages of writer i among those that went out, in the order they went out *)
Fixpoint sel {A} (i : nat) (sched : list nat) (l : list A) : list A :=
  match sched, l with
  | j :: s, x :: t => if Nat.eqb j i then x :: sel i s t else sel i s t
  | _, _ => []
  end.

Lemma pop_nth_spec {A} i : forall (qs : list (list A)) x qs', pop_nth i qs = Some (x, qs') ->
  nth i qs [] = x :: nth i qs' [] /\ (forall j, j <> i -> nth j qs' [] = nth j qs [])
  /\ length qs' = length qs.
Proof.
  induction i as [|i IH]; intros qs x qs' H; destruct qs as [|q r]; cbn [pop_nth] in H; try discriminate.
  - destruct q as [|y q']; [discriminate|]. injection H as <- <-. cbn [nth]. repeat split.
    intros j Hj. destruct j; [contradiction|reflexivity].
  - destruct (pop_nth i r) as [[y r']|] eqn:E; [|discriminate]. injection H as <- <-.
    destruct (IH _ _ _ E) as (H1 & H2 & H3). cbn [nth length]. repeat split; [exact H1| |now rewrite H3].
    intros j Hj. destruct j; [reflexivity|]. apply H2. lia.
Qed.

Lemma run_sched_spec {A} sched : forall (qs : list (list A)) l qf, run_sched qs sched = Some (l, qf) ->
  length l = length sched /\ length qf = length qs
  /\ forall i, nth i qs [] = sel i sched l ++ nth i qf [].
Proof.
  induction sched as [|j t IH]; intros qs l qf H; cbn [run_sched] in H.
  - injection H as <- <-. repeat split.
  - destruct (pop_nth j qs) as [[x qs']|] eqn:Ep; [|discriminate].
    destruct (run_sched qs' t) as [[l' qf']|] eqn:Er; [|discriminate]. injection H as <- <-.
    destruct (pop_nth_spec _ _ _ _ Ep) as (H1 & H2 & H3). destruct (IH _ _ _ Er) as (L1 & L2 & L3).
    cbn [length]. split; [now rewrite L1|]. split; [now rewrite L2|].
    intros i. cbn [sel]. destruct (Nat.eqb_spec j i) as [->|Hne].
    + rewrite H1, L3. reflexivity.
    + rewrite <- (H2 i) by lia. apply L3.
Qed.

(* C05_no_interleave: whatever the schedule of the writers' Write calls and whatever the
   segmentation, the reader gets whole messages, and the messages of each writer in that writer's
   order *)
Lemma no_interleave (qs : list (list (list N))) sched l qf cs buflen fuel :
  run_sched qs sched = Some (l, qf) ->
  Forall (fits write_limit) qs -> Forall (fits buflen) qs -> hdr_len <= buflen -> (length l < fuel)%nat ->
  concat cs = wire_of l ->
  tls_reads fuel buflen cs = map TrData l ++ [TrEOF]
  /\ forall i, nth i qs [] = sel i sched l ++ nth i qf [].
Proof.
  intros Hr Hl Hb Hh Hf Hc. destruct (run_sched_spec _ _ _ _ Hr) as (_ & _ & Hsel). split; [|exact Hsel].
  assert (Hin : forall bound, Forall (fits bound) qs -> fits bound l).
  { intros bound HF. clear Hc Hf Hsel Hl Hb. revert qs l qf Hr HF.
    induction sched as [|j t IH]; intros qs l qf Hr HF; cbn [run_sched] in Hr.
    - injection Hr as <- <-. constructor.
    - destruct (pop_nth j qs) as [[x qs']|] eqn:Ep; [|discriminate].
      destruct (run_sched qs' t) as [[l' qf']|] eqn:Er; [|discriminate]. injection Hr as <- <-.
      destruct (pop_nth_spec _ _ _ _ Ep) as (H1 & H2 & H3).
      assert (Hq : forall i, fits bound (nth i qs [])).
      { intros i. destruct (Nat.lt_ge_cases i (length qs)) as [Hi|Hi].
        - rewrite Forall_forall in HF. apply HF. now apply nth_In.
        - rewrite nth_overflow by lia. constructor. }
      constructor.
      + pose proof (Hq j) as Hj. rewrite H1 in Hj. now inversion Hj.
      + apply (IH qs' l' qf' Er). apply Forall_forall. intros q Hq'.
        destruct (In_nth _ _ [] Hq') as (i & Hi & <-).
        destruct (Nat.eq_dec i j) as [->|Hne].
        * pose proof (Hq j) as Hj. rewrite H1 in Hj. now inversion Hj.
        * rewrite H2 by exact Hne. apply Hq. }
  apply one_write_one_read; auto.
Qed.

(* ---- WebSocketConn.Read ----------------------------------------------------------------- *)
Definition all_data (ps : list piece) : Prop :=
  Forall (fun p => match p with PData d => d <> [] | PErr => False end) ps.

Lemma ws_loop_sound ps : forall space acc x, ws_loop space ps acc = WsOk x ->
  x = acc ++ ws_message ps /\ nlen (ws_message ps) <= space /\ all_data ps.
Proof.
  induction ps as [|p ps IH]; intros space acc x H; cbn [ws_loop] in H.
  - injection H as <-. cbn. rewrite app_nil_r. repeat split; [lia|constructor].
  - destruct p as [d|]; [|discriminate].
    destruct (N.eqb_spec (nlen d) 0); [discriminate|].
    destruct (N.leb_spec (nlen d) space); [|discriminate].
    destruct (IH _ _ _ H) as (-> & Hl & Ha). cbn [ws_message]. rewrite nlen_app, <- app_assoc.
    repeat split; [lia|]. constructor; [|exact Ha]. intros ->. cbn in n. lia.
Qed.

Lemma ws_loop_complete ps : forall space acc, all_data ps -> nlen (ws_message ps) <= space ->
  ws_loop space ps acc = WsOk (acc ++ ws_message ps).
Proof.
  induction ps as [|p ps IH]; intros space acc Ha Hl; cbn [ws_loop ws_message].
  - now rewrite app_nil_r.
  - inversion Ha as [|? ? Hp Ha']; subst. destruct p as [d|]; [|contradiction].
    cbn [ws_message] in Hl. rewrite nlen_app in Hl.
    destruct (N.eqb_spec (nlen d) 0) as [E|E]; [destruct d; [contradiction|cbn in E; lia]|].
    destruct (N.leb_spec (nlen d) space); [|lia].
    rewrite IH by (try assumption; lia). now rewrite <- app_assoc.
Qed.

(* whole message or an error, never a truncated success *)
Lemma ws_whole_or_error buflen ps :
  (forall x, ws_read buflen true ps = WsOk x -> x = ws_message ps /\ nlen x <= buflen /\ all_data ps)
  /\ (all_data ps -> nlen (ws_message ps) <= buflen -> ws_read buflen true ps = WsOk (ws_message ps))
  /\ (buflen < nlen (ws_message ps) -> forall x, ws_read buflen true ps <> WsOk x).
Proof.
  unfold ws_read. split; [|split].
  - intros x H. destruct (ws_loop_sound _ _ _ _ H) as (-> & Hl & Ha). cbn [app]. auto.
  - intros Ha Hl. now rewrite ws_loop_complete.
  - intros Hl x H. destruct (ws_loop_sound _ _ _ _ H) as (_ & Hl' & _). lia.
Qed.

(* ---- non-vacuity -------------------------------------------------------------------- *)
Example ex_reads :
  let ms := [[1;2;3]; []; [4]] in
  let w := wire_of ms in
  fits write_limit ms /\ fits 5 ms
  /\ tls_reads 9 5 (cut_at 0 [1;2;6;7;8;9;13;14;18] w) = [TrData [1;2;3]; TrData []; TrData [4]; TrEOF]
  /\ tls_reads 9 5 (map (fun b => [b]) w) = [TrData [1;2;3]; TrData []; TrData [4]; TrEOF]
  /\ tls_reads 9 5 (cut_at 0 [6] (firstn 7 w)) = [TrUnexpectedEOF 2]
  /\ tls_reads 9 5 [firstn 3 w] = [TrUnexpectedEOF 0]
  /\ tls_reads 9 5 [firstn 13 w] = [TrData [1;2;3]; TrData []; TrEOF]
  /\ tls_reads 9 2 [w] = [TrShortBuffer]
  /\ tls_reads 9 5 [[23;3;3;0;6;1;2;3;4;5;6]] = [TrShortBuffer].
Proof. vm_compute. repeat split; repeat constructor; discriminate. Qed.

Example ex_sched :
  run_sched [[[1];[2]]; [[7]]] [0;1;0]%nat = Some ([[1];[7];[2]], [[];[]])
  /\ sel 0 [0;1;0]%nat [[1];[7];[2]] = [[1];[2]] /\ sel 1 [0;1;0]%nat [[1];[7];[2]] = [[7]].
Proof. vm_compute. repeat split. Qed.

Example ex_ws :
  ws_read 4 true [PData [1;2]; PData [3;4]] = WsOk [1;2;3;4]
  /\ ws_read 3 true [PData [1;2]; PData [3;4]] = WsNothingMore [1;2;3]
  /\ ws_read 4 true [PData [1;2]; PData [3;4]; PData [5]] = WsNothingMore [1;2;3;4]
  /\ ws_read 9 true [PData [1]; PErr; PData [2]] = WsErr [1]
  /\ ws_read 9 true [] = WsOk [].
Proof. vm_compute. repeat split. Qed.
