(* The data invariant of one direction of one stream of the session-pair model, for EVERY
   label sequence: what the reader has read, plus what is waiting in its pipe, is the
   concatenation of the first k data frames the sender emitted; frames are numbered 0,1,2,..
   in emission order.  (C01, C03, C12 prefix part, C13) *)
From Coq Require Import NArith ZArith List Bool Lia Sorting.Permutation.
From Coq Require Import ZifyN ZifyBool.
From Cloak Require Import Model.Reorder Model.Mux Proofs.Reorder Proofs.ReorderExt
  Proofs.MuxBase Proofs.MuxSafety Proofs.MuxView Proofs.MuxWire Proofs.MuxEffect Proofs.MuxPay.
Import ListNotations.
Local Open Scope N_scope.

Section Data.
Variable s : side.
Variable sid : N.
Let o := other s.

Notation inflight := (inflight s sid).
Notation sview := (sview s sid).
Notation rview := (rview s sid).
Notation keep := (keep sid).
Notation vstep := (vstep s sid).
Notation vsteps := (vsteps s sid).

(* ---- the frames the sender has put on the wire so far, in emission order ---- *)
Definition nthf (E : list wframe) (i : N) : option wframe := nth_error E (N.to_nat i).
Definition nE (E : list wframe) : N := N.of_nat (length E).

Definition wfE (E : list wframe) : Prop :=
  forall i fr, nth_error E i = Some fr ->
    w_seq fr = N.of_nat i /\ w_sid fr = sid /\ (w_cl fr = 0 \/ (w_cl fr = 1 /\ S i = length E /\ w_pay fr = [])).

Definition all_data (E : list wframe) : Prop := forall fr, In fr E -> w_cl fr = 0.

(* index of the closing frame, if the sender has emitted one (it is then the last frame) *)
Definition cl_of (E : list wframe) : N :=
  match rev E with
  | fr :: _ => if w_cl fr =? 0 then two64 else nE E - 1
  | [] => two64
  end.
(* number of data frames *)
Definition ndata (E : list wframe) : N := if cl_of E =? two64 then nE E else nE E - 1.

Definition FE (E : list wframe) (i : N) : frame :=
  match nthf E i with Some fr => to_frame fr | None => mkF i (i =? cl_of E) [] end.

Lemma nthf_lt E i fr : nthf E i = Some fr -> i < nE E.
Proof. unfold nthf, nE. intros H. apply nth_error_Some_lt in H || (assert (H' := nth_error_Some E (N.to_nat i)); rewrite H in H'; assert (N.to_nat i < length E)%nat by (apply H'; discriminate); lia). Qed.
Lemma nthf_app1 E fr i : i < nE E -> nthf (E ++ [fr]) i = nthf E i.
Proof. unfold nthf, nE. intros H. apply nth_error_app1. lia. Qed.
Lemma nthf_app2 E fr : nthf (E ++ [fr]) (nE E) = Some fr.
Proof. unfold nthf, nE. rewrite nth_error_app2; rewrite Nat2N.id; [|lia]. now rewrite Nat.sub_diag. Qed.
Lemma nE_app E fr : nE (E ++ [fr]) = nE E + 1.
Proof. unfold nE. rewrite app_length. cbn. lia. Qed.

Lemma cl_of_app E fr : cl_of (E ++ [fr]) = if w_cl fr =? 0 then two64 else nE E.
Proof. unfold cl_of. rewrite rev_app_distr. cbn. rewrite nE_app. destruct (w_cl fr =? 0); [reflexivity|lia]. Qed.

Lemma all_data_cl_of E : all_data E -> cl_of E = two64.
Proof.
  unfold cl_of. intros H. destruct (rev E) as [|fr t] eqn:Er; [reflexivity|].
  assert (In fr E) by (apply in_rev; rewrite Er; now left). rewrite (H _ H0). reflexivity.
Qed.

Lemma FE_seq E : wfE E -> forall i, seq (FE E i) = i.
Proof.
  intros Hw i. unfold FE. destruct (nthf E i) as [fr|] eqn:En; [|reflexivity].
  unfold nthf in En. destruct (Hw _ _ En) as (H1 & _). cbn. rewrite H1. lia.
Qed.

Lemma FE_closing E : wfE E -> nE E + 1 < two64 -> forall i, closing (FE E i) = (i =? cl_of E).
Proof.
  intros Hw Hb i. unfold FE. destruct (nthf E i) as [fr|] eqn:En; [|reflexivity].
  pose proof (nthf_lt _ _ _ En) as Hlt. unfold nthf in En. destruct (Hw _ _ En) as (H1 & _ & H3). cbn.
  (* locate the last frame *)
  unfold cl_of. destruct (rev E) as [|lst t] eqn:Er.
  { assert (E = []) by (rewrite <- (rev_involutive E), Er; reflexivity). subst E. destruct (N.to_nat i); discriminate. }
  assert (HE : E = rev t ++ [lst]) by (rewrite <- (rev_involutive E), Er; reflexivity).
  assert (Hlen : length E = S (length t)) by (rewrite HE, app_length, rev_length; cbn; lia).
  destruct H3 as [H0|(H1' & Hlast & _)].
  - rewrite H0. cbn. destruct (w_cl lst =? 0) eqn:E0; [unfold nE in *; lia|].
    (* i is not the last index, else fr = lst and cl = 0 *)
    destruct (N.eq_dec i (nE E - 1)) as [Heq|Hne]; [|lia].
    exfalso. rewrite HE in En. rewrite nth_error_app2 in En; rewrite rev_length in *; [|unfold nE in *; lia].
    replace (N.to_nat i - length t)%nat with 0%nat in En by (unfold nE in *; lia). cbn in En. injection En as <-. lia.
  - rewrite H1'. cbn.
    assert (Hi : N.to_nat i = length t) by lia.
    rewrite HE in En. rewrite nth_error_app2 in En; rewrite rev_length in *; [|lia].
    rewrite Hi, Nat.sub_diag in En. cbn in En. injection En as <-. rewrite H1'. cbn. unfold nE. lia.
Qed.

Lemma FE_app E fr i : i < nE E -> FE (E ++ [fr]) i = FE E i.
Proof.
  intros H. unfold FE. rewrite nthf_app1 by exact H.
  destruct (nthf E i) as [f|] eqn:En; [reflexivity|].
  unfold nthf in En. apply nth_error_None in En. unfold nE in H. lia.
Qed.


(* ---- the invariant ---- *)
Definition genuine (E l : list wframe) : Prop := forall fr, In fr l -> nthf E (w_seq fr) = Some fr.

Inductive recv_ok (E IF : list wframe) (Rd : list N) : option (rbuf * bool) -> Prop :=
| RNone : Rd = [] -> recv_ok E IF Rd None
| ROpen rb A :
    pclosed rb = false -> Inv (FE E) (cl_of E) 0 A rb Rd -> (forall i, In i A -> i < nE E) ->
    (forall fr, In fr IF -> ~ In (w_seq fr) A) -> recv_ok E IF Rd (Some (rb, false))
| RTrans rb :
    pclosed rb = false -> cl_of E <> two64 -> Rd ++ pipe rb = cat (FE E) 0 (N.to_nat (ndata E)) -> IF = [] ->
    recv_ok E IF Rd (Some (rb, false))
| RClosed rb k :
    pclosed rb = true -> N.of_nat k <= ndata E -> Rd ++ pipe rb = cat (FE E) 0 k ->
    recv_ok E IF Rd (Some (rb, true)).

Definition PD (y : sys) (E : list wframe) (Rd : list N) (P : list wframe) : Prop :=
  wfE E /\
  (forall q w, sview y = Some (q, w, false) -> q = nE E /\ w = 0 /\ all_data E) /\
  (sview y = None -> E = []) /\
  genuine E (inflight y ++ P) /\ NoDup (map w_seq (inflight y ++ P)) /\
  recv_ok E (inflight y ++ P) Rd (rview y).

(* ---- recv_ok: how it moves ---- *)
Lemma recv_ok_IF E IF IF' Rd rv :
  recv_ok E IF Rd rv -> (forall fr, In fr IF' -> In fr IF) -> recv_ok E IF' Rd rv.
Proof.
  intros H Hsub. destruct H.
  - now constructor.
  - eapply ROpen; eauto.
  - eapply RTrans; eauto. subst IF. destruct IF' as [|x t]; [reflexivity|]. exfalso. apply (Hsub x). now left.
  - eapply RClosed; eauto.
Qed.

Lemma Inv_next_bound E A rb Rd :
  Inv (FE E) (cl_of E) 0 A rb Rd -> (forall i, In i A -> i < nE E) -> nE E + 1 < two64 ->
  exists k, Rd ++ pipe rb = cat (FE E) 0 k /\ N.of_nat k <= ndata E.
Proof.
  intros (k & Hn & Hpc & Hs & Ho & Hncl & HA) HAn Hb. exists k. split; [exact Ho|].
  assert (Hk : N.of_nat k <= nE E).
  { destruct k as [|k]; [lia|]. assert (In (next rb - 1) A) by (apply HA; left; lia). specialize (HAn _ H). lia. }
  unfold ndata. destruct (cl_of E =? two64) eqn:Ec; [exact Hk|].
  assert (Hcl : cl_of E = nE E - 1).
  { unfold cl_of in *. destruct (rev E) as [|fr t]; [lia|]. destruct (w_cl fr =? 0); [lia|reflexivity]. }
  destruct (N.ltb_spec (cl_of E) (next rb)) as [Hlt|Hge]; [|lia].
  exfalso. apply (Hncl (cl_of E)); [lia|reflexivity].
Qed.

Lemma recv_ok_rclose E IF Rd rv rv' :
  recv_ok E IF Rd rv -> rclose rv rv' -> nE E + 1 < two64 -> recv_ok E IF Rd rv'.
Proof.
  intros H [->|(rb & -> & ->)] Hb; [exact H|].
  remember (Some (rb, false)) as rv eqn:Erv.
  destruct H as [Hr|rb0 A Hp HI HA Hd|rb0 Hp Hc Ho Hi|rb0 k Hp Hk Ho]; try discriminate.
  - injection Erv as ->.
    destruct (Inv_next_bound _ _ _ _ HI HA Hb) as (k & Hk1 & Hk2).
    eapply (RClosed _ _ _ (rb_close rb) k); [reflexivity|exact Hk2|exact Hk1].
  - injection Erv as ->.
    eapply (RClosed _ _ _ (rb_close rb) (N.to_nat (ndata E))); [reflexivity|lia|exact Ho].
Qed.

(* the sender puts one more data frame on the wire *)
Lemma recv_ok_emit E IF Rd rv fr :
  recv_ok E IF Rd rv -> all_data E -> w_seq fr = nE E -> w_cl fr = 0 ->
  recv_ok (E ++ [fr]) (fr :: IF) Rd rv.
Proof.
  intros H Had Hseq Hcl.
  assert (Hc : cl_of E = two64) by (apply all_data_cl_of; exact Had).
  assert (Hc' : cl_of (E ++ [fr]) = two64) by (rewrite cl_of_app, Hcl; reflexivity).
  destruct H.
  - now constructor.
  - eapply (ROpen _ _ _ rb A); [assumption| | |].
    + rewrite Hc'. rewrite Hc in H0. eapply Inv_ext; [exact H0|exact H1|intros i Hi; apply FE_app; exact Hi|left; reflexivity].
    + intros i Hi. rewrite nE_app. specialize (H1 _ Hi). lia.
    + intros f [<-|Hin]; [|apply H2; exact Hin]. rewrite Hseq. intros Hx. specialize (H1 _ Hx). lia.
  - congruence.
  - eapply (RClosed _ _ _ rb k); [assumption| |].
    + unfold ndata in *. rewrite Hc' , Hc in *. cbn in *. rewrite nE_app. lia.
    + rewrite H1. symmetry. apply cat_ext. intros i Hi. apply FE_app. unfold ndata in H0. rewrite Hc in H0. cbn in H0. lia.
Qed.

(* the sender puts the closing frame on the wire *)
Lemma recv_ok_close_emit E IF Rd rv fr :
  recv_ok E IF Rd rv -> all_data E -> w_seq fr = nE E -> w_cl fr = 1 -> nE E + 2 < two64 ->
  recv_ok (E ++ [fr]) (fr :: IF) Rd rv.
Proof.
  intros H Had Hseq Hcl Hb.
  assert (Hc : cl_of E = two64) by (apply all_data_cl_of; exact Had).
  assert (Hc' : cl_of (E ++ [fr]) = nE E) by (rewrite cl_of_app, Hcl; reflexivity).
  destruct H.
  - now constructor.
  - eapply (ROpen _ _ _ rb A); [assumption| | |].
    + rewrite Hc'. eapply Inv_ext; [exact H0|exact H1|intros i Hi; apply FE_app; exact Hi|right; lia].
    + intros i Hi. rewrite nE_app. specialize (H1 _ Hi). lia.
    + intros f [<-|Hin]; [|apply H2; exact Hin]. rewrite Hseq. intros Hx. specialize (H1 _ Hx). lia.
  - congruence.
  - eapply (RClosed _ _ _ rb k); [assumption| |].
    + unfold ndata in *. rewrite Hc', Hc in *. cbn in H0. rewrite nE_app.
      replace (nE E =? two64) with false by lia. lia.
    + rewrite H1. symmetry. apply cat_ext. intros i Hi. apply FE_app. unfold ndata in H0. rewrite Hc in H0. cbn in H0. lia.
Qed.

Lemma to_frame_genuine E fr : nthf E (w_seq fr) = Some fr -> to_frame fr = FE E (w_seq fr).
Proof. intros H. unfold FE. now rewrite H. Qed.

Lemma cl_of_cases E : cl_of E = two64 \/ (cl_of E = nE E - 1 /\ 0 < nE E).
Proof.
  unfold cl_of. destruct (rev E) as [|fr t] eqn:Er; [now left|].
  destruct (w_cl fr =? 0); [now left|right]. split; [reflexivity|].
  assert (length (rev E) = S (length t)) by (rewrite Er; reflexivity). rewrite rev_length in H. unfold nE. lia.
Qed.

(* a frame that was in flight is handed to the receiver's re-sequencer *)
Lemma recv_ok_arrive E IF IF' Rd rb c fr :
  recv_ok E IF Rd (Some (rb, c)) -> Permutation IF (fr :: IF') ->
  genuine E IF -> NoDup (map w_seq IF) -> wfE E -> nE E + 1 < two64 ->
  recv_ok E IF' Rd (Some (fst (fst (rb_write rb (to_frame fr))), c)).
Proof.
  intros H Hperm Hgen Hnd Hw Hb.
  assert (Hfr : In fr IF) by (eapply Permutation_in; [symmetry; exact Hperm|now left]).
  assert (Hsub : forall f, In f IF' -> In f IF) by (intros f Hf; eapply Permutation_in; [symmetry; exact Hperm|now right]).
  assert (Hnd' : NoDup (w_seq fr :: map w_seq IF')).
  { eapply Permutation_NoDup; [|exact Hnd]. change (w_seq fr :: map w_seq IF') with (map w_seq (fr :: IF')). now apply Permutation_map. }
  pose proof (Hgen _ Hfr) as Hg. pose proof (nthf_lt _ _ _ Hg) as Hlt.
  rewrite (to_frame_genuine _ _ Hg).
  remember (Some (rb, c)) as rv eqn:Erv.
  destruct H as [Hr|rb0 A Hp HI HA Hd|rb0 Hp Hc Ho Hi|rb0 k Hp Hk Ho]; try discriminate; injection Erv as -> <-.
  - (* open *)
    assert (Hni : ~ In (w_seq fr) A) by (apply Hd; exact Hfr).
    destruct (write_pres (FE E) (cl_of E) (FE_seq E Hw) (FE_closing E Hw Hb) 0 A rb Rd (w_seq fr) HI Hni) as (st' & c' & Hwr & HcF & HcT);
      [lia|lia|].
    rewrite Hwr. cbn [fst].
    pose proof (rb_write_pclosed rb (FE E (w_seq fr))) as Hpc. rewrite Hwr in Hpc. cbn in Hpc.
    destruct c'.
    + destruct (HcT eq_refl) as (Hall & k & Hk & Hout).
      assert (Hclin : In (cl_of E) (w_seq fr :: A)) by (apply Hall; lia).
      assert (Hcllt : cl_of E < nE E) by (destruct Hclin as [<-|Hx]; [exact Hlt|apply HA; exact Hx]).
      destruct (cl_of_cases E) as [Hc2|[Hc2 Hpos]]; [lia|].
      eapply RTrans; [congruence|lia| |].
      * rewrite Hout. f_equal. unfold ndata. replace (cl_of E =? two64) with false by lia. lia.
      * destruct IF' as [|f t]; [reflexivity|]. exfalso.
        assert (Hf : In f IF) by (apply Hsub; now left).
        pose proof (nthf_lt _ _ _ (Hgen _ Hf)) as Hflt.
        assert (Hin : In (w_seq f) (w_seq fr :: A)) by (apply Hall; lia).
        destruct Hin as [Heq|HinA].
        -- inversion Hnd' as [|? ? Hnotin _]; subst. apply Hnotin. cbn. left. congruence.
        -- apply (Hd _ Hf). exact HinA.
    + eapply (ROpen _ _ _ st' (w_seq fr :: A)); [congruence|apply HcF; reflexivity| |].
      * intros i [<-|Hi]; [exact Hlt|apply HA; exact Hi].
      * intros f Hf [Heq|HinA].
        -- inversion Hnd' as [|? ? Hnotin _]; subst. apply Hnotin. rewrite Heq. apply in_map. exact Hf.
        -- apply (Hd _ (Hsub _ Hf)). exact HinA.
  - subst IF. destruct Hfr.
  - pose proof (rb_write_closed_pipe rb (FE E (w_seq fr)) Hp) as Hpipe.
    pose proof (rb_write_pclosed rb (FE E (w_seq fr))) as Hpc.
    eapply (RClosed _ _ _ _ k); [congruence|exact Hk|congruence].
Qed.

Lemma recv_ok_read E IF Rd rb c k d rb' :
  recv_ok E IF Rd (Some (rb, c)) -> rb_read rb k = (rb', RdData d) ->
  recv_ok E IF (Rd ++ d) (Some (rb', c)).
Proof.
  intros H Hr.
  assert (Hshape : pclosed rb' = pclosed rb /\ pipe rb = d ++ pipe rb').
  { unfold rb_read in Hr. destruct (pipe rb) as [|x p] eqn:Ep.
    - destruct (pclosed rb); discriminate.
    - injection Hr as <- <-. cbn. split; [reflexivity|]. symmetry. apply firstn_skipn. }
  destruct Hshape as [Hpc Hpipe].
  remember (Some (rb, c)) as rv eqn:Erv.
  destruct H as [Hr0|rb0 A Hp HI HA Hd|rb0 Hp Hc Ho Hi|rb0 k0 Hp Hk Ho]; try discriminate; injection Erv as -> <-.
  - pose proof (read_pres (FE E) (cl_of E) 0 A rb Rd k HI) as Hrp. rewrite Hr in Hrp.
    eapply (ROpen _ _ _ rb' A); [congruence|exact Hrp|exact HA|exact Hd].
  - eapply RTrans; [congruence|exact Hc| |exact Hi]. rewrite <- app_assoc, <- Hpipe. exact Ho.
  - eapply (RClosed _ _ _ rb' k0); [congruence|exact Hk|]. rewrite <- app_assoc, <- Hpipe. exact Ho.
Qed.

Lemma recv_ok_create E IF Rd : recv_ok E IF Rd None -> wfE E -> nE E + 1 < two64 ->
  recv_ok E IF Rd (Some (rb_init 0, false)).
Proof.
  intros H Hw Hb. inversion H as [Hr| | |]; subst.
  eapply (ROpen _ _ _ (rb_init 0) []); [reflexivity| | |].
  - apply (Inv_init (FE E) (cl_of E) (FE_seq E Hw) (FE_closing E Hw Hb)).
  - intros i [].
  - intros fr _ [].
Qed.

(* ---- PD is preserved by every visible action ---- *)
Lemma genuine_perm E l l' : Permutation l l' -> genuine E l -> genuine E l'.
Proof. intros Hp Hg fr Hin. apply Hg. eapply Permutation_in; [symmetry; exact Hp|exact Hin]. Qed.
Lemma nodup_perm l l' : Permutation l l' -> NoDup (map w_seq l) -> NoDup (map w_seq l').
Proof. intros Hp. apply Permutation_NoDup. now apply Permutation_map. Qed.
Lemma recv_ok_perm E IF IF' Rd rv : Permutation IF IF' -> recv_ok E IF Rd rv -> recv_ok E IF' Rd rv.
Proof. intros Hp H. eapply recv_ok_IF; [exact H|]. intros fr Hin. eapply Permutation_in; [symmetry; exact Hp|exact Hin]. Qed.

Lemma nodup_app_r {A} (a b : list A) : NoDup (a ++ b) -> NoDup b.
Proof. induction a as [|x t IH]; cbn; [auto|]. intros H. inversion H; auto. Qed.

Lemma nodup_app_l {A} (a b : list A) : NoDup (a ++ b) -> NoDup a.
Proof. induction a as [|x t IH]; cbn; [constructor|]. intros H. inversion H as [|? ? Hn Ht]; subst. constructor; [|apply IH; exact Ht]. intros Hx. apply Hn. apply in_or_app. now left. Qed.

Lemma wfE_app E fr : wfE E -> all_data E -> w_seq fr = nE E -> w_sid fr = sid -> (w_cl fr = 0 \/ (w_cl fr = 1 /\ w_pay fr = [])) ->
  wfE (E ++ [fr]).
Proof.
  intros Hw Had Hseq Hsid Hcl i f Hn.
  destruct (Nat.lt_ge_cases i (length E)) as [Hlt|Hge].
  - rewrite nth_error_app1 in Hn by exact Hlt. destruct (Hw _ _ Hn) as (H1 & H2 & _).
    split; [exact H1|split; [exact H2|left]]. apply Had. eapply nth_error_In; eauto.
  - rewrite nth_error_app2 in Hn by exact Hge.
    destruct (i - length E)%nat as [|m] eqn:Em; [|destruct m; discriminate]. cbn in Hn. injection Hn as <-.
    assert (i = length E) by lia. subst i.
    split; [unfold nE in Hseq; exact Hseq|split; [exact Hsid|]].
    destruct Hcl as [H0|[H1 H2]]; [left; exact H0|right; split; [exact H1|split; [rewrite app_length; cbn; lia|exact H2]]].
Qed.

Lemma genuine_app E fr l : genuine E l -> w_seq fr = nE E -> genuine (E ++ [fr]) (fr :: l).
Proof.
  intros Hg Hseq f [<-|Hin].
  - rewrite Hseq. apply nthf_app2.
  - pose proof (Hg _ Hin) as H. rewrite nthf_app1; [exact H|]. eapply nthf_lt; eauto.
Qed.

Lemma nodup_cons_new E fr l : genuine E l -> NoDup (map w_seq l) -> w_seq fr = nE E -> NoDup (map w_seq (fr :: l)).
Proof.
  intros Hg Hnd Hseq. cbn. constructor; [|exact Hnd].
  intros Hin. apply in_map_iff in Hin as (f & Hf1 & Hf2). pose proof (nthf_lt _ _ _ (Hg _ Hf2)). lia.
Qed.

Lemma PD_step b y a y' E Rd P P' :
  vstep b y a y' -> PD y E Rd P -> nE (E ++ emitted [a]) + 2 < two64 ->
  (match a with AArrive fr => Permutation P (fr :: P') | _ => P' = P end) ->
  PD y' (E ++ emitted [a]) (Rd ++ readout [a]) P'.
Proof.
  intros Hv (Hw & Hs & Hn & Hg & Hnd & Hr) Hb HP.
  destruct Hv as [y y' (Hp & Hsc & Hrc)
                 |y y' q w pay Hs1 Hs2 Hp Hr2
                 |y y' q w Hs1 Hs2 Hp Hrc
                 |y y' q w w' Hs1 Hs2 Hp Hrc
                 |y y' l Hbt Hp Hs2 Hr2
                 |y y' fr rb c Hr1 Hr2 Hi2 Hs2
                 |y y' rb c k d rb' Hr1 Hrd Hr2 Hi2 Hs2
                 |y y' Hs1 Hs2 Hi2 Hr2
                 |y y' Hr1 Hr2 Hi2 Hs2]; cbn [emitted readout flat_map app] in *; rewrite ?app_nil_r in *; subst.
  - (* quiet *)
    assert (Hpp : Permutation (inflight y ++ P) (inflight y' ++ P)) by (apply Permutation_app_tail; exact Hp).
    split; [exact Hw|]. split; [|split; [|split; [|split]]].
    + intros q w Hsv. destruct Hsc as [Heq|(q0 & w0 & w0' & Ha & Hbb)]; [rewrite Heq in Hsv; eauto|congruence].
    + intros Hsv. destruct Hsc as [Heq|(q0 & w0 & w0' & Ha & Hbb)]; [rewrite Heq in Hsv; eauto|congruence].
    + eapply genuine_perm; eauto.
    + eapply nodup_perm; eauto.
    + eapply recv_ok_rclose; [eapply recv_ok_perm; eauto|exact Hrc|lia].
  - (* data frame emitted *)
    destruct (Hs _ _ Hs1) as (-> & -> & Had).
    set (fr := mkW sid (nE E) 0 pay) in *.
    assert (Hpp : Permutation (fr :: (inflight y ++ P)) (inflight y' ++ P)).
    { change (fr :: inflight y ++ P) with ((fr :: inflight y) ++ P). apply Permutation_app_tail. symmetry. exact Hp. }
    split; [apply wfE_app; auto|]. split; [|split; [|split; [|split]]].
    + intros q w Hsv. rewrite Hs2 in Hsv. injection Hsv as <- <-. split; [now rewrite nE_app|split; [reflexivity|]].
      intros f Hf. apply in_app_or in Hf as [Hf|[<-|[]]]; [apply Had; exact Hf|reflexivity].
    + intros Hsv. congruence.
    + eapply genuine_perm; [exact Hpp|]. apply genuine_app; [exact Hg|reflexivity].
    + eapply nodup_perm; [exact Hpp|]. eapply nodup_cons_new; eauto.
    + rewrite Hr2. eapply recv_ok_perm; [exact Hpp|]. apply recv_ok_emit; auto.
  - (* closing frame emitted *)
    destruct (Hs _ _ Hs1) as (-> & -> & Had).
    set (fr := mkW sid (nE E) 1 []) in *.
    assert (Hpp : Permutation (fr :: (inflight y ++ P)) (inflight y' ++ P)).
    { change (fr :: inflight y ++ P) with ((fr :: inflight y) ++ P). apply Permutation_app_tail. symmetry. exact Hp. }
    rewrite nE_app in Hb.
    split; [apply wfE_app; auto|]. split; [|split; [|split; [|split]]].
    + intros q w Hsv. congruence.
    + intros Hsv. congruence.
    + eapply genuine_perm; [exact Hpp|]. apply genuine_app; [exact Hg|reflexivity].
    + eapply nodup_perm; [exact Hpp|]. eapply nodup_cons_new; eauto.
    + eapply recv_ok_rclose; [|exact Hrc|rewrite nE_app; lia].
      eapply recv_ok_perm; [exact Hpp|]. apply recv_ok_close_emit; auto. lia.
  - (* a number consumed, nothing on the wire *)
    assert (Hpp : Permutation (inflight y ++ P) (inflight y' ++ P)) by (apply Permutation_app_tail; exact Hp).
    split; [exact Hw|]. split; [|split; [|split; [|split]]].
    + intros q0 w0 Hsv. congruence.
    + intros Hsv. congruence.
    + eapply genuine_perm; eauto.
    + eapply nodup_perm; eauto.
    + eapply recv_ok_rclose; [eapply recv_ok_perm; eauto|exact Hrc|lia].
  - (* frames lost with their connection *)
    assert (Hsub : forall f, In f (inflight y' ++ P) -> In f (inflight y ++ P)).
    { intros f Hf. apply in_app_or in Hf as [Hf|Hf]; apply in_or_app; [left|right; exact Hf].
      eapply Permutation_in; [symmetry; exact Hp|]. apply in_or_app. now right. }
    assert (Hpp : Permutation (inflight y ++ P) (l ++ (inflight y' ++ P))).
    { rewrite app_assoc. apply Permutation_app_tail. exact Hp. }
    split; [exact Hw|]. split; [|split; [|split; [|split]]].
    + intros q w Hsv. rewrite Hs2 in Hsv. eauto.
    + intros Hsv. rewrite Hs2 in Hsv. eauto.
    + intros f Hf. apply Hg. apply Hsub. exact Hf.
    + pose proof (nodup_perm _ _ Hpp Hnd) as H. rewrite map_app in H. eapply nodup_app_r; eauto.
    + rewrite Hr2. eapply recv_ok_IF; eauto.
  - (* arrival *)
    assert (Hpp : Permutation (inflight y ++ P) (fr :: (inflight y ++ P'))).
    { rewrite HP. symmetry. apply Permutation_middle. }
    unfold PD. rewrite Hi2.
    split; [exact Hw|]. split; [|split; [|split; [|split]]].
    + intros q w Hsv. rewrite Hs2 in Hsv. eauto.
    + intros Hsv. rewrite Hs2 in Hsv. eauto.
    + intros f Hf. apply Hg. eapply Permutation_in; [symmetry; exact Hpp|now right].
    + pose proof (nodup_perm _ _ Hpp Hnd) as H. cbn in H. inversion H; assumption.
    + rewrite Hr2. rewrite Hr1 in Hr. eapply recv_ok_arrive; eauto. lia.
  - (* read *)
    unfold PD. rewrite Hi2. split; [exact Hw|]. split; [|split; [|split; [|split]]].
    + intros q w Hsv. rewrite Hs2 in Hsv. eauto.
    + intros Hsv. rewrite Hs2 in Hsv. eauto.
    + exact Hg.
    + exact Hnd.
    + rewrite Hr2. rewrite Hr1 in Hr. eapply recv_ok_read; eauto.
  - (* the sender's object appears *)
    unfold PD. rewrite Hi2. specialize (Hn Hs1). subst E.
    split; [exact Hw|]. split; [|split; [|split; [|split]]].
    + intros q w Hsv. rewrite Hs2 in Hsv. injection Hsv as <- <-. split; [reflexivity|split; [reflexivity|intros f []]].
    + intros Hsv. congruence.
    + exact Hg.
    + exact Hnd.
    + rewrite Hr2. exact Hr.
  - (* the receiver's object appears *)
    unfold PD. rewrite Hi2. split; [exact Hw|]. split; [|split; [|split; [|split]]].
    + intros q w Hsv. rewrite Hs2 in Hsv. eauto.
    + intros Hsv. rewrite Hs2 in Hsv. eauto.
    + exact Hg.
    + exact Hnd.
    + rewrite Hr2. rewrite Hr1 in Hr. apply recv_ok_create; auto. lia.
Qed.

(* ---- sequences of actions ---- *)
Lemma emitted_cons a l : emitted (a :: l) = emitted [a] ++ emitted l.
Proof. unfold emitted. cbn. now rewrite app_nil_r. Qed.
Lemma readout_cons a l : readout (a :: l) = readout [a] ++ readout l.
Proof. unfold readout. cbn. now rewrite app_nil_r. Qed.
Lemma nE_app_le E l1 l2 : nE (E ++ l1) <= nE (E ++ l1 ++ l2).
Proof. unfold nE. rewrite !app_length. lia. Qed.

Lemma PD_steps_noarr b y acts y' : vsteps b y acts y' -> forall E Rd P,
  arrivals acts = [] -> PD y E Rd P -> nE (E ++ emitted acts) + 2 < two64 ->
  PD y' (E ++ emitted acts) (Rd ++ readout acts) P.
Proof.
  induction 1 as [y|y a y1 l y2 Hstep Hrest IH]; intros E Rd P Ha Hpd Hb.
  - cbn. now rewrite !app_nil_r.
  - rewrite emitted_cons, readout_cons, !app_assoc.
    assert (Ha1 : match a with AArrive fr => False | _ => True end /\ arrivals l = []).
    { destruct a; cbn in Ha; try discriminate; auto. }
    destruct Ha1 as [Hna Hal].
    rewrite emitted_cons in Hb.
    assert (Hb1 : nE (E ++ emitted [a]) + 2 < two64) by (pose proof (nE_app_le E (emitted [a]) (emitted l)); lia).
    apply IH; [exact Hal| |rewrite <- app_assoc; exact Hb].
    eapply PD_step; [exact Hstep|exact Hpd|exact Hb1|]. destruct a; try reflexivity. contradiction.
Qed.

Lemma PD_steps_arr b y acts y' : vsteps b y acts y' -> forall E Rd fr,
  arrivals acts = [fr] -> PD y E Rd [fr] -> nE (E ++ emitted acts) + 2 < two64 ->
  PD y' (E ++ emitted acts) (Rd ++ readout acts) [].
Proof.
  induction 1 as [y|y a y1 l y2 Hstep Hrest IH]; intros E Rd fr Ha Hpd Hb.
  - discriminate.
  - rewrite emitted_cons, readout_cons, !app_assoc. rewrite emitted_cons in Hb.
    assert (Hb1 : nE (E ++ emitted [a]) + 2 < two64) by (pose proof (nE_app_le E (emitted [a]) (emitted l)); lia).
    destruct a as [| | | | |f| | |]; cbn [arrivals flat_map app] in Ha;
      try (apply IH with (fr := fr); [exact Ha| |rewrite <- app_assoc; exact Hb];
           eapply PD_step; [exact Hstep|exact Hpd|exact Hb1|reflexivity]).
    injection Ha as -> Hal.
    apply (PD_steps_noarr _ _ _ _ Hrest); [exact Hal| |rewrite <- app_assoc; exact Hb].
    eapply PD_step; [exact Hstep|exact Hpd|exact Hb1|reflexivity].
Qed.

(* PD only looks at the view *)
Lemma PD_same_view y y' E Rd P :
  inflight y' = inflight y -> sview y' = sview y -> rview y' = rview y -> PD y E Rd P -> PD y' E Rd P.
Proof. unfold PD. intros -> -> ->. exact (fun H => H). Qed.

Lemma PD_drop_P y E Rd P : PD y E Rd P -> PD y E Rd [].
Proof.
  intros (Hw & Hs & Hn & Hg & Hnd & Hr). unfold PD. rewrite app_nil_r.
  split; [exact Hw|split; [exact Hs|split; [exact Hn|split; [|split]]]].
  - intros fr Hin. apply Hg. apply in_or_app. now left.
  - rewrite map_app in Hnd. eapply nodup_app_l; exact Hnd.
  - eapply recv_ok_IF; [exact Hr|]. intros fr Hin. apply in_or_app. now left.
Qed.

(* a frame is taken off the wire for the receiving session: it becomes pending *)
Lemma PD_pop y y1 E Rd fr :
  PD y E Rd [] -> Permutation (inflight y) (fr :: inflight y1) -> sview y1 = sview y -> rview y1 = rview y ->
  PD y1 E Rd [fr].
Proof.
  intros (Hw & Hs & Hn & Hg & Hnd & Hr) Hp Hs1 Hr1. rewrite app_nil_r in *.
  assert (Hpp : Permutation (inflight y) (inflight y1 ++ [fr])).
  { rewrite Hp. apply Permutation_cons_append. }
  unfold PD. rewrite Hs1, Hr1.
  split; [exact Hw|split; [exact Hs|split; [exact Hn|split; [|split]]]].
  - eapply genuine_perm; eauto.
  - eapply nodup_perm; eauto.
  - eapply recv_ok_perm; eauto.
Qed.

(* ---- one label ---- *)
Notation ev_frames := (ev_frames s sid).
Notation step_reads := (step_reads s sid).

Definition fresh_at (y : sys) (l : label) : Prop :=
  forall x, l = LOpen x -> lookup (se_nextsid (sess y x)) (se_objs (sess y x)) = None.

Lemma PD_label y l ch y' evs E Rd :
  step y l ch = (y', evs) -> WF y -> PD y E Rd [] -> fresh_at y l ->
  nE (E ++ ev_frames evs) + 2 < two64 ->
  PD y' (E ++ ev_frames evs) (Rd ++ step_reads l evs) [].
Proof.
  unfold step. intros H Hwf Hpd Hfresh Hb.
  destruct (step_core y l ch) as [yc ec] eqn:Ec.
  destruct (resolve (sy_pend yc) yc) as [[yr ps] er] eqn:Er. injection H as <- <-.
  assert (Hw2 : forall q w, sview y = Some (q, w, false) -> w <> 2).
  { intros q w Hsv. destruct Hpd as (_ & Hs & _). destruct (Hs _ _ Hsv) as (_ & -> & _). lia. }
  destruct (step_core_effect s sid _ _ _ _ _ Ec Hwf Hfresh Hw2) as (y1 & pend & acts & Hpop & Hv & He & Hr & Hpr & Harr & Hlab).
  destruct (resolve_effect s sid _ _ _ _ _ Er) as (acts2 & Hv2 & He2 & Ha2 & Hr2 & Hf2 & Hd2).
  (* the ghosts *)
  assert (HE : ev_frames (ec ++ er) = emitted acts ++ emitted acts2).
  { rewrite ev_frames_app, He, He2, Hf2. reflexivity. }
  assert (HR : step_reads l (ec ++ er) = readout acts ++ readout acts2).
  { unfold MuxEffect.step_reads. rewrite Hr, Hr2, ev_pend_reads_app, Hpr. cbn [app]. f_equal.
    unfold core_reads. destruct l; try reflexivity. destruct (_ && _); [|reflexivity].
    now rewrite ret_data_app, Hd2, app_nil_r. }
  rewrite HE, HR, !app_assoc. rewrite HE, app_assoc in Hb.
  assert (Hb1 : nE (E ++ emitted acts) + 2 < two64).
  { pose proof (nE_app_le E (emitted acts) (emitted acts2)). rewrite <- app_assoc in Hb. lia. }
  (* the core part *)
  assert (Hcore : PD yc (E ++ emitted acts) (Rd ++ readout acts) []).
  { destruct Hpop as [[-> ->]|(fr & -> & Hk & Hperm & Hs1 & Hr1)].
    - destruct Harr as [[Ha _]|(f & Hf & _)]; [|discriminate].
      apply (PD_steps_noarr _ _ _ _ Hv); assumption.
    - pose proof (PD_pop _ _ _ _ _ Hpd Hperm Hs1 Hr1) as Hpd1.
      destruct Harr as [[Ha _]|(f & Hf & Ha)].
      + eapply PD_drop_P. apply (PD_steps_noarr _ _ _ _ Hv); eassumption.
      + injection Hf as <-. apply (PD_steps_arr _ _ _ _ Hv _ _ fr); assumption. }
  apply (PD_same_view yr); [reflexivity|unfold MuxView.sview; now rewrite sess_set_pend|unfold MuxView.rview; now rewrite sess_set_pend|].
  apply (PD_steps_noarr _ _ _ _ Hv2); [exact Ha2|exact Hcore|exact Hb].
Qed.

(* ---- a whole run ---- *)
Fixpoint run_frames (os : list (list ev)) : list wframe :=
  match os with [] => [] | evs :: t => ev_frames evs ++ run_frames t end.
Fixpoint run_reads (ls : list (label * list N)) (os : list (list ev)) : list N :=
  match ls, os with
  | (l, _) :: lt, evs :: ot => step_reads l evs ++ run_reads lt ot
  | _, _ => []
  end.
Fixpoint fresh_run (y : sys) (ls : list (label * list N)) : Prop :=
  match ls with
  | [] => True
  | (l, ch) :: t => fresh_at y l /\ fresh_run (fst (step y l ch)) t
  end.

Lemma PD_run ls : forall y y' os E Rd,
  run y ls = (y', os) -> WF y -> PD y E Rd [] -> fresh_run y ls ->
  nE (E ++ run_frames os) + 2 < two64 ->
  PD y' (E ++ run_frames os) (Rd ++ run_reads ls os) [].
Proof.
  induction ls as [|[l ch] t IH]; intros y y' os E Rd H Hwf Hpd Hfr Hb; cbn in H.
  - injection H as <- <-. cbn. now rewrite !app_nil_r.
  - destruct (step y l ch) as [y1 o1] eqn:Es. destruct (run y1 t) as [y2 os2] eqn:Er. injection H as <- <-.
    cbn [run_frames run_reads]. rewrite !app_assoc. cbn [run_frames] in Hb. rewrite app_assoc in Hb.
    destruct Hfr as [Hf1 Hf2]. rewrite Es in Hf2. cbn [fst] in Hf2.
    apply (IH y1); [exact Er|eapply step_WF; eauto| |exact Hf2|exact Hb].
    eapply PD_label; eauto.
    pose proof (nE_app_le E (ev_frames o1) (run_frames os2)). rewrite <- app_assoc in Hb. lia.
Qed.

Lemma inflight_init k sp u ta tb : inflight (init k sp u ta tb) = [].
Proof. unfold MuxView.inflight, init. cbn [sy_conns]. induction k as [|k IH]; [reflexivity|]. cbn. destruct (other s); exact IH. Qed.

Lemma PD_init k sp u ta tb : PD (init k sp u ta tb) [] [] [].
Proof.
  unfold PD. rewrite inflight_init. cbn [app].
  split; [intros i fr H; destruct i; discriminate|].
  split; [intros q w H; unfold MuxView.sview in H; destruct s; discriminate|].
  split; [reflexivity|]. split; [intros fr []|]. split; [constructor|].
  replace (rview (init k sp u ta tb)) with (@None (rbuf * bool)); [now constructor|].
  unfold MuxView.rview. destruct s; reflexivity.
Qed.

(* ---- reading the invariant ---- *)
Lemma firstn_S_nth {A} (l : list A) k x : nth_error l k = Some x -> firstn (S k) l = firstn k l ++ [x].
Proof. revert k; induction l as [|a t IH]; intros [|k] H; cbn in *; try discriminate.
  - injection H as ->. reflexivity.
  - now rewrite (IH _ H). Qed.

Lemma cat_FE E : forall k, (k <= length E)%nat -> cat (FE E) 0 k = flat_map w_pay (firstn k E).
Proof.
  induction k as [|k IH]; intros Hk; [reflexivity|].
  rewrite cat_snoc', IH by lia. cbn [N.add].
  destruct (nth_error E k) as [fr|] eqn:En; [|apply nth_error_None in En; lia].
  rewrite (firstn_S_nth _ _ _ En), flat_map_app. cbn. rewrite app_nil_r. f_equal.
  unfold P, FE, nthf. rewrite Nat2N.id, En. reflexivity.
Qed.

(* all bytes carried by the data frames emitted so far, in emission order *)
Definition data_bytes (E : list wframe) : list N := flat_map w_pay (firstn (N.to_nat (ndata E)) E).

Lemma ndata_le E : ndata E <= nE E.
Proof. unfold ndata. destruct (_ =? _); lia. Qed.

Lemma firstn_prefix {A} (l : list A) a b : (a <= b)%nat -> exists t, firstn b l = firstn a l ++ t.
Proof.
  revert a b; induction l as [|x l IH]; intros a b H.
  - exists []. now rewrite !firstn_nil.
  - destruct a as [|a]; [exists (firstn b (x :: l)); reflexivity|].
    destruct b as [|b]; [lia|]. destruct (IH a b) as (t & Ht); [lia|]. exists t. cbn. now rewrite Ht.
Qed.

Theorem PD_read_prefix y E Rd :
  PD y E Rd [] -> nE E + 1 < two64 -> exists tail, data_bytes E = Rd ++ tail.
Proof.
  intros (Hw & Hs & Hn & Hg & Hnd & Hr) Hb.
  assert (Hk : exists k rest, N.of_nat k <= ndata E /\ cat (FE E) 0 k = Rd ++ rest).
  { remember (rview y) as rv. clear Heqrv.
    destruct Hr as [Hr0|rb A Hp HI HA Hd|rb Hp Hc Ho Hi|rb k Hp Hk Ho].
    - exists 0%nat, []. subst Rd. split; [lia|reflexivity].
    - destruct (Inv_next_bound _ _ _ _ HI HA Hb) as (k & Hk1 & Hk2). exists k, (pipe rb). auto.
    - exists (N.to_nat (ndata E)), (pipe rb). split; [lia|auto].
    - exists k, (pipe rb). auto. }
  destruct Hk as (k & rest & Hk & Hc).
  pose proof (ndata_le E) as Hle.
  rewrite cat_FE in Hc by (unfold nE in *; lia).
  destruct (firstn_prefix E k (N.to_nat (ndata E))) as (t & Ht); [lia|].
  exists (rest ++ flat_map w_pay t). unfold data_bytes. rewrite Ht, flat_map_app, Hc, app_assoc. reflexivity.
Qed.

Theorem PD_numbering y E Rd : PD y E Rd [] ->
  forall i fr, nth_error E i = Some fr ->
    w_seq fr = N.of_nat i /\ w_sid fr = sid /\ (w_cl fr = 0 \/ (w_cl fr = 1 /\ S i = length E /\ w_pay fr = [])).
Proof. intros (Hw & _). exact Hw. Qed.

(* an open sender has numbered exactly the frames that are on the wire, all of them data *)
Theorem PD_sender_open y E Rd q w : PD y E Rd [] -> sview y = Some (q, w, false) -> q = nE E /\ all_data E.
Proof. intros (_ & Hs & _) Hsv. destruct (Hs _ _ Hsv) as (H1 & _ & H3). auto. Qed.

Lemma data_bytes_all E : wfE E -> data_bytes E = flat_map w_pay E.
Proof.
  intros Hw. unfold data_bytes, ndata.
  destruct (cl_of E =? two64) eqn:Ec.
  - unfold nE. rewrite Nat2N.id, firstn_all. reflexivity.
  - unfold cl_of in Ec. destruct (rev E) as [|lst t] eqn:Er; [cbn in Ec; lia|].
    assert (HE : E = rev t ++ [lst]) by (rewrite <- (rev_involutive E), Er; reflexivity).
    destruct (w_cl lst =? 0) eqn:E0; [lia|].
    assert (Hlen : length E = S (length t)) by (rewrite HE, app_length, rev_length; cbn; lia).
    assert (Hn : nth_error E (length t) = Some lst).
    { rewrite HE, nth_error_app2; rewrite rev_length; [|lia]. now rewrite Nat.sub_diag. }
    destruct (Hw _ _ Hn) as (_ & _ & [H0|(_ & _ & Hp)]); [lia|].
    replace (N.to_nat (nE E - 1)) with (length (rev t)) by (unfold nE; rewrite rev_length; lia).
    clear Hn Hlen. rewrite HE. rewrite firstn_app, firstn_all, Nat.sub_diag. cbn [firstn]. rewrite app_nil_r.
    rewrite flat_map_app. cbn. now rewrite Hp, !app_nil_r.
Qed.

Notation run_written := (run_written s sid).

Lemma run_payload ls : forall y y' os E Rd,
  run y ls = (y', os) -> WF y -> PD y E Rd [] -> fresh_run y ls ->
  nE (E ++ run_frames os) + 2 < two64 ->
  flat_map w_pay (run_frames os) = run_written ls os.
Proof.
  induction ls as [|[l ch] t IH]; intros y y' os E Rd H Hwf Hpd Hfr Hb; cbn in H.
  - injection H as <- <-. reflexivity.
  - destruct (step y l ch) as [y1 o1] eqn:Es. destruct (run y1 t) as [y2 os2] eqn:Er. injection H as <- <-.
    cbn [run_frames MuxPay.run_written]. rewrite flat_map_app. cbn [run_frames] in Hb. rewrite app_assoc in Hb.
    destruct Hfr as [Hf1 Hf2]. rewrite Es in Hf2. cbn [fst] in Hf2.
    assert (Hw0 : forall q w, sview y = Some (q, w, false) -> w = 0).
    { intros q w Hsv. destruct Hpd as (_ & Hs & _). destruct (Hs _ _ Hsv) as (_ & -> & _). reflexivity. }
    rewrite (step_payload s sid _ _ _ _ _ Es Hwf Hw0). f_equal.
    assert (Hb1 : nE (E ++ ev_frames o1) + 2 < two64).
    { pose proof (nE_app_le E (ev_frames o1) (run_frames os2)). rewrite <- app_assoc in Hb. lia. }
    eapply (IH y1); [exact Er|eapply step_WF; eauto|eapply PD_label; eauto|exact Hf2|exact Hb].
Qed.
End Data.

(* ---- statements over every label sequence from the initial state ---- *)
Section Reach.
Variables (k : nat) (sp : bool) (u : N) (ta tb : Z).

Definition outputs (ls : list (label * list N)) : list (list ev) := snd (run (init k sp u ta tb) ls).

Theorem reach_PD s sid ls :
  fresh_run (init k sp u ta tb) ls ->
  nE (run_frames s sid (outputs ls)) + 2 < two64 ->
  PD s sid (reach k sp u ta tb ls) (run_frames s sid (outputs ls)) (run_reads s sid ls (outputs ls)) [].
Proof.
  intros Hf Hb. unfold reach, outputs in *. destruct (run (init k sp u ta tb) ls) as [y os] eqn:Er. cbn [fst snd] in *.
  pose proof (PD_run s sid ls _ _ _ [] [] Er (init_WF _ _ _ _ _) (PD_init s sid _ _ _ _ _) Hf) as H.
  cbn [app] in H. apply H. exact Hb.
Qed.

(* C13: in each direction of each stream the frames put on the wire are numbered 0,1,2,... in
   emission order, each number once; a closing frame, if any, is the last one *)
Theorem frames_numbered s sid ls :
  fresh_run (init k sp u ta tb) ls ->
  nE (run_frames s sid (outputs ls)) + 2 < two64 ->
  forall i fr, nth_error (run_frames s sid (outputs ls)) i = Some fr ->
    w_seq fr = N.of_nat i /\ w_sid fr = sid /\
    (w_cl fr = 0 \/ (w_cl fr = 1 /\ S i = length (run_frames s sid (outputs ls)) /\ w_pay fr = [])).
Proof. intros Hf Hb. eapply PD_numbering. apply reach_PD; assumption. Qed.

(* C01 / C12 (prefix part): whatever happens - any arrival order across connections, faults,
   closes by anybody, timers - what the reader of a stream has been given is a prefix of the bytes
   the data frames of the writer carry, in order *)
Theorem reads_are_prefix s sid ls :
  fresh_run (init k sp u ta tb) ls ->
  nE (run_frames s sid (outputs ls)) + 2 < two64 ->
  exists tail, data_bytes (run_frames s sid (outputs ls)) = run_reads s sid ls (outputs ls) ++ tail.
Proof. intros Hf Hb. eapply PD_read_prefix; [apply reach_PD; assumption|lia]. Qed.

(* C13 / C01: the data frames of a direction carry, in emission order, exactly the bytes the
   writes on that stream reported as accepted *)
Theorem frames_carry_written s sid ls :
  fresh_run (init k sp u ta tb) ls ->
  nE (run_frames s sid (outputs ls)) + 2 < two64 ->
  data_bytes (run_frames s sid (outputs ls)) = run_written s sid ls (outputs ls).
Proof.
  intros Hf Hb. pose proof (reach_PD s sid ls Hf Hb) as Hpd.
  rewrite (data_bytes_all sid); [|destruct Hpd as (Hw & _); exact Hw].
  unfold outputs in *. destruct (run (init k sp u ta tb) ls) as [y os] eqn:Er. cbn [snd] in *.
  eapply (run_payload s sid ls _ _ _ [] []); [exact Er|apply init_WF|apply PD_init|exact Hf|exact Hb].
Qed.

(* C01: what the reader of a stream has been given is a prefix of what the writer's writes accepted *)
Theorem reads_prefix_of_written s sid ls :
  fresh_run (init k sp u ta tb) ls ->
  nE (run_frames s sid (outputs ls)) + 2 < two64 ->
  exists tail, run_written s sid ls (outputs ls) = run_reads s sid ls (outputs ls) ++ tail.
Proof.
  intros Hf Hb. rewrite <- (frames_carry_written s sid ls Hf Hb). apply reads_are_prefix; assumption.
Qed.
End Reach.
