(* Facts about the TLS grammar and the ClientHello composer of Model/HelloGrammar.v. *)
From Coq Require Import NArith ZArith List Bool Arith Lia ZifyN ZifyNat ZifyBool.
From Cloak Require Import Model.HelloGrammar.
Import ListNotations.
Local Open Scope N_scope.

Ltac Zify.zify_post_hook ::= Z.div_mod_to_equations.

(* ------------------------------------------------------------------------------ basics *)
Lemma g_take_app : forall a b, g_take (length a) (a ++ b) = Some (a, b).
Proof.
  intros a b. unfold g_take. rewrite app_length.
  replace (length a <=? length a + length b)%nat with true by (symmetry; apply Nat.leb_le; lia).
  rewrite firstn_app, Nat.sub_diag, firstn_all. cbn [firstn]. rewrite app_nil_r.
  rewrite skipn_app, Nat.sub_diag, skipn_all. reflexivity.
Qed.

Lemma g_take_app_n : forall n a b, n = length a -> g_take n (a ++ b) = Some (a, b).
Proof. intros; subst; apply g_take_app. Qed.

Lemma g_take_spec : forall n l a b, g_take n l = Some (a, b) -> l = a ++ b /\ length a = n.
Proof.
  intros n l a b H. unfold g_take in H. destruct (n <=? length l)%nat eqn:E; [|discriminate].
  inversion H; subst. split. symmetry; apply firstn_skipn.
  apply firstn_length_le. apply Nat.leb_le; exact E.
Qed.

Lemma lenN_app : forall a b, lenN (a ++ b) = lenN a + lenN b.
Proof. intros. unfold lenN. rewrite app_length. lia. Qed.
Lemma lenN_cons : forall x l, lenN (x :: l) = 1 + lenN l.
Proof. intros. unfold lenN. cbn [length]. lia. Qed.
Lemma lenN_nil : lenN [] = 0.
Proof. reflexivity. Qed.
Lemma to_nat_lenN : forall l, N.to_nat (lenN l) = length l.
Proof. intros. unfold lenN. lia. Qed.

Lemma u16_dec : forall x, x < 65536 -> (x / 256) mod 256 * 256 + x mod 256 = x.
Proof. intros. lia. Qed.
Lemma u24_dec : forall x, x < 16777216 ->
  (x / 65536) mod 256 * 65536 + (x / 256) mod 256 * 256 + x mod 256 = x.
Proof. intros. lia. Qed.
Lemma u8_dec : forall x, x < 256 -> x mod 256 = x.
Proof. intros. lia. Qed.

Lemma g_bytes_eqb_refl : forall a, g_bytes_eqb a a = true.
Proof. induction a; cbn [g_bytes_eqb]; [reflexivity|]. rewrite N.eqb_refl, IHa. reflexivity. Qed.
Lemma g_bytes_eqb_eq : forall a b, g_bytes_eqb a b = true -> a = b.
Proof.
  induction a as [|x a IH]; destruct b as [|y b]; cbn [g_bytes_eqb]; intros H; try discriminate; [reflexivity|].
  apply andb_prop in H. destruct H as [H1 H2]. apply N.eqb_eq in H1. subst. f_equal. apply IH; exact H2.
Qed.

(* ------------------------------------------------------------------------------ records *)
Lemma parse_record_enc : forall r rest,
  r_ver r < 65536 -> lenN (r_body r) < 65536 ->
  parse_record (enc_record r ++ rest) = Some (r, rest).
Proof.
  intros [t v body] rest Hv Hl. cbn [r_ver r_body] in *.
  unfold enc_record, u16. cbn [r_type r_ver r_body app]. unfold parse_record.
  rewrite (u16_dec _ Hl), to_nat_lenN, g_take_app, (u16_dec _ Hv). reflexivity.
Qed.

Lemma parse_record_shrinks : forall l r rest, parse_record l = Some (r, rest) -> (length rest + 5 <= length l)%nat.
Proof.
  intros l r rest H. unfold parse_record in H.
  destruct l as [|t [|v1 [|v0 [|l1 [|l0 tl]]]]]; try discriminate.
  destruct (g_take _ tl) as [[b r']|] eqn:E; [|discriminate]. inversion H; subst.
  apply g_take_spec in E. destruct E as [E _]. subst tl. cbn [length]. rewrite app_length. lia.
Qed.

Lemma parse_records_fuel_enough : forall f l f', (length l <= f)%nat -> (length l <= f')%nat ->
  parse_records_fuel f l = parse_records_fuel f' l.
Proof.
  induction f as [|f IH]; intros l f' H1 H2.
  - destruct l; [|cbn [length] in H1; lia]. destruct f'; reflexivity.
  - destruct l as [|x l]; [destruct f'; reflexivity|].
    destruct f' as [|f']; [cbn [length] in H2; lia|].
    cbn [parse_records_fuel]. destruct (parse_record (x :: l)) as [[r rest]|] eqn:E; [|reflexivity].
    apply parse_record_shrinks in E. rewrite (IH rest f'); [reflexivity| |]; cbn [length] in *; lia.
Qed.

Lemma parse_records_nil : parse_records [] = Some [].
Proof. reflexivity. Qed.

Lemma parse_records_step : forall l r rest, parse_record l = Some (r, rest) ->
  parse_records l = match parse_records rest with Some rs => Some (r :: rs) | None => None end.
Proof.
  intros l r rest E. unfold parse_records.
  pose proof (parse_record_shrinks _ _ _ E) as Hs.
  destruct l as [|x l]; [cbn [length] in Hs; lia|].
  cbn [length parse_records_fuel]. rewrite E.
  rewrite (parse_records_fuel_enough (length l) rest (length rest)); [reflexivity| |]; cbn [length] in Hs; lia.
Qed.

Lemma parse_records_cons : forall r rest,
  r_ver r < 65536 -> lenN (r_body r) < 65536 ->
  parse_records (enc_record r ++ rest) =
  match parse_records rest with Some rs => Some (r :: rs) | None => None end.
Proof. intros. apply parse_records_step. apply parse_record_enc; assumption. Qed.

(* the stream of records written one after the other parses back to exactly these records *)
Lemma parse_records_concat : forall rs,
  Forall (fun r => r_ver r < 65536 /\ lenN (r_body r) < 65536) rs ->
  parse_records (concat (map enc_record rs)) = Some rs.
Proof.
  induction rs as [|r rs IH]; intros H; [reflexivity|].
  inversion H as [|? ? [Hv Hl] Hrest]; subst. cbn [map concat].
  rewrite parse_records_cons by assumption. rewrite IH by assumption. reflexivity.
Qed.

(* ------------------------------------------------------------------------------ TLV lists *)
Lemma parse_tlv_enc : forall e rest, tlv_fits e = true -> parse_tlv (enc_tlv e ++ rest) = Some (e, rest).
Proof.
  intros [t d] rest H. unfold tlv_fits in H. cbn [fst snd] in H.
  apply andb_prop in H. destruct H as [Ht Hd]. apply N.ltb_lt in Ht. apply N.ltb_lt in Hd.
  unfold enc_tlv, u16. cbn [fst snd app]. unfold parse_tlv.
  rewrite (u16_dec _ Hd), to_nat_lenN, g_take_app, (u16_dec _ Ht). reflexivity.
Qed.

Lemma parse_tlv_shrinks : forall l e rest, parse_tlv l = Some (e, rest) -> (length rest + 4 <= length l)%nat.
Proof.
  intros l e rest H. unfold parse_tlv in H.
  destruct l as [|t1 [|t0 [|l1 [|l0 tl]]]]; try discriminate.
  destruct (g_take _ tl) as [[b r']|] eqn:E; [|discriminate]. inversion H; subst.
  apply g_take_spec in E. destruct E as [E _]. subst tl. cbn [length]. rewrite app_length. lia.
Qed.

Lemma parse_tlvs_fuel_enough : forall f l f', (length l <= f)%nat -> (length l <= f')%nat ->
  parse_tlvs_fuel f l = parse_tlvs_fuel f' l.
Proof.
  induction f as [|f IH]; intros l f' H1 H2.
  - destruct l; [|cbn [length] in H1; lia]. destruct f'; reflexivity.
  - destruct l as [|x l]; [destruct f'; reflexivity|].
    destruct f' as [|f']; [cbn [length] in H2; lia|].
    cbn [parse_tlvs_fuel]. destruct (parse_tlv (x :: l)) as [[r rest]|] eqn:E; [|reflexivity].
    apply parse_tlv_shrinks in E. rewrite (IH rest f'); [reflexivity| |]; cbn [length] in *; lia.
Qed.

Lemma parse_tlvs_step : forall l e rest, parse_tlv l = Some (e, rest) ->
  parse_tlvs l = match parse_tlvs rest with Some es => Some (e :: es) | None => None end.
Proof.
  intros l e rest E. unfold parse_tlvs.
  pose proof (parse_tlv_shrinks _ _ _ E) as Hs.
  destruct l as [|x l]; [cbn [length] in Hs; lia|].
  cbn [length parse_tlvs_fuel]. rewrite E.
  rewrite (parse_tlvs_fuel_enough (length l) rest (length rest)); [reflexivity| |]; cbn [length] in Hs; lia.
Qed.

Lemma parse_tlvs_enc : forall es, forallb tlv_fits es = true -> parse_tlvs (enc_tlvs es) = Some es.
Proof.
  induction es as [|e es IH]; intros H; [reflexivity|].
  cbn [forallb] in H. apply andb_prop in H. destruct H as [He Hes].
  unfold enc_tlvs. cbn [flat_map]. rewrite (parse_tlvs_step _ e (flat_map enc_tlv es)).
  - fold (enc_tlvs es). rewrite IH by exact Hes. reflexivity.
  - apply parse_tlv_enc; exact He.
Qed.

Lemma enc_tlvs_app : forall a b, enc_tlvs (a ++ b) = enc_tlvs a ++ enc_tlvs b.
Proof. intros. unfold enc_tlvs. apply flat_map_app. Qed.

(* a successful TLV parse splits the string exactly *)
Lemma parse_tlv_inv : forall l e rest, parse_tlv l = Some (e, rest) ->
  exists t1 t0 l1 l0, l = [t1; t0; l1; l0] ++ snd e ++ rest /\ fst e = t1 * 256 + t0 /\
                      length (snd e) = N.to_nat (l1 * 256 + l0).
Proof.
  intros l e rest H. unfold parse_tlv in H.
  destruct l as [|t1 [|t0 [|l1 [|l0 tl]]]]; try discriminate.
  destruct (g_take _ tl) as [[b r']|] eqn:E; [|discriminate]. inversion H; subst.
  apply g_take_spec in E. destruct E as [E1 E2]. subst tl.
  exists t1, t0, l1, l0. cbn [fst snd]. auto.
Qed.

Lemma assoc_app_notin : forall k a b, existsb (fun e => fst e =? k) a = false -> assoc k (a ++ b) = assoc k b.
Proof.
  induction a as [|[k' v] a IH]; intros b H; [reflexivity|].
  cbn [existsb fst] in H. apply orb_false_elim in H. destruct H as [H1 H2].
  cbn [app assoc]. rewrite N.eqb_sym, H1. apply IH; exact H2.
Qed.
Lemma assoc_head : forall k v l, assoc k ((k, v) :: l) = Some v.
Proof. intros. cbn [assoc]. rewrite N.eqb_refl. reflexivity. Qed.

(* ------------------------------------------------------------------------------ composer *)
Lemma parse_hello_body_compose : forall ver random sid suites comps es,
  ver < 65536 -> length random = 32%nat -> lenN sid < 256 -> lenN suites < 65536 -> lenN comps < 256 ->
  forallb tlv_fits es = true -> lenN (enc_tlvs es) < 65536 ->
  parse_hello_body (u16 ver ++ random ++ u8 (lenN sid) ++ sid ++ u16 (lenN suites) ++ suites ++
                    u8 (lenN comps) ++ comps ++ u16 (lenN (enc_tlvs es)) ++ enc_tlvs es)
  = Some (mkHello ver random sid suites comps es).
Proof.
  intros ver random sid suites comps es Hv Hr Hs Hcs Hcm Hes Hel.
  unfold parse_hello_body, u16, u8. cbn [app].
  rewrite (g_take_app_n 32 random) by (symmetry; exact Hr).
  rewrite (u8_dec _ Hs), to_nat_lenN, g_take_app.
  rewrite (u16_dec _ Hcs), to_nat_lenN, g_take_app.
  rewrite (u8_dec _ Hcm), to_nat_lenN, g_take_app.
  rewrite (u16_dec _ Hel), N.eqb_refl.
  rewrite parse_tlvs_enc by exact Hes. rewrite (u16_dec _ Hv). reflexivity.
Qed.

Lemma enc_tlvs_len_app : forall a b, lenN (enc_tlvs (a ++ b)) = lenN (enc_tlvs a) + lenN (enc_tlvs b).
Proof. intros. rewrite enc_tlvs_app, lenN_app. reflexivity. Qed.
Lemma enc_tlv_len : forall t d, lenN (enc_tlv (t, d)) = 4 + lenN d.
Proof. intros. unfold enc_tlv, u16. cbn [fst snd app]. rewrite !lenN_cons. lia. Qed.
Lemma enc_tlvs_single : forall e, enc_tlvs [e] = enc_tlv e.
Proof. intros. unfold enc_tlvs. cbn [flat_map]. apply app_nil_r. Qed.

Lemma mk_key_share_len : forall sk k,
  lenN (mk_key_share sk k) =
  2 + (lenN (enc_tlvs (sk_shares_before sk)) + (4 + lenN k + lenN (enc_tlvs (sk_shares_after sk)))).
Proof.
  intros. unfold mk_key_share. cbv zeta. rewrite lenN_app.
  change (lenN (u16 _)) with 2.
  rewrite !enc_tlvs_len_app, enc_tlvs_single, enc_tlv_len. lia.
Qed.

Lemma mk_exts_len : forall sk k,
  lenN (enc_tlvs (mk_exts sk k)) =
  lenN (enc_tlvs (sk_exts_before sk)) + (4 + lenN (mk_key_share sk k) + lenN (enc_tlvs (sk_exts_after sk))).
Proof. intros. unfold mk_exts. rewrite !enc_tlvs_len_app, enc_tlvs_single, enc_tlv_len. lia. Qed.

Lemma mk_hello_body_len : forall sk r s k,
  lenN (mk_hello_body sk r s k) =
  2 + lenN r + 1 + lenN s + 2 + lenN (sk_suites sk) + 1 + lenN (sk_comps sk) + 2 + lenN (enc_tlvs (mk_exts sk k)).
Proof.
  intros. unfold mk_hello_body, u16, u8. cbv zeta. cbn [app].
  repeat first [rewrite lenN_cons | rewrite lenN_app]. lia.
Qed.

Lemma lenN_repeat : forall (x : N) n, lenN (repeat x n) = N.of_nat n.
Proof. intros. unfold lenN. rewrite repeat_length. reflexivity. Qed.

Lemma forallb_app_intro : forall (f : N * list N -> bool) a b, forallb f a = true -> forallb f b = true -> forallb f (a ++ b) = true.
Proof. intros. rewrite forallb_app. rewrite H, H0. reflexivity. Qed.

Record wf_skeleton_facts (sk : skeleton) : Prop := {
  wsf_eb : forallb tlv_fits (sk_exts_before sk) = true;
  wsf_ea : forallb tlv_fits (sk_exts_after sk) = true;
  wsf_sb : forallb tlv_fits (sk_shares_before sk) = true;
  wsf_sa : forallb tlv_fits (sk_shares_after sk) = true;
  wsf_no29 : existsb (fun e => fst e =? group_x25519) (sk_shares_before sk) = false;
  wsf_no51 : existsb (fun e => fst e =? ext_key_share) (sk_exts_before sk) = false;
  wsf_suites : lenN (sk_suites sk) < 65536;
  wsf_comps : lenN (sk_comps sk) < 256;
  wsf_entries : lenN (enc_tlvs (sk_shares_before sk ++ [(group_x25519, repeat 0 32)] ++ sk_shares_after sk)) < 65534;
  wsf_total : lenN (mk_hello_body sk (repeat 0 32) (repeat 0 32) (repeat 0 32)) < 65532 }.

Lemma wf_skeleton_unfold : forall sk, wf_skeleton sk = true -> wf_skeleton_facts sk.
Proof.
  intros sk H. unfold wf_skeleton in H.
  repeat (apply andb_prop in H; let H' := fresh "H" in destruct H as [H H']).
  constructor; try assumption.
  - apply negb_true_iff; assumption.
  - apply negb_true_iff; assumption.
  - apply N.ltb_lt; assumption.
  - apply N.ltb_lt; assumption.
  - apply N.ltb_lt; assumption.
  - apply N.ltb_lt; assumption.
Qed.

(* the composed ClientHello parses, and the three fields are found where they were put *)
Lemma parse_mk_client_hello : forall sk r s k, wf_skeleton sk = true ->
  length r = 32%nat -> length s = 32%nat -> length k = 32%nat ->
  parse_client_hello (mk_client_hello sk r s k)
  = Some (mkHello 0x0303 r s (sk_suites sk) (sk_comps sk) (mk_exts sk k)).
Proof.
  intros sk r s k Hwf Hr Hs Hk. apply wf_skeleton_unfold in Hwf. destruct Hwf.
  assert (Lr : lenN r = 32) by (unfold lenN; rewrite Hr; reflexivity).
  assert (Ls : lenN s = 32) by (unfold lenN; rewrite Hs; reflexivity).
  assert (Lk : lenN k = 32) by (unfold lenN; rewrite Hk; reflexivity).
  rewrite mk_hello_body_len, mk_exts_len, mk_key_share_len, !lenN_repeat in wsf_total0.
  rewrite !enc_tlvs_len_app, enc_tlvs_single, enc_tlv_len, lenN_repeat in wsf_entries0.
  assert (Hks : lenN (mk_key_share sk k) < 65536) by (rewrite mk_key_share_len, Lk; lia).
  assert (Hfits : forallb tlv_fits (mk_exts sk k) = true).
  { unfold mk_exts. apply forallb_app_intro; [assumption|]. apply forallb_app_intro; [|assumption].
    cbn [forallb tlv_fits fst snd]. rewrite andb_true_r. apply andb_true_intro. split; [reflexivity|].
    apply N.ltb_lt. exact Hks. }
  assert (Hel : lenN (enc_tlvs (mk_exts sk k)) < 65536) by (rewrite mk_exts_len, mk_key_share_len, Lk; lia).
  assert (Hbody : lenN (mk_hello_body sk r s k) < 65532).
  { rewrite mk_hello_body_len, mk_exts_len, mk_key_share_len, Lr, Ls, Lk. lia. }
  unfold mk_client_hello, parse_client_hello. cbv zeta.
  rewrite <- (app_nil_r (enc_record _)).
  rewrite parse_record_enc.
  2:{ cbn [r_ver]. lia. }
  2:{ cbn [r_body]. unfold u24. cbn [app]. rewrite !lenN_cons. lia. }
  unfold hello_of_record. cbn [r_type r_ver r_body]. change ((22 =? 22) && (769 =? 769)) with true. cbv iota.
  unfold u24. cbn [app].
  rewrite u24_dec by lia. rewrite N.eqb_refl.
  unfold mk_hello_body. cbv zeta.
  rewrite parse_hello_body_compose; try assumption; try lia.
  reflexivity.
Qed.

Lemma hello_share_mk : forall sk k, wf_skeleton sk = true -> length k = 32%nat ->
  hello_share (mkHello 0x0303 (repeat 0 0) (repeat 0 0) (sk_suites sk) (sk_comps sk) (mk_exts sk k)) = Some k.
Proof.
  intros sk k Hwf Hk. apply wf_skeleton_unfold in Hwf. destruct Hwf.
  assert (Lk : lenN k = 32) by (unfold lenN; rewrite Hk; reflexivity).
  rewrite !enc_tlvs_len_app, enc_tlvs_single, enc_tlv_len, lenN_repeat in wsf_entries0.
  unfold hello_share. cbn [h_exts]. unfold mk_exts.
  rewrite assoc_app_notin by assumption. cbn [app]. rewrite assoc_head.
  unfold x25519_share, key_share_entries, mk_key_share, u16. cbv zeta. cbn [app].
  set (ents := sk_shares_before sk ++ (group_x25519, k) :: sk_shares_after sk).
  assert (Hlen : lenN (enc_tlvs ents) < 65536).
  { unfold ents. change ((group_x25519, k) :: sk_shares_after sk) with ([(group_x25519, k)] ++ sk_shares_after sk).
    rewrite !enc_tlvs_len_app, enc_tlvs_single, enc_tlv_len, Lk. lia. }
  rewrite (u16_dec _ Hlen), N.eqb_refl.
  rewrite parse_tlvs_enc.
  2:{ unfold ents. apply forallb_app_intro; [assumption|]. cbn [forallb]. rewrite wsf_sa0, andb_true_r.
      unfold tlv_fits. cbn [fst snd]. rewrite Lk. reflexivity. }
  unfold ents. rewrite assoc_app_notin by assumption. rewrite assoc_head. rewrite Hk. reflexivity.
Qed.

Lemma locate_mk_client_hello : forall sk r s k, wf_skeleton sk = true ->
  length r = 32%nat -> length s = 32%nat -> length k = 32%nat ->
  locate_fields (mk_client_hello sk r s k) = Some (r, s, k).
Proof.
  intros sk r s k Hwf Hr Hs Hk. unfold locate_fields.
  rewrite parse_mk_client_hello by assumption.
  pose proof (hello_share_mk sk k Hwf Hk) as H. unfold hello_share in *. cbn [h_exts] in *. rewrite H.
  reflexivity.
Qed.

(* ------------------------------------------------------------------------------ inversion *)
Definition infix (a l : list N) : Prop := exists pre post, l = pre ++ a ++ post.
Lemma infix_trans : forall a b c, infix a b -> infix b c -> infix a c.
Proof.
  intros a b c (p1 & q1 & E1) (p2 & q2 & E2). subst. exists (p2 ++ p1), (q1 ++ q2).
  rewrite <- !app_assoc. reflexivity.
Qed.
Lemma infix_embed : forall a l pre post, infix a l -> infix a (pre ++ l ++ post).
Proof. intros a l pre post H. apply (infix_trans a l); [exact H|]. exists pre, post. reflexivity. Qed.

Lemma parse_tlvs_fuel_infix : forall fuel l es, parse_tlvs_fuel fuel l = Some es ->
  forall k v, assoc k es = Some v -> infix v l.
Proof.
  induction fuel as [|f IH]; intros l es H k v Ha.
  - destruct l; cbn [parse_tlvs_fuel] in H; [|discriminate]. inversion H; subst. discriminate.
  - destruct l as [|x l]; cbn [parse_tlvs_fuel] in H; [inversion H; subst; discriminate|].
    destruct (parse_tlv (x :: l)) as [[e rest]|] eqn:E; [|discriminate].
    destruct (parse_tlvs_fuel f rest) as [es'|] eqn:E'; [|discriminate]. inversion H; subst.
    destruct (parse_tlv_inv _ _ _ E) as (t1 & t0 & l1 & l0 & El & _ & _).
    destruct e as [t d]. cbn [assoc] in Ha. cbn [snd] in El.
    destruct (k =? t).
    + inversion Ha; subst. exists [t1; t0; l1; l0], rest. exact El.
    + rewrite El. pose proof (IH rest es' E' k v Ha) as Hi.
      apply (infix_embed v rest ([t1; t0; l1; l0] ++ d) []) in Hi.
      rewrite app_nil_r, <- app_assoc in Hi. exact Hi.
Qed.
Lemma parse_tlvs_infix : forall l es k v, parse_tlvs l = Some es -> assoc k es = Some v -> infix v l.
Proof. intros l es k v H Ha. exact (parse_tlvs_fuel_infix _ _ _ H k v Ha). Qed.

Lemma x25519_share_inv : forall d k, x25519_share d = Some k -> length k = 32%nat /\ infix k d.
Proof.
  intros d k H. unfold x25519_share, key_share_entries in H.
  destruct d as [|k1 [|k0 entries]]; try discriminate.
  destruct (k1 * 256 + k0 =? lenN entries); [|discriminate].
  destruct (parse_tlvs entries) as [ents|] eqn:E; [|discriminate].
  destruct (assoc group_x25519 ents) as [k'|] eqn:Ea; [|discriminate].
  destruct (length k' =? 32)%nat eqn:El; [|discriminate]. inversion H; subst.
  split; [apply Nat.eqb_eq; exact El|].
  apply (infix_trans k entries); [exact (parse_tlvs_infix _ _ _ _ E Ea)|].
  exists [k1; k0], []. rewrite app_nil_r. reflexivity.
Qed.

Lemma parse_hello_body_inv : forall rest h, parse_hello_body rest = Some h ->
  exists v1 v0 sl tail exts,
    rest = [v1; v0] ++ h_random h ++ [sl] ++ h_sid h ++ tail ++ exts /\
    length (h_random h) = 32%nat /\ length (h_sid h) = N.to_nat sl /\ parse_tlvs exts = Some (h_exts h).
Proof.
  intros rest h H. unfold parse_hello_body in H.
  destruct rest as [|v1 [|v0 rest1]]; try discriminate.
  destruct (g_take 32 rest1) as [[random [|sl rest2]]|] eqn:E1; try discriminate.
  destruct (g_take (N.to_nat sl) rest2) as [[sid [|c1 [|c0 rest3]]]|] eqn:E2; try discriminate.
  destruct (g_take (N.to_nat (c1 * 256 + c0)) rest3) as [[suites [|m rest4]]|] eqn:E3; try discriminate.
  destruct (g_take (N.to_nat m) rest4) as [[comps [|e1 [|e0 exts]]]|] eqn:E4; try discriminate.
  destruct (e1 * 256 + e0 =? lenN exts); [|discriminate].
  destruct (parse_tlvs exts) as [es|] eqn:E5; [|discriminate]. inversion H; subst. cbn [h_random h_sid h_exts].
  apply g_take_spec in E1. apply g_take_spec in E2. apply g_take_spec in E3. apply g_take_spec in E4.
  destruct E1 as [E1 L1], E2 as [E2 L2], E3 as [E3 L3], E4 as [E4 L4]. subst.
  exists v1, v0, sl, ([c1; c0] ++ suites ++ [m] ++ comps ++ [e1; e0]), exts.
  repeat split; try assumption. rewrite <- !app_assoc. reflexivity.
Qed.

Lemma parse_client_hello_inv : forall l h, parse_client_hello l = Some h ->
  exists pre sl tail exts,
    l = pre ++ h_random h ++ [sl] ++ h_sid h ++ tail ++ exts /\ length pre = 11%nat /\
    length (h_random h) = 32%nat /\ length (h_sid h) = N.to_nat sl /\ parse_tlvs exts = Some (h_exts h).
Proof.
  intros l h H. unfold parse_client_hello in H.
  destruct (parse_record l) as [[r rest]|] eqn:Er; [|discriminate]. destruct rest; [|discriminate].
  unfold hello_of_record in H.
  destruct ((r_type r =? 22) && (r_ver r =? 769)); [|discriminate].
  destruct (r_body r) as [|b0 body'] eqn:Eb; [discriminate|].
  destruct b0 as [|[p|p|]]; try discriminate.
  destruct body' as [|n2 [|n1 [|n0 rest]]]; try discriminate.
  destruct (n2 * 65536 + n1 * 256 + n0 =? lenN rest); [|discriminate].
  destruct (parse_hello_body_inv rest h H) as (v1 & v0 & sl & tail & exts & E & L1 & L2 & P).
  unfold parse_record in Er.
  destruct l as [|t [|w1 [|w0 [|l1 [|l0 tl]]]]]; try discriminate.
  destruct (g_take _ tl) as [[b r']|] eqn:Et; [|discriminate]. inversion Er; subst.
  apply g_take_spec in Et. destruct Et as [Et _]. rewrite app_nil_r in Et. subst tl.
  cbn [r_body] in Eb. subst b.
  exists [t; w1; w0; l1; l0; 1; n2; n1; n0; v1; v0], sl, tail, exts.
  repeat split; try assumption; reflexivity.
Qed.

Lemma skipn_app_exact : forall n (a b : list N), length a = n -> skipn n (a ++ b) = b.
Proof. intros n a b H. subst n. rewrite skipn_app, Nat.sub_diag, skipn_all. reflexivity. Qed.
Lemma firstn_app_exact : forall n (a b : list N), length a = n -> firstn n (a ++ b) = a.
Proof. intros n a b H. subst n. rewrite firstn_app, Nat.sub_diag, firstn_all. cbn [firstn]. apply app_nil_r. Qed.

Lemma wf_hello_inv : forall name h, wf_hello name h = true ->
  length (h_random h) = 32%nat /\ length (h_sid h) = 32%nat /\
  hello_server_name h = Some name /\ exists k, hello_share h = Some k.
Proof.
  intros name h H. unfold wf_hello in H.
  repeat (apply andb_prop in H; let H' := fresh "W" in destruct H as [H H']).
  destruct (hello_server_name h) as [n|]; [|discriminate].
  destruct (hello_share h) as [k|]; [|discriminate].
  repeat match goal with Hx : g_bytes_eqb _ _ = true |- _ => apply g_bytes_eqb_eq in Hx; subst end.
  repeat match goal with Hx : (_ =? _)%nat = true |- _ => apply Nat.eqb_eq in Hx end.
  repeat split; try assumption. exists k. reflexivity.
Qed.

(* THE statement of C10 about the client's first flight: a well-formed hello carries the expected server
   name, a 32-byte random at offset 11, the session-id length byte 32 at offset 43, the 32-byte session
   id at offset 44, and a 32-byte x25519 share inside its key_share extension - the three fields are the
   ones the locator returns (and the ones the composer was given: locate_mk_client_hello) *)
Lemma wf_hello_fields : forall name l, wf_client_hello name l = true ->
  exists r s k,
    locate_fields l = Some (r, s, k) /\ server_name_of l = Some name /\
    length r = 32%nat /\ length s = 32%nat /\ length k = 32%nat /\
    firstn 32 (skipn 11 l) = r /\ nth 43 l 0 = 32 /\ firstn 32 (skipn 44 l) = s /\ infix k l.
Proof.
  intros name l H. unfold wf_client_hello in H.
  destruct (parse_client_hello l) as [h|] eqn:Eh; [|discriminate].
  destruct (wf_hello_inv name h H) as (W6 & W5 & En & k & Ek).
  destruct (parse_client_hello_inv l h Eh) as (pre & sl & tail & exts & El & Lpre & Lr & Ls & Pe).
  exists (h_random h), (h_sid h), k.
  unfold locate_fields, server_name_of. rewrite Eh, Ek, En.
  unfold hello_share in Ek. destruct (assoc ext_key_share (h_exts h)) as [d|] eqn:Ea; [|discriminate].
  destruct (x25519_share_inv d k Ek) as [Lk Ik].
  assert (Hsl : sl = 32) by lia. subst sl.
  repeat split; try assumption.
  - rewrite El. rewrite (skipn_app_exact 11 pre) by exact Lpre. apply firstn_app_exact. exact W6.
  - rewrite El. rewrite app_assoc. rewrite app_nth2; rewrite app_length, Lpre, W6; [|lia]. reflexivity.
  - rewrite El. rewrite (app_assoc pre), (app_assoc (pre ++ h_random h)).
    rewrite (skipn_app_exact 44) by (rewrite !app_length, Lpre, W6; reflexivity).
    apply firstn_app_exact. exact W5.
  - apply (infix_trans k d); [exact Ik|]. apply (infix_trans d exts); [exact (parse_tlvs_infix _ _ _ _ Pe Ea)|].
    exists (pre ++ h_random h ++ [32] ++ h_sid h ++ tail), []. rewrite El, app_nil_r, <- !app_assoc. reflexivity.
Qed.
