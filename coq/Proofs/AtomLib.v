(* Boolean deciders over coq/Gen/Atomicity.v, the terms tools/lockscan extracts from /repo on
   every run (critical sections with the events inside them, sync/atomic operations, uses of a
   pooled object after Put, variables shared with goroutines).  The files Proofs/Atom*.v state,
   with these deciders, which code regions the hand-written models treat as ONE atomic step;
   each statement is closed by [vm_compute], so a source change that splits such a region
   breaks the proof on the next run.  Nothing here mentions a particular function of /repo. *)
From Coq Require Import String List Bool Arith.
From Cloak Require Import Gen.Atomicity.
Import ListNotations.
Local Open Scope string_scope.

(* an event: (kind, name); kinds r val w set del addr call go atomic wait *)
Definition ev : Type := (string * string)%type.
Definition seqb := String.eqb.

(* a read: "r" = indexed / ranged over / measured / receiver of a call / path to a sub-field,
   "val" = the value itself is handed on (for a map, slice or pointer: an alias is created) *)
Definition is_read (v : string) (e : ev) : bool := (seqb (fst e) "r" || seqb (fst e) "val") && seqb (snd e) v.
(* a store ("w" element store, ++, op=, copy into; "set" the whole field is assigned; "del"
   delete / clear), or the address being taken (it may then be written through the pointer) *)
Definition is_write (v : string) (e : ev) : bool :=
  (seqb (fst e) "w" || seqb (fst e) "set" || seqb (fst e) "del" || seqb (fst e) "addr") && seqb (snd e) v.
Definition is_access (v : string) (e : ev) : bool := is_read v e || is_write v e.
Definition is_call (c : string) (e : ev) : bool := seqb (fst e) "call" && seqb (snd e) c.
Definition is_atomic (v : string) (e : ev) : bool := seqb (fst e) "atomic" && seqb (snd e) v.
Definition is_wait (e : ev) : bool := seqb (fst e) "wait".
Definition any_of (ps : list (ev -> bool)) (e : ev) : bool := existsb (fun p => p e) ps.

Definition count (p : ev -> bool) (l : list ev) : nat := length (filter p l).

(* every event of function f, in program order *)
Definition events_of (f : string) : list ev :=
  flat_map (fun x : string * list ev => if seqb (fst x) f then snd x else []) fn_events.
(* the events of f that happen with no lock taken in f *)
Definition outside_of (f : string) : list ev :=
  flat_map (fun x : string * list ev => if seqb (fst x) f then snd x else []) outside.
(* the critical sections of mutex m in function f: (mode, Lock site index, events inside) *)
Definition regions_of (f m : string) : list (string * nat * list ev) :=
  flat_map (fun r : string * string * string * nat * list ev =>
              let '(f', m', mode, i, evs) := r in
              if seqb f f' && seqb m m' then [(mode, i, evs)] else []) regions.

(* ALL events of f selected by sel lie in ONE critical section of m: that section *)
Definition the_block (f m : string) (sel : ev -> bool) : option (string * list ev) :=
  match filter (fun r : string * nat * list ev => existsb sel (snd r)) (regions_of f m) with
  | [(mode, _, evs)] =>
      if Nat.eqb (count sel evs) (count sel (events_of f)) then Some (mode, evs) else None
  | _ => None
  end.

(* "these things happen in one atomic step": every selector of [must] occurs in f, all
   occurrences of all of them lie in one and the same critical section of m, which is
   exclusive (Lock, not RLock) and is not interrupted by a sync.Cond.Wait; the selectors of
   [also] occur in that section too (they may occur elsewhere as well, e.g. a check that is
   repeated under the lock). *)
Definition one_step_gen (waits : bool) (f m : string) (must also : list (ev -> bool)) : bool :=
  match the_block f m (any_of must) with
  | Some (mode, evs) =>
      seqb mode "Lock" && forallb (fun p => existsb p evs) (must ++ also)
      && (waits || negb (existsb is_wait evs))
  | None => false
  end.
Definition one_step := one_step_gen false.
(* the same for the condition-variable pipes, whose loops re-check after every Wait *)
Definition one_step_with_wait := one_step_gen true.

(* every occurrence of sel in f is inside some critical section of m (any mode), and there is one *)
Definition always_under (f m : string) (sel : ev -> bool) : bool :=
  let inside := fold_right (fun (r : string * nat * list ev) n => count sel (snd r) + n) 0 (regions_of f m) in
  negb (Nat.eqb inside 0) && Nat.eqb inside (count sel (events_of f)).

(* sel occurs in f and only with no lock held *)
Definition never_locked (f : string) (sel : ev -> bool) : bool :=
  negb (Nat.eqb (count sel (events_of f)) 0) && Nat.eqb (count sel (outside_of f)) (count sel (events_of f)).

(* m is certainly held whenever f is entered (all in-package call sites hold it) *)
Definition entry_holds (f m : string) : bool :=
  existsb (fun x : string * list string => seqb (fst x) f && existsb (seqb m) (snd x)) fn_entry.

(* ---- sync/atomic ---- *)
Fixpoint strs_eqb (a b : list string) : bool :=
  match a, b with
  | [], [] => true
  | x :: a', y :: b' => seqb x y && strs_eqb a' b'
  | _, _ => false
  end.

(* the atomic operations on field fld in the functions of package pkg ("multiplex."): (function, op, args) *)
Definition ops_on (pkg fld : string) : list (string * string * list string) :=
  flat_map (fun a : string * string * string * list string =>
              let '(fl, fn, op, args) := a in
              if seqb fl fld && prefix pkg fn then [(fn, op, args)] else []) atomics.

(* no function of the package reads, writes or takes the address of the field other than
   through sync/atomic *)
Definition no_plain_access (pkg fld : string) : bool :=
  forallb (fun fe : string * list ev =>
             negb (prefix pkg (fst fe)) || negb (existsb (is_access fld) (snd fe))) fn_events.

(* a one-shot flag: only ever loaded, or set by CompareAndSwap(0 -> 1), and that at least once *)
Definition one_shot_flag (pkg fld : string) : bool :=
  let ops := ops_on pkg fld in
  forallb (fun o : string * string * list string =>
             let '(_, op, args) := o in
             seqb op "Load" || (seqb op "CompareAndSwap" && strs_eqb args ["0"; "1"])) ops
  && existsb (fun o : string * string * list string => seqb (snd (fst o)) "CompareAndSwap") ops
  && no_plain_access pkg fld.

(* a counter touched by the listed atomic operations only, and by at least one *)
Definition only_ops (pkg fld : string) (allowed : list string) : bool :=
  let ops := ops_on pkg fld in
  forallb (fun o : string * string * list string => existsb (seqb (snd (fst o))) allowed) ops
  && negb (Nat.eqb (length ops) 0)
  && no_plain_access pkg fld.

(* ---- sync.Pool ---- *)
Definition puts_of (f : string) : list nat :=
  flat_map (fun p : string * string * string * string * nat =>
              let '(f', _, _, _, n) := p in if seqb f f' then [n] else []) pool_uses.
(* does t end in s *)
Definition ends_with (s t : string) : bool :=
  Nat.leb (String.length s) (String.length t)
  && seqb (substring (String.length t - String.length s) (String.length s) t) s.
Definition is_put_call (e : ev) : bool := seqb (fst e) "call" && ends_with ".Put" (snd e).
(* whatever f returns to a pool it never mentions afterwards.  A function without any Put (no
   pool at all: the object is allocated per call) satisfies this; what is NOT accepted is a call
   of some .Put(..) that the scanner did not recognise as a sync.Pool.Put (then nothing would
   have been counted): every such call of f must be one of the recorded ones. *)
Definition put_is_last_use (f : string) : bool :=
  Nat.eqb (count is_put_call (events_of f)) (length (puts_of f)) && forallb (Nat.eqb 0) (puts_of f).
Definition no_use_after_put_anywhere : bool :=
  forallb (fun p : string * string * string * string * nat => let '(_, _, _, _, n) := p in Nat.eqb n 0) pool_uses
  && forallb (fun fe : string * list ev =>
                Nat.eqb (count is_put_call (snd fe)) (length (puts_of (fst fe)))) fn_events.

(* ---- goroutines ---- *)
(* types that are byte buffers or might be (unknown) *)
Definition buffer_like (kind typ : string) : bool :=
  existsb (seqb kind) ["slice"; "array"; "ptr-slice"; "ptr-array"; "?"]
  || existsb (seqb typ) ["bytes.Buffer"; "*bytes.Buffer"].
(* no goroutine shares a buffer with its spawner or its siblings: whatever buffer-like
   variable a go statement refers to is declared inside the loop iteration (or function
   literal) that executes the go statement, i.e. is fresh for that goroutine *)
Definition goroutines_own_their_buffers : bool :=
  forallb (fun c : string * nat * string * string * string * string =>
             let '(_, _, _, kind, typ, where_) := c in
             seqb where_ "iteration" || negb (buffer_like kind typ)) goroutine_captures.
Definition spawns (f : string) : bool :=
  existsb (fun g : string * nat => seqb (fst g) f) go_statements.

(* no package-level variable is a byte buffer (it would be shared by every goroutine that
   runs the functions using it); [allowed] = reviewed exceptions, by name *)
Definition no_package_level_buffers (allowed : list string) : bool :=
  forallb (fun v : string * string * string =>
             let '(name, kind, typ) := v in
             negb (buffer_like kind typ) || existsb (seqb name) allowed) package_vars.

(* ---- who removes entries ---- *)
Definition mem_s (x : string) (l : list string) : bool := existsb (seqb x) l.
(* an entry can leave the container in field v: delete / clear, the field assigned anew, or
   its address handed out *)
Definition is_removal (v : string) (e : ev) : bool :=
  (seqb (fst e) "del" || seqb (fst e) "set" || seqb (fst e) "addr") && seqb (snd e) v.
(* in the functions of package pkg, entries of v are removed only by the functions listed,
   and each of them does remove *)
Definition removed_only_in (pkg v : string) (allowed : list string) : bool :=
  forallb (fun fe : string * list ev =>
             negb (prefix pkg (fst fe)) || mem_s (fst fe) allowed || negb (existsb (is_removal v) (snd fe))) fn_events
  && forallb (fun f => existsb (is_removal v) (events_of f)) allowed.
(* the container is never handed on as a value (no alias through which a callee, a local
   variable or another goroutine could remove or insert) *)
Definition never_aliased (pkg v : string) : bool :=
  forallb (fun fe : string * list ev =>
             negb (prefix pkg (fst fe)) || negb (existsb (fun e : ev => seqb (fst e) "val" && seqb (snd e) v) (snd fe))) fn_events.
(* every delete / clear in the package is on a struct field (not on a local map that might be
   an alias, not on something the scanner could not name) *)
Definition deletes_are_on_fields (pkg : string) : bool :=
  forallb (fun fe : string * list ev =>
             negb (prefix pkg (fst fe))
             || forallb (fun e : ev => negb (seqb (fst e) "del") || negb (prefix "local " (snd e) || prefix "?" (snd e))) (snd fe)) fn_events.
(* function f touches v only by reading and by element stores (it inserts / overwrites), and does store *)
Definition only_inserts (f v : string) : bool :=
  forallb (fun e : ev => negb (seqb (snd e) v) || seqb (fst e) "r" || seqb (fst e) "w") (events_of f)
  && existsb (fun e : ev => seqb (fst e) "w" && seqb (snd e) v) (events_of f).

(* ---- locks held across a blocking send vs. the receive path ---- *)
(* call_graph: callees that run before the caller continues, over functions and their bool
   specialisations; held_calls: (caller, mutex, callee) the mutex may be held while callee runs *)
Definition succs (k : string) : list string :=
  flat_map (fun x : string * list string => if seqb (fst x) k then snd x else []) call_graph.
Definition preds (k : string) : list string :=
  flat_map (fun x : string * list string => if mem_s k (snd x) then [fst x] else []) call_graph.
Fixpoint closure (next : string -> list string) (fuel : nat) (seen frontier : list string) : list string :=
  match fuel with
  | O => seen
  | S n => match frontier with
           | [] => seen
           | k :: rest => if mem_s k seen then closure next n seen rest
                          else closure next n (k :: seen) (next k ++ rest)
           end
  end.
(* each step consumes one frontier element; a node's successors are pushed once *)
Definition graph_fuel : nat := S (length call_graph + length (flat_map (fun x : string * list string => snd x) call_graph)) * 2.
Definition reachable_from (roots : list string) : list string := closure succs graph_fuel [] roots.
Definition reaching (targets : list string) : list string := closure preds graph_fuel [] targets.
(* the functions of the package that hand bytes to a connection: they contain the call [sink] *)
Definition sinks (pkg sink : string) : list string :=
  flat_map (fun fe : string * list ev =>
              if prefix pkg (fst fe) && existsb (is_call sink) (snd fe) then [fst fe] else []) fn_events.
(* S: the mutexes that may be held while such a function runs (somewhere down the call chain),
   or around the sink call itself *)
Definition held_across (pkg sink : string) : list string :=
  let rs := reaching (sinks pkg sink) in
  flat_map (fun h : string * string * string =>
              let '(caller, m, callee) := h in if prefix pkg caller && mem_s callee rs then [m] else []) held_calls
  ++ flat_map (fun r : string * string * string * nat * list ev =>
                 let '(f, m, _, _, evs) := r in if prefix pkg f && existsb (is_call sink) evs then [m] else []) regions.
Definition locks_of (k : string) : list string :=
  flat_map (fun x : string * list string => if seqb (fst x) k then snd x else []) node_locks
  ++ flat_map (fun x : string * list string => if seqb (fst x) k then snd x else []) fn_entry.
(* no function that can run on the path starting at [root] acquires (or is entered holding) a
   mutex that may be held across the blocking send *)
Definition path_avoids_send_locks (pkg sink root : string) : bool :=
  let s := held_across pkg sink in
  forallb (fun k => forallb (fun m => negb (mem_s m s)) (locks_of k)) (reachable_from [root]).
