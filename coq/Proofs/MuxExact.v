(* C03, exactness: on a healthy session, if the reader's end of a stream is closed and the reader did
   not close it itself, then the writer has closed the stream and what the reader has read plus what
   still waits in its pipe is EXACTLY what the writer's writes accepted: never an early end, never
   a lost tail, whichever connections the data and the closing notice travelled on. *)
From Coq Require Import NArith ZArith List Bool Lia Sorting.Permutation.
From Coq Require Import ZifyN ZifyBool.
From Cloak Require Import Model.Reorder Model.Mux Proofs.Reorder Proofs.ReorderExt Proofs.MuxBase Proofs.MuxSafety
  Proofs.MuxView Proofs.MuxWire Proofs.MuxEffect Proofs.MuxPay Proofs.MuxData Proofs.MuxCalm Proofs.MuxCount
  Proofs.MuxUp Proofs.MuxCov Proofs.MuxOpen.
Import ListNotations.
Local Open Scope N_scope.

Section Exact.
Variable s : side.
Variable sid : N.
Variable k : nat.
Let o := other s.
Notation inflight := (inflight s sid).
Notation sview := (sview s sid).
Notation rview := (rview s sid).
Notation keep := (keep sid).
Notation vstep := (vstep s sid).
Notation vsteps := (vsteps s sid).
Notation PD := (PD s sid).
Notation wfE := (wfE sid).
Notation ev_frames := (ev_frames s sid).

Definition EX (y : sys) (E : list wframe) (Rd : list N) : Prop :=
  match rview y with
  | Some (rb, true) => cl_of E <> two64 /\ Rd ++ pipe rb = cat (FE E) 0 (N.to_nat (ndata E))
  | _ => True
  end.

Definition rclosed (y : sys) : Prop := exists rb, rview y = Some (rb, true).

Lemma rview_oa y : oa o sid y <-> ~ rclosed y.
Proof.
  unfold oa, rclosed, MuxView.rview. fold o. destruct (lookup sid (se_objs (sess y o))) as [st|]; cbn.
  - destruct (st_closed st); split; intros H; try discriminate; try reflexivity.
    + exfalso. apply H. eexists. reflexivity.
    + intros (rb & Hx). discriminate.
  - split; [intros _ (rb & Hx); discriminate|auto].
Qed.

(* once the writer has emitted its closing frame nothing more is emitted *)
Lemma wfE_final E l : wfE (E ++ l) -> cl_of E <> two64 -> l = [].
Proof.
  intros Hw Hc. unfold cl_of in Hc. destruct (rev E) as [|lst t] eqn:Er; [congruence|].
  destruct (w_cl lst =? 0) eqn:E0; [congruence|].
  assert (HE : E = rev t ++ [lst]) by (rewrite <- (rev_involutive E), Er; reflexivity).
  assert (Hn : nth_error (E ++ l) (length (rev t)) = Some lst).
  { rewrite HE, <- app_assoc. rewrite nth_error_app2 by lia. now rewrite Nat.sub_diag. }
  destruct (Hw _ _ Hn) as (_ & _ & [H0|(_ & Hlen & _)]); [lia|].
  rewrite HE, !app_length in Hlen. cbn in Hlen. destruct l; [reflexivity|cbn in Hlen; lia].
Qed.

(* ---- one action, on an already closed receiver ---- *)
Lemma EX_step b y a y' E Rd P :
  vstep b y a y' -> PD y E Rd P -> rclosed y -> EX y E Rd ->
  rclosed y' /\ EX y' (E ++ emitted [a]) (Rd ++ readout [a]).
Proof.
  intros Hv (Hw & Hs & Hn & Hg & Hnd & Hr) (rb0 & Hrv) Hex. unfold EX in Hex. rewrite Hrv in Hex. destruct Hex as [Hcl Hfull].
  assert (Hnoemit : forall q w, sview y = Some (q, w, false) -> False).
  { intros q w Hsv. destruct (Hs _ _ Hsv) as (_ & _ & Had). apply Hcl. now apply all_data_cl_of. }
  assert (Hsame : forall y2, rview y2 = rview y -> rclosed y2 /\ EX y2 (E ++ []) (Rd ++ [])).
  { intros y2 H2. split; [exists rb0; congruence|]. unfold EX. rewrite H2, Hrv, !app_nil_r. auto. }
  assert (Hrc : forall v, rclose (rview y) v -> v = rview y).
  { intros v [->|(rb & Ha & _)]; [reflexivity|]. rewrite Hrv in Ha. discriminate. }
  destruct Hv as [y y' (Hp & Hsc & Hrc')
                 |y y' q w pay Hs1 Hs2 Hp Hr2
                 |y y' q w Hs1 Hs2 Hp Hrc'
                 |y y' q w w' Hs1 Hs2 Hp Hrc'
                 |y y' l Hbt Hp Hs2 Hr2
                 |y y' fr rb c Hr1 Hr2 Hi2 Hs2
                 |y y' rb c kk d rb' Hr1 Hrd Hr2 Hi2 Hs2
                 |y y' Hs1 Hs2 Hi2 Hr2
                 |y y' Hr1 Hr2 Hi2 Hs2]; cbn [emitted readout flat_map app].
  - apply Hsame. now apply Hrc.
  - exfalso. eapply Hnoemit; eauto.
  - exfalso. eapply Hnoemit; eauto.
  - apply Hsame. now apply Hrc.
  - apply Hsame. exact Hr2.
  - (* a late frame reaches the closed re-sequencer: the pipe refuses it *)
    rewrite Hrv in Hr1. injection Hr1 as <- <-.
    assert (Hpc : pclosed rb0 = true).
    { rewrite Hrv in Hr. remember (Some (rb0, true)) as rv eqn:Ev.
      destruct Hr as [?|? ? ? ? ? ?|? ? ? ? ?|rbx kx Hp Hk Ho]; try discriminate. injection Ev as <-. exact Hp. }
    split; [eexists; exact Hr2|]. unfold EX. rewrite Hr2, !app_nil_r. split; [exact Hcl|].
    now rewrite (rb_write_closed_pipe _ _ Hpc).
  - (* read *)
    rewrite Hrv in Hr1. injection Hr1 as <- <-.
    split; [eexists; exact Hr2|]. unfold EX. rewrite Hr2, !app_nil_r. split; [exact Hcl|].
    unfold rb_read in Hrd. destruct (pipe rb0) as [|x p] eqn:Ep; [destruct (pclosed rb0); discriminate|].
    injection Hrd as <- <-. cbn [pipe]. rewrite <- app_assoc, firstn_skipn. exact Hfull.
  - exfalso. apply Hcl. rewrite (Hn Hs1). reflexivity.
  - rewrite Hrv in Hr1. discriminate.
Qed.

Lemma EX_steps_noarr b y acts y' : MuxView.vsteps s sid b y acts y' -> forall E Rd P,
  arrivals acts = [] -> PD y E Rd P -> rclosed y -> EX y E Rd -> nE (E ++ emitted acts) + 2 < two64 ->
  rclosed y' /\ EX y' (E ++ emitted acts) (Rd ++ readout acts).
Proof.
  induction 1 as [y|y a y1 l y2 Hstep Hrest IH]; intros E Rd P Ha Hpd Hc Hex Hb.
  - cbn. now rewrite !app_nil_r.
  - rewrite emitted_cons, readout_cons, !app_assoc.
    assert (Ha1 : match a with AArrive fr => False | _ => True end /\ arrivals l = []).
    { destruct a; cbn in Ha; try discriminate; auto. }
    destruct Ha1 as [Hna Hal].
    rewrite emitted_cons in Hb.
    assert (Hb1 : nE (E ++ emitted [a]) + 2 < two64) by (pose proof (nE_app_le E (emitted [a]) (emitted l)); lia).
    destruct (EX_step _ _ _ _ _ _ _ Hstep Hpd Hc Hex) as [Hc1 Hex1].
    apply (IH _ _ P); [exact Hal| |exact Hc1|exact Hex1|rewrite <- app_assoc; exact Hb].
    eapply PD_step; [exact Hstep|exact Hpd|exact Hb1|]. destruct a; try reflexivity. contradiction.
Qed.

Lemma EX_steps_arr b y acts y' : MuxView.vsteps s sid b y acts y' -> forall E Rd fr,
  arrivals acts = [fr] -> PD y E Rd [fr] -> rclosed y -> EX y E Rd -> nE (E ++ emitted acts) + 2 < two64 ->
  rclosed y' /\ EX y' (E ++ emitted acts) (Rd ++ readout acts).
Proof.
  induction 1 as [y|y a y1 l y2 Hstep Hrest IH]; intros E Rd fr Ha Hpd Hc Hex Hb.
  - discriminate.
  - rewrite emitted_cons, readout_cons, !app_assoc. rewrite emitted_cons in Hb.
    assert (Hb1 : nE (E ++ emitted [a]) + 2 < two64) by (pose proof (nE_app_le E (emitted [a]) (emitted l)); lia).
    destruct (EX_step _ _ _ _ _ _ _ Hstep Hpd Hc Hex) as [Hc1 Hex1].
    destruct a as [| | | | |f| | |]; cbn [arrivals flat_map app] in Ha;
      try (eapply (IH _ _ fr); [exact Ha| |exact Hc1|exact Hex1|rewrite <- app_assoc; exact Hb];
           eapply PD_step; [exact Hstep|exact Hpd|exact Hb1|reflexivity]).
    injection Ha as -> Hal.
    apply (EX_steps_noarr _ _ _ _ Hrest _ _ []); [exact Hal| |exact Hc1|exact Hex1|rewrite <- app_assoc; exact Hb].
    eapply PD_step; [exact Hstep|exact Hpd|exact Hb1|reflexivity].
Qed.

Lemma EX_same_view y y' E Rd : rview y' = rview y -> EX y E Rd -> EX y' E Rd.
Proof. unfold EX. now intros ->. Qed.

(* ---- the closing delivery: the frame that lets the re-sequencer report toBeClosed ---- *)
Lemma closing_delivery y E Rd fr rb0 rb' :
  PD y E Rd [fr] -> keep fr = true ->
  (match rview y with Some (rb, c) => rb0 = rb /\ c = false | None => rb0 = rb_init 0 end) ->
  rb_write rb0 (to_frame fr) = (rb', true, false) \/ (exists er, rb_write rb0 (to_frame fr) = (rb', true, er)) ->
  nE E + 2 < two64 ->
  cl_of E <> two64 /\ Rd ++ pipe rb' = cat (FE E) 0 (N.to_nat (ndata E)).
Proof.
  intros (Hw & Hs & Hn & Hg & Hnd & Hr) Hk Hrb Hwr Hb.
  assert (Hbb : nE E + 1 < two64) by lia.
  assert (Hfr : In fr (inflight y ++ [fr])) by (apply in_or_app; right; now left).
  pose proof (Hg _ Hfr) as Hgf. pose proof (nthf_lt _ _ _ Hgf) as Hlt.
  rewrite (to_frame_genuine _ _ Hgf) in Hwr.
  (* an invariant for rb0 *)
  assert (HI : exists A, Inv (FE E) (cl_of E) 0 A rb0 Rd /\ (forall i, In i A -> i < nE E) /\ ~ In (w_seq fr) A).
  { destruct (rview y) as [[rb c]|] eqn:Erv.
    - destruct Hrb as [-> ->]. remember (Some (rb, false)) as rv eqn:Ev.
      destruct Hr as [Hr0|rbx A Hp HI HA Hd|rbx Hp Hcl Ho Hi|rbx kx Hp Hkx Ho]; try discriminate; injection Ev as ->.
      + exists A. split; [exact HI|split; [exact HA|apply Hd; exact Hfr]].
      + exfalso. apply app_eq_nil in Hi as [_ Hx]. discriminate Hx.
    - subst rb0. remember (@None (rbuf * bool)) as rv eqn:Ev.
      destruct Hr as [Hr0|rbx A Hp HI HA Hd|rbx Hp Hcl Ho Hi|rbx kx Hp Hkx Ho]; try discriminate.
      subst Rd. exists []. split; [apply (Inv_init (FE E) (cl_of E) (FE_seq sid E Hw) (FE_closing sid E Hw Hbb))|split; [intros i []|intros []]]. }
  destruct HI as (A & HI & HA & Hni).
  destruct (write_pres (FE E) (cl_of E) (FE_seq sid E Hw) (FE_closing sid E Hw Hbb) 0 A rb0 Rd (w_seq fr) HI Hni) as (st' & c' & Hwr' & HcF & HcT);
    [lia|lia|].
  assert (Hc' : c' = true /\ st' = rb').
  { destruct Hwr as [Hx|(er & Hx)]; rewrite Hx in Hwr'; injection Hwr' as <- <-; auto. }
  destruct Hc' as [-> ->].
  destruct (HcT eq_refl) as (Hall & k' & Hk' & Hout).
  assert (Hclin : In (cl_of E) (w_seq fr :: A)) by (apply Hall; lia).
  assert (Hcllt : cl_of E < nE E) by (destruct Hclin as [<-|Hx]; [exact Hlt|apply HA; exact Hx]).
  split; [lia|]. rewrite Hout. f_equal. unfold ndata. replace (cl_of E =? two64) with false by lia.
  destruct (cl_of_cases E) as [Hc2|[Hc2 Hpos]]; lia.
Qed.

Lemma closes_it_dec y l : closes_it o sid y l \/ ~ closes_it o sid y l.
Proof.
  destruct l as [x|x sid' data|x sid' n|x|x sid'|x|x c|c|d|c|x c]; cbn; try (right; tauto).
  - destruct (side_dec x o) as [->|Hne]; [|right; tauto].
    destruct (N.eq_dec sid' sid) as [->|Hne]; [left; auto|right; tauto].
  - destruct (side_dec x o) as [->|Hne]; [|right; tauto].
    destruct (nthN (N.to_nat c) (sy_conns y)) as [cn|] eqn:En; [|right; intros (_ & cn & fr & q & Hx & _); discriminate].
    destruct (conn_q cn o) as [|fr q] eqn:Eq; [right; intros (_ & cn' & fr & q & Hx & Hq & _); congruence|].
    destruct (N.eq_dec (w_sid fr) sid) as [Hs|Hs].
    + left. split; [reflexivity|]. exists cn, fr, q. auto.
    + right. intros (_ & cn' & fr' & q' & Hx & Hq & Hs'). apply Hs. congruence.
Qed.

Lemma not_rclosed_EX y E Rd : ~ rclosed y -> EX y E Rd.
Proof.
  intros H. unfold EX. destruct (rview y) as [[rb [|]]|] eqn:Erv; auto. exfalso. apply H. exists rb. exact Erv.
Qed.

(* ---- one label ---- *)
Lemma EX_label y l ch y' evs E Rd :
  step y l ch = (y', evs) -> busy_at y l -> valid_picks k ch -> Healthy k y -> WF y -> CIs y ->
  PD y E Rd [] -> EX y E Rd -> fresh_at y l -> l <> LCloseStream o sid ->
  nE (E ++ ev_frames evs) + 2 < two64 ->
  EX y' (E ++ ev_frames evs) (Rd ++ step_reads s sid l evs).
Proof.
  intros H Hbusy Hvp Hh Hwf Hci Hpd Hex Hfresh Hnl Hb.
  pose proof H as Hstep. unfold step in H.
  destruct (step_core y l ch) as [yc ec] eqn:Ec.
  destruct (resolve (sy_pend yc) yc) as [[yr ps] er] eqn:Er. injection H as <- <-.
  assert (Hw2 : forall q w, sview y = Some (q, w, false) -> w <> 2).
  { intros q w Hsv. destruct Hpd as (_ & Hs & _). destruct (Hs _ _ Hsv) as (_ & -> & _). lia. }
  destruct (step_core_effect s sid _ _ _ _ _ Ec Hwf Hfresh Hw2) as (y1 & pend & acts & Hpop & Hv & He & Hr & Hpr & Harr & Hlab).
  destruct (resolve_effect s sid _ _ _ _ _ Er) as (acts2 & Hv2 & He2 & Ha2 & Hr2 & Hf2 & Hd2).
  assert (HE : ev_frames (ec ++ er) = emitted acts ++ emitted acts2).
  { rewrite (ev_frames_app s sid), He, He2, Hf2. reflexivity. }
  assert (HR : step_reads s sid l (ec ++ er) = readout acts ++ readout acts2).
  { unfold MuxEffect.step_reads. rewrite Hr, Hr2, (ev_pend_reads_app s sid), Hpr. cbn [app]. f_equal.
    unfold core_reads. destruct l; try reflexivity. destruct (_ && _); [|reflexivity].
    now rewrite ret_data_app, Hd2, app_nil_r. }
  rewrite HE, HR, !app_assoc. rewrite HE, app_assoc in Hb.
  assert (Hb1 : nE (E ++ emitted acts) + 2 < two64).
  { pose proof (nE_app_le E (emitted acts) (emitted acts2)). rewrite <- app_assoc in Hb. lia. }
  assert (Hpdc : PD yc (E ++ emitted acts) (Rd ++ readout acts) []).
  { destruct Hpop as [[-> ->]|(fr & -> & Hk & Hperm & Hs1 & Hr1)].
    - destruct Harr as [[Ha _]|(f & Hf & _)]; [|discriminate].
      apply (PD_steps_noarr s sid _ _ _ _ Hv); assumption.
    - pose proof (PD_pop s sid _ _ _ _ _ Hpd Hperm Hs1 Hr1) as Hpd1.
      destruct Harr as [[Ha _]|(f & Hf & Ha)].
      + eapply PD_drop_P. apply (PD_steps_noarr s sid _ _ _ _ Hv); eassumption.
      + injection Hf as <-. apply (PD_steps_arr s sid _ _ _ _ Hv _ _ fr); assumption. }
  (* it is enough to know the receiver's end after the core part *)
  assert (Hfin : (rclosed yc /\ EX yc (E ++ emitted acts) (Rd ++ readout acts)) \/ ~ rclosed yc ->
                 EX (set_pend yr ps) ((E ++ emitted acts) ++ emitted acts2) ((Rd ++ readout acts) ++ readout acts2)).
  { intros [[Hc Hx]|Hnc].
    - apply (EX_same_view yr); [unfold MuxView.rview; now rewrite sess_set_pend|].
      apply (EX_steps_noarr _ _ _ _ Hv2 _ _ []); [exact Ha2|exact Hpdc|exact Hc|exact Hx|exact Hb].
    - apply not_rclosed_EX. intros Hc. apply Hnc. apply rview_oa in Hnc.
      exfalso. apply (proj1 (rview_oa _) (oa_set_pend o sid yr ps (resolve_oa o sid _ _ _ _ _ Er Hnc))). exact Hc. }
  apply Hfin. clear Hfin.
  remember (rview y) as rvy eqn:Erv. symmetry in Erv. destruct rvy as [[rbv [|]]|].
  - (* already closed *)
    left. assert (Hc : rclosed y) by (eexists; exact Erv).
    destruct Hpop as [[-> ->]|(fr & -> & Hk & Hperm & Hs1 & Hr1)].
    + destruct Harr as [[Ha _]|(f & Hf & _)]; [|discriminate].
      apply (EX_steps_noarr _ _ _ _ Hv _ _ []); assumption.
    + assert (Hr1' : rview y1 = rview y) by congruence.
      pose proof (PD_pop s sid _ _ _ _ _ Hpd Hperm Hs1 Hr1') as Hpd1.
      assert (Hc1 : rclosed y1) by (destruct Hc as (rb & Hx); exists rb; congruence).
      assert (Hex1 : EX y1 E Rd) by (eapply EX_same_view; [exact Hr1'|exact Hex]).
      destruct Harr as [[Ha _]|(f & Hf & Ha)].
      * apply (EX_steps_noarr _ _ _ _ Hv _ _ [fr]); assumption.
      * injection Hf as <-. apply (EX_steps_arr _ _ _ _ Hv _ _ fr); assumption.
  - (* open *)
    assert (Hoa : oa o sid y) by (apply rview_oa; intros (rb & Hx); congruence).
    destruct (closes_it_dec y l) as [Hcl|Hncl].
    2:{ right. apply rview_oa. eapply step_core_oa; eauto. }
    destruct l as [x|x sid' data|x sid' n|x|x sid'|x|x c|c|d|c|x c]; cbn in Hcl; try contradiction.
    { destruct Hcl as [-> ->]. exfalso. apply Hnl. reflexivity. }
    destruct Hcl as (-> & cn & fr & q & En & Eq & Hsid).
    (* the delivery of a frame of this stream to its re-sequencer *)
    rewrite step_core_deliver in Ec. rewrite En in Ec.
    pose proof Hh as (_ & _ & Hcs & _). destruct (Hcs _ _ En) as (C1 & C2 & C3 & _).
    assert (Hgone : conn_closed_end cn o || c_failed cn = false) by (destruct o; cbn; rewrite ?C1, ?C2, C3; reflexivity).
    rewrite Hgone, Eq in Ec.
    set (y0 := set_conns y (setN (N.to_nat c) (conn_set_q cn o q) (sy_conns y))) in *.
    destruct (recv_frame y0 o fr ch) as [[y2 ch2] evs2] eqn:Erf. injection Ec as <- <-.
    destruct (deliver_pop_H k y c cn o fr q Hh En Eq) as [Hh0 Hcl2].
    assert (Hwf0 : WF y0).
    { unfold y0. apply WF_set_conns; [exact Hwf|]. destruct (conn_set_q_flags cn o q) as (Ha' & Hb' & _).
      eapply conns_mono_setN; [exact En|rewrite Ha'; auto|rewrite Hb'; auto]. }
    pose proof (recv_frame_own k o sid y0 fr ch _ _ _ Erf Hh0 Hvp Hwf0 (CIs_set_conns _ _ Hci) Hcl2 Hsid (oa_set_conns _ _ _ _ Hoa)) as Hown.
    cbv zeta in Hown. unfold y0 in Hown at 1. rewrite sess_set_conns in Hown.
    assert (El : lookup sid (se_objs (sess y o)) = lookup sid (se_objs (sess y o))) by reflexivity.
    pose proof Erv as Erv'. rewrite (rview_def s sid) in Erv'. fold o in Erv'.
    destruct (lookup sid (se_objs (sess y o))) as [st|] eqn:Els; [|discriminate]. cbn in Erv'. injection Erv' as Hrb Hclo.
    change (mkF (w_seq fr) (negb (w_cl fr =? 0)) (w_pay fr)) with (to_frame fr) in Hown.
    destruct (rb_write (st_rb st) (to_frame fr)) as [[rb' tbc] er'] eqn:Ewr.
    destruct Hown as (st' & El' & Ec' & Erb' & Hquiet).
    destruct tbc.
    + left. assert (Hrvc : rview y2 = Some (rb_close rb', true)).
      { rewrite (rview_def s sid). fold o. rewrite El'. cbn. unfold rv. now rewrite Ec', Erb'. }
      split; [eexists; exact Hrvc|].
      (* the frame was in flight *)
      assert (Hk : keep fr = true) by (unfold MuxView.keep; rewrite Hsid, N.eqb_refl; cbn; destruct (w_cl fr =? 2) eqn:E2; [lia|reflexivity]).
      pose proof (inflight_dequeue s sid y o (N.to_nat c) cn fr q En Eq) as Hdq. fold y0 in Hdq.
      rewrite side_eqb_refl, Hk in Hdq. cbn [andb app] in Hdq.
      pose proof (PD_pop s sid _ _ _ _ _ Hpd Hdq (sview_set_conns s sid _ _) (rview_set_conns s sid _ _)) as Hpd0.
      assert (Hbe : nE E + 2 < two64) by (pose proof (nE_app_le E [] (emitted acts)); rewrite app_nil_r in *; cbn [app] in *; lia).
      destruct (closing_delivery y0 E Rd fr (st_rb st) rb' Hpd0 Hk) as [Hcle Hfull]; [| |exact Hbe|].
      { unfold y0. rewrite (rview_set_conns s sid), Erv. split; [congruence|reflexivity]. }
      { right. exists er'. exact Ewr. }
      (* nothing was emitted or read in the core part of this label *)
      assert (Hl1 : emitted acts = []).
      { destruct Hpdc as (Hw' & _). eapply wfE_final; [exact Hw'|exact Hcle]. }
      assert (Hr0 : readout acts = []) by (rewrite Hr; reflexivity).
      rewrite Hl1, Hr0, !app_nil_r. unfold EX. rewrite Hrvc. split; [exact Hcle|exact Hfull].
    + right. apply rview_oa. unfold oa. rewrite El'. exact Ec'.
  - (* no object yet *)
    assert (Hoa : oa o sid y) by (apply rview_oa; intros (rb & Hx); congruence).
    destruct (closes_it_dec y l) as [Hcl|Hncl].
    2:{ right. apply rview_oa. eapply step_core_oa; eauto. }
    destruct l as [x|x sid' data|x sid' n|x|x sid'|x|x c|c|d|c|x c]; cbn in Hcl; try contradiction.
    { destruct Hcl as [-> ->]. exfalso. apply Hnl. reflexivity. }
    destruct Hcl as (-> & cn & fr & q & En & Eq & Hsid).
    rewrite step_core_deliver in Ec. rewrite En in Ec.
    pose proof Hh as (_ & _ & Hcs & _). destruct (Hcs _ _ En) as (C1 & C2 & C3 & _).
    assert (Hgone : conn_closed_end cn o || c_failed cn = false) by (destruct o; cbn; rewrite ?C1, ?C2, C3; reflexivity).
    rewrite Hgone, Eq in Ec.
    set (y0 := set_conns y (setN (N.to_nat c) (conn_set_q cn o q) (sy_conns y))) in *.
    destruct (recv_frame y0 o fr ch) as [[y2 ch2] evs2] eqn:Erf. injection Ec as <- <-.
    destruct (deliver_pop_H k y c cn o fr q Hh En Eq) as [Hh0 Hcl2].
    assert (Hwf0 : WF y0).
    { unfold y0. apply WF_set_conns; [exact Hwf|]. destruct (conn_set_q_flags cn o q) as (Ha' & Hb' & _).
      eapply conns_mono_setN; [exact En|rewrite Ha'; auto|rewrite Hb'; auto]. }
    pose proof (recv_frame_own k o sid y0 fr ch _ _ _ Erf Hh0 Hvp Hwf0 (CIs_set_conns _ _ Hci) Hcl2 Hsid (oa_set_conns _ _ _ _ Hoa)) as Hown.
    cbv zeta in Hown. unfold y0 in Hown at 1. rewrite sess_set_conns in Hown.
    pose proof Erv as Erv'. rewrite (rview_def s sid) in Erv'. fold o in Erv'.
    destruct (lookup sid (se_objs (sess y o))) as [st|] eqn:Els; [discriminate|].
    change (mkF (w_seq fr) (negb (w_cl fr =? 0)) (w_pay fr)) with (to_frame fr) in Hown.
    destruct (rb_write (rb_init 0) (to_frame fr)) as [[rb' tbc] er'] eqn:Ewr.
    destruct Hown as (st' & El' & Ec' & Erb' & Hquiet).
    destruct tbc.
    + left. assert (Hrvc : rview y2 = Some (rb_close rb', true)).
      { rewrite (rview_def s sid). fold o. rewrite El'. cbn. unfold rv. now rewrite Ec', Erb'. }
      split; [eexists; exact Hrvc|].
      assert (Hk : keep fr = true) by (unfold MuxView.keep; rewrite Hsid, N.eqb_refl; cbn; destruct (w_cl fr =? 2) eqn:E2; [lia|reflexivity]).
      pose proof (inflight_dequeue s sid y o (N.to_nat c) cn fr q En Eq) as Hdq. fold y0 in Hdq.
      rewrite side_eqb_refl, Hk in Hdq. cbn [andb app] in Hdq.
      pose proof (PD_pop s sid _ _ _ _ _ Hpd Hdq (sview_set_conns s sid _ _) (rview_set_conns s sid _ _)) as Hpd0.
      assert (Hbe : nE E + 2 < two64) by (pose proof (nE_app_le E [] (emitted acts)); rewrite app_nil_r in *; cbn [app] in *; lia).
      destruct (closing_delivery y0 E Rd fr (rb_init 0) rb' Hpd0 Hk) as [Hcle Hfull]; [| |exact Hbe|].
      { unfold y0. rewrite (rview_set_conns s sid), Erv. reflexivity. }
      { right. exists er'. exact Ewr. }
      assert (Hl1 : emitted acts = []).
      { destruct Hpdc as (Hw' & _). eapply wfE_final; [exact Hw'|exact Hcle]. }
      assert (Hr0 : readout acts = []) by (rewrite Hr; reflexivity).
      rewrite Hl1, Hr0, !app_nil_r. unfold EX. rewrite Hrvc. split; [exact Hcle|exact Hfull].
    + right. apply rview_oa. unfold oa. rewrite El'. exact Ec'.
Qed.

(* ---- a whole run ---- *)
Definition no_local_close (ls : list (label * list N)) : Prop :=
  Forall (fun lc : label * list N => fst lc <> LCloseStream o sid) ls.

Lemma EX_run ls : forall y y' os E Rd,
  run y ls = (y', os) -> WF y -> CIs y -> Healthy k y -> PD y E Rd [] -> EX y E Rd ->
  fresh_run y ls -> busy_run k y ls -> no_local_close ls ->
  nE (E ++ run_frames s sid os) + 2 < two64 ->
  PD y' (E ++ run_frames s sid os) (Rd ++ run_reads s sid ls os) [] /\
  EX y' (E ++ run_frames s sid os) (Rd ++ run_reads s sid ls os).
Proof.
  induction ls as [|[l ch] t IH]; intros y y' os E Rd H Hwf Hci Hh Hpd Hex Hfr Hbusy Hnl Hb; cbn in H.
  - injection H as <- <-. cbn. rewrite !app_nil_r. auto.
  - destruct (step y l ch) as [y1 o1] eqn:Es. destruct (run y1 t) as [y2 os2] eqn:Er. injection H as <- <-.
    cbn [run_frames run_reads]. rewrite !app_assoc. cbn [run_frames] in Hb. rewrite app_assoc in Hb.
    destruct Hfr as [Hf1 Hf2]. rewrite Es in Hf2. cbn [fst] in Hf2.
    destruct Hbusy as (Hb1 & Hv & Hb2). rewrite Es in Hb2. cbn [fst] in Hb2.
    inversion Hnl as [|? ? Hn1 Hn2]; subst. cbn [fst] in Hn1.
    assert (Hbb : nE (E ++ ev_frames o1) + 2 < two64).
    { pose proof (nE_app_le E (ev_frames o1) (run_frames s sid os2)). rewrite <- app_assoc in Hb. lia. }
    apply (IH y1); [exact Er|eapply step_WF; eauto|eapply step_CIs; eauto|eapply busy_step; eauto| | |exact Hf2|exact Hb2|exact Hn2|exact Hb].
    + eapply PD_label; eauto.
    + eapply EX_label; eauto.
Qed.
End Exact.

(* C03: on a healthy session, a reader whose end of the stream is closed without having closed it
   itself has been given, or still finds in its pipe, exactly the bytes the writer's writes accepted
   - and the writer did close the stream *)
Theorem close_is_exact s sid k unit toA toB ls rb :
  (1 <= k)%nat -> 1 <= unit ->
  fresh_run (init k false unit toA toB) ls -> busy_run k (init k false unit toA toB) ls ->
  no_local_close s sid ls ->
  let os := outputs k false unit toA toB ls in
  let y := reach k false unit toA toB ls in
  nE (run_frames s sid os) + 2 < two64 ->
  rview s sid y = Some (rb, true) ->
  cl_of (run_frames s sid os) <> two64 /\
  run_written s sid ls os = run_reads s sid ls os ++ pipe rb.
Proof.
  intros Hk Hu Hf Hbusy Hnl os y Hb Hrv. unfold os, y, outputs, reach in *.
  destruct (run (init k false unit toA toB) ls) as [y' os'] eqn:Er. cbn [fst snd] in *.
  destruct (EX_run s sid k ls _ _ _ [] [] Er (init_WF _ _ _ _ _) (init_CIs _ _ _ _ _) (init_H k false unit toA toB Hk Hu eq_refl)
              (PD_init s sid _ _ _ _ _)) as [Hpd Hex]; try assumption.
  { unfold EX. replace (rview s sid (init k false unit toA toB)) with (@None (rbuf * bool)); [exact I|].
    unfold MuxView.rview. destruct s; reflexivity. }
  cbn [app] in Hpd, Hex. unfold EX in Hex. rewrite Hrv in Hex. destruct Hex as [Hcl Hfull].
  split; [exact Hcl|].
  rewrite <- (run_payload s sid ls _ _ _ [] [] Er (init_WF _ _ _ _ _) (PD_init s sid _ _ _ _ _) Hf Hb).
  destruct Hpd as (Hw & _).
  rewrite <- (data_bytes_all sid _ Hw). unfold data_bytes. rewrite Hfull.
  symmetry. apply cat_FE. pose proof (ndata_le (run_frames s sid os')). unfold nE in *. lia.
Qed.

(* non-vacuity: the closing notice overtakes the data on another connection *)
Definition exact_example_run : list (label * list N) :=
  [(LOpen SA, []); (LWrite SA 1 [7; 8; 9], [0]); (LCloseStream SA 1, [1]);
   (LDeliver SB 1, []); (LRead SB 1 2, []); (LDeliver SB 0, []); (LRead SB 1 2, [])].
Example exact_example :
  let y := reach 2 false 331 30000000000 45000000000 exact_example_run in
  (exists rb, rview SA 1 y = Some (rb, true) /\ pipe rb = []) /\
  no_local_close SA 1 exact_example_run /\
  run_reads SA 1 exact_example_run (outputs 2 false 331 30000000000 45000000000 exact_example_run) = [7; 8; 9].
Proof.
  split; [eexists; vm_compute; split; reflexivity|]. split; [|vm_compute; reflexivity].
  unfold exact_example_run, no_local_close. repeat constructor; cbn; discriminate.
Qed.
