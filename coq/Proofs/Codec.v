(* Proofs about Model/Codec.v (obfuscate / deobfuscate): the explicit Cloak-v2 layout, round
   trip, interoperability, length formula and size limit, no-panic, and what the AEAD does
   and does not authenticate.  Everything is proved for an arbitrary AEAD satisfying
   [aead_ok] (functional correctness + fixed overhead - no cryptographic assumption) and
   then instantiated for the four methods of MakeObfuscator. *)
From Coq Require Import NArith ZArith List Bool Lia Arith PeanoNat ZifyN ZifyNat ZifyBool.
From Cloak Require Import Gen.Consts Model.Crypto.CBytes Model.Crypto.Salsa20
  Model.Crypto.ChaChaPoly Model.Crypto.AES Model.Crypto.GCM Model.AEAD Model.Codec Proofs.AEAD Proofs.Crypto.
Import ListNotations.
Local Open Scope Z_scope.

(* ---- numbers <-> bytes ---------------------------------------------------------------- *)
Lemma le_num_le_bytes : forall n x,
  le_num (le_bytes n x) = N.land x (N.ones (8 * N.of_nat n)).
Proof.
  induction n as [|n IH]; intros x.
  - cbn [le_bytes le_num fold_right]. change (8 * N.of_nat 0)%N with 0%N.
    cbn [N.ones]. now rewrite N.land_0_r.
  - cbn [le_bytes]. change (le_num (byte_of x :: le_bytes n (N.shiftr x 8)))
      with (N.lor (byte_of x) (N.shiftl (le_num (le_bytes n (N.shiftr x 8))) 8)).
    rewrite IH. unfold byte_of. change 255%N with (N.ones 8).
    apply N.bits_inj. intros i.
    rewrite N.lor_spec, !N.land_spec.
    destruct (N.lt_ge_cases i 8) as [Hi|Hi].
    + rewrite N.shiftl_spec_low by assumption.
      rewrite (N.ones_spec_low 8 i) by assumption.
      rewrite (N.ones_spec_low (8 * N.of_nat (S n)) i) by lia.
      now rewrite orb_false_r.
    + rewrite N.shiftl_spec_high' by assumption.
      rewrite (N.ones_spec_high 8 i) by assumption.
      rewrite N.land_spec, N.shiftr_spec' .
      replace (i - 8 + 8)%N with i by lia.
      rewrite andb_false_r, orb_false_l. f_equal.
      destruct (N.lt_ge_cases i (8 * N.of_nat (S n))) as [Hj|Hj].
      * rewrite !N.ones_spec_low by lia. reflexivity.
      * rewrite !N.ones_spec_high by lia. reflexivity.
Qed.

Lemma be_num_app1 : forall l b, be_num (l ++ [b]) = N.lor (N.shiftl (be_num l) 8) b.
Proof. intros. unfold be_num. now rewrite fold_left_app. Qed.

Lemma be_num_rev : forall l, be_num (rev l) = le_num l.
Proof.
  induction l as [|a l IH]; [reflexivity|].
  cbn [rev]. rewrite be_num_app1, IH. cbn [le_num fold_right]. apply N.lor_comm.
Qed.

Lemma be_num_be_bytes : forall n x, (x < 2 ^ (8 * N.of_nat n))%N -> be_num (be_bytes n x) = x.
Proof.
  intros n x Hx. unfold be_bytes. rewrite be_num_rev, le_num_le_bytes, N.land_ones.
  now apply N.mod_small.
Qed.

(* ---- checked slices --------------------------------------------------------------------- *)
Lemma zlen_app : forall a b, zlen (a ++ b) = zlen a + zlen b.
Proof. intros. unfold zlen. rewrite app_length. lia. Qed.

Lemma zlen_nonneg : forall l, 0 <= zlen l.
Proof. intros. unfold zlen. lia. Qed.

Lemma zslice_ok : forall lo hi l, 0 <= lo -> lo <= hi -> hi <= zlen l ->
  zslice lo hi l = Some (firstn (Z.to_nat (hi - lo)) (skipn (Z.to_nat lo) l)).
Proof.
  intros lo hi l H1 H2 H3. unfold zslice.
  destruct (Z.leb_spec 0 lo); [|lia]. destruct (Z.leb_spec lo hi); [|lia].
  destruct (Z.leb_spec hi (zlen l)); [|lia]. reflexivity.
Qed.

Lemma zslice_none : forall lo hi l, zslice lo hi l = None -> ~ (0 <= lo /\ lo <= hi /\ hi <= zlen l).
Proof.
  intros lo hi l H [H1 [H2 H3]]. rewrite zslice_ok in H by assumption. discriminate.
Qed.

Lemma zslice_length : forall lo hi l r, zslice lo hi l = Some r -> zlen r = hi - lo.
Proof.
  intros lo hi l r. unfold zslice.
  destruct (Z.leb_spec 0 lo); [|discriminate]. destruct (Z.leb_spec lo hi); [|discriminate].
  destruct (Z.leb_spec hi (zlen l)); [|discriminate]. cbn [andb].
  intros Heq. injection Heq as <-. unfold zlen in *. rewrite firstn_length, skipn_length. lia.
Qed.

Lemma zslice_app_l : forall a b, zslice 0 (zlen a) (a ++ b) = Some a.
Proof.
  intros. rewrite zslice_ok; try (rewrite ?zlen_app; pose proof (zlen_nonneg a); pose proof (zlen_nonneg b); lia).
  unfold zlen. rewrite Z.sub_0_r, Nat2Z.id. cbn [Z.to_nat skipn].
  rewrite firstn_app, Nat.sub_diag, firstn_all, firstn_O, app_nil_r. reflexivity.
Qed.

Lemma zslice_app_r : forall a b, zslice (zlen a) (zlen (a ++ b)) (a ++ b) = Some b.
Proof.
  intros. rewrite zslice_ok; try (rewrite ?zlen_app; pose proof (zlen_nonneg a); pose proof (zlen_nonneg b); lia).
  rewrite zlen_app. unfold zlen. replace (Z.of_nat (length a) + Z.of_nat (length b) - Z.of_nat (length a)) with (Z.of_nat (length b)) by lia.
  rewrite !Nat2Z.id. rewrite skipn_app, Nat.sub_diag, skipn_all. cbn [skipn app]. apply f_equal, firstn_all.
Qed.

Lemma zslice_app_mid : forall a b c, zslice (zlen a) (zlen a + zlen b) (a ++ b ++ c) = Some b.
Proof.
  intros. rewrite zslice_ok; try (rewrite ?zlen_app; pose proof (zlen_nonneg a); pose proof (zlen_nonneg b); pose proof (zlen_nonneg c); lia).
  unfold zlen. replace (Z.of_nat (length a) + Z.of_nat (length b) - Z.of_nat (length a)) with (Z.of_nat (length b)) by lia.
  rewrite !Nat2Z.id. rewrite skipn_app, Nat.sub_diag, skipn_all. cbn [skipn app].
  rewrite firstn_app, Nat.sub_diag, firstn_all, firstn_O, app_nil_r. reflexivity.
Qed.

Lemma zslice_firstn : forall n l, (n <= length l)%nat -> zslice 0 (Z.of_nat n) l = Some (firstn n l).
Proof.
  intros n l H. rewrite zslice_ok by (unfold zlen; lia).
  rewrite Z.sub_0_r, Nat2Z.id. reflexivity.
Qed.

Lemma zslice_tail : forall a b k, zlen b = k -> 0 <= k ->
  zslice (zlen (a ++ b) - k) (zlen (a ++ b)) (a ++ b) = Some b.
Proof.
  intros a b k Hk Hk0. subst k. replace (zlen (a ++ b) - zlen b) with (zlen a) by (rewrite zlen_app; lia).
  apply zslice_app_r.
Qed.

Lemma zindex_app : forall a x r, zindex (zlen a) (a ++ x :: r) = Some x.
Proof.
  intros. unfold zindex. rewrite zlen_app. unfold zlen. cbn [length].
  destruct (Z.leb_spec 0 (Z.of_nat (length a))); [|lia].
  destruct (Z.ltb_spec (Z.of_nat (length a)) (Z.of_nat (length a) + Z.of_nat (S (length r)))); [|lia].
  cbn [andb]. rewrite Nat2Z.id. rewrite nth_error_app2 by lia. now rewrite Nat.sub_diag.
Qed.

Lemma zindex_none : forall i l, zindex i l = None -> ~ (0 <= i < zlen l).
Proof.
  intros i l H [H1 H2]. unfold zindex in H.
  destruct (Z.leb_spec 0 i); [|lia]. destruct (Z.ltb_spec i (zlen l)); [|lia]. cbn [andb] in H.
  apply nth_error_None in H. unfold zlen in *. lia.
Qed.

(* ---- the ciphers MakeObfuscator can install ------------------------------------------- *)
Definition aead_ok (a : aead) : Prop :=
  (forall n p, a_open a n (a_seal a n p) = Some p) /\
  (forall n p, length (a_seal a n p) = (length p + a_overhead a)%nat) /\
  (Z.of_nat (a_nonce_size a) <= mux_frameHeaderLength) /\
  (mux_salsa20NonceSize <= Z.of_nat (a_overhead a)).

Definition cipher_ok (c : option aead) : Prop :=
  match c with Some a => aead_ok a | None => True end.

(* tagLen as a function of the method, from the generated Overhead() values *)
Definition method_tag_len (m : method) : Z :=
  match m with
  | Plain => mux_salsa20NonceSize
  | AES256GCM => mux_overhead_aes256gcm
  | ChaCha20Poly1305 => mux_overhead_chacha20poly1305
  | AES128GCM => mux_overhead_aes128gcm
  end.

Lemma tag_len_of_method : forall m key, tag_len_of (payload_cipher m key) = method_tag_len m.
Proof. intros [] key; reflexivity. Qed.

(* generated obligation: every cipher Go reports has a 16-byte tag and a 12-byte nonce that
   fits into the 14-byte header; breaks if the source constants change *)
Lemma payload_cipher_ok : forall m key, cipher_ok (payload_cipher m key).
Proof.
  intros [] key; cbn [payload_cipher cipher_ok]; [exact I | | |];
    (split; [|split; [|split]]); cbn [a_open a_seal a_overhead a_nonce_size]; intros.
  - apply gcm_open_seal.
  - rewrite gcm_seal_length. reflexivity.
  - vm_compute. discriminate.
  - vm_compute. discriminate.
  - apply chachapoly_open_seal.
  - rewrite chachapoly_seal_length. reflexivity.
  - vm_compute. discriminate.
  - vm_compute. discriminate.
  - apply gcm_open_seal.
  - rewrite gcm_seal_length. reflexivity.
  - vm_compute. discriminate.
  - vm_compute. discriminate.
Qed.

Lemma make_obfuscator_known : forall m key,
  make_obfuscator (method_code m) key = Some (payload_cipher m key).
Proof. intros [] key; reflexivity. Qed.

Lemma make_obfuscator_unknown : forall code key,
  method_of_code code = None -> make_obfuscator code key = None.
Proof. intros code key H. unfold make_obfuscator. now rewrite H. Qed.

(* ---- the explicit Cloak-v2 layout ----------------------------------------------------- *)
(* header (14 bytes, before encryption) = StreamID(4, BE) | Seq(8, BE) | Closing(1) | extraLen(1)
   body   = AEAD: Seal(key', nonce = header[:12], payload ++ pad)      extraLen = |pad| + 16
            plain: payload ++ pad ++ tail8                              extraLen = |pad| + 8
   message = (header xor Salsa20(sessionKey, nonce = last 8 bytes of body)[:14]) ++ body *)
Definition last8 (l : list N) : list N := skipn (length l - 8) l.

Definition v2_body (c : option aead) (header payload pad tail : list N) : list N :=
  match c with
  | Some a => a_seal a (firstn (a_nonce_size a) header) (payload ++ pad)
  | None => payload ++ pad ++ tail
  end.

Definition v2_message (c : option aead) (key : list N) (sid seq closing : N)
  (payload pad tail : list N) : list N :=
  let header := header_bytes sid seq closing (zlen pad + tag_len_of c) in
  let body := v2_body c header payload pad tail in
  salsa20_xor key (last8 body) header ++ body.

Lemma header_bytes_length : forall sid seq closing extra,
  length (header_bytes sid seq closing extra) = 14%nat.
Proof. intros. unfold header_bytes. rewrite !app_length, !be_bytes_length. reflexivity. Qed.

Lemma v2_body_length : forall c header payload pad tail,
  cipher_ok c -> (c = None -> zlen tail = mux_salsa20NonceSize) ->
  zlen (v2_body c header payload pad tail) = zlen payload + zlen pad + tag_len_of c.
Proof.
  intros [a|] header payload pad tail Hok Ht; cbn [v2_body tag_len_of].
  - destruct Hok as [_ [Hlen _]]. unfold zlen. rewrite Hlen, app_length. lia.
  - rewrite !zlen_app, Ht by reflexivity. lia.
Qed.

Lemma tag_len_ge8 : forall c, cipher_ok c -> mux_salsa20NonceSize <= tag_len_of c.
Proof. intros [a|] H; cbn [tag_len_of]; [apply H | lia]. Qed.

Lemma v2_message_length : forall c key sid seq closing payload pad tail,
  cipher_ok c -> (c = None -> zlen tail = mux_salsa20NonceSize) ->
  zlen (v2_message c key sid seq closing payload pad tail) =
  mux_frameHeaderLength + zlen payload + zlen pad + tag_len_of c.
Proof.
  intros. unfold v2_message. rewrite zlen_app, v2_body_length by assumption.
  unfold zlen at 1. rewrite salsa20_xor_length, header_bytes_length.
  unfold mux_frameHeaderLength. lia.
Qed.

(* obfuscate produces exactly this layout *)
Lemma encode_with_layout : forall c key f padLen rnd,
  cipher_ok c -> f_payload f <> [] -> zlen rnd = Z.of_N padLen + tag_len_of c ->
  encode_with c key f padLen rnd =
  Some (v2_message c key (f_sid f) (f_seq f) (f_closing f) (f_payload f)
          (firstn (N.to_nat padLen) rnd) (skipn (N.to_nat padLen) rnd)).
Proof.
  intros c key f padLen rnd Hok Hne Hrnd. unfold encode_with.
  destruct (f_payload f) as [|p0 pl] eqn:Hp; [congruence|]. cbn [length Nat.eqb].
  rewrite <- Hp. clear Hne.
  pose proof (tag_len_ge8 c Hok) as Htag. unfold mux_salsa20NonceSize in Htag.
  destruct (Z.eqb_spec (zlen rnd) (Z.of_N padLen + tag_len_of c)) as [_|Hn]; [|lia]. cbn [negb].
  assert (Hpadlen : zlen (firstn (N.to_nat padLen) rnd) = Z.of_N padLen).
  { unfold zlen in *. rewrite firstn_length. lia. }
  unfold v2_message. rewrite Hpadlen.
  set (header := header_bytes (f_sid f) (f_seq f) (f_closing f) (Z.of_N padLen + tag_len_of c)).
  assert (Hbody : (match c with
                   | Some a => a_seal a (firstn (a_nonce_size a) header) (f_payload f ++ firstn (N.to_nat padLen) rnd)
                   | None => f_payload f ++ rnd end) =
                  v2_body c header (f_payload f) (firstn (N.to_nat padLen) rnd) (skipn (N.to_nat padLen) rnd)).
  { destruct c; cbn [v2_body]; [reflexivity|]. now rewrite firstn_skipn. }
  rewrite Hbody.
  set (body := v2_body c header (f_payload f) (firstn (N.to_nat padLen) rnd) (skipn (N.to_nat padLen) rnd)).
  assert (Hbl : zlen body = zlen (f_payload f) + Z.of_N padLen + tag_len_of c).
  { unfold body. rewrite v2_body_length; [lia | assumption |].
    intros ->. cbn [tag_len_of] in *. unfold zlen in *. rewrite skipn_length. unfold mux_salsa20NonceSize in *. lia. }
  do 3 f_equal.
  unfold last8. rewrite app_length. unfold mux_salsa20NonceSize. change (Z.to_nat 8) with 8%nat.
  rewrite skipn_app.
  assert (Hh : length header = 14%nat) by apply header_bytes_length.
  pose proof (zlen_nonneg (f_payload f)). unfold zlen in *.
  rewrite skipn_all2 by lia. cbn [app]. f_equal; lia.
Qed.

Lemma header_parse : forall sid seq closing extra,
  let h := header_bytes sid seq closing extra in
  zslice 0 4 h = Some (be_bytes 4 sid) /\ zslice 4 12 h = Some (be_bytes 8 seq) /\
  zindex 12 h = Some (byte_of closing) /\ zindex 13 h = Some (Z.to_N (extra mod 256)).
Proof.
  intros. unfold h, header_bytes.
  assert (L4 : zlen (be_bytes 4 sid) = 4) by (unfold zlen; now rewrite be_bytes_length).
  assert (L8 : zlen (be_bytes 8 seq) = 8) by (unfold zlen; now rewrite be_bytes_length).
  split; [|split; [|split]].
  - rewrite <- L4. apply zslice_app_l.
  - replace 12 with (zlen (be_bytes 4 sid) + zlen (be_bytes 8 seq)) by lia. rewrite <- L4 at 1.
    apply zslice_app_mid.
  - replace 12 with (zlen (be_bytes 4 sid ++ be_bytes 8 seq)) by (rewrite zlen_app; lia).
    rewrite (app_assoc (be_bytes 4 sid)). apply zindex_app.
  - replace 13 with (zlen ((be_bytes 4 sid ++ be_bytes 8 seq) ++ [byte_of closing]))
      by (rewrite !zlen_app; unfold zlen at 3; cbn [length]; lia).
    replace (be_bytes 4 sid ++ be_bytes 8 seq ++ [byte_of closing; Z.to_N (extra mod 256)])
      with (((be_bytes 4 sid ++ be_bytes 8 seq) ++ [byte_of closing]) ++ [Z.to_N (extra mod 256)])
      by (now rewrite <- !app_assoc).
    apply zindex_app.
Qed.

Lemma byte_of_small : forall b, (b < 256)%N -> byte_of b = b.
Proof.
  intros b H. unfold byte_of. change 255%N with (N.ones 8). rewrite N.land_ones. now apply N.mod_small.
Qed.

(* ---- interoperability: deobfuscate accepts every message of that layout ----------------- *)
Lemma decode_with_layout : forall c key sid seq closing payload pad tail,
  cipher_ok c -> (sid < 2 ^ 32)%N -> (seq < 2 ^ 64)%N -> (closing < 256)%N ->
  zlen pad + tag_len_of c <= mux_maxExtraLen ->
  (c = None -> zlen tail = mux_salsa20NonceSize) ->
  decode_with c key (v2_message c key sid seq closing payload pad tail) =
  Ok (mkFrame sid seq closing payload).
Proof.
  intros c key sid seq closing payload pad tail Hok Hsid Hseq Hcl Hextra Htail.
  pose proof (tag_len_ge8 c Hok) as Htag.
  pose proof (v2_message_length c key sid seq closing payload pad tail Hok Htail) as Hlen.
  unfold decode_with, v2_message in *.
  set (extra := zlen pad + tag_len_of c) in *.
  set (header := header_bytes sid seq closing extra) in *.
  set (body := v2_body c header payload pad tail) in *.
  set (nonce := last8 body) in *.
  set (H' := salsa20_xor key nonce header) in *.
  assert (Hbl : zlen body = zlen payload + zlen pad + tag_len_of c) by (apply v2_body_length; assumption).
  assert (HH' : zlen H' = 14).
  { unfold zlen, H'. rewrite salsa20_xor_length. unfold header. now rewrite header_bytes_length. }
  pose proof (zlen_nonneg payload) as Hp0. pose proof (zlen_nonneg pad) as Hd0.
  unfold mux_frameHeaderLength, mux_salsa20NonceSize, mux_maxExtraLen in *.
  destruct (Z.ltb_spec (zlen (H' ++ body)) (14 + 8)) as [Hs|_]; [lia|].
  assert (Hs1 : zslice 0 14 (H' ++ body) = Some H') by (rewrite <- HH'; apply zslice_app_l).
  assert (Hs2 : zslice 14 (zlen (H' ++ body)) (H' ++ body) = Some body) by (rewrite <- HH'; apply zslice_app_r).
  (* the nonce is the last 8 bytes of the message = of the body *)
  assert (Hn : zslice (zlen (H' ++ body) - 8) (zlen (H' ++ body)) (H' ++ body) = Some nonce).
  { replace (H' ++ body) with ((H' ++ firstn (length body - 8) body) ++ nonce).
    - apply zslice_tail; [|lia]. unfold nonce, last8, zlen in *. rewrite skipn_length. lia.
    - rewrite <- app_assoc. f_equal. unfold nonce, last8. apply firstn_skipn. }
  rewrite Hs1, Hs2, Hn. unfold H'. rewrite salsa20_xor_involutive.
  (* header fields *)
  destruct (header_parse sid seq closing extra) as [P1 [P2 [P3 P4]]]. fold header in P1, P2, P3, P4.
  rewrite P1, P2, P3, P4.
  rewrite !be_num_be_bytes by assumption.
  assert (Hbc : byte_of closing = closing) by now apply byte_of_small.
  rewrite Hbc.
  assert (Hex : Z.of_N (Z.to_N (extra mod 256)) = extra).
  { rewrite Z2N.id by (apply Z.mod_pos_bound; lia). apply Z.mod_small. unfold extra. lia. }
  rewrite Hex.
  replace (zlen body - extra) with (zlen payload) by (unfold extra; lia).
  destruct (Z.ltb_spec (zlen payload) 0) as [?|_]; [lia|].
  destruct (Z.gtb_spec (zlen payload) (zlen body)) as [?|_]; [lia|]. cbn [orb].
  destruct c as [a|].
  - (* AEAD *)
    destruct Hok as [Hopen [Hslen [Hns _]]].
    rewrite zslice_firstn by (unfold header; rewrite header_bytes_length; unfold mux_frameHeaderLength in Hns; lia).
    unfold body at 1. cbn [v2_body]. rewrite Hopen.
    rewrite <- app_assoc. rewrite zslice_app_l. reflexivity.
  - (* plain *)
    cbn [tag_len_of] in *. unfold mux_salsa20NonceSize in *.
    destruct (N.eqb_spec (Z.to_N (extra mod 256)) 0) as [Hz|_]; [lia|].
    unfold body. cbn [v2_body]. rewrite zslice_app_l. reflexivity.
Qed.

(* ---- round trip, length, size limit ----------------------------------------------------- *)
Lemma encode_with_some_inv : forall c key f padLen rnd msg,
  encode_with c key f padLen rnd = Some msg ->
  f_payload f <> [] /\ zlen rnd = Z.of_N padLen + tag_len_of c.
Proof.
  intros c key f padLen rnd msg. unfold encode_with.
  destruct (f_payload f) as [|p0 pl]; cbn [length Nat.eqb]; [discriminate|].
  destruct (Z.eqb_spec (zlen rnd) (Z.of_N padLen + tag_len_of c)) as [He|Hn]; cbn [negb]; [|discriminate].
  intros _. split; [discriminate | assumption].
Qed.

Lemma rnd_split_lengths : forall c padLen rnd,
  zlen rnd = Z.of_N padLen + tag_len_of c -> 0 <= tag_len_of c ->
  zlen (firstn (N.to_nat padLen) rnd) = Z.of_N padLen /\
  zlen (skipn (N.to_nat padLen) rnd) = tag_len_of c.
Proof.
  intros c padLen rnd H H0. unfold zlen in *. rewrite firstn_length, skipn_length. lia.
Qed.

Lemma encode_with_length : forall c key f padLen rnd msg,
  cipher_ok c -> encode_with c key f padLen rnd = Some msg ->
  zlen msg = mux_frameHeaderLength + zlen (f_payload f) + Z.of_N padLen + tag_len_of c.
Proof.
  intros c key f padLen rnd msg Hok He.
  destruct (encode_with_some_inv _ _ _ _ _ _ He) as [Hne Hrnd].
  rewrite encode_with_layout in He by assumption. injection He as <-.
  pose proof (tag_len_ge8 c Hok) as Htag. unfold mux_salsa20NonceSize in Htag.
  destruct (rnd_split_lengths c padLen rnd Hrnd ltac:(lia)) as [L1 L2].
  rewrite v2_message_length; [rewrite L1; reflexivity | assumption |].
  intros ->. exact L2.
Qed.

Lemma roundtrip_with : forall c key f padLen rnd,
  cipher_ok c ->
  (f_sid f < 2 ^ 32)%N -> (f_seq f < 2 ^ 64)%N -> (f_closing f < 256)%N -> f_payload f <> [] ->
  Z.of_N padLen + tag_len_of c <= mux_maxExtraLen ->
  zlen rnd = Z.of_N padLen + tag_len_of c ->
  exists msg, encode_with c key f padLen rnd = Some msg /\ decode_with c key msg = Ok f /\
    zlen msg = mux_frameHeaderLength + zlen (f_payload f) + Z.of_N padLen + tag_len_of c.
Proof.
  intros c key f padLen rnd Hok Hsid Hseq Hcl Hne Hpad Hrnd.
  pose proof (tag_len_ge8 c Hok) as Htag. unfold mux_salsa20NonceSize in Htag.
  destruct (rnd_split_lengths c padLen rnd Hrnd ltac:(lia)) as [L1 L2].
  eexists. split; [apply encode_with_layout; assumption|]. split.
  - rewrite decode_with_layout; try assumption.
    + destruct f; reflexivity.
    + rewrite L1. assumption.
    + intros ->. exact L2.
  - rewrite v2_message_length; [rewrite L1; reflexivity | assumption |]. intros ->. exact L2.
Qed.

(* the four methods *)
Theorem roundtrip : forall (m : method) (key : list N) (f : frame) (padLen : N) (rnd : list N),
  (f_sid f < 2 ^ 32)%N -> (f_seq f < 2 ^ 64)%N -> (f_closing f < 256)%N ->
  (1 <= length (f_payload f))%nat ->
  Z.of_N padLen <= mux_maxExtraLen - method_tag_len m ->
  zlen rnd = Z.of_N padLen + method_tag_len m ->
  exists msg, encode m key f padLen rnd = Some msg /\ decode m key msg = Ok f /\
    zlen msg = mux_frameHeaderLength + zlen (f_payload f) + Z.of_N padLen + method_tag_len m.
Proof.
  intros m key f padLen rnd Hsid Hseq Hcl Hp Hpad Hrnd. unfold encode, decode.
  rewrite <- (tag_len_of_method m key) in *.
  apply roundtrip_with; try assumption; [apply payload_cipher_ok | | lia].
  destruct (f_payload f); [cbn [length] in Hp; lia | discriminate].
Qed.

Theorem encode_layout : forall m key f padLen rnd,
  (1 <= length (f_payload f))%nat -> zlen rnd = Z.of_N padLen + method_tag_len m ->
  encode m key f padLen rnd =
  Some (v2_message (payload_cipher m key) key (f_sid f) (f_seq f) (f_closing f) (f_payload f)
          (firstn (N.to_nat padLen) rnd) (skipn (N.to_nat padLen) rnd)).
Proof.
  intros m key f padLen rnd Hp Hrnd. unfold encode. rewrite <- (tag_len_of_method m key) in Hrnd.
  apply encode_with_layout; [apply payload_cipher_ok | | assumption].
  destruct (f_payload f); [cbn [length] in Hp; lia | discriminate].
Qed.

Theorem interop : forall m key sid seq closing payload pad tail,
  (sid < 2 ^ 32)%N -> (seq < 2 ^ 64)%N -> (closing < 256)%N ->
  zlen pad + method_tag_len m <= mux_maxExtraLen ->
  (m = Plain -> zlen tail = mux_salsa20NonceSize) ->
  decode m key (v2_message (payload_cipher m key) key sid seq closing payload pad tail) =
  Ok (mkFrame sid seq closing payload).
Proof.
  intros m key sid seq closing payload pad tail Hsid Hseq Hcl Hpad Htail. unfold decode.
  apply decode_with_layout; try assumption; [apply payload_cipher_ok | now rewrite tag_len_of_method |].
  destruct m; cbn [payload_cipher]; try discriminate. intros _. now apply Htail.
Qed.

Theorem encode_length : forall m key f padLen rnd msg,
  encode m key f padLen rnd = Some msg ->
  zlen msg = mux_frameHeaderLength + zlen (f_payload f) + Z.of_N padLen + method_tag_len m.
Proof.
  intros m key f padLen rnd msg He. rewrite <- (tag_len_of_method m key).
  eapply encode_with_length; [apply payload_cipher_ok | exact He].
Qed.

(* generated obligation: padding + tag fits the one-byte extra-length field, for every value
   RandInt(maxExtraLen - tagLen + 1) can return *)
Theorem extra_len_fits_byte : forall m key (draw : N),
  Z.of_N draw < rand_bound (payload_cipher m key) ->
  Z.of_N draw + method_tag_len m < 256 /\ Z.of_N draw <= mux_maxExtraLen - method_tag_len m.
Proof.
  intros m key draw H. unfold rand_bound in H. rewrite tag_len_of_method in H.
  destruct m; cbn [method_tag_len] in *;
    unfold mux_maxExtraLen, mux_salsa20NonceSize, mux_overhead_aes256gcm, mux_overhead_aes128gcm,
      mux_overhead_chacha20poly1305 in *; lia.
Qed.

Theorem padding_threshold : forall seq draw,
  (Z.of_N seq < mux_padFirstNFrames -> pad_len seq draw = draw) /\
  (mux_padFirstNFrames <= Z.of_N seq -> pad_len seq draw = 0%N).
Proof.
  intros seq draw. unfold pad_len.
  destruct (Z.ltb_spec (Z.of_N seq) mux_padFirstNFrames); split; intros; try reflexivity; lia.
Qed.

(* message size never exceeds the limit from which maxStreamUnitWrite was derived *)
Theorem size_limit : forall (limit : Z) m key f padLen rnd msg,
  zlen (f_payload f) <= max_stream_unit_write limit ->
  Z.of_N padLen <= mux_maxExtraLen - method_tag_len m ->
  encode m key f padLen rnd = Some msg ->
  zlen msg <= limit.
Proof.
  intros limit m key f padLen rnd msg Hp Hpad He.
  rewrite (encode_length _ _ _ _ _ _ He). unfold max_stream_unit_write in Hp. lia.
Qed.

(* obfuscate as a whole: whatever RandInt and rand.Read return, for every sequence number *)
Theorem obfuscate_roundtrip : forall m key f (draw : N) rnd (limit : Z),
  (f_sid f < 2 ^ 32)%N -> (f_seq f < 2 ^ 64)%N -> (f_closing f < 256)%N ->
  (1 <= length (f_payload f))%nat -> zlen (f_payload f) <= max_stream_unit_write limit ->
  Z.of_N draw < rand_bound (payload_cipher m key) ->
  zlen rnd = Z.of_N (pad_len (f_seq f) draw) + method_tag_len m ->
  exists msg, obfuscate m key f draw rnd = Some msg /\ decode m key msg = Ok f /\ zlen msg <= limit.
Proof.
  intros m key f draw rnd limit Hsid Hseq Hcl Hp Hlim Hdraw Hrnd. unfold obfuscate.
  destruct (extra_len_fits_byte m key draw Hdraw) as [_ Hd].
  assert (Hpl : Z.of_N (pad_len (f_seq f) draw) <= mux_maxExtraLen - method_tag_len m).
  { unfold pad_len. destruct (Z.of_N (f_seq f) <? mux_padFirstNFrames); [assumption|].
    destruct m; vm_compute; discriminate. }
  destruct (roundtrip m key f (pad_len (f_seq f) draw) rnd Hsid Hseq Hcl Hp Hpl Hrnd) as [msg [He [Hd' Hl]]].
  exists msg. split; [assumption|]. split; [assumption|].
  eapply size_limit; eassumption.
Qed.

(* the two limits in use, and Session.Close's closing frame (payload 1..256 bytes) *)
Lemma max_stream_unit_write_values :
  max_stream_unit_write client_appDataMaxLength = mux_maxStreamUnitWrite_16401 /\
  max_stream_unit_write server_appDataMaxLength = mux_maxStreamUnitWrite_16401 /\
  max_stream_unit_write mux_defaultMaxOnWireSize = mux_default_maxStreamUnitWrite /\
  256 <= mux_maxStreamUnitWrite_16401 /\ 256 <= mux_default_maxStreamUnitWrite /\
  mux_defaultMaxOnWireSize <= common_tlsconn_write_limit /\
  client_appDataMaxLength <= common_tlsconn_write_limit.
Proof. vm_compute. repeat split; discriminate. Qed.

(* ---- deobfuscate never panics ----------------------------------------------------------- *)
Lemma decode_with_no_panic : forall c key msg,
  match c with Some a => Z.of_nat (a_nonce_size a) <= mux_frameHeaderLength | None => True end ->
  decode_with c key msg <> Panic.
Proof.
  intros c key msg Hns. unfold decode_with.
  unfold mux_frameHeaderLength, mux_salsa20NonceSize in *.
  destruct (Z.ltb_spec (zlen msg) (14 + 8)) as [Hs|Hl]; [discriminate|].
  destruct (zslice 0 14 msg) as [header|] eqn:E1;
    [|exfalso; apply zslice_none in E1; apply E1; lia].
  destruct (zslice 14 (zlen msg) msg) as [pld|] eqn:E2;
    [|exfalso; apply zslice_none in E2; apply E2; lia].
  destruct (zslice (zlen msg - 8) (zlen msg) msg) as [nonce|] eqn:E3;
    [|exfalso; apply zslice_none in E3; apply E3; lia].
  apply zslice_length in E1.
  assert (Hh : zlen (salsa20_xor key nonce header) = 14).
  { unfold zlen in *. rewrite salsa20_xor_length. lia. }
  set (h := salsa20_xor key nonce header) in *.
  destruct (zslice 0 4 h) as [sidb|] eqn:F1; [|exfalso; apply zslice_none in F1; apply F1; lia].
  destruct (zslice 4 12 h) as [seqb|] eqn:F2; [|exfalso; apply zslice_none in F2; apply F2; lia].
  destruct (zindex 12 h) as [closing|] eqn:F3; [|exfalso; apply zindex_none in F3; apply F3; lia].
  destruct (zindex 13 h) as [extra|] eqn:F4; [|exfalso; apply zindex_none in F4; apply F4; lia].
  destruct (Z.ltb_spec (zlen pld - Z.of_N extra) 0) as [?|Hu0]; [discriminate|].
  destruct (Z.gtb_spec (zlen pld - Z.of_N extra) (zlen pld)) as [?|Hu1]; [discriminate|]. cbn [orb].
  destruct c as [a|].
  - destruct (zslice 0 (Z.of_nat (a_nonce_size a)) h) as [n|] eqn:G1;
      [|exfalso; apply zslice_none in G1; apply G1; lia].
    destruct (a_open a n pld) as [pt|]; [|discriminate].
    destruct (zslice 0 (zlen pld - Z.of_N extra) (pt ++ skipn (length pt) pld)) eqn:G2; [discriminate|].
    exfalso. apply zslice_none in G2. apply G2. rewrite zlen_app. unfold zlen in *. rewrite skipn_length. lia.
  - destruct (extra =? 0)%N; [discriminate|].
    destruct (zslice 0 (zlen pld - Z.of_N extra) pld) eqn:G2; [discriminate|].
    exfalso. apply zslice_none in G2. apply G2. lia.
Qed.

Theorem decode_no_panic : forall m key msg, decode m key msg <> Panic.
Proof.
  intros m key msg. unfold decode. apply decode_with_no_panic.
  pose proof (payload_cipher_ok m key) as H. destruct (payload_cipher m key); [apply H | exact I].
Qed.

(* ---- the hypotheses of the round-trip theorem are met by concrete frames (evaluated in Coq
        with the real ciphers, so extraction is not the only path) ---------------------------- *)
Definition ex_key : list N := nrange 0 32.
Definition ex_frame : frame := mkFrame 0xdeadbeef 4 1 [104; 101; 108; 108; 111]%N.
Definition ex_rnd (m : method) : list N := nrange 200 (3 + Z.to_nat (method_tag_len m)).

Definition roundtrips (m : method) : bool :=
  match encode m ex_key ex_frame 3%N (ex_rnd m) with
  | Some msg =>
      match decode m ex_key msg with
      | Ok f => (f_sid f =? f_sid ex_frame)%N && (f_seq f =? 4)%N && (f_closing f =? 1)%N &&
                bytes_eqb (f_payload f) (f_payload ex_frame) &&
                (zlen msg =? 14 + 5 + 3 + method_tag_len m)
      | _ => false
      end
  | None => false
  end.
Example roundtrip_instances :
  roundtrips Plain = true /\ roundtrips AES256GCM = true /\
  roundtrips ChaCha20Poly1305 = true /\ roundtrips AES128GCM = true.
Proof. vm_compute. repeat split. Qed.

(* error paths of deobfuscate are reachable *)
Example decode_errors :
  decode ChaCha20Poly1305 ex_key (nrange 0 21) = Err ErrShort /\
  decode ChaCha20Poly1305 ex_key (nrange 0 40) = Err ErrExtraLen /\
  decode ChaCha20Poly1305 ex_key (nrange 0 300) = Err ErrAuth.
Proof. vm_compute. repeat split. Qed.
