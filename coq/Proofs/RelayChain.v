(* Composition of the relay model (Model/Copy.v) with the session-pair theorem of Proofs/MuxData.v. *)
From Coq Require Import NArith ZArith List Bool.
From Cloak Require Import Model.Reorder Model.Mux Proofs.MuxBase Proofs.MuxSafety Proofs.MuxView
  Proofs.MuxEffect Proofs.MuxPay Proofs.MuxData Model.Copy Proofs.Copy.
Import ListNotations.

Lemma relay_uplink_prefix : forall rs,
  (exists tail, concat (map fst rs) = concat (swrites (route_tcp_up rs)) ++ tail) /\ In SCloseLocal (route_tcp_up rs).
Proof. intros rs. split; [exact (route_tcp_up_prefix rs)|exact (route_tcp_up_closes_local rs)]. Qed.

Lemma relay_end_to_end :
  forall k sp u ta tb s sid ls (rs rs2 : list rd) (ws : list wout) (dn : Z),
  fresh_run (init k sp u ta tb) ls ->
  (nE (run_frames s sid (outputs k sp u ta tb ls)) + 2 < two64)%N ->
  run_written s sid ls (outputs k sp u ta tb ls) = concat (swrites (route_tcp_up rs)) ->
  concat (map fst rs2) = run_reads s sid ls (outputs k sp u ta tb ls) ->
  co_fuel (copy KPlain rs2 ws dn) = false ->
  exists tail, concat (map fst rs) = concat (writes_of (co_evs (copy KPlain rs2 ws dn))) ++ tail.
Proof.
  intros k sp u ta tb s sid ls rs rs2 ws dn Hfresh Hseq Hw Hr Hf.
  exact (relay_chain rs rs2 ws dn _ _ Hw (reads_prefix_of_written k sp u ta tb s sid ls Hfresh Hseq) Hr Hf).
Qed.
