(* C15: connections join the right session; the per-record session cap is never exceeded; no
   session without credit.  Built on the structural invariant of Proofs/PanelWF.v. *)
From Coq Require Import ZArith NArith List Bool Lia Arith.
From Cloak Require Import Model.Panel Proofs.PanelLocks Proofs.PanelWF Proofs.PanelOwn.
Import ListNotations.

(* ------------------------------------------------------------------ the database function *)
Lemma check_live_ok : forall nw r, check_live nw r = AOk ->
  (0 < fst (d_credit r))%Z /\ (0 < snd (d_credit r))%Z /\ (nw <= d_exp r)%Z.
Proof.
  intros nw r. unfold check_live.
  destruct (Z.leb_spec (fst (d_credit r)) 0); [discriminate|].
  destruct (Z.leb_spec (snd (d_credit r)) 0); [discriminate|].
  destruct (Z.ltb_spec (d_exp r) nw); [discriminate|]. intros _. lia.
Qed.

Lemma authenticate_ok : forall nw d u, authenticate nw d u = AOk ->
  exists r, d u = Some r /\ (0 < fst (d_credit r))%Z /\ (0 < snd (d_credit r))%Z /\ (nw <= d_exp r)%Z.
Proof.
  intros nw d u. unfold authenticate. destruct (d u) as [r|]; [|discriminate].
  intros H. exists r. split; auto. now apply check_live_ok.
Qed.

Lemma authorise_ok : forall nw d u n, authorise nw d u n = AOk ->
  exists r, d u = Some r /\ (0 < fst (d_credit r))%Z /\ (0 < snd (d_credit r))%Z /\ (nw <= d_exp r)%Z
            /\ (n < cap_read r)%Z.
Proof.
  intros nw d u n. unfold authorise. destruct (d u) as [r|]; [|discriminate].
  destruct (check_live nw r) eqn:E; try discriminate.
  destruct (Z.leb_spec (cap_read r) n); [discriminate|]. intros _.
  exists r. split; auto. apply check_live_ok in E. tauto.
Qed.

Lemma cap_read_range : forall r, (0 <= cap_read r < two32)%Z.
Proof. intros. unfold cap_read. apply Z.mod_pos_bound. reflexivity. Qed.

(* exhausted, expired or unknown users are refused, whatever else holds *)
Lemma no_credit_refused : forall nw d u n,
  (match d u with
   | None => True
   | Some r => (fst (d_credit r) <= 0)%Z \/ (snd (d_credit r) <= 0)%Z \/ (d_exp r < nw)%Z
   end) ->
  authenticate nw d u <> AOk /\ authorise nw d u n <> AOk.
Proof.
  intros nw d u n H. split; intro E.
  - apply authenticate_ok in E. destruct E as [r [Hr ?]]. rewrite Hr in H. lia.
  - apply authorise_ok in E. destruct E as [r [Hr ?]]. rewrite Hr in H. lia.
Qed.

(* ------------------------------------------------------------------ what a step does to session tables *)
(* the session table of a record grows only by the admission step of GetSession *)
Lemma tstep_sess_growth : forall c s t ch s' r,
  tstep c s t ch = Some s' ->
  length (r_sess (recs s' r)) <= length (r_sess (recs s r))
  \/ (exists u sd, thr s t = D3 u sd r /\ slook sd (r_sess (recs s r)) = None
        /\ r_sess (recs s' r) = (sd, nses s) :: r_sess (recs s r) /\ nses s' = S (nses s)
        /\ r_uid (recs s' r) = r_uid (recs s r) /\ r_bypass (recs s' r) = r_bypass (recs s r)
        /\ (r_bypass (recs s r) = true \/
            authorise (now s) (db s) (r_uid (recs s r)) (Z.of_nat (length (r_sess (recs s r)))) = AOk)).
Proof.
  intros c s t ch s' r H.
  tstep_cases H c s t; sim.
  all: try (left; apply Nat.le_refl).
  all: try nullify_norm.
  all: try (left; apply Nat.le_refl).
  all: try match goal with |- context [upd (recs _) ?a _ ?b] =>
         let e := fresh "e" in
         destruct (Nat.eq_dec b a) as [e|e];
         [ rewrite !(upd_eq _ _ _ _ _ e) | rewrite !(upd_other _ _ _ _ _ e); left; apply Nat.le_refl ] end.
  all: try subst; simr.
  all: try (left; apply Nat.le_refl).
  all: try (left; match goal with H : sdel _ _ = ?l |- context [length ?l] => rewrite <- H; apply sdel_length end).
  all: try (left; cbn [length]; lia).
  all: right; do 2 eexists; repeat split; eauto.
  all: match goal with
       | H : r_bypass _ = true |- _ => left; exact H
       | H : authorise _ _ _ _ = AOk |- _ => right; exact H
       end.
Qed.

Lemma tstep_rec_frame : forall c s t ch s' r,
  tstep c s t ch = Some s' ->
  nrec s <= nrec s'
  /\ (r < nrec s -> r_uid (recs s' r) = r_uid (recs s r) /\ r_bypass (recs s' r) = r_bypass (recs s r))
  /\ (nrec s <= r -> r < nrec s' -> r_sess (recs s' r) = []).
Proof.
  intros c s t ch s' r H.
  tstep_cases H c s t; sim.
  all: try nullify_norm.
  all: split; [lia|]; split; intros.
  all: try lia.
  all: try (split; reflexivity).
  all: try match goal with |- context [upd (recs _) ?a _ ?b] =>
         let e := fresh "e" in
         destruct (Nat.eq_dec b a) as [e|e];
         [ rewrite !(upd_eq _ _ _ _ _ e) | rewrite !(upd_other _ _ _ _ _ e) ] end.
  all: try subst; simr; try lia; try (split; reflexivity); try reflexivity.
  all: split; [reflexivity | symmetry; assumption].
Qed.

Lemma step_sess_growth : forall c s l s' r,
  step c s l = Some s' ->
  length (r_sess (recs s' r)) <= length (r_sess (recs s r))
  \/ (exists t ch u sd, l = Run t ch /\ thr s t = D3 u sd r /\ slook sd (r_sess (recs s r)) = None
        /\ r_sess (recs s' r) = (sd, nses s) :: r_sess (recs s r) /\ nses s' = S (nses s)
        /\ (r_bypass (recs s r) = true \/
            authorise (now s) (db s) (r_uid (recs s r)) (Z.of_nat (length (r_sess (recs s r)))) = AOk)).
Proof.
  intros c s l s' r H. destruct l; cbn [step] in H.
  - destruct (start_pc s o); [|discriminate]. injection H as <-. left. sim. apply Nat.le_refl.
  - destruct (Nat.ltb t (nthr s)); [|discriminate].
    destruct (tstep_sess_growth _ _ _ _ _ r H) as [Hl|(u&sd&H1&H2&H3&H4&_&_&H7)]; [left; exact Hl|].
    right. exists t, ch, u, sd. auto 8.
  - destruct (_ && _); [|discriminate]. destruct (r_bypass _); injection H as <-; left; [apply Nat.le_refl|].
    sim. destruct (Nat.eq_dec r (s_owner (sess s k))) as [e|e];
      [rewrite (upd_eq _ _ _ _ _ e); simr; rewrite e; apply Nat.le_refl | rewrite (upd_other _ _ _ _ _ e); apply Nat.le_refl].
  - destruct (Nat.ltb k (nses s)); [|discriminate]. injection H as <-. left. sim. apply Nat.le_refl.
  - destruct a; injection H as <-; left; sim; apply Nat.le_refl.
  - destruct (0 <=? d)%Z; [|discriminate]. injection H as <-. left. sim. apply Nat.le_refl.
Qed.

Lemma step_rec_frame : forall c s l s' r,
  step c s l = Some s' ->
  nrec s <= nrec s'
  /\ (r < nrec s -> r_uid (recs s' r) = r_uid (recs s r) /\ r_bypass (recs s' r) = r_bypass (recs s r))
  /\ (nrec s <= r -> r < nrec s' -> r_sess (recs s' r) = []).
Proof.
  intros c s l s' r H. destruct l; cbn [step] in H.
  - destruct (start_pc s o); [|discriminate]. injection H as <-. sim. repeat split; auto; lia.
  - destruct (Nat.ltb t (nthr s)); [|discriminate]. eapply tstep_rec_frame; eauto.
  - destruct (_ && _); [|discriminate]. destruct (r_bypass _) eqn:Eb; injection H as <-; [repeat split; auto; lia|].
    sim. split; [lia|]. split; intros; [|lia].
    destruct (Nat.eq_dec r (s_owner (sess s k))) as [e|e];
      [rewrite !(upd_eq _ _ _ _ _ e); simr; rewrite e; auto | rewrite !(upd_other _ _ _ _ _ e); auto].
  - destruct (Nat.ltb k (nses s)); [|discriminate]. injection H as <-. sim. repeat split; auto; lia.
  - destruct a; injection H as <-; sim; repeat split; auto; lia.
  - destruct (0 <=? d)%Z; [|discriminate]. injection H as <-. sim. repeat split; auto; lia.
Qed.

(* ------------------------------------------------------------------ C15_one_session_per_id, C15_no_sharing *)
Section Sessions.
Variables (c : cfg) (d : dbmap) (nw : Z) (s : state).
Hypothesis HR : reachable c d nw s.

(* the session table of a record is a partial injection  session id <-> session *)
Lemma table_injective : forall r sd1 k1 sd2 k2, r < nrec s ->
  In (sd1, k1) (r_sess (recs s r)) -> In (sd2, k2) (r_sess (recs s r)) ->
  (sd1 = sd2 <-> k1 = k2).
Proof.
  intros r sd1 k1 sd2 k2 Hr H1 H2. pose proof (reachable_WF _ _ _ _ HR) as W.
  split; intro E.
  - subst sd2. pose proof (in_slook _ _ _ (w_nodup _ _ W r Hr) H1) as E1.
    pose proof (in_slook _ _ _ (w_nodup _ _ W r Hr) H2) as E2. congruence.
  - subst k2. destruct (w_map _ _ W _ _ _ Hr H1) as (_&_&E1).
    destruct (w_map _ _ W _ _ _ Hr H2) as (_&_&E2). congruence.
Qed.

(* every admitted connection joined a session that was created by the record it resolved,
   under the session id it presented, for the UID it presented; and as long as that session is
   live it IS the session stored under (record, session id) *)
Lemma admission_joined : forall a, In a (g_log s) ->
  a_rec a < nrec s /\ a_ses a < nses s
  /\ s_owner (sess s (a_ses a)) = a_rec a /\ s_sid (sess s (a_ses a)) = a_sid a
  /\ r_uid (recs s (a_rec a)) = a_uid a
  /\ (s_closed (sess s (a_ses a)) = false ->
      slook (a_sid a) (r_sess (recs s (a_rec a))) = Some (a_ses a)).
Proof.
  intros a Ha. pose proof (reachable_WF _ _ _ _ HR) as W.
  destruct (w_log _ _ W a Ha) as (H1&H2&H3&H4&H5). repeat split; auto.
  intros Hc. pose proof (w_live _ _ W _ H2 Hc) as Hl. now rewrite H3, H4 in Hl.
Qed.

(* same record, same session id, both sessions live: the same session (hence the same key) *)
Lemma same_id_same_session : forall a1 a2, In a1 (g_log s) -> In a2 (g_log s) ->
  a_rec a1 = a_rec a2 -> a_sid a1 = a_sid a2 ->
  s_closed (sess s (a_ses a1)) = false -> s_closed (sess s (a_ses a2)) = false ->
  a_ses a1 = a_ses a2.
Proof.
  intros a1 a2 H1 H2 Er Es C1 C2.
  destruct (admission_joined a1 H1) as (_&_&_&_&_&L1). destruct (admission_joined a2 H2) as (_&_&_&_&_&L2).
  specialize (L1 C1). specialize (L2 C2). rewrite Er, Es in L1. congruence.
Qed.

(* same UID and session id: the same session, PROVIDED the sessions are owned in the sense of
   C17 (with finding F5 one UID can have two records; see C17_refuted_orphan) *)
Lemma same_uid_sid_same_session : forall a1 a2, owned s ->
  In a1 (g_log s) -> In a2 (g_log s) ->
  a_uid a1 = a_uid a2 -> a_sid a1 = a_sid a2 ->
  r_bypass (recs s (a_rec a1)) = false -> r_bypass (recs s (a_rec a2)) = false ->
  s_closed (sess s (a_ses a1)) = false -> s_closed (sess s (a_ses a2)) = false ->
  a_ses a1 = a_ses a2.
Proof.
  intros a1 a2 Ho H1 H2 Eu Es B1 B2 C1 C2.
  destruct (admission_joined a1 H1) as (_&K1&O1&_&U1&_). destruct (admission_joined a2 H2) as (_&K2&O2&_&U2&_).
  apply same_id_same_session; auto.
  pose proof (Ho _ K1 C1) as T1. pose proof (Ho _ K2 C2) as T2. cbv zeta in T1, T2.
  rewrite O1 in T1. rewrite O2 in T2. destruct (T1 B1) as [T1' _]. destruct (T2 B2) as [T2' _].
  rewrite U1 in T1'. rewrite U2, <- Eu in T2'. congruence.
Qed.

(* different session ids or different UIDs never share a session *)
Lemma no_sharing : forall a1 a2, In a1 (g_log s) -> In a2 (g_log s) ->
  a_ses a1 = a_ses a2 -> a_uid a1 = a_uid a2 /\ a_sid a1 = a_sid a2 /\ a_rec a1 = a_rec a2.
Proof.
  intros a1 a2 H1 H2 E.
  destruct (admission_joined a1 H1) as (_&_&O1&S1&U1&_). destruct (admission_joined a2 H2) as (_&_&O2&S2&U2&_).
  rewrite E in *. repeat split; congruence.
Qed.
End Sessions.

(* ------------------------------------------------------------------ C15_cap, C15_no_credit_no_session *)
(* whenever the session table of a limited user's record grows, AuthoriseNewSession has just
   said yes: the user exists, both credits are positive, it has not expired, and the table had
   fewer entries than the cap (read unsigned) *)
Lemma admission_checked : forall c d nw s l s' r,
  reachable c d nw s -> step c s l = Some s' ->
  r_bypass (recs s r) = false ->
  length (r_sess (recs s r)) < length (r_sess (recs s' r)) ->
  exists dr, db s (r_uid (recs s r)) = Some dr
    /\ (0 < fst (d_credit dr))%Z /\ (0 < snd (d_credit dr))%Z /\ (now s <= d_exp dr)%Z
    /\ (Z.of_nat (length (r_sess (recs s' r))) <= cap_read dr)%Z
    /\ length (r_sess (recs s' r)) = S (length (r_sess (recs s r))).
Proof.
  intros c d nw s l s' r HR H Hb Hlt.
  destruct (step_sess_growth _ _ _ _ r H) as [Hl|(t&ch&u&sd&_&_&_&H4&_&H6)]; [lia|].
  destruct H6 as [H6|H6]; [congruence|].
  apply authorise_ok in H6. destruct H6 as (dr&E1&E2&E3&E4&E5).
  exists dr. rewrite H4. cbn [length]. repeat split; auto. lia.
Qed.

(* states reached while the configured cap of user u was at most cp whenever a step was taken *)
Definition cap_le (s : state) (u : N) (cp : Z) : Prop :=
  forall dr, db s u = Some dr -> (cap_read dr <= cp)%Z.

Inductive reach_capped (c : cfg) (d : dbmap) (nw : Z) (u : N) (cp : Z) : state -> Prop :=
| rc_init : reach_capped c d nw u cp (init d nw)
| rc_step : forall s l s', reach_capped c d nw u cp s -> cap_le s u cp ->
            step c s l = Some s' -> reach_capped c d nw u cp s'.

Lemma reach_capped_reachable : forall c d nw u cp s, reach_capped c d nw u cp s -> reachable c d nw s.
Proof.
  induction 1 as [|s l s' _ [ls IH] _ Hs]; [exists []; reflexivity|].
  exists (ls ++ [l]). revert IH. generalize (init d nw). induction ls as [|x ls IHl]; cbn; intros s0 E.
  - injection E as ->. now rewrite Hs.
  - destruct (step c s0 x); [auto | discriminate].
Qed.

Lemma cap_respected : forall c d nw u cp s, (0 <= cp)%Z -> reach_capped c d nw u cp s ->
  forall r, r < nrec s -> r_uid (recs s r) = u -> r_bypass (recs s r) = false ->
  (Z.of_nat (length (r_sess (recs s r))) <= cp)%Z.
Proof.
  intros c d nw u cp s Hcp HR. induction HR as [|s l s' HR IH Hcap Hs]; intros r Hr Hu Hb.
  - cbn in Hr. lia.
  - destruct (step_rec_frame _ _ _ _ r Hs) as (Hn&Hold&Hnew).
    destruct (Nat.lt_ge_cases r (nrec s)) as [Lt|Ge].
    + destruct (Hold Lt) as [Eu Eb]. rewrite Eu in Hu. rewrite Eb in Hb.
      specialize (IH r Lt Hu Hb).
      destruct (Nat.le_gt_cases (length (r_sess (recs s' r))) (length (r_sess (recs s r)))) as [Le|Gt]; [lia|].
      destruct (admission_checked _ _ _ _ _ _ r (reach_capped_reachable _ _ _ _ _ _ HR) Hs Hb Gt)
        as (dr&E1&_&_&_&E5&_).
      rewrite Hu in E1. specialize (Hcap _ E1). lia.
    + rewrite (Hnew Ge Hr). cbn. lia.
Qed.
