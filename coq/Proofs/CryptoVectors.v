(* Published test vectors for the Gallina ciphers, evaluated inside Coq (vm_compute), so that
   extraction is not the only path on which the primitives are exercised.  The same
   primitives are compared with Go's implementations on every run (C04 correspondence). *)
From Coq Require Import NArith List String Ascii.
From Cloak Require Import Model.Crypto.CBytes Model.Crypto.Salsa20 Model.Crypto.ChaCha20
  Model.Crypto.Poly1305 Model.Crypto.ChaChaPoly Model.Crypto.AES Model.Crypto.GHASH Model.Crypto.GCM.
Import ListNotations.
Local Open Scope N_scope.

Definition str (s : string) : list N := map N_of_ascii (list_ascii_of_string s).

(* Salsa20 specification (Bernstein), section 9: Salsa20_{k0,k1}(n) *)
Example salsa20_spec_expansion :
  salsa20_block (nrange 1 16 ++ nrange 201 16) (nrange 101 8) (le_num (nrange 109 8)) =
  [69;37;68;39;41;15;107;193;255;139;122;6;170;233;217;98;89;144;182;106;21;51;200;65;239;49;222;
   34;215;114;40;126;104;197;7;225;197;153;31;2;102;78;76;176;84;245;246;184;177;160;133;130;6;72;
   149;119;192;195;132;236;234;103;246;74].
Proof. vm_compute. reflexivity. Qed.

(* RFC 8439 section 2.3.2: ChaCha20 block function *)
Example chacha20_rfc8439_2_3_2 :
  be_num (chacha20_block (nrange 0 32) [0;0;0;9;0;0;0;0x4a;0;0;0;0] 1) =
  0x10f1e7e4d13b5915500fdd1fa32071c4c7d1f4c733c068030422aa9ac3d46c4ed2826446079faa0914c2d705d98b02a2b5129cd1de164eb9cbd083e8a2503c4e.
Proof. vm_compute. reflexivity. Qed.

(* RFC 8439 section 2.5.2: Poly1305 *)
Example poly1305_rfc8439_2_5_2 :
  be_num (poly1305 (be_bytes 32 0x85d6be7857556d337f4452fe42d506a80103808afb0db2fd4abff6af4149f51b)
                   (str "Cryptographic Forum Research Group")) =
  0xa8061dc1305136c6c22b8baf0c0127a9.
Proof. vm_compute. reflexivity. Qed.

(* RFC 8439 section 2.8.2: AEAD_CHACHA20_POLY1305 *)
Definition rfc_sunscreen : list N :=
  str "Ladies and Gentlemen of the class of '99: If I could offer you only one tip for the future, sunscreen would be it.".
Definition rfc_aead_key := nrange 0x80 32.
Definition rfc_aead_nonce : list N := [7;0;0;0;0x40;0x41;0x42;0x43;0x44;0x45;0x46;0x47].
Definition rfc_aead_aad : list N := [0x50;0x51;0x52;0x53;0xc0;0xc1;0xc2;0xc3;0xc4;0xc5;0xc6;0xc7].
Example chachapoly_rfc8439_2_8_2 :
  be_num (chachapoly_seal rfc_aead_key rfc_aead_nonce rfc_sunscreen rfc_aead_aad) =
  0xd31a8d34648e60db7b86afbc53ef7ec2a4aded51296e08fea9e2b5a736ee62d63dbea45e8ca9671282fafb69da92728b1a71de0a9e060b2905d6a5b67ecd3b3692ddbd7f2d778b8c9803aee328091b58fab324e4fad675945585808b4831d7bc3ff4def08e4b7a9de576d26586cec64b61161ae10b594f09e26a7e902ecbd0600691.
Proof. vm_compute. reflexivity. Qed.
Example chachapoly_rfc8439_open :
  chachapoly_open rfc_aead_key rfc_aead_nonce
    (chachapoly_seal rfc_aead_key rfc_aead_nonce rfc_sunscreen rfc_aead_aad) rfc_aead_aad = Some rfc_sunscreen.
Proof. vm_compute. reflexivity. Qed.
(* a flipped tag bit is refused *)
Example chachapoly_bad_tag :
  chachapoly_open rfc_aead_key rfc_aead_nonce
    (chachapoly_seal rfc_aead_key rfc_aead_nonce [1;2;3] [] ++ [0]) [] = None.
Proof. vm_compute. reflexivity. Qed.

(* FIPS 197 appendix B / C: S-box entries, AES-128 and AES-256 example vectors *)
Example aes_sbox_entries : map sbox [0; 1; 0x53; 0xff] = [0x63; 0x7c; 0xed; 0x16].
Proof. vm_compute. reflexivity. Qed.
Definition fips_pt : list N := be_bytes 16 0x00112233445566778899aabbccddeeff.
Example aes128_fips197_c1 :
  be_num (aes_encrypt (nrange 0 16) fips_pt) = 0x69c4e0d86a7b0430d8cdb78070b4c55a.
Proof. vm_compute. reflexivity. Qed.
Example aes256_fips197_c3 :
  be_num (aes_encrypt (nrange 0 32) fips_pt) = 0x8ea2b7ca516745bfeafc49904b496089.
Proof. vm_compute. reflexivity. Qed.

(* McGrew-Viega GCM test cases 1, 2, 4 (AES-128) and 16 (AES-256, with AAD) *)
Example gcm_tc1 : be_num (gcm_seal (zeros 16) (zeros 12) [] []) = 0x58e2fccefa7e3061367f1d57a4e7455a.
Proof. vm_compute. reflexivity. Qed.
Example gcm_tc2 :
  be_num (gcm_seal (zeros 16) (zeros 12) (zeros 16) []) =
  0x0388dace60b6a392f328c2b971b2fe78ab6e47d42cec13bdf53a67b21257bddf.
Proof. vm_compute. reflexivity. Qed.
Definition gcm_p4 : list N := be_bytes 60
  0xd9313225f88406e5a55909c5aff5269a86a7a9531534f7da2e4c303d8a318a721c3c0c95956809532fcf0e2449a6b525b16aedf5aa0de657ba637b39.
Definition gcm_a4 : list N := be_bytes 20 0xfeedfacedeadbeeffeedfacedeadbeefabaddad2.
Definition gcm_iv4 : list N := be_bytes 12 0xcafebabefacedbaddecaf888.
Example gcm_tc4 :
  be_num (gcm_seal (be_bytes 16 0xfeffe9928665731c6d6a8f9467308308) gcm_iv4 gcm_p4 gcm_a4) =
  0x42831ec2217774244b7221b784d0d49ce3aa212f2c02a4e035c17e2329aca12e21d514b25466931c7d8f6a5aac84aa051ba30b396a0aac973d58e0915bc94fbc3221a5db94fae95ae7121a47.
Proof. vm_compute. reflexivity. Qed.
Example gcm_tc16 :
  be_num (gcm_seal (be_bytes 32 0xfeffe9928665731c6d6a8f9467308308feffe9928665731c6d6a8f9467308308)
                   gcm_iv4 gcm_p4 gcm_a4) =
  0x522dc1f099567d07f47f37a32a84427d643a8cdcbfe5c0c97598a2bd2555d1aa8cb08e48590dbb3da7b08b1056828838c5f61e6393ba7a0abcc9f66276fc6ece0f4e1768cddf8853bb2d551b.
Proof. vm_compute. reflexivity. Qed.
Example gcm_tc4_open :
  gcm_open (be_bytes 16 0xfeffe9928665731c6d6a8f9467308308) gcm_iv4
    (gcm_seal (be_bytes 16 0xfeffe9928665731c6d6a8f9467308308) gcm_iv4 gcm_p4 gcm_a4) gcm_a4 = Some gcm_p4.
Proof. vm_compute. reflexivity. Qed.
