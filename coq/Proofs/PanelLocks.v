(* C17, first half: the bookkeeping locks are acquired in one global order, hence no reachable
   state of any number of threads is a deadlock.  Ranks: usageUpdateQueueM < activeUsersM <
   ActiveUser.sessionsM; a thread only requests locks of higher rank than those it holds.
   Go's RWMutex gives a waiting writer preference over new readers; the argument below only
   uses "a lock that cannot be taken has an owner whose program counter says it holds it", which
   is also true with writer preference (a reader refused because of a waiting writer: that
   writer waits for the current owners). *)
From Coq Require Import ZArith NArith List Bool Lia Arith.
From Cloak Require Import Model.Panel.
Import ListNotations.

Ltac sim :=
  cbn [table nrec recs nses sess queue db now lkQ lkA lkS nthr thr g_cnt g_chg g_nou g_adm g_log
       set_table set_nrec set_recs set_nses set_sess set_queue set_db set_now set_lkQ set_lkA set_lkS
       set_nthr set_thr set_g_cnt set_g_chg set_g_nou set_g_adm set_g_log goto set_rec set_lkS1
       rw_w rw_r rw_lock rw_unlock rw_rlock rw_runlock] in *.

(* which locks a program counter holds *)
Definition holdsQ (c : cfg) (p : pc) : bool :=
  match p with
  | TN2 _ _ _ _ | U2 _ | M1 _ _ | M2 _ _ _ | M3 _ _ _ _ | M4 _ _ _ _ | M5 _ _ _ | M6 _ _ _ => true
  | U1 _ => negb (prefix_order c)
  | _ => false
  end.
Definition holdsAW (c : cfg) (p : pc) : bool :=
  match p with
  | D1 _ _ | TD1 _ _ _ | U2 _ => true
  | U1 _ => prefix_order c
  | _ => false
  end.
Definition holdsAR (p : pc) : bool :=
  match p with M2 _ _ _ | M6 _ _ _ | M10 _ _ => true | _ => false end.
Definition holdsSW (p : pc) (r : nat) : bool :=
  match p with
  | D3 _ _ r' | C1 r' _ | TC1 r' _ _ => Nat.eqb r' r
  | _ => false
  end.
Definition holdsSR (p : pc) (r : nat) : bool :=
  match p with M4 _ r' _ _ => Nat.eqb r' r | _ => false end.

Record LInv (c : cfg) (s : state) : Prop := {
  li_Q : forall t, lkQ s = Some t -> t < nthr s /\ holdsQ c (thr s t) = true;
  li_AW : forall t, rw_w (lkA s) = Some t -> t < nthr s /\ holdsAW c (thr s t) = true;
  li_AR : forall t, In t (rw_r (lkA s)) -> t < nthr s /\ holdsAR (thr s t) = true;
  li_SW : forall r t, rw_w (lkS s r) = Some t -> t < nthr s /\ holdsSW (thr s t) r = true;
  li_SR : forall r t, In t (rw_r (lkS s r)) -> t < nthr s /\ holdsSR (thr s t) r = true
}.

Lemma LInv_init : forall c d nw, LInv c (init d nw).
Proof. intros; constructor; cbn; intros; try discriminate; try contradiction. Qed.

Lemma upd_same : forall A (f : nat -> A) i x, upd f i x i = x.
Proof. intros; unfold upd; now rewrite Nat.eqb_refl. Qed.
Lemma upd_other : forall A (f : nat -> A) i x j, j <> i -> upd f i x j = f j.
Proof. intros; unfold upd; destruct (Nat.eqb_spec j i); congruence. Qed.

Lemma in_filter_ne : forall t t1 l,
  In t1 (filter (fun x => negb (Nat.eqb x t)) l) -> In t1 l /\ t1 <> t.
Proof.
  intros t t1 l H. apply filter_In in H. destruct H as [H1 H2]. split; auto.
  destruct (Nat.eqb_spec t1 t); [discriminate | assumption].
Qed.

Lemma seq_pc_noQ : forall c rest r k, holdsQ c (seq_pc rest r k) = false.
Proof. intros; destruct rest as [|[] ?]; cbn; try reflexivity; destruct k; reflexivity. Qed.
Lemma seq_pc_noAW : forall c rest r k, holdsAW c (seq_pc rest r k) = false.
Proof. intros; destruct rest as [|[] ?]; cbn; try reflexivity; destruct k; reflexivity. Qed.
Lemma seq_pc_noAR : forall rest r k, holdsAR (seq_pc rest r k) = false.
Proof. intros; destruct rest as [|[] ?]; cbn; try reflexivity; destruct k; reflexivity. Qed.
Lemma seq_pc_noSW : forall rest r k r', holdsSW (seq_pc rest r k) r' = false.
Proof. intros; destruct rest as [|[] ?]; cbn; try reflexivity; destruct k; reflexivity. Qed.
Lemma seq_pc_noSR : forall rest r k r', holdsSR (seq_pc rest r k) r' = false.
Proof. intros; destruct rest as [|[] ?]; cbn; try reflexivity; destruct k; reflexivity. Qed.

(* a program counter that holds nothing *)
Definition holds_none (c : cfg) (p : pc) : Prop :=
  holdsQ c p = false /\ holdsAW c p = false /\ holdsAR p = false
  /\ (forall r, holdsSW p r = false) /\ (forall r, holdsSR p r = false).

Lemma seq_pc_none : forall c rest r k, holds_none c (seq_pc rest r k).
Proof.
  intros; repeat split; intros;
  auto using seq_pc_noQ, seq_pc_noAW, seq_pc_noAR, seq_pc_noSW, seq_pc_noSR.
Qed.
Lemma m9_none : forall c k, holds_none c (m9 k).
Proof. intros; destruct k; repeat split. Qed.
Lemma term_enter_none : forall c c' r k, holds_none c (term_enter c' r k).
Proof. intros; apply seq_pc_none. Qed.

(* ------------------------------------------------------------------ preservation *)
Ltac inv_some :=
  match goal with
  | H : Some _ = Some _ |- _ => injection H as H; try subst
  | H : None = Some _ |- _ => discriminate H
  | H : Some _ = None |- _ => discriminate H
  end.

Lemma rw_can_w_true : forall l, rw_can_w l = true -> rw_w l = None /\ rw_r l = [].
Proof. intros [w r]; unfold rw_can_w; cbn; destruct w, r; intros; try discriminate; auto. Qed.
Lemma rw_can_r_true : forall l, rw_can_r l = true -> rw_w l = None.
Proof. intros [w r]; unfold rw_can_r; cbn; destruct w; intros; try discriminate; auto. Qed.

(* the generic shape of a thread step as far as locks are concerned *)
Section Pres.
Variable c : cfg.
Variable s : state.
Variable t : nat.
Hypothesis Ht : t < nthr s.
Hypothesis HI : LInv c s.

(* the new program counter holds exactly what the old one held: no lock operation *)
Lemma pres_same : forall p' s',
  lkQ s' = lkQ s -> lkA s' = lkA s -> lkS s' = lkS s -> nthr s' = nthr s ->
  thr s' = upd (thr s) t p' ->
  (holdsQ c (thr s t) = true -> holdsQ c p' = true) ->
  (holdsAW c (thr s t) = true -> holdsAW c p' = true) ->
  (holdsAR (thr s t) = true -> holdsAR p' = true) ->
  (forall r, holdsSW (thr s t) r = true -> holdsSW p' r = true) ->
  (forall r, holdsSR (thr s t) r = true -> holdsSR p' r = true) ->
  LInv c s'.
Proof.
  intros p' s' EQ EA ES EN ET HQ HAW HAR HSW HSR. destruct HI as [iQ iAW iAR iSW iSR].
  constructor; rewrite ?EQ, ?EA, ?ES, ?EN, ET; intros.
  - destruct (iQ _ H) as [? ?]. split; auto. destruct (Nat.eq_dec t0 t); [subst; rewrite upd_same; auto | rewrite upd_other; auto].
  - destruct (iAW _ H) as [? ?]. split; auto. destruct (Nat.eq_dec t0 t); [subst; rewrite upd_same; auto | rewrite upd_other; auto].
  - destruct (iAR _ H) as [? ?]. split; auto. destruct (Nat.eq_dec t0 t); [subst; rewrite upd_same; auto | rewrite upd_other; auto].
  - destruct (iSW _ _ H) as [? ?]. split; auto. destruct (Nat.eq_dec t0 t); [subst; rewrite upd_same; auto | rewrite upd_other; auto].
  - destruct (iSR _ _ H) as [? ?]. split; auto. destruct (Nat.eq_dec t0 t); [subst; rewrite upd_same; auto | rewrite upd_other; auto].
Qed.
End Pres.

Ltac split_upd t0 t :=
  destruct (Nat.eq_dec t0 t);
  [ subst t0; rewrite ?upd_same in * | rewrite ?upd_other in * by assumption ].

Ltac fin :=
  repeat match goal with
  | H : Some _ = Some _ |- _ => injection H as H; try subst
  | H : None = Some _ |- _ => discriminate H
  | H : In _ (_ :: _) |- _ => destruct H as [H | H]; try subst
  | H : In _ (filter _ _) |- _ => apply in_filter_ne in H; destruct H as [H ?]
  | H : In _ [] |- _ => contradiction H
  end.

Ltac use_linv :=
  match goal with
  | H : lkQ _ = Some ?t0, iQ : forall t, lkQ _ = Some t -> _ |- _ => destruct (iQ _ H) as [? ?]
  | H : rw_w (lkA _) = Some ?t0, iAW : forall t, rw_w (lkA _) = Some t -> _ |- _ => destruct (iAW _ H) as [? ?]
  | H : In ?t0 (rw_r (lkA _)), iAR : forall t, In t (rw_r (lkA _)) -> _ |- _ => destruct (iAR _ H) as [? ?]
  | H : rw_w (lkS _ ?r) = Some ?t0, iSW : forall r t, rw_w (lkS _ r) = Some t -> _ |- _ => destruct (iSW _ _ H) as [? ?]
  | H : In ?t0 (rw_r (lkS _ ?r)), iSR : forall r t, In t (rw_r (lkS _ r)) -> _ |- _ => destruct (iSR _ _ H) as [? ?]
  end.

Ltac none_facts c :=
  try match goal with |- context [seq_pc ?a ?b ?d] => destruct (seq_pc_none c a b d) as (?&?&?&?&?) end;
  try match goal with |- context [m9 ?a] => destruct (m9_none c a) as (?&?&?&?&?) end;
  try match goal with |- context [term_enter ?c' ?b ?d] => destruct (term_enter_none c c' b d) as (?&?&?&?&?) end.

Ltac finish_goal c :=
  fin; try use_linv; try congruence;
  (split; [solve [assumption | lia] |]);
  rewrite ?upd_same;
  try match goal with |- context [upd (thr _) ?t _ ?t0] => split_upd t0 t end;
  try assumption; try contradiction;
  repeat match goal with H : prefix_order _ = _ |- _ => rewrite H in * end;
  try match goal with H : thr _ _ = _ |- _ => rewrite ?H in * end;
  none_facts c;
  cbn [holdsQ holdsAW holdsAR holdsSW holdsSR negb] in *;
  rewrite ?Nat.eqb_refl;
  repeat match goal with H : prefix_order _ = _ |- _ => rewrite H in * end;
  repeat match goal with H : (_ =? _) = true |- _ => apply Nat.eqb_eq in H end;
  try reflexivity; try discriminate; try congruence.

Lemma tstep_LInv : forall c s t ch s',
  t < nthr s -> LInv c s -> tstep c s t ch = Some s' -> LInv c s'.
Proof.
  intros c s t ch s' Ht HI H. unfold tstep in H.
  destruct HI as [iQ iAW iAR iSW iSR].
  destruct (thr s t) eqn:Hpc; try discriminate;
  repeat match type of H with
  | context [match ?l with [] => _ | _ :: _ => _ end] => destruct l eqn:?
  | context [if rw_can_w ?l then _ else _] =>
      let E := fresh "E" in destruct (rw_can_w l) eqn:E; [apply rw_can_w_true in E; destruct E | discriminate]
  | context [if rw_can_r ?l then _ else _] =>
      let E := fresh "E" in destruct (rw_can_r l) eqn:E; [apply rw_can_r_true in E | discriminate]
  | context [match lkQ s with _ => _ end] => destruct (lkQ s) eqn:?; [discriminate|]
  | context [if prefix_order c then _ else _] => destruct (prefix_order c) eqn:?
  | context [match table s ?u with _ => _ end] => destruct (table s u) eqn:?
  | context [if ?b then _ else _] => destruct b eqn:?
  | context [match authenticate ?a ?b ?d with _ => _ end] => destruct (authenticate a b d) eqn:?
  | context [match slook ?a ?b with _ => _ end] => destruct (slook a b) eqn:?
  | context [match authorise ?a ?b ?d ?e with _ => _ end] => destruct (authorise a b d e) eqn:?
  | context [let '(_, _) := ?x in _] => destruct x eqn:?
  end;
  try (injection H as H; subst s'); try discriminate;
  (constructor; sim; intros;
   try (match goal with H : context [upd (lkS _) ?r _ ?r0] |- _ =>
          destruct (Nat.eq_dec r0 r);
          [subst r0; rewrite upd_same in H | rewrite upd_other in H by assumption]; sim end));
  try (finish_goal c).
Qed.

Lemma LInv_weaken_thr : forall c s p,
  LInv c s -> LInv c (set_nthr (S (nthr s)) (goto (nthr s) p s)).
Proof.
  intros c s p [iQ iAW iAR iSW iSR]. constructor; sim; intros.
  - destruct (iQ _ H); split; [lia|]. rewrite upd_other by lia. auto.
  - destruct (iAW _ H); split; [lia|]. rewrite upd_other by lia. auto.
  - destruct (iAR _ H); split; [lia|]. rewrite upd_other by lia. auto.
  - destruct (iSW _ _ H); split; [lia|]. rewrite upd_other by lia. auto.
  - destruct (iSR _ _ H); split; [lia|]. rewrite upd_other by lia. auto.
Qed.

(* a state that differs only in data / ghost fields *)
Lemma LInv_same_locks : forall c s s',
  lkQ s' = lkQ s -> lkA s' = lkA s -> lkS s' = lkS s -> nthr s' = nthr s -> thr s' = thr s ->
  LInv c s -> LInv c s'.
Proof.
  intros c s s' EQ EA ES EN ET [iQ iAW iAR iSW iSR].
  constructor; rewrite ?EQ, ?EA, ?ES, ?EN, ?ET; auto.
Qed.

Lemma step_LInv : forall c s l s', LInv c s -> step c s l = Some s' -> LInv c s'.
Proof.
  intros c s l s' HI H. destruct l; cbn [step] in H.
  - destruct (start_pc s o); [|discriminate]. injection H as <-. now apply LInv_weaken_thr.
  - destruct (Nat.ltb_spec t (nthr s)); [|discriminate]. eapply tstep_LInv; eauto.
  - destruct (_ && _); [|discriminate]. destruct (r_bypass _); injection H as <-;
      [assumption | apply LInv_same_locks with (s := s); auto].
  - destruct (Nat.ltb k (nses s)); try discriminate;
      injection H as <-; apply LInv_same_locks with (s := s); auto.
  - destruct a; injection H as <-; apply LInv_same_locks with (s := s); auto.
  - destruct (0 <=? d)%Z; [|discriminate]. injection H as <-. apply LInv_same_locks with (s := s); auto.
Qed.

Definition reachable (c : cfg) (d : dbmap) (nw : Z) (s : state) : Prop :=
  exists ls, run c (init d nw) ls = Some s.

Lemma run_inv : forall (P : state -> Prop) c,
  (forall s l s', P s -> step c s l = Some s' -> P s') ->
  forall ls s s', P s -> run c s ls = Some s' -> P s'.
Proof.
  intros P c Hstep. induction ls as [|l ls IH]; cbn; intros s s' HP H.
  - now injection H as <-.
  - destruct (step c s l) eqn:E; [|discriminate]. apply (IH s0 s'); [eapply Hstep; eauto | assumption].
Qed.

Lemma reachable_LInv : forall c d nw s, reachable c d nw s -> LInv c s.
Proof.
  intros c d nw s [ls H]. eapply (run_inv (LInv c)); eauto using step_LInv, LInv_init.
Qed.

(* ------------------------------------------------------------------ deadlock freedom *)
Definition can_run (c : cfg) (s : state) (t : nat) : Prop :=
  t < nthr s /\ exists ch s', step c s (Run t ch) = Some s'.

(* whoever holds a sessionsM can always take its next step *)
Lemma holder_S_runs : forall c s t r,
  t < nthr s -> (holdsSW (thr s t) r = true \/ holdsSR (thr s t) r = true) -> can_run c s t.
Proof.
  intros c s t r Ht H. split; auto. exists 0. cbn [step].
  destruct (Nat.ltb_spec t (nthr s)); [|lia]. unfold tstep.
  destruct (thr s t); cbn in H; destruct H as [H|H]; try discriminate; eauto.
  - destruct (patched c && _); eauto. destruct (slook _ _); eauto.
    destruct (if r_bypass _ then _ else _); eauto.
  - destruct (slook _ _); cbv iota beta;
      match goal with |- context [match ?l with [] => _ | _ :: _ => _ end] => destruct l; eauto end.
Qed.

Lemma rw_can_w_false : forall l, rw_can_w l = false ->
  (exists t, rw_w l = Some t) \/ (exists t, In t (rw_r l)).
Proof.
  intros [w r]; unfold rw_can_w; cbn. destruct w; [left; eauto|]. destruct r; [discriminate|].
  right; exists n; now left.
Qed.
Lemma rw_can_r_false : forall l, rw_can_r l = false -> exists t, rw_w l = Some t.
Proof. intros [w r]; unfold rw_can_r; cbn. destruct w; [eauto | discriminate]. Qed.

Lemma S_busy_someone_runs : forall c s r, LInv c s ->
  (rw_can_w (lkS s r) = false \/ rw_can_r (lkS s r) = false) -> exists t, can_run c s t.
Proof.
  intros c s r HI [H|H].
  - apply rw_can_w_false in H. destruct H as [[t H]|[t H]].
    + destruct (li_SW _ _ HI _ _ H). exists t. eapply holder_S_runs; eauto.
    + destruct (li_SR _ _ HI _ _ H). exists t. eapply holder_S_runs; eauto.
  - apply rw_can_r_false in H. destruct H as [t H].
    destruct (li_SW _ _ HI _ _ H). exists t. eapply holder_S_runs; eauto.
Qed.

Section FixedOrder.
Variable c : cfg.
Hypothesis Hfix : prefix_order c = false.

(* with the repaired order nobody requests anything while holding activeUsersM *)
Lemma holder_A_runs : forall s t,
  t < nthr s -> (holdsAW c (thr s t) = true \/ holdsAR (thr s t) = true) -> can_run c s t.
Proof.
  intros s t Ht H. split; auto. exists 0. cbn [step].
  destruct (Nat.ltb_spec t (nthr s)); [|lia]. unfold tstep.
  destruct (thr s t); cbn in H; rewrite ?Hfix in H; destruct H as [H|H]; try discriminate; eauto.
  - destruct (table s u); eauto. destruct (is_bypass c u); eauto. destruct (authenticate _ _ _); eauto.
  - destruct (nullify_all _ _ _ _); eauto.
  - destruct (table s u); eauto. destruct (r_bypass _); eauto.
  - destruct (table s u); eauto.
Qed.

Lemma A_busy_someone_runs : forall s, LInv c s ->
  (rw_can_w (lkA s) = false \/ rw_can_r (lkA s) = false) -> exists t, can_run c s t.
Proof.
  intros s HI [H|H].
  - apply rw_can_w_false in H. destruct H as [[t H]|[t H]].
    + destruct (li_AW _ _ HI _ H). exists t. apply holder_A_runs; auto.
    + destruct (li_AR _ _ HI _ H). exists t. apply holder_A_runs; auto.
  - apply rw_can_r_false in H. destruct H as [t H].
    destruct (li_AW _ _ HI _ H). exists t. apply holder_A_runs; auto.
Qed.

Ltac self_runs t :=
  exists t; split; [assumption|]; exists 0; cbn [step];
  match goal with |- context [Nat.ltb ?a ?b] => destruct (Nat.ltb_spec a b); [|lia] end;
  unfold tstep;
  match goal with H : thr _ _ = _ |- _ => rewrite H end.

(* a thread that holds usageUpdateQueueM either runs or waits for a lock whose holder runs *)
Lemma holder_Q_someone_runs : forall s t, LInv c s ->
  t < nthr s -> holdsQ c (thr s t) = true -> exists t', can_run c s t'.
Proof.
  intros s t HI Ht H.
  destruct (thr s t) eqn:Hpc; cbn in H; try discriminate.
  - self_runs t; eauto.
  - (* U1: requests activeUsersM *)
    destruct (rw_can_w (lkA s)) eqn:E; [|apply A_busy_someone_runs; auto].
    self_runs t. rewrite Hfix, E. eauto.
  - self_runs t. destruct (nullify_all _ _ _ _); eauto.
  - destruct todo.
    + self_runs t; eauto.
    + destruct (rw_can_r (lkA s)) eqn:E; [|apply A_busy_someone_runs; auto].
      self_runs t. rewrite E. eauto.
  - self_runs t. destruct (table s u); eauto. destruct (r_bypass _); eauto.
  - destruct (rw_can_r (lkS s r)) eqn:E; [|eapply S_busy_someone_runs; eauto].
    self_runs t. rewrite E. eauto.
  - self_runs t; eauto.
  - destruct (rw_can_r (lkA s)) eqn:E; [|apply A_busy_someone_runs; auto].
    self_runs t. rewrite E. eauto.
  - self_runs t; eauto.
Qed.

Lemma Q_busy_someone_runs : forall s t0, LInv c s -> lkQ s = Some t0 -> exists t, can_run c s t.
Proof.
  intros s t0 HI H. destruct (li_Q _ _ HI _ H). eapply holder_Q_someone_runs; eauto.
Qed.

Lemma unfinished_someone_runs : forall s t, LInv c s ->
  t < nthr s -> thr s t <> Done -> exists t', can_run c s t'.
Proof.
  intros s t HI Ht Hnd.
  destruct (thr s t) eqn:Hpc; try congruence; clear Hnd.
  all: try solve [eapply holder_Q_someone_runs; eauto; rewrite Hpc; cbn; rewrite ?Hfix; reflexivity].
  all: try solve [exists t; apply holder_A_runs; auto; rewrite Hpc; cbn; auto].
  all: try solve [exists t; eapply holder_S_runs; auto; rewrite Hpc; cbn; rewrite Nat.eqb_refl; auto].
  - destruct (rw_can_w (lkA s)) eqn:E; [|apply A_busy_someone_runs; auto]. self_runs t. rewrite E; eauto.
  - destruct (rw_can_w (lkS s r)) eqn:E; [|eapply S_busy_someone_runs; eauto]. self_runs t. rewrite E; eauto.
  - destruct (rw_can_w (lkS s r)) eqn:E; [|eapply S_busy_someone_runs; eauto]. self_runs t. rewrite E; eauto.
  - self_runs t. destruct (r_bypass _); eauto.
  - destruct (lkQ s) eqn:E; [eapply Q_busy_someone_runs; eauto|]. self_runs t. rewrite E; eauto.
  - destruct (rw_can_w (lkS s r)) eqn:E; [|eapply S_busy_someone_runs; eauto]. self_runs t. rewrite E; eauto.
  - destruct (rw_can_w (lkA s)) eqn:E; [|apply A_busy_someone_runs; auto]. self_runs t. rewrite E; eauto.
  - destruct (lkQ s) eqn:E; [eapply Q_busy_someone_runs; eauto|]. self_runs t. rewrite Hfix, E; eauto.
  - destruct (lkQ s) eqn:E; [eapply Q_busy_someone_runs; eauto|]. self_runs t. rewrite E; eauto.
  - self_runs t. destruct (upload _ _ _ _ _) as [[[? ?] ?] ?]; eauto.
  - destruct k.
    + self_runs t; eauto.
    + destruct (rw_can_r (lkA s)) eqn:E; [|apply A_busy_someone_runs; auto]. self_runs t. rewrite E; eauto.
Qed.

Theorem deadlock_free : forall d nw s, reachable c d nw s ->
  (exists t, t < nthr s /\ thr s t <> Done) ->
  exists t ch s', t < nthr s /\ step c s (Run t ch) = Some s'.
Proof.
  intros d nw s HR [t [Ht Hnd]]. apply reachable_LInv in HR.
  destruct (unfinished_someone_runs s t HR Ht Hnd) as [t' [Ht' [ch [s' H]]]]. eauto 6.
Qed.
End FixedOrder.
