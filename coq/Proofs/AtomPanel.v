(* Generated obligations: the atomic steps of the user-bookkeeping model (Model/Panel.v), checked
   against the critical sections tools/lockscan extracts from internal/server on every run
   (coq/Gen/Atomicity.v).  Panel.v is a transition system "at critical-section granularity": the
   body of a critical section is ONE step (pc D1, D3, C1, TN2, TC1, TD1, U2, M1..M6, M10).  Each
   lemma below says that what such a step does at once really happens inside one exclusive
   critical section of the named mutex in the named Go function; splitting the region (look up
   under one Lock, insert under another), moving a part out of it, or downgrading it to RLock
   makes the boolean false and the proof fail. *)
From Coq Require Import String List Bool.
From Cloak Require Import Gen.Atomicity Proofs.AtomLib.
Import ListNotations.
Local Open Scope string_scope.

Lemma panel_scan_complete : atomicity_errors = [].
Proof. vm_compute. reflexivity. Qed.

Definition users := "userPanel.activeUsers".
Definition usersM := "userPanel.activeUsersM".
Definition queue := "userPanel.usageUpdateQueue".
Definition queueM := "userPanel.usageUpdateQueueM".
Definition sessions := "ActiveUser.sessions".
Definition sessionsM := "ActiveUser.sessionsM".
Definition mux_close := "github.com/cbeuw/Cloak/internal/multiplex.Session.Close".

(* D1: look the user up, else authenticate against the manager and insert - one step *)
Lemma GetUser_lookup_authenticate_insert_one_step :
  one_step "server.userPanel.GetUser" usersM
    [is_read users; is_call "userPanel.Manager.AuthenticateUser"; is_write users] [] = true.
Proof. vm_compute. reflexivity. Qed.

Lemma GetBypassUser_lookup_insert_one_step :
  one_step "server.userPanel.GetBypassUser" usersM [is_read users; is_write users] [] = true.
Proof. vm_compute. reflexivity. Qed.

(* D3: look the session up, else authorise, create and insert - one step *)
Lemma GetSession_lookup_authorise_create_one_step :
  one_step "server.ActiveUser.GetSession" sessionsM
    [is_read sessions; is_call "userPanel.Manager.AuthoriseNewSession";
     is_call "github.com/cbeuw/Cloak/internal/multiplex.MakeSession"; is_write sessions] [] = true.
Proof. vm_compute. reflexivity. Qed.

(* C1: look up, delete, close the session and count what remains - one step *)
Lemma CloseSession_one_step :
  one_step "server.ActiveUser.CloseSession" sessionsM
    [is_read sessions; is_write sessions; is_call mux_close] [] = true.
Proof. vm_compute. reflexivity. Qed.

(* TC1 *)
Lemma closeAllSessions_one_step :
  one_step "server.ActiveUser.closeAllSessions" sessionsM
    [is_read sessions; is_write sessions; is_call mux_close] [] = true.
Proof. vm_compute. reflexivity. Qed.

(* TD1: the deletion from the user table is a critical section of its own *)
Lemma TerminateActiveUser_delete_one_step :
  one_step "server.userPanel.TerminateActiveUser" usersM [is_write users] [] = true.
Proof. vm_compute. reflexivity. Qed.

(* TN2: find-or-create the queue entry and add to it - one step *)
Lemma updateUsageQueueForOne_one_step :
  one_step "server.userPanel.updateUsageQueueForOne" queueM
    [is_read queue; is_write queue; is_atomic "usagePair.up"; is_atomic "usagePair.down"] [] = true.
Proof. vm_compute. reflexivity. Qed.

(* U2: the whole loop over the user table runs with BOTH locks held *)
Lemma updateUsageQueue_one_step :
  one_step "server.userPanel.updateUsageQueue" queueM
    [is_read users; is_call "ActiveUser.valve.Nullify"; is_read queue; is_write queue] [] = true
  /\ one_step "server.userPanel.updateUsageQueue" usersM
    [is_read users; is_call "ActiveUser.valve.Nullify"; is_read queue; is_write queue] [] = true.
Proof. split; vm_compute; reflexivity. Qed.

(* M1..M6 and the reset: the queue is read out and emptied in ONE critical section of
   usageUpdateQueueM (nothing can be added between the read-out and the reset) ... *)
Lemma commitUpdate_drain_and_reset_one_step :
  one_step "server.userPanel.commitUpdate" queueM
    [is_read queue; is_read "usagePair.up"; is_read "usagePair.down"; is_write queue] [] = true.
Proof. vm_compute. reflexivity. Qed.

(* ... M8: the upload happens with no lock held ... *)
Lemma commitUpdate_upload_unlocked :
  never_locked "server.userPanel.commitUpdate" (is_call "userPanel.Manager.UploadStatus") = true.
Proof. vm_compute. reflexivity. Qed.

(* ... M2, M10: and every look-up in the user table is under activeUsersM *)
Lemma commitUpdate_lookups_locked :
  always_under "server.userPanel.commitUpdate" usersM (is_access users) = true.
Proof. vm_compute. reflexivity. Qed.

(* M6, M4: the two read-only helpers *)
Lemma readers_locked :
  always_under "server.userPanel.isActive" usersM (is_access users) = true
  /\ always_under "server.ActiveUser.NumSession" sessionsM (is_access sessions) = true.
Proof. split; vm_compute; reflexivity. Qed.

(* who removes: a user record leaves the table only in TerminateActiveUser (TD1), a session
   leaves its record only in CloseSession / closeAllSessions (C1, TC1), the usage queue is
   emptied only by commitUpdate (M1) - the ledger theorems of C16 and the ownership theorems of
   C17 count on nothing else forgetting an entry.  None of the three maps is handed on as a value. *)
Lemma panel_entries_removed_only_by_their_steps :
  removed_only_in "server." users ["server.userPanel.TerminateActiveUser"] = true
  /\ removed_only_in "server." sessions ["server.ActiveUser.CloseSession"; "server.ActiveUser.closeAllSessions"] = true
  /\ removed_only_in "server." queue ["server.userPanel.commitUpdate"] = true
  /\ never_aliased "server." users = true /\ never_aliased "server." sessions = true
  /\ never_aliased "server." queue = true /\ deletes_are_on_fields "server." = true.
Proof. repeat split; vm_compute; reflexivity. Qed.

(* One valve per user, for as long as the record lives (C19: the rates bound the user's sessions and
   connections TOGETHER; Model/Panel.v gives a record its valve at creation and never another): no
   function assigns ActiveUser.valve or takes its address - it is set in the composite literal that
   creates the record and only read afterwards. *)
Definition never_reassigned (pkg v : string) : bool :=
  forallb (fun fe : string * list ev =>
             negb (prefix pkg (fst fe)) ||
             negb (existsb (fun e : ev => (seqb (fst e) "set" || seqb (fst e) "w" || seqb (fst e) "addr" || seqb (fst e) "del") && seqb (snd e) v) (snd fe))) fn_events.
Lemma user_valve_is_never_replaced : never_reassigned "server." "ActiveUser.valve" = true.
Proof. vm_compute. reflexivity. Qed.
Lemma user_valve_is_read : existsb (fun fe : string * list ev => existsb (is_read "ActiveUser.valve") (snd fe)) fn_events = true.
Proof. vm_compute. reflexivity. Qed.
