(* Generated obligations of C17 / C15 / C16: theorems ABOUT THE GENERATED TERMS Gen/LockGraph.v
   and Gen/Guards.v, which tools/lockscan extracts from /repo's working tree on every run.
   A source edit that adds a lock-order edge closing a cycle, acquires the bookkeeping locks in
   an order different from the hand model's, or drops a lock around an access of the session
   table / the usage queue / the user table breaks one of the proofs below on the next run. *)
From Coq Require Import String List Bool Arith Lia.
From Cloak Require Import Gen.LockGraph Gen.Guards.
Import ListNotations.
Local Open Scope string_scope.

(* ------------------------------------------------------------------ acyclicity *)
Section Graph.
Variable es : list (string * string).

Inductive path : string -> string -> Prop :=
| path1 : forall a b, In (a, b) es -> path a b
| pathS : forall a b c, In (a, b) es -> path b c -> path a c.

Definition acyclic : Prop := forall x, ~ path x x.

(* a rank that strictly increases along every edge is a certificate *)
Definition ranked (rk : string -> nat) : bool :=
  forallb (fun e => Nat.ltb (rk (fst e)) (rk (snd e))) es.

Lemma ranked_path : forall rk, ranked rk = true -> forall a b, path a b -> rk a < rk b.
Proof.
  intros rk H a b P. unfold ranked in H. rewrite forallb_forall in H.
  induction P as [a b Hin | a b c Hin P IH].
  - apply H in Hin. cbn in Hin. now apply Nat.ltb_lt.
  - apply H in Hin. cbn in Hin. apply Nat.ltb_lt in Hin. lia.
Qed.

Lemma ranked_acyclic : forall rk, ranked rk = true -> acyclic.
Proof. intros rk H x P. apply (ranked_path rk H) in P. lia. Qed.

(* the certificate is computed: longest-path layering, |es| rounds *)
Definition relax (rk : string -> nat) : string -> nat :=
  fun x => fold_left (fun m e => if String.eqb (snd e) x then Nat.max m (S (rk (fst e))) else m) es 0.
Fixpoint layers (n : nat) : string -> nat :=
  match n with O => fun _ => 0 | S m => relax (layers m) end.
Definition acyclic_check : bool := ranked (layers (S (length es))).

Lemma acyclic_check_sound : acyclic_check = true -> acyclic.
Proof. apply ranked_acyclic. Qed.
End Graph.

Lemma lockscan_understood_everything : lockscan_errors = [].
Proof. reflexivity. Qed.

Lemma server_lock_graph_acyclic : acyclic server_lock_edges.
Proof. apply acyclic_check_sound. vm_compute. reflexivity. Qed.

Lemma multiplex_lock_graph_acyclic : acyclic multiplex_lock_edges.
Proof. apply acyclic_check_sound. vm_compute. reflexivity. Qed.

(* the hand model's global order (Proofs/PanelLocks.v): usageUpdateQueueM < activeUsersM <
   sessionsM.  Every edge the code has must go upwards in it, i.e. the model's acquisition
   order is the code's. *)
Definition model_rank (m : string) : nat :=
  if String.eqb m "userPanel.usageUpdateQueueM" then 0
  else if String.eqb m "userPanel.activeUsersM" then 1
  else if String.eqb m "ActiveUser.sessionsM" then 2
  else 3.

Lemma server_edges_follow_model_order :
  forall a b, In (a, b) server_lock_edges -> model_rank a < model_rank b.
Proof.
  assert (H : ranked server_lock_edges model_rank = true) by (vm_compute; reflexivity).
  intros a b Hin. unfold ranked in H. rewrite forallb_forall in H. apply H in Hin.
  now apply Nat.ltb_lt.
Qed.

(* the three bookkeeping locks are not nested with anything else of the package *)
Lemma bookkeeping_locks_exist :
  In "userPanel.usageUpdateQueueM" server_mutexes /\ In "userPanel.activeUsersM" server_mutexes
  /\ In "ActiveUser.sessionsM" server_mutexes.
Proof. vm_compute. tauto. Qed.

(* ------------------------------------------------------------------ guarded-by *)
Definition mem_str (x : string) (l : list string) : bool := existsb (String.eqb x) l.

(* every access of variable v happens with lock m held, and there is at least one access
   (so that renaming the variable cannot make the obligation vacuous) *)
Definition guarded_check (v m : string) : bool :=
  forallb (fun g => match g with (v', _, ls) => if String.eqb v' v then mem_str m ls else true end) guards
  && existsb (fun g => match g with (v', _, _) => String.eqb v' v end) guards.

Definition guarded (v m : string) : Prop :=
  (forall f ls, In (v, f, ls) guards -> In m ls) /\ (exists f ls, In (v, f, ls) guards).

Lemma guarded_check_sound : forall v m, guarded_check v m = true -> guarded v m.
Proof.
  intros v m H. apply andb_prop in H. destruct H as [H1 H2]. split.
  - intros f ls Hin. rewrite forallb_forall in H1. specialize (H1 _ Hin). cbn in H1.
    rewrite String.eqb_refl in H1. unfold mem_str in H1. apply existsb_exists in H1.
    destruct H1 as [x [Hx E]]. apply String.eqb_eq in E. now subst.
  - apply existsb_exists in H2. destruct H2 as [[[v' f] ls] [Hin E]]. apply String.eqb_eq in E.
    subst. eauto.
Qed.

Lemma sessions_guarded : guarded "ActiveUser.sessions" "ActiveUser.sessionsM".
Proof. apply guarded_check_sound. vm_compute. reflexivity. Qed.
Lemma queue_guarded : guarded "userPanel.usageUpdateQueue" "userPanel.usageUpdateQueueM".
Proof. apply guarded_check_sound. vm_compute. reflexivity. Qed.
Lemma activeUsers_guarded_ : guarded "userPanel.activeUsers" "userPanel.activeUsersM".
Proof. apply guarded_check_sound. vm_compute. reflexivity. Qed.
