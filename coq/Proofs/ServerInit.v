(* Facts about Model/ServerInit.v: which UIDs the State built by InitState serves without consulting the user
   database, who is admin, which methods are served - and their composition with the dispatch theorems (C07). *)
From Coq Require Import NArith ZArith List Bool Arith Lia.
From Cloak Require Import Gen.Consts Model.Hello Model.FirstPacket Model.Dispatch Proofs.Hello Proofs.FirstPacket Proofs.Dispatch.
From Cloak Require Import Model.ServerInit.
Import ListNotations.
Local Open Scope N_scope.

Definition uid16 (u : list N) : Prop := length u = 16%nat.
(* a well-formed configuration: every configured UID has exactly 16 bytes (ck-server -uid generates such) *)
Definition wf_uids (rc : raw_config) : Prop :=
  Forall uid16 (rc_bypass rc) /\ (rc_admin rc = [] \/ uid16 (rc_admin rc)).

Lemma copy_arr_16 : forall arr uid, uid16 uid -> copy_arr arr uid = uid.
Proof.
  intros arr uid H. unfold copy_arr, uid16 in *. rewrite firstn_app. rewrite H. change (16 - 16)%nat with 0%nat.
  rewrite firstn_O, app_nil_r. rewrite <- H. apply firstn_all.
Qed.

Lemma bypass_loop_wf : forall l arr keys, Forall uid16 l ->
  forall uid, In uid (snd (bypass_loop arr l keys)) <-> In uid l \/ In uid keys.
Proof.
  induction l as [|u t IH]; intros arr keys H uid; cbn [bypass_loop snd In].
  - tauto.
  - inversion H as [|? ? Hu Ht]; subst. rewrite (copy_arr_16 arr u Hu). rewrite (IH u (u :: keys) Ht uid).
    cbn [In]. split; intros [A|A]; auto; destruct A; auto.
Qed.

(* THE configuration theorem: the bypass set of the State is exactly the configured BypassUID entries plus the
   configured AdminUID *)
Lemma bypass_keys_exact : forall bypass admin, Forall uid16 bypass -> (admin = [] \/ uid16 admin) ->
  forall uid, In uid (bypass_keys bypass admin) <-> In uid bypass \/ (admin <> [] /\ uid = admin).
Proof.
  intros bypass admin Hb Ha uid. unfold bypass_keys.
  pose proof (bypass_loop_wf bypass (repeat 0 16) [] Hb uid) as L.
  destruct (bypass_loop (repeat 0 16) bypass []) as [arr keys] eqn:E. cbn [snd In] in L.
  destruct admin as [|a0 at'].
  - cbn. rewrite L. split; [intros [A|[]]; auto | intros [A|[A _]]; [auto | congruence]].
  - destruct Ha as [Ha|Ha]; [discriminate|]. cbn [length Nat.eqb].
    rewrite (copy_arr_16 arr (a0 :: at') Ha). cbn [In]. rewrite L. split.
    + intros [A|[A|[]]]; [right; split; [discriminate | congruence] | left; exact A].
    + intros [A|[_ A]]; [right; left; exact A | left; congruence].
Qed.

Lemma bypass_keys_none : bypass_keys [] [] = [].
Proof. reflexivity. Qed.

(* the quirk behind the premise: a short entry inherits the tail of the entry before it (first entry: zeros) *)
Example short_entry_inherits :
  bypass_keys [repeat 0xaa 16; [1; 2; 3]] [] = [[1; 2; 3] ++ repeat 0xaa 13; repeat 0xaa 16] /\
  bypass_keys [[1; 2; 3]] [] = [[1; 2; 3] ++ repeat 0 13] /\
  bypass_keys [repeat 0xaa 16] [7; 7] = [[7; 7] ++ repeat 0xaa 14; repeat 0xaa 16] /\
  bypass_keys [repeat 0xaa 16 ++ [1; 2]] [] = [repeat 0xaa 16].
Proof. repeat split; reflexivity. Qed.

Section InitFacts.
  Variable resolve_ip : list N -> bool.
  Variable resolve_addr : list N -> list N -> bool.
  Variable db_open : list N -> option (list (list N * urec)).
  Notation init := (init_state resolve_ip resolve_addr db_open).

  Lemma init_ok_fields : forall rc io, init rc = IOk io ->
    st_staticPv (io_state io) = copy_into 32 (rc_privateKey rc) /\
    st_adminUID (io_state io) = rc_admin rc /\
    st_bypass (io_state io) = bypass_keys (rc_bypass rc) (rc_admin rc) /\
    parse_book resolve_addr (rc_book rc) = Some (st_proxyBook (io_state io)) /\
    st_usedRandom (io_state io) = [] /\ st_active (io_state io) = [] /\
    (io_local_manager io = false -> st_db (io_state io) = []) /\
    (io_local_manager io = false <-> rc_admin rc = [] \/ rc_dbPath rc = []) /\
    rc_privateKey rc <> [] /\ rc_cnc rc = false.
  Proof.
    intros rc io H. unfold init_state in H.
    destruct (rc_cnc rc) eqn:Ec; [discriminate|].
    set (void := (length (rc_admin rc) =? 0)%nat || (length (rc_dbPath rc) =? 0)%nat) in *.
    destruct (if void then Some [] else db_open (rc_dbPath rc)) as [db|] eqn:Ed; [|discriminate].
    destruct (redir_host_port (rc_redir rc)) as [host port].
    destruct (negb (resolve_ip host)); [discriminate|].
    destruct (parse_book resolve_addr (rc_book rc)) as [book|] eqn:Eb; [|discriminate].
    destruct (length (rc_privateKey rc) =? 0)%nat eqn:Ek; [discriminate|].
    inversion H; subst io; clear H. cbn.
    assert (void = true <-> rc_admin rc = [] \/ rc_dbPath rc = []) as Hv.
    { subst void. rewrite orb_true_iff, !Nat.eqb_eq, !length_zero_iff_nil. tauto. }
    repeat split; auto.
    - intros Hn. apply negb_false_iff in Hn. rewrite Hn in Ed. congruence.
    - intros Hn. apply negb_false_iff in Hn. apply Hv. exact Hn.
    - intros Hn. apply negb_false_iff. apply Hv. exact Hn.
    - intros E. rewrite E in Ek. discriminate.
  Qed.

  (* which UIDs the State serves without consulting the database *)
  Theorem init_bypass_exact : forall rc io, wf_uids rc -> init rc = IOk io ->
    forall uid, In uid (st_bypass (io_state io)) <->
                In uid (rc_bypass rc) \/ (rc_admin rc <> [] /\ uid = rc_admin rc).
  Proof.
    intros rc io [Hb Ha] H uid. destruct (init_ok_fields rc io H) as (_ & _ & E & _). rewrite E.
    apply bypass_keys_exact; assumption.
  Qed.

  Theorem init_nothing_configured : forall rc io, init rc = IOk io ->
    rc_bypass rc = [] -> rc_admin rc = [] -> st_bypass (io_state io) = [] /\ st_db (io_state io) = [].
  Proof.
    intros rc io H Eb Ea. destruct (init_ok_fields rc io H) as (_ & _ & E & _ & _ & _ & Hdb & Hm & _).
    rewrite E, Eb, Ea. split; [reflexivity|]. apply Hdb. apply Hm. left. exact Ea.
  Qed.

  (* GetUser / GetBypassUser on the fresh State: nobody is active yet *)
  Theorem init_get_user : forall rc io, wf_uids rc -> init rc = IOk io ->
    forall uid now, (exists a, get_user (io_state io) uid now = Some a) <->
      (In uid (rc_bypass rc) \/ (rc_admin rc <> [] /\ uid = rc_admin rc) \/ db_authorises (io_state io) uid now).
  Proof.
    intros rc io Hwf H uid now. rewrite get_user_some_iff.
    destruct (init_ok_fields rc io H) as (_ & _ & _ & _ & _ & Eact & _).
    rewrite (init_bypass_exact rc io Hwf H uid). unfold user_active. rewrite Eact. cbn [find_active find].
    split.
    - intros [(a & A)|[A|A]]; [discriminate | tauto | tauto].
    - intros [A|[A|A]]; tauto.
  Qed.

  (* without a database (no AdminUID or no DatabasePath: Voidmanager) the configured UIDs are ALL that is served *)
  Theorem init_void_get_user : forall rc io, wf_uids rc -> init rc = IOk io -> io_local_manager io = false ->
    forall uid now, (exists a, get_user (io_state io) uid now = Some a) <->
      (In uid (rc_bypass rc) \/ (rc_admin rc <> [] /\ uid = rc_admin rc)).
  Proof.
    intros rc io Hwf H Hv uid now. rewrite (init_get_user rc io Hwf H).
    destruct (init_ok_fields rc io H) as (_ & _ & _ & _ & _ & _ & Hdb & _).
    unfold db_authorises. rewrite (Hdb Hv). cbn [db_get].
    split; [intros [A|[A|(u & E & _)]]; [tauto | tauto | discriminate] | tauto].
  Qed.

  (* the admin gate on that State *)
  Theorem init_admin_ok : forall rc io, init rc = IOk io -> forall ci,
    admin_ok (io_state io) ci <-> rc_admin rc <> [] /\ ci_uid ci = rc_admin rc /\ ci_sid ci = 0.
  Proof.
    intros rc io H ci. destruct (init_ok_fields rc io H) as (_ & E & _). unfold admin_ok. rewrite E. tauto.
  Qed.

  (* the proxy methods served: lower-cased names of the entries whose network is tcp or udp *)
  Lemma parse_book_keys : forall l ks, parse_book resolve_addr l = Some ks ->
    forall m, In m ks <-> exists e, In e l /\ book_entry resolve_addr e = Some (Some m).
  Proof.
    induction l as [|e t IH]; intros ks H m; cbn [parse_book] in H.
    - inversion H. split; [intros [] | intros (e & [] & _)].
    - destruct (book_entry resolve_addr e) as [[k|]|] eqn:Ee; [| |discriminate];
        destruct (parse_book resolve_addr t) as [ks'|] eqn:Et; try discriminate; inversion H; subst ks; clear H.
      + cbn [In]. rewrite (IH ks' eq_refl m). split.
        * intros [A|(e' & I & B)]; [exists e; split; [left; reflexivity | congruence] | exists e'; split; [right; exact I | exact B]].
        * intros (e' & [I|I] & B); [left; congruence | right; exists e'; auto].
      + rewrite (IH ks' eq_refl m). split.
        * intros (e' & I & B). exists e'. split; [right; exact I | exact B].
        * intros (e' & [I|I] & B); [congruence | exists e'; auto].
  Qed.

  Theorem init_book : forall rc io, init rc = IOk io -> forall m,
    In m (st_proxyBook (io_state io)) <->
    exists name network address, In (name, [network; address]) (rc_book rc) /\ m = lower name /\
      (lower network = tcp \/ lower network = udp).
  Proof.
    intros rc io H m. destruct (init_ok_fields rc io H) as (_ & _ & _ & Eb & _).
    rewrite (parse_book_keys _ _ Eb m). split.
    - intros ([name pair] & I & B). unfold book_entry in B. cbn [fst snd] in B.
      destruct pair as [|network [|address [|? ?]]]; try discriminate.
      destruct (bytes_eqb (lower network) tcp || bytes_eqb (lower network) udp) eqn:En; [|discriminate].
      destruct (resolve_addr (lower network) address); [|discriminate]. inversion B; subst m.
      exists name, network, address. split; [exact I | split; [reflexivity|]].
      apply orb_prop in En as [En|En]; apply bytes_eqb_true in En; auto.
    - intros (name & network & address & I & -> & Hn).
      assert (parse_book resolve_addr (rc_book rc) <> None) as Hne by congruence.
      exists (name, [network; address]). split; [exact I|].
      (* the entry did not make parseProxyBook fail, hence its address resolved *)
      assert (forall l ks e, parse_book resolve_addr l = Some ks -> In e l -> book_entry resolve_addr e <> None) as NoErr.
      { induction l as [|e0 t IHl]; intros ks e Hp Hin; [destruct Hin|]. cbn [parse_book] in Hp.
        destruct (book_entry resolve_addr e0) as [[k|]|] eqn:Ee0; [| |discriminate];
          destruct (parse_book resolve_addr t) as [ks'|] eqn:Et; try discriminate;
          (destruct Hin as [<-|Hin]; [congruence | eapply IHl; eauto]). }
      pose proof (NoErr _ _ _ Eb I) as Hok. unfold book_entry in *. cbn [fst snd] in *.
      assert (bytes_eqb (lower network) tcp || bytes_eqb (lower network) udp = true) as En.
      { destruct Hn as [-> | ->]; cbn; reflexivity. }
      rewrite En in *. destruct (resolve_addr (lower network) address); [reflexivity | congruence].
  Qed.
End InitFacts.

(* ------------------------------------------------------------------ composed with the dispatch decision *)
Section Composed.
  Variable resolve_ip : list N -> bool.
  Variable resolve_addr : list N -> list N -> bool.
  Variable db_open : list N -> option (list (list N * urec)).
  Variable dh : list N -> list N -> option (list N).
  Variable gcm_open : list N -> list N -> list N -> list N -> option (list N).
  Hypothesis gcm_open_len : forall k n ct aad pt, gcm_open k n ct aad = Some pt -> (length pt + 16 = length ct)%nat.
  Notation init := (init_state resolve_ip resolve_addr db_open).

  (* soundness: a proxy session on the State InitState built is granted only to a valid credential whose UID is a
     configured BypassUID entry, the configured AdminUID, or authorised by the database *)
  Theorem config_proxy_sound : forall rc io, wf_uids rc -> init rc = IOk io ->
    forall p now uid sid m enc un,
    decide dh gcm_open p (io_state io) now = ProxySession uid sid m enc un ->
    exists ci, valid_cloak dh gcm_open p (io_state io) now ci /\ uid = ci_uid ci /\
      (In uid (rc_bypass rc) \/ (rc_admin rc <> [] /\ uid = rc_admin rc) \/ db_authorises (io_state io) uid now) /\
      (exists name network address, In (name, [network; address]) (rc_book rc) /\ m = lower name /\
         (lower network = tcp \/ lower network = udp)).
  Proof.
    intros rc io Hwf H p now uid sid m enc un D.
    apply (decide_proxy_iff dh gcm_open gcm_open_len) in D.
    destruct D as (ci & V & _ & _ & Hm & (a & Gu & _) & -> & _ & -> & _).
    exists ci. split; [exact V | split; [reflexivity | split]].
    - apply (init_get_user resolve_ip resolve_addr db_open rc io Hwf H). eauto.
    - apply (init_book resolve_ip resolve_addr db_open rc io H). exact Hm.
  Qed.

  (* completeness for the configured UIDs: a valid credential of a configured bypass UID (or of the admin with a
     non-zero session id) naming a served method IS served *)
  Theorem config_bypass_served : forall rc io, wf_uids rc -> init rc = IOk io ->
    forall p now ci,
    valid_cloak dh gcm_open p (io_state io) now ci -> known_enc (ci_enc ci) = true ->
    ~ (rc_admin rc <> [] /\ ci_uid ci = rc_admin rc /\ ci_sid ci = 0) ->
    In (ci_method ci) (st_proxyBook (io_state io)) ->
    (In (ci_uid ci) (rc_bypass rc) \/ (rc_admin rc <> [] /\ ci_uid ci = rc_admin rc)) ->
    decide dh gcm_open p (io_state io) now =
      ProxySession (ci_uid ci) (ci_sid ci) (ci_method ci) (ci_enc ci) (ci_unordered ci).
  Proof.
    intros rc io Hwf H p now ci V K Hna Hm Hcfg.
    apply (decide_proxy_iff dh gcm_open gcm_open_len). exists ci.
    split; [exact V | split; [exact K | split]].
    - intros Ha. apply Hna. apply (init_admin_ok resolve_ip resolve_addr db_open rc io H). exact Ha.
    - split; [exact Hm | split; [|repeat split; reflexivity]].
      destruct (init_ok_fields resolve_ip resolve_addr db_open rc io H) as (_ & _ & _ & _ & _ & Eact & _).
      assert (In (ci_uid ci) (st_bypass (io_state io))) as Hin
        by (apply (init_bypass_exact resolve_ip resolve_addr db_open rc io Hwf H); exact Hcfg).
      unfold get_user, find_active. rewrite Eact. cbn [find].
      apply mem_bytes_iff in Hin. rewrite Hin. eexists. split; [reflexivity|].
      unfold get_session. cbn [a_sessions existsb a_bypass]. reflexivity.
  Qed.

  (* and nothing else: with no database behind it (Voidmanager), a valid credential whose UID is neither a configured
     bypass entry nor the configured admin is ordinary web traffic - in particular the all-zero UID on a server
     without an AdminUID *)
  Theorem config_unconfigured_is_web : forall rc io, wf_uids rc -> init rc = IOk io -> io_local_manager io = false ->
    forall p now ci,
    auth_first_packet dh gcm_open p (io_state io) now = DOk ci ->
    ~ In (ci_uid ci) (rc_bypass rc) -> ~ (rc_admin rc <> [] /\ ci_uid ci = rc_admin rc) ->
    exists why, decide dh gcm_open p (io_state io) now = Redirect why.
  Proof.
    intros rc io Hwf H Hv p now ci A Hnb Hna. unfold decide. rewrite A.
    destruct (negb (known_enc (ci_enc ci))); [eauto|].
    destruct (is_admin (io_state io) ci) eqn:Ad.
    { apply (is_admin_iff dh gcm_open gcm_open_len) in Ad. apply (init_admin_ok resolve_ip resolve_addr db_open rc io H) in Ad.
      exfalso. apply Hna. tauto. }
    destruct (negb (mem_bytes (ci_method ci) (st_proxyBook (io_state io)))); [eauto|].
    destruct (get_user (io_state io) (ci_uid ci) now) as [a|] eqn:Gu; [|eauto].
    exfalso.
    assert (exists a, get_user (io_state io) (ci_uid ci) now = Some a) as Hex by eauto.
    apply (init_void_get_user resolve_ip resolve_addr db_open rc io Hwf H Hv) in Hex. tauto.
  Qed.
End Composed.

(* the premises are satisfiable: a bypass-only configuration without AdminUID *)
Definition ex_rc : raw_config :=
  mkRaw [([83; 115], [[84; 67; 80]; [49; 58; 49]])] [repeat 0xaa 16] [49; 46; 49; 46; 49; 46; 49] (repeat 3 32) [] [] 0 false.
Example ex_init :
  exists io, init_state (fun _ => true) (fun _ _ => true) (fun _ => None) ex_rc = IOk io /\
    st_bypass (io_state io) = [repeat 0xaa 16] /\ st_proxyBook (io_state io) = [[115; 115]] /\
    io_local_manager io = false /\ wf_uids ex_rc.
Proof.
  eexists. split; [reflexivity|]. repeat split; try reflexivity.
  - repeat constructor.
  - left; reflexivity.
Qed.
