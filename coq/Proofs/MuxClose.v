(* Consequences of the data invariant for closing (C03). *)
From Coq Require Import NArith ZArith List Bool.
From Cloak Require Import Model.Reorder Model.Mux Proofs.MuxBase Proofs.MuxSafety Proofs.MuxView
  Proofs.MuxEffect Proofs.MuxPay Proofs.MuxData Proofs.MuxLocal.
Import ListNotations.
Local Open Scope N_scope.

Lemma close_numbered_after_data k sp u ta tb s sid ls :
  fresh_run (init k sp u ta tb) ls ->
  nE (run_frames s sid (outputs k sp u ta tb ls)) + 2 < two64 ->
  forall i fr, nth_error (run_frames s sid (outputs k sp u ta tb ls)) i = Some fr -> w_cl fr <> 0 ->
    S i = length (run_frames s sid (outputs k sp u ta tb ls)) /\ w_pay fr = [] /\ w_seq fr = N.of_nat i.
Proof.
  intros Hf Hb i fr Hn Hc.
  destruct (frames_numbered k sp u ta tb s sid ls Hf Hb i fr Hn) as (H1 & _ & [H0|(_ & H2 & H3)]); [contradiction|auto].
Qed.

Lemma closed_stream_serves_buffered_then_error k sp u ta tb ls x sid n st :
  let y := reach k sp u ta tb ls in
  lookup sid (se_objs (sess y x)) = Some st -> st_closed st = true ->
  match pipe (st_rb st) with
  | [] => try_read y x sid (S n) = Some (y, R_BROKEN_STREAM, [])
  | _ => exists y', try_read y x sid (S n) = Some (y', R_OK, firstn (S n) (pipe (st_rb st)))
  end.
Proof. intros y El Hc. apply read_on_closed_stream; [apply reach_WF|assumption|assumption]. Qed.
