(* On a healthy session a stream object is closed only by its own side's Close or by the
   re-sequencer reporting the closing frame in sequence order (toBeClosed).  State-level frame
   lemmas about the closed flag of one protected object (po, pid), used for C03's exactness. *)
From Coq Require Import NArith ZArith List Bool Lia.
From Coq Require Import ZifyN ZifyBool.
From Cloak Require Import Model.Reorder Model.Mux Proofs.MuxBase Proofs.MuxSafety Proofs.MuxCalm Proofs.MuxCount Proofs.MuxUp.
Import ListNotations.
Local Open Scope N_scope.

Section Open.
Variable k : nat.
Variable po : side.
Variable pid : N.

(* the protected object is open or does not exist (yet) *)
Definition oa (y : sys) : Prop :=
  match lookup pid (se_objs (sess y po)) with Some st => st_closed st = false | None => True end.

Lemma oa_same y y' : se_objs (sess y' po) = se_objs (sess y po) -> oa y -> oa y'.
Proof. unfold oa. intros ->. auto. Qed.

Lemma side_dec (a b : side) : {a = b} + {a <> b}. Proof. decide equality. Qed.
Lemma neq_other x : x <> po -> po = other x. Proof. destruct x, po; intros H; try reflexivity; contradiction H; reflexivity. Qed.

(* an update of one object that does not close the protected one *)
Lemma oa_upd y y' x id st' :
  se_objs (sess y' x) = update id st' (se_objs (sess y x)) ->
  sess y' (other x) = sess y (other x) ->
  (x = po -> id = pid -> st_closed st' = false) -> oa y -> oa y'.
Proof.
  intros Hx Ho Hc Hoa. unfold oa in *. destruct (side_dec x po) as [->|Hne].
  - rewrite Hx. rewrite lookup_update. destruct (pid =? id) eqn:E; [|exact Hoa].
    apply Hc; [reflexivity|lia].
  - rewrite (neq_other x Hne), Ho, <- (neq_other x Hne). exact Hoa.
Qed.
Lemma oa_set_sess y x se : se_objs se = se_objs (sess y x) -> oa y -> oa (set_sess y x se).
Proof.
  intros He Hoa. unfold oa in *. rewrite sess_set. destruct (side_eqb x po) eqn:E; [|exact Hoa].
  assert (x = po) by (destruct x, po; try discriminate; reflexivity). subst x. now rewrite He.
Qed.
Lemma oa_set_conns y cs : oa y -> oa (set_conns y cs).
Proof. unfold oa. now rewrite sess_set_conns. Qed.
Lemma oa_set_pend y p : oa y -> oa (set_pend y p).
Proof. unfold oa. now rewrite sess_set_pend. Qed.
Lemma oa_set_now y t : oa y -> oa (set_now y t).
Proof. unfold oa. now rewrite sess_set_now. Qed.

(* ---- sending ---- *)
Lemma stream_emit_oa y x sid pay ch y' ch' evs ok :
  stream_emit y x sid pay ch = (y', ch', evs, ok) -> Healthy k y -> valid_picks k ch -> oa y -> oa y'.
Proof.
  intros H Hh Hv Hoa.
  destruct (stream_emit_H k _ _ _ _ _ _ _ _ _ H Hh Hv) as (_ & _ & Hok & _ & _).
  destruct (stream_emit_sess _ _ _ _ _ _ _ _ _ H) as [Ho Hs].
  destruct (lookup sid (se_objs (sess y x))) as [st|] eqn:El; [|destruct Hs as [-> _]; exact Hoa].
  rewrite (Hok ltac:(discriminate)) in Hs.
  eapply oa_upd; [rewrite Hs; reflexivity|exact Ho| |exact Hoa].
  intros -> ->. cbn. unfold oa in Hoa. rewrite El in Hoa. exact Hoa.
Qed.

Lemma write_loop_oa fuel : forall y x sid data n ch y' ch' evs n' rc,
  write_loop fuel y x sid data n ch = (y', ch', evs, n', rc) -> Healthy k y -> valid_picks k ch -> oa y -> oa y'.
Proof.
  induction fuel as [|fuel IH]; intros y x sid data n ch y' ch' evs n' rc H Hh Hv Hoa; cbn in H.
  - injection H as <- _ _ _ _. exact Hoa.
  - destruct data as [|b data']; [injection H as <- _ _ _ _; exact Hoa|].
    destruct (stream_emit y x sid _ ch) as [[[y1 ch1] evs1] ok] eqn:Ee.
    destruct (stream_emit_H k _ _ _ _ _ _ _ _ _ Ee Hh Hv) as (Hh1 & Hv1 & _).
    pose proof (stream_emit_oa _ _ _ _ _ _ _ _ _ Ee Hh Hv Hoa) as Hoa1.
    destruct ok.
    + destruct (write_loop fuel y1 x sid _ _ ch1) as [[[[y2 ch2] evs2] n2] rc2] eqn:Ew. injection H as <- _ _ _ _.
      eapply IH; eauto.
    + injection H as <- _ _ _ _. exact Hoa1.
Qed.
Lemma stream_write_oa y x sid data ch y' evs :
  stream_write y x sid data ch = (y', evs) -> Healthy k y -> valid_picks k ch -> oa y -> oa y'.
Proof.
  unfold stream_write. intros H Hh Hv Hoa. destruct (lookup _ _) as [st|]; [|injection H as <- _; exact Hoa].
  destruct (st_closed st); [injection H as <- _; exact Hoa|].
  destruct (write_loop _ y x sid data 0 ch) as [[[[y1 ch1] evs1] n] rc] eqn:Ew. injection H as <- _.
  eapply write_loop_oa; eauto.
Qed.

(* ---- closing another stream ---- *)
Lemma close_stream_oa y x sid active ch y' ch' evs rc :
  close_stream y x sid active ch = (y', ch', evs, rc) -> Healthy k y -> valid_picks k ch ->
  (x = po -> sid <> pid) -> oa y -> oa y'.
Proof.
  unfold close_stream. intros H Hh Hv Hne Hoa.
  destruct (lookup sid (se_objs (sess y x))) as [st|] eqn:El; [|injection H as <- _ _ _; exact Hoa].
  destruct (st_closed st) eqn:Ecl; [injection H as <- _ _ _; exact Hoa|].
  cbv zeta in H.
  destruct (Healthy_sess k y x Hh) as (H1 & H2 & H3 & H4 & H5).
  set (st1 := mkS _ _ true _) in H. set (y1 := set_sess y x _) in H.
  assert (Hh1 : Healthy k y1).
  { unfold y1. apply Healthy_set_sess; [exact Hh|]. apply sess_healthy_objs; [repeat split; try assumption; apply H4|].
    apply wcl_update; [exact H5|]. cbn. destruct active; [lia|eauto]. }
  assert (Hoa1 : oa y1).
  { eapply (oa_upd y y1 x sid st1); [unfold y1; rewrite sess_set_same; reflexivity|unfold y1; apply sess_set_other| |exact Hoa].
    intros Hx Hs. exfalso. exact (Hne Hx Hs). }
  destruct (if active then stream_emit y1 x sid [] ch else (y1, ch, [], true)) as [[[y2 ch2] evs2] ok] eqn:Ee.
  assert (He : Healthy k y2 /\ valid_picks k ch2 /\ oa y2).
  { destruct active.
    - destruct (stream_emit_H k _ _ _ _ _ _ _ _ _ Ee Hh1 Hv) as (Ha & Hb & _).
      split; [exact Ha|split; [exact Hb|eapply stream_emit_oa; eauto]].
    - injection Ee as <- <- _ _. auto. }
  destruct He as (Hh2 & Hv2 & Hoa2).
  destruct (negb ok); [injection H as <- _ _ _; exact Hoa2|].
  set (se' := upd_count _ _) in H.
  assert (Hoa3 : oa (set_sess y2 x se')) by (apply oa_set_sess; [reflexivity|exact Hoa2]).
  destruct (_ =? 0).
  - destruct (Healthy_sess k y2 x Hh2) as (_ & _ & K3 & _).
    assert (Hsp : se_singleplex se' = false) by exact K3. rewrite Hsp in H.
    injection H as <- _ _ _. apply oa_set_sess; [rewrite sess_set_same; reflexivity|exact Hoa3].
  - injection H as <- _ _ _. exact Hoa3.
Qed.

(* ---- receiving ---- *)
Lemma recv_frame_oa_other y x fr ch y' ch' evs :
  recv_frame y x fr ch = (y', ch', evs) -> Healthy k y -> valid_picks k ch -> w_cl fr <> 2 ->
  (x = po -> w_sid fr <> pid) -> oa y -> oa y'.
Proof.
  unfold recv_frame. intros H Hh Hv Hcl Hne Hoa.
  replace (w_cl fr =? 2) with false in H by lia.
  destruct (Healthy_sess k y x Hh) as (H1 & H2 & H3 & H4 & H5). rewrite H1 in H.
  assert (Hdel : forall y0, Healthy k y0 -> oa y0 ->
     forall r, match lookup (w_sid fr) (se_objs (sess y0 x)) with
               | None => (y0, ch, [])
               | Some st =>
                   let '(rb', tbc, _) := rb_write (st_rb st) (mkF (w_seq fr) (negb (w_cl fr =? 0)) (w_pay fr)) in
                   let y1 := set_sess y0 x (upd_objs (sess y0 x) (update (w_sid fr) (st_set_rb st rb') (se_objs (sess y0 x)))) in
                   if tbc then let '(y2, ch2, evs2, _) := close_stream y1 x (w_sid fr) false ch in (y2, ch2, evs2)
                   else (y1, ch, [])
               end = r -> oa (fst (fst r))).
  { intros y0 Hh0 Hoa0 r Hr.
    destruct (lookup (w_sid fr) (se_objs (sess y0 x))) as [st|] eqn:El; [|subst r; exact Hoa0].
    destruct (rb_write (st_rb st) _) as [[rb' tbc] er]. cbv zeta in Hr.
    pose proof (rb_store_healthy k y0 x (w_sid fr) st rb' Hh0 El) as Hh1.
    assert (Hoa1 : oa (set_sess y0 x (upd_objs (sess y0 x) (update (w_sid fr) (st_set_rb st rb') (se_objs (sess y0 x)))))).
    { eapply (oa_upd y0 _ x (w_sid fr) (st_set_rb st rb')); [rewrite sess_set_same; reflexivity|apply sess_set_other| |exact Hoa0].
      intros Hx Hs. exfalso. exact (Hne Hx Hs). }
    destruct tbc.
    - destruct (close_stream _ x (w_sid fr) false ch) as [[[y2 ch2] evs2] rc] eqn:Ecs. subst r. cbn [fst].
      eapply close_stream_oa; [exact Ecs|exact Hh1|exact Hv|exact Hne|exact Hoa1].
    - subst r. exact Hoa1. }
  destruct (lookup (w_sid fr) (se_tab (sess y x))) as [[|]|].
  - exact (Hdel y Hh Hoa _ H).
  - injection H as <- _ _. exact Hoa.
  - set (se' := upd_count _ _) in H.
    assert (Hh' : Healthy k (set_sess y x se')).
    { apply Healthy_set_sess; [exact Hh|]. unfold se'. apply sess_healthy_count, sess_healthy_acceptq, sess_healthy_tab.
      apply sess_healthy_objs; [repeat split; try assumption; apply H4|]. apply wcl_update; [exact H5|cbn; lia]. }
    assert (Hoa' : oa (set_sess y x se')).
    { eapply (oa_upd y _ x (w_sid fr) new_stream); [rewrite sess_set_same; reflexivity|apply sess_set_other| |exact Hoa].
      intros _ _. reflexivity. }
    exact (Hdel _ Hh' Hoa' _ H).
Qed.

(* a frame of the protected stream reaches its re-sequencer: the object afterwards, exactly *)
Lemma recv_frame_own y fr ch y' ch' evs :
  recv_frame y po fr ch = (y', ch', evs) -> Healthy k y -> valid_picks k ch -> WF y -> CIs y ->
  w_cl fr <> 2 -> w_sid fr = pid -> oa y ->
  let rb0 := match lookup pid (se_objs (sess y po)) with Some st => st_rb st | None => rb_init 0 end in
  let '(rb', tbc, _) := rb_write rb0 (mkF (w_seq fr) (negb (w_cl fr =? 0)) (w_pay fr)) in
  exists st', lookup pid (se_objs (sess y' po)) = Some st' /\ st_closed st' = tbc /\
              st_rb st' = (if tbc then rb_close rb' else rb') /\
              (tbc = false -> evs = [] /\ sy_conns y' = sy_conns y).
Proof.
  unfold recv_frame. intros H Hh Hv Hwf Hci Hcl Hsid Hoa.
  replace (w_cl fr =? 2) with false in H by lia.
  destruct (Healthy_sess k y po Hh) as (H1 & H2 & H3 & H4 & H5). rewrite H1 in H.
  rewrite Hsid in H.
  (* the delivery step on a state where the object exists and is open *)
  assert (Hdel : forall y0 st, Healthy k y0 -> lookup pid (se_objs (sess y0 po)) = Some st -> st_closed st = false ->
     forall r, match lookup pid (se_objs (sess y0 po)) with
               | None => (y0, ch, [])
               | Some st =>
                   let '(rb', tbc, _) := rb_write (st_rb st) (mkF (w_seq fr) (negb (w_cl fr =? 0)) (w_pay fr)) in
                   let y1 := set_sess y0 po (upd_objs (sess y0 po) (update pid (st_set_rb st rb') (se_objs (sess y0 po)))) in
                   if tbc then let '(y2, ch2, evs2, _) := close_stream y1 po pid false ch in (y2, ch2, evs2)
                   else (y1, ch, [])
               end = r ->
     let '(rb', tbc, _) := rb_write (st_rb st) (mkF (w_seq fr) (negb (w_cl fr =? 0)) (w_pay fr)) in
     exists st', lookup pid (se_objs (sess (fst (fst r)) po)) = Some st' /\ st_closed st' = tbc /\
                 st_rb st' = (if tbc then rb_close rb' else rb') /\
                 (tbc = false -> snd r = [] /\ sy_conns (fst (fst r)) = sy_conns y0)).
  { intros y0 st Hh0 El Eop r Hr. rewrite El in Hr.
    destruct (rb_write (st_rb st) _) as [[rb' tbc] er]. cbv zeta in Hr.
    set (y1 := set_sess y0 po _) in Hr.
    assert (El1 : lookup pid (se_objs (sess y1 po)) = Some (st_set_rb st rb')).
    { unfold y1. rewrite sess_set_same. cbn [se_objs upd_objs]. apply lookup_update_eq. }
    pose proof (rb_store_healthy k y0 po pid st rb' Hh0 El) as Hh1. fold y1 in Hh1.
    destruct tbc.
    - destruct (close_stream y1 po pid false ch) as [[[y2 ch2] evs2] rc] eqn:Ecs. subst r. cbn [fst].
      unfold close_stream in Ecs. rewrite El1 in Ecs. cbn [st_closed st_set_rb] in Ecs. rewrite Eop in Ecs. cbv beta iota zeta in Ecs.
      cbn [negb] in Ecs. cbv beta iota zeta in Ecs.
      set (st1 := mkS _ _ true _) in Ecs. set (y1' := set_sess y1 po _) in Ecs.
      set (se' := upd_count _ _) in Ecs.
      assert (Elx : forall yy, se_objs (sess yy po) = se_objs (sess y1' po) -> lookup pid (se_objs (sess yy po)) = Some st1).
      { intros yy ->. unfold y1'. rewrite sess_set_same. cbn [se_objs upd_objs]. apply lookup_update_eq. }
      exists st1. split; [|split; [reflexivity|split; [reflexivity|discriminate]]].
      destruct (decr32 (se_count (sess y1' po)) =? 0).
      + destruct (Healthy_sess k y1 po Hh1) as (_ & _ & K3 & _).
        assert (Hsp : se_singleplex se' = false).
        { unfold se'. cbn. unfold y1'. rewrite sess_set_same. exact K3. }
        rewrite Hsp in Ecs. injection Ecs as <- _ _ _. apply Elx. rewrite !sess_set_same. reflexivity.
      + injection Ecs as <- _ _ _. apply Elx. rewrite !sess_set_same. reflexivity.
    - subst r. cbn [fst snd]. exists (st_set_rb st rb'). split; [exact El1|split; [exact Eop|split; [reflexivity|]]].
      intros _. split; [reflexivity|]. unfold y1. apply conns_set_sess. }
  destruct (Hci po H1) as (_ & _ & T2 & T3).
  destruct (WF_sess y po Hwf) as (Hobj & _).
  destruct (lookup pid (se_tab (sess y po))) as [[|]|] eqn:Et.
  - destruct (T2 pid Et) as (st & El & Eop). cbn zeta. rewrite El.
    pose proof (Hdel y st Hh El Eop _ H) as Hd. cbn [fst snd] in Hd. exact Hd.
  - (* a closed-and-forgotten stream: impossible while the object is open or absent *)
    exfalso. unfold oa in Hoa.
    destruct (lookup pid (se_objs (sess y po))) as [st|] eqn:El.
    + destruct (Hobj _ _ El) as (_ & Hop & _). rewrite (Hop Hoa) in Et. discriminate.
    + apply (T3 pid); [rewrite Et; discriminate|exact El].
  - assert (Enone : lookup pid (se_objs (sess y po)) = None).
    { destruct (lookup pid (se_objs (sess y po))) as [st|] eqn:El; [|reflexivity].
      destruct (Hobj _ _ El) as (_ & _ & H3'). specialize (H3' H1). congruence. }
    cbn zeta. rewrite Enone.
    set (se' := upd_count _ _) in H.
    assert (Hh' : Healthy k (set_sess y po se')).
    { apply Healthy_set_sess; [exact Hh|]. unfold se'. apply sess_healthy_count, sess_healthy_acceptq, sess_healthy_tab.
      apply sess_healthy_objs; [repeat split; try assumption; apply H4|]. apply wcl_update; [exact H5|cbn; lia]. }
    assert (El' : lookup pid (se_objs (sess (set_sess y po se') po)) = Some new_stream).
    { rewrite sess_set_same. unfold se'. cbn [se_objs upd_count upd_acceptq upd_tab upd_objs]. apply lookup_update_eq. }
    pose proof (Hdel _ new_stream Hh' El' eq_refl _ H) as Hd. cbn [fst snd] in Hd.
    change (st_rb new_stream) with (rb_init 0) in Hd.
    destruct (rb_write (rb_init 0) _) as [[rb' tbc] er]. destruct Hd as (st' & A1 & A2 & A3 & A4).
    exists st'. split; [exact A1|split; [exact A2|split; [exact A3|]]].
    intros Ht. destruct (A4 Ht) as [B1 B2]. split; [exact B1|]. rewrite B2. apply conns_set_sess.
Qed.

(* ---- application calls ---- *)
Lemma try_read_oa y x sid n y' rc d : try_read y x sid n = Some (y', rc, d) -> oa y -> oa y'.
Proof.
  unfold try_read. intros H Hoa. destruct (lookup sid (se_objs (sess y x))) as [st|] eqn:El; [|injection H as <- _ _; exact Hoa].
  destruct n as [|n]; [injection H as <- _ _; exact Hoa|].
  destruct (rb_read (st_rb st) (S n)) as [rb' [dd| |]]; try discriminate; injection H as <- _ _; [|exact Hoa].
  eapply (oa_upd y _ x sid (st_set_rb st rb')); [rewrite sess_set_same; reflexivity|apply sess_set_other| |exact Hoa].
  intros -> ->. cbn. unfold oa in Hoa. rewrite El in Hoa. exact Hoa.
Qed.
Lemma try_accept_oa y x y' rc id : try_accept y x = Some (y', rc, id) -> oa y -> oa y'.
Proof.
  unfold try_accept. intros H Hoa. destruct (se_acceptq (sess y x)) as [|i q].
  - destruct (se_closed (sess y x)); [injection H as <- _ _; exact Hoa|discriminate].
  - injection H as <- _ _. apply oa_set_sess; [reflexivity|exact Hoa].
Qed.
Lemma resolve_oa ps : forall y y' ps' evs, resolve ps y = (y', ps', evs) -> oa y -> oa y'.
Proof.
  induction ps as [|p t IH]; intros y y' ps' evs H Hoa; cbn in H; [injection H as <- _ _; exact Hoa|].
  destruct p as [x sid n|x].
  - destruct (try_read y x sid n) as [[[y1 rc] d]|] eqn:Et.
    + destruct (resolve t y1) as [[y2 ps2] evs2] eqn:Er. injection H as <- _ _. eapply IH; [exact Er|]. eapply try_read_oa; eauto.
    + destruct (resolve t y) as [[y2 ps2] evs2] eqn:Er. injection H as <- _ _. eapply IH; eauto.
  - destruct (try_accept y x) as [[[y1 rc] id]|] eqn:Et.
    + destruct (resolve t y1) as [[y2 ps2] evs2] eqn:Er. injection H as <- _ _. eapply IH; [exact Er|]. eapply try_accept_oa; eauto.
    + destruct (resolve t y) as [[y2 ps2] evs2] eqn:Er. injection H as <- _ _. eapply IH; eauto.
Qed.
Lemma open_stream_oa y x y' evs : open_stream y x = (y', evs) -> oa y -> oa y'.
Proof.
  unfold open_stream. intros H Hoa.
  destruct (se_closed (sess y x)); [injection H as <- _; exact Hoa|].
  destruct (_ && _); injection H as <- _.
  - apply oa_set_sess; [reflexivity|exact Hoa].
  - eapply (oa_upd y _ x (se_nextsid (sess y x)) new_stream); [rewrite sess_set_same; reflexivity|apply sess_set_other| |exact Hoa].
    intros _ _. reflexivity.
Qed.

(* the label that may close the protected object *)
Definition closes_it (y : sys) (l : label) : Prop :=
  match l with
  | LCloseStream x sid => x = po /\ sid = pid
  | LDeliver x c =>
      x = po /\ exists cn fr q, nthN (N.to_nat c) (sy_conns y) = Some cn /\ conn_q cn po = fr :: q /\ w_sid fr = pid
  | _ => False
  end.

Lemma step_core_oa y l ch y' evs :
  step_core y l ch = (y', evs) -> busy_at y l -> Healthy k y -> CIs y -> valid_picks k ch ->
  ~ closes_it y l -> oa y -> oa y'.
Proof.
  intros H Hb Hh Hci Hv Hnc Hoa. destruct l as [x|x sid data|x sid n|x|x sid|x|x c|c|d|c|x c]; try contradiction.
  - rewrite step_core_open in H. eapply open_stream_oa; eauto.
  - rewrite step_core_write in H. eapply stream_write_oa; eauto.
  - rewrite step_core_read in H. destruct (has_pending_read _ _ _); [injection H as <- _; exact Hoa|].
    destruct (try_read y x sid n) as [[[y1 rc] dd]|] eqn:Et; injection H as <- _; [eapply try_read_oa; eauto|now apply oa_set_pend].
  - rewrite step_core_accept in H. destruct (se_closed _); [injection H as <- _; exact Hoa|].
    destruct (try_accept y x) as [[[y1 rc] id]|] eqn:Et; [injection H as <- _; eapply try_accept_oa; eauto|].
    destruct (has_pending_accept _ _); injection H as <- _; [exact Hoa|now apply oa_set_pend].
  - rewrite step_core_close_stream in H. destruct (close_stream y x sid true ch) as [[[y1 ch1] evs1] rc] eqn:Ec.
    injection H as <- _. eapply close_stream_oa; eauto. intros Hx Hs. apply Hnc. cbn. auto.
  - rewrite step_core_deliver in H. destruct (nthN (N.to_nat c) (sy_conns y)) as [cn|] eqn:En; [|injection H as <- _; exact Hoa].
    destruct (_ || _); [injection H as <- _; exact Hoa|].
    destruct (conn_q cn x) as [|fr q] eqn:Eq.
    + pose proof Hh as (_ & _ & Hcs & _). destruct (Hcs _ _ En) as (C1 & C2 & _).
      assert (Hoe : conn_closed_end cn (other x) = false) by (destruct x; cbn; assumption).
      rewrite Hoe in H. injection H as <- _; exact Hoa.
    + destruct (deliver_pop_H k y c cn x fr q Hh En Eq) as [Hh1 Hcl].
      destruct (recv_frame _ x fr ch) as [[y2 ch2] evs2] eqn:Er. injection H as <- _.
      eapply recv_frame_oa_other; [exact Er|exact Hh1|exact Hv|exact Hcl| |now apply oa_set_conns].
      intros Hx Hs. apply Hnc. cbn. split; [exact Hx|]. subst x. exists cn, fr, q. auto.
  - (* tick while streams are open: only timers are popped *)
    rewrite step_core_tick in H.
    destruct (fire_timers 64 (set_now y (sy_now y + d)%Z) SA ch) as [[y1 ch1] e1] eqn:E1.
    destruct (fire_timers 64 y1 SB ch1) as [[y2 ch2] e2] eqn:E2. injection H as <- _.
    assert (Hcnt : forall x, se_count (sess y x) <> 0).
    { intros x. apply count_nonzero; [apply Hci| |apply Hb]. destruct (Healthy_sess k y x Hh) as (Hcl & _). exact Hcl. }
    apply fire_timers_busy in E1; [|rewrite sess_set_now; apply Hcnt].
    assert (Hoa1 : oa y1 /\ se_count (sess y1 SB) = se_count (sess y SB)).
    { destruct E1 as (ts & [->| ->]).
      - split; [|reflexivity]. apply oa_set_sess; [reflexivity|now apply oa_set_now].
      - split; [now apply oa_set_now|reflexivity]. }
    destruct Hoa1 as [Hoa1 Hc1].
    apply fire_timers_busy in E2; [|rewrite Hc1; apply Hcnt].
    destruct E2 as (ts & [->| ->]); [|exact Hoa1].
    apply oa_set_sess; [reflexivity|exact Hoa1].
Qed.

Lemma step_oa y l ch y' evs :
  step y l ch = (y', evs) -> busy_at y l -> Healthy k y -> CIs y -> valid_picks k ch ->
  ~ closes_it y l -> oa y -> oa y'.
Proof.
  unfold step. intros H Hb Hh Hci Hv Hnc Hoa. destruct (step_core y l ch) as [y1 evs1] eqn:Es.
  destruct (resolve (sy_pend y1) y1) as [[y2 ps] evs2] eqn:Er. injection H as <- _.
  apply oa_set_pend. eapply resolve_oa; [exact Er|]. eapply step_core_oa; eauto.
Qed.
End Open.
