package multiplex

// C14 driver, part B: Stream.Write / Stream.Read on a real pair of unordered Sessions joined by
// in-memory connections owned by the harness.  conn.Write appends ONE message to the queue of
// the receiving end; nothing reaches the receiver's Read until the scenario releases it, one
// message per Read (what common.TLSConn hands to deplex), per connection in FIFO order, across
// connections in the order the scenario dictates.  After each release the harness waits until
// the receiving deplex goroutine is back in Read with nothing released (lock-step barrier).
//
// input : <id> N <method 0..3> <nconn> <nstreams> <limit> <step> ...
//   w:<side>:<sid>:<len>:<tag>  Stream.Write of c14Payload(tag,len) on stream sid of side c|s
//   d:<side>:<conn>             release the oldest message queued towards <side> on conn
//   f:<seed>                    release everything that is queued, in a seeded cross-conn order
//   r:<side>:<sid>:<k>          Stream.Read with a k-byte buffer (reported rE if it would block)
//   D:<side>:<sid>              read with a large buffer until nothing is left
//   x:<side>:<sid>              Stream.Close()
//   k:<side>                    Session.Close()
// output: <id> one token per step (see the Sprintf calls), then e:<side>:<sid>:<npending>:<closed>:<live>

import (
	"errors"
	"fmt"
	"io"
	"net"
	"sort"
	"strconv"
	"strings"
	"sync"
	"testing"
	"time"

	log "github.com/sirupsen/logrus"
)

type c14Msg struct {
	id   int
	data []byte
}

type c14WriteRec struct {
	id   int
	conn int
	to   int // side index of the receiver
}

type c14Net struct {
	mu     sync.Mutex
	nextID int
	log    []c14WriteRec
}

type c14Addr struct{}

func (c14Addr) Network() string { return "c14" }
func (c14Addr) String() string  { return "c14" }

// one end of an in-memory connection
type c14End struct {
	mu       sync.Mutex
	cond     *sync.Cond
	pending  []c14Msg // written by the peer, held back by the harness
	released []c14Msg // handed to Read, one message per call
	waiting  bool     // a reader sits in Read with nothing released
	closed   bool     // Close() was called on this end
	eofSeen  bool     // a Read has returned EOF
	timedOut bool
	peer     *c14End
	nw       *c14Net
	conn     int
	side     int
}

func c14Pair(nw *c14Net, conn int) (*c14End, *c14End) {
	a := &c14End{nw: nw, conn: conn, side: 0}
	b := &c14End{nw: nw, conn: conn, side: 1}
	a.cond = sync.NewCond(&a.mu)
	b.cond = sync.NewCond(&b.mu)
	a.peer, b.peer = b, a
	return a, b
}

func (e *c14End) Write(b []byte) (int, error) {
	e.mu.Lock()
	cl := e.closed
	e.mu.Unlock()
	if cl {
		return 0, io.ErrClosedPipe
	}
	cp := append([]byte(nil), b...)
	e.nw.mu.Lock()
	id := e.nw.nextID
	e.nw.nextID++
	e.nw.log = append(e.nw.log, c14WriteRec{id: id, conn: e.conn, to: e.peer.side})
	e.nw.mu.Unlock()
	p := e.peer
	p.mu.Lock()
	p.pending = append(p.pending, c14Msg{id: id, data: cp})
	p.mu.Unlock()
	return len(b), nil
}

func (e *c14End) Read(buf []byte) (int, error) {
	e.mu.Lock()
	defer e.mu.Unlock()
	for {
		if len(e.released) > 0 {
			m := e.released[0]
			e.released = e.released[1:]
			if len(m.data) > len(buf) {
				panic("c14: message larger than the receive buffer")
			}
			return copy(buf, m.data), nil
		}
		if e.closed {
			e.eofSeen = true
			e.cond.Broadcast()
			return 0, io.EOF
		}
		e.waiting = true
		e.cond.Broadcast()
		e.cond.Wait()
		e.waiting = false
	}
}

func (e *c14End) Close() error {
	e.mu.Lock()
	e.closed = true
	e.cond.Broadcast()
	e.mu.Unlock()
	return nil
}
func (e *c14End) LocalAddr() net.Addr                { return c14Addr{} }
func (e *c14End) RemoteAddr() net.Addr               { return c14Addr{} }
func (e *c14End) SetDeadline(t time.Time) error      { return nil }
func (e *c14End) SetReadDeadline(t time.Time) error  { return nil }
func (e *c14End) SetWriteDeadline(t time.Time) error { return nil }

// release the oldest held message to the reader and wait until it has been processed.
// ok=false: nothing queued.  alive=false: this end was closed, nobody reads it any more.
func (e *c14End) deliverHead() (m c14Msg, ok bool, alive bool) {
	e.mu.Lock()
	defer e.mu.Unlock()
	if len(e.pending) == 0 {
		return m, false, true
	}
	m = e.pending[0]
	e.pending = e.pending[1:]
	if e.closed {
		return m, true, false
	}
	e.released = append(e.released, m)
	e.cond.Broadcast()
	tm := time.AfterFunc(30*time.Second, func() {
		e.mu.Lock()
		e.timedOut = true
		e.cond.Broadcast()
		e.mu.Unlock()
	})
	defer tm.Stop()
	for !(len(e.released) == 0 && (e.waiting || e.eofSeen)) && !e.timedOut {
		e.cond.Wait()
	}
	return m, true, true
}

func (e *c14End) npending() int {
	e.mu.Lock()
	defer e.mu.Unlock()
	return len(e.pending)
}

type c14Side struct {
	sesh    *Session
	streams map[uint32]*Stream
	ends    []*c14End
}

func c14Payload(tag, n int) []byte {
	b := make([]byte, n)
	for i := range b {
		b[i] = byte(tag*131 + i*7 + (i>>8)*13 + 1)
	}
	return b
}

func c14Err(err error) string {
	switch {
	case err == nil:
		return "nil"
	case err == io.ErrShortBuffer:
		return "short"
	case err == ErrBrokenStream:
		return "broken"
	case errors.Is(err, ErrBrokenSession):
		return "brokensess"
	case errors.Is(err, errRepeatStreamClosing):
		return "repeatclose"
	case errors.Is(err, errRepeatSessionClosing):
		return "repeatsessclose"
	}
	return "other(" + strings.Map(func(r rune) rune {
		if r == ' ' || r == ':' || r == ',' {
			return '_'
		}
		return r
	}, err.Error()) + ")"
}

func c14SideIdx(s string) int {
	if s == "s" {
		return 1
	}
	return 0
}

// collect the streams that recvDataFromRemote has put on the accept queue
func (sd *c14Side) drainAccept() int {
	n := 0
	for {
		select {
		case st, ok := <-sd.sesh.acceptCh:
			if !ok || st == nil {
				return n
			}
			sd.streams[st.id] = st
			n++
		default:
			return n
		}
	}
}

func (sd *c14Side) pipeState(st *Stream) (npend int, closed bool) {
	p := st.recvBuf.(*datagramBufferedPipe)
	p.rwCond.L.Lock()
	defer p.rwCond.L.Unlock()
	return len(p.pLens), p.closed
}

// one non-blocking Stream.Read
func (sd *c14Side) read(st *Stream, k int) string {
	if k > 0 {
		if n, closed := sd.pipeState(st); n == 0 && !closed {
			return "rE"
		}
	}
	buf := make([]byte, k)
	n, err := st.Read(buf)
	switch {
	case err == nil && k == 0:
		return "r0"
	case err == nil:
		return "r:" + vfHex(buf[:n])
	case err == ErrBrokenStream && n == 0:
		return "rF"
	case err == io.ErrShortBuffer && n == 0:
		return "rS"
	}
	return "r?" + strconv.Itoa(n) + c14Err(err)
}

func c14Session(t *testing.T, fs []string, w interface{ WriteString(string) (int, error) }) {
	log.SetOutput(io.Discard)
	method, _ := strconv.Atoi(fs[2])
	nconn, _ := strconv.Atoi(fs[3])
	nstreams, _ := strconv.Atoi(fs[4])
	limit, _ := strconv.Atoi(fs[5])
	var key [32]byte
	for i := range key {
		key[i] = byte(i*3 + method)
	}
	nw := &c14Net{}
	var sides [2]*c14Side
	for i := 0; i < 2; i++ {
		obfs, err := MakeObfuscator(byte(method), key)
		if err != nil {
			t.Fatal(err)
		}
		sesh := MakeSession(7, SessionConfig{Obfuscator: obfs, Unordered: true, MsgOnWireSizeLimit: limit,
			InactivityTimeout: time.Hour})
		sides[i] = &c14Side{sesh: sesh, streams: map[uint32]*Stream{}}
	}
	for c := 0; c < nconn; c++ {
		a, b := c14Pair(nw, c)
		sides[0].ends = append(sides[0].ends, a)
		sides[1].ends = append(sides[1].ends, b)
		sides[0].sesh.AddConnection(a)
		sides[1].sesh.AddConnection(b)
	}
	defer func() {
		for i := 0; i < 2; i++ {
			for _, e := range sides[i].ends {
				e.Close()
			}
		}
	}()
	for i := 0; i < nstreams; i++ {
		st, err := sides[0].sesh.OpenStream()
		if err != nil {
			t.Fatal(err)
		}
		sides[0].streams[st.id] = st
	}
	w.WriteString(fs[0])
	w.WriteString(fmt.Sprintf(" u:%d", sides[0].sesh.maxStreamUnitWrite))

	logMark := func() int {
		nw.mu.Lock()
		defer nw.mu.Unlock()
		return len(nw.log)
	}
	logSince := func(m int) []c14WriteRec {
		nw.mu.Lock()
		defer nw.mu.Unlock()
		return append([]c14WriteRec(nil), nw.log[m:]...)
	}
	// deliver the head of (side, conn); returns the observation
	deliver := func(side, conn int) string {
		sd := sides[side]
		m, ok, alive := sd.ends[conn].deliverHead()
		if !ok {
			return "-"
		}
		errs := "-"
		if !alive {
			// the end was closed by its session: hand the frame to the session directly
			errs = c14Err(sd.sesh.recvDataFromRemote(m.data))
		} else if sd.ends[conn].timedOut {
			errs = "timeout"
		}
		nacc := sd.drainAccept()
		return fmt.Sprintf("%d.%d.%d.%s", m.id, side, nacc, errs)
	}

	for _, step := range fs[6:] {
		p := strings.Split(step, ":")
		switch p[0] {
		case "w":
			sd := sides[c14SideIdx(p[1])]
			sid, _ := strconv.Atoi(p[2])
			n, _ := strconv.Atoi(p[3])
			tag, _ := strconv.Atoi(p[4])
			st := sd.streams[uint32(sid)]
			if st == nil {
				w.WriteString(" w:nostream")
				break
			}
			mark := logMark()
			closedBefore := st.isClosed()
			data := c14Payload(tag, n)
			wn, err := st.Write(data)
			recs := logSince(mark)
			conn, mid := "-", "-"
			if len(recs) > 0 {
				conn, mid = strconv.Itoa(recs[0].conn), strconv.Itoa(recs[0].id)
			}
			w.WriteString(fmt.Sprintf(" w:%d:%s:%d:%s:%s:%s", wn, c14Err(err), len(recs), conn, vfB(closedBefore), mid))
		case "d":
			side := c14SideIdx(p[1])
			conn, _ := strconv.Atoi(p[2])
			w.WriteString(" d:" + deliver(side, conn%len(sides[side].ends)))
		case "f":
			seed, _ := strconv.Atoi(p[1])
			x := uint32(seed)*2654435761 + 12345
			var out []string
			for {
				type sc struct{ side, conn int }
				var cand []sc
				for side := 0; side < 2; side++ {
					for c, e := range sides[side].ends {
						if e.npending() > 0 {
							cand = append(cand, sc{side, c})
						}
					}
				}
				if len(cand) == 0 {
					break
				}
				x = x*1664525 + 1013904223
				ch := cand[int(x>>8)%len(cand)]
				out = append(out, deliver(ch.side, ch.conn))
			}
			if len(out) == 0 {
				out = []string{"-"}
			}
			w.WriteString(" f:" + strings.Join(out, ","))
		case "r":
			sd := sides[c14SideIdx(p[1])]
			sid, _ := strconv.Atoi(p[2])
			k, _ := strconv.Atoi(p[3])
			st := sd.streams[uint32(sid)]
			if st == nil {
				w.WriteString(" rN")
				break
			}
			w.WriteString(" " + sd.read(st, k))
		case "D":
			sd := sides[c14SideIdx(p[1])]
			sid, _ := strconv.Atoi(p[2])
			st := sd.streams[uint32(sid)]
			if st == nil {
				w.WriteString(" DN")
				break
			}
			var out []string
			for i := 0; i < 100000; i++ {
				r := sd.read(st, 20000)
				out = append(out, r)
				if !strings.HasPrefix(r, "r:") {
					break
				}
			}
			w.WriteString(" D" + strings.Join(out, ","))
		case "x":
			sd := sides[c14SideIdx(p[1])]
			sid, _ := strconv.Atoi(p[2])
			st := sd.streams[uint32(sid)]
			if st == nil {
				w.WriteString(" x:nostream")
				break
			}
			mark := logMark()
			err := st.Close()
			recs := logSince(mark)
			mid := "-"
			if len(recs) > 0 {
				mid = strconv.Itoa(recs[0].id)
			}
			w.WriteString(fmt.Sprintf(" x:%s:%d:%s", c14Err(err), len(recs), mid))
		case "k":
			sd := sides[c14SideIdx(p[1])]
			mark := logMark()
			err := sd.sesh.Close()
			recs := logSince(mark)
			mid := "-"
			if len(recs) > 0 {
				mid = strconv.Itoa(recs[0].id)
			}
			w.WriteString(fmt.Sprintf(" k:%s:%d:%s", c14Err(err), len(recs), mid))
		}
	}
	for side := 0; side < 2; side++ {
		sd := sides[side]
		var ids []int
		for id := range sd.streams {
			ids = append(ids, int(id))
		}
		sort.Ints(ids)
		for _, id := range ids {
			st := sd.streams[uint32(id)]
			n, closed := sd.pipeState(st)
			sd.sesh.streamsM.Lock()
			slot, ok := sd.sesh.streams[uint32(id)]
			sd.sesh.streamsM.Unlock()
			w.WriteString(fmt.Sprintf(" e:%s:%d:%d:%s:%s", "cs"[side:side+1], id, n, vfB(closed), vfB(ok && slot != nil)))
		}
	}
	w.WriteString("\n")
}
