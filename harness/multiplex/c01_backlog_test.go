package multiplex

// C01 driver: "a session with open streams keeps working" while ONE stream holds a large unread backlog.  The
// receive loops are shared by all streams of a session: if handing a frame to a stream whose reader is slow could
// park them, every other stream of the healthy session would stall with it.
//
// input : <id> BACKLOG <method 0..3> <nconn> <MiB unread on stream A> <bytes on stream B>
// output: <id> wroteA=<bytes> b=<ok|BAD:..|timeout> a=<ok|BAD:..> closed=<0|1>

import (
	"fmt"
	"strconv"
	"testing"
	"time"

	"github.com/cbeuw/Cloak/internal/common"
	"github.com/cbeuw/connutil"
)

func c01BlByte(i int) byte { return byte(i*31 + (i>>8)*7 + (i>>16)*3 + 5) }

func c01BlCase(f []string) string {
	method, _ := strconv.Atoi(f[2])
	nconn, _ := strconv.Atoi(f[3])
	mib, _ := strconv.Atoi(f[4])
	nb, _ := strconv.Atoi(f[5])
	var key [32]byte
	for i := range key {
		key[i] = byte(i + 3)
	}
	obfs, err := MakeObfuscator(byte(method), key)
	if err != nil {
		return "obfuscator:" + err.Error()
	}
	cfg := SessionConfig{Obfuscator: obfs, MsgOnWireSizeLimit: 16401, InactivityTimeout: time.Hour}
	cl, sv := MakeSession(1, cfg), MakeSession(1, cfg)
	defer cl.Close()
	defer sv.Close()
	for i := 0; i < nconn; i++ {
		c, s := connutil.AsyncPipe()
		cl.AddConnection(common.NewTLSConn(c))
		sv.AddConnection(common.NewTLSConn(s))
	}
	A, _ := cl.OpenStream()
	B, _ := cl.OpenStream()
	total := mib << 20
	wrote := 0
	werr := make(chan error, 1)
	go func() {
		chunk := make([]byte, 16000)
		for wrote < total {
			n := len(chunk)
			if total-wrote < n {
				n = total - wrote
			}
			for i := 0; i < n; i++ {
				chunk[i] = c01BlByte(wrote + i)
			}
			if _, err := A.Write(chunk[:n]); err != nil {
				werr <- err
				return
			}
			wrote += n
		}
		werr <- nil
	}()
	select {
	case err := <-werr:
		if err != nil {
			return fmt.Sprintf("wroteA=%d write-error:%v", wrote, err)
		}
	case <-time.After(60 * time.Second):
		return fmt.Sprintf("wroteA=%d b=- a=- closed=- writer-stalled", wrote)
	}
	// nobody has read stream A yet; now stream B
	msg := make([]byte, nb)
	for i := range msg {
		msg[i] = byte(200 + i)
	}
	if _, err := B.Write(msg); err != nil {
		return "writeB:" + err.Error()
	}
	// the far end: the two streams arrive in the order of their first frames
	sa, err := sv.Accept()
	if err != nil {
		return "accept:" + err.Error()
	}
	bres := make(chan string, 1)
	go func() {
		sb, err := sv.Accept()
		if err != nil {
			bres <- "BAD:accept:" + err.Error()
			return
		}
		got := make([]byte, 0, nb)
		buf := make([]byte, 4096)
		for len(got) < nb {
			n, err := sb.Read(buf)
			got = append(got, buf[:n]...)
			if err != nil {
				bres <- "BAD:read:" + err.Error()
				return
			}
		}
		for i := range msg {
			if got[i] != msg[i] {
				bres <- fmt.Sprintf("BAD:byte-%d", i)
				return
			}
		}
		bres <- "ok"
	}()
	b := "timeout"
	select {
	case b = <-bres:
	case <-time.After(12 * time.Second):
	}
	// and the backlog itself is all there, in order
	a := "ok"
	buf := make([]byte, 65536)
	got := 0
	sa.(*Stream).SetReadDeadline(time.Now().Add(30 * time.Second))
	for got < total {
		n, err := sa.Read(buf)
		for i := 0; i < n; i++ {
			if buf[i] != c01BlByte(got+i) && a == "ok" {
				a = fmt.Sprintf("BAD:byte-%d", got+i)
			}
		}
		got += n
		if err != nil {
			a = fmt.Sprintf("BAD:read-error-after-%d:%v", got, err)
			break
		}
	}
	cls := "0"
	if cl.IsClosed() || sv.IsClosed() {
		cls = "1"
	}
	return fmt.Sprintf("wroteA=%d b=%s a=%s closed=%s", wrote, b, a, cls)
}

func TestVerifC01Backlog(t *testing.T) {
	sc, w, done := vfIO(t)
	defer done()
	for sc.Scan() {
		f := vfFields(sc.Text())
		if len(f) != 6 || f[1] != "BACKLOG" {
			continue
		}
		fmt.Fprintf(w, "%s %s\n", f[0], c01BlCase(f))
		w.Flush()
	}
}
