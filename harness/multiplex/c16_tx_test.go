package multiplex

// C16 driver: what the valve of a limited user's session METERS as sent must be what the connections carried
// ("deducted ... never more than once ... exactly once"): a send that fails - the connection refuses the write, or
// the switchboard is already broken - carried nothing and must not be charged.
//
// input : <id> TX <unordered 0|1> <writes that succeed before the connection starts failing> <further writes attempted>
// output: <id> carried=<bytes the connection accepted> metered=<valve.GetTx()> ok=<writes that returned nil> failed=<writes that returned an error>

import (
	"errors"
	"fmt"
	"net"
	"strconv"
	"sync"
	"testing"
	"time"
)

type c16TxConn struct {
	mu      sync.Mutex
	okLeft  int
	carried int64
	closed  chan struct{}
	once    sync.Once
}

func (c *c16TxConn) Read(p []byte) (int, error) { <-c.closed; return 0, errors.New("closed") }
func (c *c16TxConn) Write(p []byte) (int, error) {
	c.mu.Lock()
	defer c.mu.Unlock()
	if c.okLeft <= 0 {
		return 0, errors.New("c16 driver: connection refuses the write")
	}
	c.okLeft--
	c.carried += int64(len(p))
	return len(p), nil
}
func (c *c16TxConn) Close() error                       { c.once.Do(func() { close(c.closed) }); return nil }
func (c *c16TxConn) LocalAddr() net.Addr                { return nil }
func (c *c16TxConn) RemoteAddr() net.Addr               { return nil }
func (c *c16TxConn) SetDeadline(t time.Time) error      { return nil }
func (c *c16TxConn) SetReadDeadline(t time.Time) error  { return nil }
func (c *c16TxConn) SetWriteDeadline(t time.Time) error { return nil }

func TestVerifC16Tx(t *testing.T) {
	sc, w, done := vfIO(t)
	defer done()
	for sc.Scan() {
		f := vfFields(sc.Text())
		if len(f) != 5 || f[1] != "TX" {
			continue
		}
		nok, _ := strconv.Atoi(f[3])
		more, _ := strconv.Atoi(f[4])
		var key [32]byte
		obfs, _ := MakeObfuscator(EncryptionMethodPlain, key)
		valve := MakeValve(1<<40, 1<<40)
		sesh := MakeSession(1, SessionConfig{Obfuscator: obfs, Valve: valve, Unordered: f[2] == "1", InactivityTimeout: time.Hour})
		conn := &c16TxConn{okLeft: nok, closed: make(chan struct{})}
		sesh.AddConnection(conn)
		st, err := sesh.OpenStream()
		okN, failN := 0, 0
		if err == nil {
			for i := 0; i < nok+more; i++ {
				if _, err := st.Write(make([]byte, 100+i)); err != nil {
					failN++
				} else {
					okN++
				}
			}
		}
		conn.mu.Lock()
		carried := conn.carried
		conn.mu.Unlock()
		fmt.Fprintf(w, "%s carried=%d metered=%d ok=%d failed=%d\n", f[0], carried, valve.GetTx(), okN, failN)
		sesh.Close()
	}
}
