//go:build verif

package multiplex

// C01 "stays up" at the one place where a connection-adder and a sender overlap: the schedule
// point addConn.stored parks the adder inside addConn while another goroutine sends; every
// send must succeed and the session must stay open.
// output: one line per trial: <id> <writes ok>/<writes> closed=<0|1>

import (
	"fmt"
	"io"
	"net"
	"os"
	"sync"
	"testing"
	"time"
)

type c01Sink struct {
	dead chan struct{}
	once sync.Once
}

func (c *c01Sink) Read(b []byte) (int, error)         { <-c.dead; return 0, io.EOF }
func (c *c01Sink) Write(b []byte) (int, error)        { return len(b), nil }
func (c *c01Sink) Close() error                       { c.once.Do(func() { close(c.dead) }); return nil }
func (c *c01Sink) LocalAddr() net.Addr                { return nil }
func (c *c01Sink) RemoteAddr() net.Addr               { return nil }
func (c *c01Sink) SetDeadline(t time.Time) error      { return nil }
func (c *c01Sink) SetReadDeadline(t time.Time) error  { return nil }
func (c *c01Sink) SetWriteDeadline(t time.Time) error { return nil }

func TestVerifC01AddConn(t *testing.T) {
	out := os.Getenv("VERIF_OUT")
	if out == "" {
		t.Skip()
	}
	fo, _ := os.Create(out)
	defer fo.Close()
	for trial := 0; trial < 12; trial++ {
		var key [32]byte
		obfs, _ := MakeObfuscator(byte(trial%4), key)
		sesh := MakeSession(1, SessionConfig{Obfuscator: obfs, MsgOnWireSizeLimit: 16401, InactivityTimeout: time.Hour})
		pre := trial % 3 // connections already in the pool
		for i := 0; i < pre; i++ {
			sesh.AddConnection(&c01Sink{dead: make(chan struct{})})
		}
		st, err := sesh.OpenStream()
		if err != nil {
			t.Fatal(err)
		}
		ok, total := 0, 0
		parked := make(chan struct{})
		release := make(chan struct{})
		first := true
		SetVerifHook(func(p string) {
			if p == "addConn.stored" && first {
				first = false
				close(parked)
				<-release
			}
		})
		go sesh.AddConnection(&c01Sink{dead: make(chan struct{})})
		<-parked
		if pre > 0 { // with an empty pool a send is allowed to fail: there is no healthy connection yet
			for i := 0; i < 64; i++ {
				total++
				if _, err := st.Write([]byte{1, 2, 3}); err == nil {
					ok++
				}
			}
		}
		closedDuring := sesh.IsClosed()
		close(release)
		SetVerifHook(nil)
		time.Sleep(time.Millisecond)
		total++
		if _, err := st.Write([]byte{4}); err == nil {
			ok++
		}
		fmt.Fprintf(fo, "t%d pre=%d %d/%d closed=%s\n", trial, pre, ok, total, vfB(closedDuring || sesh.IsClosed()))
		sesh.Close()
	}
}
