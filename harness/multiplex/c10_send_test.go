package multiplex

// C10 driver for the SEND path of a stream (Stream.Write / Stream.ReadFrom / Stream.Close /
// Session.Close / obfuscateAndSend and every error branch in them): a real Session over a TLSConn
// over a connection this driver owns.  EVERY buffer handed to that connection is recorded and must
// be exactly one application-data record (17 03 03 len, 0 < len <= MsgOnWireSizeLimit) whose body
// decodes, with the session's key, to one Cloak frame of the stream the operation was issued on;
// an operation whose frame cannot be encoded (empty payload, payload that does not fit the buffer,
// datagram larger than a frame) must put NOTHING on the connection.
//
// input : <id> S <method 0..3> <unordered 0|1> <limit> <tok> ...
//   O                     OpenStream
//   W:<sid>:<len>         Stream.Write(payload(len, op index))
//   F:<sid>:<l1,l2,..>    Stream.ReadFrom(source whose successive Reads return l1, l2, .. bytes (0 = (0, nil)), then io.EOF)
//   B:<sid>:<len>:<bufsize>  obfuscateAndSend with a payload of len bytes and a send buffer of bufsize bytes
//   X:<sid>               Stream.Close        Z   Session.Close
// output: <id> <n>:<err>[;<wlen>:<hdr 0|1>:<sid>.<seq>.<closing>.<payload repr>|X] ...   one token per op
//   err: 0 nil, S io.ErrShortBuffer, B ErrBrokenStream, Q io.EOF, E another error
//   payload(len,tag): byte i = (tag*37 + i*11 + (i>>8)*5 + 7) mod 256; repr = "-" | hex (<=32 bytes) | <len>.<md5>

import (
	"crypto/md5"
	"encoding/hex"
	"errors"
	"fmt"
	"io"
	"net"
	"strconv"
	"strings"
	"sync"
	"testing"
	"time"

	"github.com/cbeuw/Cloak/internal/common"
)

type c10SendRec struct {
	mu     sync.Mutex
	writes [][]byte
	dead   chan struct{}
	once   sync.Once
}

func (c *c10SendRec) Read(b []byte) (int, error) {
	<-c.dead
	return 0, errors.New("closed")
}
func (c *c10SendRec) Write(b []byte) (int, error) {
	c.mu.Lock()
	c.writes = append(c.writes, append([]byte(nil), b...))
	c.mu.Unlock()
	return len(b), nil
}
func (c *c10SendRec) Close() error                       { c.once.Do(func() { close(c.dead) }); return nil }
func (c *c10SendRec) LocalAddr() net.Addr                { return nil }
func (c *c10SendRec) RemoteAddr() net.Addr               { return nil }
func (c *c10SendRec) SetDeadline(t time.Time) error      { return nil }
func (c *c10SendRec) SetReadDeadline(t time.Time) error  { return nil }
func (c *c10SendRec) SetWriteDeadline(t time.Time) error { return nil }

func (c *c10SendRec) take() [][]byte {
	c.mu.Lock()
	w := c.writes
	c.writes = nil
	c.mu.Unlock()
	return w
}

func c10SendPayload(n, tag int) []byte {
	b := make([]byte, n)
	for i := range b {
		b[i] = byte((tag*37 + i*11 + (i>>8)*5 + 7) % 256)
	}
	return b
}

func c10SendRepr(b []byte) string {
	if len(b) == 0 {
		return "-"
	}
	if len(b) <= 32 {
		return hex.EncodeToString(b)
	}
	s := md5.Sum(b)
	return strconv.Itoa(len(b)) + "." + hex.EncodeToString(s[:])
}

// a source for ReadFrom: successive Reads return the scripted numbers of bytes
type c10SendSrc struct {
	lens []int
	tag  int
	off  int
}

func (s *c10SendSrc) Read(p []byte) (int, error) {
	if len(s.lens) == 0 {
		return 0, io.EOF
	}
	n := s.lens[0]
	if n > len(p) {
		n = len(p)
		s.lens[0] -= n
	} else {
		s.lens = s.lens[1:]
	}
	full := c10SendPayload(s.off+n, s.tag)
	copy(p, full[s.off:])
	s.off += n
	return n, nil
}

func c10SendErr(err error) string {
	switch {
	case err == nil:
		return "0"
	case errors.Is(err, io.ErrShortBuffer):
		return "S"
	case errors.Is(err, ErrBrokenStream):
		return "B"
	case errors.Is(err, io.EOF):
		return "Q"
	default:
		return "E"
	}
}

func c10SendRun(fs []string) string {
	method, _ := strconv.Atoi(fs[2])
	unordered := fs[3] == "1"
	limit, _ := strconv.Atoi(fs[4])
	var key [32]byte
	for i := range key {
		key[i] = byte(i*3 + 7)
	}
	mk := func() Obfuscator {
		o, err := MakeObfuscator(byte(method), key)
		if err != nil {
			panic(err)
		}
		return o
	}
	sesh := MakeSession(1, SessionConfig{Obfuscator: mk(), Unordered: unordered, MsgOnWireSizeLimit: limit, InactivityTimeout: time.Hour})
	dec := mk()
	rec := &c10SendRec{dead: make(chan struct{})}
	sesh.AddConnection(common.NewTLSConn(rec))
	defer sesh.Close()
	handles := map[string]*Stream{}
	var out []string
	for opi, tok := range fs[5:] {
		p := strings.Split(tok, ":")
		res := ""
		var st *Stream
		if len(p) > 1 {
			st = handles[p[1]]
			if st == nil && p[0] != "O" {
				out = append(out, "nostream")
				continue
			}
		}
		switch p[0] {
		case "O":
			s, err := sesh.OpenStream()
			if err == nil {
				handles[strconv.Itoa(int(s.id))] = s
				res = fmt.Sprintf("%d:0", s.id)
			} else {
				res = "0:" + c10SendErr(err)
			}
		case "W":
			l, _ := strconv.Atoi(p[2])
			n, err := st.Write(c10SendPayload(l, opi))
			res = fmt.Sprintf("%d:%s", n, c10SendErr(err))
		case "F":
			var lens []int
			for _, x := range strings.Split(p[2], ",") {
				v, _ := strconv.Atoi(x)
				lens = append(lens, v)
			}
			n, err := st.ReadFrom(&c10SendSrc{lens: lens, tag: opi})
			res = fmt.Sprintf("%d:%s", n, c10SendErr(err))
		case "B":
			l, _ := strconv.Atoi(p[2])
			bs, _ := strconv.Atoi(p[3])
			st.writingM.Lock()
			st.writingFrame.Payload = c10SendPayload(l, opi)
			err := st.obfuscateAndSend(make([]byte, bs), 0)
			st.writingM.Unlock()
			res = "0:" + c10SendErr(err)
		case "X":
			res = "0:" + c10SendErr(st.Close())
		case "Z":
			res = "0:" + c10SendErr(sesh.Close())
		}
		for _, w := range rec.take() {
			hdr := len(w) >= 5 && w[0] == common.ApplicationData && w[1] == 3 && w[2] == 3 && int(w[3])<<8|int(w[4]) == len(w)-5
			d := "X"
			if len(w) > 5 {
				var f Frame
				body := append([]byte(nil), w[5:]...)
				if err := dec.deobfuscate(&f, body); err == nil {
					pl := c10SendRepr(f.Payload)
					if f.Closing != closingNothing {
						pl = "*" // closing notices carry random filler
					}
					d = fmt.Sprintf("%d.%d.%d.%s", f.StreamID, f.Seq, f.Closing, pl)
				}
			}
			res += fmt.Sprintf(";%d:%s:%s", len(w), vfB(hdr), d)
		}
		out = append(out, res)
	}
	return fs[0] + " " + strings.Join(out, " ")
}

func TestVerifC10Send(t *testing.T) {
	sc, w, done := vfIO(t)
	defer done()
	for sc.Scan() {
		fs := vfFields(sc.Text())
		if len(fs) < 5 || fs[1] != "S" {
			continue
		}
		res := func() (res string) {
			defer func() {
				if e := recover(); e != nil {
					res = fs[0] + " PANIC:" + strings.ReplaceAll(fmt.Sprint(e), " ", "_")
				}
			}()
			return c10SendRun(fs)
		}()
		w.WriteString(res + "\n")
	}
}
