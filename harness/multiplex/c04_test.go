package multiplex

// C04 driver: the real obfuscate / deobfuscate (and Go's cipher primitives) on case lines.
// input (hex byte strings, "-" = empty; numbers hex unless said otherwise):
//   <id> GENC <m> <key> <sid> <seq> <closing> <payload> <det seed dec | real> <buflen dec>
//        -> <id> A=<msg in-place> B=<msg separate buffer | same> DA=<dec> DB=<dec>
//           dec = ok,<sid>,<seq>,<closing>,<payload> | err:<kind> | panic ; A=err:<text> on error
//   <id> GSWEEP <m> <key> <limit dec> <lo dec> <hi dec> <step dec>
//        -> <id> n=<encodes done> padded=<how many carried padding> maxlen=<largest message> fail=<none | first failure>
//        (Go-only oracle, no model: for every payload length lo..hi, seq in {0,4,5,2^64-1}, both placements:
//         decode(encode f) = f, length <= limit, 0 <= extra-tag <= 255-tag, no padding when seq >= 5)
//   <id> DEC <m> <key> <msg>            -> <id> ok <sid> <seq> <closing> <payload> | err:<kind> | panic
//   <id> PRIM salsa <key> <nonce8> <data>               -> <id> <out>
//   <id> PRIM chachapoly|gcm <key> <nonce12> <pt> <aad> -> <id> <sealed>
//   <id> PRIMOPEN chachapoly|gcm <key> <nonce12> <ct> <aad> -> <id> <pt> | fail
//   <id> SESS ...  real Sessions with a configured MsgOnWireSizeLimit: see c04_sess_test.go

import (
	"crypto/aes"
	"crypto/cipher"
	"crypto/rand"
	"fmt"
	"io"
	"strconv"
	"strings"
	"testing"

	"golang.org/x/crypto/chacha20poly1305"
	"golang.org/x/crypto/salsa20"
)

// deterministic byte source standing in for crypto/rand.Reader (splitmix64)
type c04Det struct{ s uint64 }

func (d *c04Det) Read(p []byte) (int, error) {
	for i := range p {
		d.s += 0x9e3779b97f4a7c15
		z := d.s
		z = (z ^ (z >> 30)) * 0xbf58476d1ce4e5b9
		z = (z ^ (z >> 27)) * 0x94d049bb133111eb
		z ^= z >> 31
		p[i] = byte(z >> 24)
	}
	return len(p), nil
}

func c04Key(s string) (k [32]byte) {
	copy(k[:], vfUnhex(s))
	return
}

func c04ErrKind(err error) string {
	s := err.Error()
	switch {
	case strings.Contains(s, "cannot be shorter"):
		return "err:short"
	case strings.Contains(s, "extra length"):
		return "err:extralen"
	default:
		return "err:auth"
	}
}

// deobfuscate on a private copy (it decrypts in place), under recover
func c04Decode(o *Obfuscator, msg []byte, sep string) (out string) {
	defer func() {
		if r := recover(); r != nil {
			out = "panic"
		}
	}()
	in := make([]byte, len(msg), len(msg))
	copy(in, msg)
	var f Frame
	if err := o.deobfuscate(&f, in); err != nil {
		return c04ErrKind(err)
	}
	return strings.Join([]string{"ok", strconv.FormatUint(uint64(f.StreamID), 16), strconv.FormatUint(f.Seq, 16),
		strconv.FormatUint(uint64(f.Closing), 16), vfHex(f.Payload)}, sep)
}

func c04Encode(o *Obfuscator, f Frame, payload []byte, inplace bool, buflen int, seed string) (msg []byte, errs string) {
	defer func() {
		if r := recover(); r != nil {
			errs = "panic:" + strings.ReplaceAll(fmt.Sprint(r), " ", "_")
		}
	}()
	if seed != "real" {
		s, _ := strconv.ParseUint(seed, 10, 64)
		old := rand.Reader
		rand.Reader = io.Reader(&c04Det{s: s})
		defer func() { rand.Reader = old }()
	}
	buf := make([]byte, buflen)
	var n int
	var err error
	if inplace {
		if frameHeaderLength+len(payload) > buflen {
			return nil, "err:nofit"
		}
		copy(buf[frameHeaderLength:], payload)
		f.Payload = buf[frameHeaderLength : frameHeaderLength+len(payload)]
		n, err = o.obfuscate(&f, buf, frameHeaderLength)
	} else {
		p := make([]byte, len(payload))
		copy(p, payload)
		f.Payload = p
		n, err = o.obfuscate(&f, buf, 0)
	}
	if err != nil {
		return nil, "err:" + strings.ReplaceAll(err.Error(), " ", "_")
	}
	return buf[:n], ""
}

func c04Sweep(o *Obfuscator, m, limit, lo, hi, step int) string {
	tag := 16
	if m == 0 {
		tag = 8
	}
	n, padded, maxlen := 0, 0, 0
	fail := "none"
	payload := make([]byte, hi+1)
	rand.Read(payload)
	buf := make([]byte, limit)
	sep := make([]byte, hi+1)
	in := make([]byte, limit)
	seqs := []uint64{0, 4, 5, 1<<64 - 1}
	for l := lo; l <= hi && fail == "none"; l += step {
		for si, seq := range seqs {
			if fail != "none" {
				break
			}
			for _, inplace := range []bool{true, false} {
				f := Frame{StreamID: uint32(l*7 + si), Seq: seq, Closing: uint8(l % 3)}
				bad := func(why string) {
					fail = fmt.Sprintf("len=%d,seq=%x,inplace=%v,%s", l, seq, inplace, why)
				}
				var msgLen int
				var err error
				func() {
					defer func() {
						if r := recover(); r != nil {
							err = fmt.Errorf("panic:%v", r)
						}
					}()
					if inplace {
						if frameHeaderLength+l > limit {
							err = fmt.Errorf("nofit")
							return
						}
						copy(buf[frameHeaderLength:], payload[:l])
						f.Payload = buf[frameHeaderLength : frameHeaderLength+l]
						msgLen, err = o.obfuscate(&f, buf, frameHeaderLength)
					} else {
						copy(sep, payload[:l])
						f.Payload = sep[:l]
						msgLen, err = o.obfuscate(&f, buf, 0)
					}
				}()
				if err != nil {
					bad("encode:" + strings.ReplaceAll(err.Error(), " ", "_"))
					break
				}
				n++
				if msgLen > maxlen {
					maxlen = msgLen
				}
				if msgLen > limit {
					bad(fmt.Sprintf("message_of_%d_bytes_exceeds_limit_%d", msgLen, limit))
					break
				}
				pad := msgLen - 14 - l - tag
				if pad < 0 || pad > 255-tag {
					bad(fmt.Sprintf("padding_%d_out_of_range", pad))
					break
				}
				if pad > 0 {
					padded++
					if seq >= 5 {
						bad(fmt.Sprintf("padding_%d_on_a_frame_with_seq>=5", pad))
						break
					}
				}
				copy(in, buf[:msgLen])
				var g Frame
				func() {
					defer func() {
						if r := recover(); r != nil {
							err = fmt.Errorf("panic:%v", r)
						}
					}()
					err = o.deobfuscate(&g, in[:msgLen])
				}()
				if err != nil {
					bad("decode:" + strings.ReplaceAll(err.Error(), " ", "_"))
					break
				}
				if g.StreamID != uint32(l*7+si) || g.Seq != seq || g.Closing != uint8(l%3) || string(g.Payload) != string(payload[:l]) {
					bad(fmt.Sprintf("roundtrip:got_sid=%x,seq=%x,closing=%d,payloadlen=%d", g.StreamID, g.Seq, g.Closing, len(g.Payload)))
					break
				}
			}
		}
	}
	return fmt.Sprintf("n=%d padded=%d maxlen=%d fail=%s", n, padded, maxlen, fail)
}

func TestVerifC04(t *testing.T) {
	sc, w, done := vfIO(t)
	defer done()
	for sc.Scan() {
		fs := vfFields(sc.Text())
		if len(fs) < 2 {
			continue
		}
		id := fs[0]
		switch fs[1] {
		case "GENC":
			m, _ := strconv.Atoi(fs[2])
			o, err := MakeObfuscator(byte(m), c04Key(fs[3]))
			if err != nil {
				fmt.Fprintf(w, "%s A=err:makeobfuscator\n", id)
				continue
			}
			sid, _ := strconv.ParseUint(fs[4], 16, 32)
			seq, _ := strconv.ParseUint(fs[5], 16, 64)
			cl, _ := strconv.ParseUint(fs[6], 16, 8)
			payload := vfUnhex(fs[7])
			buflen, _ := strconv.Atoi(fs[9])
			f := Frame{StreamID: uint32(sid), Seq: seq, Closing: uint8(cl)}
			a, ea := c04Encode(&o, f, payload, true, buflen, fs[8])
			b, eb := c04Encode(&o, f, payload, false, buflen, fs[8])
			as, bs, da, db := ea, eb, "-", "-"
			if ea == "" {
				as = vfHex(a)
				da = c04Decode(&o, a, ",")
			}
			if eb == "" {
				bs = vfHex(b)
				db = c04Decode(&o, b, ",")
				if ea == "" && string(a) == string(b) {
					bs = "same"
				}
			}
			fmt.Fprintf(w, "%s A=%s B=%s DA=%s DB=%s\n", id, as, bs, da, db)
		case "GSWEEP":
			m, _ := strconv.Atoi(fs[2])
			o, err := MakeObfuscator(byte(m), c04Key(fs[3]))
			if err != nil {
				fmt.Fprintf(w, "%s fail=makeobfuscator\n", id)
				continue
			}
			limit, _ := strconv.Atoi(fs[4])
			lo, _ := strconv.Atoi(fs[5])
			hi, _ := strconv.Atoi(fs[6])
			step, _ := strconv.Atoi(fs[7])
			fmt.Fprintf(w, "%s %s\n", id, c04Sweep(&o, m, limit, lo, hi, step))
		case "DEC":
			m, _ := strconv.Atoi(fs[2])
			o, err := MakeObfuscator(byte(m), c04Key(fs[3]))
			if err != nil {
				fmt.Fprintf(w, "%s err:makeobfuscator\n", id)
				continue
			}
			fmt.Fprintf(w, "%s %s\n", id, c04Decode(&o, vfUnhex(fs[4]), " "))
		case "SESS":
			func() {
				defer func() {
					if r := recover(); r != nil {
						fmt.Fprintf(w, "%s cfg=panic:%s\n", id, strings.ReplaceAll(fmt.Sprint(r), " ", "_"))
					}
				}()
				fmt.Fprintf(w, "%s %s\n", id, c04Sess(fs))
			}()
			w.Flush() // a goroutine of a session may take the process down: keep what has been observed so far
		case "PRIM", "PRIMOPEN":
			key := vfUnhex(fs[3])
			nonce := vfUnhex(fs[4])
			data := vfUnhex(fs[5])
			if fs[2] == "salsa" {
				var k [32]byte
				copy(k[:], key)
				out := make([]byte, len(data))
				salsa20.XORKeyStream(out, data, nonce, &k)
				fmt.Fprintf(w, "%s %s\n", id, vfHex(out))
				continue
			}
			aad := vfUnhex(fs[6])
			var a cipher.AEAD
			if fs[2] == "gcm" {
				blk, err := aes.NewCipher(key)
				if err != nil {
					t.Fatal(err)
				}
				a, _ = cipher.NewGCM(blk)
			} else {
				a, _ = chacha20poly1305.New(key)
			}
			if fs[1] == "PRIM" {
				fmt.Fprintf(w, "%s %s\n", id, vfHex(a.Seal(nil, nonce, data, aad)))
			} else {
				pt, err := a.Open(nil, nonce, data, aad)
				if err != nil {
					fmt.Fprintf(w, "%s fail\n", id)
				} else {
					fmt.Fprintf(w, "%s %s\n", id, vfHex(pt))
				}
			}
		}
	}
}
