package multiplex

// C12 driver: a connection that is attached to a session which has ALREADY been torn down (the last of several
// connections finishing its handshake just after another one failed, or after Close).  closeAll has run before the
// connection was stored, so only the connection's own receive loop can close it: when the peer ends or resets it,
// the session's end must be closed too ("all of the session's connections end up closed").
//
// input : <id> LATE <teardown close|eof|reset> <late-end eof|reset> <nlate>
// output: <id> closed=<k>/<nlate> early=<k0>/<n0>      (late connections closed after their peer ended / connections of
//                                                       the pool closed by the teardown itself)

import (
	"errors"
	"fmt"
	"io"
	"net"
	"strconv"
	"sync"
	"testing"
	"time"
)

type c12LateConn struct {
	mu       sync.Mutex
	cond     *sync.Cond
	end      error
	closed   bool
	closeErr error // what Close reports (a closing handshake on a dead link fails): the connection is closed all the same
}

func newC12LateConn() *c12LateConn {
	c := &c12LateConn{}
	c.cond = sync.NewCond(&c.mu)
	return c
}
func (c *c12LateConn) Read(p []byte) (int, error) {
	c.mu.Lock()
	defer c.mu.Unlock()
	for c.end == nil && !c.closed {
		c.cond.Wait()
	}
	if c.closed {
		return 0, errors.New("use of closed connection")
	}
	return 0, c.end
}
func (c *c12LateConn) Write(p []byte) (int, error) {
	c.mu.Lock()
	defer c.mu.Unlock()
	if c.closed || c.end != nil {
		return 0, errors.New("broken pipe")
	}
	return len(p), nil
}
func (c *c12LateConn) Close() error {
	c.mu.Lock()
	c.closed = true
	c.cond.Broadcast()
	c.mu.Unlock()
	return c.closeErr
}
func (c *c12LateConn) finish(how string) {
	c.mu.Lock()
	if how == "eof" {
		c.end = io.EOF
	} else {
		c.end = errors.New("connection reset by peer")
	}
	c.cond.Broadcast()
	c.mu.Unlock()
}
func (c *c12LateConn) isClosed() bool { c.mu.Lock(); defer c.mu.Unlock(); return c.closed }
func (c *c12LateConn) LocalAddr() net.Addr                { return nil }
func (c *c12LateConn) RemoteAddr() net.Addr               { return nil }
func (c *c12LateConn) SetDeadline(t time.Time) error      { return nil }
func (c *c12LateConn) SetReadDeadline(t time.Time) error  { return nil }
func (c *c12LateConn) SetWriteDeadline(t time.Time) error { return nil }

func c12LateWait(cond func() bool, d time.Duration) bool {
	dl := time.Now().Add(d)
	for !cond() {
		if time.Now().After(dl) {
			return false
		}
		time.Sleep(200 * time.Microsecond)
	}
	return true
}

func c12LateCase(f []string) string {
	teardown, lateEnd := f[2], f[3]
	nlate, _ := strconv.Atoi(f[4])
	var key [32]byte
	obfs, _ := MakeObfuscator(EncryptionMethodPlain, key)
	sesh := MakeSession(1, SessionConfig{Obfuscator: obfs, InactivityTimeout: time.Hour})
	pool := []*c12LateConn{newC12LateConn(), newC12LateConn()}
	if len(f) > 5 && f[5] == "closeerr" {
		// eight connections whose Close reports an error: every one of them must be closed nevertheless
		pool = nil
		for i := 0; i < 8; i++ {
			c := newC12LateConn()
			c.closeErr = errors.New("close: closing handshake failed")
			pool = append(pool, c)
		}
	}
	for _, c := range pool {
		sesh.AddConnection(c)
	}
	switch teardown {
	case "close":
		sesh.Close()
	default:
		pool[0].finish(teardown)
	}
	c12LateWait(sesh.IsClosed, 5*time.Second)
	early := 0
	c12LateWait(func() bool {
		for _, c := range pool {
			if !c.isClosed() {
				return false
			}
		}
		return true
	}, 4*time.Second)
	for _, c := range pool {
		if c.isClosed() {
			early++
		}
	}
	var late []*c12LateConn
	for i := 0; i < nlate; i++ {
		c := newC12LateConn()
		late = append(late, c)
		sesh.AddConnection(c)
	}
	for _, c := range late {
		c.finish(lateEnd)
	}
	c12LateWait(func() bool {
		for _, c := range late {
			if !c.isClosed() {
				return false
			}
		}
		return true
	}, 4*time.Second)
	k := 0
	for _, c := range late {
		if c.isClosed() {
			k++
		}
	}
	return fmt.Sprintf("closed=%d/%d early=%d/%d sessionclosed=%v", k, nlate, early, len(pool), sesh.IsClosed())
}

func TestVerifC12LateConn(t *testing.T) {
	sc, w, done := vfIO(t)
	defer done()
	for sc.Scan() {
		f := vfFields(sc.Text())
		if len(f) < 5 || f[1] != "LATE" {
			continue
		}
		fmt.Fprintf(w, "%s %s\n", f[0], c12LateCase(f))
		w.Flush()
	}
}
