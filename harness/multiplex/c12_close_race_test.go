//go:build verif && goexperiment.synctest

package multiplex

// C12 schedule replay: SIMULTANEOUS CLOSE of one stream from both ends while another stream of the
// session stays open.  The passive close (the peer's closing frame arriving on a connection reader:
// recvDataFromRemote -> recvFrame -> passiveClose -> closeStream(s,false)) and the active close
// (Stream.Close -> closeStream(s,true)) both go through recvBuf.Close(), which takes the pipe's own
// lock: that lock is a sync.Locker the driver replaces by c02WinGate (see c02_win_test.go), so one of
// the two closers can be parked at its k-th acquisition - i.e. after it has passed the "already
// closed?" test and before it has finished closing - while the other one runs until it returns or
// blocks on a lock (read off runtime.Stack).  Then the parked one is released.
//
// Expected of any implementation of the property: exactly one of the two closes takes effect
// (activeStreamCount == number of open streams == 1 at quiescence), the session is still up after
// 2 x InactivityTimeout on the virtual clock (it has an open stream), and once the remaining stream
// is closed too the session does close itself on the timer.
//
// output: <trial> state=<N|L|D|C|?> x=<ok|repeat|err> count=<n> live=<n> early=<0|1> after2T=<0|1> idle=<0|1> fin=<n>
//   trial = m<method>-<ord|unord>-<acc|open>-<P|X><k>   (who is parked, at which lock acquisition)
//   state = what the OTHER closer did while the first was parked (N: the first never reached acquisition k)

import (
	"errors"
	"fmt"
	"net"
	"os"
	"runtime"
	"sync"
	"sync/atomic"
	"syscall"
	"testing"
	"testing/synctest"
	"time"
)

type c12RaceSink struct {
	dead chan struct{}
	once sync.Once
	dec  *Session
	fins *atomic.Int32
}

func (c *c12RaceSink) Read(b []byte) (int, error) {
	<-c.dead
	return 0, errors.New("closed")
}
func (c *c12RaceSink) Write(b []byte) (int, error) {
	var f Frame
	cp := append([]byte(nil), b...)
	if err := c.dec.deobfuscate(&f, cp); err == nil && f.Closing == closingStream && f.StreamID == 1 {
		c.fins.Add(1)
	}
	return len(b), nil
}
func (c *c12RaceSink) Close() error                       { c.once.Do(func() { close(c.dead) }); return nil }
func (c *c12RaceSink) LocalAddr() net.Addr                { return nil }
func (c *c12RaceSink) RemoteAddr() net.Addr               { return nil }
func (c *c12RaceSink) SetDeadline(t time.Time) error      { return nil }
func (c *c12RaceSink) SetReadDeadline(t time.Time) error  { return nil }
func (c *c12RaceSink) SetWriteDeadline(t time.Time) error { return nil }

func c12RaceFrame(peer *Session, sid uint32, seq uint64, closing bool) []byte {
	f := &Frame{StreamID: sid, Seq: seq, Payload: []byte{1, 2, 3, 4, 5, 6, 7, 8}}
	if closing {
		f.Closing = closingStream
	}
	buf := make([]byte, 16401)
	n, err := peer.obfuscate(f, buf, 0)
	if err != nil {
		panic(err)
	}
	return buf[:n]
}

func c12RaceSettle(goid int64, idle *atomic.Int32) string {
	// as c02WinSettle, but never sleeps: inside a synctest bubble the clock stands still while a
	// goroutine is blocked on a mutex
	for i := 0; i < 400000; i++ {
		if idle.Load() == 1 {
			return "D"
		}
		st := c02WinState(goid)
		if idle.Load() == 1 {
			return "D"
		}
		if c02WinIsLockWait(st) {
			return "L"
		}
		if c02WinIsParked(st) {
			return "C"
		}
		runtime.Gosched()
	}
	return "?"
}

func c12RaceTrial(method byte, unordered bool, accept bool, parkActive bool, k int) string {
	const T = 30 * time.Second
	var key [32]byte
	for i := range key {
		key[i] = byte(i*5 + 1)
	}
	mk := func() Obfuscator {
		o, err := MakeObfuscator(method, key)
		if err != nil {
			panic(err)
		}
		return o
	}
	cfg := func() SessionConfig {
		return SessionConfig{Obfuscator: mk(), Unordered: unordered, MsgOnWireSizeLimit: 16401, InactivityTimeout: T}
	}
	b := MakeSession(1, cfg())
	peer := MakeSession(2, cfg())
	dec := MakeSession(3, cfg())
	var fins atomic.Int32
	for i := 0; i < 2; i++ {
		b.AddConnection(&c12RaceSink{dead: make(chan struct{}), dec: dec, fins: &fins})
	}
	var st [3]*Stream
	closeSeq := uint64(0)
	if accept {
		for sid := uint32(1); sid <= 2; sid++ {
			if err := b.recvDataFromRemote(c12RaceFrame(peer, sid, 0, false)); err != nil {
				return "setup-failed:" + err.Error()
			}
			c, _ := b.Accept()
			st[sid] = c.(*Stream)
		}
		closeSeq = 1
	} else {
		for sid := 1; sid <= 2; sid++ {
			s, err := b.OpenStream()
			if err != nil {
				return "setup-failed:" + err.Error()
			}
			st[s.id] = s
		}
	}
	gate := &c02WinGate{}
	switch rb := st[1].recvBuf.(type) {
	case *streamBuffer:
		rb.buf.rwCond.L = gate
	case *datagramBufferedPipe:
		rb.rwCond.L = gate
	}
	closing := c12RaceFrame(peer, 1, closeSeq, true)

	type thr struct {
		goid int64
		idle atomic.Int32
		goCh chan struct{}
		res  chan error
	}
	start := func(f func() error) *thr {
		t := &thr{goCh: make(chan struct{}), res: make(chan error, 1)}
		ready := make(chan int64)
		go func() {
			ready <- c02WinGoid()
			<-t.goCh
			err := f()
			t.idle.Store(1)
			t.res <- err
		}()
		t.goid = <-ready
		return t
	}
	passive := start(func() error { return b.recvDataFromRemote(closing) })
	active := start(func() error { return st[1].Close() })
	first, second := passive, active
	if parkActive {
		first, second = active, passive
	}
	gate.arm(first.goid, k)
	arrived, release := gate.arrived, gate.release
	close(first.goCh)
	state := ""
	var e1, e2 error
	select {
	case <-arrived:
		close(second.goCh)
		state = c12RaceSettle(second.goid, &second.idle)
		close(release)
		e1 = <-first.res
		e2 = <-second.res
	case e1 = <-first.res:
		gate.disarm()
		state = "N"
		close(second.goCh)
		e2 = <-second.res
	}
	ea := e2
	if parkActive {
		ea = e1
	}
	x := "ok"
	if errors.Is(ea, errRepeatStreamClosing) {
		x = "repeat"
	} else if ea != nil {
		x = "err"
	}
	synctest.Wait()
	live := func() int {
		n := 0
		b.streamsM.Lock()
		for _, s := range b.streams {
			if s != nil && !s.isClosed() {
				n++
			}
		}
		b.streamsM.Unlock()
		return n
	}
	count, lv, early := b.streamCount(), live(), b.IsClosed()
	time.Sleep(2*T + time.Second)
	synctest.Wait()
	after := b.IsClosed()
	// the other half of the sentence: with no open stream left the session does close on its timer
	idle := false
	if !after {
		st[2].Close()
		time.Sleep(2*T + time.Second)
		synctest.Wait()
		idle = b.IsClosed()
	}
	b.Close()
	peer.Close()
	dec.Close()
	synctest.Wait()
	return fmt.Sprintf("state=%s x=%s count=%d live=%d early=%s after2T=%s idle=%s fin=%d", state, x, count, lv, vfB(early), vfB(after), vfB(idle), fins.Load())
}

func TestVerifC12CloseRace(t *testing.T) {
	out := os.Getenv("VERIF_OUT")
	if out == "" {
		t.Skip()
	}
	fo, _ := os.Create(out)
	kmax := 3
	synctest.Run(func() {
		for method := byte(0); method < 4; method++ {
			for _, unordered := range []bool{false, true} {
				for _, accept := range []bool{true, false} {
					for _, parkActive := range []bool{false, true} {
						for k := 1; k <= kmax; k++ {
							if method > 0 && (k > 2 || !accept) { // the cipher plays no part in the window: one role, two positions
								continue
							}
							name := fmt.Sprintf("m%d-%s-%s-%s%d", method, map[bool]string{false: "ord", true: "unord"}[unordered],
								map[bool]string{true: "acc", false: "open"}[accept], map[bool]string{false: "P", true: "X"}[parkActive], k)
							res := func() (res string) {
								defer func() {
									if e := recover(); e != nil {
										res = "PANIC:" + fmt.Sprint(e)
									}
								}()
								return c12RaceTrial(method, unordered, accept, parkActive, k)
							}()
							fmt.Fprintf(fo, "%s %s\n", name, res)
						}
					}
				}
			}
		}
		fo.Close()
		syscall.Exit(0)
	})
}
