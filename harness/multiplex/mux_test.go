//go:build goexperiment.synctest

package multiplex

// Lock-step driver for the session-pair model coq/Model/Mux.v (properties C01 C03 C12 C13).
// Two real Sessions are joined by k in-memory connections owned by this harness: a Write
// hands the message to the harness (the wire tap decodes it), nothing reaches the other
// end until the scenario says so.  Every label runs to quiescence (synctest.Wait) on a
// virtual clock, then what became observable is printed.
//
// input : <id> k=<k> sp=<0|1> m=<0..3> lim=<MsgOnWireSizeLimit> toA=<s> toB=<s> | <step> ...
//   O:<side>  W:<side>:<sid>:<hex>  R:<side>:<sid>:<k>  A:<side>  X:<side>:<sid>  Z:<side>
//   D:<side>:<c> (deliver next message on conn c TO side)  F:<c>  T:<seconds>  Q
// output: <id> <obs> ... ; obs = comma-separated events
//   f<side><c>:<sid>:<seq>:<closing>:<len>   frame put on the wire
//   c<side><c>                               side closed its end of conn c
//   r<code>:<n>:<hex>                        result of the call
//   p<R|A><side>:<sid>:<k>:<code>:<n>:<hex>  a blocked call returned
//   q...                                     state dump

import (
	crand "crypto/rand"
	"errors"
	"fmt"
	"io"
	"net"
	"os"
	"runtime/coverage"
	"syscall"
	"strconv"
	"strings"
	"sync"
	"testing"
	"testing/synctest"
	"time"
)

type muxNet struct {
	mu     sync.Mutex
	events []string
	conns  []*muxPair
	dec    *Obfuscator
}

type muxPair struct {
	id     int
	q      [2][][]byte // q[0]: towards A, q[1]: towards B
	ends   [2]*muxEnd
	failed bool
}

type muxEnd struct {
	n      *muxNet
	p      *muxPair
	side   int // 0 = A, 1 = B
	inbox  chan []byte
	dead   chan struct{}
	once   sync.Once
	closed bool
}

var muxErrClosed = errors.New("vconn: closed")

func (e *muxEnd) Read(b []byte) (int, error) {
	select {
	case <-e.dead:
		return 0, muxErrClosed
	default:
	}
	select {
	case m, ok := <-e.inbox:
		if !ok {
			return 0, io.EOF
		}
		return copy(b, m), nil
	case <-e.dead:
		return 0, muxErrClosed
	}
}

func (e *muxEnd) Write(b []byte) (int, error) {
	e.n.mu.Lock()
	defer e.n.mu.Unlock()
	if e.closed || e.p.failed {
		// a send that fails: no frame leaves, but the model must know which connection was picked
		e.n.events = append(e.n.events, fmt.Sprintf("x%s%d", muxSide(e.side), e.p.id))
		return 0, muxErrClosed
	}
	m := append([]byte(nil), b...)
	cp := append([]byte(nil), b...)
	var f Frame
	if err := e.n.dec.deobfuscate(&f, cp); err != nil {
		e.n.events = append(e.n.events, fmt.Sprintf("f%s%d:undecodable", muxSide(e.side), e.p.id))
	} else {
		ln := len(f.Payload)
		if f.Closing != closingNothing {
			ln = 0 // closing notices carry random filler
		}
		e.n.events = append(e.n.events, fmt.Sprintf("f%s%d:%d:%d:%d:%d", muxSide(e.side), e.p.id, f.StreamID, f.Seq, f.Closing, ln))
	}
	e.p.q[1-e.side] = append(e.p.q[1-e.side], m)
	return len(b), nil
}

func (e *muxEnd) Close() error {
	e.n.mu.Lock()
	if !e.closed {
		e.closed = true
		e.n.events = append(e.n.events, fmt.Sprintf("c%s%d", muxSide(e.side), e.p.id))
	}
	e.n.mu.Unlock()
	e.once.Do(func() { close(e.dead) })
	return nil
}

type muxAddr struct{}

func (muxAddr) Network() string { return "vconn" }
func (muxAddr) String() string  { return "vconn" }

func (e *muxEnd) LocalAddr() net.Addr                { return muxAddr{} }
func (e *muxEnd) RemoteAddr() net.Addr               { return muxAddr{} }
func (e *muxEnd) SetDeadline(t time.Time) error      { return nil }
func (e *muxEnd) SetReadDeadline(t time.Time) error  { return nil }
func (e *muxEnd) SetWriteDeadline(t time.Time) error { return nil }

func muxSide(i int) string {
	if i == 0 {
		return "A"
	}
	return "B"
}
func muxSideIdx(s string) int {
	if s == "A" {
		return 0
	}
	return 1
}

type muxPending struct {
	kind string // R or A
	side int
	sid  uint32
	k    int
	res  chan string
}

func muxCode(err error) int {
	switch {
	case err == nil:
		return 0
	case errors.Is(err, ErrBrokenStream):
		return 1
	case errors.Is(err, ErrBrokenSession):
		return 2
	case errors.Is(err, errNoMultiplex):
		return 5
	default:
		return 4
	}
}

type muxRig struct {
	n       *muxNet
	sesh    [2]*Session
	handles [2]map[uint32]*Stream
	accq    [2][]*Stream // streams taken out of acceptCh by the harness, in order
	pend    []*muxPending
}

// drain moves everything that is waiting in acceptCh into the harness's own queue (so that
// it holds a handle on every stream object, as an application calling Accept would).
// A blocked Accept issued earlier has already taken its stream by now (quiescence).
func (r *muxRig) drain() {
	for s := 0; s < 2; s++ {
		for {
			var st *Stream
			select {
			case st = <-r.sesh[s].acceptCh:
			default:
			}
			if st == nil {
				break
			}
			r.accq[s] = append(r.accq[s], st)
			r.handles[s][st.id] = st
		}
	}
}

func (r *muxRig) hasPendingRead(side int, sid uint32) bool {
	for _, p := range r.pend {
		if p.kind == "R" && p.side == side && p.sid == sid {
			return true
		}
	}
	return false
}

func muxPipeEmpty(st *Stream) bool {
	sb, ok := st.recvBuf.(*streamBuffer)
	if !ok {
		return false
	}
	sb.buf.rwCond.L.Lock()
	defer sb.buf.rwCond.L.Unlock()
	return sb.buf.buf.Len() == 0 && !sb.buf.closed
}

func (r *muxRig) scan() {
	for s := 0; s < 2; s++ {
		r.sesh[s].streamsM.Lock()
		for id, st := range r.sesh[s].streams {
			if st != nil {
				if _, ok := r.handles[s][id]; !ok {
					r.handles[s][id] = st
				}
			}
		}
		r.sesh[s].streamsM.Unlock()
	}
}

func (r *muxRig) takeEvents() []string {
	r.n.mu.Lock()
	ev := r.n.events
	r.n.events = nil
	r.n.mu.Unlock()
	return ev
}

func muxCfg(kv map[string]string, k string, def int) int {
	if v, ok := kv[k]; ok {
		n, _ := strconv.Atoi(v)
		return n
	}
	return def
}

func muxRunScenario(line string) string {
	parts := strings.SplitN(line, "|", 2)
	head := strings.Fields(parts[0])
	id := head[0]
	kv := map[string]string{}
	for _, h := range head[1:] {
		p := strings.SplitN(h, "=", 2)
		if len(p) == 2 {
			kv[p[0]] = p[1]
		}
	}
	k := muxCfg(kv, "k", 1)
	sp := muxCfg(kv, "sp", 0) == 1
	method := byte(muxCfg(kv, "m", 0))
	lim := muxCfg(kv, "lim", 16401)
	toA := time.Duration(muxCfg(kv, "toA", 30)) * time.Second
	toB := time.Duration(muxCfg(kv, "toB", 30)) * time.Second

	var key [32]byte
	for i := range key {
		key[i] = byte(i*7 + 3)
	}
	mk := func() Obfuscator {
		o, err := MakeObfuscator(method, key)
		if err != nil {
			panic(err)
		}
		return o
	}
	dec := mk()
	n := &muxNet{dec: &dec}
	r := &muxRig{n: n}
	r.handles[0] = map[uint32]*Stream{}
	r.handles[1] = map[uint32]*Stream{}
	r.sesh[0] = MakeSession(1, SessionConfig{Obfuscator: mk(), Singleplex: sp, MsgOnWireSizeLimit: lim, InactivityTimeout: toA})
	r.sesh[1] = MakeSession(1, SessionConfig{Obfuscator: mk(), Singleplex: sp, MsgOnWireSizeLimit: lim, InactivityTimeout: toB})
	for c := 0; c < k; c++ {
		p := &muxPair{id: c}
		for s := 0; s < 2; s++ {
			p.ends[s] = &muxEnd{n: n, p: p, side: s, inbox: make(chan []byte), dead: make(chan struct{})}
		}
		n.conns = append(n.conns, p)
		r.sesh[0].AddConnection(p.ends[0])
		r.sesh[1].AddConnection(p.ends[1])
	}
	synctest.Wait()

	var out []string
	steps := []string{}
	if len(parts) > 1 {
		steps = strings.Fields(parts[1])
	}
	for _, stp := range steps {
		f := strings.Split(stp, ":")
		ret := ""
		resolved := ""
		if f[0] == "E" {
			// meta label: deliver on the j-th connection (mod their number) that has something for
			// this side (a message, else a FIN); resolved to a concrete D label, reported as "=D:<side>:<c>"
			s := muxSideIdx(f[1])
			j, _ := strconv.Atoi(f[2])
			var cand, fins []int
			n.mu.Lock()
			for _, p := range n.conns {
				if p.ends[s].closed || p.failed {
					continue
				}
				if len(p.q[s]) > 0 {
					cand = append(cand, p.id)
				} else if p.ends[1-s].closed {
					fins = append(fins, p.id)
				}
			}
			n.mu.Unlock()
			if len(cand) == 0 {
				cand = fins
			}
			c := 0
			if len(cand) > 0 {
				c = cand[j%len(cand)]
			}
			f = []string{"D", f[1], strconv.Itoa(c)}
			resolved = "=D:" + f[1] + ":" + f[2]
		}
		switch f[0] {
		case "O":
			s := muxSideIdx(f[1])
			st, err := r.sesh[s].OpenStream()
			if err == nil {
				r.handles[s][st.id] = st
				ret = fmt.Sprintf("r0:%d:-", st.id)
			} else {
				ret = fmt.Sprintf("r%d:0:-", muxCode(err))
			}
		case "W":
			s := muxSideIdx(f[1])
			sid64, _ := strconv.ParseUint(f[2], 10, 32)
			st := r.handles[s][uint32(sid64)]
			if st == nil {
				ret = "r6:0:-"
				break
			}
			done := make(chan string, 1)
			data := vfUnhex(f[3])
			go func() {
				nw, err := st.Write(data)
				done <- fmt.Sprintf("r%d:%d:-", muxCode(err), nw)
			}()
			synctest.Wait()
			select {
			case ret = <-done:
			default:
				ret = "r3:0:-" // a write never blocks on this network
			}
		case "R":
			s := muxSideIdx(f[1])
			sid64, _ := strconv.ParseUint(f[2], 10, 32)
			kk, _ := strconv.Atoi(f[3])
			st := r.handles[s][uint32(sid64)]
			if st == nil {
				ret = "r6:0:-"
				break
			}
			if r.hasPendingRead(s, uint32(sid64)) {
				ret = "r4:9:-" // one blocked read per stream at a time
				break
			}
			if kk > 0 && muxPipeEmpty(st) {
				kk = 1 // a read that is going to block asks for one byte (deterministic result)
			}
			p := &muxPending{kind: "R", side: s, sid: uint32(sid64), k: kk, res: make(chan string, 1)}
			go func() {
				buf := make([]byte, kk)
				nr, err := st.Read(buf)
				p.res <- fmt.Sprintf("%d:%d:%s", muxCode(err), nr, vfHex(buf[:nr]))
			}()
			synctest.Wait()
			select {
			case v := <-p.res:
				ret = "r" + v
			default:
				ret = "r3:0:-"
				r.pend = append(r.pend, p)
			}
		case "A":
			s := muxSideIdx(f[1])
			if !r.sesh[s].IsClosed() && len(r.accq[s]) > 0 {
				ret = fmt.Sprintf("r0:%d:-", r.accq[s][0].id)
				r.accq[s] = r.accq[s][1:]
				break
			}
			hasA := false
			for _, q := range r.pend {
				if q.kind == "A" && q.side == s {
					hasA = true
				}
			}
			if hasA {
				ret = "r4:9:-"
				break
			}
			p := &muxPending{kind: "A", side: s, res: make(chan string, 1)}
			go func() {
				c, err := r.sesh[s].Accept()
				if err != nil {
					p.res <- fmt.Sprintf("%d:0:-", muxCode(err))
				} else {
					r.handles[s][c.(*Stream).id] = c.(*Stream)
					p.res <- fmt.Sprintf("0:%d:-", c.(*Stream).id)
				}
			}()
			synctest.Wait()
			select {
			case v := <-p.res:
				ret = "r" + v
			default:
				ret = "r3:0:-"
				r.pend = append(r.pend, p)
			}
		case "X":
			s := muxSideIdx(f[1])
			sid64, _ := strconv.ParseUint(f[2], 10, 32)
			st := r.handles[s][uint32(sid64)]
			if st == nil {
				ret = "r6:0:-"
				break
			}
			done := make(chan string, 1)
			go func() {
				err := st.Close()
				done <- fmt.Sprintf("r%d:0:-", muxCode(err))
			}()
			synctest.Wait()
			select {
			case ret = <-done:
			default:
				ret = "r3:0:-"
			}
		case "Z":
			s := muxSideIdx(f[1])
			done := make(chan string, 1)
			go func() {
				err := r.sesh[s].Close()
				done <- fmt.Sprintf("r%d:0:-", muxCode(err))
			}()
			synctest.Wait()
			select {
			case ret = <-done:
			default:
				ret = "r3:0:-"
			}
		case "D":
			s := muxSideIdx(f[1])
			c, _ := strconv.Atoi(f[2])
			if c >= len(n.conns) {
				ret = "r4:0:-"
				break
			}
			p := n.conns[c]
			n.mu.Lock()
			gone := p.ends[s].closed || p.failed
			var m []byte
			fin := false
			if !gone {
				if len(p.q[s]) > 0 {
					m = p.q[s][0]
					p.q[s] = p.q[s][1:]
				} else if p.ends[1-s].closed {
					fin = true
				}
			}
			n.mu.Unlock()
			switch {
			case gone:
				ret = "r4:1:-"
			case m != nil:
				p.ends[s].inbox <- m
				ret = "r0:0:-"
			case fin:
				close(p.ends[s].inbox)
				ret = "r0:1:-"
			default:
				ret = "r4:2:-"
			}
		case "F":
			c, _ := strconv.Atoi(f[1])
			if c >= len(n.conns) {
				ret = "r4:0:-"
				break
			}
			p := n.conns[c]
			n.mu.Lock()
			was := p.failed
			p.failed = true
			p.q[0], p.q[1] = nil, nil
			n.mu.Unlock()
			if !was { // a connection that is already broken is left to the N labels
				for s := 0; s < 2; s++ {
					e := p.ends[s]
					e.once.Do(func() { close(e.dead) })
				}
			}
			ret = "r0:0:-"
		case "B": // the connection breaks; neither read loop has noticed yet
			c, _ := strconv.Atoi(f[1])
			if c >= len(n.conns) {
				ret = "r4:0:-"
				break
			}
			p := n.conns[c]
			n.mu.Lock()
			p.failed = true
			p.q[0], p.q[1] = nil, nil
			n.mu.Unlock()
			ret = "r0:0:-"
		case "N": // the read loop of one side sees the error of a broken connection
			s := muxSideIdx(f[1])
			c, _ := strconv.Atoi(f[2])
			if c >= len(n.conns) {
				ret = "r4:0:-"
				break
			}
			p := n.conns[c]
			n.mu.Lock()
			ok := p.failed && !p.ends[s].closed
			n.mu.Unlock()
			if ok {
				e := p.ends[s]
				e.once.Do(func() { close(e.dead) })
				ret = "r0:0:-"
			} else {
				ret = "r4:1:-"
			}
		case "T":
			secs, _ := strconv.Atoi(f[1])
			time.Sleep(time.Duration(secs) * time.Second)
			ret = "r0:0:-"
		case "Q":
			var q []string
			for s := 0; s < 2; s++ {
				se := r.sesh[s]
				se.streamsM.Lock()
				live := 0
				for _, st := range se.streams {
					if st != nil && !st.isClosed() {
						live++
					}
				}
				se.streamsM.Unlock()
				q = append(q, fmt.Sprintf("q%s:%s:%d:%d", muxSide(s), vfB(se.IsClosed()), se.streamCount(), live))
			}
			n.mu.Lock()
			for _, p := range n.conns {
				q = append(q, fmt.Sprintf("qc%d:%s%s%s:%d:%d", p.id, vfB(p.ends[0].closed), vfB(p.ends[1].closed), vfB(p.failed), len(p.q[0]), len(p.q[1])))
			}
			n.mu.Unlock()
			np := [2]int{}
			for _, p := range r.pend {
				np[p.side]++
			}
			q = append(q, fmt.Sprintf("qp%d:%d:%d", len(r.pend), np[0], np[1]))
			ret = strings.Join(q, ",")
		}
		synctest.Wait()
		r.drain()
		r.scan()
		evs := r.takeEvents()
		if resolved != "" {
			evs = append([]string{resolved}, evs...)
		}
		evs = append(evs, ret)
		// blocked calls that have returned meanwhile, in issue order
		var still []*muxPending
		for _, p := range r.pend {
			select {
			case v := <-p.res:
				evs = append(evs, fmt.Sprintf("p%s%s:%d:%d:%s", p.kind, muxSide(p.side), p.sid, p.k, v))
			default:
				still = append(still, p)
			}
		}
		r.pend = still
		out = append(out, strings.Join(evs, ","))
	}
	return id + " " + strings.Join(out, " ")
}

// muxRand replaces crypto/rand.Reader for the whole driver run: deterministic, and single-byte reads
// (the pad-length byte of closing notices) walk through the boundary values 0xFF, 0x00, ... so that
// every close path that depends on the drawn byte is taken in every run, not once in 256 closes.
type muxRand struct {
	mu    sync.Mutex
	state uint64
	ones  uint64
}

func (r *muxRand) next() uint64 {
	r.state ^= r.state << 13
	r.state ^= r.state >> 7
	r.state ^= r.state << 17
	return r.state
}

func (r *muxRand) Read(p []byte) (int, error) {
	r.mu.Lock()
	defer r.mu.Unlock()
	if len(p) == 1 {
		edge := [...]byte{0xFF, 0x00, 0x80, 0xFE, 0x01}
		i := r.ones
		r.ones++
		if i%8 < uint64(len(edge)) {
			p[0] = edge[i%8]
		} else {
			p[0] = byte(r.next() >> 24)
		}
		return 1, nil
	}
	for i := range p {
		p[i] = byte(r.next() >> 24)
	}
	return len(p), nil
}

func TestVerifMux(t *testing.T) {
	sc, w, done := vfIO(t)
	crand.Reader = &muxRand{state: 0x9E3779B97F4A7C15}
	synctest.Run(func() {
		for sc.Scan() {
			line := strings.TrimSpace(sc.Text())
			if line == "" {
				continue
			}
			res := func() (res string) {
				defer func() {
					if e := recover(); e != nil {
						res = strings.Fields(line)[0] + " PANIC:" + strings.ReplaceAll(fmt.Sprint(e), " ", "_")
					}
				}()
				return muxRunScenario(line)
			}()
			w.WriteString(res + "\n")
		}
		done()
		// sessions of finished scenarios keep never-ending goroutines alive in this bubble; syscall.Exit skips
		// the testing package's profile writer, so a coverage run (tools/coverage.py) flushes its counters here
		if d := os.Getenv("VERIF_COVDIR"); d != "" {
			_ = coverage.WriteMetaDir(d)
			_ = coverage.WriteCountersDir(d)
		}
		syscall.Exit(0)
	})
}
