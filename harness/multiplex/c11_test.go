package multiplex

// C11 driver: the real deobfuscate on honest, modified and arbitrary byte strings, and
// arbitrary bytes fed to a live Session through recvDataFromRemote.
// spec = <m> <key> <sid> <seq> <closing> <payload> <seed>   (honest frame, obfuscated with a seeded byte source)
//   <id> FLIPS <spec>                 -> <id> hon=<msg> <one char per single-bit flip, byte-major, bit 0..7> [acc:<byte>.<bit>:<dec>]...
//   <id> TRUNC <spec>                 -> <id> hon=<msg> <one char per proper prefix msg[:k], k=0..n-1> [acc:<k>:<dec>]...
//   <id> EXT <spec> <ext>             -> <id> hon=<msg> <one char per msg ++ ext[:j], j=1..|ext|> [acc:<j>:<dec>]...
//   <id> CORR <spec> <cseed> <count>  -> <id> hon=<msg> c:<corrupted msg>:<res>...     (random multi-byte corruptions)
//   <id> FOREIGN <spec> <m2> <key2>   -> <id> hon=<msg> <res>                         (decoded under another method/key)
//   <id> DEC <m> <key> <msg>          -> <id> <res>
//   <id> LIVE <m> <key> <seed> <nrand> <maxlen> [<hex>...]
//        -> <id> fed=<n> panics=<k> errs=<k> accepted=<k> changed=<0|1> closed=<0|1> after=<ok|skipped|why> [panicinput=<hex>] [acceptedinput=<hex>]
// chars: s err:short, x err:extralen, a err:auth, K accepted, P panic
// res = ok,<sid>,<seq>,<closing>,<payload> | err:<kind> | panic        (DEC prints it with blanks instead of commas)

import (
	"crypto/rand"
	"fmt"
	"io"
	"strconv"
	"strings"
	"testing"
	"time"
)

type c11Det struct{ s uint64 }

func (d *c11Det) next() uint64 {
	d.s += 0x9e3779b97f4a7c15
	z := d.s
	z = (z ^ (z >> 30)) * 0xbf58476d1ce4e5b9
	z = (z ^ (z >> 27)) * 0x94d049bb133111eb
	return z ^ (z >> 31)
}

func (d *c11Det) Read(p []byte) (int, error) {
	for i := range p {
		p[i] = byte(d.next() >> 24)
	}
	return len(p), nil
}

func c11Key(s string) (k [32]byte) {
	copy(k[:], vfUnhex(s))
	return
}

// deobfuscate on a private copy under recover
func c11Decode(o *Obfuscator, msg []byte, sep string) (out string) {
	defer func() {
		if r := recover(); r != nil {
			out = "panic"
		}
	}()
	in := make([]byte, len(msg))
	copy(in, msg)
	var f Frame
	if err := o.deobfuscate(&f, in); err != nil {
		s := err.Error()
		switch {
		case strings.Contains(s, "cannot be shorter"):
			return "err:short"
		case strings.Contains(s, "extra length"):
			return "err:extralen"
		default:
			return "err:auth"
		}
	}
	return strings.Join([]string{"ok", strconv.FormatUint(uint64(f.StreamID), 16), strconv.FormatUint(f.Seq, 16),
		strconv.FormatUint(uint64(f.Closing), 16), vfHex(f.Payload)}, sep)
}

func c11Code(res string) byte {
	switch {
	case strings.HasPrefix(res, "ok"):
		return 'K'
	case res == "err:short":
		return 's'
	case res == "err:extralen":
		return 'x'
	case res == "err:auth":
		return 'a'
	}
	return 'P'
}

// honest message for a spec (fields fs[0..6]), obfuscated with a seeded byte source
func c11Honest(fs []string) (*Obfuscator, []byte, error) {
	m, _ := strconv.Atoi(fs[0])
	o, err := MakeObfuscator(byte(m), c11Key(fs[1]))
	if err != nil {
		return nil, nil, err
	}
	sid, _ := strconv.ParseUint(fs[2], 16, 32)
	seq, _ := strconv.ParseUint(fs[3], 16, 64)
	cl, _ := strconv.ParseUint(fs[4], 16, 8)
	payload := vfUnhex(fs[5])
	seed, _ := strconv.ParseUint(fs[6], 10, 64)
	old := rand.Reader
	rand.Reader = io.Reader(&c11Det{s: seed})
	defer func() { rand.Reader = old }()
	buf := make([]byte, 16640)
	f := Frame{StreamID: uint32(sid), Seq: seq, Closing: uint8(cl), Payload: payload}
	n, err := o.obfuscate(&f, buf, 0)
	if err != nil {
		return nil, nil, err
	}
	return &o, buf[:n], nil
}

type c11Variants struct {
	sb   strings.Builder
	accs strings.Builder
}

func (v *c11Variants) add(o *Obfuscator, label string, msg []byte) {
	res := c11Decode(o, msg, ",")
	v.sb.WriteByte(c11Code(res))
	if strings.HasPrefix(res, "ok") {
		v.accs.WriteString(" acc:" + label + ":" + res)
	}
}

func (v *c11Variants) String() string {
	s := v.sb.String()
	if s == "" {
		s = "-"
	}
	return s + v.accs.String()
}

func c11Live(m int, key [32]byte, seed uint64, nrand, maxlen int, explicit [][]byte) string {
	o, err := MakeObfuscator(byte(m), key)
	if err != nil {
		return "after=makeobfuscator"
	}
	sesh := MakeSession(0, SessionConfig{Obfuscator: o, InactivityTimeout: time.Hour})
	defer func() {
		defer func() { recover() }()
		sesh.Close()
	}()
	type state struct {
		streams, count, accq int
		closed               bool
	}
	snap := func() state {
		sesh.streamsM.Lock()
		n := len(sesh.streams)
		sesh.streamsM.Unlock()
		return state{n, int(sesh.streamCount()), len(sesh.acceptCh), sesh.IsClosed()}
	}
	if m == 0 {
		// no authentication: garbage opens streams; keep the accept queue drained so that recvDataFromRemote cannot block
		go func() {
			for {
				if _, err := sesh.Accept(); err != nil {
					return
				}
			}
		}()
	}
	before := snap()
	det := &c11Det{s: seed}
	fed, panics, errs, accepted := 0, 0, 0, 0
	panicInput, acceptedInput := "", ""
	feed := func(data []byte) {
		fed++
		in := make([]byte, len(data), len(data)+16)
		copy(in, data)
		defer func() {
			if r := recover(); r != nil {
				panics++
				if panicInput == "" {
					panicInput = vfHex(data)
				}
			}
		}()
		if err := sesh.recvDataFromRemote(in); err != nil {
			errs++
		} else {
			accepted++
			if acceptedInput == "" {
				acceptedInput = vfHex(data)
			}
		}
	}
	for _, e := range explicit {
		feed(e)
	}
	buf := make([]byte, maxlen)
	for i := 0; i < nrand; i++ {
		var l int
		switch det.next() % 4 {
		case 0:
			l = int(det.next() % 64)
		case 1:
			l = int(det.next() % 600)
		default:
			l = int(det.next() % uint64(maxlen+1))
		}
		det.Read(buf[:l])
		feed(buf[:l])
	}
	// structured near-valid strings: honest frames of this session with one byte outside the two
	// unauthenticated header positions altered, or truncated / extended
	if m != 0 {
		hb := make([]byte, 2048)
		for i := 0; i < nrand/5; i++ {
			pl := make([]byte, 1+det.next()%300)
			det.Read(pl)
			fr := Frame{StreamID: uint32(1 + det.next()%5), Seq: det.next() % 8, Closing: uint8(det.next() % 3), Payload: pl}
			n, err := o.obfuscate(&fr, hb, 0)
			if err != nil {
				continue
			}
			mm := append([]byte{}, hb[:n]...)
			switch det.next() % 3 {
			case 0:
				pos := int(det.next() % uint64(n))
				for pos == 12 || pos == 13 {
					pos = int(det.next() % uint64(n))
				}
				mm[pos] ^= byte(1 + det.next()%255)
			case 1:
				mm = mm[:det.next()%uint64(n)]
			default:
				ext := make([]byte, 1+det.next()%16)
				det.Read(ext)
				mm = append(mm, ext...)
			}
			feed(mm)
		}
	}
	after := snap()
	changed := 0
	if after != before {
		changed = 1
	}
	res := fmt.Sprintf("fed=%d panics=%d errs=%d accepted=%d changed=%d closed=%s", fed, panics, errs, accepted, changed, vfB(after.closed))
	// a valid frame sent afterwards must still be delivered
	verdict := "skipped"
	if m != 0 {
		verdict = func() (v string) {
			defer func() {
				if r := recover(); r != nil {
					v = "panic"
				}
			}()
			payload := []byte("still-delivered")
			fr := Frame{StreamID: 7, Seq: 0, Closing: closingNothing, Payload: payload}
			b := make([]byte, 1024)
			n, err := o.obfuscate(&fr, b, 0)
			if err != nil {
				return "obfuscate-failed"
			}
			if err := sesh.recvDataFromRemote(b[:n]); err != nil {
				return "valid-frame-rejected"
			}
			type acc struct {
				s   *Stream
				err error
			}
			ch := make(chan acc, 1)
			go func() {
				c, err := sesh.Accept()
				if err != nil {
					ch <- acc{nil, err}
					return
				}
				ch <- acc{c.(*Stream), nil}
			}()
			select {
			case a := <-ch:
				if a.err != nil {
					return "accept-failed"
				}
				if a.s.id != 7 {
					return fmt.Sprintf("accepted-stream-%d", a.s.id)
				}
				got := make([]byte, 64)
				rd := make(chan string, 1)
				go func() {
					n, err := a.s.Read(got)
					if err != nil {
						rd <- "read-failed"
					} else if string(got[:n]) != string(payload) {
						rd <- "wrong-data"
					} else {
						rd <- "ok"
					}
				}()
				select {
				case r := <-rd:
					return r
				case <-time.After(3 * time.Second):
					return "read-blocked"
				}
			case <-time.After(3 * time.Second):
				return "no-stream-accepted"
			}
		}()
	}
	res += " after=" + verdict
	if panicInput != "" {
		res += " panicinput=" + panicInput
	}
	if acceptedInput != "" && m != 0 {
		res += " acceptedinput=" + acceptedInput
	}
	return res
}

func TestVerifC11(t *testing.T) {
	sc, w, done := vfIO(t)
	defer done()
	for sc.Scan() {
		fs := vfFields(sc.Text())
		if len(fs) < 2 {
			continue
		}
		id := fs[0]
		switch fs[1] {
		case "DEC":
			m, _ := strconv.Atoi(fs[2])
			o, err := MakeObfuscator(byte(m), c11Key(fs[3]))
			if err != nil {
				fmt.Fprintf(w, "%s err:makeobfuscator\n", id)
				continue
			}
			fmt.Fprintf(w, "%s %s\n", id, c11Decode(&o, vfUnhex(fs[4]), " "))
		case "FLIPS", "TRUNC", "EXT", "CORR", "FOREIGN":
			o, msg, err := c11Honest(fs[2:9])
			if err != nil {
				fmt.Fprintf(w, "%s honest-failed:%s\n", id, strings.ReplaceAll(err.Error(), " ", "_"))
				continue
			}
			var v c11Variants
			switch fs[1] {
			case "FLIPS":
				mm := make([]byte, len(msg))
				for i := range msg {
					for b := 0; b < 8; b++ {
						copy(mm, msg)
						mm[i] ^= 1 << uint(b)
						v.add(o, fmt.Sprintf("%d.%d", i, b), mm)
					}
				}
				fmt.Fprintf(w, "%s hon=%s %s\n", id, vfHex(msg), v.String())
			case "TRUNC":
				for k := 0; k < len(msg); k++ {
					v.add(o, strconv.Itoa(k), msg[:k])
				}
				fmt.Fprintf(w, "%s hon=%s %s\n", id, vfHex(msg), v.String())
			case "EXT":
				ext := vfUnhex(fs[9])
				for j := 1; j <= len(ext); j++ {
					mm := append(append([]byte{}, msg...), ext[:j]...)
					v.add(o, strconv.Itoa(j), mm)
				}
				fmt.Fprintf(w, "%s hon=%s %s\n", id, vfHex(msg), v.String())
			case "CORR":
				cseed, _ := strconv.ParseUint(fs[9], 10, 64)
				count, _ := strconv.Atoi(fs[10])
				det := &c11Det{s: cseed}
				fmt.Fprintf(w, "%s hon=%s", id, vfHex(msg))
				for c := 0; c < count; c++ {
					mm := append([]byte{}, msg...)
					k := 2 + int(det.next()%6) // 2..7 bytes altered
					for j := 0; j < k; j++ {
						var pos int
						if det.next()%3 == 0 {
							pos = int(det.next() % 14) // bias towards the header
						} else {
							pos = int(det.next() % uint64(len(mm)))
						}
						mm[pos] ^= byte(1 + det.next()%255)
					}
					fmt.Fprintf(w, " c:%s:%s", vfHex(mm), c11Decode(o, mm, ","))
				}
				fmt.Fprintf(w, "\n")
			case "FOREIGN":
				m2, _ := strconv.Atoi(fs[9])
				o2, err := MakeObfuscator(byte(m2), c11Key(fs[10]))
				if err != nil {
					fmt.Fprintf(w, "%s err:makeobfuscator\n", id)
					continue
				}
				fmt.Fprintf(w, "%s hon=%s %s\n", id, vfHex(msg), c11Decode(&o2, msg, ","))
			}
		case "LIVE":
			m, _ := strconv.Atoi(fs[2])
			seed, _ := strconv.ParseUint(fs[4], 10, 64)
			nrand, _ := strconv.Atoi(fs[5])
			maxlen, _ := strconv.Atoi(fs[6])
			var explicit [][]byte
			for _, h := range fs[7:] {
				explicit = append(explicit, vfUnhex(h))
			}
			fmt.Fprintf(w, "%s %s\n", id, c11Live(m, c11Key(fs[3]), seed, nrand, maxlen, explicit))
		}
	}
}
