package multiplex

// C02 window driver: TWO deliverer goroutines (as two connections' deplex loops) hand frames of one
// stream to the re-sequencer, and one of them is parked INSIDE its delivery - at the k-th acquisition
// of the byte pipe's own lock, i.e. after the sequence number has been looked at / taken and before
// the payload (or the close) reaches the pipe - while the other one delivers its next frame.
//
// The seam: streamBufferedPipe.rwCond.L is a sync.Locker; the driver swaps in c02WinGate, which
// forwards to a real mutex but parks a designated goroutine at its k-th Lock call until released.
// "The other deliverer has finished or is blocked on a lock" is read off runtime.Stack (goroutine
// wait state), so no grace period is involved: the outcome of a schedule is deterministic.
//
// input : <id> V <level 0|1|2> <base hex> <tok> ...
//   A:<seq hex>:<closing>:<payload hex>    deliverer A hands this frame over, to completion
//   B:...                                  same for deliverer B
//   P:<k>:<seqA>:<clA>:<plA>:<seqB>:<clB>:<plB>
//        A starts its frame and is parked at its k-th pipe-lock acquisition; B then delivers its frame
//        (until it returns or blocks); A is released; both finish
//   Q:...  as P with the roles swapped (B parked, A runs)
//   R:<n>  the reader takes up to n bytes if any are there
//   level 0 = streamBuffer.Write, 1 = Stream.recvFrame, 2 = Session.recvDataFromRemote (plain cipher)
// output: <id> tokens
//   w<toBeClosed><err>@<bytes handed to the pipe so far>     (level 0; levels 1,2: e<err>)
//   p<N|L|D|?>:<first>:<second>     N = the parked side never reached lock acquisition k (then the
//        two deliveries simply ran one after the other), L = the running side was blocked on a lock
//        while the other was parked, D = it ran to completion meanwhile; first/second = the two
//        results in the token's order (parked side first)
//   r:<hex> | rE (nothing there) | rF (end of stream)

import (
	"fmt"
	"net"
	"regexp"
	"runtime"
	"strconv"
	"strings"
	"sync"
	"sync/atomic"
	"testing"
	"time"
)

var c02WinGoidRe = regexp.MustCompile(`^goroutine (\d+) \[`)

func c02WinGoid() int64 {
	var buf [64]byte
	n := runtime.Stack(buf[:], false)
	m := c02WinGoidRe.FindSubmatch(buf[:n])
	if m == nil {
		return -1
	}
	id, _ := strconv.ParseInt(string(m[1]), 10, 64)
	return id
}

var c02WinStackBuf = make([]byte, 1<<20)
var c02WinStackM sync.Mutex

// wait state of one goroutine as runtime.Stack prints it ("" = no such goroutine)
func c02WinState(goid int64) string {
	c02WinStackM.Lock()
	defer c02WinStackM.Unlock()
	n := runtime.Stack(c02WinStackBuf, true)
	key := []byte("goroutine " + strconv.FormatInt(goid, 10) + " [")
	s := c02WinStackBuf[:n]
	for i := 0; i+len(key) <= len(s); {
		j := strings.Index(string(s[i:]), string(key))
		if j < 0 {
			return ""
		}
		j += i
		if j == 0 || s[j-1] == '\n' {
			e := strings.IndexByte(string(s[j+len(key):]), ']')
			if e < 0 {
				return ""
			}
			return string(s[j+len(key) : j+len(key)+e])
		}
		i = j + 1
	}
	return ""
}

func c02WinIsLockWait(st string) bool {
	return strings.Contains(st, "Mutex") || strings.HasPrefix(st, "semacquire")
}

func c02WinIsParked(st string) bool {
	if st == "" {
		return false
	}
	for _, p := range []string{"running", "runnable", "syscall", "copystack", "preempted", "GC ", "waiting"} {
		if strings.HasPrefix(st, p) {
			return false
		}
	}
	return true
}

// c02WinSettle waits until the goroutine has finished its delivery (idle flag set) or is not going
// to move by itself; returns "D" (done), "L" (blocked on a mutex), "C" (parked on something else
// inside the delivery), "?" (watchdog)
func c02WinSettle(goid int64, idle *atomic.Int32) string {
	for i := 0; i < 400000; i++ {
		if idle.Load() == 1 {
			return "D"
		}
		st := c02WinState(goid)
		if idle.Load() == 1 {
			return "D"
		}
		if c02WinIsLockWait(st) {
			return "L"
		}
		if c02WinIsParked(st) {
			return "C"
		}
		runtime.Gosched()
	}
	return "?"
}

// c02WinGate is the replacement Locker for the pipe's condition variable
type c02WinGate struct {
	mu       sync.Mutex // the real lock
	ctl      sync.Mutex
	calls    int   // Lock calls seen since arm()
	parkGoid int64 // goroutine to park ...
	parkAt   int   // ... at its parkAt-th Lock call (0 = nobody)
	mine     int
	arrived  chan struct{}
	release  chan struct{}
}

func (g *c02WinGate) arm(goid int64, k int) {
	g.ctl.Lock()
	g.parkGoid, g.parkAt, g.mine, g.calls = goid, k, 0, 0
	g.arrived = make(chan struct{})
	g.release = make(chan struct{})
	g.ctl.Unlock()
}

func (g *c02WinGate) disarm() {
	g.ctl.Lock()
	g.parkAt = 0
	g.ctl.Unlock()
}

func (g *c02WinGate) Lock() {
	g.ctl.Lock()
	g.calls++
	park := false
	var arrived, release chan struct{}
	if g.parkAt > 0 && c02WinGoid() == g.parkGoid {
		g.mine++
		if g.mine == g.parkAt {
			park = true
			g.parkAt = 0
			arrived, release = g.arrived, g.release
		}
	}
	g.ctl.Unlock()
	if park {
		close(arrived)
		<-release
	}
	g.mu.Lock()
}

func (g *c02WinGate) Unlock() { g.mu.Unlock() }

type c02WinCmd struct {
	seq     uint64
	closing bool
	payload []byte
	res     chan string
}

type c02WinRig struct {
	level   int
	sb      *streamBuffer
	st      *Stream
	sesh    *Session
	peer    *Session
	gate    *c02WinGate
	read    int // bytes the reader has taken so far
	cmds    [2]chan c02WinCmd
	goids   [2]int64
	idle    [2]atomic.Int32
	scratch [2][]byte
}

func (r *c02WinRig) handedOver() int {
	r.gate.mu.Lock()
	defer r.gate.mu.Unlock()
	return r.sb.buf.buf.Len() + r.read
}

func (r *c02WinRig) deliver(who int, c c02WinCmd) string {
	// the frame's payload lives in the deliverer's receive buffer, which is reused for the next read
	r.scratch[who] = append(r.scratch[who][:0], c.payload...)
	f := &Frame{StreamID: 1, Seq: c.seq, Payload: r.scratch[who]}
	if c.closing {
		f.Closing = closingStream
	}
	var out string
	switch r.level {
	case 0:
		tbc, err := r.sb.Write(f)
		out = "w" + vfB(tbc) + vfB(err != nil) + "@" + strconv.Itoa(r.handedOver())
	case 1:
		err := r.st.recvFrame(f)
		out = "e" + vfB(err != nil)
	default:
		buf := make([]byte, 16401)
		n, err := r.peer.obfuscate(f, buf, 0)
		if err != nil {
			out = "eO"
			break
		}
		err = r.sesh.recvDataFromRemote(buf[:n])
		out = "e" + vfB(err != nil)
	}
	for i := range r.scratch[who] {
		r.scratch[who][i] = 0xEE
	}
	return out
}

func c02WinNewRig(level int, base uint64) *c02WinRig {
	r := &c02WinRig{level: level, gate: &c02WinGate{}}
	if level == 0 {
		r.sb = NewStreamBuffer()
	} else {
		var key [32]byte
		obfs, _ := MakeObfuscator(EncryptionMethodPlain, key)
		cfg := SessionConfig{Obfuscator: obfs, MsgOnWireSizeLimit: 16401, InactivityTimeout: time.Hour}
		r.sesh = MakeSession(1, cfg)
		r.peer = MakeSession(2, cfg)
		r.sesh.AddConnection(&c02WinSink{dead: make(chan struct{})})
		r.sesh.AddConnection(&c02WinSink{dead: make(chan struct{})})
		// a second, idle stream keeps the session multiplexing as usual
		r.st = makeStream(r.sesh, 1)
		r.sesh.streamsM.Lock()
		r.sesh.streamCountIncr()
		r.sesh.streams[1] = r.st
		r.sesh.streamsM.Unlock()
		r.sb = r.st.recvBuf.(*streamBuffer)
	}
	r.sb.nextRecvSeq = base
	r.sb.buf.rwCond.L = r.gate
	for who := 0; who < 2; who++ {
		r.cmds[who] = make(chan c02WinCmd)
		ready := make(chan int64)
		go func(who int) {
			ready <- c02WinGoid()
			for c := range r.cmds[who] {
				res := r.deliver(who, c)
				r.idle[who].Store(1)
				c.res <- res
			}
		}(who)
		r.goids[who] = <-ready
		r.scratch[who] = make([]byte, 0, 1<<12)
	}
	return r
}

func (r *c02WinRig) stop() {
	close(r.cmds[0])
	close(r.cmds[1])
	if r.sesh != nil {
		r.sesh.Close()
		r.peer.Close()
	}
}

func c02WinParse(p []string) c02WinCmd {
	seq, _ := strconv.ParseUint(p[0], 16, 64)
	return c02WinCmd{seq: seq, closing: p[1] == "1", payload: vfUnhex(p[2]), res: make(chan string, 1)}
}

// one window: side [pk] is parked at its k-th pipe-lock acquisition while the other delivers
func (r *c02WinRig) window(pk int, k int, cp, co c02WinCmd) string {
	r.gate.arm(r.goids[pk], k)
	arrived := r.gate.arrived
	release := r.gate.release
	r.cmds[pk] <- cp
	var first string
	select {
	case <-arrived:
	case first = <-cp.res:
		// never got as far as lock acquisition k: plain sequential delivery
		r.gate.disarm()
		r.cmds[1-pk] <- co
		return "pN:" + first + ":" + <-co.res
	}
	r.idle[1-pk].Store(0)
	r.cmds[1-pk] <- co
	state := c02WinSettle(r.goids[1-pk], &r.idle[1-pk])
	close(release)
	first = <-cp.res
	return "p" + state + ":" + first + ":" + <-co.res
}

type c02WinSink struct {
	dead chan struct{}
	once sync.Once
}

func (c *c02WinSink) Read(b []byte) (int, error) {
	<-c.dead
	return 0, fmt.Errorf("closed")
}
func (c *c02WinSink) Write(b []byte) (int, error)        { return len(b), nil }
func (c *c02WinSink) Close() error                       { c.once.Do(func() { close(c.dead) }); return nil }
func (c *c02WinSink) LocalAddr() net.Addr                { return nil }
func (c *c02WinSink) RemoteAddr() net.Addr               { return nil }
func (c *c02WinSink) SetDeadline(t time.Time) error      { return nil }
func (c *c02WinSink) SetReadDeadline(t time.Time) error  { return nil }
func (c *c02WinSink) SetWriteDeadline(t time.Time) error { return nil }

func c02WinRun(fs []string) string {
	level, _ := strconv.Atoi(fs[2])
	base, _ := strconv.ParseUint(fs[3], 16, 64)
	r := c02WinNewRig(level, base)
	defer r.stop()
	var out []string
	for _, tok := range fs[4:] {
		p := strings.Split(tok, ":")
		switch p[0] {
		case "A", "B":
			who := int(p[0][0] - 'A')
			c := c02WinParse(p[1:])
			r.cmds[who] <- c
			out = append(out, <-c.res)
		case "P", "Q":
			pk := 0
			if p[0] == "Q" {
				pk = 1
			}
			k, _ := strconv.Atoi(p[1])
			ca, cb := c02WinParse(p[2:5]), c02WinParse(p[5:8])
			if pk == 0 {
				out = append(out, r.window(0, k, ca, cb))
			} else {
				out = append(out, r.window(1, k, cb, ca))
			}
		case "R":
			n, _ := strconv.Atoi(p[1])
			r.gate.mu.Lock()
			empty := r.sb.buf.buf.Len() == 0
			closed := r.sb.buf.closed
			r.gate.mu.Unlock()
			if empty && !closed {
				out = append(out, "rE")
				break
			}
			buf := make([]byte, n)
			var got int
			var err error
			if level == 0 {
				got, err = r.sb.Read(buf)
			} else {
				got, err = r.st.Read(buf)
			}
			if err != nil {
				out = append(out, "rF")
			} else {
				r.gate.mu.Lock()
				r.read += got
				r.gate.mu.Unlock()
				out = append(out, "r:"+vfHex(buf[:got]))
			}
		}
	}
	return fs[0] + " " + strings.Join(out, " ")
}

func TestVerifC02Win(t *testing.T) {
	sc, w, done := vfIO(t)
	defer done()
	for sc.Scan() {
		fs := vfFields(sc.Text())
		if len(fs) < 4 || fs[1] != "V" {
			continue
		}
		res := func() (res string) {
			defer func() {
				if e := recover(); e != nil {
					res = fs[0] + " PANIC:" + strings.ReplaceAll(fmt.Sprint(e), " ", "_")
				}
			}()
			return c02WinRun(fs)
		}()
		w.WriteString(res + "\n")
	}
}
